package tplgen

import (
	"fmt"
	"strings"

	"github.com/goplus/xgo/tpl/ast"
	"github.com/goplus/xgo/tpl/parser"
	"github.com/goplus/xgo/tpl/token"
	"pgregory.net/rapid"
)

// ---- literals --------------------------------------------------------------------------------

var simpleEscapes = map[byte]string{7: `\a`, 8: `\b`, 12: `\f`, 10: `\n`, 13: `\r`, 9: `\t`, 11: `\v`, '\\': `\\`}

func escapeForms(b byte) []string {
	out := []string{
		fmt.Sprintf(`\x%02x`, b), fmt.Sprintf(`\x%02X`, b), fmt.Sprintf(`\%03o`, b),
		fmt.Sprintf(`\u%04x`, b), fmt.Sprintf(`\U%08X`, b),
	}
	if s, ok := simpleEscapes[b]; ok {
		out = append(out, s)
	}
	return out
}

// CharSpellings returns every spelling of a CHAR literal that denotes the code point b: the
// \x, \X-digit, octal, \u and \U escapes, the simple escape if one exists, and the character
// itself (UTF-8 encoded) unless it is a newline, quote or backslash. For b >= 0x80 the \x and
// octal forms denote the byte b (accepted as a one-byte token value by the compiler), the
// others the rune U+00bb (rejected as multibyte): all are legal Go rune spellings.
func CharSpellings(b byte) []string {
	var out []string
	for _, e := range escapeForms(b) {
		out = append(out, "'"+e+"'")
	}
	switch b {
	case '\'':
		out = append(out, `'\''`)
	case '\n', '\\':
	default:
		out = append(out, "'"+string(rune(b))+"'")
	}
	return out
}

// StringSpellings returns every spelling of a STRING literal with the one-character value b:
// the escapes of CharSpellings in double quotes, \" for the quote, the plain character, and
// the raw (back-quoted) form where one exists.
func StringSpellings(b byte) []string {
	var out []string
	for _, e := range escapeForms(b) {
		out = append(out, `"`+e+`"`)
	}
	switch b {
	case '"':
		out = append(out, `"\""`, "`\"`")
	case '\\':
		out = append(out, "`\\`")
	case '\n':
		out = append(out, "`\n`")
	case '`':
		out = append(out, "\"`\"")
	case '\r': // a raw string drops \r: not a one-byte spelling
		out = append(out, "\"\r\"")
	default:
		out = append(out, `"`+string(rune(b))+`"`, "`"+string(rune(b))+"`")
	}
	return out
}

// RawByteSpellings returns the literals that contain the raw byte b itself between the quotes
// (for b >= 0x80 that is invalid UTF-8, for 0 a NUL, for '\n' an unterminated literal): inputs
// the scanner must reject or accept without any later stage panicking.
func RawByteSpellings(b byte) []string {
	s := string([]byte{b})
	return []string{"'" + s + "'", `"` + s + `"`, "`" + s + "`"}
}

// Operators is the documented operator alphabet of the TPL token table (tpl/token), hard-coded
// so that generation does not depend on the table under test.
var Operators = []string{"+", "-", "*", "/", "%", "&", "|", "^", "<", ">", "=", "!", "(", "[", "{", ",", ".", ")", "]", "}", ";", ":",
	"?", "~", "@", "$", "<<", ">>", "&^", "+=", "-=", "*=", "/=", "%=", "&=", "|=", "^=", "<<=", ">>=", "&^=", "&&", "||", "<-", "++", "--",
	"==", "!=", "<=", ">=", ":=", "...", "=>", "->", "<>", "**"}

// Keywords are identifier-like literal bodies ("if" matches the IDENT token spelled if).
var Keywords = []string{"if", "else", "for", "DECLARE", "x", "_", "a1", "THEN"}

// TokenClasses are the identifiers the compiler resolves to token classes and pseudo rules.
var TokenClasses = []string{"EOF", "COMMENT", "IDENT", "INT", "FLOAT", "IMAG", "CHAR", "STRING", "RAT", "UNIT", "LPAREN", "RPAREN",
	"LBRACK", "RBRACK", "LBRACE", "RBRACE", "RAWSTRING", "QSTRING", "SPACE"}

func quoteString(s string) string {
	var b strings.Builder
	b.WriteByte('"')
	for i := 0; i < len(s); i++ {
		switch c := s[i]; c {
		case '"', '\\':
			b.WriteByte('\\')
			b.WriteByte(c)
		default:
			b.WriteByte(c)
		}
	}
	b.WriteByte('"')
	return b.String()
}

// ValidLit generates literals the compiler documents as meaningful: quoted operators (string,
// and char for one-byte ones), keywords, and now and then the empty string (matches nothing).
func ValidLit() *rapid.Generator[string] {
	return rapid.Custom(func(t *rapid.T) string {
		switch rapid.IntRange(0, 9).Draw(t, "litkind") {
		case 0, 1, 2:
			return quoteString(rapid.SampledFrom(Keywords).Draw(t, "kw"))
		case 3:
			op := rapid.SampledFrom(Operators[:26]).Draw(t, "op1")
			return rapid.SampledFrom(CharSpellings(op[0])[:3]).Draw(t, "sp")
		case 4:
			op := rapid.SampledFrom(Operators).Draw(t, "opraw")
			return "`" + op + "`"
		case 5:
			if rapid.IntRange(0, 3).Draw(t, "empty") == 0 {
				return `""`
			}
			fallthrough
		default:
			return quoteString(rapid.SampledFrom(Operators).Draw(t, "op"))
		}
	})
}

var oddLits = []string{`""`, "``", `''`, `'ab'`, `"\q"`, `'\q'`, `'\400'`, `"\400"`, `"\xZ"`, `'\x4'`, `'\u12'`, `"\u12"`, `'\U00110000'`,
	`'\ud800'`, `"\ud800"`, `"abc`, `'a`, "`abc", `'`, `"`, "`", `'\'`, `"\`, `'\"'`, `"\'"`, `"+++"`, `"=>>"`, `"<<<"`, `".."`, `"...."`, `"@@"`,
	`" "`, `"\n"`, `"\x00"`, `"1"`, `"12"`, `"1.5"`, `"é"`, `'é'`, `'世'`, `"世界"`, `"ab cd"`, `"a-b"`, `"a+"`, `"+a"`, `"_"`, `"é1"`, `"é"`,
	`'é'`, `'\351'`, `"\351"`, `'\x9e'`, `"\x9e"`, `'\x9d'`, `'\x9f'`, `"\x80"`, `'\x80'`, `'\x7f'`, `'\x81'`, `'\xff'`, `"\xff"`, `"\xff\xfe"`,
	`'\x00'`, `'\x20'`, `'\x21'`, `' '`, `'	'`, "`\n`", "`a\nb`", "` `", `"\"\""`, `"'"`, `'"'`, `"\\"`, `"//"`, `"/*"`, `"#"`, `"EOF"`, `"INT"`}

// AnyLit generates every kind of literal spelling: valid ones, every one-byte value through
// every escape form, raw bytes, multi-byte operators, keywords, empty, invalid escapes and
// unterminated literals.
func AnyLit() *rapid.Generator[string] {
	valid := ValidLit()
	return rapid.Custom(func(t *rapid.T) string {
		switch rapid.IntRange(0, 7).Draw(t, "anylit") {
		case 0, 1:
			return valid.Draw(t, "valid")
		case 2, 3:
			b := rapid.Byte().Draw(t, "byte")
			return rapid.SampledFrom(CharSpellings(b)).Draw(t, "csp")
		case 4, 5:
			b := rapid.Byte().Draw(t, "byte")
			return rapid.SampledFrom(StringSpellings(b)).Draw(t, "ssp")
		case 6:
			b := rapid.Byte().Draw(t, "byte")
			return rapid.SampledFrom(RawByteSpellings(b)).Draw(t, "rsp")
		default:
			return rapid.SampledFrom(oddLits).Draw(t, "odd")
		}
	})
}

// ---- grammars --------------------------------------------------------------------------------

// Rule is one named rule; RetProc is "" or the text of a "{ ... }" block written after "=>".
type Rule struct {
	Name    string
	Expr    ast.Expr
	RetProc string
}

// Grammar is an ordered list of rules; the first one is the document rule.
type Grammar struct {
	Rules []Rule
}

// GrammarConfig steers GrammarOf.
type GrammarConfig struct {
	MinRules, MaxRules int
	MaxDepth           int                      // operator depth of each rule expression
	Lits               *rapid.Generator[string] // nil = ValidLit()
	Classes            []string                 // token classes used as Ident leaves; nil = TokenClasses
	Closed             bool                     // true: distinct rule names, every Ident is a defined rule or a token class
	RetProcs           bool                     // attach "=> { ... }" blocks to some rules
	OpRoot             bool                     // every rule expression has an operator at its root (depth >= 1)
}

var ruleNames = []string{"doc", "expr", "term", "factor", "item", "list", "stmt", "atom", "r1", "r2", "r3", "r4", "é", "_x"}

var retProcBodies = []string{"{ return self }", "{\n\treturn self[0]\n}", "{}", "{ return {\"a\": 1} }", "{ s := \"}\"; return s }",
	"{ return `}{` }", "{ /* } */ return 1 }", "{\n\tif x { return [n for n in self] }\n\treturn nil\n}", "{ return '}' }", "{ // }\n}"}

// GrammarOf generates grammars. With cfg.Closed the grammar is well-formed for the compiler
// (it may still be left-recursive or loop at match time: compile-level checks only); without,
// rule names may repeat or shadow token classes and identifiers may be undefined.
func GrammarOf(cfg GrammarConfig) *rapid.Generator[Grammar] {
	lits := cfg.Lits
	if lits == nil {
		lits = ValidLit()
	}
	return rapid.Custom(func(t *rapid.T) Grammar {
		n := rapid.IntRange(cfg.MinRules, cfg.MaxRules).Draw(t, "nrules")
		names := make([]string, n)
		for i := range names {
			if cfg.Closed {
				names[i] = ruleNames[i%len(ruleNames)]
				if i >= len(ruleNames) {
					names[i] += fmt.Sprint(i)
				}
			} else if rapid.IntRange(0, 9).Draw(t, "oddname") == 0 {
				names[i] = rapid.SampledFrom(append([]string{"INT", "SPACE", "doc", "_"}, ruleNames...)).Draw(t, "name")
			} else {
				names[i] = ruleNames[i%len(ruleNames)]
			}
		}
		idents := append(append([]string{}, names...), names...) // rule references twice as likely
		if cfg.Classes != nil {
			idents = append(idents, cfg.Classes...)
		} else {
			idents = append(idents, TokenClasses...)
		}
		if !cfg.Closed {
			idents = append(idents, "undefined", "Int", "x")
		}
		ec := ExprConfig{Idents: idents, Lits: lits, MaxDepth: cfg.MaxDepth}
		g := Grammar{Rules: make([]Rule, n)}
		for i := range g.Rules {
			var r Rule
			if cfg.OpRoot {
				lo := 1
				if i == 0 && cfg.MaxDepth >= 2 {
					lo = 2 // the document rule mixes operators
				}
				r = Rule{Name: names[i], Expr: DrawOp(t, ec, rapid.IntRange(lo, cfg.MaxDepth).Draw(t, "depth"))}
			} else {
				r = Rule{Name: names[i], Expr: DrawExpr(t, ec, rapid.IntRange(0, cfg.MaxDepth).Draw(t, "depth"))}
			}
			if cfg.RetProcs && rapid.IntRange(0, 3).Draw(t, "ret") == 0 {
				r.RetProc = rapid.SampledFrom(retProcBodies).Draw(t, "body")
			}
			g.Rules[i] = r
		}
		return g
	})
}

var terminators = []string{"\n", "\n", "\n\n", ";", ";\n", " ; ", "\r\n"}

// Tokens flattens the grammar into the token list `name = expr [=> body] terminator …`. The
// terminators (newline or ';') and redundant parentheses are drawn from t; extra may be nil.
func (g Grammar) Tokens(t *rapid.T, extra func() bool) []string {
	var out []string
	for i, r := range g.Rules {
		out = append(out, r.Name, "=")
		out = append(out, Tokens(r.Expr, extra)...)
		if r.RetProc != "" {
			out = append(out, "=>", r.RetProc)
		}
		term := rapid.SampledFrom(terminators).Draw(t, "term")
		if i == len(g.Rules)-1 && rapid.Bool().Draw(t, "noeol") {
			continue // the scanner inserts the last semicolon at EOF
		}
		out = append(out, term)
	}
	return out
}

// Source renders the grammar with canonical layout, one rule per line (deterministic).
func (g Grammar) Source() string {
	var b strings.Builder
	for _, r := range g.Rules {
		b.WriteString(r.Name + " = " + strings.Join(Tokens(r.Expr, nil), " "))
		if r.RetProc != "" {
			b.WriteString(" => " + r.RetProc)
		}
		b.WriteString("\n")
	}
	return b.String()
}

// ParseGrammar reads grammar text back into a Grammar with the repository's TPL parser (for
// hand-written cases and replays; generated cases carry their Grammar already).
func ParseGrammar(src string) (Grammar, error) {
	f, err := parser.ParseFile(token.NewFileSet(), "g.tpl", []byte(src), nil)
	if err != nil {
		return Grammar{}, err
	}
	var g Grammar
	for _, d := range f.Decls {
		if r, ok := d.(*ast.Rule); ok {
			g.Rules = append(g.Rules, Rule{Name: r.Name.Name, Expr: r.Expr})
		}
	}
	return g, nil
}

// ---- malformed mutants -----------------------------------------------------------------------

var structural = []string{"(", ")", "|", "%", "++", "*", "+", "?", "=", "=>", "{", "}", ";", "\n", "=> {", ":", ",", "**", "||", "@", "=> }", "()", "=="}

// MutateTokens applies 1..3 token-level mutations to a flat grammar token list: delete,
// duplicate, insert a structural token, swap, truncate, replace by any literal, replace by an
// earlier identifier (duplicate / recursive rules), drop an "=".
func MutateTokens(t *rapid.T, toks []string) []string {
	out := append([]string{}, toks...)
	k := rapid.IntRange(1, 3).Draw(t, "nmut")
	for m := 0; m < k && len(out) > 0; m++ {
		i := rapid.IntRange(0, len(out)-1).Draw(t, "at")
		switch rapid.IntRange(0, 7).Draw(t, "mut") {
		case 0:
			out = append(out[:i:i], out[i+1:]...)
		case 1:
			out = append(out[:i+1:i+1], append([]string{out[i]}, out[i+1:]...)...)
		case 2:
			s := rapid.SampledFrom(structural).Draw(t, "ins")
			out = append(out[:i:i], append([]string{s}, out[i:]...)...)
		case 3:
			j := rapid.IntRange(0, len(out)-1).Draw(t, "with")
			out[i], out[j] = out[j], out[i]
		case 4:
			out = out[:i]
		case 5:
			out[i] = AnyLit().Draw(t, "lit")
		case 6:
			j := rapid.IntRange(0, i).Draw(t, "from")
			for ; j < i && !IsAtom(out[j]); j++ {
			}
			out[i] = out[j]
		case 7:
			for j := i; j < len(out); j++ {
				if out[j] == "=" {
					out = append(out[:j:j], out[j+1:]...)
					break
				}
			}
		}
	}
	return out
}

var hostile = []string{"\x00", "\xff", "\xef\xbb\xbf", "'", "\"", "`", "\\", "/*", "\n", "=>{", "\r", "\x80", "\xc0\xaf", "@", " ", "}", "{", "(", ")"}

// MutateBytes applies one byte-level mutation to src: insert a hostile byte string, delete a
// byte range, or truncate.
func MutateBytes(t *rapid.T, src string) string {
	if src == "" {
		return rapid.SampledFrom(hostile).Draw(t, "h")
	}
	i := rapid.IntRange(0, len(src)).Draw(t, "off")
	switch rapid.IntRange(0, 3).Draw(t, "bmut") {
	case 0, 1:
		return src[:i] + rapid.SampledFrom(hostile).Draw(t, "h") + src[i:]
	case 2:
		j := i + rapid.IntRange(1, 6).Draw(t, "len")
		if j > len(src) {
			j = len(src)
		}
		return src[:i] + src[j:]
	default:
		return src[:i]
	}
}

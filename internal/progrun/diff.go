package progrun

import (
	"fmt"
	"strings"
)

// FirstDiff describes where two observables diverge.
func FirstDiff(a, b string) string {
	la, lb := strings.Split(a, "\n"), strings.Split(b, "\n")
	for i := 0; i < len(la) || i < len(lb); i++ {
		var x, y string
		if i < len(la) {
			x = la[i]
		} else {
			x = "<eof>"
		}
		if i < len(lb) {
			y = lb[i]
		} else {
			y = "<eof>"
		}
		if x != y {
			return fmt.Sprintf("line %d: reference %q vs xgo %q", i+1, clip(x, 200), clip(y, 200))
		}
	}
	return "identical"
}

//go:build verif

// C12 — type information recorded through x/typesutil obeys its documented invariants and, for
// Go-compatible programs, agrees with go/types.
package c12

import (
	"fmt"
	goast "go/ast"
	"go/importer"
	goparser "go/parser"
	gotoken "go/token"
	"go/types"
	"os"
	"reflect"
	"regexp"
	"runtime/debug"
	"sort"
	"strings"
	"testing"

	"github.com/goplus/mod/xgomod"
	"github.com/goplus/xgo/ast"
	"github.com/goplus/xgo/parser"
	"github.com/goplus/xgo/x/typesutil"
	"pgregory.net/rapid"

	"verif/internal/astx"
	"verif/internal/gen/gosub"
	"verif/internal/gen/lex"
	"verif/internal/gen/xsugar"
	"verif/internal/vk"
	"verif/internal/xcl"
)

func TestMain(m *testing.M) {
	vk.Main(m, "C12", "exploration",
		"packages = (a) gosub programs (well-typed Go `package main`, checked as one .xgo file) — invariants plus differential against go/parser+go/types (importer \"source\", cached): identifiers are matched by byte offset and every identifier go/types resolves must have an XGo object of the same name, kind (Var/Const/TypeName/Func/PkgName/Builtin/Nil/Label) and type string; (b) xsugar programs (collections, error wrapping, overloads, string interpolation, range expressions, .gox classes) and the repository's single-file .xgo samples that type-check — invariants only. A package XGo reports errors for is rejected (the property is about packages that type-check). Invariants as the Info doc comment states them: Defs[id]==nil or Defs[id].Pos()==id.Pos(); Uses[id]!=nil and Uses[id].Pos()!=id.Pos(); every key of Types/Scopes/Defs/Uses/Selections/Implicits/Instances/Overloads is a node of the checked files (pointer set built by reflection, not ast.Walk). Non-trivial = at least 100 identifiers compared including a method, a closure variable and a struct field use (differential) or an XGo-only node kind among the keys (invariants only); distinct = hash of the source")
}

type SrcFile struct {
	Name string `json:"name"`
	Src  string `json:"src"`
}

type Case struct {
	Files    []SrcFile `json:"files"`
	GoCompat bool      `json:"go_compat,omitempty"` // single file that is also Go: run the go/types differential
}

type info struct {
	rejected  string
	idents    int // identifiers compared with go/types
	keys      int // map keys checked for reachability
	defs      int
	uses      int
	hasMethod bool
	hasField  bool
	hasClos   bool
	xgoKinds  bool
}

// ---- verdicts -------------------------------------------------------------------------------

// already understood root causes rank last so that they never hide anything else
var understood = map[string]int{
	// built by the compiler (cl) and recorded although it is not part of the files
	"synthetic:nil-key": 1, "synthetic:call-copy": 2, "synthetic:tpl-retproc": 3, "synthetic:string-part": 4, "synthetic:overload-const": 5,
	"synthetic:overload-funclit": 6, "synthetic:classfile": 7, "synthetic:range-loop": 8,
	// one position for all names of a declaration / none for loop variables
	"var-spec-def-pos": 10, "define-def-pos": 11, "forphrase-def-nopos": 12, "range-def-nopos": 13,
	// differential
	"builtin-kind": 14, "blank": 15, "label": 16,
}

type verdicts struct{ best *vk.Verdict }

var debugAll = map[string][]string{}

func (vs *verdicts) add(class, format string, args ...any) {
	v := vk.Bad(class, format, args...)
	if os.Getenv("VK_C12_DEBUG") != "" {
		debugAll[class] = append(debugAll[class], v.Detail)
	}
	ru, okU := understood[class]
	if vs.best == nil {
		vs.best = v
		return
	}
	rb, okB := understood[vs.best.Class]
	if !okU && okB || okU && okB && ru < rb {
		vs.best = v
	}
}

// ---- XGo side --------------------------------------------------------------------------------

type xres struct {
	info  *typesutil.Info
	files []*ast.File
	fset  *gotoken.FileSet
	pkg   *types.Package
	errs  []string
}

func newInfo() *typesutil.Info {
	return &typesutil.Info{
		Types:      make(map[ast.Expr]types.TypeAndValue),
		Instances:  make(map[*ast.Ident]types.Instance),
		Defs:       make(map[*ast.Ident]types.Object),
		Uses:       make(map[*ast.Ident]types.Object),
		Implicits:  make(map[ast.Node]types.Object),
		Selections: make(map[*ast.SelectorExpr]*types.Selection),
		Scopes:     make(map[ast.Node]*types.Scope),
		Overloads:  make(map[*ast.Ident]types.Object),
	}
}

func checkXGo(c Case) (r xres, rejected string) {
	_, fset := xcl.Importer()
	r.fset = fset
	for _, f := range c.Files {
		af, err := parser.ParseEntry(fset, "/foo/"+f.Name, f.Src, parser.Config{})
		if err != nil {
			return r, "xgo-parse-error"
		}
		r.files = append(r.files, af)
	}
	return r, ""
}

// typeCheck runs the checker over the parsed files (after the caller has taken the node set:
// the compiler edits the trees it is given, e.g. it removes the operand of `func -(a T)`).
func typeCheck(r *xres) (rejected string) {
	imp, fset := xcl.Importer()
	r.info = newInfo()
	r.pkg = types.NewPackage("main", "main")
	conf := &types.Config{Importer: imp, Error: func(err error) { r.errs = append(r.errs, err.Error()) }}
	chk := typesutil.NewChecker(conf, &typesutil.Config{Types: r.pkg, Fset: fset, Mod: xgomod.Default}, nil, r.info)
	if err := chk.Files(nil, r.files); err != nil {
		r.errs = append(r.errs, err.Error())
	}
	if len(r.errs) > 0 {
		return "xgo-type-error"
	}
	return ""
}

// ---- Go side ---------------------------------------------------------------------------------

var (
	goFset = gotoken.NewFileSet()
	goImp  = importer.ForCompiler(goFset, "source", nil)
)

type gres struct {
	info *types.Info
	file *goast.File
	tf   *gotoken.File
}

func checkGo(src string) (r gres, rejected string) {
	f, err := goparser.ParseFile(goFset, "main.go", src, 0)
	if err != nil {
		return r, "go-parse-error"
	}
	r.file = f
	r.tf = goFset.File(f.Pos())
	r.info = &types.Info{Defs: map[*goast.Ident]types.Object{}, Uses: map[*goast.Ident]types.Object{}}
	conf := &types.Config{Importer: goImp, Error: func(error) {}}
	if _, err := conf.Check("main", goFset, []*goast.File{f}, r.info); err != nil {
		return r, "go-type-error"
	}
	return r, ""
}

func kindOf(o types.Object) string {
	switch x := o.(type) {
	case *types.Var:
		return "Var"
	case *types.Const:
		return "Const"
	case *types.TypeName:
		return "TypeName"
	case *types.Func:
		return "Func"
	case *types.PkgName:
		return "PkgName"
	case *types.Builtin:
		return "Builtin"
	case *types.Nil:
		return "Nil"
	case *types.Label:
		return "Label"
	default:
		return fmt.Sprintf("%T", x)
	}
}

func qual(p *types.Package) string { return p.Name() }

var aliasRe = regexp.MustCompile(`\b(rune|byte|any)\b`)

// typeOf renders the type of an object with package-name qualifiers; the predeclared aliases
// are spelled as the types they denote (rune and int32 are the same type).
func typeOf(o types.Object) string {
	if pn, ok := o.(*types.PkgName); ok {
		return "package " + pn.Imported().Path()
	}
	if o.Type() == nil {
		return "<nil>"
	}
	s := types.TypeString(o.Type(), qual)
	return aliasRe.ReplaceAllStringFunc(s, func(m string) string {
		switch m {
		case "rune":
			return "int32"
		case "byte":
			return "uint8"
		}
		return "interface{}"
	})
}

// ---- the oracle ------------------------------------------------------------------------------

func check(c Case) (*vk.Verdict, info) {
	var in info
	var vs verdicts
	x, rej := checkXGo(c)
	if rej != "" {
		in.rejected = rej
		return nil, in
	}
	defer func() { // the shared FileSet keeps growing; nothing else to release
	}()

	// nodes of the checked files, by reflection
	reach := map[goast.Node]bool{}
	parent := map[goast.Node]goast.Node{}
	an := anchors{rangeFor: map[gotoken.Pos]bool{}, overloadLit: map[gotoken.Pos]bool{}, reach: reach}
	identAt := map[string]map[int]*ast.Ident{}
	for i, f := range x.files {
		tf := x.fset.File(f.Pos())
		byOff := map[int]*ast.Ident{}
		identAt[c.Files[i].Name] = byOff
		astx.Walk(f, astx.Options{}, func(n, p goast.Node, _ string) bool {
			reach[n] = true
			parent[n] = p
			if id, ok := n.(*ast.Ident); ok && id.NamePos.IsValid() && tf != nil && int(id.NamePos) >= tf.Base() && int(id.NamePos) <= tf.Base()+tf.Size() {
				byOff[tf.Offset(id.NamePos)] = id
			}
			an.note(n)
			if astx.IsXGoNode(n) {
				switch n.(type) {
				case *ast.LambdaExpr, *ast.LambdaExpr2, *ast.ForPhrase, *ast.ForPhraseStmt, *ast.ComprehensionExpr, *ast.SliceLit, *ast.ErrWrapExpr, *ast.RangeExpr, *ast.OverloadFuncDecl:
					in.xgoKinds = true
				}
			}
			return true
		})
	}
	if rej := typeCheck(&x); rej != "" {
		in.rejected = rej
		return nil, in
	}
	where := func(n goast.Node) string {
		if n == nil {
			return "<nil>"
		}
		p := x.fset.Position(n.Pos())
		s := fmt.Sprintf("%s@%s:%d:%d", astx.TypeName(n), strings.TrimPrefix(p.Filename, "/foo/"), p.Line, p.Column)
		if id, ok := n.(*ast.Ident); ok {
			s += "(" + id.Name + ")"
		}
		return s
	}
	objStr := func(o types.Object) string {
		if o == nil {
			return "<nil>"
		}
		return fmt.Sprintf("%s %s %s declared at %s", kindOf(o), o.Name(), typeOf(o), x.fset.Position(o.Pos()))
	}

	// invariants
	for id, o := range x.info.Defs {
		in.defs++
		if o != nil && o.Pos() != id.Pos() && reach[id] {
			vs.add(defPosClass(parent, id, o), "Defs[%s] = %s: the object is not declared at the identifier's own position", where(id), objStr(o))
		}
	}
	for id, o := range x.info.Uses {
		in.uses++
		if o == nil {
			vs.add("use-nil", "Uses[%s] is nil", where(id))
			continue
		}
		if o.Pos() == id.Pos() && id.Pos().IsValid() && reach[id] {
			if within(an.rangeHdr, id.Pos()) {
				// the loop variable is re-used inside the loop condition the compiler builds
				vs.add("synthetic:range-loop", "Uses[%s] = %s: the loop variable of a range-expression loop is recorded as a use of itself", where(id), objStr(o))
				continue
			}
			vs.add("use-at-own-pos", "Uses[%s] = %s: a use refers to an object declared at the identifier's own position", where(id), objStr(o))
		}
	}
	foreign := func(m string, n goast.Node) {
		in.keys++
		if !reach[n] {
			cls := an.site(n)
			if cls == "" {
				cls = "foreign-key:" + m + ":" + astx.TypeName(n)
			}
			vs.add(cls, "%s holds the key %s, which is not a node of the checked files%s", m, where(n), lineOf(c, x.fset, n))
		}
	}
	for k := range x.info.Types {
		foreign("Types", k)
	}
	for k := range x.info.Scopes {
		foreign("Scopes", k)
	}
	for k := range x.info.Defs {
		foreign("Defs", k)
	}
	for k := range x.info.Uses {
		foreign("Uses", k)
	}
	for k := range x.info.Selections {
		foreign("Selections", k)
	}
	for k := range x.info.Implicits {
		foreign("Implicits", k)
	}
	for k := range x.info.Instances {
		foreign("Instances", k)
	}
	for k := range x.info.Overloads {
		foreign("Overloads", k)
	}

	// differential
	if c.GoCompat && len(c.Files) == 1 {
		g, rej := checkGo(c.Files[0].Src)
		if rej != "" {
			in.rejected = rej
			return nil, in
		}
		byOff := identAt[c.Files[0].Name]
		var stack []goast.Node
		goast.Inspect(g.file, func(n goast.Node) bool {
			if n == nil {
				stack = stack[:len(stack)-1]
				return true
			}
			stack = append(stack, n)
			id, ok := n.(*goast.Ident)
			if !ok {
				return true
			}
			gobj := g.info.ObjectOf(id)
			if gobj == nil {
				return true // package clause, type switch symbol, ...
			}
			off := g.tf.Offset(id.Pos())
			pos := g.tf.Position(id.Pos())
			at := fmt.Sprintf("%s at %d:%d", id.Name, pos.Line, pos.Column)
			xid := byOff[off]
			if xid == nil || xid.Name != id.Name {
				vs.add("ident-not-found", "identifier %s has no counterpart in the XGo tree", at)
				return true
			}
			in.idents++
			ctx := context(stack, id, g.info)
			switch ctx {
			case "method":
				in.hasMethod = true
			case "field-use":
				in.hasField = true
			case "closure-var":
				in.hasClos = true
			}
			xobj := x.info.ObjectOf(xid)
			gk := kindOf(gobj)
			if xobj == nil {
				vs.add(missingClass(id, gobj, stack, g.info), "identifier %s (%s): go/types has %s %s, XGo records no object", at, ctx, gk, typeOf(gobj))
				return true
			}
			if xobj.Name() != gobj.Name() && gk != "Builtin" {
				vs.add("name-mismatch", "identifier %s: go/types object is named %s, XGo's %s", at, gobj.Name(), xobj.Name())
			}
			if xk := kindOf(xobj); xk != gk {
				cls := "kind-mismatch:" + gk + "->" + xk
				if gk == "Builtin" {
					cls = "builtin-kind"
				}
				vs.add(cls, "identifier %s (%s): go/types has a %s, XGo records a %s (%T)", at, ctx, gk, xk, xobj)
				return true
			}
			if gt, xt := typeOf(gobj), typeOf(xobj); gt != xt && gk != "Builtin" && gk != "Nil" {
				vs.add("type-mismatch:"+gk, "identifier %s (%s): go/types has type %s, XGo records %s", at, ctx, gt, xt)
			}
			return true
		})
	}
	return vs.best, in
}

// anchors are the places of the checked files where the compiler lowers a construct by building
// syntax of its own; a recorded node that is not part of the files is attributed to the one it
// sits on (classification only).
type anchors struct {
	reach       map[goast.Node]bool
	rangeFor    map[gotoken.Pos]bool // `for` of a for-phrase over a range expression
	rangeHdr    [][2]gotoken.Pos     // header of a loop over a range expression
	overloadLit map[gotoken.Pos]bool // func literal inside `func name = (...)`
	tpl         [][2]gotoken.Pos     // tpl`...` literals
	strex       [][2]gotoken.Pos     // string literals with ${...} parts
}

func (a *anchors) note(n goast.Node) {
	switch x := n.(type) {
	case *ast.ForPhraseStmt:
		if _, ok := x.X.(*ast.RangeExpr); ok {
			a.rangeFor[x.For] = true
			a.rangeHdr = append(a.rangeHdr, [2]gotoken.Pos{x.For, x.Body.Lbrace})
		}
	case *ast.ForPhrase:
		if _, ok := x.X.(*ast.RangeExpr); ok {
			a.rangeFor[x.For] = true
			a.rangeHdr = append(a.rangeHdr, [2]gotoken.Pos{x.For, x.End()})
		}
	case *ast.RangeStmt:
		if _, ok := x.X.(*ast.RangeExpr); ok {
			a.rangeFor[x.For] = true
			a.rangeHdr = append(a.rangeHdr, [2]gotoken.Pos{x.For, x.Body.Lbrace})
		}
	case *ast.OverloadFuncDecl:
		for _, f := range x.Funcs {
			if fl, ok := f.(*ast.FuncLit); ok {
				a.overloadLit[fl.Pos()] = true
			}
		}
	case *ast.DomainTextLit:
		if x.Domain.Name == "tpl" {
			a.tpl = append(a.tpl, [2]gotoken.Pos{x.Pos(), x.End()})
		}
	case *ast.BasicLit:
		if x.Extra != nil {
			a.strex = append(a.strex, [2]gotoken.Pos{x.Pos(), x.End()})
		}
	}
}

func within(spans [][2]gotoken.Pos, p gotoken.Pos) bool {
	for _, s := range spans {
		if s[0] <= p && p < s[1] {
			return true
		}
	}
	return false
}

func (a *anchors) site(n goast.Node) string {
	if n == nil || reflect.ValueOf(n).IsNil() {
		return "synthetic:nil-key"
	}
	pos := safePos(n)
	switch {
	case !pos.IsValid():
		// syntax built without positions: the Gopo_xxx constant of an overload declaration
		// (cl/compile.go preloadConst + stringLit) or the receiver/entry of a class file
		if _, ok := n.(*ast.BasicLit); ok {
			return "synthetic:overload-const"
		}
		if id, ok := n.(*ast.Ident); ok && strings.HasPrefix(id.Name, "Gopo_") {
			return "synthetic:overload-const"
		}
		return "synthetic:classfile"
	case a.rangeFor[pos] || within(a.rangeHdr, pos):
		return "synthetic:range-loop"
	case a.overloadLit[pos]:
		return "synthetic:overload-funclit"
	case within(a.tpl, pos):
		return "synthetic:tpl-retproc"
	}
	if lit, ok := n.(*ast.BasicLit); ok && within(a.strex, pos+1) {
		_ = lit
		return "synthetic:string-part"
	}
	if call, ok := n.(*ast.CallExpr); ok && a.reach[call.Fun] {
		return "synthetic:call-copy"
	}
	return ""
}

func safePos(n goast.Node) (p gotoken.Pos) {
	defer func() { recover() }()
	return n.Pos()
}

func lineOf(c Case, fset *gotoken.FileSet, n goast.Node) string {
	p := safePos(n)
	if !p.IsValid() {
		return ""
	}
	pp := fset.Position(p)
	for _, f := range c.Files {
		if "/foo/"+f.Name == pp.Filename {
			lines := strings.Split(f.Src, "\n")
			if pp.Line >= 1 && pp.Line <= len(lines) {
				return " | source line: " + strings.TrimSpace(lines[pp.Line-1])
			}
		}
	}
	return ""
}

// context names the syntactic role of a Go identifier (coverage and classification only).
func context(stack []goast.Node, id *goast.Ident, gi *types.Info) string {
	obj := gi.ObjectOf(id)
	if len(stack) >= 2 {
		switch p := stack[len(stack)-2].(type) {
		case *goast.SelectorExpr:
			if p.Sel == id {
				if v, ok := obj.(*types.Var); ok && v.IsField() {
					return "field-use"
				}
				if f, ok := obj.(*types.Func); ok && f.Type().(*types.Signature).Recv() != nil {
					return "method"
				}
				return "selector"
			}
		case *goast.LabeledStmt, *goast.BranchStmt:
			return "label"
		case *goast.RangeStmt:
			if p.Key == id || p.Value == id {
				return "range-var"
			}
		case *goast.FuncDecl:
			if p.Recv != nil && p.Name == id {
				return "method"
			}
		}
	}
	if v, ok := obj.(*types.Var); ok && !v.IsField() && gi.Defs[id] == nil {
		// a use of a local variable from inside a function literal declared outside of it
		for i := len(stack) - 1; i >= 0; i-- {
			if fl, ok := stack[i].(*goast.FuncLit); ok {
				if v.Pos() < fl.Pos() && v.Parent() != nil && v.Parent().Parent() != types.Universe && v.Pkg() != nil && v.Parent() != v.Pkg().Scope() {
					return "closure-var"
				}
				break
			}
		}
	}
	if id.Name == "_" {
		return "blank"
	}
	if gi.Defs[id] != nil {
		return "def"
	}
	return "use"
}

// missingClass classifies an identifier XGo has no object for.
func missingClass(id *goast.Ident, gobj types.Object, stack []goast.Node, gi *types.Info) string {
	if _, ok := gobj.(*types.Label); ok {
		return "label"
	}
	if id.Name == "_" {
		return "blank"
	}
	def := "use"
	if gi.Defs[id] != nil {
		def = "def"
	}
	return "missing-" + def + ":" + kindOf(gobj) + ":" + context(stack, id, gi)
}

// defPosClass classifies a Defs entry whose object is declared elsewhere (or nowhere) by the
// statement that declares the identifier.
func defPosClass(parent map[goast.Node]goast.Node, id *ast.Ident, o types.Object) string {
	where := "decl"
	switch p := parent[id].(type) {
	case *ast.RangeStmt:
		where = "range"
	case *ast.ForPhrase, *ast.ForPhraseStmt:
		where = "forphrase"
	case *ast.AssignStmt:
		where = "define" // one site for every `:=` (cl/stmt.go: DefineVarStart(expr.Pos(), names...))
	case *ast.ValueSpec:
		where = "var-spec"
	case *ast.Field:
		where = "field-or-param"
	case *ast.LambdaExpr, *ast.LambdaExpr2:
		where = "lambda-param"
	default:
		where = astx.TypeName(p)
	}
	if !o.Pos().IsValid() {
		return where + "-def-nopos"
	}
	return where + "-def-pos"
}

var _ = vk.Register("check", func(c Case) *vk.Verdict { v, _ := check(c); return v })

func safeCheck(c Case) (v *vk.Verdict, in info) {
	defer func() {
		if p := recover(); p != nil {
			v = vk.Bad("panic", "%v\n%s", p, debug.Stack())
		}
	}()
	return check(c)
}

type failer interface {
	Fatalf(string, ...any)
	Helper()
}

func run(t failer, c Case, class string) {
	v, in := safeCheck(c)
	if in.rejected != "" {
		vk.R.Rejected(class + ":" + in.rejected)
		vk.R.Case(false, "")
		return
	}
	nt := in.xgoKinds
	if c.GoCompat {
		nt = in.idents >= 100 && in.hasMethod && in.hasField && in.hasClos
	}
	var key strings.Builder
	for _, f := range c.Files {
		key.WriteString(f.Name + "\x00" + f.Src + "\x00")
	}
	vk.R.Case(nt, key.String())
	vk.R.Class(class)
	vk.R.Add("identifiers_compared", int64(in.idents))
	vk.R.Add("map_keys_checked", int64(in.keys))
	vk.R.Add("defs_checked", int64(in.defs))
	vk.R.Add("uses_checked", int64(in.uses))
	if os.Getenv("VK_C12_DEBUG") != "" {
		return
	}
	vk.R.Check(t, "check", c, v)
}

// ---- tests -----------------------------------------------------------------------------------

func TestGosub(t *testing.T) {
	g := gosub.Gen()
	vk.R.Rapid(t, 1, 80, 2400, func(t *rapid.T) {
		p := g.Draw(t, "prog")
		run(t, Case{Files: []SrcFile{{"main.xgo", p.Source()}}, GoCompat: true}, "src=gosub")
	})
	dumpDebug()
}

func sugar(t *rapid.T) Case {
	g := &xsugar.G{T: t, Flags: map[string]bool{}}
	n := rapid.IntRange(1, 6).Draw(t, "n")
	switch rapid.IntRange(0, 4).Draw(t, "family") {
	case 0:
		return Case{Files: []SrcFile{{"main.xgo", xsugar.CollectionProgram(g, n).XGo()}}}
	case 1:
		return Case{Files: []SrcFile{{"main.xgo", xsugar.ErrWrapProgram(g, n).XGo()}}}
	case 2:
		return Case{Files: []SrcFile{{"main.xgo", xsugar.OverloadProgram(g, n).XGo()}}}
	case 3:
		return Case{Files: []SrcFile{{"main.xgo", xsugar.InterpProgram(g, n).XGo()}}}
	default:
		cc := xsugar.ClassProgram(g)
		var names []string
		for n := range cc.XFiles {
			names = append(names, n)
		}
		sort.Strings(names)
		var c Case
		for _, n := range names {
			c.Files = append(c.Files, SrcFile{n, cc.XFiles[n]})
		}
		return c
	}
}

func TestXSugar(t *testing.T) {
	vk.R.Rapid(t, 2, 300, 6000, func(t *rapid.T) {
		run(t, sugar(t), "src=xsugar")
	})
	dumpDebug()
}

func TestCorpus(t *testing.T) {
	if vk.R.Shard != 0 {
		return
	}
	n := 0
	for _, f := range lex.Corpus(".xgo") {
		if n++; !vk.R.Thorough() && n%4 != 0 {
			continue // quick tier: every fourth sample
		}
		if len(f.Src) > 6000 || strings.Contains(string(f.Src), "github.com/") {
			continue // keep the quick tier short: no third-party imports (resolved through `go list`)
		}
		run(t, Case{Files: []SrcFile{{"main.xgo", string(f.Src)}}}, "src=corpus")
	}
	dumpDebug()
}

func dumpDebug() {
	if os.Getenv("VK_C12_DEBUG") == "" {
		return
	}
	var ks []string
	for k := range debugAll {
		ks = append(ks, k)
	}
	sort.Strings(ks)
	for _, k := range ks {
		fmt.Printf("DEBUG %5d %s\n", len(debugAll[k]), k)
		for i, d := range debugAll[k] {
			if i < 2 {
				fmt.Printf("        %s\n", strings.ReplaceAll(d, "\n", "\\n"))
			}
		}
	}
	debugAll = map[string][]string{}
}

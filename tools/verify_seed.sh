#!/bin/bash
# usage: tools/verify_seed.sh <id> <demo-file> <intended-path> <pkg> <run-regex>
# applies the seeded patch to a scratch copy of /repo, runs the demonstration (expects FAIL), reverts the patch
# (expects PASS), and builds + runs the pinned tests of the touched package (expects ok with the patch).
id=$1; demo=$2; dest=$3; pkg=$4; run=$5
S=/tmp/scratch-verify-$id
export GOFLAGS=-mod=mod GOPROXY=off GOSUMDB=off GOTOOLCHAIN=local
rm -rf $S && cp -a /repo $S && cd $S || exit 2
P=/tmp/seeded/$id/patch.diff; [ -f /tmp/seeded/$id/patch-current.diff ] && P=/tmp/seeded/$id/patch-current.diff
git apply $P || { echo "PATCH DOES NOT APPLY"; exit 2; }
touched=$(git diff --name-only | xargs -n1 dirname | sort -u | sed 's#^#./#' | tr '\n' ' ')
go build ./cl/... ./parser/... ./scanner/... ./printer/... ./format/... ./ast/... ./token/... ./tpl/... ./x/... ./cmd/... ./tool/... 2>&1 | tail -3 && echo "build: ok"
echo "pinned tests of touched packages ($touched) with the patch:"; go test -vet=off -count=1 -skip 'TestErrImportPkg$' $touched 2>&1 | grep -v "no test files" | grep -E -- "^(--- FAIL|FAIL|ok)" | tail -6  # TestErrImportPkg fails in every copy of the repository (GOPROXY=off changes the go command's message)
cp /tmp/seeded/$id/demo/$demo $dest
echo "--- demo WITH patch (expect FAIL):"; go test -vet=off -count=1 -run "$run" $pkg 2>&1 | grep -v '^20[0-9][0-9]/' | tail -4
git stash -q -- $(git diff --name-only) 2>/dev/null || git checkout -- $(git diff --name-only)
echo "--- demo WITHOUT patch (expect ok):"; go test -vet=off -count=1 -run "$run" $pkg 2>&1 | grep -v '^20[0-9][0-9]/' | tail -2
cd /; rm -rf $S

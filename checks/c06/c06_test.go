//go:build verif

// C06 — compiler success implies valid, well-typed Go output.
package c06

import (
	"fmt"
	goast "go/ast"
	goparser "go/parser"
	gotoken "go/token"
	"go/types"
	"os"
	"regexp"
	"sort"
	"strings"
	"testing"
	"time"

	"pgregory.net/rapid"

	"verif/internal/gen/gosub"
	"verif/internal/gen/nearmiss"
	"verif/internal/gen/xsugar"
	"verif/internal/progrun"
	"verif/internal/vk"
	"verif/internal/xcl"
)

func TestMain(m *testing.M) {
	vk.Main(m, "C06", "exploration",
		"packages: gosub programs, XGo-sugar programs (collections, ErrWrap, overloads, interpolation), multi-file packages with a .gox class; each unmodified or with 1-2 near-miss mutations (identifier swaps, literal kind changes, dropped/duplicated/swapped lines, dropped uses and arguments, undefined names, misplaced branch statements, := / = confusion, duplicate declarations, deleted tokens). Oracle: whenever cl.NewPackage+WriteTo report no error, the Go text must parse (go/parser) and type-check (go/types with the repository's importer); in the thorough tier the accepted outputs are also built with go build. Non-trivial = the compiler accepted a mutant, or an unmutated package with XGo-specific syntax; distinct = hash of the sources")
}

type Case struct {
	Files    map[string]string `json:"files"`
	Pristine bool              `json:"pristine,omitempty"`
}

var normRe = regexp.MustCompile(`\b[a-zA-Z_][a-zA-Z0-9_]*\d+\b|\d+|"[^"]*"`)

// families of Go front-end diagnostics: a closed catalogue (DESIGN section 3). The first matching
// entry names the class; anything else falls into a normalised-message class of its own.
var families = []struct{ re, name string }{
	{`declared and not used`, "unused-variable"},
	{`imported and not used`, "unused-import"},
	{`label .* (defined|declared) and not used`, "unused-label"},
	{`is not used|not used$`, "value-not-used"},
	{`missing return`, "missing-return"},
	{`(break|continue) is not in|(break|continue) not in|fallthrough statement out of place|cannot fallthrough|invalid (break|continue) label|label .* not (defined|declared)|goto .* jumps`, "misplaced-branch"},
	{`no new variables on left side`, "no-new-variables"},
	{`overflows|truncated|cannot convert .* constant|constant .* overflow|division by zero|invalid constant|constant of type|negative shift count|invalid shift count|shift count|is not constant`, "constant-expression"},
	{`use of untyped nil`, "untyped-nil"},
	{`duplicate case .* in type switch`, "duplicate-type-case"},
	{`duplicate case`, "duplicate-case"},
	{`multiple defaults`, "multiple-defaults"},
	{`duplicate (key|index)`, "duplicate-literal-key"},
	{`duplicate (field|method)`, "duplicate-member"},
	{`already declared|redeclared|cannot declare (init|main)|other declaration`, "redeclaration"},
	{`field and method with the same name`, "field-method-collision"},
	{`cannot use iota outside constant declaration`, "iota-outside-const"},
	{`invalid map key type`, "invalid-map-key-type"},
	{`invalid slice indices`, "invalid-slice-indices"},
	{`invalid recursive type|invalid cycle|initialization cycle`, "cycle"},
	{`cannot use _ as value|cannot refer to blank`, "blank-as-value"},
	{`assignment mismatch|wrong argument count|not enough (arguments|return values)|too many (arguments|return values)`, "count-mismatch"},
	{`(^|: )undefined: | undefined \(|undeclared name`, "undefined"},
	{`\(type\) is not an expression|is not an expression`, "type-as-expression"},
	{`cannot convert`, "invalid-conversion"},
	{`must be integer|invalid argument: index`, "index-type"},
	{`cannot use .* as .* value|mismatched types|cannot convert|invalid operation|does not implement|cannot assign|cannot index|cannot range|not a type|is not a type|must be|cannot call|invalid argument|cannot take address|invalid use of|cannot infer|impossible type`, "type-error"},
	{`expected|syntax error`, "syntax"},
}

var familyRes []*regexp.Regexp

func init() {
	for _, f := range families {
		familyRes = append(familyRes, regexp.MustCompile(f.re))
	}
}

// sub-classes. Only the misplaced-branch family is split (by statement keyword): its members are
// frequent enough to be enumerated. A finer split of the other families (by the context of an
// assignability error, say) was tried and dropped: over 40000 generated packages it produced classes
// seen once or twice, i.e. an open tail that a fixed list of findings cannot cover without raising
// alarms on the unchanged tree at other seeds (DESIGN section 12, C06).
var toolchainTrouble = regexp.MustCompile(`\$WORK|importcfg|no binary produced|signal: killed|no space left|cannot allocate`)

// generatedOnly keeps the lines of a go build diagnostic that concern the file the compiler under
// test wrote for package pkg: lines about other packages of the same build batch and lines that
// point into a hand-written Go file of the package are dropped (redeclarations stay, they involve
// two files).
func generatedOnly(be, pkg string, c Case) string {
	var keep []string
	for _, line := range strings.Split(be, "\n") {
		t := strings.TrimSpace(line)
		if t == "" || strings.HasPrefix(t, "#") {
			continue
		}
		if i := strings.Index(t, "/"); i > 0 && strings.HasPrefix(t, "p") && t[:i] != pkg && len(t[:i]) == len(pkg) {
			continue // another package of the batch
		}
		drop := false
		for name := range c.Files {
			if strings.HasSuffix(name, ".go") && strings.Contains(t, "/"+name+":") && !strings.Contains(t, "redeclared") && !strings.Contains(t, "already declared") {
				drop = true
			}
		}
		if !drop {
			keep = append(keep, line)
		}
	}
	return strings.Join(keep, "\n")
}

var branchRe = regexp.MustCompile(`\b(break|continue|fallthrough|goto|label)\b`)

func subOf(family, msg string) string {
	if family == "misplaced-branch" {
		return branchRe.FindString(msg)
	}
	return ""
}

// classOf maps a Go type-checker / parser / compiler message about the output to a class:
// go-rejects:<family>[/<rule>].
func classOf(msg string) string {
	for i, re := range familyRes {
		if re.MatchString(msg) {
			c := "go-rejects:" + families[i].name
			if sub := subOf(families[i].name, msg); sub != "" {
				c += "/" + sub
			}
			return c
		}
	}
	m := normRe.ReplaceAllString(msg, "#")
	if i := strings.Index(m, ": "); i >= 0 && i < 40 {
		m = m[i+2:]
	}
	if len(m) > 60 {
		m = m[:60]
	}
	return "go-rejects:other:" + m
}

type info struct {
	accepted bool
	gotext   string
}

// Case.Pristine marks an unmutated generated package: those are valid by construction, so for
// them every rejection by Go is reported under a "pristine:" class that no known finding lists.
func check(c Case) (*vk.Verdict, info) {
	v, in := check0(c)
	if v != nil && c.Pristine {
		v = &vk.Verdict{Class: "pristine:" + v.Class, Detail: v.Detail}
	}
	return v, in
}

func check0(c Case) (*vk.Verdict, info) {
	var in info
	r := xcl.Compile(c.Files, xcl.Options{})
	if r.Panic != nil || r.ParseErr != nil || r.Err != nil {
		return nil, in // rejection (or a crash, which is C07's business) is always fine for this property
	}
	in.accepted = true
	in.gotext = string(r.Go)
	fset := gotoken.NewFileSet()
	f, err := goparser.ParseFile(fset, "out.go", r.Go, goparser.SkipObjectResolution)
	if err != nil {
		return vk.Bad("output-does-not-parse", "cl reported success but go/parser rejects the output: %v", err), in
	}
	gofiles := []*goast.File{f}
	handwritten := false
	for name, src := range c.Files { // the hand-written Go files of a mixed package belong to the package
		if strings.HasSuffix(name, ".go") {
			gf, err := goparser.ParseFile(fset, name, src, goparser.SkipObjectResolution)
			if err != nil {
				return nil, in // not a valid mixed package (a mutation damaged the Go file): outside the statement
			}
			gofiles = append(gofiles, gf)
		}
	}
	im, _ := xcl.Importer()
	var first error
	conf := types.Config{Importer: im, Error: func(e error) {
		if first != nil {
			return
		}
		// an error inside a hand-written Go file of the package (a mutation hit that file) says
		// nothing about the source the compiler wrote
		if te, ok := e.(types.Error); ok {
			// (a redeclaration involves two declarations, possibly one of them in the generated file: kept)
			if name := te.Fset.Position(te.Pos).Filename; strings.HasSuffix(name, ".go") && name != "out.go" && !strings.Contains(te.Msg, "redeclared") && !strings.Contains(te.Msg, "already declared") {
				if _, mine := c.Files[name]; mine {
					handwritten = true
					return
				}
			}
		}
		first = e
	}}
	conf.Check("main", fset, gofiles, nil)
	if first == nil && handwritten {
		return nil, in // the package's own Go files do not type-check: not a statement about the output
	}
	if first != nil {
		return vk.Bad(classOf(first.Error()), "cl reported success but go/types rejects the output: %v", first), in
	}
	return nil, in
}

var oracle = vk.Register("pkg", func(c Case) *vk.Verdict { v, _ := check(c); return v })

// base draws an unmutated package.
func base(t *rapid.T) (map[string]string, string) {
	g := &xsugar.G{T: t, Flags: map[string]bool{}}
	switch rapid.IntRange(0, 6).Draw(t, "basekind") {
	case 0, 1:
		return map[string]string{"bar.xgo": gosub.Gen().Draw(t, "gosub").Source()}, "gosub"
	case 2:
		return map[string]string{"bar.xgo": xsugar.CollectionProgram(g, 6).XGo()}, "collections"
	case 3:
		return map[string]string{"bar.xgo": xsugar.ErrWrapProgram(g, 5).XGo()}, "errwrap"
	case 4:
		return map[string]string{"bar.xgo": xsugar.OverloadProgram(g, 4).XGo()}, "overload"
	case 5:
		return map[string]string{"bar.xgo": xsugar.InterpProgram(g, 6).XGo()}, "interp"
	}
	if rapid.IntRange(0, 3).Draw(t, "mixed") == 0 {
		return mixedPackage(t), "mixed-go-xgo"
	}
	return xsugar.ClassProgram(g).XFiles, "class"
}

// mixedPackage splits a gosub program over a hand-written Go file and an XGo file: the entry point
// (func main) and a drawn part of the declarations live in main.go, the rest in bar.xgo.
func mixedPackage(t *rapid.T) map[string]string {
	p := gosub.Gen().Draw(t, "gosub")
	var godecls, xdecls []string
	for i, d := range p.Decls {
		// helpers (unit 0) and everything that is not a plain function stays in the XGo file: the Go
		// file may only use what the XGo file declares, not the other way round for methods
		if i > 0 && strings.HasPrefix(d, "func ") && !strings.HasPrefix(d, "func (") && !strings.HasPrefix(d, "func init") && rapid.IntRange(0, 3).Draw(t, "togo") == 0 {
			godecls = append(godecls, d)
		} else {
			xdecls = append(xdecls, d)
		}
	}
	mainFn := "func main() {\n\t" + strings.ReplaceAll(strings.Join(p.Main, "\n"), "\n", "\n\t") + "\n}"
	if rapid.IntRange(0, 2).Draw(t, "mainwhere") == 0 {
		xdecls = append(xdecls, mainFn)
	} else {
		godecls = append(godecls, mainFn)
	}
	files := map[string]string{"bar.xgo": (&gosub.Program{Decls: xdecls}).SourceNoMain()}
	if len(godecls) > 0 {
		files["main.go"] = (&gosub.Program{Decls: godecls}).SourceNoMain()
	}
	return files
}

type drawn struct {
	c    Case
	kind string
	ops  []string
}

func draw(t *rapid.T) drawn {
	files, kind := base(t)
	d := drawn{kind: kind}
	nm := rapid.IntRange(0, 2).Draw(t, "nmut")
	names := make([]string, 0, len(files))
	for n := range files {
		names = append(names, n)
	}
	sort.Strings(names)
	for i := 0; i < nm; i++ {
		fn := names[rapid.IntRange(0, len(names)-1).Draw(t, "file")]
		out, op := nearmiss.Mutate(t, files[fn])
		if op != "" {
			files[fn] = out
			d.ops = append(d.ops, op)
		}
	}
	d.c = Case{Files: files, Pristine: len(d.ops) == 0}
	return d
}

func key(c Case) string {
	var b strings.Builder
	names := make([]string, 0, len(c.Files))
	for n := range c.Files {
		names = append(names, n)
	}
	sort.Strings(names)
	for _, n := range names {
		b.WriteString(n + "\x00" + c.Files[n] + "\x00")
	}
	return b.String()
}

func TestPackages(t *testing.T) {
	r := vk.R
	r.Assume("go/types with the repository's own importer (go list export data) is the Go type checker")
	var accepted []Case
	r.Rapid(t, 1, 3000, 40000, func(t *rapid.T) {
		d := draw(t)
		v, in := check(d.c)
		mutated := len(d.ops) > 0
		r.Case(in.accepted && (mutated || d.kind != "gosub"), key(d.c))
		r.Class("base=" + d.kind)
		for _, op := range d.ops {
			r.Class("op=" + op)
		}
		switch {
		case in.accepted && mutated:
			r.Class("outcome=mutant-accepted")
		case in.accepted:
			r.Class("outcome=accepted")
		default:
			r.Class("outcome=rejected-by-cl")
		}
		if in.accepted && v == nil && len(accepted) < 2000 && r.Thorough() {
			accepted = append(accepted, d.c)
		}
		if in.accepted && mutated {
			r.Sample(map[string]any{"ops": d.ops, "base": d.kind})
		}
		if os.Getenv("VK_DISCOVER") != "" { // development aid: list all failing classes of a run
			if v != nil {
				fmt.Printf("DISCOVER %s | %s | %v\n", v.Class, normRe.ReplaceAllString(strings.TrimPrefix(v.Detail, "cl reported success but go/types rejects the output: "), "#"), d.ops)
			}
			if v = r.Judge(v); v != nil {
				r.Class("would-fail:" + v.Class)
				r.Fail("pkg", d.c, v)
			}
			return
		}
		r.Check(t, "pkg", d.c, v)
	})
	if !r.Thorough() || len(accepted) == 0 || os.Getenv("VK_NOBUILD") != "" { // VK_NOBUILD: development aid for discovery runs
		return
	}
	// thorough: the accepted outputs must also build
	var progs []progrun.Prog
	for i, c := range accepted {
		res := xcl.Compile(c.Files, xcl.Options{})
		if res.Err == nil && res.Go != nil {
			files := map[string]string{"xgo_autogen.go": string(res.Go)}
			for name, src := range c.Files {
				if strings.HasSuffix(name, ".go") {
					files[name] = src
				}
			}
			progs = append(progs, progrun.Prog{Name: fmt.Sprintf("p%04d", i), Files: files})
		}
	}
	for start := 0; start < len(progs); start += 150 {
		end := start + 150
		if end > len(progs) {
			end = len(progs)
		}
		out, err := progrun.Run(progs[start:end], 0*time.Second)
		if err != nil {
			r.Infra("go build batch: %v", err)
			t.Fatalf("infra: %v", err)
		}
		for _, p := range progs[start:end] {
			r.Add("outputs_built", 1)
			if be := out[p.Name].BuildErr; be != "" {
				var i int
				fmt.Sscanf(p.Name, "p%d", &i)
				if be = generatedOnly(be, p.Name, accepted[i]); be == "" {
					continue // every complaint is about a hand-written Go file of the package (a mutation hit it) or about another package of the batch
				}
				if toolchainTrouble.MatchString(be) {
					// the go command lost its work directory or was killed: says nothing about the program
					r.Infra("go build did not run properly: %s", be)
					continue
				}
				v := r.Judge(vk.Bad(strings.Replace(classOf(be), "go-rejects:", "go-build-rejects:", 1), "cl and go/types accept, go build rejects: %s", be))
				if v != nil {
					r.Fail("pkg", accepted[i], v)
					t.Errorf("%s", v)
				}
			}
		}
	}
}

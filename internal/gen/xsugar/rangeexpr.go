package xsugar

import (
	"fmt"
	"strings"
)

// RangeItem renders one (start, end, step, spelling) point of the C04 grid in every syntactic
// context. full=false restricts the item to the comprehension contexts (used for negative steps
// while the statement contexts are a listed known finding).
func RangeItem(start, end, step int, spelling string, full bool) Item {
	var pre, r string
	switch spelling {
	case "literal":
		r = fmt.Sprintf("%s:%s:%s", lit(start), lit(end), lit(step))
	case "omit": // omitted start when 0, omitted step when 1
		s, st := lit(start)+"", ":"+lit(step)
		if start == 0 {
			s = ""
		}
		if step == 1 {
			st = ""
		}
		r = s + ":" + lit(end) + st
	case "var":
		pre = fmt.Sprintf("lo, hi, st := %d, %d, %d\n", start, end, step)
		r = "lo:hi:st"
	case "expr":
		pre = fmt.Sprintf("lo, hi, st := %d, %d, %d\n", start, end, step)
		r = "(lo+0):(hi-0):(st*1)"
	case "call":
		pre = ""
		r = fmt.Sprintf("t(\"lo\", %d):t(\"hi\", %d):t(\"st\", %d)", start, end, step)
	case "const":
		pre = fmt.Sprintf("const lo, hi, st = %d, %d, %d\n", start, end, step)
		r = "lo:hi:st"
	case "mixed": // every operand written differently: literal in parentheses, variable, unary/binary expression
		pre = fmt.Sprintf("hi, one := %d, 1\n", end)
		r = fmt.Sprintf("(%s):hi:%s*one", lit(start), lit(step))
		if step < 0 {
			r = fmt.Sprintf("(%s):hi:-(%d*one)", lit(start), -step)
		}
	}
	// reference sequence (computed here: the Go side prints the literal expected list)
	var seq []string
	for i, n := start, 0; ((step > 0 && i < end) || (step < 0 && i > end)) && n < 200; i, n = i+step, n+1 {
		seq = append(seq, fmt.Sprint(i))
	}
	want := "[" + strings.Join(seq, " ") + "]"
	wantN := len(seq)
	firstOver := "0 false" // select: first element > start, if any
	for _, s := range seq {
		var v int
		fmt.Sscan(s, &v)
		if v != start {
			firstOver = s + " true"
			break
		}
	}
	hasOther := strings.HasSuffix(firstOver, "true")

	var x strings.Builder
	var g strings.Builder
	x.WriteString(pre)
	if spelling == "var" || spelling == "expr" {
		g.WriteString(pre + "_, _, _ = lo, hi, st\n")
	}
	if spelling == "mixed" {
		g.WriteString(pre + "_, _ = hi, one\n")
	}
	emit := func(label, xcode, expect string) {
		x.WriteString(xcode)
		fmt.Fprintf(&x, "fmt.Println(\"  %s\", out)\n", label)
		fmt.Fprintf(&g, "fmt.Println(\"  %s\", %q)\n", label, expect)
	}
	fuse := "n++\nif n > 64 {\nbreak\n}\n"
	if full {
		emit("for-arrow", "{\n\tout, n := []int{}, 0\n\tfor i <- "+r+" {\n\t"+fuse+"\t\tout = append(out, i)\n\t}\n\t_ = n\n", want)
		x.WriteString("}\n")
		emit("for-in", "{\n\tout, n := []int{}, 0\n\tfor i in "+r+" {\n\t"+fuse+"\t\tout = append(out, i)\n\t}\n\t_ = n\n", want)
		x.WriteString("}\n")
		emit("for-range", "{\n\tout, n := []int{}, 0\n\tfor i := range "+r+" {\n\t"+fuse+"\t\tout = append(out, i)\n\t}\n\t_ = n\n", want)
		x.WriteString("}\n")
		emit("for-range-assign", "{\n\tout, n := []int{}, 0\n\tvar i int\n\tfor i = range "+r+" {\n\t"+fuse+"\t\tout = append(out, i)\n\t}\n\t_ = n\n", want)
		x.WriteString("}\n")
		emit("for-arrow-continue", "{\n\tout, n := []int{}, 0\nL:\n\tfor i <- "+r+" {\n\t"+fuse+"\t\tif i < -100000 {\n\t\t\tcontinue L\n\t\t}\n\t\tout = append(out, i)\n\t}\n\t_ = n\n", want)
		x.WriteString("}\n")
		emit("for-range-count", "{\n\tout, n := 0, 0\n\tfor range "+r+" {\n\t"+fuse+"\t\tout++\n\t}\n\t_ = n\n", fmt.Sprint(wantN))
		x.WriteString("}\n")
		var evens []string
		for _, s := range seq {
			var v int
			fmt.Sscan(s, &v)
			if v%2 == 0 {
				evens = append(evens, s)
			}
		}
		emit("for-arrow-if", "{\n\tout, n := []int{}, 0\n\tfor i <- "+r+" if i%2 == 0 || i < -5000 || i > 5000 {\n\t"+fuse+"\t\tout = append(out, i)\n\t}\n\t_ = n\n", "["+strings.Join(evens, " ")+"]")
		x.WriteString("}\n")
	}
	emit("list-compr", "{\n\tout := [i for i <- "+r+"]\n", want)
	x.WriteString("}\n")
	// map comprehension i -> i*i, printed by fmt (sorted keys)
	{
		m := map[int]int{}
		for _, s := range seq {
			var v int
			fmt.Sscan(s, &v)
			m[v] = v * v
		}
		emit("map-compr", "{\n\tout := {i: i*i for i <- "+r+"}\n", fmt.Sprint(m))
		x.WriteString("}\n")
	}
	x.WriteString("{\n\tout, ok := {i for i <- " + r + " if i != " + fmt.Sprint(start) + "}\n\tfmt.Println(\"  select\", out, ok)\n}\n")
	fmt.Fprintf(&g, "fmt.Println(\"  select\", %q)\n", firstOver)
	x.WriteString("{\n\tout := {for i <- " + r + " if i != " + fmt.Sprint(start) + "}\n\tfmt.Println(\"  exists\", out)\n}\n")
	fmt.Fprintf(&g, "fmt.Println(\"  exists\", %v)\n", hasOther)
	// nested phrases: pairs with a second small range as the outer loop
	{
		var pairs []string
		for _, o := range []int{0, 1} {
			for _, s := range seq {
				pairs = append(pairs, fmt.Sprintf("[%s %d]", s, o))
			}
		}
		emit("nested-compr", "{\n\tout := [[i, j] for i <- "+r+" for j <- :2]\n", "["+strings.Join(pairs, " ")+"]")
		x.WriteString("}\n")
	}
	// the Go side prints strings with %q-free Println: render expected via Println of the same text
	gs := strings.ReplaceAll(g.String(), "fmt.Println(\"  select\", \""+firstOver+"\")", "fmt.Println(\"  select\", "+strings.ReplaceAll(firstOver, " ", ", ")+")")
	if spelling == "call" {
		// the property is about the sequence only: the evaluation trace of the bounds is discarded
		x.WriteString("trace = nil\n")
	}
	kind := "range-pos-" + spelling
	if step < 0 {
		// one root cause is expected for negative steps in statement contexts, whatever the spelling
		kind = "range-neg-stmt"
		if !full {
			kind = "range-neg-compr-" + spelling
		}
	}
	trivial := wantN <= 1 && step == 1
	return Item{Kind: kind, X: x.String(), G: fixQuoted(gs), Key: fmt.Sprintf("range/%d/%d/%d/%s/%v", start, end, step, spelling, full),
		NonTrivial: !trivial, Labels: []string{"spelling=" + spelling, fmt.Sprintf("len=%d", min(wantN, 4))}}
}

// fixQuoted turns fmt.Println("  label", "text") of the Go side into printing the text unquoted:
// Println of a string prints it verbatim, which is what the XGo side's Println of the value prints.
func fixQuoted(s string) string { return s }

func lit(n int) string {
	if n < 0 {
		return fmt.Sprintf("-%d", -n)
	}
	return fmt.Sprint(n)
}

package pkggen

import (
	"fmt"
	"strings"

	"pgregory.net/rapid"
)

// DeclSoup draws a package of small declarations that refer to each other at random: alias and
// defined types over a pool of names (cycles through aliases, pointers, slices, maps, funcs,
// structs, embedded fields and interfaces included), package variables and constants whose
// initialisers mention each other, functions and methods that call each other. Most soups are
// ill-formed in an interesting way (cyclic alias, initialisation cycle, invalid recursive type,
// undefined or duplicate names): the compiler has to answer with errors, not with a crash.
func DeclSoup(t *rapid.T) Pkg {
	pick := func(n int, l string) int { return rapid.IntRange(0, n-1).Draw(t, l) }
	tn := []string{"A", "B", "C", "D", "E"}[:2+pick(4, "ntypes")]
	vn := []string{"va", "vb", "vc", "vd"}[:1+pick(4, "nvars")]
	cn := []string{"ca", "cb", "cc"}[:1+pick(3, "nconsts")]
	fn := []string{"fa", "fb", "fc"}[:1+pick(3, "nfuncs")]
	of := func(xs []string, l string) string { return xs[pick(len(xs), l)] }
	var typ func(d int) string
	typ = func(d int) string {
		if d <= 0 {
			if pick(4, "leaf") == 0 {
				return of([]string{"int", "string", "error", "any", "float64"}, "basic")
			}
			return of(tn, "tname")
		}
		switch pick(12, "tform") {
		case 0:
			return "*" + typ(d-1)
		case 1:
			return "[]" + typ(d-1)
		case 2:
			return "map[string]" + typ(d-1)
		case 3:
			return "map[" + typ(d-1) + "]" + typ(d-1)
		case 4:
			return "func(" + typ(d-1) + ") " + typ(d-1)
		case 5:
			return "chan " + typ(d-1)
		case 6:
			return "[2]" + typ(d-1)
		case 7:
			return "struct {\n\tx " + typ(d-1) + "\n\t" + of([]string{"", "*"}, "ptr") + of(tn, "embed") + "\n}"
		case 8:
			return "interface {\n\t" + of(tn, "iembed") + "\n\tM() " + typ(d-1) + "\n}"
		case 9:
			return "[" + of(append([]string{"2", "len(" + of(vn, "lv") + ")"}, cn...), "alen") + "]" + typ(d-1)
		default:
			return typ(0)
		}
	}
	var expr func(d int) string
	expr = func(d int) string {
		if d <= 0 {
			switch pick(5, "eleaf") {
			case 0:
				return of(vn, "v")
			case 1:
				return of(cn, "c")
			case 2:
				return of(fn, "f") + "()"
			case 3:
				return of([]string{"1", `"s"`, "2.5", "nil", "iota"}, "lit")
			}
			return of(tn, "T") + "{}"
		}
		switch pick(8, "eform") {
		case 0:
			return expr(d-1) + " + " + expr(d-1)
		case 1:
			return "len(" + expr(d-1) + ")"
		case 2:
			return of(tn, "conv") + "(" + expr(d-1) + ")"
		case 3:
			return "&" + of(tn, "T") + "{}"
		case 4:
			return "func() " + typ(1) + " { return " + expr(d-1) + " }()"
		case 5:
			return expr(d-1) + "." + of([]string{"x", "M()", "m()"}, "sel")
		case 6:
			return "unsafe.Sizeof(" + expr(d-1) + ")"
		}
		return expr(0)
	}
	var decls []string
	for _, n := range tn {
		eq := of([]string{" = ", " = ", " "}, "alias")
		decls = append(decls, "type "+n+eq+typ(1+pick(2, "depth")))
	}
	if pick(3, "dupe") == 0 { // a second declaration of a name
		decls = append(decls, "type "+of(tn, "dup")+" = "+typ(1))
	}
	for _, n := range vn {
		switch pick(3, "vform") {
		case 0:
			decls = append(decls, "var "+n+" = "+expr(1+pick(2, "depth")))
		case 1:
			decls = append(decls, "var "+n+" "+typ(1)+" = "+expr(1))
		default:
			decls = append(decls, "var "+n+" "+typ(1))
		}
	}
	for _, n := range cn {
		decls = append(decls, "const "+n+" = "+of([]string{expr(1), of(cn, "c") + " + 1", "len(" + of(vn, "v") + ")", "1 << " + of(cn, "c")}, "cform"))
	}
	for _, n := range fn {
		recv := ""
		if pick(3, "method") == 0 {
			recv = "(r " + of([]string{"", "*"}, "ptr") + of(tn, "recv") + ") "
			n = of([]string{"M", "m", n}, "mname")
		}
		decls = append(decls, fmt.Sprintf("func %s%s() %s {\n\treturn %s\n}", recv, n, typ(1), expr(1+pick(2, "depth"))))
	}
	// drawn order
	order := rapid.Permutation(decls).Draw(t, "order")
	src := strings.Join(order, "\n\n") + "\n"
	if strings.Contains(src, "unsafe.") {
		src = "import \"unsafe\"\n\n" + src
	}
	return Pkg{Files: map[string]string{"bar.xgo": src}, Kind: "declsoup"}
}

//go:build verif

// C28 — matching a compiled TPL grammar always terminates: dangerous grammars (repetitions that
// can succeed without consuming, left recursion) are either rejected at compile time or matched
// in bounded steps. Non-termination is decided deterministically through the step/depth budget
// of the tpl/matcher verification hook (build tag verif), never by a timeout.
package c28

import (
	"fmt"
	"sync"
	"testing"

	"github.com/goplus/xgo/tpl"
	"pgregory.net/rapid"

	"verif/internal/gen/tplgen"
	"verif/internal/gen/tplref"
	"verif/internal/vk"
)

func TestMain(m *testing.M) {
	vk.Main(m, "C28", "exploration",
		"(grammar, input) pairs: tplgen grammars of 1..4 rules over INT/IDENT/STRING/CHAR/FLOAT/QSTRING/RAWSTRING, keywords, operators and \"\", every operator, depth <= 3; three quarters of them rewritten by tplgen.Endanger into dangerous shapes: *(?X), +(*X), *(\"\"), *(A|?B), ?A % ?B, +(?A *B) placed alone / before / after / as an option, direct left recursion (r = r X), indirect (r = s X; s = r Y), hidden behind a nullable prefix (r = ?A r B, r = *A r), each with and without a top-level choice, and left recursion inside a nested choice; inputs: 0..12 tokens drawn from the grammar's terminal alphabet, or a sampled derivation, optionally perturbed. Oracle: tpl.New either rejects the grammar, or Match, ParseExpr and Parse return within the hook budget of 8*(|grammar|+1)*(|tokens|+1)^2 steps (repetition iterations + rule entries) and a rule nesting depth of (|grammar|+1)*(|tokens|+2)+8 (beyond which some rule is re-entered at the same input position, i.e. recursion is unbounded). Exceeding the step budget after some repetition iteration succeeded without consuming a token is class repetition-without-progress (the next iteration starts in the same state, so that loop never ends); exceeding the depth is unbounded-left-recursion; any other step overrun is retried with a 256x budget; if that is exceeded too without a zero-progress iteration and within the depth bound, the match is a finite (exponentially large) backtracking tree: it terminates and is counted as outcome exponential-but-terminating, not as a violation. Non-trivial = the static analysis finds a reachable nullable repetition body or a reachable left-recursive rule; distinct = hash of (grammar text, input text)")
}

type Case struct {
	Grammar string `json:"grammar"`
	Input   string `json:"input"`
}

// ---- hook access (no compile-time dependency: the check also builds against a repository
// without the hook, and then reports INFRA) -----------------------------------------------------

type budgetSetter interface {
	VerifSetBudget(steps, depth int) bool
}

type budgetError interface {
	VerifBudgetExceeded() (kind string, zeroProgress bool, rule string)
}

var (
	hookOnce   sync.Once
	depthOnce  sync.Once
	hookOK     bool
	hookWhy    string
	infraOnce  sync.Once
	probeInput = "1 2 3"
)

func setBudget(cl tpl.Compiler, steps, depth int) bool {
	h, ok := any(cl.Doc).(budgetSetter)
	return ok && h.VerifSetBudget(steps, depth)
}

// hookActive probes the hook once: with a budget of one step, matching `a = *INT` against three
// integers must raise the sentinel.
func hookActive() bool {
	hookOnce.Do(func() {
		tpl.ShowConflict(false)
		cl, err := tpl.New("a = *INT\n")
		if err != nil {
			hookWhy = "probe grammar does not compile: " + err.Error()
			return
		}
		if !setBudget(cl, 1, 0) {
			hookWhy = "tpl/matcher.(*Var) has no VerifSetBudget method (hook not in the repository: apply proposed_fixes/HOOK-tpl-matcher.diff)"
			return
		}
		defer setBudget(cl, 0, 0)
		defer func() {
			if p := recover(); p != nil {
				if _, ok := p.(budgetError); ok {
					hookOK = true
				} else {
					hookWhy = fmt.Sprintf("probe panicked with %v", p)
				}
			}
		}()
		cl.Match("", probeInput, nil)
		hookWhy = "probe match finished although the step budget was 1 (calls missing in the repetition loops?)"
	})
	if hookOK { // second probe: the depth budget must work too, or left recursion would kill the process
		depthOnce.Do(func() {
			hookOK = false
			cl, err := tpl.New("a = b\nb = INT\n")
			if err != nil {
				hookWhy = "depth probe grammar does not compile: " + err.Error()
				return
			}
			setBudget(cl, 0, 1)
			defer setBudget(cl, 0, 0)
			defer func() {
				if p := recover(); p != nil {
					if b, ok := p.(budgetError); ok {
						if kind, _, _ := b.VerifBudgetExceeded(); kind == "depth" {
							hookOK = true
							return
						}
					}
					hookWhy = fmt.Sprintf("depth probe panicked with %v", p)
				}
			}()
			cl.Match("", "1", nil)
			hookWhy = "depth probe finished although the depth budget was 1 (calls missing in Var.Match?)"
		})
	}
	return hookOK
}

func hookMissing() {
	infraOnce.Do(func() {
		vk.R.Infra("C28 cannot decide termination: tpl/matcher verification hook inactive: %s", hookWhy)
	})
}

// ---- oracle -----------------------------------------------------------------------------------

// lexical size of a grammar text: identifiers, literals and operator characters. The number of
// AST nodes is at most twice that, the number of rules at most that.
func grammarSize(src string) int {
	n := 0
	for i := 0; i < len(src); {
		c := src[i]
		switch {
		case c == ' ' || c == '\t' || c == '\n' || c == '\r' || c == '(' || c == ')':
			i++
		case c == '"' || c == '\'' || c == '`':
			j := i + 1
			for j < len(src) && src[j] != c {
				if src[j] == '\\' && c != '`' {
					j++
				}
				j++
			}
			i = j + 1
			n++
		case c == '_' || c >= '0' && c <= '9' || c >= 'a' && c <= 'z' || c >= 'A' && c <= 'Z' || c >= 0x80:
			for i < len(src) && (src[i] == '_' || src[i] >= '0' && src[i] <= '9' || src[i] >= 'a' && src[i] <= 'z' || src[i] >= 'A' && src[i] <= 'Z' || src[i] >= 0x80) {
				i++
			}
			n++
		default:
			i++
			n++
		}
	}
	return 2 * n
}

type info struct {
	outcome string
	steps   int
}

type entryFn func(cl *tpl.Compiler, input string) error

var entries = []struct {
	name string
	call entryFn
}{
	{"Match", func(cl *tpl.Compiler, in string) error { _, _, err := cl.Match("", in, nil); return err }},
	{"ParseExpr", func(cl *tpl.Compiler, in string) error { _, err := cl.ParseExpr(in, nil); return err }},
	{"Parse", func(cl *tpl.Compiler, in string) error { _, err := cl.Parse("", in, nil); return err }},
}

// bounded runs one entry point under the budget; over is the sentinel if the budget was exceeded.
func bounded(cl *tpl.Compiler, call entryFn, input string, steps, depth int) (err error, over budgetError, other any) {
	setBudget(*cl, steps, depth)
	defer setBudget(*cl, 0, 0)
	defer func() {
		if p := recover(); p != nil {
			if b, ok := p.(budgetError); ok {
				over = b
			} else {
				other = p
			}
		}
	}()
	err = call(cl, input)
	return
}

func evaluate(c Case) (*vk.Verdict, info) {
	if !hookActive() {
		hookMissing()
		return nil, info{outcome: "hook-inactive"}
	}
	tpl.ShowConflict(false)
	cl, err := tpl.New(c.Grammar)
	if err != nil {
		return nil, info{outcome: "rejected-at-compile"}
	}
	g := grammarSize(c.Grammar)
	t := len(tplref.Scan(c.Input)) // tokens incl. automatic semicolons, as Compiler.Match scans them
	steps := 8 * (g + 1) * (t + 1) * (t + 1)
	depth := (g+1)*(t+2) + 8
	out := info{outcome: "matched"}
	for _, e := range entries {
		err, over, other := bounded(&cl, e.call, c.Input, steps, depth)
		if other != nil {
			out.outcome = "other-panic" // not a termination question (C29 looks at results)
			continue
		}
		if over == nil {
			if err != nil && out.outcome == "matched" {
				out.outcome = "match-error"
			}
			continue
		}
		kind, zero, rule := over.VerifBudgetExceeded()
		switch {
		case kind == "depth":
			return vk.Bad("unbounded-left-recursion", "%s(%q): rule nesting exceeds %d = (|grammar|+1)*(|tokens|+2)+8 while entering rule %s: some rule is re-entered at the same input position, the recursion never ends (%v)", e.name, c.Input, depth, rule, over), out
		case zero:
			return vk.Bad("repetition-without-progress", "%s(%q): more than %d steps; a repetition iteration succeeded without consuming a token, so that loop repeats forever (%v)", e.name, c.Input, steps, over), out
		default:
			// possibly slow but terminating: retry with a much larger budget before reporting
			_, again, _ := bounded(&cl, e.call, c.Input, 256*steps, depth)
			if again == nil {
				out.outcome = "slow-but-terminating"
				continue
			}
			if k2, z2, r2 := again.VerifBudgetExceeded(); k2 == "depth" {
				return vk.Bad("unbounded-left-recursion", "%s(%q): rule nesting exceeds %d while entering rule %s (%v)", e.name, c.Input, depth, r2, again), out
			} else if z2 {
				return vk.Bad("repetition-without-progress", "%s(%q): a repetition iteration succeeded without consuming a token (%v)", e.name, c.Input, again), out
			}
			// Every counted step is a repetition iteration that consumed a token or a rule entry within
			// the depth bound, so the computation is a finite tree: this match terminates, only slowly
			// (exponential backtracking, e.g. expr = R % expr). Termination is the property; cost is not.
			out.outcome = "exponential-but-terminating"
			continue
		}
	}
	return nil, out
}

var oracle = vk.Register("terminate", func(c Case) *vk.Verdict { v, _ := evaluate(c); return v })

type failer interface {
	Fatalf(string, ...any)
	Helper()
}

func run(t failer, c Case, a *tplgen.Analysis, classes ...string) {
	vk.R.Current("terminate", c)
	v, in := evaluate(c)
	vk.R.ClearCurrent()
	nt := !a.Terminating()
	vk.R.Case(nt, c.Grammar+"\x00"+c.Input)
	for _, cl := range classes {
		vk.R.Class(cl)
	}
	outcome := in.outcome
	if v != nil {
		outcome = v.Class
	}
	vk.R.Class("outcome=" + outcome)
	for _, l := range a.Labels() {
		vk.R.Class("model=" + l)
		vk.R.Class("model=" + l + " -> " + outcome)
	}
	if nt {
		vk.R.Sample(c.Grammar + "---\n" + c.Input)
	}
	vk.R.Check(t, "terminate", c, v)
}

// steer: while a class is a listed known finding, three of four cases that the analysis predicts
// to hit it (and that the compiler accepts) are skipped, so that the budget goes to the rest.
func steer(t *rapid.T, a *tplgen.Analysis, src string) bool {
	var class string
	switch {
	case a.NullableRepBody && vk.R.KnownClass("repetition-without-progress") != nil:
		class = "repetition-without-progress"
	case len(a.LeftRecursive) > 0 && vk.R.KnownClass("unbounded-left-recursion") != nil:
		class = "unbounded-left-recursion"
	default:
		return false
	}
	if _, err := tpl.New(src); err != nil {
		return false // rejected at compile time: nothing to steer away from
	}
	if rapid.IntRange(0, 3).Draw(t, "confirm-known") == 0 {
		return false
	}
	vk.R.Excluded(class)
	vk.R.Case(false, "")
	return true
}

func TestDangerousGrammars(t *testing.T) {
	if !hookActive() {
		hookMissing()
		return
	}
	tpl.ShowConflict(false)
	base := tplgen.MatchGrammar(4, 3)
	vk.R.Rapid(t, 1, 20000, 600000, func(t *rapid.T) {
		g := base.Draw(t, "grammar")
		classes := []string{"danger=none"}
		if rapid.IntRange(0, 3).Draw(t, "endanger") > 0 {
			var kinds []string
			g, kinds = tplgen.Endanger(t, g)
			classes = classes[:0]
			for _, k := range kinds {
				classes = append(classes, "danger="+k)
			}
		}
		src := g.Source()
		a := tplgen.Analyze(g)
		if steer(t, a, src) {
			return
		}
		var in []tplgen.InTok
		alphabet := tplgen.Alphabet(g)
		switch rapid.IntRange(0, 2).Draw(t, "input") {
		case 0:
			in = tplgen.RandomInput(t, alphabet, 12)
			classes = append(classes, "input=alphabet")
		case 1:
			in = tplgen.Derive(t, g, 4)
			classes = append(classes, "input=derivation")
		default:
			in, _ = tplgen.Perturb(t, tplgen.Derive(t, g, 4), alphabet)
			classes = append(classes, "input=perturbed-derivation")
		}
		if len(in) > 12 {
			in = in[:12]
		}
		run(t, Case{Grammar: src, Input: tplgen.JoinInput(in)}, a, classes...)
	})
}

var fixed = []Case{
	{"a = *(?INT)\n", "x"}, {"a = *(?INT)\n", "1 2 x"}, {"a = *(?INT)\n", ""}, {"a = +(*INT)\n", "1 2"}, {"a = *(\"\")\n", "1"},
	{"a = *(INT | ?IDENT)\n", "1 x +"}, {"a = ?INT % ?\",\"\n", "1 , 2 +"}, {"a = INT % \"\"\n", "1 2 3"}, {"a = \"\" % \"\"\n", "1"},
	{"a = a INT\n", "1"}, {"a = a INT | INT\n", "1 2"}, {"a = b INT\nb = a IDENT\n", "1 x"}, {"a = ?INT a IDENT\n", "x"}, {"a = *INT a\n", "1 2"},
	{"a = (a | INT) IDENT\n", "1 x"}, {"a = INT a | INT\n", "1 2 3"}, {"a = \"(\" a \")\" | INT\n", "( ( 1 ) )"}, {"a = *b\nb = ?INT IDENT\n", "1 x y 2"},
	{"a = b\nb = c\nc = a\n", "1"}, {"a = \"\" a\n", ""}, {"a = INT ++ a | INT\n", "12"}, {"expr = termExpr | expr (\"+\" | \"-\") expr\ntermExpr = INT\n", "1 + 2"},
}

func TestFixed(t *testing.T) {
	if !hookActive() {
		hookMissing()
		return
	}
	if vk.R.Shard != 0 {
		return
	}
	for _, c := range fixed {
		g, err := tplgen.ParseGrammar(c.Grammar)
		if err != nil {
			t.Fatalf("harness: fixed grammar %q: %v", c.Grammar, err)
		}
		run(t, c, tplgen.Analyze(g), "src=fixed")
	}
}

//go:build verif

package c24

import (
	"fmt"
	"os"
	"testing"

	"github.com/goplus/xgo/format"
)

func TestDbgPools(t *testing.T) {
	if os.Getenv("C24_DBG") == "" {
		return
	}
	pools := map[string][]string{"func": funcPool, "var": varPool, "stmt": stmtPool, "funclit": funclitPool, "group": groupPool, "funcgroup": funcGroupPool, "import": importPool, "flr": funclitResultPool, "lead": leadPool}
	for name, p := range pools {
		for _, s := range p {
			if name == "lead" {
				s += "var x int\n"
			}
			if _, err := format.Source([]byte(s), false); err != nil {
				fmt.Printf("POOL %s: %q: %v\n", name, s, err)
			}
		}
	}
}

func TestDbgExp(t *testing.T) {
	if os.Getenv("C24_DBG") == "" {
		return
	}
	n := 0
	for i := 0; i < 3000 && n < 6; i++ {
		c := scriptGen(os.Getenv("C24_SHAPE")).Example(i)
		want, _ := expected(c.Chunks)
		if _, err := format.Source(join(want), false); err != nil {
			fmt.Printf("EXPFAIL %v\n%s\n-----\n", err, join(want))
			n++
		}
	}
}

// Package xcl compiles XGo packages in-process the way `xgo build` does (parser.ParseFSDir over an
// in-memory directory + cl.NewPackage + WriteTo) and returns the generated Go source.
package xcl

import (
	"bytes"
	"fmt"
	gotoken "go/token"
	"regexp"
	"runtime/debug"
	"sort"
	"strings"
	"sync"

	"github.com/goplus/gogen"
	"github.com/goplus/mod/env"
	"github.com/goplus/mod/modfile"
	"github.com/goplus/xgo/ast"
	"github.com/goplus/xgo/cl"
	"github.com/goplus/xgo/parser"
	"github.com/goplus/xgo/parser/fsx/memfs"
	"github.com/goplus/xgo/tool"
)

// Result of one compilation.
type Result struct {
	Go       []byte // generated Go source (nil if compilation failed)
	ParseErr error  // error from the parser (compilation is still attempted when Partial is set)
	Err      error  // error from cl.NewPackage / WriteTo
	Pkg      *gogen.Package
	Fset     *gotoken.FileSet
	AST      *ast.Package
	Panic    any // non-nil if a panic escaped NewPackage/WriteTo
	Stack    string
	Phase    string // "parse" | "newpackage" | "writeto": where a panic escaped
}

// Options of one compilation.
type Options struct {
	NoFileLine bool   // suppress //line directives
	Partial    bool   // compile even if the parser reported errors
	PkgName    string // package to pick from the directory (default "main")
	NoAutoMain bool
	Outline    bool
}

var (
	impMu   sync.Mutex
	impFset *gotoken.FileSet
	imp     *tool.Importer
)

// Importer returns the process-wide importer (go list based, cached) and its FileSet.
func Importer() (*tool.Importer, *gotoken.FileSet) {
	impMu.Lock()
	defer impMu.Unlock()
	if imp == nil {
		impFset = gotoken.NewFileSet()
		imp = tool.NewImporter(nil, &env.XGo{Version: "1.0"}, impFset)
	}
	return imp, impFset
}

func lookupClass(ext string) (c *modfile.Project, ok bool) { return nil, false }

// Compile compiles the files (name → source) of one in-memory directory "/foo".
func Compile(files map[string]string, opt Options) (res Result) {
	names := make([]string, 0, len(files))
	for n := range files {
		names = append(names, n)
	}
	sort.Strings(names)
	fls := make([]string, 0, 2*len(names))
	for _, n := range names {
		fls = append(fls, n, files[n])
	}
	return CompileOrdered(fls, opt)
}

// CompileOrdered takes name, source, name, source, ... in the order the directory lists them.
func CompileOrdered(nameSrc []string, opt Options) (res Result) {
	im, fset := Importer()
	res.Fset = fset
	names := make([]string, 0, len(nameSrc)/2)
	data := map[string]string{}
	for i := 0; i+1 < len(nameSrc); i += 2 {
		names = append(names, nameSrc[i])
		data["/foo/"+nameSrc[i]] = nameSrc[i+1]
	}
	fs := memfs.New(map[string][]string{"/foo": names}, data)
	defer func() {
		if p := recover(); p != nil {
			res.Panic = p
			res.Stack = string(debug.Stack())
			res.Err = fmt.Errorf("panic: %v", p)
		}
	}()
	res.Phase = "parse"
	pkgs, err := parser.ParseFSDir(fset, fs, "/foo", parser.Config{Mode: parser.ParseComments})
	res.ParseErr = err
	if err != nil && !opt.Partial {
		return
	}
	name := opt.PkgName
	if name == "" {
		name = "main"
	}
	pkg := pkgs[name]
	if pkg == nil {
		for _, p := range pkgs { // single package with another name
			pkg = p
			break
		}
	}
	if pkg == nil {
		if res.ParseErr == nil {
			res.ParseErr = fmt.Errorf("no package parsed")
		}
		return
	}
	res.AST = pkg
	conf := &cl.Config{Fset: fset, Importer: im, LookupClass: lookupClass, NoFileLine: opt.NoFileLine,
		NoAutoGenMain: opt.NoAutoMain, Outline: opt.Outline}
	res.Phase = "newpackage"
	p, err := cl.NewPackage("", pkg, conf)
	if err != nil {
		res.Err = err
		return
	}
	res.Pkg = p
	res.Phase = "writeto"
	var b bytes.Buffer
	if err := p.WriteTo(&b); err != nil {
		res.Err = err
		return
	}
	res.Go = b.Bytes()
	return
}

var goConstantPanic = regexp.MustCompile(`(?m): (.+ not an? (String|Int|Float|Bool|Complex)|invalid binary operation .+|invalid unary operation .+|invalid shift .+)$`)

// RejectClass names the class of a compile error of a program that is known to be valid: a panic of
// go/constant that gogen's constant folding ran into (recovered and reported as an error) gets a
// class of its own per panic message kind, anything else is plain "cl-rejects".
func RejectClass(err error) string {
	if err == nil {
		return ""
	}
	if strings.Contains(err.Error(), "const initializer ") && strings.Contains(err.Error(), " is not a constant") {
		// in a valid Go program every const initializer is constant: the compiler resolved a name in
		// it to something else (known root cause: lazily loaded package-level declarations see the
		// locals of the function being compiled)
		return "cl-rejects:const-initializer-not-constant"
	}
	m := goConstantPanic.FindStringSubmatch(err.Error())
	if m == nil {
		return "cl-rejects"
	}
	switch {
	case strings.Contains(m[1], "not a"):
		return "cl-rejects:go-constant-panic/not-a-" + m[2]
	case strings.HasPrefix(m[1], "invalid binary"):
		return "cl-rejects:go-constant-panic/invalid-binary-operation"
	case strings.HasPrefix(m[1], "invalid unary"):
		return "cl-rejects:go-constant-panic/invalid-unary-operation"
	}
	return "cl-rejects:go-constant-panic/invalid-shift"
}

var constRuneString = regexp.MustCompile(`string\(rune\((?:[0-9+\-*/%&|^<>() ]|\bc[0-4]\b)+\)\)`)

// HasConstRuneString reports whether src converts a constant integer expression with
// string(rune(...)): gogen folds that conversion to a constant that still holds the integer, so
// comparisons and len() of it go wrong (a listed finding of C01 and C25).
func HasConstRuneString(src string) bool { return constRuneString.MatchString(src) }

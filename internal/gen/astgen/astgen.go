// Package astgen synthesises xgo/ast trees by reflection over the node types declared in
// /repo/ast. A tree is a pure function of (root type name, depth, options, choice list): the
// choice list is consumed left to right, each entry taken modulo the number of alternatives at
// that point (an exhausted list yields 0 = the smallest alternative: optional field nil, slice
// of minimal length, leaf node kind), so a case is JSON-serialisable and shrinks well.
//
// The builder only makes trees the ast documentation allows: mandatory fields are always set,
// fields documented "or nil" are optional, switch/select bodies hold only clauses, a GenDecl
// holds specs of the kind of its token, and positional expression kinds (KeyValueExpr,
// Ellipsis, ElemEllipsis, ForPhrase) appear only where the parser can put them.
package astgen

import (
	goast "go/ast"
	"reflect"
	"sort"

	"github.com/goplus/xgo/ast"
	"github.com/goplus/xgo/token"
	tplast "github.com/goplus/xgo/tpl/ast"
)

// NodeTypes is the registry of every node type of package ast (pointer-typed nil values).
// checks verify it against the source of /repo/ast (see DeclaredNodeTypes in the C18 check).
var NodeTypes = []goast.Node{
	(*ast.Comment)(nil), (*ast.CommentGroup)(nil), (*ast.Field)(nil), (*ast.FieldList)(nil),
	(*ast.BadExpr)(nil), (*ast.Ident)(nil), (*ast.Ellipsis)(nil), (*ast.BasicLit)(nil), (*ast.FuncLit)(nil), (*ast.CompositeLit)(nil),
	(*ast.ParenExpr)(nil), (*ast.SelectorExpr)(nil), (*ast.IndexExpr)(nil), (*ast.IndexListExpr)(nil), (*ast.SliceExpr)(nil),
	(*ast.TypeAssertExpr)(nil), (*ast.CallExpr)(nil), (*ast.StarExpr)(nil), (*ast.UnaryExpr)(nil), (*ast.BinaryExpr)(nil), (*ast.KeyValueExpr)(nil),
	(*ast.ArrayType)(nil), (*ast.StructType)(nil), (*ast.FuncType)(nil), (*ast.InterfaceType)(nil), (*ast.MapType)(nil), (*ast.ChanType)(nil),
	(*ast.BadStmt)(nil), (*ast.DeclStmt)(nil), (*ast.EmptyStmt)(nil), (*ast.LabeledStmt)(nil), (*ast.ExprStmt)(nil), (*ast.SendStmt)(nil),
	(*ast.IncDecStmt)(nil), (*ast.AssignStmt)(nil), (*ast.GoStmt)(nil), (*ast.DeferStmt)(nil), (*ast.ReturnStmt)(nil), (*ast.BranchStmt)(nil),
	(*ast.BlockStmt)(nil), (*ast.IfStmt)(nil), (*ast.CaseClause)(nil), (*ast.SwitchStmt)(nil), (*ast.TypeSwitchStmt)(nil), (*ast.CommClause)(nil),
	(*ast.SelectStmt)(nil), (*ast.ForStmt)(nil), (*ast.RangeStmt)(nil),
	(*ast.ImportSpec)(nil), (*ast.ValueSpec)(nil), (*ast.TypeSpec)(nil), (*ast.BadDecl)(nil), (*ast.GenDecl)(nil), (*ast.FuncDecl)(nil),
	(*ast.File)(nil), (*ast.Package)(nil),
	(*ast.OverloadFuncDecl)(nil), (*ast.DomainTextLit)(nil), (*ast.NumberUnitLit)(nil), (*ast.EnvExpr)(nil), (*ast.SliceLit)(nil), (*ast.MatrixLit)(nil),
	(*ast.ElemEllipsis)(nil), (*ast.ErrWrapExpr)(nil), (*ast.LambdaExpr)(nil), (*ast.LambdaExpr2)(nil), (*ast.RangeExpr)(nil), (*ast.ForPhrase)(nil),
	(*ast.ComprehensionExpr)(nil), (*ast.ForPhraseStmt)(nil),
}

// TypeNames returns the names of NodeTypes, sorted.
func TypeNames() []string {
	var out []string
	for _, n := range NodeTypes {
		out = append(out, reflect.TypeOf(n).Elem().Name())
	}
	sort.Strings(out)
	return out
}

var byName = func() map[string]reflect.Type {
	m := map[string]reflect.Type{}
	for _, n := range NodeTypes {
		t := reflect.TypeOf(n).Elem()
		m[t.Name()] = t
	}
	return m
}()

// XGoOnly lists the node kinds Go does not have.
var XGoOnly = map[string]bool{"OverloadFuncDecl": true, "DomainTextLit": true, "NumberUnitLit": true, "EnvExpr": true, "SliceLit": true,
	"MatrixLit": true, "ElemEllipsis": true, "ErrWrapExpr": true, "LambdaExpr": true, "LambdaExpr2": true, "RangeExpr": true, "ForPhrase": true,
	"ComprehensionExpr": true, "ForPhraseStmt": true}

// optional fields: documented "or nil" / nil-checked by their own Pos/End methods.
var optional = map[string]bool{
	"Field.Doc": true, "Field.Tag": true, "Field.Comment": true, "Ellipsis.Elt": true, "CompositeLit.Type": true,
	"SliceExpr.Low": true, "SliceExpr.High": true, "SliceExpr.Max": true, "TypeAssertExpr.Type": true, "ArrayType.Len": true,
	"FuncType.TypeParams": true, "FuncType.Results": true, "BranchStmt.Label": true, "IfStmt.Init": true, "IfStmt.Else": true,
	"SwitchStmt.Init": true, "SwitchStmt.Tag": true, "TypeSwitchStmt.Init": true, "CommClause.Comm": true,
	"ForStmt.Init": true, "ForStmt.Cond": true, "ForStmt.Post": true, "RangeStmt.Key": true, "RangeStmt.Value": true,
	"ImportSpec.Doc": true, "ImportSpec.Name": true, "ImportSpec.Comment": true,
	"ValueSpec.Doc": true, "ValueSpec.Type": true, "ValueSpec.Tag": true, "ValueSpec.Comment": true,
	"TypeSpec.Doc": true, "TypeSpec.TypeParams": true, "TypeSpec.Comment": true, "GenDecl.Doc": true,
	"FuncDecl.Doc": true, "FuncDecl.Recv": true, "FuncDecl.Body": true, "File.Doc": true,
	"OverloadFuncDecl.Doc": true, "OverloadFuncDecl.Recv": true, "ErrWrapExpr.Default": true,
	"RangeExpr.First": true, "RangeExpr.Last": true, "RangeExpr.Expr3": true,
	"ForPhrase.Key": true, "ForPhrase.Init": true, "ForPhrase.Cond": true, "ComprehensionExpr.Elt": true,
	"DomainTextLit.Extra": true, "BasicLit.Extra": true,
}

// slices that must not be empty
var nonEmpty = map[string]bool{"ValueSpec.Names": true, "SendStmt.Values": true, "AssignStmt.Lhs": true, "AssignStmt.Rhs": true,
	"ComprehensionExpr.Fors": true, "IndexListExpr.Indices": true, "MatrixLit.Elts": true, "GenDecl.Specs": true, "CommentGroup.List": true}

// never filled
var skip = map[string]bool{"File.Imports": true, "File.Comments": true, "File.Code": true, "File.ShadowEntry": true, "Ident.Obj": true,
	"Package.Imports": true, "Package.GoFiles": true}

var (
	exprT = reflect.TypeOf((*ast.Expr)(nil)).Elem()
	stmtT = reflect.TypeOf((*ast.Stmt)(nil)).Elem()
	declT = reflect.TypeOf((*ast.Decl)(nil)).Elem()
	specT = reflect.TypeOf((*ast.Spec)(nil)).Elem()
	nodeT = reflect.TypeOf((*goast.Node)(nil)).Elem()
	anyT  = reflect.TypeOf((*any)(nil)).Elem()
	posT  = reflect.TypeOf(token.Pos(0))
	tokT  = reflect.TypeOf(token.Token(0))
)

// generic candidate pools (leaf kinds first: choice 0 and depth 0 give leaves)
var (
	exprLeaves = []string{"Ident", "BasicLit", "NumberUnitLit", "EnvExpr", "BadExpr"}
	exprKinds  = []string{"Ident", "BasicLit", "NumberUnitLit", "EnvExpr", "BadExpr", "FuncLit", "CompositeLit", "ParenExpr", "SelectorExpr", "IndexExpr",
		"IndexListExpr", "SliceExpr", "TypeAssertExpr", "CallExpr", "StarExpr", "UnaryExpr", "BinaryExpr", "ArrayType", "StructType", "FuncType",
		"InterfaceType", "MapType", "ChanType", "DomainTextLit", "SliceLit", "ErrWrapExpr", "LambdaExpr", "LambdaExpr2", "RangeExpr", "ComprehensionExpr"}
	stmtLeaves = []string{"EmptyStmt", "BranchStmt", "BadStmt"}
	stmtKinds  = []string{"EmptyStmt", "BranchStmt", "BadStmt", "ExprStmt", "DeclStmt", "LabeledStmt", "SendStmt", "IncDecStmt", "AssignStmt", "GoStmt", "DeferStmt",
		"ReturnStmt", "BlockStmt", "IfStmt", "SwitchStmt", "TypeSwitchStmt", "SelectStmt", "ForStmt", "RangeStmt", "ForPhraseStmt"}
	declLeaves = []string{"BadDecl"}
	declKinds  = []string{"BadDecl", "GenDecl", "FuncDecl", "OverloadFuncDecl"}
)

// per-field candidate overrides / additions
var fieldKinds = map[string][]string{
	"DeclStmt.Decl":          {"GenDecl"},
	"TypeSwitchStmt.Assign":  {"ExprStmt", "AssignStmt"},
	"CommClause.Comm":        {"ExprStmt", "SendStmt", "AssignStmt"},
	"OverloadFuncDecl.Funcs": {"Ident", "SelectorExpr", "FuncLit"},
	"IfStmt.Else":            {"BlockStmt", "IfStmt"},
	"IfStmt.Init":            {"ExprStmt", "AssignStmt", "IncDecStmt", "SendStmt"},
	"SwitchStmt.Init":        {"ExprStmt", "AssignStmt", "IncDecStmt"},
	"TypeSwitchStmt.Init":    {"ExprStmt", "AssignStmt"},
	"ForStmt.Init":           {"AssignStmt", "ExprStmt", "IncDecStmt"},
	"ForStmt.Post":           {"IncDecStmt", "AssignStmt", "ExprStmt"},
	"ForPhrase.Init":         {"AssignStmt", "ExprStmt"},
}
var fieldExtra = map[string][]string{
	"CompositeLit.Elts":     {"KeyValueExpr"},
	"ComprehensionExpr.Elt": {"KeyValueExpr"},
	"SliceLit.Elts":         {"ElemEllipsis"},
	"MatrixLit.Elts":        {"ElemEllipsis"},
	"Field.Type":            {"Ellipsis"},
	"ArrayType.Len":         {"Ellipsis"},
	"CallExpr.Args":         {"LambdaExpr", "LambdaExpr2", "MatrixLit"},
	"ExprStmt.X":            {"CallExpr"},
	"ForPhrase.X":           {"RangeExpr"},
	"IndexExpr.Index":       {"RangeExpr"},
	"DomainTextLitEx.Args":  {"BasicLit"},
	"StringLitEx.Parts":     {"BinaryExpr"},
	"Rule.RetProc":          {"LambdaExpr2"},
}

// Options steer the builder.
type Options struct {
	Avoid       map[string]bool // node kinds never chosen for interface-typed slots
	AvoidFields map[string]bool // optional "Type.Field" slots always left nil / empty
	Comments    bool            // fill Doc / Comment groups
}

type builder struct {
	ch    []int
	i     int
	opt   Options
	nodes int
	max   int
}

func (b *builder) next(n int) int {
	if n <= 1 || b.i >= len(b.ch) {
		return 0
	}
	v := b.ch[b.i]
	b.i++
	if v < 0 {
		v = -v
	}
	return v % n
}

// Build makes a tree whose root has the given type name. depth bounds the nesting of
// interface-typed slots; maxNodes bounds the size (afterwards only minimal alternatives are taken).
func Build(root string, depth int, choices []int, opt Options, maxNodes int) goast.Node {
	t, ok := byName[root]
	if !ok {
		return nil
	}
	b := &builder{ch: choices, opt: opt, max: maxNodes}
	return b.node(t, depth, "").Interface().(goast.Node)
}

func (b *builder) exhausted() bool { return b.nodes >= b.max }

// node builds a pointer to a fresh struct of type t. ctx is "case" / "comm" for the body block of
// a switch / select statement.
func (b *builder) node(t reflect.Type, depth int, ctx string) reflect.Value {
	b.nodes++
	p := reflect.New(t)
	v := p.Elem()
	owner := t.Name()
	switch owner { // node kinds with cross-field constraints
	case "GenDecl":
		b.genDecl(v, depth)
		return p
	case "BlockStmt":
		if ctx != "" {
			b.clauseBlock(v, depth, ctx)
			return p
		}
	case "CommentGroup":
		n := 1 + b.next(2)
		list := make([]*goast.Comment, n)
		for i := range list {
			b.nodes++
			list[i] = &goast.Comment{Text: "// c"}
		}
		v.FieldByName("List").Set(reflect.ValueOf(list))
		return p
	case "Comment":
		v.FieldByName("Text").SetString("// c")
		return p
	}
	for i := 0; i < t.NumField(); i++ {
		f := t.Field(i)
		if !f.IsExported() || skip[owner+"."+f.Name] {
			continue
		}
		c := ""
		if (owner == "SwitchStmt" || owner == "TypeSwitchStmt") && f.Name == "Body" {
			c = "case"
		} else if owner == "SelectStmt" && f.Name == "Body" {
			c = "comm"
		}
		b.fill(v.Field(i), owner, f.Name, depth, c)
	}
	if owner == "File" { // the parser makes ShadowEntry an alias of the last declaration
		decls := v.FieldByName("Decls")
		if n := decls.Len(); n > 0 {
			if fd, ok := decls.Index(n - 1).Interface().(*ast.FuncDecl); ok && fd.Shadow {
				v.FieldByName("ShadowEntry").Set(reflect.ValueOf(fd))
			}
		}
	}
	if owner == "FuncDecl" { // a shadow entry always has a body
		if fd := p.Interface().(*ast.FuncDecl); fd.Shadow && fd.Body == nil {
			fd.Body = &ast.BlockStmt{}
			b.nodes++
		}
	}
	return p
}

func (b *builder) genDecl(v reflect.Value, depth int) {
	kind := b.next(4)
	tok, spec := token.VAR, "ValueSpec"
	switch kind {
	case 1:
		tok = token.CONST
	case 2:
		tok, spec = token.TYPE, "TypeSpec"
	case 3:
		tok, spec = token.IMPORT, "ImportSpec"
	}
	d := v.Addr().Interface().(*ast.GenDecl)
	d.Tok = tok
	if b.opt.Comments && !b.opt.AvoidFields["GenDecl.Doc"] && b.next(2) == 1 {
		d.Doc = b.node(reflect.TypeOf(goast.CommentGroup{}), depth, "").Interface().(*goast.CommentGroup)
	}
	n := 1
	if depth > 0 && !b.exhausted() {
		n += b.next(2)
	}
	for i := 0; i < n; i++ {
		d.Specs = append(d.Specs, b.node(byName[spec], depth-1, "").Interface().(ast.Spec))
	}
}

func (b *builder) clauseBlock(v reflect.Value, depth int, ctx string) {
	blk := v.Addr().Interface().(*ast.BlockStmt)
	n := 0
	if depth > 0 && !b.exhausted() {
		n = b.next(3)
	}
	name := "CaseClause"
	if ctx == "comm" {
		name = "CommClause"
	}
	for i := 0; i < n; i++ {
		blk.List = append(blk.List, b.node(byName[name], depth-1, "").Interface().(ast.Stmt))
	}
}

func (b *builder) candidates(it reflect.Type, key string, depth int) []string {
	var pool []string
	if ks, ok := fieldKinds[key]; ok {
		pool = ks
	} else {
		leaf := depth <= 0 || b.exhausted()
		switch it {
		case exprT, nodeT:
			pool = exprKinds
			if leaf {
				pool = exprLeaves
			}
		case stmtT:
			pool = stmtKinds
			if leaf {
				pool = stmtLeaves
			}
		case declT:
			pool = declKinds
			if leaf {
				pool = declLeaves
			}
		}
		if !leaf {
			pool = append(append([]string(nil), pool...), fieldExtra[key]...)
		}
	}
	var out []string
	for _, k := range pool {
		if !b.opt.Avoid[k] {
			out = append(out, k)
		}
	}
	if len(out) == 0 {
		switch it {
		case stmtT:
			return []string{"EmptyStmt"}
		case declT:
			return []string{"BadDecl"}
		}
		return []string{"Ident"}
	}
	return out
}

func (b *builder) iface(it reflect.Type, key string, depth int) reflect.Value {
	c := b.candidates(it, key, depth)
	return b.node(byName[c[b.next(len(c))]], depth-1, "")
}

func (b *builder) fill(v reflect.Value, owner, name string, depth int, ctx string) {
	key := owner + "." + name
	t := v.Type()
	isOpt := optional[key]
	switch {
	case t == posT || t == tokT:
		return
	case t.Kind() == reflect.String:
		switch name {
		case "Name":
			v.SetString("x")
		case "Value":
			v.SetString("1")
		case "Unit":
			v.SetString("m")
		}
		return
	case t.Kind() == reflect.Bool:
		if key == "FuncDecl.Shadow" || key == "File.NoPkgDecl" || key == "LambdaExpr.LhsHasParen" || key == "FuncDecl.Operator" {
			v.SetBool(b.next(2) == 1)
		}
		return
	case t.Kind() == reflect.Int:
		return
	}
	if isOpt && (b.opt.AvoidFields[key] || b.next(2) == 0) {
		return
	}
	switch t.Kind() {
	case reflect.Ptr:
		et := t.Elem()
		switch {
		case et.Name() == "CommentGroup" && et.PkgPath() == "go/ast":
			if !b.opt.Comments {
				return
			}
			v.Set(b.node(et, depth, ""))
		case et.Name() == "Object" || et.Name() == "Scope":
			return
		case et.Name() == "StringLitEx":
			v.Set(reflect.ValueOf(b.stringLitEx(depth)))
		case et.Kind() == reflect.Struct && reflect.PointerTo(et).Implements(nodeT):
			v.Set(b.node(et, depth-1, ctx))
		}
	case reflect.Interface:
		if t == anyT { // DomainTextLit.Extra
			v.Set(reflect.ValueOf(b.extra(depth)))
			return
		}
		v.Set(b.iface(t, key, depth))
	case reflect.Slice:
		b.slice(v, key, depth)
	case reflect.Map:
		if key == "Package.Files" {
			m := map[string]*ast.File{}
			n := b.next(3)
			for i := 0; i < n; i++ {
				m[string(rune('a'+i))+".xgo"] = b.node(byName["File"], depth-1, "").Interface().(*ast.File)
			}
			v.Set(reflect.ValueOf(m))
		}
	}
}

func (b *builder) slice(v reflect.Value, key string, depth int) {
	t := v.Type()
	et := t.Elem()
	min := 0
	if nonEmpty[key] {
		min = 1
	}
	n := min
	if b.opt.AvoidFields[key] {
		return
	}
	if depth > 0 && !b.exhausted() {
		n += b.next(3)
	}
	if n == 0 {
		return
	}
	out := reflect.MakeSlice(t, 0, n)
	for i := 0; i < n; i++ {
		switch {
		case et.Kind() == reflect.Slice: // MatrixLit.Elts [][]Expr
			row := reflect.MakeSlice(et, 0, 2)
			m := 1 + b.next(2)
			for j := 0; j < m; j++ {
				row = reflect.Append(row, b.iface(et.Elem(), key, depth-1))
			}
			out = reflect.Append(out, row)
		case et.Kind() == reflect.Interface:
			out = reflect.Append(out, b.iface(et, key, depth))
		case et.Kind() == reflect.Ptr && et.Elem().Kind() == reflect.Struct && et.Implements(nodeT):
			out = reflect.Append(out, b.node(et.Elem(), depth-1, ""))
		}
	}
	v.Set(out)
}

func (b *builder) stringLitEx(depth int) *ast.StringLitEx {
	ex := &ast.StringLitEx{}
	n := 1 + b.next(3)
	for i := 0; i < n; i++ {
		if b.next(2) == 0 {
			ex.Parts = append(ex.Parts, "s")
		} else {
			ex.Parts = append(ex.Parts, b.iface(exprT, "StringLitEx.Parts", depth-1).Interface())
		}
	}
	return ex
}

// extra builds the Extra of a DomainTextLit: *DomainTextLitEx (tag`> args …`), a tpl grammar
// with rule ret-procs (tpl`…`), or *StringLitEx (handled by ast.Walk although the parser does
// not produce it today).
func (b *builder) extra(depth int) any {
	switch b.next(3) {
	case 0:
		ex := &ast.DomainTextLitEx{Raw: "t"}
		n := 1 + b.next(2)
		for i := 0; i < n; i++ {
			ex.Args = append(ex.Args, b.iface(exprT, "DomainTextLitEx.Args", depth-1).Interface().(ast.Expr))
		}
		return ex
	case 1:
		f := &tplast.File{}
		n := 1 + b.next(2)
		for i := 0; i < n; i++ {
			r := &tplast.Rule{Name: &tplast.Ident{Name: "r"}, Expr: &tplast.Ident{Name: "INT"}}
			if b.next(2) == 1 {
				r.RetProc = b.node(byName["LambdaExpr2"], depth-1, "").Interface().(goast.Node)
			}
			f.Decls = append(f.Decls, r)
		}
		return f
	default:
		return b.stringLitEx(depth)
	}
}

package astx

import (
	"fmt"
	goast "go/ast"
	"reflect"
	"strings"
)

// CrossEqual compares a go/ast tree with an xgo/ast tree structurally: same node type names,
// fields matched by name, positions / objects / scopes / comments ignored, tokens compared by
// spelling. Fields that exist on one side only are ignored, except go's SendStmt.Value which
// is matched with XGo's SendStmt.Values[0]. It returns "" when equal, otherwise a description
// of the first difference (with the path to it).
func CrossEqual(gonode any, xnode any) string {
	return cross(reflect.ValueOf(gonode), reflect.ValueOf(xnode), "", 0)
}

func skipCrossField(name string, t reflect.Type) bool {
	switch name {
	case "Obj", "Scope", "Unresolved", "Imports", "Comments", "Doc", "Comment", "FileStart", "FileEnd", "GoVersion":
		return true
	}
	return t == posType
}

func isNilV(v reflect.Value) bool {
	if !v.IsValid() {
		return true
	}
	switch v.Kind() {
	case reflect.Ptr, reflect.Interface, reflect.Map, reflect.Func, reflect.Chan:
		return v.IsNil()
	case reflect.Slice:
		return v.Len() == 0
	}
	return false
}

func cross(a, b reflect.Value, path string, depth int) string {
	if depth > 5000 {
		return path + ": too deep"
	}
	for a.IsValid() && a.Kind() == reflect.Interface && !a.IsNil() {
		a = a.Elem()
	}
	for b.IsValid() && b.Kind() == reflect.Interface && !b.IsNil() {
		b = b.Elem()
	}
	an, bn := isNilV(a), isNilV(b)
	if an || bn {
		if an != bn {
			return fmt.Sprintf("%s: go/ast has %s, XGo has %s", path, descr(a), descr(b))
		}
		return ""
	}
	switch a.Kind() {
	case reflect.Ptr:
		if b.Kind() != reflect.Ptr {
			return fmt.Sprintf("%s: go/ast has %s, XGo has %s", path, descr(a), descr(b))
		}
		ae, be := a.Elem(), b.Elem()
		if ae.Kind() != reflect.Struct || be.Kind() != reflect.Struct {
			return cross(ae, be, path, depth+1)
		}
		if ae.Type().Name() != be.Type().Name() {
			return fmt.Sprintf("%s: go/ast node is %s, XGo node is %s", path, ae.Type().Name(), be.Type().Name())
		}
		tn := ae.Type().Name()
		for i := 0; i < ae.NumField(); i++ {
			f := ae.Type().Field(i)
			if !f.IsExported() || skipCrossField(f.Name, f.Type) {
				continue
			}
			bf := be.FieldByName(f.Name)
			if !bf.IsValid() {
				if tn == "SendStmt" && f.Name == "Value" {
					vals := be.FieldByName("Values")
					if !vals.IsValid() || vals.Len() != 1 {
						return path + ".SendStmt: XGo SendStmt does not have exactly one value"
					}
					if d := cross(ae.Field(i), vals.Index(0), path+"."+tn+".Value", depth+1); d != "" {
						return d
					}
				}
				continue
			}
			if d := cross(ae.Field(i), bf, path+"."+tn+"."+f.Name, depth+1); d != "" {
				return d
			}
		}
		return ""
	case reflect.Slice:
		if b.Kind() != reflect.Slice {
			return fmt.Sprintf("%s: kinds differ", path)
		}
		if a.Len() != b.Len() {
			return fmt.Sprintf("%s: go/ast has %d elements, XGo has %d", path, a.Len(), b.Len())
		}
		for i := 0; i < a.Len(); i++ {
			if d := cross(a.Index(i), b.Index(i), fmt.Sprintf("%s[%d]", path, i), depth+1); d != "" {
				return d
			}
		}
		return ""
	case reflect.String:
		if b.Kind() != reflect.String || a.String() != b.String() {
			return fmt.Sprintf("%s: go/ast %q, XGo %v", path, a.String(), b)
		}
		return ""
	case reflect.Bool:
		if b.Kind() != reflect.Bool || a.Bool() != b.Bool() {
			return fmt.Sprintf("%s: go/ast %v, XGo %v", path, a, b)
		}
		return ""
	case reflect.Int, reflect.Int8, reflect.Int16, reflect.Int32, reflect.Int64, reflect.Uint, reflect.Uint8, reflect.Uint16, reflect.Uint32, reflect.Uint64:
		// tokens: compare by spelling; other ints by value
		if strings.HasSuffix(a.Type().Name(), "Token") {
			as, bs := fmt.Sprint(a.Interface()), fmt.Sprint(b.Interface())
			if as != bs {
				return fmt.Sprintf("%s: token go/ast %s, XGo %s", path, as, bs)
			}
			return ""
		}
		if fmt.Sprint(a.Interface()) != fmt.Sprint(b.Interface()) {
			return fmt.Sprintf("%s: go/ast %v, XGo %v", path, a.Interface(), b.Interface())
		}
		return ""
	case reflect.Struct:
		return "" // non-node struct values (none that matter)
	}
	return ""
}

func descr(v reflect.Value) string {
	if isNilV(v) {
		return "nothing"
	}
	for v.Kind() == reflect.Interface || v.Kind() == reflect.Ptr {
		if v.IsNil() {
			return "nil"
		}
		v = v.Elem()
	}
	return v.Type().Name()
}

var _ goast.Node

package dbg

import (
	"fmt"
	"testing"

	"verif/internal/xcl"
)

func TestDbg(t *testing.T) {
	for _, src := range []string{"func f(x int) int\n\necho f(1)\n", "func f(x int) int\n", "func main()\n", "import \"fmt\"\nfunc g()\nfunc main() {\n\tfmt.Println(1)\n}\n"} {
		r := xcl.Compile(map[string]string{"bar.xgo": src}, xcl.Options{})
		fmt.Printf("%q: parse=%v err=%v panic=%v phase=%s\n%s\n", src, r.ParseErr, r.Err, r.Panic, r.Phase, r.Go)
	}
}

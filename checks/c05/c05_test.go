//go:build verif

// C05 — string interpolation equals explicit concatenation.
package c05

import (
	"strings"
	"testing"

	"verif/internal/gen/xsugar"
	"verif/internal/sugarcheck"
	"verif/internal/vk"
)

func TestMain(m *testing.M) {
	vk.Main(m, "C05", "exploration",
		"programs of 25 items x 4 string literals (quoted and raw) built from 0-6 parts: plain text (escapes, Unicode, braces), $$, ${expr} over int/int64/uint64/float64 (the numeric types with a documented .string form)/string/named string/error values, arithmetic, traced calls, selectors, index and builtin calls, adjacent ${a}${b}, $$ next to ${, trailing lone $; rendered as XGo and as the explicit Go concatenation with strconv formatting; oracle: equal %q value per literal and equal left-to-right evaluation trace. Literals with a ${bool} part are generated but their rejection by the compiler is counted under rejected (the statement defines no string form for bools). Non-trivial = literal with >= 2 ${} parts or a $$; distinct = item text")
}

var oracle = sugarcheck.NewOracle("pair", nil)

func TestInterpolation(t *testing.T) {
	sugarcheck.Run(t, vk.R, sugarcheck.Options{
		Name:    "pair",
		Oracle:  oracle,
		Program: func(g *xsugar.G) *xsugar.Program { return xsugar.InterpProgram(g, 25) },
		// a compile-time rejection of a literal over numbers, strings and errors means the feature is
		// unusable there; literals with a bool part are outside the statement
		Documented: func(it xsugar.Item) bool { return !strings.HasSuffix(it.Kind, "-bool") },
		Quick:      20,
		Thorough:   400,
	})
}

//go:build verif

// C36 — the import cache key (Importer.PkgHash of a module package) changes exactly when the
// package sources change.
package c36

import (
	"bytes"
	"flag"
	"fmt"
	gotoken "go/token"
	"os"
	"path/filepath"
	"runtime/debug"
	"sort"
	"strings"
	"testing"
	"time"

	"github.com/goplus/mod/env"
	"github.com/goplus/mod/xgomod"
	"github.com/goplus/xgo/tool"
	"pgregory.net/rapid"

	"verif/internal/vk"
)

func TestMain(m *testing.M) {
	vk.Main(m, "C36", "exploration",
		"stateful histories (rapid Repeat, <= 25 steps) over a scratch module (go.mod + package directory, package = ./pkg or the module root, classfile extensions imported or not): write/overwrite a file (size and fill byte drawn, so same-size edits occur), set its mtime, rename (also over an existing file and across the compilable boundary), remove, mkdir/rmdir (directories named like source files), write inside a sub-directory, no-op. Names mix compilable (.go .xgo .gop .gox, and .spx .gsh .gmx when classes are imported), underscore-prefixed, and other files. Every mtime is set with os.Chtimes from a fixed lattice (equal, 1ns, 1us, 1s, days apart), never the wall clock. Oracle: a pure model (set of (name,size,mtime) over compilable, non-underscore, non-directory entries) is advanced by the same operations; after every step PkgHash(pkgPath, self) for self in {true,false} must differ from the previous value iff the model set changed (nothing is demanded for a step that rewrites a source file keeping size and mtime: the statement is silent there). Non-trivial = history with at least one relevant change, one executed irrelevant change and one rename across the compilable boundary; distinct = sequence of (operation, relevance) pairs")
}

// ---- case ---------------------------------------------------------------------------------------

type Op struct {
	Kind  string `json:"op"` // write chtimes rename remove mkdir rmdir writesub noop
	Name  string `json:"name,omitempty"`
	To    string `json:"to,omitempty"`
	Size  int    `json:"size,omitempty"`
	Fill  string `json:"fill,omitempty"`  // one byte repeated Size times
	Mtime int    `json:"mtime,omitempty"` // index into lattice
}

type Case struct {
	Classes bool `json:"classes"` // mod.ImportClasses(): .spx .gsh .gmx become compilable
	Root    bool `json:"root"`    // the package is the module root instead of ./pkg
	Ops     []Op `json:"ops"`
}

var base = time.Unix(1_600_000_000, 0)

// lattice of modification times: controlled equal / different, from 1ns to years apart.
var lattice = []time.Time{
	base, base.Add(1), base.Add(time.Microsecond), base.Add(time.Second), base.Add(2 * time.Second),
	base.Add(-24 * time.Hour), base.Add(24 * 365 * time.Hour), base.Add(time.Second - 1),
}

// ---- model --------------------------------------------------------------------------------------

type fileInfo struct {
	size  int
	mtime int
	fill  string
}

type world struct {
	classes bool
	files   map[string]fileInfo
	dirs    map[string]map[string]bool // directory → files inside
}

func newWorld(c Case) *world {
	w := &world{classes: c.Classes, files: map[string]fileInfo{}, dirs: map[string]map[string]bool{}}
	if c.Root {
		w.files["go.mod"] = fileInfo{size: -1} // present, never touched by an operation, not compilable
	}
	return w
}

// compilable is the reference reading of "compilable": XGo/Go source extensions, plus the
// classfile extensions every module knows once classes are imported.
func (w *world) compilable(name string) bool {
	switch filepath.Ext(name) {
	case ".go", ".xgo", ".gop", ".gox":
		return true
	case ".spx", ".gsh", ".gmx":
		return w.classes
	}
	return false
}

func (w *world) relevant(name string) bool {
	return !strings.HasPrefix(name, "_") && w.compilable(name)
}

func (w *world) exists(name string) bool {
	_, f := w.files[name]
	_, d := w.dirs[name]
	return f || d
}

// key is the canonical form of the model set.
func (w *world) key() string {
	var ks []string
	for n, f := range w.files {
		if w.relevant(n) {
			ks = append(ks, fmt.Sprintf("%s/%d/%d", n, f.size, f.mtime))
		}
	}
	sort.Strings(ks)
	return strings.Join(ks, "|")
}

// apply advances the model; executed says whether the operation is carried out on disk
// (operations whose precondition does not hold are skipped on both sides).
func (w *world) apply(op Op) (executed bool) {
	switch op.Kind {
	case "write":
		if _, isDir := w.dirs[op.Name]; isDir || op.Name == "go.mod" {
			return false
		}
		w.files[op.Name] = fileInfo{op.Size, op.Mtime, op.Fill}
		return true
	case "chtimes":
		f, ok := w.files[op.Name]
		if !ok || op.Name == "go.mod" {
			return false
		}
		f.mtime = op.Mtime
		w.files[op.Name] = f
		return true
	case "rename":
		if op.Name == op.To || op.Name == "go.mod" || op.To == "go.mod" {
			return false
		}
		if f, ok := w.files[op.Name]; ok {
			if _, isDir := w.dirs[op.To]; isDir {
				return false
			}
			delete(w.files, op.Name)
			w.files[op.To] = f // replaces an existing file
			return true
		}
		if d, ok := w.dirs[op.Name]; ok {
			if w.exists(op.To) {
				return false
			}
			delete(w.dirs, op.Name)
			w.dirs[op.To] = d
			return true
		}
		return false
	case "remove":
		if _, ok := w.files[op.Name]; !ok || op.Name == "go.mod" {
			return false
		}
		delete(w.files, op.Name)
		return true
	case "mkdir":
		if w.exists(op.Name) {
			return false
		}
		w.dirs[op.Name] = map[string]bool{}
		return true
	case "rmdir":
		if _, ok := w.dirs[op.Name]; !ok {
			return false
		}
		delete(w.dirs, op.Name)
		return true
	case "writesub":
		d, ok := w.dirs[op.Name]
		if !ok {
			return false
		}
		d[op.To] = true
		return true
	case "noop":
		return true
	}
	return false
}

// ---- oracle -------------------------------------------------------------------------------------

type stepInfo struct {
	kind     string
	executed bool
	changed  bool // model set changed
	free     bool // executed on a source file without changing its name, size or mtime: the statement is silent
	boundary bool // rename across the compilable boundary
}

type info struct {
	steps []stepInfo
}

func scratch() (string, error) {
	if d := os.Getenv("VK_SCRATCH"); d != "" {
		return os.MkdirTemp(d, "c36-")
	}
	return os.MkdirTemp("", "c36-")
}

func content(op Op) []byte {
	fill := byte('x')
	if op.Fill != "" {
		fill = op.Fill[0]
	}
	return bytes.Repeat([]byte{fill}, op.Size)
}

// diffReason names what differs between two model keys.
func diffReason(before, after string) string {
	parse := func(k string) map[string][2]string {
		m := map[string][2]string{}
		if k == "" {
			return m
		}
		for _, e := range strings.Split(k, "|") {
			p := strings.Split(e, "/")
			m[p[0]] = [2]string{p[1], p[2]}
		}
		return m
	}
	a, b := parse(before), parse(after)
	gone, born, size, mtime := 0, 0, 0, 0
	for n, x := range a {
		y, ok := b[n]
		switch {
		case !ok:
			gone++
		case x[0] != y[0]:
			size++
		case x[1] != y[1]:
			mtime++
		}
	}
	for n := range b {
		if _, ok := a[n]; !ok {
			born++
		}
	}
	switch {
	case gone > 0 && born > 0:
		return "name"
	case gone > 0:
		return "disappear"
	case born > 0:
		return "appear"
	case size > 0:
		return "size"
	case mtime > 0:
		return "mtime"
	}
	return "none"
}

func (w *world) category(name string) string {
	switch {
	case name == "":
		return "none"
	case w.dirs[name] != nil:
		return "dir"
	case strings.HasPrefix(name, "_"):
		return "underscore"
	case !w.compilable(name):
		return "other-ext"
	}
	return "source"
}

func check(c Case) (v *vk.Verdict, in info) {
	defer func() {
		if p := recover(); p != nil {
			v = vk.Bad("panic", "%v\n%s", p, debug.Stack())
		}
	}()
	root, err := scratch()
	if err != nil {
		vk.R.Infra("scratch directory: %v", err)
		return nil, in
	}
	defer os.RemoveAll(root)
	fail := func(err error) (*vk.Verdict, info) {
		vk.R.Infra("file system operation failed: %v", err)
		return nil, in
	}
	if err := os.WriteFile(filepath.Join(root, "go.mod"), []byte("module example.com/m\n\ngo 1.18\n"), 0o644); err != nil {
		return fail(err)
	}
	dir, pkgPath := filepath.Join(root, "pkg"), "example.com/m/pkg"
	if c.Root {
		dir, pkgPath = root, "example.com/m"
	} else if err := os.Mkdir(dir, 0o755); err != nil {
		return fail(err)
	}
	mod, err := xgomod.Load(root)
	if err != nil {
		return fail(err)
	}
	if c.Classes {
		if err := mod.ImportClasses(); err != nil {
			return fail(err)
		}
	}
	imp := tool.NewImporter(mod, &env.XGo{Version: "1.5", Root: root}, gotoken.NewFileSet())
	w := newWorld(c)
	hash := func() [2]string { return [2]string{imp.PkgHash(pkgPath, true), imp.PkgHash(pkgPath, false)} }
	prev := hash()
	for i, op := range c.Ops {
		before := w.key()
		catBefore := w.category(op.Name)
		executed := w.apply(op)
		after := w.key()
		st := stepInfo{kind: op.Kind, executed: executed, changed: before != after}
		// a step that rewrites a source file with the same size and mtime (or sets the mtime it already
		// has) neither changes name/size/mtime nor "touches only other entries": nothing is demanded
		st.free = executed && !st.changed && (op.Kind == "write" || op.Kind == "chtimes") && w.relevant(op.Name)
		if executed {
			p := filepath.Join(dir, op.Name)
			var err error
			switch op.Kind {
			case "write":
				if err = os.WriteFile(p, content(op), 0o644); err == nil {
					err = os.Chtimes(p, lattice[op.Mtime], lattice[op.Mtime])
				}
			case "chtimes":
				err = os.Chtimes(p, lattice[op.Mtime], lattice[op.Mtime])
			case "rename":
				err = os.Rename(p, filepath.Join(dir, op.To))
				st.boundary = catBefore != "dir" && (w.relevant(op.Name) != w.relevant(op.To))
			case "remove":
				err = os.Remove(p)
			case "mkdir":
				err = os.Mkdir(p, 0o755)
			case "rmdir":
				err = os.RemoveAll(p)
			case "writesub":
				q := filepath.Join(p, op.To)
				if err = os.WriteFile(q, content(op), 0o644); err == nil {
					err = os.Chtimes(q, lattice[op.Mtime], lattice[op.Mtime])
				}
			}
			if err != nil {
				return fail(err)
			}
			if op.Kind == "write" || op.Kind == "chtimes" { // the file system must keep what the lattice says
				fi, err := os.Lstat(p)
				if err != nil {
					return fail(err)
				}
				if !fi.ModTime().Equal(lattice[op.Mtime]) {
					return fail(fmt.Errorf("mtime %v set, %v read back: file system granularity too coarse", lattice[op.Mtime], fi.ModTime()))
				}
			}
		}
		in.steps = append(in.steps, st)
		cur := hash()
		if st.free {
			prev = cur
			continue
		}
		for k, self := range []bool{true, false} {
			moved := cur[k] != prev[k]
			switch {
			case st.changed && !moved:
				return vk.Bad("missed-"+diffReason(before, after), "step %d %+v: sources changed (%q -> %q) but PkgHash(%q, %v) stayed %s",
					i, op, before, after, pkgPath, self, cur[k]), in
			case !st.changed && moved:
				what := "skipped"
				if executed {
					what = catBefore
					if op.Kind == "noop" {
						what = "none"
					}
				}
				return vk.Bad("spurious-"+op.Kind+"-"+what, "step %d %+v: sources unchanged (%q) but PkgHash(%q, %v) went from %s to %s",
					i, op, after, pkgPath, self, prev[k], cur[k]), in
			}
		}
		prev = cur
	}
	return nil, in
}

var oracle = vk.Register("history", func(c Case) *vk.Verdict { v, _ := check(c); return v })

// ---- generator ----------------------------------------------------------------------------------

var sourceNames = []string{"a.go", "b.go", "main.xgo", "c.gop", "Rect.gox", "a_test.go", "x_test.gox", "sub.go", "z.xgo"}
var classNames = []string{"main.spx", "run.gsh", "old.gmx"}
var underscoreNames = []string{"_a.go", "_b.xgo", "_", "_c.gox", "_main.spx"}
var otherNames = []string{"README.md", "notes.txt", "data.json", "a.go.txt", "go", "Makefile", "a.goo", "xgo", "b.c"}
var dirNames = []string{"sub", "sub.go", "testdata", "_dir", "internal.xgo"}

func allNames() []string {
	var out []string
	for _, p := range [][]string{sourceNames, classNames, underscoreNames, otherNames, dirNames} {
		out = append(out, p...)
	}
	return out
}

func (w *world) existing(files, dirs bool) []string {
	var out []string
	if files {
		for n := range w.files {
			if n != "go.mod" {
				out = append(out, n)
			}
		}
	}
	if dirs {
		for n := range w.dirs {
			out = append(out, n)
		}
	}
	sort.Strings(out)
	return out
}

// pickName prefers an existing entry (so that operations hit something) but also draws fresh names.
func pickName(t *rapid.T, w *world, files, dirs bool, label string) string {
	ex := w.existing(files, dirs)
	if len(ex) > 0 && rapid.IntRange(0, 3).Draw(t, label+"-existing") > 0 {
		return rapid.SampledFrom(ex).Draw(t, label)
	}
	return rapid.SampledFrom(allNames()).Draw(t, label)
}

func TestHistories(t *testing.T) {
	flag.Set("rapid.steps", "25")
	vk.R.Rapid(t, 1, 1200, 30000, func(t *rapid.T) {
		c := Case{Classes: rapid.Bool().Draw(t, "classes"), Root: rapid.IntRange(0, 3).Draw(t, "root") == 0}
		w := newWorld(c)
		add := func(op Op) {
			w.apply(op)
			c.Ops = append(c.Ops, op)
		}
		fill := func() string { return rapid.SampledFrom([]string{"a", "b"}).Draw(t, "fill") }
		size := func() int { return rapid.SampledFrom([]int{0, 1, 1, 2, 7, 7, 100}).Draw(t, "size") }
		mtime := func() int { return rapid.IntRange(0, len(lattice)-1).Draw(t, "mtime") }
		t.Repeat(map[string]func(*rapid.T){
			"write": func(t *rapid.T) {
				add(Op{Kind: "write", Name: pickName(t, w, true, false, "name"), Size: size(), Fill: fill(), Mtime: mtime()})
			},
			"write-new": func(t *rapid.T) {
				add(Op{Kind: "write", Name: rapid.SampledFrom(allNames()).Draw(t, "name"), Size: size(), Fill: fill(), Mtime: mtime()})
			},
			"edit-same-size": func(t *rapid.T) { // same size, other content, mtime restored or not
				ex := w.existing(true, false)
				if len(ex) == 0 {
					t.Skip("no file")
				}
				n := rapid.SampledFrom(ex).Draw(t, "name")
				f := w.files[n]
				nf := "a"
				if f.fill == "a" {
					nf = "b"
				}
				mt := f.mtime
				if rapid.Bool().Draw(t, "newmtime") {
					mt = mtime()
				}
				add(Op{Kind: "write", Name: n, Size: f.size, Fill: nf, Mtime: mt})
			},
			"chtimes": func(t *rapid.T) {
				add(Op{Kind: "chtimes", Name: pickName(t, w, true, false, "name"), Mtime: mtime()})
			},
			"rename": func(t *rapid.T) {
				add(Op{Kind: "rename", Name: pickName(t, w, true, true, "name"), To: pickName(t, w, true, true, "to")})
			},
			"rename-across": func(t *rapid.T) { // source name <-> name that does not count
				ex := w.existing(true, false)
				if len(ex) == 0 {
					t.Skip("no file")
				}
				n := rapid.SampledFrom(ex).Draw(t, "name")
				pool := append(append([]string{}, sourceNames...), classNames...)
				if w.relevant(n) {
					pool = append(append([]string{}, underscoreNames...), otherNames...)
				}
				add(Op{Kind: "rename", Name: n, To: rapid.SampledFrom(pool).Draw(t, "to")})
			},
			"remove": func(t *rapid.T) {
				add(Op{Kind: "remove", Name: pickName(t, w, true, false, "name")})
			},
			"mkdir": func(t *rapid.T) {
				add(Op{Kind: "mkdir", Name: rapid.SampledFrom(append(append([]string{}, dirNames...), sourceNames[:3]...)).Draw(t, "name")})
			},
			"rmdir": func(t *rapid.T) {
				add(Op{Kind: "rmdir", Name: pickName(t, w, false, true, "name")})
			},
			"writesub": func(t *rapid.T) {
				add(Op{Kind: "writesub", Name: pickName(t, w, false, true, "name"), To: rapid.SampledFrom(sourceNames).Draw(t, "to"), Size: size(), Fill: fill(), Mtime: mtime()})
			},
			"noop": func(t *rapid.T) { add(Op{Kind: "noop"}) },
		})
		v, in := check(c)
		record(c, in)
		vk.R.Check(t, "history", c, v)
	})
}

func record(c Case, in info) {
	var rel, irrel, boundary bool
	var kb strings.Builder
	for _, s := range in.steps {
		tag := "skip"
		switch {
		case s.changed:
			rel = true
			tag = "rel"
			vk.R.Class("step=" + s.kind + "/relevant")
		case s.free:
			vk.R.Class("step=" + s.kind + "/source-rewritten-same-size-mtime(unconstrained)")
			tag = "free"
		case s.executed && s.kind != "noop":
			irrel = true
			tag = "irr"
			vk.R.Class("step=" + s.kind + "/irrelevant")
		case s.executed:
			vk.R.Class("step=noop")
		default:
			vk.R.Class("step=" + s.kind + "/skipped")
		}
		if s.boundary {
			boundary = true
			vk.R.Class("step=rename/across-boundary")
		}
		kb.WriteString(s.kind + ":" + tag + ",")
	}
	nt := rel && irrel && boundary
	vk.R.Case(nt, fmt.Sprint(c.Classes, c.Root, kb.String()))
	vk.R.Add("steps", int64(len(in.steps)))
	if c.Classes {
		vk.R.Class("mod=classes-imported")
	}
	if c.Root {
		vk.R.Class("pkg=module-root")
	}
	if nt {
		vk.R.Sample(kb.String())
	}
}

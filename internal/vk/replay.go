package vk

import (
	"encoding/json"
	"fmt"
	"os"
	"os/exec"
	"path/filepath"
	"runtime/debug"
	"sort"
	"strings"
	"time"
)

type oracleFn func(raw json.RawMessage) (*Verdict, error)

var oracles = map[string]oracleFn{}

// Register makes an oracle replayable by name: replay/regress files carry the oracle name and
// the JSON of the case. It returns a wrapper that converts a panic escaping the oracle into a
// verdict of class "panic" (checks whose property is about panics classify them themselves).
func Register[C any](name string, f func(C) *Verdict) func(C) *Verdict {
	safe := func(c C) (v *Verdict) {
		defer func() {
			if p := recover(); p != nil {
				v = Bad("panic", "%v\n%s", p, trimStack(debug.Stack()))
			}
		}()
		return f(c)
	}
	oracles[name] = func(raw json.RawMessage) (*Verdict, error) {
		var c C
		if err := json.Unmarshal(raw, &c); err != nil {
			return nil, err
		}
		return safe(c), nil
	}
	return safe
}

func trimStack(s []byte) string {
	lines := strings.Split(string(s), "\n")
	if len(lines) > 40 {
		lines = lines[:40]
	}
	return strings.Join(lines, "\n")
}

type replayDoc struct {
	Property string          `json:"property"`
	Oracle   string          `json:"test"`
	Verdict  *Verdict        `json:"verdict,omitempty"`
	Case     json.RawMessage `json:"case"`
	Note     string          `json:"note,omitempty"`
	Isolate  bool            `json:"isolate,omitempty"` // run in a child process (hangs, fatal errors)
}

func loadReplay(path string) (*replayDoc, error) {
	data, err := os.ReadFile(path)
	if err != nil {
		return nil, err
	}
	var d replayDoc
	if err := json.Unmarshal(data, &d); err != nil {
		return nil, fmt.Errorf("%s: %v", path, err)
	}
	return &d, nil
}

func runDoc(d *replayDoc) (*Verdict, error) {
	f, ok := oracles[d.Oracle]
	if !ok {
		var names []string
		for n := range oracles {
			names = append(names, n)
		}
		sort.Strings(names)
		return nil, fmt.Errorf("no oracle %q registered (have %v)", d.Oracle, names)
	}
	return f(d.Case)
}

// replayOne implements `./check CNN --replay <file>`: exit 1 + VIOLATION if it still fails.
func (r *Rec) replayOne(path string) int {
	if os.Getenv("VK_REPLAY_CHILD") != "" {
		// an isolated replay exists to let the process die: with the default 1 GB stack limit an
		// unbounded recursion needs seconds and a gigabyte to get there
		debug.SetMaxStack(128 << 20)
	}
	if !filepath.IsAbs(path) {
		path = filepath.Join(r.Root, path)
	}
	d, err := loadReplay(path)
	if err != nil {
		fmt.Printf("INFRA: %v\n", err)
		return 2
	}
	rel, _ := filepath.Rel(r.Root, path)
	type res struct {
		v   *Verdict
		err error
	}
	ch := make(chan res, 1)
	budget := time.Duration(envInt("VK_REPLAY_TIMEOUT", 200)) * time.Second
	if os.Getenv("VK_REPLAY_ISOLATE") != "" {
		// the case may kill the process (the driver is confirming a crash): run it in a child and
		// turn its death into a verdict with a class that names where it died
		go func() { v, err := isolated(path, int(budget/time.Second)); ch <- res{v, err} }()
	} else {
		go func() { v, err := runDoc(d); ch <- res{v, err} }()
	}
	var v *Verdict
	// the budget is CPU time of this process (a busy machine must not turn a terminating case into a
	// "hang"); a case that sits idle is bounded by wall time: min(10 x budget, budget + 5 min)
	cpu0, wall0 := cpuTime(), time.Now()
	wallMax := min(10*budget, budget+5*time.Minute)
	tick := time.NewTicker(250 * time.Millisecond)
	defer tick.Stop()
	answered := false
	for !answered {
		select {
		case x := <-ch:
			v, err = x.v, x.err
			answered = true
			continue
		case <-tick.C:
		}
		if cpuTime()-cpu0 < budget && time.Since(wall0) < wallMax {
			continue
		}
		break
	}
	if !answered {
		fmt.Printf("VERDICT-JSON {\"class\":\"hang\",\"detail\":\"no answer within %v when run alone\"}\n", budget)
		if f := r.KnownClass("hang"); f != nil {
			fmt.Printf("KNOWN-FINDING: property=%s %s [%s]\n", r.ID, f.What, f.ID)
			return 0
		}
		fmt.Printf("VIOLATION property=%s replay=%s\n", r.ID, rel)
		fmt.Printf("  class=hang detail=no answer within %v when run alone\n", budget)
		return 1
	}
	if err != nil {
		fmt.Printf("INFRA: %v\n", err)
		return 2
	}
	if v == nil {
		fmt.Printf("VERDICT-JSON null\n")
		fmt.Printf("REPLAY property=%s file=%s: property holds on this input\n", r.ID, path)
		return 0
	}
	if js, err := json.Marshal(v); err == nil {
		fmt.Printf("VERDICT-JSON %s\n", js)
	}
	if f := r.KnownClass(v.Class); f != nil {
		fmt.Printf("KNOWN-FINDING: property=%s %s [%s]\n", r.ID, f.What, f.ID)
		fmt.Printf("  class=%s detail=%s\n", v.Class, oneLine(v.Detail, 600))
		return 0
	}
	fmt.Printf("VIOLATION property=%s replay=%s\n", r.ID, rel)
	fmt.Printf("  class=%s detail=%s\n", v.Class, oneLine(v.Detail, 2000))
	return 1
}

// regress runs every committed file of regress/<ID>/ through its oracle (no rapid involved).
//
//   - file fails with a class listed as status "known": one KNOWN-FINDING line (exit stays 0)
//   - file fails otherwise (in particular: the repro of a "fixed" entry): VIOLATION
//   - file passes: silent
func (r *Rec) regress() {
	if r.Shard != 0 {
		return // the shards of a thorough run share one regress tier: shard 0 runs it
	}
	dir := filepath.Join(r.Root, "regress", r.ID)
	ents, err := os.ReadDir(dir)
	if err != nil {
		return
	}
	printed := map[string]bool{}
	n := 0
	for _, e := range ents {
		if e.IsDir() || !strings.HasSuffix(e.Name(), ".json") {
			continue
		}
		path := filepath.Join(dir, e.Name())
		rel, _ := filepath.Rel(r.Root, path)
		d, err := loadReplay(path)
		if err != nil {
			r.Infra("%v", err)
			continue
		}
		var v *Verdict
		if d.Isolate {
			v, err = isolated(path, 120)
		} else {
			v, err = runDoc(d)
		}
		if err != nil {
			r.Infra("%s: %v", rel, err)
			continue
		}
		n++
		if os.Getenv("VK_REGRESS_REPORT") != "" {
			if v == nil {
				fmt.Printf("REGRESS %s ok\n", rel)
			} else {
				fmt.Printf("REGRESS %s %s\n", rel, v.Class)
			}
		}
		if v == nil {
			continue
		}
		if f := r.KnownClass(v.Class); f != nil {
			if !printed[f.ID] {
				printed[f.ID] = true
				fmt.Printf("KNOWN-FINDING: property=%s %s [%s; repro %s]\n", r.ID, f.What, f.ID, rel)
			}
			r.mu.Lock()
			r.knownHits[f.ID]++
			r.mu.Unlock()
			continue
		}
		fmt.Printf("VIOLATION property=%s replay=%s\n", r.ID, rel)
		fmt.Printf("  class=%s detail=%s\n", v.Class, oneLine(v.Detail, 600))
		r.mu.Lock()
		r.violations++
		r.mu.Unlock()
	}
	r.mu.Lock()
	r.extra["regress_files_replayed"] = int64(n)
	r.mu.Unlock()
}

// isolated runs one replay file in a child process of the same test binary and maps the outcome
// to a verdict: VERDICT-JSON line → that verdict; death by fatal error → class "crash";
// watchdog → class "hang".
func isolated(path string, budgetSec int) (*Verdict, error) {
	cmd := exec.Command(os.Args[0], "-test.run", "^$")
	cmd.Env = append(os.Environ(), "VK_REPLAY="+path, fmt.Sprintf("VK_REPLAY_TIMEOUT=%d", budgetSec), "VK_CURRENT=", "VK_REPLAY_ISOLATE=", "VK_REPLAY_CHILD=1")
	out, runErr := cmd.CombinedOutput()
	for _, line := range strings.Split(string(out), "\n") {
		if strings.HasPrefix(line, "VERDICT-JSON ") {
			rest := strings.TrimPrefix(line, "VERDICT-JSON ")
			if rest == "null" {
				return nil, nil
			}
			var v Verdict
			if err := json.Unmarshal([]byte(rest), &v); err != nil {
				return nil, err
			}
			return &v, nil
		}
	}
	if runErr != nil {
		tail := string(out)
		if len(tail) > 1500 {
			tail = tail[:1500]
		}
		cls := "crash"
		if strings.Contains(tail, "stack overflow") || strings.Contains(tail, "goroutine stack exceeds") {
			cls = "stack-overflow"
			if fn := recurringFrame(string(out)); fn != "" {
				cls += "@" + fn // where the unbounded recursion runs
			}
		}
		return Bad(cls, "child process died: %v\n%s", runErr, tail), nil
	}
	return nil, fmt.Errorf("child gave no verdict")
}

// recurringFrame names the function that occurs most often among the first frames of the running
// goroutine in a Go fatal-error dump (the function an unbounded recursion runs in).
func recurringFrame(dump string) string {
	i := strings.Index(dump, "[running]:")
	if i < 0 {
		return ""
	}
	count := map[string]int{}
	best, n := "", 0
	frames := 0
	for _, line := range strings.Split(dump[i:], "\n")[1:] {
		if line == "" {
			break
		}
		if strings.HasPrefix(line, "\t") {
			continue
		}
		if j := strings.LastIndex(line, "("); j > 0 {
			line = line[:j]
		}
		count[line]++
		if count[line] > n {
			best, n = line, count[line]
		}
		if frames++; frames >= 60 {
			break
		}
	}
	if n < 3 {
		return ""
	}
	return best
}

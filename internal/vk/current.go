package vk

import (
	"encoding/binary"
	"encoding/json"
	"fmt"
	"os"
	"runtime/debug"
	"syscall"
	"time"
)

// The "current case" region: a memory-mapped file (path in VK_CURRENT) that always holds the
// replay document of the case being evaluated. If the process dies of something Go cannot
// recover from (stack overflow, runtime fatal error, OOM kill) or the in-process watchdog
// declares a hang, the driver finds the case there and confirms it in a fresh process
// (`--replay`, generous budget) before reporting a violation. Writing is a memcpy: no syscall
// per case.

const currentSize = 4 << 20

var currentMem []byte

func initCurrent() {
	path := os.Getenv("VK_CURRENT")
	if path == "" {
		return
	}
	f, err := os.OpenFile(path, os.O_RDWR|os.O_CREATE|os.O_TRUNC, 0o644)
	if err != nil {
		return
	}
	defer f.Close()
	if err := f.Truncate(currentSize); err != nil {
		return
	}
	mem, err := syscall.Mmap(int(f.Fd()), 0, currentSize, syscall.PROT_READ|syscall.PROT_WRITE, syscall.MAP_SHARED)
	if err == nil {
		currentMem = mem
	}
}

// Current publishes the case about to be evaluated by oracle `name`.
func (r *Rec) Current(name string, c any) {
	if currentMem == nil {
		return
	}
	js, err := json.Marshal(map[string]any{"property": r.ID, "test": name, "case": c})
	if err != nil || len(js)+8 > len(currentMem) {
		binary.LittleEndian.PutUint64(currentMem, 0)
		return
	}
	binary.LittleEndian.PutUint64(currentMem, 0)
	copy(currentMem[8:], js)
	binary.LittleEndian.PutUint64(currentMem, uint64(len(js)))
}

// ClearCurrent marks that no case is in flight.
func (r *Rec) ClearCurrent() {
	if currentMem != nil {
		binary.LittleEndian.PutUint64(currentMem, 0)
	}
}

// Guard evaluates f (the oracle applied to c) with panic recovery and a watchdog. A panic
// becomes a verdict of class "panic" (checks whose property is about panics usually classify
// them more finely themselves). If the watchdog expires the process cannot continue (the
// goroutine is stuck): evidence is written and the process exits with status 3; the driver then
// confirms the hang in a fresh process before calling it a violation.
func (r *Rec) Guard(name string, c any, timeout time.Duration, f func() *Verdict) *Verdict {
	r.Current(name, c)
	done := make(chan *Verdict, 1)
	go func() {
		defer func() {
			if p := recover(); p != nil {
				done <- Bad("panic", "%v\n%s", p, trimStack(debug.Stack()))
			}
		}()
		done <- f()
	}()
	// The watchdog's clock is the CPU time this process has consumed, not the wall clock: a
	// non-terminating computation burns CPU, whereas a machine that is merely busy (many checks
	// at once) stretches wall time without the case making less progress per CPU second. A case
	// that sits idle (a deadlock) is caught by a wall-clock bound: ten times the budget, at most the
	// budget plus five minutes.
	cpu0, wall0 := cpuTime(), time.Now()
	wallMax := min(10*timeout, timeout+5*time.Minute)
	tick := time.NewTicker(250 * time.Millisecond)
	defer tick.Stop()
	for {
		select {
		case v := <-done:
			return v
		case <-tick.C:
		}
		if cpuTime()-cpu0 < timeout && time.Since(wall0) < wallMax {
			continue
		}
		fmt.Printf("HANG-CANDIDATE property=%s oracle=%s (no answer after %v of CPU time / %v of wall time; the driver re-runs the case alone)\n", r.ID, name, cpuTime()-cpu0, time.Since(wall0).Round(time.Second))
		r.mu.Lock()
		r.infra = append(r.infra, "watchdog expired in-process; see HANG-CANDIDATE")
		r.mu.Unlock()
		r.writeEvidence()
		os.Exit(3)
	}
}

// cpuTime is the user+system CPU time consumed by this process so far.
func cpuTime() time.Duration {
	var ru syscall.Rusage
	if err := syscall.Getrusage(syscall.RUSAGE_SELF, &ru); err != nil {
		return 0
	}
	return time.Duration(ru.Utime.Nano() + ru.Stime.Nano())
}

//go:build verif

// C15 — scanning is total and every token is the exact source text.
package c15

import (
	"fmt"
	gotoken "go/token"
	"runtime/debug"
	"testing"
	"unicode/utf8"

	"github.com/goplus/xgo/scanner"
	"github.com/goplus/xgo/token"
	"pgregory.net/rapid"

	"verif/internal/gen/lex"
	"verif/internal/vk"
)

func TestMain(m *testing.M) {
	vk.Main(m, "C15", "exploration",
		"byte strings from (a) hostile mixes of lexemes, raw bytes, BOM/NUL/invalid UTF-8, (b) XGo/Go lexeme soup with drawn separators, (c) token-level mutants of repository source files, (d) every repository source file verbatim; both comment modes. Oracle is a validity predicate written against the source bytes only. Non-trivial = at least 5 tokens and at least one multi-byte literal or comment; distinct = hash of (mode, bytes)")
}

type Case struct {
	Src      vk.Bytes `json:"src"`
	Comments bool     `json:"comments"`
}

// matchCR matches lit against src starting at off, allowing carriage returns of the source to be
// absent from lit (the scanner strips them from raw strings and comments). Returns end offset.
func matchCR(lit string, src []byte, off int) (int, bool) {
	j := off
	for i := 0; i < len(lit); i++ {
		for j < len(src) && src[j] != lit[i] && src[j] == '\r' {
			j++
		}
		if j >= len(src) || src[j] != lit[i] {
			return j, false
		}
		j++
	}
	return j, true
}

type stats struct {
	toks     int
	multi    bool
	hasError bool
}

func scanAll(c Case) (v *vk.Verdict, st stats) {
	defer func() {
		if p := recover(); p != nil {
			v = vk.Bad("panic", "scanner panicked: %v\n%s", p, debug.Stack())
		}
	}()
	src := []byte(c.Src)
	fset := gotoken.NewFileSet()
	f := fset.AddFile("x.xgo", -1, len(src))
	var s scanner.Scanner
	mode := scanner.Mode(0)
	if c.Comments {
		mode = scanner.ScanComments
	}
	s.Init(f, src, func(gotoken.Position, string) { st.hasError = true }, mode)
	limit := 2*len(src) + 4
	prevEnd := 0
	prevOff := -1
	prevInserted := false
	isWS := func(b byte) bool { return b == ' ' || b == '\t' || b == '\n' || b == '\r' }
	gapOK := func(from, to int) *vk.Verdict {
		if !c.Comments {
			return nil
		}
		for k := from; k < to && k < len(src); k++ {
			if isWS(src[k]) {
				continue
			}
			if k == 0 && len(src) >= 3 && src[0] == 0xEF && src[1] == 0xBB && src[2] == 0xBF {
				k += 2
				continue
			}
			return vk.Bad("uncovered-byte", "byte %q at offset %d belongs to no token (gap %d..%d)", src[k], k, from, to)
		}
		return nil
	}
	for n := 0; ; n++ {
		if n > limit {
			return vk.Bad("no-eof", "no EOF after %d Scan calls on %d bytes", n, len(src)), st
		}
		pos, tok, lit := s.Scan()
		if !pos.IsValid() {
			return vk.Bad("invalid-pos", "token %v has invalid pos", tok), st
		}
		off := f.Offset(pos)
		if off < 0 || off > len(src) {
			return vk.Bad("offset-range", "token %v %q at offset %d outside [0,%d]", tok, lit, off, len(src)), st
		}
		if tok == token.EOF {
			if off != len(src) {
				return vk.Bad("eof-offset", "EOF at offset %d, len %d", off, len(src)), st
			}
			if v := gapOK(prevEnd, len(src)); v != nil {
				return v, st
			}
			// scanning past EOF stays at EOF
			if _, t2, _ := s.Scan(); t2 != token.EOF {
				return vk.Bad("eof-not-sticky", "Scan after EOF returned %v", t2), st
			}
			return nil, st
		}
		st.toks++
		if off < prevOff || (off == prevOff && !prevInserted) {
			return vk.Bad("offset-order", "token %v %q at offset %d after a token at offset %d", tok, lit, off, prevOff), st
		}
		if off < prevEnd {
			return vk.Bad("overlap", "token %v %q at offset %d overlaps previous token ending at %d", tok, lit, off, prevEnd), st
		}
		if v := gapOK(prevEnd, off); v != nil {
			return v, st
		}
		end := off
		inserted := false
		switch {
		case tok == token.SEMICOLON:
			if lit == "\n" {
				inserted = true
				if off < len(src) && src[off] != '\n' && src[off] != '/' && src[off] != '#' {
					return vk.Bad("auto-semi-place", "automatic semicolon at offset %d which holds %q", off, src[off]), st
				}
				if off < len(src) && src[off] == '\n' {
					end = off + 1
				}
			} else {
				if lit != ";" || off >= len(src) || src[off] != ';' {
					return vk.Bad("semi-text", "SEMICOLON lit %q at offset %d", lit, off), st
				}
				end = off + 1
			}
		case tok == token.ILLEGAL:
			_, w := utf8.DecodeRune(src[off:])
			if w == 0 {
				return vk.Bad("illegal-at-end", "ILLEGAL token at offset %d = len", off), st
			}
			end = off + w
		case tok == token.CSTRING || tok == token.PYSTRING:
			pre := 1
			if tok == token.PYSTRING {
				pre = 2
			}
			e, ok := matchCR(lit, src, off+pre)
			if !ok || off+pre > len(src) {
				return vk.Bad("text-mismatch", "%v literal %q is not the source text at offset %d (%q)", tok, lit, off, clip(src, off)), st
			}
			if p := string(src[off : off+pre]); p != "c" && p != "C" && p != "py" {
				return vk.Bad("text-mismatch", "%v at offset %d has prefix %q", tok, off, p), st
			}
			end = e
			st.multi = true
		case tok.IsLiteral() || tok == token.COMMENT || tok.IsKeyword() || tok == token.UNIT:
			if lit == "" {
				return vk.Bad("empty-literal", "token %v at offset %d has an empty literal", tok, off), st
			}
			e, ok := matchCR(lit, src, off)
			if tok != token.COMMENT && tok != token.STRING {
				ok = ok && e == off+len(lit) // only raw strings and comments may lose CRs
			}
			if !ok {
				return vk.Bad("text-mismatch", "%v literal %q is not the source text at offset %d (%q)", tok, lit, off, clip(src, off)), st
			}
			end = e
			if tok == token.COMMENT || (len(lit) > 1 && tok != token.IDENT && !tok.IsKeyword()) {
				st.multi = true
			}
		case tok.IsOperator():
			sp := tok.String()
			if off+len(sp) > len(src) || string(src[off:off+len(sp)]) != sp {
				return vk.Bad("text-mismatch", "operator %v is not the source text at offset %d (%q)", tok, off, clip(src, off)), st
			}
			end = off + len(sp)
		default:
			return vk.Bad("unknown-token", "token %d %q at offset %d is of no known class", int(tok), lit, off), st
		}
		if end > len(src) {
			return vk.Bad("offset-range", "token %v %q ends at %d > len %d", tok, lit, end, len(src)), st
		}
		if !inserted && end == off {
			return vk.Bad("empty-token", "token %v at %d is empty", tok, off), st
		}
		prevOff, prevEnd, prevInserted = off, end, inserted
	}
}

func clip(src []byte, off int) string {
	e := off + 24
	if e > len(src) {
		e = len(src)
	}
	if off > len(src) {
		return ""
	}
	return string(src[off:e])
}

var oracle = vk.Register("scan", func(c Case) *vk.Verdict {
	v, _ := scanAll(c)
	return v
})

func run(t interface {
	Fatalf(string, ...any)
	Helper()
}, name string, c Case, class string) {
	v, st := scanAll(c)
	vk.R.Case(st.toks >= 5 && st.multi, fmt.Sprintf("%v|%s", c.Comments, c.Src))
	vk.R.Class(class)
	if st.hasError {
		vk.R.Class("scanner-reported-error")
	}
	if st.toks >= 5 && st.multi {
		vk.R.Sample(string(c.Src))
	}
	vk.R.Check(t, name, c, v)
}

func TestHostile(t *testing.T) {
	g := lex.Hostile()
	vk.R.Rapid(t, 1, 150000, 1500000, func(t *rapid.T) {
		c := Case{Src: vk.Bytes(g.Draw(t, "src")), Comments: rapid.Bool().Draw(t, "comments")}
		run(t, "scan", c, "src=hostile")
	})
}

func TestSoup(t *testing.T) {
	g := lex.Soup(lex.XGoLexeme(), 0, 30)
	vk.R.Rapid(t, 2, 150000, 1500000, func(t *rapid.T) {
		c := Case{Src: vk.Bytes(g.Draw(t, "src")), Comments: rapid.Bool().Draw(t, "comments")}
		run(t, "scan", c, "src=soup")
	})
}

func TestCorpusMutants(t *testing.T) {
	g := lex.CorpusMutant()
	vk.R.Rapid(t, 3, 40000, 400000, func(t *rapid.T) {
		c := Case{Src: vk.Bytes(g.Draw(t, "src")), Comments: rapid.Bool().Draw(t, "comments")}
		run(t, "scan", c, "src=corpus-mutant")
	})
}

func TestCorpusVerbatim(t *testing.T) {
	if vk.R.Shard != 0 {
		return
	}
	for _, f := range lex.Corpus() {
		for _, cm := range []bool{false, true} {
			run(t, "scan", Case{Src: vk.Bytes(f.Src), Comments: cm}, "src=corpus")
		}
	}
}

// Package lex holds the lexeme-level generators: Go lexemes, XGo lexemes, token soup, hostile
// byte strings, the repository corpus and token-level mutators. All randomness is drawn
// through rapid.
package lex

import (
	"os"
	"path/filepath"
	"sort"
	"strings"
	"sync"

	"pgregory.net/rapid"
)

// ---- alphabets ----------------------------------------------------------------------------

var GoKeywords = []string{"break", "case", "chan", "const", "continue", "default", "defer", "else",
	"fallthrough", "for", "func", "go", "goto", "if", "import", "interface", "map", "package", "range",
	"return", "select", "struct", "switch", "type", "var"}

var GoOperators = []string{"+", "-", "*", "/", "%", "&", "|", "^", "<<", ">>", "&^", "+=", "-=", "*=", "/=",
	"%=", "&=", "|=", "^=", "<<=", ">>=", "&^=", "&&", "||", "<-", "++", "--", "==", "<", ">", "=", "!",
	"!=", "<=", ">=", ":=", "...", "(", "[", "{", ",", ".", ")", "]", "}", ";", ":", "~"}

// XGoOnlyOperators are spellings XGo scans differently from Go.
var XGoOnlyOperators = []string{"=>", "->", "<>", "?", "$", "#"}

var identPool = []string{"a", "b", "x", "y", "i", "n", "foo", "bar", "T", "X1", "_", "_x", "main", "fmt", "println",
	"echo", "c", "C", "py", "tpl", "json", "len", "int", "string", "err", "nil", "true", "π", "日本", "aé", "r", "e3",
	"x_1", "Ünï", "if1", "forx", "gofunc", "ms", "h", "d", "s"}

// Ident generates identifiers (ASCII, Unicode letters, keyword-like prefixes).
func Ident() *rapid.Generator[string] {
	return rapid.OneOf(
		rapid.SampledFrom(identPool),
		rapid.StringMatching(`[a-zA-Z_][a-zA-Z0-9_]{0,6}`),
		rapid.StringMatching(`[a-zA-Z_αβγδλπЖ世界éü][a-zA-Z0-9_αβπ世é]{0,5}`),
	)
}

var intPool = []string{"0", "1", "7", "42", "007", "08", "09", "0x1F", "0X_ff", "0b101", "0B1_0", "0o17", "0O7", "1_000",
	"1__0", "0_", "_1", "0x", "0b", "0o", "0b12", "0o8", "0xg", "123456789012345678901234567890", "0_7", "1_", "0x_"}
var floatPool = []string{"1.5", ".5", "1.", "1e3", "1E+3", "1e-3", "1.5e10", "0x1p-2", "0x1.8p1", "0X1P+2", "0x.8p0",
	"1e", "1e+", "0x1p", "0x1.8", "1_0.2_5", "1._5", "1e_3", "0x1.p1", "01.5", "08.5", "00e1", "1.e2", "0.0", "1p3", "0b1.0", "0b1e1", "0o7.0"}
var imagPool = []string{"1i", "0i", "1.5i", "1e3i", "0x1p2i", "0b1i", "0o7i", "08i", "1_0i", ".5i", "0123i"}
var charPool = []string{`'a'`, `'\n'`, `'\''`, `'\\'`, `'\x41'`, `'é'`, `'\U0001F600'`, `'\101'`, `'é'`, `'世'`,
	`''`, `'ab'`, `'\q'`, `'\x4'`, `'\u12'`, `'\400'`, `'\"'`, `'\xZZ'`, `'\U00110000'`, `'\ud800'`, `'a`, `'`, `'\'`, "'\n'", `'\0'`, `'\08'`}
var stringPool = []string{`""`, `"a"`, `"hello world"`, `"a\nb"`, `"\""`, `"\\"`, `"\x41é"`, `"é世"`, `"\101"`,
	`"\q"`, `"\x4"`, `"a`, `"`, `"\`, "\"a\nb\"", `"\'"`, `"//not"`, `"/*not*/"`, `"a\tb"`, `"\U0001F600"`, `"\400"`, `"%d"`}
var rawPool = []string{"``", "`a`", "`a\nb`", "`a\r\nb`", "`\\n`", "`\"`", "`a", "`", "`a\rb`", "`//x`", "`é`"}
var commentPool = []string{"//", "// c", "//c\n", "/**/", "/* c */", "/* a\nb */", "/*", "/* a", "/*/", "/* * */", "//line f.go:10", "//line :3\n",
	"/*line f.go:10:2*/", "// é世", "/* \r\n */", "// x\r\n", "//\r", "/* a\r */", "//go:build x\n", "// /* \n", "/* // */"}

// XGo-specific literal spellings.
var xgoLitPool = []string{"1r", "1.5r", "3_0r", "0x1r", "1m", "2.5s", "3ms", "4us", "5ns", "7h", "8d", "1e3r", "1ix", "10y", "1w", "0.5µs", "1rx",
	`c"abc"`, `C"x"`, `py"abc"`, `c"`, `py"`, `c"a\n"`, "tpl`a = b`", "json`{}`", "x`", "`a`b", "${x}", "$x", "$$", "$", `"${x}"`, `"a$$b"`, `"$x"`, `"${"`, `"${a+b}c"`, `"$"`,
	"# c", "#c\n", "#!sh\n", "#"}

var wsPool = []string{" ", " ", " ", "\t", "\n", "\n", "\r\n", "  ", "\n\n", " \n", "\r", "\f", "\v"}

var hostilePool = []string{"\x00", "\xef\xbb\xbf", "\xff", "\x80", "\xc0\xaf", "\xed\xa0\x80", "\\", "�", " ", " ", "@", "`", "\"", "'", "\x7f", "\x1b",
	strings.Repeat("a", 300), strings.Repeat("(", 40), strings.Repeat("[", 40), strings.Repeat("{", 40), strings.Repeat("-", 9), strings.Repeat("*", 7), "\xfe\xff", "\xf4\x90\x80\x80",
	// carriage returns in the places where the scanners treat them specially
	"\r", "\r\n", "*\r/", "/*\r*/", "/**\r\r/", "/*\r/", "`\r`", "//\r", "#\r", "\"\r\"", "*\r"}

// structural fragments that bias soup toward parser-interesting shapes
var xgoFragPool = []string{"for x <- y", "for i, v <- a", "[x for x <- a]", "{k: v for k, v <- m}", "x => x+1", "(a, b) => {", "=> {", "f!", "g()?", "h()?:0",
	"a <- 1", "echo x, y", "println \"a\"", "[1, 2; 3, 4]", "[a...]", "1:10:2", ":n", "a:b", "x.y.z", "func(", "func f(a int) (r int) {", "var (", "type T struct {",
	"interface {", "map[string]int{", "[]int{1, 2}", "switch x := y.(type) {", "case 1, 2:", "default:", "select {", "go f()", "defer g()", "return", "if a := b; a {",
	"} else if x {", "} else {", "import \"fmt\"", "package main", "const (", "iota", "chan<- int", "<-chan T", "*p", "&T{}", "x.(T)", "a[i:j:k]", "f(a...)", "L:", "goto L",
	"break L", "fallthrough", "func (p *T) M()", "func f = (", "func (T).m = (", "a.b = (c, d)", "var x T = {", "if x := f()!; x", "for range 3 {", "for i <- :10 if i%2 == 0 {",
	"${name}", "$name", "a ?: b", "x!.y", "`a`", "tpl`x = INT`", "type A = B", "type T[K any] struct", "[N]int", "...int", "struct{ a, b int `tag` }", "-> x", "a <> b", "a -> b", "1r", "2.5kg"}

// GoLexeme generates one Go lexeme (valid or near-valid) together with nothing else.
func GoLexeme() *rapid.Generator[string] {
	return rapid.OneOf(
		Ident(), Ident(),
		rapid.SampledFrom(GoKeywords),
		rapid.SampledFrom(GoOperators), rapid.SampledFrom(GoOperators),
		rapid.SampledFrom(intPool), rapid.SampledFrom(floatPool), rapid.SampledFrom(imagPool),
		Number(),
		rapid.SampledFrom(charPool), rapid.SampledFrom(stringPool), rapid.SampledFrom(rawPool),
		Quoted(),
		rapid.SampledFrom(commentPool),
	)
}

// Number generates a numeric spelling over a small alphabet (valid and invalid).
func Number() *rapid.Generator[string] {
	return rapid.Custom(func(t *rapid.T) string {
		first := rapid.SampledFrom([]string{"0", "1", "9", ".", "0x", "0b", "0o", "0X", "07", "08"}).Draw(t, "first")
		rest := rapid.StringMatching(`[0-9a-fA-F_\.xXpPeE+\-i]{0,6}`).Draw(t, "rest")
		s := first + rest
		if s == "." {
			s = ".5"
		}
		return s
	})
}

// Quoted generates a quoted rune or string literal body over an escape-heavy alphabet.
func Quoted() *rapid.Generator[string] {
	return rapid.Custom(func(t *rapid.T) string {
		q := rapid.SampledFrom([]string{`"`, `'`}).Draw(t, "q")
		body := rapid.StringMatching(`([a-z0-9 ]|\\[abfnrtv\\'"xuU0-7]|\\x[0-9a-f]{0,2}|\\u[0-9a-f]{0,4}|\\[0-7]{1,3}|é|世){0,4}`).Draw(t, "body")
		closed := rapid.IntRange(0, 9).Draw(t, "closed") > 0
		if closed {
			return q + body + q
		}
		return q + body
	})
}

// Bracketed generates an operand followed by a bracket group whose items are separated by runs
// of one separator (`a[1:2:3:4]`, `f(x,,y)`, `{k: v: w}`, `[a; b; c]`, `x[i...]`), possibly nested
// and possibly closed by the wrong bracket: delimiter runs of every length are a classic source of
// off-by-one slips in hand-written parsers.
func Bracketed() *rapid.Generator[string] {
	item := rapid.SampledFrom([]string{"a", "1", "x.y", "i+1", "", "f()", "-2", "\"s\"", "[]int", "b[0]", "*p", "k: v", "x => x", "1:2"})
	return rapid.Custom(func(t *rapid.T) string {
		var gen func(depth int) string
		gen = func(depth int) string {
			head := rapid.SampledFrom([]string{"a", "f", "x.y", "m", "", "[]int", "T", "g()", "s[1]", "echo "}).Draw(t, "head")
			br := rapid.SampledFrom([][2]string{{"[", "]"}, {"(", ")"}, {"{", "}"}, {"[", "]"}}).Draw(t, "br")
			sep := rapid.SampledFrom([]string{":", ":", ",", ";", "...", ", ", " : ", "<-", "=>"}).Draw(t, "sep")
			n := rapid.IntRange(0, 6).Draw(t, "nitems")
			var b strings.Builder
			b.WriteString(head + br[0])
			for i := 0; i < n; i++ {
				if i > 0 {
					b.WriteString(sep)
				}
				if depth < 2 && rapid.IntRange(0, 5).Draw(t, "nest") == 0 {
					b.WriteString(gen(depth + 1))
				} else {
					b.WriteString(item.Draw(t, "item"))
				}
			}
			switch rapid.IntRange(0, 9).Draw(t, "close") {
			case 0:
				b.WriteString(")")
			case 1: // unclosed
			default:
				b.WriteString(br[1])
			}
			return b.String()
		}
		return gen(0)
	})
}

// XGoLexeme generates Go and XGo lexemes.
func XGoLexeme() *rapid.Generator[string] {
	return rapid.OneOf(
		GoLexeme(), GoLexeme(), GoLexeme(), Bracketed(),
		rapid.SampledFrom(XGoOnlyOperators),
		rapid.SampledFrom(xgoLitPool),
		rapid.SampledFrom(xgoFragPool),
	)
}

// Sep generates a separator between lexemes ("" included so that lexemes may touch).
func Sep() *rapid.Generator[string] {
	return rapid.OneOf(rapid.Just(""), rapid.SampledFrom(wsPool), rapid.SampledFrom(wsPool))
}

// Soup joins n lexemes from g with drawn separators.
func Soup(g *rapid.Generator[string], min, max int) *rapid.Generator[string] {
	return rapid.Custom(func(t *rapid.T) string {
		n := rapid.IntRange(min, max).Draw(t, "n")
		var b strings.Builder
		for i := 0; i < n; i++ {
			b.WriteString(g.Draw(t, "lx"))
			b.WriteString(Sep().Draw(t, "sep"))
		}
		return b.String()
	})
}

// Hostile generates byte strings mixing lexemes with hostile constants and raw bytes.
func Hostile() *rapid.Generator[string] {
	piece := rapid.OneOf(
		XGoLexeme(),
		rapid.SampledFrom(hostilePool),
		rapid.SampledFrom(wsPool),
		rapid.Map(rapid.SliceOfN(rapid.Byte(), 1, 6), func(b []byte) string { return string(b) }),
	)
	return rapid.Custom(func(t *rapid.T) string {
		n := rapid.IntRange(0, 24).Draw(t, "n")
		var b strings.Builder
		for i := 0; i < n; i++ {
			b.WriteString(piece.Draw(t, "p"))
		}
		return b.String()
	})
}

// ---- corpus --------------------------------------------------------------------------------

// File is one corpus file.
type File struct {
	Path string // absolute
	Rel  string // relative to the repository root
	Src  []byte
}

var (
	corpusOnce sync.Once
	corpus     []File
)

// RepoDir is the repository under test.
func RepoDir() string {
	if d := os.Getenv("VK_REPO"); d != "" {
		return d
	}
	return "/repo"
}

// Corpus returns all files of the repository with one of the given extensions (read in place,
// sorted by path so that index-based draws are deterministic).
func Corpus(exts ...string) []File {
	corpusOnce.Do(func() {
		root := RepoDir()
		filepath.Walk(root, func(p string, info os.FileInfo, err error) error {
			if err != nil {
				return nil
			}
			if info.IsDir() {
				if info.Name() == ".git" {
					return filepath.SkipDir
				}
				return nil
			}
			switch filepath.Ext(p) {
			case ".xgo", ".gop", ".gox", ".spx", ".gmx", ".gsh", ".go", ".yap", ".gsh_", ".tpl":
				if info.Size() > 1<<20 {
					return nil
				}
				b, err := os.ReadFile(p)
				if err == nil {
					rel, _ := filepath.Rel(root, p)
					corpus = append(corpus, File{Path: p, Rel: rel, Src: b})
				}
			}
			return nil
		})
		sort.Slice(corpus, func(i, j int) bool { return corpus[i].Rel < corpus[j].Rel })
	})
	if len(exts) == 0 {
		return corpus
	}
	var out []File
	for _, f := range corpus {
		e := filepath.Ext(f.Path)
		for _, x := range exts {
			if e == x {
				out = append(out, f)
				break
			}
		}
	}
	return out
}

// XGoExts are the extensions of XGo (non-Go) sources in the corpus.
var XGoExts = []string{".xgo", ".gop", ".gox", ".spx", ".gmx", ".gsh", ".yap"}

// ---- mutators ------------------------------------------------------------------------------

// Span is a half-open byte range.
type Span struct{ Off, End int }

// Mutate applies 1..k token-level mutations to src. spans are the token spans of src (from any
// tokenizer; the mutators only use them as cut points).
func Mutate(t *rapid.T, src []byte, spans []Span, donor *rapid.Generator[string]) []byte {
	if len(spans) == 0 {
		return append([]byte(nil), src...)
	}
	k := rapid.IntRange(1, 3).Draw(t, "nmut")
	out := append([]byte(nil), src...)
	for m := 0; m < k; m++ {
		op := rapid.IntRange(0, 7).Draw(t, "op")
		i := rapid.IntRange(0, len(spans)-1).Draw(t, "i")
		s := spans[i]
		if s.End > len(out) || s.Off > s.End { // spans refer to the original; after a length-changing
			break // mutation we stop (keeps things simple and deterministic)
		}
		switch op {
		case 0: // delete token
			out = append(out[:s.Off:s.Off], out[s.End:]...)
			return out
		case 1: // duplicate token
			tok := append([]byte(nil), out[s.Off:s.End]...)
			out = append(out[:s.End:s.End], append(append([]byte(" "), tok...), out[s.End:]...)...)
			return out
		case 2: // replace token by a drawn lexeme
			lx := donor.Draw(t, "lx")
			out = append(out[:s.Off:s.Off], append([]byte(lx), out[s.End:]...)...)
			return out
		case 3: // insert lexeme before token
			lx := donor.Draw(t, "lx")
			out = append(out[:s.Off:s.Off], append([]byte(lx+" "), out[s.Off:]...)...)
			return out
		case 4: // swap with another token of equal length region (simple: swap two tokens)
			j := rapid.IntRange(0, len(spans)-1).Draw(t, "j")
			a, b := spans[i], spans[j]
			if a.Off > b.Off {
				a, b = b, a
			}
			if a.End <= b.Off && b.End <= len(out) {
				var nb []byte
				nb = append(nb, out[:a.Off]...)
				nb = append(nb, out[b.Off:b.End]...)
				nb = append(nb, out[a.End:b.Off]...)
				nb = append(nb, out[a.Off:a.End]...)
				nb = append(nb, out[b.End:]...)
				return nb
			}
		case 5: // truncate at token boundary
			cut := s.Off
			if rapid.Bool().Draw(t, "after") {
				cut = s.End
			}
			return out[:cut:cut]
		case 6: // delete a run of tokens
			j := i + rapid.IntRange(1, 6).Draw(t, "run")
			if j >= len(spans) {
				j = len(spans) - 1
			}
			if spans[j].End <= len(out) && spans[j].End >= s.Off {
				out = append(out[:s.Off:s.Off], out[spans[j].End:]...)
			}
			return out
		case 7: // flip a bracket / insert hostile constant
			h := rapid.SampledFrom(append([]string{"(", ")", "[", "]", "{", "}", ",", ";", "\n"}, hostilePool[:12]...)).Draw(t, "h")
			out = append(out[:s.Off:s.Off], append([]byte(h), out[s.Off:]...)...)
			return out
		}
	}
	return out
}

#!/usr/bin/env python3
"""usage: tools/flip_fixed.py CNN <commit> [<commit-for-id-substring>=<commit> ...]
Runs the regress tier of CNN with a per-file report and marks every "known" entry of
known_findings.d/CNN.json whose repro now passes as "fixed" (with the commit); then merges the
file into known_findings.json."""
import json,os,subprocess,sys
cid=sys.argv[1]; commit=sys.argv[2]
env=dict(os.environ, VK_REGRESS_REPORT="1", VK_SCALE="0.001")
out=subprocess.run(["./check",cid,"quick"],cwd="/verif",env=env,capture_output=True,text=True).stdout
# the driver filters output; read the raw report through a direct run instead
status={}
import re
raw=subprocess.run("cd /verif && export GOFLAGS=-mod=mod GOPROXY=off GOSUMDB=off GOTOOLCHAIN=local; go test -tags verif -c -o /tmp/flip.test ./checks/%s && cd checks/%s && VK_ROOT=/verif VK_REGRESS_REPORT=1 VK_EVIDENCE_OUT=/tmp/flip.ev.json /tmp/flip.test -test.run '^$'"%(cid.lower(),cid.lower()),shell=True,capture_output=True,text=True).stdout
for m in re.finditer(r'^REGRESS (\S+) (.*)$',raw,re.M): status[m.group(1)]=m.group(2)
d=json.load(open(f'/verif/known_findings.d/{cid}.json'))
k=json.load(open('/verif/known_findings.json'))
nf=0
for e in d:
    st=status.get(e.get('repro',''))
    if st=='ok' and e['status']=='known':
        e['status']='fixed'; e['commit']=commit; e['what']='fixed: property=%s %s %s'%(cid,commit,e['what']); nf+=1
    k.append(e)
json.dump(k,open('/verif/known_findings.json','w'),indent=1)
os.remove(f'/verif/known_findings.d/{cid}.json')
print(cid,"entries",len(d),"flipped to fixed",nf,"still known",sum(1 for e in d if e['status']=='known'))

package xsugar

import (
	"fmt"
	"strings"
)

var ovTypes = []struct{ name, goType, varName, init string }{
	{"int", "int", "vi", "3"},
	{"string", "string", "vs", `"s"`},
	{"bool", "bool", "vb", "true"},
	{"float64", "float64", "vf", "2.5"},
	{"[]int", "[]int", "vl", "[]int{1, 2}"},
	{"*rec", "*rec", "vp", `&rec{"p", 1}`},
	{"rec", "rec", "vr", `rec{"r", 2}`},
	{"func(int) int", "func(int) int", "vfn", "func(x int) int { return x + 1 }"},
	{"size2", "size2", "vq", "size2{3, 4}"},
}

const ovVars = `var vi int = 3
var vs string = "s"
var vb bool = true
var vf float64 = 2.5
var vl []int = []int{1, 2}
var vp *rec = &rec{"p", 1}
var vr rec = rec{"r", 2}
var vfn func(int) int = func(x int) int { return x + 1 }
var vq size2 = size2{3, 4}
_, _, _, _, _, _, _, _, _ = vi, vs, vb, vf, vl, vp, vr, vfn, vq
`

// OverloadItem draws one overload set (2..4 candidates with pairwise different parameter type
// tuples), declares it in a drawn style and candidate order, and calls every candidate.
func (g *G) OverloadItem() Item {
	id := g.Var("ov")
	style := []string{"inline", "ident", "method", "mixed", "operator"}[g.Intn(5, "style")]
	if style == "operator" {
		return g.operatorItem(id)
	}
	k := 2 + g.Intn(3, "ncand")
	arity := 1 + g.Intn(2, "arity")
	// distinct tuples
	seen := map[string]bool{}
	var tuples [][]int
	for len(tuples) < k {
		var tup []int
		key := ""
		a := arity
		if g.Chance(25, "otherarity") {
			a = 3 - arity
		}
		for j := 0; j < a; j++ {
			ti := g.Intn(len(ovTypes), "ty")
			tup = append(tup, ti)
			key += fmt.Sprint(ti) + ","
		}
		if !seen[key] {
			seen[key] = true
			tuples = append(tuples, tup)
		}
	}
	// drawn declaration order
	order := make([]int, k)
	for i := range order {
		order[i] = i
	}
	for i := k - 1; i > 0; i-- {
		j := g.Intn(i+1, "perm")
		order[i], order[j] = order[j], order[i]
	}
	tag := func(t []int) string {
		var n []string
		for _, ti := range t {
			n = append(n, ovTypes[ti].name)
		}
		return strings.Join(n, ",")
	}
	params := func(t []int) string {
		var n []string
		for j, ti := range t {
			n = append(n, fmt.Sprintf("p%d %s", j, ovTypes[ti].goType))
		}
		return strings.Join(n, ", ")
	}
	// self call: the body of candidate 0 calls the overloaded name with the argument types of
	// candidate 1 (generated only when the flag is set: it is a listed finding of C10 otherwise)
	selfCall := g.Flags["overload-self-call"] && k >= 2 && style != "method" && g.Chance(25, "selfcall")
	litOf := func(t []int) string {
		var n []string
		for _, ti := range t {
			n = append(n, ovTypes[ti].init)
		}
		return strings.Join(n, ", ")
	}
	bodyOf := func(i int, xgo bool) string {
		if selfCall && i == 0 {
			callee := id
			if !xgo {
				callee = fmt.Sprintf("%s_c1", id)
			}
			return fmt.Sprintf("{\n\tfmt.Println(\"  cand\", %q)\n\treturn 100 + %s(%s)\n}", tag(tuples[i]), callee, litOf(tuples[1]))
		}
		return fmt.Sprintf("{\n\tfmt.Println(\"  cand\", %q)\n\treturn %d\n}", tag(tuples[i]), i)
	}
	body := func(i int) string { return bodyOf(i, true) }
	// argument spellings per type: the typed variable, typed expressions, and literals where only
	// parameters of that type accept them (an int literal would also be accepted by float64, so
	// it is used only when no candidate of the same arity has float64 at that position). Each
	// form is an (XGo, Go) pair.
	argForms := [][][2]string{
		{{"vi", "vi"}, {"vi + 1", "vi + 1"}, {"len(vl)", "len(vl)"}, {"int(vf)", "int(vf)"}},
		{{"vs", "vs"}, {`"lit"`, `"lit"`}, {`vs + "!"`, `vs + "!"`}, {`"${vi}"`, `strconv.Itoa(vi)`}},
		{{"vb", "vb"}, {"true", "true"}, {"vi > 2", "vi > 2"}, {"!vb", "!vb"}},
		{{"vf", "vf"}, {"2.5", "2.5"}, {"vf * 2", "vf * 2"}, {"float64(vi)", "float64(vi)"}},
		{{"vl", "vl"}, {"[]int{9}", "[]int{9}"}, {"vl[:1]", "vl[:1]"}, {"[7, 8]", "[]int{7, 8}"}},
		{{"vp", "vp"}, {"&vr", "&vr"}, {`&rec{"q", 2}`, `&rec{"q", 2}`}},
		{{"vr", "vr"}, {`rec{"q", 2}`, `rec{"q", 2}`}, {"*vp", "*vp"}},
		{{"vfn", "vfn"}, {"func(x int) int { return x }", "func(x int) int { return x }"}, {"x => x * 2", "func(x int) int { return x * 2 }"}},
		{{"vq", "vq"}, {"size2{W: 5, H: 6}", "size2{W: 5, H: 6}"}, {"{W: 5, H: 6}", "size2{W: 5, H: 6}"}, {"{W: vi}", "size2{W: vi}"}},
	}
	// an untyped {field: value} literal is accepted by the struct type that has those fields (here
	// also by a pointer to it, so it is not used for rec when a candidate has *rec at that position)
	ptrRecAt := func(pos, arity int) bool {
		for _, t := range tuples {
			if len(t) == arity && pos < len(t) && ovTypes[t[pos]].name == "*rec" {
				return true
			}
		}
		return false
	}
	floatAt := func(pos, arity int) bool {
		for _, t := range tuples {
			if len(t) == arity && pos < len(t) && ovTypes[t[pos]].name == "float64" {
				return true
			}
		}
		return false
	}
	argsXG := func(t []int) (string, string) {
		var xs, gs []string
		for pos, ti := range t {
			forms := argForms[ti]
			k := 0
			if g.Chance(45, "argform") {
				k = g.Intn(len(forms), "form")
			}
			f := forms[k]
			if ovTypes[ti].name == "int" && g.Chance(20, "intlit") && !floatAt(pos, len(t)) {
				f = [2]string{"7", "7"}
			}
			if ovTypes[ti].name == "rec" && g.Chance(25, "untyped-struct-lit") && !ptrRecAt(pos, len(t)) {
				f = [2]string{`{nm: "u", sc: 9}`, `rec{nm: "u", sc: 9}`}
			}
			xs, gs = append(xs, f[0]), append(gs, f[1])
		}
		return strings.Join(xs, ", "), strings.Join(gs, ", ")
	}
	args := func(t []int) string {
		var n []string
		for _, ti := range t {
			n = append(n, ovTypes[ti].varName)
		}
		return strings.Join(n, ", ")
	}
	var declX, declG strings.Builder
	// identifier shapes: underscores in the receiver type name and in the overloaded name take part in
	// the name of the generated overload variable (Gopo_T_m vs Gopo__T__m)
	recvT := []string{id + "T", id + "_T", "t_" + id + "_x"}[g.Intn(3, "recvname")]
	if g.Chance(30, "ovname_") {
		id = id + "_f"
	}
	isMethod := style == "method"
	if isMethod {
		fmt.Fprintf(&declX, "type %s struct {\n\tn int\n}\n\n", recvT)
		fmt.Fprintf(&declG, "type %s struct {\n\tn int\n}\n\n", recvT)
	}
	// named candidates (Go side always; XGo side for ident/method/mixed styles)
	// mixed style: a drawn subset of the candidates is named, at least one named and one literal
	mixMask := 1 + g.Intn((1<<uint(k))-2, "mixmask")
	named := func(i int) bool {
		switch style {
		case "inline":
			return false
		case "mixed":
			return mixMask>>uint(i)&1 == 1
		}
		return true
	}
	for i := 0; i < k; i++ {
		fn := fmt.Sprintf("%s_c%d", id, i)
		if isMethod {
			m := fmt.Sprintf("func (r *%s) %s(%s) int %s\n\n", recvT, fn, params(tuples[i]), body(i))
			declX.WriteString(m)
			declG.WriteString(m)
			continue
		}
		f := fmt.Sprintf("func %s(%s) int %s\n\n", fn, params(tuples[i]), body(i))
		declG.WriteString(fmt.Sprintf("func %s(%s) int %s\n\n", fn, params(tuples[i]), bodyOf(i, false)))
		if named(i) {
			declX.WriteString(f)
		}
	}
	if isMethod {
		fmt.Fprintf(&declX, "func (%s).%s = (\n", recvT, id)
		for _, i := range order {
			fmt.Fprintf(&declX, "\t(%s).%s_c%d\n", recvT, id, i)
		}
		declX.WriteString(")\n")
	} else {
		fmt.Fprintf(&declX, "func %s = (\n", id)
		for _, i := range order {
			if named(i) {
				fmt.Fprintf(&declX, "\t%s_c%d\n", id, i)
			} else {
				fmt.Fprintf(&declX, "\tfunc(%s) int %s\n", params(tuples[i]), strings.ReplaceAll(body(i), "\n", "\n\t"))
			}
		}
		declX.WriteString(")\n")
	}
	// calls: every candidate once, in index order (independent of declaration order)
	var x, gg strings.Builder
	x.WriteString(ovVars)
	gg.WriteString(ovVars)
	if isMethod {
		fmt.Fprintf(&x, "recv := &%s{}\n", recvT)
		fmt.Fprintf(&gg, "recv := &%s{}\n", recvT)
	}
	for i := 0; i < k; i++ {
		ax, ag := argsXG(tuples[i])
		if isMethod {
			fmt.Fprintf(&x, "fmt.Println(\"  ->\", recv.%s(%s))\n", id, ax)
			fmt.Fprintf(&gg, "fmt.Println(\"  ->\", recv.%s_c%d(%s))\n", id, i, ag)
		} else if g.Chance(35, "cmdcall") && !strings.HasPrefix(args(tuples[i]), "vfn") {
			// command-style call of the overloaded name (result discarded)
			fmt.Fprintf(&x, "%s %s\n", id, args(tuples[i]))
			fmt.Fprintf(&gg, "%s_c%d(%s)\n", id, i, args(tuples[i]))
		} else if g.Chance(25, "inlambda") {
			// the call sits in a lambda (compiled with the enclosing call's candidates)
			fmt.Fprintf(&x, "each [1], _x => {\n\tfmt.Println(\"  ->\", %s(%s))\n}\n", id, args(tuples[i]))
			fmt.Fprintf(&gg, "each([]int{1}, func(_x int) {\n\tfmt.Println(\"  ->\", %s_c%d(%s))\n})\n", id, i, args(tuples[i]))
		} else {
			fmt.Fprintf(&x, "fmt.Println(\"  ->\", %s(%s))\n", id, ax)
			fmt.Fprintf(&gg, "fmt.Println(\"  ->\", %s_c%d(%s))\n", id, i, ag)
		}
	}
	var tags []string
	for _, t := range tuples {
		tags = append(tags, tag(t))
	}
	return Item{Kind: "overload-" + style, X: x.String(), G: gg.String(), DeclX: declX.String(), DeclG: declG.String(),
		Key:        fmt.Sprintf("overload/%s/%v/%v", style, tags, order),
		NonTrivial: k >= 3 || style == "mixed", Labels: []string{fmt.Sprintf("cands=%d", k), "order=" + fmt.Sprint(order)[:min(len(fmt.Sprint(order)), 9)],
			fmt.Sprintf("underscore-names=%v/%v", isMethod && strings.Contains(recvT, "_"), strings.Contains(id, "_")), fmt.Sprintf("self-call=%v", selfCall)}}
}

// operatorItem: operators overloaded on a struct type, single-type and multi-type forms.
func (g *G) operatorItem(id string) Item {
	T := id + "V"
	multi := g.Chance(50, "multi")
	var declX, declG, x, gg strings.Builder
	fmt.Fprintf(&declX, "type %s struct {\n\tn int\n}\n\n", T)
	fmt.Fprintf(&declG, "type %s struct {\n\tn int\n}\n\n", T)
	ops := []struct{ op, name string }{{"+", "opAdd"}, {"-", "opSub"}, {"*", "opMul"}, {"==", "opEq"}, {"<", "opLt"}}
	nops := 1 + g.Intn(3, "nops")
	start := g.Intn(len(ops), "opstart")
	x.WriteString("a, b := " + T + "{6}, " + T + "{3}\n")
	gg.WriteString("a, b := " + T + "{6}, " + T + "{3}\n")
	for i := 0; i < nops; i++ {
		o := ops[(start+i)%len(ops)]
		if multi && o.op == "*" {
			continue
		}
		ret, expr := T, fmt.Sprintf("%s{a.n*10 + b.n}", T)
		if o.op == "==" || o.op == "<" {
			ret, expr = "bool", "a.n%2 == b.n%2"
		}
		bodyText := fmt.Sprintf("{\n\tfmt.Println(\"  op\", %q)\n\treturn %s\n}", o.op, expr)
		fmt.Fprintf(&declX, "func (a %s) %s (b %s) %s %s\n\n", T, o.op, T, ret, bodyText)
		fmt.Fprintf(&declG, "func (a %s) %s(b %s) %s %s\n\n", T, o.name, T, ret, bodyText)
		fmt.Fprintf(&x, "fmt.Println(\"  ->\", a %s b)\n", o.op)
		fmt.Fprintf(&gg, "fmt.Println(\"  ->\", a.%s(b))\n", o.name)
	}
	if !g.Flags["unary-used"] && g.Chance(60, "unary") { // `func -(a T)` can be declared for one type per package only (observed: "- redeclared in this block")
		g.Flags["unary-used"] = true
		fmt.Fprintf(&declX, "func -(a %s) %s {\n\tfmt.Println(\"  op\", \"neg\")\n\treturn %s{-a.n}\n}\n\n", T, T, T)
		fmt.Fprintf(&declG, "func (a %s) opNeg() %s {\n\tfmt.Println(\"  op\", \"neg\")\n\treturn %s{-a.n}\n}\n\n", T, T, T)
		x.WriteString("fmt.Println(\"  ->\", -a)\n")
		gg.WriteString("fmt.Println(\"  ->\", a.opNeg())\n")
	}
	if multi {
		// (T).* = ( (T).mulInt ; (T).mulT ; intMulT ) in a drawn order
		cands := []string{fmt.Sprintf("(%s).%s_mulInt", T, id), fmt.Sprintf("(%s).%s_mulT", T, id), id + "_intMul"}
		for i := len(cands) - 1; i > 0; i-- {
			j := g.Intn(i+1, "perm")
			cands[i], cands[j] = cands[j], cands[i]
		}
		common := fmt.Sprintf("func (a %s) %s_mulInt(b int) %s {\n\tfmt.Println(\"  op\", \"T*int\")\n\treturn %s{a.n * b}\n}\n\nfunc (a %s) %s_mulT(b %s) %s {\n\tfmt.Println(\"  op\", \"T*T\")\n\treturn %s{a.n * b.n}\n}\n\nfunc %s_intMul(a int, b %s) %s {\n\tfmt.Println(\"  op\", \"int*T\")\n\treturn %s{a + b.n}\n}\n\n",
			T, id, T, T, T, id, T, T, T, id, T, T, T)
		declX.WriteString(common)
		declG.WriteString(common)
		fmt.Fprintf(&declX, "func (%s).* = (\n\t%s\n)\n", T, strings.Join(cands, "\n\t"))
		x.WriteString("k := 4\nfmt.Println(\"  ->\", a * k)\nfmt.Println(\"  ->\", a * b)\nfmt.Println(\"  ->\", k * a)\n")
		fmt.Fprintf(&gg, "k := 4\nfmt.Println(\"  ->\", a.%s_mulInt(k))\nfmt.Println(\"  ->\", a.%s_mulT(b))\nfmt.Println(\"  ->\", %s_intMul(k, a))\n", id, id, id)
	}
	return Item{Kind: "overload-operator", X: x.String(), G: gg.String(), DeclX: declX.String(), DeclG: declG.String(),
		Key: "overload/operator/" + declX.String(), NonTrivial: multi || nops >= 2, Labels: []string{fmt.Sprintf("multi=%v", multi)}}
}

// OverloadProgram draws a program of n C10 items.
func OverloadProgram(g *G, n int) *Program {
	each := "func each(xs []int, f func(int)) {\n\tfor _, x := range xs {\n\t\tf(x)\n\t}\n}\n"
	p := &Program{DeclsX: []string{each}, DeclsG: []string{each}}
	for i := 0; i < n; i++ {
		p.Items = append(p.Items, g.OverloadItem())
	}
	return p
}

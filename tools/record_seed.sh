#!/bin/bash
# usage: tools/record_seed.sh <id> <property> <caught:yes|no> "<checks that catch it>" "<what it needs to manifest>" "<what I ran>"
id=$1; prop=$2; caught=$3; by=$4; needs=$5; ran=$6
src=/tmp/seeded/$id
dst=/verif/seeded/$id
mkdir -p $dst
cp $src/patch.diff $dst/patch.diff
rm -rf $dst/demo; cp -r $src/demo $dst/demo
[ -f $src/notes.md ] && cp $src/notes.md $dst/notes.md
python3 - "$id" "$prop" "$caught" "$by" "$needs" "$ran" <<'PY'
import json,sys
id,prop,caught,by,needs,ran=sys.argv[1:7]
json.dump({"id":id,"breaks_property":prop,"needs_to_manifest":needs,"confirmed":ran,"caught":caught=="yes","caught_by":by,
  "source":"fresh sub-agent given only the property text and a private worktree"},open(f'/verif/seeded/{id}/meta.json','w'),indent=1)
PY
echo recorded $dst

//go:build verif

// C27 — compiling a TPL grammar source returns a compiler or an error, never a panic.
// Only compilation is exercised (tpl.New, tpl.NewEx, tpl/cl.New(Ex) over tpl/parser.ParseFile);
// no generated grammar is ever matched against input (termination of matching is C28).
package c27

import (
	"fmt"
	"os"
	"runtime/debug"
	"strings"
	"testing"
	"time"

	"github.com/goplus/xgo/tpl"
	"github.com/goplus/xgo/tpl/ast"
	"github.com/goplus/xgo/tpl/cl"
	"github.com/goplus/xgo/tpl/parser"
	"github.com/goplus/xgo/tpl/scanner"
	"github.com/goplus/xgo/tpl/token"
	"pgregory.net/rapid"

	"verif/internal/gen/lex"
	"verif/internal/gen/tplgen"
	"verif/internal/vk"
)

func TestMain(m *testing.M) {
	// conflict warnings of the compiler go to os.Stderr; keep the driver's log small
	if null, err := os.OpenFile(os.DevNull, os.O_WRONLY, 0); err == nil {
		os.Stderr = null
	}
	vk.Main(m, "C27", "exploration",
		"TPL grammar sources: (1) tplgen grammars of 1..6 rules over every operator (sequence, |, * + ?, %, ++, parentheses, `=> {…}` blocks, rule references, token classes, undefined names, duplicate / shadowing rule names), literals from every family (each byte 0x00..0xFF through every escape spelling as CHAR and STRING, raw bytes, all multi-byte operators, keywords, empty, invalid escapes, unterminated), printed canonical/tight/noisy, then optionally 1..3 token-level mutations (delete, duplicate, insert structural token, swap, truncate, replace by literal, self/duplicate reference, drop '=') and a byte-level mutation; (2) one literal in six grammar contexts; (3) exhaustively every spelling of every one-byte CHAR and STRING literal (\\x, \\X-digits, octal, \\u, \\U, simple escape, plain, raw string, raw byte) in three contexts; (4) the repository's TPL grammars (parser testdata, README, demo) verbatim and byte-mutated. Every source goes through tpl.New (conflicts shown and hidden, with and without ret-procs), tpl.NewEx (relocated errors), and parser.ParseFile (with a ParseRetProc stub) followed, when it reports no error, by cl.New and cl.NewEx. Oracle: no panic escapes any entry point (class = innermost repository function on the panic stack), an answer within 20 s, nil error implies a non-nil document rule, ParseRetProc receives an offset inside its source. Non-trivial = at least 3 rules or a literal whose body does not start with [A-Za-z_]; distinct = hash of the source bytes")
}

type Case struct {
	Src vk.Bytes `json:"src"`
}

type attempt struct {
	entry string
	v     *vk.Verdict
}

// panicClass names the innermost function of the repository on the stack of a recovered panic.
func panicClass(stack string) string {
	lines := strings.Split(stack, "\n")
	seenPanic := false
	for _, l := range lines {
		if strings.HasPrefix(l, "panic(") {
			seenPanic = true
			continue
		}
		if seenPanic && strings.HasPrefix(l, "github.com/goplus/xgo/") {
			fn := strings.TrimPrefix(l, "github.com/goplus/xgo/")
			if i := strings.LastIndex(fn, "("); i > 0 {
				fn = fn[:i]
			}
			return "panic@" + fn
		}
	}
	return "panic@unknown"
}

func guard(entry string, f func() *vk.Verdict) (a attempt) {
	a.entry = entry
	defer func() {
		if p := recover(); p != nil {
			st := string(debug.Stack())
			ls := strings.Split(st, "\n")
			if len(ls) > 30 {
				ls = ls[:30]
			}
			a.v = vk.Bad(panicClass(st), "%s panicked: %v\n%s", entry, p, strings.Join(ls, "\n"))
		}
	}()
	a.v = f()
	return
}

func usable(entry string, c tpl.Compiler, err error) *vk.Verdict {
	if err == nil && (c.Doc == nil || c.Rules == nil) {
		return vk.Bad("nil-compiler-no-error", "%s returned a nil error and no document rule", entry)
	}
	return nil
}

var retProcs = []any{
	"doc", func(self any) any { return self },
	"expr", func(self []any) any { return self },
	"r1", func(self any) any { return nil },
}

func compileAll(c Case) []attempt {
	src := []byte(c.Src)
	var out []attempt
	out = append(out, guard("tpl.New", func() *vk.Verdict {
		tpl.ShowConflict(true)
		r, err := tpl.New(src)
		return usable("tpl.New", r, err)
	}))
	out = append(out, guard("tpl.New(hidden conflicts, ret-procs)", func() *vk.Verdict {
		tpl.ShowConflict(false)
		defer tpl.ShowConflict(true)
		r, err := tpl.New(string(src), retProcs...)
		return usable("tpl.New", r, err)
	}))
	out = append(out, guard("tpl.NewEx", func() *vk.Verdict {
		tpl.ShowConflict(true)
		r, err := tpl.NewEx(string(src), "dir/g.xgo", 3, 5, retProcs...)
		return usable("tpl.NewEx", r, err)
	}))
	out = append(out, guard("tpl.NewEx(hidden conflicts)", func() *vk.Verdict {
		tpl.ShowConflict(false)
		defer tpl.ShowConflict(true)
		r, err := tpl.NewEx(src, "g.xgo", 1, 1)
		return usable("tpl.NewEx", r, err)
	}))
	out = append(out, guard("parser.ParseFile+cl.NewEx", func() *vk.Verdict {
		fset := token.NewFileSet()
		var bad *vk.Verdict
		conf := &parser.Config{ParseRetProc: func(file *token.File, code []byte, offset int) (ast.Node, scanner.ErrorList) {
			if offset < 0 || offset > len(code) || len(code) > len(src) {
				bad = vk.Bad("retproc-args", "ParseRetProc called with offset %d, %d bytes of code, source has %d bytes", offset, len(code), len(src))
				return nil, nil
			}
			if offset%2 == 1 {
				var errs scanner.ErrorList
				errs.Add(token.Position{Filename: "g.tpl", Line: 1, Column: offset + 1}, "stub: cannot parse ret-proc")
				return nil, errs
			}
			return &ast.Ident{NamePos: token.Pos(file.Base() + offset), Name: "retproc"}, nil
		}}
		f, err := parser.ParseFile(fset, "g.tpl", src, conf)
		if bad != nil {
			return bad
		}
		if err != nil {
			return nil // tpl.FromFile stops here too
		}
		if f == nil {
			return vk.Bad("nil-file-no-error", "parser.ParseFile returned nil file and nil error")
		}
		conflicts := 0
		r, err := cl.NewEx(&cl.Config{
			RetProcs: map[string]any{"doc": retProcs[1], "expr": retProcs[3]},
			OnConflict: func(fset *token.FileSet, c *ast.Choice, firsts [][]any, i, at int) {
				conflicts++
				_ = fset.Position(c.Options[i].Pos())
				_ = fmt.Sprint(firsts[i], firsts[at])
			},
		}, fset, f)
		if v := usable("cl.NewEx", tpl.Compiler{Result: r}, err); v != nil {
			return v
		}
		r, err = cl.New(fset, f)
		return usable("cl.New", tpl.Compiler{Result: r}, err)
	}))
	return out
}

// compile is the oracle: the first failing entry point whose class is not a listed known
// finding wins, so that the search continues behind known findings.
func compile(c Case) *vk.Verdict {
	var first *vk.Verdict
	for _, a := range compileAll(c) {
		if a.v == nil {
			continue
		}
		if vk.R == nil || vk.R.KnownClass(a.v.Class) == nil {
			return a.v
		}
		if first == nil {
			first = a.v
		}
	}
	return first
}

var oracle = vk.Register("compile", compile)

type failer interface {
	Fatalf(string, ...any)
	Helper()
}

func outcome(src []byte) string {
	defer func() { recover() }()
	tpl.ShowConflict(false)
	defer tpl.ShowConflict(true)
	_, err := tpl.New(src)
	switch e := err.(type) {
	case nil:
		return "outcome=compiled"
	case *scanner.Error, scanner.ErrorList:
		return "outcome=parse-error"
	default:
		if e == cl.ErrNoDocFound {
			return "outcome=no-document-rule"
		}
		return "outcome=compile-error"
	}
}

// oddLiteral reports whether src holds a literal whose body does not start with [A-Za-z_]
// (a lexical approximation, evidence only), and counts lines that look like rules.
func shapeOf(src []byte) (oddLit bool, rules int) {
	for i := 0; i < len(src); i++ {
		switch c := src[i]; c {
		case '"', '\'', '`':
			if i+1 < len(src) {
				n := src[i+1]
				if !(n == '_' || n >= 'a' && n <= 'z' || n >= 'A' && n <= 'Z') {
					oddLit = true
				}
			}
			for i++; i < len(src) && src[i] != c && src[i] != '\n'; i++ {
				if src[i] == '\\' && c != '`' {
					i++
				}
			}
		case '=':
			if i+1 < len(src) && src[i+1] != '>' && src[i+1] != '=' && (i == 0 || src[i-1] != '=') {
				rules++
			}
		}
	}
	return
}

func run(t failer, c Case, classes ...string) {
	v := vk.R.Guard("compile", c, 20*time.Second, func() *vk.Verdict { return oracle(c) })
	odd, rules := shapeOf(c.Src)
	nt := odd || rules >= 3
	vk.R.Case(nt, string(c.Src))
	for _, cl := range classes {
		vk.R.Class(cl)
	}
	if v == nil {
		vk.R.Class(outcome(c.Src))
	} else {
		vk.R.Class("outcome=" + v.Class)
	}
	if nt {
		vk.R.Sample(string(c.Src))
	}
	vk.R.Check(t, "compile", c, v)
}

var styleName = []string{"canonical", "tight", "noisy"}

func TestGrammars(t *testing.T) {
	vk.R.Exhaustive(false)
	mixed := rapid.OneOf(tplgen.ValidLit(), tplgen.ValidLit(), tplgen.AnyLit())
	gens := []*rapid.Generator[tplgen.Grammar]{
		tplgen.GrammarOf(tplgen.GrammarConfig{MinRules: 1, MaxRules: 6, MaxDepth: 3, Closed: true, RetProcs: true}),
		tplgen.GrammarOf(tplgen.GrammarConfig{MinRules: 1, MaxRules: 6, MaxDepth: 3, Closed: true, RetProcs: true, Lits: mixed}),
		tplgen.GrammarOf(tplgen.GrammarConfig{MinRules: 1, MaxRules: 5, MaxDepth: 3, Closed: false, RetProcs: true, Lits: mixed}),
	}
	genName := []string{"gen=closed-valid-lits", "gen=closed-any-lits", "gen=open-any-lits"}
	vk.R.Rapid(t, 1, 22000, 700000, func(t *rapid.T) {
		k := rapid.IntRange(0, 2).Draw(t, "gen")
		g := gens[k].Draw(t, "grammar")
		var extra func() bool
		if rapid.IntRange(0, 3).Draw(t, "parens") == 0 {
			extra = func() bool { return rapid.IntRange(0, 5).Draw(t, "extra") == 0 }
		}
		toks := g.Tokens(t, extra)
		mut := rapid.SampledFrom([]string{"none", "none", "tokens", "tokens", "bytes", "tokens+bytes"}).Draw(t, "mut")
		if strings.HasPrefix(mut, "tokens") {
			toks = tplgen.MutateTokens(t, toks)
		}
		style := rapid.IntRange(0, 2).Draw(t, "style")
		src := tplgen.Layout(t, toks, style)
		if strings.HasSuffix(mut, "bytes") {
			src = tplgen.MutateBytes(t, src)
		}
		run(t, Case{Src: vk.Bytes(src)}, genName[k], "mutation="+mut, "layout="+styleName[style], fmt.Sprintf("rules=%d", len(g.Rules)))
	})
}

var contexts = []string{"a = §", "a = § | \"x\"", "a = *§ INT", "doc = INT % §\n", "a = § ++ §", "a = b (§)\nb = ?§ => { return self }\n"}

func inContext(ctx, lit string) string {
	return strings.ReplaceAll(ctx, "§", lit)
}

func TestLiteralContexts(t *testing.T) {
	vk.R.Exhaustive(false)
	lit := tplgen.AnyLit()
	vk.R.Rapid(t, 2, 8000, 300000, func(t *rapid.T) {
		l := lit.Draw(t, "lit")
		k := rapid.IntRange(0, len(contexts)-1).Draw(t, "ctx")
		run(t, Case{Src: vk.Bytes(inContext(contexts[k], l))}, "gen=literal-in-context", fmt.Sprintf("context=%d", k))
	})
}

// TestAllSingleByteLiterals enumerates every spelling of every one-byte CHAR and STRING literal.
func TestAllSingleByteLiterals(t *testing.T) {
	n := 0
	for b := 0; b < 256; b++ {
		if b%vk.R.Shards != vk.R.Shard {
			continue
		}
		var lits []string
		lits = append(lits, tplgen.CharSpellings(byte(b))...)
		lits = append(lits, tplgen.StringSpellings(byte(b))...)
		lits = append(lits, tplgen.RawByteSpellings(byte(b))...)
		for _, l := range lits {
			for _, ctx := range []int{0, 3, 5} {
				run(t, Case{Src: vk.Bytes(inContext(contexts[ctx], l))}, "gen=single-byte-enumeration")
				n++
			}
		}
	}
	vk.R.Exhaustive(true)
	vk.R.Add("single_byte_literal_cases", int64(n))
	vk.R.Set("exhaustive:single-byte-literals", "all 256 byte values x every spelling (CharSpellings, StringSpellings, RawByteSpellings) x 3 contexts")
}

// grammars of the repository: parser testdata, README, demos and generated-code fixtures.
func corpus() [][]byte {
	var out [][]byte
	for _, f := range lex.Corpus() {
		rel := f.Rel
		switch {
		case strings.HasPrefix(rel, "tpl/parser/_testdata/") && strings.HasSuffix(rel, "in.xgo"):
			out = append(out, f.Src)
		case strings.HasPrefix(rel, "demo/tpl-") || strings.HasPrefix(rel, "cl/_testgop/domaintpl") || strings.HasPrefix(rel, "cl/_testgop/domaintext-tpl") || strings.HasPrefix(rel, "tpl/variant/") || strings.HasPrefix(rel, "tpl/encoding/"):
			// the text between tpl` and the closing back quote
			s := string(f.Src)
			for {
				i := strings.Index(s, "tpl`")
				if i < 0 {
					break
				}
				s = s[i+4:]
				j := strings.IndexByte(s, '`')
				if j < 0 {
					break
				}
				out = append(out, []byte(s[:j]))
				s = s[j+1:]
			}
		}
	}
	out = append(out, []byte("expr = INT % \",\" => {\n    return tpl.ListOp[int](self, v => {\n        return v.(*tpl.Token).Lit.int!\n    })\n}\n"),
		[]byte("doc = IDENT ++ RAWSTRING\nSTRING = QSTRING | RAWSTRING\n"), []byte(""), []byte("\n"), []byte("a = 'a'\n"), []byte("a = a\n"), []byte("a = a | INT\n"), []byte("a = b\nb = a\n"),
		[]byte("a = INT\na = FLOAT\n"), []byte("a = \"\"\n"), []byte("a = *\"\" | ?a\n"))
	return out
}

func TestCorpus(t *testing.T) {
	vk.R.Exhaustive(false)
	files := corpus()
	vk.R.Set("corpus_grammars", int64(len(files)))
	if vk.R.Shard == 0 {
		for _, src := range files {
			run(t, Case{Src: vk.Bytes(src)}, "gen=corpus")
		}
	}
	vk.R.Rapid(t, 3, 4000, 150000, func(t *rapid.T) {
		src := string(files[rapid.IntRange(0, len(files)-1).Draw(t, "file")])
		for i, n := 0, rapid.IntRange(1, 3).Draw(t, "nmut"); i < n; i++ {
			src = tplgen.MutateBytes(t, src)
		}
		run(t, Case{Src: vk.Bytes(src)}, "gen=corpus-byte-mutant")
	})
}

//go:build verif

// C35 — ParseAll partitions project arguments in order: maximal runs of files form one files
// project, directories and package paths one project each, mixed-project error iff both occur.
package c35

import (
	"fmt"
	"strings"
	"testing"

	"github.com/goplus/xgo/x/xgoprojs"
	"pgregory.net/rapid"

	"verif/internal/vk"
)

func TestMain(m *testing.M) {
	vk.Main(m, "C35", "exploration",
		"argument lists whose elements carry a class label given by the generator (f = file: any path ending in an XGo/Go source extension or a *.ext wildcard; d = local directory: starts with '.', '/', '\\\\' or a drive letter and has no extension; p = package path: anything else without a dot in its last element, optional @vN/@latest/... suffix). All lists up to length 4 (thorough: 5) over a fixed pool are enumerated; longer lists (up to 7) and grammar-built arguments are drawn by rapid. Lists containing an argument whose class the documentation does not settle (dotted last element such as gopkg.in/yaml.v3, pkg@v1.2.3, ./.git, the empty string) are counted under rejected and not evaluated. Oracle = reference partition computed from the labels: ParseAll's projects (kinds, argument order, maximal file runs) for unmixed lists, ErrMixedFilesProj iff files and non-files both occur; ParseOne iterated reproduces the same partition also for mixed lists. Non-trivial = at least 2 projects (or a mixed list) and at least 3 arguments; distinct = the argument list")
}

// Case is one labelled argument list. Labels[i] ∈ {"f","d","p"}.
type Case struct {
	Args   []string `json:"args"`
	Labels []string `json:"labels"`
}

type proj struct {
	kind string // f | d | p
	args []string
}

// model is the reference partition: it looks at the generator's labels only.
func model(c Case) (want []proj, mixed bool) {
	hasF, hasN := false, false
	for i, a := range c.Args {
		l := c.Labels[i]
		if l == "f" {
			hasF = true
			if n := len(want); n > 0 && want[n-1].kind == "f" {
				want[n-1].args = append(want[n-1].args, a)
				continue
			}
		} else {
			hasN = true
		}
		want = append(want, proj{kind: l, args: []string{a}})
	}
	return want, hasF && hasN
}

func describe(p xgoprojs.Proj) (proj, bool) {
	switch v := p.(type) {
	case *xgoprojs.FilesProj:
		return proj{"f", v.Files}, true
	case *xgoprojs.DirProj:
		return proj{"d", []string{v.Dir}}, true
	case *xgoprojs.PkgPathProj:
		return proj{"p", []string{v.Path}}, true
	}
	return proj{}, false
}

func kindName(k string) string {
	return map[string]string{"f": "FilesProj", "d": "DirProj", "p": "PkgPathProj"}[k]
}

// samePartition compares returned projects with the reference; prefix labels the entry point.
func samePartition(prefix string, args []string, got []xgoprojs.Proj, want []proj) *vk.Verdict {
	var flat []string
	var gp []proj
	for i, p := range got {
		d, ok := describe(p)
		if !ok {
			return vk.Bad(prefix+"unknown-project-type", "project %d of %q is %T", i, args, p)
		}
		if len(d.args) == 0 {
			return vk.Bad(prefix+"empty-project", "project %d of %q has no argument", i, args)
		}
		gp = append(gp, d)
		flat = append(flat, d.args...)
	}
	if strings.Join(flat, "\x00") != strings.Join(args, "\x00") || len(flat) != len(args) {
		return vk.Bad(prefix+"concat-mismatch", "arguments %q, concatenated project arguments %q", args, flat)
	}
	// same arguments in the same order: now kinds and grouping
	gi := 0
	for _, w := range want {
		if gi >= len(gp) {
			return vk.Bad(prefix+"concat-mismatch", "arguments %q: projects exhausted", args)
		}
		g := gp[gi]
		if g.kind != w.kind {
			return vk.Bad(prefix+"wrong-kind", "arguments %q: %q is a %s argument, returned as %s", args, g.args[0], kindName(w.kind), kindName(g.kind))
		}
		if w.kind == "f" && len(g.args) < len(w.args) {
			return vk.Bad(prefix+"files-run-split", "arguments %q: the file run %q was returned as several projects (first %q)", args, w.args, g.args)
		}
		if len(g.args) != len(w.args) {
			return vk.Bad(prefix+"wrong-grouping", "arguments %q: expected project %q, got %q", args, w.args, g.args)
		}
		gi++
	}
	if gi != len(gp) {
		return vk.Bad(prefix+"wrong-grouping", "arguments %q: %d projects expected, %d returned", args, len(want), len(gp))
	}
	return nil
}

func check(c Case) *vk.Verdict {
	if len(c.Args) != len(c.Labels) {
		return vk.Bad("harness", "labels do not match arguments")
	}
	want, mixed := model(c)
	args := append([]string{}, c.Args...)
	got, err := xgoprojs.ParseAll(args...)
	for i := range args {
		if args[i] != c.Args[i] {
			return vk.Bad("input-modified", "ParseAll changed its argument %d from %q to %q", i, c.Args[i], args[i])
		}
	}
	switch {
	case mixed && err != xgoprojs.ErrMixedFilesProj:
		return vk.Bad("mixed-error-missing", "arguments %q contain files and non-files, ParseAll returned err=%v (%d projects)", c.Args, err, len(got))
	case !mixed && err == xgoprojs.ErrMixedFilesProj:
		return vk.Bad("mixed-error-spurious", "arguments %q (labels %v) are not mixed, ParseAll returned ErrMixedFilesProj", c.Args, c.Labels)
	case !mixed && err != nil:
		return vk.Bad("unexpected-error", "arguments %q: ParseAll returned %v", c.Args, err)
	}
	if !mixed {
		if v := samePartition("", c.Args, got, want); v != nil {
			return v
		}
	}
	// ParseOne, iterated: "parses the first argument ... If the first argument is a file, it
	// continues to parse subsequent arguments" — the same partition, observable for mixed lists too
	var ps []xgoprojs.Proj
	rest := args
	for len(rest) > 0 {
		p, next, err := xgoprojs.ParseOne(rest...)
		if err != nil {
			return vk.Bad("parseone-error", "ParseOne(%q) returned %v", rest, err)
		}
		if len(next) >= len(rest) {
			return vk.Bad("parseone-no-progress", "ParseOne(%q) left %q", rest, next)
		}
		if strings.Join(next, "\x00") != strings.Join(rest[len(rest)-len(next):], "\x00") {
			return vk.Bad("parseone-next", "ParseOne(%q) returned next=%q which is not a suffix of its input", rest, next)
		}
		ps = append(ps, p)
		rest = next
	}
	if p, next, err := xgoprojs.ParseOne(); err == nil || p != nil || len(next) != 0 {
		return vk.Bad("parseone-empty", "ParseOne() = (%v, %q, %v), want an error", p, next, err)
	}
	return samePartition("parseone-", c.Args, ps, want)
}

var oracle = vk.Register("partition", check)

type failer interface {
	Fatalf(string, ...any)
	Helper()
}

func run(t failer, c Case, class string) {
	v := oracle(c)
	want, mixed := model(c)
	nt := (len(want) >= 2 || mixed) && len(c.Args) >= 3
	vk.R.Case(nt, strings.Join(c.Args, "\x00"))
	vk.R.Class(class)
	vk.R.Class(fmt.Sprintf("len=%d", len(c.Args)))
	switch {
	case mixed:
		vk.R.Class("shape=mixed")
	case len(want) == 0:
		vk.R.Class("shape=empty")
	case want[0].kind == "f":
		vk.R.Class("shape=files-only")
	default:
		vk.R.Class("shape=no-files")
	}
	maxRun := 0
	for _, w := range want {
		if w.kind == "f" && len(w.args) > maxRun {
			maxRun = len(w.args)
		}
	}
	if maxRun >= 2 {
		vk.R.Class("has-file-run>=2")
	}
	if nt {
		vk.R.Sample(strings.Join(c.Args, " "))
	}
	vk.R.Check(t, "partition", c, v)
}

// ---- pool (exhaustive part) -------------------------------------------------------------------

type labelled struct{ arg, label string } // label "?" = class not settled by the documentation

var pool = []labelled{
	{"a.xgo", "f"}, {"./x/b.go", "f"}, {"c.gox", "f"}, {"/abs/d.gop", "f"}, {"*.go", "f"}, {"t/*.go", "f"}, {"C:/x/e.xgo", "f"}, {"../main_test.gox", "f"}, {"main.spx", "f"},
	{".", "d"}, {"..", "d"}, {"./foo", "d"}, {"/abs", "d"}, {"C:/x", "d"}, {`\\x`, "d"}, {"./...", "d"}, {"../a/...", "d"}, {"/", "d"}, {"c:/foo", "d"},
	{"fmt", "p"}, {"github.com/u/p", "p"}, {"foo/bar@v1", "p"}, {"a/...", "p"}, {"github.com/goplus/yap@latest", "p"}, {"net/http", "p"},
	{"gopkg.in/yaml.v3", "?"}, {"github.com/u/p@v1.2.3", "?"},
}

func TestExhaustiveShortLists(t *testing.T) {
	maxLen := 4
	if vk.R.Thorough() {
		maxLen = 5
	}
	shard, shards := vk.R.Shard, vk.R.Shards
	P := len(pool)
	idx := 0
	var total int64
	for n := 0; n <= maxLen; n++ {
		count := 1
		for i := 0; i < n; i++ {
			count *= P
		}
		for code := 0; code < count; code++ {
			idx++
			if idx%shards != shard {
				continue
			}
			c := Case{Args: make([]string, n), Labels: make([]string, n)}
			unsettled := false
			for i, x := 0, code; i < n; i, x = i+1, x/P {
				e := pool[x%P]
				c.Args[n-1-i], c.Labels[n-1-i] = e.arg, e.label
				if e.label == "?" {
					unsettled = true
				}
			}
			if unsettled {
				vk.R.Rejected("unsettled-class:dotted-last-element")
				continue
			}
			total++
			run(t, c, "src=pool-exhaustive")
			if t.Failed() {
				return
			}
		}
	}
	vk.R.Set("exhaustive_list_len", int64(maxLen))
	vk.R.Set("exhaustive_pool_settled", int64(P-2))
	vk.R.Add("exhaustive_lists_evaluated", total)
}

// ---- grammar-built arguments (random part) ------------------------------------------------------

var srcExts = []string{".xgo", ".gop", ".go", ".gox", ".spx", ".gmx", ".gsh", ".yap", ".xgo", ".go"}
var seg = rapid.StringMatching(`[a-zA-Z_][a-zA-Z0-9_-]{0,6}`)
var dirPrefix = []string{"./", "../", "/", "C:/", "c:/", "d:", `\\`, `\`, "./../", ".", ".."}

func segs(t *rapid.T, label string, lo, hi int) string {
	return strings.Join(rapid.SliceOfN(seg, lo, hi).Draw(t, label), "/")
}

func genArg() *rapid.Generator[labelled] {
	return rapid.Custom(func(t *rapid.T) labelled {
		switch rapid.IntRange(0, 9).Draw(t, "class") {
		case 0, 1, 2, 3: // file: [dir prefix][segments/]stem.ext
			s := ""
			if rapid.Bool().Draw(t, "prefixed") {
				s = rapid.SampledFrom(dirPrefix[:7]).Draw(t, "prefix")
			}
			if d := segs(t, "dirs", 0, 2); d != "" {
				s += d + "/"
			}
			stem := rapid.OneOf(seg, rapid.SampledFrom([]string{"*", "main", "a_test", "x_spx", "a.b", "_x", "gop_autogen"})).Draw(t, "stem")
			return labelled{s + stem + rapid.SampledFrom(srcExts).Draw(t, "ext"), "f"}
		case 4, 5, 6: // local directory
			p := rapid.SampledFrom(dirPrefix).Draw(t, "prefix")
			if p == "." || p == ".." {
				return labelled{p, "d"}
			}
			s := p + segs(t, "dirs", 0, 3)
			if rapid.IntRange(0, 4).Draw(t, "wild") == 0 {
				if !strings.HasSuffix(s, "/") && !strings.HasSuffix(s, `\`) && !strings.HasSuffix(s, ":") {
					s += "/"
				}
				s += "..."
			}
			return labelled{s, "d"}
		case 7, 8: // package path: [domain/]segments[@version | /...]
			s := ""
			if rapid.Bool().Draw(t, "domain") {
				s = rapid.SampledFrom([]string{"github.com/", "golang.org/x/", "gopkg.in/", "example.org/"}).Draw(t, "dom")
			}
			s += segs(t, "path", 1, 3)
			s += rapid.SampledFrom([]string{"", "", "", "@v1", "@v2", "@latest", "@main", "/...", "/v2"}).Draw(t, "suffix")
			return labelled{s, "p"}
		default: // not settled by the documentation
			return labelled{rapid.SampledFrom([]string{"gopkg.in/yaml.v3", "github.com/u/p@v1.2.3", "./.git", ".hidden", "", "./foo.d", "a.", "example.com", "x/y.", ".\\foo", "./a.b/..."}).Draw(t, "unsettled"), "?"}
		}
	})
}

func TestRandomLists(t *testing.T) {
	g := rapid.SliceOfN(rapid.OneOf(genArg(), genArg(), rapid.SampledFrom(pool)), 3, 8)
	vk.R.Rapid(t, 1, 30000, 1000000, func(t *rapid.T) {
		items := g.Draw(t, "args")
		c := Case{}
		for _, it := range items {
			if it.label == "?" { // left out and counted
				vk.R.Rejected("unsettled-class:" + it.arg)
				continue
			}
			if len(c.Args) == 7 {
				break
			}
			c.Args = append(c.Args, it.arg)
			c.Labels = append(c.Labels, it.label)
		}
		run(t, c, "src=grammar")
	})
}

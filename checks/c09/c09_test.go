//go:build verif

// C09 — line directives map every statement back to its XGo source line.
package c09

import (
	"fmt"
	goast "go/ast"
	goparser "go/parser"
	gotoken "go/token"
	"regexp"
	"strings"
	"testing"
	"time"

	"pgregory.net/rapid"

	"verif/internal/gen/gosub"
	"verif/internal/gen/xsugar"
	"verif/internal/progrun"
	"verif/internal/vk"
	"verif/internal/xcl"
)

func TestMain(m *testing.M) {
	vk.Main(m, "C09", "exploration",
		"(a) gosub programs (with blank lines, line and block comments drawn between declarations and statements) in which about half of the int literals are wrapped in mk(id, v), a function that prints runtime.Caller(1)'s file:line and the entry line of the calling function; the same text is built by Go and, compiled as /foo/bar.xgo with line directives on, by the XGo compiler: every mark must report the same line and entry line, and the file bar.xgo. (b) XGo-sugar programs (comprehensions, for-in, lambdas, command calls, appends) whose traced calls t(\"gN\", v) report their caller's position: it must be the line on which \"gN\" is written in the .xgo source. Non-trivial = at least 20 distinct marks executed; distinct = source text")
}

type Case struct {
	Kind string `json:"kind"` // "go" | "sugar"
	Src  string `json:"src"`  // program text (valid Go for kind go; XGo for kind sugar)
}

var mkRe = regexp.MustCompile(`(?m)^MK (\d+) (\S+) (\d+) (\d+)$`)

type stats struct {
	marks        int
	first, later int // marks that are / are not the first call on their source line
	out          string
}

// firstCallOfLine reports whether mk(<id>, is the first call written on its source line.
func firstCallOfLine(src, id, line string) bool {
	l := lineOf(src, line)
	i := strings.Index(l, "mk("+id+",")
	return i >= 0 && !callBefore.MatchString(l[:i])
}

// firstCallMarks parses a Go program and returns the ids of the marks mk(<id>, ...) that are the
// first call of their statement: the innermost statement that contains the mark (the statements
// of a function literal are statements of their own, also when the literal is written on the line
// of the statement that holds it) starts on the mark's line and has no call expression that starts
// before the mark.
func firstCallMarks(src string) map[string]bool {
	out := map[string]bool{}
	fset := gotoken.NewFileSet()
	f, err := goparser.ParseFile(fset, "x.go", src, goparser.SkipObjectResolution)
	if err != nil {
		return out
	}
	var stack []goast.Node
	goast.Inspect(f, func(n goast.Node) bool {
		if n == nil {
			stack = stack[:len(stack)-1]
			return true
		}
		stack = append(stack, n)
		call, ok := n.(*goast.CallExpr)
		if !ok {
			return true
		}
		id, ok := call.Fun.(*goast.Ident)
		if !ok || id.Name != "mk" || len(call.Args) == 0 {
			return true
		}
		lit, ok := call.Args[0].(*goast.BasicLit)
		if !ok {
			return true
		}
		// innermost enclosing statement (simple statements; for compound statements the mark sits in
		// the header, and calls of the body start later anyway)
		var stmt goast.Node
		for i := len(stack) - 2; i >= 0; i-- {
			if _, ok := stack[i].(goast.Stmt); ok {
				stmt = stack[i]
				break
			}
			if _, ok := stack[i].(*goast.ValueSpec); ok { // package-level var initialiser
				stmt = stack[i]
				break
			}
		}
		if stmt == nil {
			return true
		}
		// the //line comment fixes the line the statement starts on; a call on a continuation line of
		// a statement that runs over several lines depends on the generated layout and is not part
		// of the statement ("the line where that statement is written")
		isFirst := fset.Position(call.Pos()).Line == fset.Position(stmt.Pos()).Line
		goast.Inspect(stmt, func(m goast.Node) bool {
			if c, ok := m.(*goast.CallExpr); ok && c != call && c.Pos() < call.Pos() {
				isFirst = false
			}
			return isFirst
		})
		if isFirst {
			out[lit.Value] = true
		}
		return true
	})
	return out
}

// callBefore matches an opening parenthesis that belongs to a call or conversion (it follows an
// identifier, a closing bracket or a closing parenthesis); grouping parentheses do not count.
var callBefore = regexp.MustCompile(`[\pL\pN_\)\]]\(`)

func compile(src string) (string, *vk.Verdict) {
	r := xcl.Compile(map[string]string{"bar.xgo": src}, xcl.Options{})
	if r.Panic != nil || r.ParseErr != nil || r.Err != nil {
		return "", vk.Bad("does-not-compile", "cl: parse=%v err=%v panic=%v", r.ParseErr, r.Err, r.Panic)
	}
	return string(r.Go), nil
}

// evalGo: differential on marks.
func evalGo(srcs []string) ([]*vk.Verdict, []stats, error) {
	vs := make([]*vk.Verdict, len(srcs))
	st := make([]stats, len(srcs))
	var progs []progrun.Prog
	for i, s := range srcs {
		progs = append(progs, progrun.Prog{Name: fmt.Sprintf("r%04d", i), Files: map[string]string{"main.go": s}})
		g, v := compile(s)
		if v != nil {
			vs[i] = v
			continue
		}
		progs = append(progs, progrun.Prog{Name: fmt.Sprintf("x%04d", i), Files: map[string]string{"main.go": g}})
	}
	res, err := progrun.Run(progs, 10*time.Second)
	if err != nil {
		return nil, nil, err
	}
	for i := range srcs {
		if vs[i] != nil {
			continue
		}
		ref, x := res[fmt.Sprintf("r%04d", i)], res[fmt.Sprintf("x%04d", i)]
		if ref.BuildErr != "" || ref.TimedOut {
			vs[i] = vk.Bad("generator-bug", "reference: %s timeout=%v", ref.BuildErr, ref.TimedOut)
			continue
		}
		if x.BuildErr != "" {
			vs[i] = vk.Bad("does-not-compile", "go build of the XGo output: %s", x.BuildErr)
			continue
		}
		rm, xm := mkRe.FindAllStringSubmatch(ref.Stdout, -1), mkRe.FindAllStringSubmatch(x.Stdout, -1)
		st[i] = stats{marks: len(rm), out: ref.Stdout}
		n := len(rm)
		if len(xm) < n {
			n = len(xm)
		}
		var first map[string]bool
		for k := 0; k < n && vs[i] == nil; k++ {
			a, b := rm[k], xm[k]
			if first == nil {
				first = firstCallMarks(srcs[i])
			}
			if a[1] == b[1] && !first[a[1]] {
				// the property speaks of the FIRST call of a statement: later calls on the same source
				// line may legitimately land on other output lines (e.g. after a function literal)
				st[i].later++
				continue
			}
			st[i].first++
			switch {
			case a[1] != b[1]:
				vs[i] = vk.Bad("behaviour-differs", "mark sequence differs at #%d: reference id %s, xgo id %s (this is C01's business)", k, a[1], b[1])
			case b[2] != "bar.xgo":
				vs[i] = vk.Bad("file-name", "mark %s reports file %q, want bar.xgo", b[1], b[2])
			case a[3] != b[3] && blockDocBeforeDecl(srcs[i], b[3], a[3]):
				vs[i] = vk.Bad("line-differs:block-comment-before-decl-stmt", "mark %s: a var declaration statement preceded by a /*-comment on its own line reports the comment's line %s instead of its own line %s", a[1], b[3], a[3])
			case a[3] != b[3]:
				vs[i] = vk.Bad("line-differs", "mark %s is written on line %s (as Go reports for the same text) but the XGo build reports line %s: %q", a[1], a[3], b[3], lineOf(srcs[i], a[3]))
			case a[4] != b[4]:
				vs[i] = vk.Bad("entry-line-differs", "function containing mark %s starts on line %s (Go) but the XGo build reports entry line %s: %q", a[1], a[4], b[4], lineOf(srcs[i], a[4]))
			}
		}
		if vs[i] == nil && len(rm) != len(xm) {
			vs[i] = vk.Bad("behaviour-differs", "reference executed %d marks, xgo %d (this is C01's business)", len(rm), len(xm))
		}
	}
	return vs, st, nil
}

// blockDocBeforeDecl recognises the one known shape: the reported line holds only a /*...*/
// comment and the expected line, directly below, is a var/const/type declaration statement.
func blockDocBeforeDecl(src, reported, expected string) bool {
	var r, e int
	fmt.Sscan(reported, &r)
	fmt.Sscan(expected, &e)
	if r+1 != e {
		return false
	}
	c, d := lineOf(src, reported), lineOf(src, expected)
	return strings.HasPrefix(c, "/*") && strings.HasSuffix(c, "*/") &&
		(strings.HasPrefix(d, "var ") || strings.HasPrefix(d, "const ") || strings.HasPrefix(d, "type "))
}

func lineOf(src, n string) string {
	var k int
	fmt.Sscan(n, &k)
	lines := strings.Split(src, "\n")
	if k >= 1 && k <= len(lines) {
		return strings.TrimSpace(lines[k-1])
	}
	return ""
}

var tagCallRe = regexp.MustCompile(`\bt[sblm]?\("(g\d+)"`)

var traceRe = regexp.MustCompile(`(g\d+)@([^:,\s]+):(\d+)`)

// evalSugar: each traced tag must report the line where it is written.
func evalSugar(srcs []string) ([]*vk.Verdict, []stats, error) {
	vs := make([]*vk.Verdict, len(srcs))
	st := make([]stats, len(srcs))
	var progs []progrun.Prog
	for i, s := range srcs {
		g, v := compile(s)
		if v != nil {
			vs[i] = v
			continue
		}
		progs = append(progs, progrun.Prog{Name: fmt.Sprintf("x%04d", i), Files: map[string]string{"main.go": g}})
	}
	res, err := progrun.Run(progs, 10*time.Second)
	if err != nil {
		return nil, nil, err
	}
	for i, src := range srcs {
		if vs[i] != nil {
			continue
		}
		x := res[fmt.Sprintf("x%04d", i)]
		if x.BuildErr != "" {
			vs[i] = vk.Bad("does-not-compile", "go build of the XGo output: %s", x.BuildErr)
			continue
		}
		want := map[string]int{}
		for ln, l := range strings.Split(src, "\n") {
			for _, m := range tagCallRe.FindAllStringSubmatchIndex(l, -1) {
				tag := l[m[2]:m[3]]
				// only the first call written on a line is in the property's scope
				if callBefore.MatchString(l[:m[0]]) {
					st[i].later++
					continue
				}
				if _, dup := want[tag]; !dup {
					want[tag] = ln + 1
				}
			}
		}
		seen := map[string]bool{}
		for _, m := range traceRe.FindAllStringSubmatch(x.Stdout, -1) {
			seen[m[1]] = true
			var got int
			fmt.Sscan(m[3], &got)
			if m[2] != "bar.xgo" {
				vs[i] = vk.Bad("file-name", "traced call %s reports file %q, want bar.xgo", m[1], m[2])
				break
			}
			if _, ok := want[m[1]]; ok {
				st[i].first++
			}
			if w, ok := want[m[1]]; ok && w != got {
				vs[i] = vk.Bad("line-differs", "traced call %s is written on line %d of bar.xgo but reports line %d: %q", m[1], w, got, lineOf(src, fmt.Sprint(w)))
				break
			}
		}
		st[i] = stats{marks: len(seen), out: x.Stdout}
	}
	return vs, st, nil
}

var oracle = vk.Register("lines", func(c Case) *vk.Verdict {
	var vs []*vk.Verdict
	var err error
	if c.Kind == "sugar" {
		vs, _, err = evalSugar([]string{c.Src})
	} else {
		vs, _, err = evalGo([]string{c.Src})
	}
	if err != nil {
		return vk.Bad("infra", "%v", err)
	}
	return vs[0]
})

func handle(t *testing.T, kind string, srcs []string, vs []*vk.Verdict, st []stats) bool {
	r := vk.R
	failed := false
	for i, v := range vs {
		r.Case(st[i].marks >= 20 || st[i].first >= 8, srcs[i])
		r.Class("kind=" + kind)
		r.Add("marks_compared", int64(st[i].marks))
		r.Add("first_call_marks_compared", int64(st[i].first))
		r.Add("later_call_marks_skipped", int64(st[i].later))
		if i == 0 {
			r.Sample(srcs[i])
		}
		if v == nil {
			continue
		}
		switch v.Class {
		case "generator-bug":
			r.Infra("%s", v.Detail)
			t.Errorf("generator bug: %s", v.Detail)
			continue
		case "does-not-compile":
			if kind == "sugar" { // every sugar shape compiles (C02 shows it): a rejection here is a harness bug
				r.Infra("sugar program does not compile: %s", v.Detail)
				t.Errorf("sugar program does not compile: %s", v.Detail)
				continue
			}
			r.Rejected(v.Class)
			continue
		case "behaviour-differs":
			// not this property's business (C01/C02/C06 decide those); counted so that it is visible
			r.Rejected(v.Class)
			continue
		}
		if r.Judge(v) != nil {
			failed = true
			r.Fail("lines", Case{Kind: kind, Src: srcs[i]}, v)
			t.Errorf("%s", v)
		}
	}
	return failed
}

func TestGoPrograms(t *testing.T) {
	r := vk.R
	n := r.N(32, 640)
	g := gosub.GenOpt(gosub.Options{Marks: true, Layout: true})
	for start := 0; start < n; start += 32 {
		var srcs []string
		for i := start; i < start+32 && i < n; i++ {
			srcs = append(srcs, vk.Example(r, g, 1, i).Source())
		}
		vs, st, err := evalGo(srcs)
		if err != nil {
			r.Infra("%v", err)
			t.Fatalf("infra: %v", err)
		}
		if handle(t, "go", srcs, vs, st) {
			return
		}
	}
}

func TestSugarPrograms(t *testing.T) {
	r := vk.R
	n := r.N(24, 480)
	g := rapid.Custom(func(t *rapid.T) *xsugar.Program {
		gg := &xsugar.G{T: t, Flags: map[string]bool{}}
		p := xsugar.CollectionProgram(gg, 14)
		p.LineTrace = true
		return p
	})
	for start := 0; start < n; start += 24 {
		var srcs []string
		for i := start; i < start+24 && i < n; i++ {
			srcs = append(srcs, vk.Example(r, g, 2, i).XGo())
		}
		vs, st, err := evalSugar(srcs)
		if err != nil {
			r.Infra("%v", err)
			t.Fatalf("infra: %v", err)
		}
		if handle(t, "sugar", srcs, vs, st) {
			return
		}
	}
}

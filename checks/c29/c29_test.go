//go:build verif

// C29 — matching follows the TPL semantics documented in tpl/README.md: success or failure,
// tokens consumed and result tree equal those of a reference interpreter wherever the README
// determines them.
package c29

import (
	"fmt"
	"testing"
	"time"

	"github.com/goplus/xgo/tpl"
	"github.com/goplus/xgo/tpl/ast"
	"pgregory.net/rapid"

	"verif/internal/gen/tplgen"
	"verif/internal/gen/tplref"
	"verif/internal/vk"
)

func TestMain(m *testing.M) {
	vk.Main(m, "C29", "exploration",
		"(grammar, input) pairs: closed tplgen grammars of 1..4 rules (sequence, |, * + ?, %, ++, rule references, keywords, token classes INT IDENT STRING CHAR FLOAT QSTRING RAWSTRING, operators as STRING/CHAR/raw literals, \"\"), depth <= 3, kept only when the C28 analysis labels them terminating (no nullable repetition body, no left recursion; others counted under rejected) and tpl.New accepts them; inputs: a sampled derivation of the grammar, mostly perturbed by 1..2 edits (delete / insert / replace / duplicate / swap a token, add or remove the blank between two tokens), or 0..10 random tokens of the grammar's alphabet; no SPACE, no ret-procs. Oracle: reference PEG interpreter written from the README (internal/gen/tplref) over the token list of the TPL scanner. Strict comparison (success/failure, tokens consumed, result tree with token kind+literal+offset) on grammars where README ordered choice and the implementation's committed choice coincide (every Choice: no nullable option after the first, no option starting with a quoted keyword before an option starting with IDENT); on the other grammars only derivation validity: a successful match must return a tree that derives exactly the consumed tokens under the grammar, with greedy repetitions (where the body is strict) — failures are not judged there. Non-trivial = grammar with >= 3 operator kinds and an input that is a perturbed derivation or a complete match of >= 4 tokens; distinct = hash of (grammar, input)")
}

type Case struct {
	Grammar string `json:"grammar"`
	Input   string `json:"input"`
}

type info struct {
	rejected string
	strict   bool
	refOK    bool
	full     bool
	ntoks    int
	opKinds  int
}

// opKinds counts the operator kinds used by the rules reachable from the document rule.
func opKinds(g tplgen.Grammar, a *tplgen.Analysis) int {
	seen := map[string]bool{}
	for _, r := range g.Rules {
		if !a.Reachable[r.Name] {
			continue
		}
		tplgen.Walk(r.Expr, func(e ast.Expr) {
			switch e := e.(type) {
			case *ast.Sequence:
				seen["seq"] = true
			case *ast.Choice:
				seen["alt"] = true
			case *ast.UnaryExpr:
				seen["u"+e.Op.String()] = true
			case *ast.BinaryExpr:
				seen["b"+e.Op.String()] = true
			}
		})
	}
	return len(seen)
}

func evaluate(c Case) (v *vk.Verdict, in info) {
	g, err := tplgen.ParseGrammar(c.Grammar)
	if err != nil || len(g.Rules) == 0 {
		return vk.Bad("harness", "grammar text does not parse: %v", err), in
	}
	ref := tplref.New(g)
	if !ref.A.Terminating() {
		in.rejected = "not-terminating-by-analysis"
		return nil, in
	}
	usesSpace := false
	for _, r := range g.Rules {
		tplgen.Walk(r.Expr, func(e ast.Expr) {
			if id, ok := e.(*ast.Ident); ok && id.Name == "SPACE" {
				usesSpace = true
			}
		})
	}
	if usesSpace {
		in.rejected = "uses-SPACE"
		return nil, in
	}
	tpl.ShowConflict(false)
	cl, err := tpl.New(c.Grammar)
	if err != nil {
		in.rejected = "does-not-compile"
		return nil, in
	}
	in.opKinds = opKinds(g, ref.A)
	toks := tplref.Scan(c.Input)
	in.ntoks = len(toks)
	wantOK, wantN, wantTree, fuel := refMatch(ref, toks)
	if !fuel {
		in.rejected = "reference-out-of-fuel"
		return nil, in
	}
	in.refOK = wantOK
	in.full = wantOK && (wantN == len(toks) || wantN == len(toks)-1 && toks[len(toks)-1].Lit == "\n")
	in.strict = ref.A.StrictExpr(ref.Doc)

	ms, got, err := cl.Match("", c.Input, nil)
	if !in.strict {
		if err != nil {
			return nil, in
		}
		if verr := ref.Valid(ref.Doc, toks, 0, ms.N, got); verr != nil {
			return vk.Bad("invalid-derivation", "Match(%q) succeeded with n=%d, result %s, which is not a derivation under the grammar: %v", c.Input, ms.N, tplref.Render(got), verr), in
		}
		return nil, in
	}
	switch {
	case wantOK && err != nil:
		return vk.Bad("rejects-matching-input", "README semantics match %d token(s) of %q with result %s; Match fails: %v", wantN, c.Input, tplref.Render(wantTree), err), in
	case !wantOK && err == nil:
		return vk.Bad("accepts-non-matching-input", "README semantics do not match %q; Match succeeds with n=%d result %s", c.Input, ms.N, tplref.Render(got)), in
	case !wantOK:
		return nil, in
	}
	if ms.N != wantN {
		return vk.Bad("consumed-mismatch", "Match(%q) consumed %d token(s), README semantics %d; results %s vs %s", c.Input, ms.N, wantN, tplref.Render(got), tplref.Render(wantTree)), in
	}
	if g, w := tplref.Render(got), tplref.Render(wantTree); g != w {
		return vk.Bad("tree-mismatch", "Match(%q):\n got  %s\n want %s", c.Input, g, w), in
	}
	return nil, in
}

// refMatch runs the reference; fuel is false when it gave up (exponential backtracking on a
// long input: the implementation would take as long).
func refMatch(ref *tplref.Interp, toks []*tplref.Tok) (ok bool, n int, tree any, fuel bool) {
	defer func() {
		if p := recover(); p != nil {
			if s, isStr := p.(string); isStr && s == tplref.OutOfFuel {
				fuel = false
				return
			}
			panic(p)
		}
	}()
	ok, n, tree = ref.Match(toks)
	return ok, n, tree, true
}

var oracle = vk.Register("match", func(c Case) *vk.Verdict { v, _ := evaluate(c); return v })

type failer interface {
	Fatalf(string, ...any)
	Helper()
}

func run(t failer, c Case, nearMiss bool, classes ...string) {
	var in info
	v := vk.R.Guard("match", c, 20*time.Second, func() (v *vk.Verdict) {
		defer func() {
			if p := recover(); p != nil {
				v = vk.Bad("panic", "%v", p)
			}
		}()
		v, in = evaluate(c)
		return
	})
	if in.rejected != "" {
		vk.R.Rejected(in.rejected)
		vk.R.Case(false, "")
		return
	}
	nt := in.opKinds >= 3 && (nearMiss || in.full && in.ntoks >= 4)
	vk.R.Case(nt, c.Grammar+"\x00"+c.Input)
	for _, cl := range classes {
		vk.R.Class(cl)
	}
	mode := "oracle=derivation-validity"
	if in.strict {
		mode = "oracle=strict"
	}
	vk.R.Class(mode)
	switch {
	case in.full:
		vk.R.Class(mode + " ref=full-match")
	case in.refOK:
		vk.R.Class(mode + " ref=prefix-match")
	default:
		vk.R.Class(mode + " ref=no-match")
	}
	vk.R.Class(fmt.Sprintf("op-kinds=%d", in.opKinds))
	if nt {
		vk.R.Sample(c.Grammar + "---\n" + c.Input)
	}
	vk.R.Check(t, "match", c, v)
}

func TestMatching(t *testing.T) {
	tpl.ShowConflict(false)
	base := tplgen.MatchGrammar(4, 3)
	vk.R.Rapid(t, 1, 55000, 1800000, func(t *rapid.T) { // about 55% of the draws pass the analysis and compile
		g := base.Draw(t, "grammar")
		a := tplgen.Analyze(g)
		if !a.Terminating() {
			vk.R.Rejected("not-terminating-by-analysis")
			vk.R.Case(false, "")
			return
		}
		alphabet := tplgen.Alphabet(g)
		var in []tplgen.InTok
		near := false
		classes := []string{}
		switch rapid.IntRange(0, 5).Draw(t, "input") {
		case 0:
			in = tplgen.RandomInput(t, alphabet, 10)
			classes = append(classes, "input=alphabet")
		case 1:
			in = tplgen.Derive(t, g, 4)
			classes = append(classes, "input=derivation")
		default:
			in = tplgen.Derive(t, g, 4)
			for i, n := 0, rapid.IntRange(1, 2).Draw(t, "edits"); i < n; i++ {
				var how string
				in, how = tplgen.Perturb(t, in, alphabet)
				classes = append(classes, "edit="+how)
			}
			near = true
			classes = append(classes, "input=perturbed-derivation")
		}
		if len(in) > 12 {
			in = in[:12]
		}
		run(t, Case{Grammar: g.Source(), Input: tplgen.JoinInput(in)}, near, classes...)
	})
}

var fixed = []Case{
	{"expr = INT % \",\"\n", "1, 2, 3"},
	{"expr = INT % \",\"\n", "1, 2,"},
	{"doc = IDENT ++ RAWSTRING\n", "tpl`a`"},
	{"doc = IDENT ++ RAWSTRING\n", "tpl `a`"},
	{"doc = IDENT ++ RAWSTRING\n", "tpl\"a\""},
	{"expr = operand % (\"*\" | \"/\") % (\"+\" | \"-\")\noperand = basicLit | unaryExpr\nunaryExpr = \"-\" operand\nbasicLit = INT | FLOAT\n", "1 + 2 * -3"},
	{"a = \"x\" \"b\" | ?\"c\"\n", "x d"},
	{"a = \"x\" \"b\" | IDENT\n", "x d"},
	{"a = *(INT \",\") INT\n", "1 , 2 , 3"},
	{"a = ?INT IDENT | INT INT\n", "1 2"},
	{"a = +(\"if\" INT) ?\"else\"\n", "if 1 if 2 else"},
	{"a = (INT | IDENT) ++ (\"+\" | \"-\") ++ INT\n", "x+1"},
	{"a = \"\" INT \"\"\n", "7"},
	{"a = QSTRING | RAWSTRING\n", "`r`"},
	{"a = *b \";\"\nb = INT | CHAR\n", "1 'c' 2"},
}

func TestFixed(t *testing.T) {
	if vk.R.Shard != 0 {
		return
	}
	for _, c := range fixed {
		run(t, c, false, "src=fixed")
	}
}

// Package nearmiss derives near-miss invalid (or still valid) programs from valid XGo/Go text by
// token-aware edits: type-changing literal swaps, identifier swaps, dropped/duplicated lines and
// arguments, misplaced branch statements, := / = confusion, undefined names, removed uses.
package nearmiss

import (
	"strings"

	"github.com/goplus/xgo/token"
	"pgregory.net/rapid"

	"verif/internal/gen/lex"
)

// Ops lists the mutation operators (the label is reported in the evidence).
var Ops = []string{"swap-idents", "lit-kind", "delete-line", "dup-line", "drop-use", "undefined-name", "insert-branch",
	"define-assign", "drop-arg", "swap-lines", "dup-decl-name", "replace-ident-by-literal", "delete-token", "wrap-unused-result", "dup-case-entry"}

// Mutate applies one drawn operator; it returns the mutant and the operator name ("" if the
// operator was not applicable and the text is unchanged).
func Mutate(t *rapid.T, src string) (string, string) {
	op := Ops[rapid.IntRange(0, len(Ops)-1).Draw(t, "op")]
	out := apply(t, src, op)
	if out == src {
		return src, ""
	}
	return out, op
}

func pick(t *rapid.T, n int, label string) int {
	if n <= 1 {
		return 0
	}
	return rapid.IntRange(0, n-1).Draw(t, label)
}

func idents(toks []lex.Tok) []int {
	var out []int
	for i, tk := range toks {
		if tk.Tok == token.IDENT && tk.Lit != "_" {
			out = append(out, i)
		}
	}
	return out
}

func replaceTok(src string, tk lex.Tok, with string) string {
	end := tk.Off + len(tk.Lit)
	if tk.Lit == "" {
		end = tk.Off + len(tk.Tok.String())
	}
	if end > len(src) {
		return src
	}
	return src[:tk.Off] + with + src[end:]
}

func apply(t *rapid.T, src, op string) string {
	lines := strings.Split(src, "\n")
	toks := lex.Scan([]byte(src))
	switch op {
	case "swap-idents":
		ids := idents(toks)
		if len(ids) < 2 {
			return src
		}
		a, b := toks[ids[pick(t, len(ids), "a")]], toks[ids[pick(t, len(ids), "b")]]
		if a.Lit == b.Lit {
			return src
		}
		return replaceTok(src, a, b.Lit)
	case "lit-kind":
		var lits []int
		for i, tk := range toks {
			if tk.Tok == token.INT || tk.Tok == token.STRING || tk.Tok == token.FLOAT || tk.Tok == token.CHAR {
				lits = append(lits, i)
			}
		}
		if len(lits) == 0 {
			return src
		}
		tk := toks[lits[pick(t, len(lits), "lit")]]
		with := map[token.Token][]string{token.INT: {`"s"`, "2.5", "true", "nil", "'c'", "1e400", "-1"}, token.STRING: {"7", "nil", "'c'", "2.5"},
			token.FLOAT: {`"f"`, "3", "1e999"}, token.CHAR: {`"cc"`, "300"}}[tk.Tok]
		return replaceTok(src, tk, with[pick(t, len(with), "with")])
	case "delete-line", "dup-line", "swap-lines":
		var cand []int
		for i, l := range lines {
			tl := strings.TrimSpace(l)
			if tl != "" && !strings.HasPrefix(tl, "//") && !strings.HasPrefix(tl, "package") && tl != "}" && tl != ")" {
				cand = append(cand, i)
			}
		}
		if len(cand) < 2 {
			return src
		}
		i := cand[pick(t, len(cand), "line")]
		switch op {
		case "delete-line":
			lines = append(lines[:i:i], lines[i+1:]...)
		case "dup-line":
			lines = append(lines[:i+1:i+1], append([]string{lines[i]}, lines[i+1:]...)...)
		default:
			j := cand[pick(t, len(cand), "line2")]
			lines[i], lines[j] = lines[j], lines[i]
		}
		return strings.Join(lines, "\n")
	case "dup-case-entry":
		// `case A, B:` becomes `case A, B, A:` (or the whole clause head is repeated as a new empty
		// clause): a duplicate case in an expression switch or a type switch
		var cand []int
		for i, l := range lines {
			tl := strings.TrimSpace(l)
			if strings.HasPrefix(tl, "case ") && strings.HasSuffix(tl, ":") && !strings.Contains(tl, "<-") {
				cand = append(cand, i)
			}
		}
		if len(cand) == 0 {
			return src
		}
		// clauses of type switches (the nearest enclosing `switch … .(type) {` with a smaller indent)
		// are drawn half of the time when there are any: duplicates of unnamed composite types are
		// detected by other code than duplicates of constants
		var inTypeSwitch []int
		for _, i := range cand {
			ind := len(lines[i]) - len(strings.TrimLeft(lines[i], " \t"))
			for j := i - 1; j >= 0; j-- {
				tl := strings.TrimSpace(lines[j])
				if strings.HasPrefix(tl, "switch ") && len(lines[j])-len(strings.TrimLeft(lines[j], " \t")) <= ind {
					if strings.Contains(tl, ".(type)") {
						inTypeSwitch = append(inTypeSwitch, i)
					}
					break
				}
			}
		}
		if len(inTypeSwitch) > 0 && pick(t, 2, "typeswitch") == 0 {
			cand = inTypeSwitch
		}
		i := cand[pick(t, len(cand), "line")]
		tl := strings.TrimSpace(lines[i])
		list := strings.TrimSuffix(strings.TrimPrefix(tl, "case "), ":")
		first := list
		if j := strings.Index(list, ", "); j >= 0 && !strings.ContainsAny(list[:j], "([{\"") {
			first = list[:j]
		}
		ind := lines[i][:len(lines[i])-len(strings.TrimLeft(lines[i], " \t"))]
		if pick(t, 2, "how") == 0 {
			lines[i] = ind + "case " + list + ", " + first + ":"
		} else {
			lines = append(lines[:i:i], append([]string{ind + "case " + first + ":"}, lines[i:]...)...)
		}
		return strings.Join(lines, "\n")
	case "drop-use":
		var cand []int
		for i, l := range lines {
			if strings.HasPrefix(strings.TrimSpace(l), "_ = ") || strings.HasPrefix(strings.TrimSpace(l), "_, _ = ") {
				cand = append(cand, i)
			}
		}
		if len(cand) == 0 {
			return src
		}
		i := cand[pick(t, len(cand), "line")]
		lines = append(lines[:i:i], lines[i+1:]...)
		return strings.Join(lines, "\n")
	case "undefined-name":
		ids := idents(toks)
		if len(ids) == 0 {
			return src
		}
		return replaceTok(src, toks[ids[pick(t, len(ids), "a")]], []string{"undefinedName", "Undef", "zz9"}[pick(t, 3, "n")])
	case "insert-branch":
		var cand []int
		for i, l := range lines {
			if strings.HasSuffix(strings.TrimSpace(l), "{") || strings.HasPrefix(strings.TrimSpace(l), "fmt.") {
				cand = append(cand, i)
			}
		}
		if len(cand) == 0 {
			return src
		}
		i := cand[pick(t, len(cand), "line")]
		stmt := []string{"break", "continue", "fallthrough", "return 1", "return", "goto nowhere", "break nolabel", "defer 1", "go 2", "x++", "var (", "L9:", "panic()"}[pick(t, 13, "stmt")]
		lines = append(lines[:i+1:i+1], append([]string{stmt}, lines[i+1:]...)...)
		return strings.Join(lines, "\n")
	case "define-assign":
		var cand []int
		for i, tk := range toks {
			if tk.Tok == token.DEFINE || tk.Tok == token.ASSIGN {
				cand = append(cand, i)
			}
		}
		if len(cand) == 0 {
			return src
		}
		tk := toks[cand[pick(t, len(cand), "tok")]]
		if tk.Tok == token.DEFINE {
			return replaceTok(src, tk, "=")
		}
		return replaceTok(src, tk, ":=")
	case "drop-arg":
		var cand []int
		for i, tk := range toks {
			if tk.Tok == token.COMMA {
				cand = append(cand, i)
			}
		}
		if len(cand) == 0 {
			return src
		}
		i := cand[pick(t, len(cand), "comma")]
		// delete from this comma up to (not including) the next , ) ] } at the same nesting
		depth := 0
		for j := i + 1; j < len(toks); j++ {
			switch toks[j].Tok {
			case token.LPAREN, token.LBRACK, token.LBRACE:
				depth++
			case token.RPAREN, token.RBRACK, token.RBRACE:
				if depth == 0 {
					return src[:toks[i].Off] + src[toks[j].Off:]
				}
				depth--
			case token.COMMA:
				if depth == 0 {
					return src[:toks[i].Off] + src[toks[j].Off:]
				}
			case token.SEMICOLON:
				return src
			}
		}
		return src
	case "dup-decl-name":
		// rename a declared name (after func / type / var / const) to another declared name
		var decl []int
		for i := 1; i < len(toks); i++ {
			if toks[i].Tok == token.IDENT && (toks[i-1].Tok == token.FUNC || toks[i-1].Tok == token.TYPE || toks[i-1].Tok == token.VAR || toks[i-1].Tok == token.CONST) {
				decl = append(decl, i)
			}
		}
		if len(decl) < 2 {
			return src
		}
		a, b := toks[decl[pick(t, len(decl), "a")]], toks[decl[pick(t, len(decl), "b")]]
		if a.Lit == b.Lit {
			return src
		}
		return replaceTok(src, a, b.Lit)
	case "replace-ident-by-literal":
		ids := idents(toks)
		if len(ids) == 0 {
			return src
		}
		return replaceTok(src, toks[ids[pick(t, len(ids), "a")]], []string{"1", `"s"`, "nil", "true", "2.5", "int", "string", "[]int{1}", "struct{}{}"}[pick(t, 9, "lit")])
	case "delete-token":
		if len(toks) == 0 {
			return src
		}
		tk := toks[pick(t, len(toks), "tok")]
		if tk.Tok == token.SEMICOLON && tk.Lit == "\n" {
			return src
		}
		return replaceTok(src, tk, "")
	case "wrap-unused-result":
		// turn `x := expr` / `x = expr` lines into bare `expr` (unused result / not a statement)
		var cand []int
		for i, l := range lines {
			if strings.Contains(l, " := ") || strings.Contains(l, " = ") {
				cand = append(cand, i)
			}
		}
		if len(cand) == 0 {
			return src
		}
		i := cand[pick(t, len(cand), "line")]
		l := lines[i]
		k := strings.Index(l, "= ")
		lines[i] = l[:len(l)-len(strings.TrimLeft(l, "\t "))] + l[k+2:]
		return strings.Join(lines, "\n")
	}
	return src
}

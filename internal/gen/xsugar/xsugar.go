// Package xsugar generates XGo-specific constructs together with the explicit Go code the
// documentation says they mean (doc/docs.md, doc/overload.md, doc/classfile.md). A generated
// Program renders twice: as an .xgo file and as the reference Go program; both print the same
// lines when the sugar is lowered as documented. Sub-expressions contain traced calls
// t("tag", v) so that evaluation order and multiplicity are observable.
package xsugar

import (
	"fmt"
	"strings"

	"pgregory.net/rapid"
)

// Item is one construct rendered in both languages. X and G are statement lists (the body of
// the item's own function).
type Item struct {
	Kind       string
	X, G       string
	Key        string // canonical spec for distinctness
	NonTrivial bool
	Labels     []string
	DeclX      string // top-level declarations this item needs, XGo side
	DeclG      string // same, Go side
}

// Program is a list of items plus optional extra top-level declarations per language.
type Program struct {
	LineTrace bool // traced helpers record "tag@file:line" of their caller (C09)
	Items     []Item
	DeclsX    []string // extra top-level declarations, XGo side
	DeclsG    []string // extra top-level declarations, Go side
}

const prelude = `
var trace []string

func t(tag string, v int) int {
	trace = append(trace, tag)
	return v
}

func ts(tag string, v string) string {
	trace = append(trace, tag)
	return v
}

func tb(tag string, v bool) bool {
	trace = append(trace, tag)
	return v
}

func tl(tag string, v []int) []int {
	trace = append(trace, tag)
	return v
}

func tm(tag string, v map[string]int) map[string]int {
	trace = append(trace, tag)
	return v
}

func flush(sorted bool) {
	if sorted {
		sort.Strings(trace)
	}
	fmt.Println("  trace:", strings.Join(trace, ","))
	trace = nil
}

func mk(n int) []int {
	var r []int
	for i := 0; i < n; i++ {
		r = append(r, i*2+1)
	}
	return r
}

func sorted(a []int) []int {
	b := append([]int(nil), a...)
	sort.Ints(b)
	return b
}

func sortedS(a []string) []string {
	b := append([]string(nil), a...)
	sort.Strings(b)
	return b
}

type rec struct {
	nm string
	sc int
}

type size2 struct {
	W, H int
}

type box struct {
	items []int
	tags  []string
}
`

func lineTracePrelude() string {
	p := prelude
	for _, fn := range []string{"t", "ts", "tb", "tl", "tm"} {
		p = strings.Replace(p, "func "+fn+"(tag string, v ", "func "+fn+"(tag0 string, v ", 1)
	}
	p = strings.ReplaceAll(p, "\ttrace = append(trace, tag)\n", "\ttrace = append(trace, where(tag0))\n")
	return p + `
func where(tag string) string {
	_, file, line, _ := runtime.Caller(2)
	return fmt.Sprintf("%s@%s:%d", tag, filepath.Base(file), line)
}
`
}

func render(items []Item, decls []string, xgo bool) string { return renderP(items, decls, xgo, false) }

func renderP(items []Item, decls []string, xgo bool, lineTrace bool) string {
	var b strings.Builder
	extraImports := ""
	if lineTrace {
		extraImports = "\t\"path/filepath\"\n\t\"runtime\"\n"
	}
	b.WriteString("package main\n\nimport (\n\t\"errors\"\n\t\"fmt\"\n" + extraImports + "\t\"sort\"\n\t\"strconv\"\n\t\"strings\"\n)\n\nvar _ = errors.New\nvar _ = strconv.Itoa\n")
	extra := strings.Join(decls, "\n\n")
	all := extra
	for _, it := range items {
		if xgo {
			all += it.X
		} else {
			all += it.G
		}
	}
	_ = all
	if lineTrace {
		b.WriteString(lineTracePrelude())
	} else {
		b.WriteString(prelude)
	}
	if extra != "" {
		b.WriteString("\n" + extra + "\n")
	}
	for i, it := range items {
		body, decl := it.G, it.DeclG
		if xgo {
			body, decl = it.X, it.DeclX
		}
		fmt.Fprintf(&b, "\n// @item %d\n", i)
		if decl != "" {
			b.WriteString(strings.TrimSpace(decl) + "\n")
		}
		fmt.Fprintf(&b, "\nfunc item%d() {\n\tfmt.Println(\"item %d %s\")\n%s\n}\n", i, i, it.Kind, indent(body))
	}
	b.WriteString("\nfunc main() {\n")
	for i := range items {
		fmt.Fprintf(&b, "\titem%d()\n", i)
	}
	b.WriteString("}\n")
	return b.String()
}

// XGo renders the .xgo file.
func (p *Program) XGo() string { return renderP(p.Items, p.DeclsX, true, p.LineTrace) }

// Go renders the reference program.
func (p *Program) Go() string { return renderP(p.Items, p.DeclsG, false, p.LineTrace) }

func indent(s string) string {
	lines := strings.Split(strings.TrimRight(s, "\n"), "\n")
	for i, l := range lines {
		if l != "" {
			lines[i] = "\t" + l
		}
	}
	return strings.Join(lines, "\n")
}

// G is the drawing context shared by all item generators.
type G struct {
	T     *rapid.T
	Flags map[string]bool // per-program generator state
	ntag  int
	nvar  int
}

func (g *G) Intn(n int, label string) int {
	if n <= 1 {
		return 0
	}
	return rapid.IntRange(0, n-1).Draw(g.T, label)
}

func (g *G) Chance(pct int, label string) bool { return g.Intn(100, label) < pct }

func (g *G) Tag() string { g.ntag++; return fmt.Sprintf("g%d", g.ntag) }

func (g *G) Var(p string) string { g.nvar++; return fmt.Sprintf("%s%d", p, g.nvar) }

// IntExpr draws a pure-or-traced int expression over the given int variables. The text is
// identical in both languages.
func (g *G) IntExpr(vars []string, d int) string {
	if d <= 0 || g.Chance(35, "leaf") {
		if len(vars) > 0 && g.Chance(70, "var") {
			return vars[g.Intn(len(vars), "vi")]
		}
		return fmt.Sprint(g.Intn(10, "lit"))
	}
	switch g.Intn(7, "iop") {
	case 0:
		return "(" + g.IntExpr(vars, d-1) + " + " + g.IntExpr(vars, d-1) + ")"
	case 1:
		return "(" + g.IntExpr(vars, d-1) + " * " + g.IntExpr(vars, d-1) + ")"
	case 2:
		return "(" + g.IntExpr(vars, d-1) + " - " + g.IntExpr(vars, d-1) + ")"
	case 3:
		return "(" + g.IntExpr(vars, d-1) + " % 3)"
	case 4, 5:
		return fmt.Sprintf("t(%q, %s)", g.Tag(), g.IntExpr(vars, d-1))
	}
	return "(" + g.IntExpr(vars, d-1) + " / 2)"
}

// BoolExpr draws a condition over int variables.
func (g *G) BoolExpr(vars []string, d int) string {
	switch g.Intn(6, "bop") {
	case 0:
		return "(" + g.IntExpr(vars, d-1) + " > " + g.IntExpr(vars, d-1) + ")"
	case 1:
		return "(" + g.IntExpr(vars, d-1) + "%2 == 0)"
	case 2:
		return fmt.Sprintf("tb(%q, %s != %s)", g.Tag(), g.IntExpr(vars, d-1), g.IntExpr(vars, d-1))
	case 3:
		return "(" + g.IntExpr(vars, d-1) + " <= " + g.IntExpr(vars, d-1) + ")"
	case 4:
		return "(" + g.IntExpr(vars, d-1) + " < 6 && " + g.IntExpr(vars, d-1) + " != 3)"
	}
	return "(" + g.IntExpr(vars, d-1) + "%3 != 1)"
}

// IntList draws an []int container: returns the XGo and the Go spelling.
func (g *G) IntList(vars []string, traced bool) (x, gg string) {
	n := g.Intn(6, "n")
	var el []string
	for i := 0; i < n; i++ {
		el = append(el, g.IntExpr(vars, 1))
	}
	switch g.Intn(4, "lform") {
	case 0:
		k := g.Intn(5, "mk")
		x, gg = fmt.Sprintf("mk(%d)", k), fmt.Sprintf("mk(%d)", k)
	default:
		x, gg = "["+strings.Join(el, ", ")+"]", "[]int{"+strings.Join(el, ", ")+"}"
		if n == 0 {
			x = "[]int{}" // `[]` alone is []any by the docs; an empty int list is spelled the Go way
		}
	}
	if traced && g.Chance(40, "tl") {
		tag := g.Tag()
		x, gg = fmt.Sprintf("tl(%q, %s)", tag, x), fmt.Sprintf("tl(%q, %s)", tag, gg)
	}
	return
}

// StrMap draws a map[string]int container.
func (g *G) StrMap(vars []string) (x, gg string) {
	n := g.Intn(5, "n")
	var ex, eg []string
	for i := 0; i < n; i++ {
		v := g.IntExpr(vars, 1)
		ex = append(ex, fmt.Sprintf("%q: %s", fmt.Sprintf("k%d", i), v))
		eg = append(eg, fmt.Sprintf("%q: %s", fmt.Sprintf("k%d", i), v))
	}
	if n == 0 {
		return "map[string]int{}", "map[string]int{}"
	}
	return "{" + strings.Join(ex, ", ") + "}", "map[string]int{" + strings.Join(eg, ", ") + "}"
}

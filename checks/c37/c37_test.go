//go:build verif

// C37 — Go/XGo declaration trees convert without loss (ast/fromgo + ast/togo).
package c37

import (
	"bytes"
	"fmt"
	goast "go/ast"
	goparser "go/parser"
	"go/printer"
	gotoken "go/token"
	"reflect"
	"runtime/debug"
	"sort"
	"strings"
	"testing"

	"github.com/goplus/xgo/ast/fromgo"
	"github.com/goplus/xgo/ast/togo"
	"pgregory.net/rapid"

	"verif/internal/gen/godecl"
	"verif/internal/gen/lex"
	"verif/internal/vk"
)

func TestMain(m *testing.M) {
	vk.Main(m, "C37", "exploration",
		"Go files = every .go file of the repository (verbatim) + files from a declaration-heavy text generator (generic funcs/types, type-set interfaces, embedded fields, tags, channels of every direction, variadics, array lengths, iota blocks, methods with value/pointer/anonymous/generic receivers, composite and func literals as initial values) + token-level mutants of repository .go files; a file go/parser rejects is outside the quantifier (rejected). Oracle (inverse): togo.ASTFile(fromgo.ASTFile(f)) must give the same package name and, declaration by declaration, the same go/printer text as the original once func bodies are removed and FuncLit bodies emptied on both sides (the documented contract is that bodies are not kept) and comments are not parsed. If the whole-file conversion panics each declaration is converted alone so that the failing one is classified. Non-trivial = the file has a type parameter list, an interface with an embedded element or union, a struct tag or a method; distinct = hash of the printed original headers")
}

type Case struct {
	Src  vk.Bytes `json:"src"`
	File string   `json:"file,omitempty"` // informational: corpus path
}

type info struct {
	tolerated int
	rejected  string
	feats     map[string]bool
	kinds     map[string]int
	key       string
	ndecl     int
}

// ---- printing of headers ---------------------------------------------------------------------

// stripBodies removes what the conversion is documented not to keep: the body of every function
// declaration is dropped (a header is what precedes it), bodies of function literals are emptied.
func stripBodies(d goast.Decl) {
	goast.Inspect(d, func(n goast.Node) bool {
		switch x := n.(type) {
		case *goast.FuncDecl:
			x.Body = nil
		case *goast.FuncLit:
			x.Body = &goast.BlockStmt{}
		}
		return true
	})
}

func printDecl(fset *gotoken.FileSet, d goast.Decl) (s string, err error) {
	defer func() {
		if p := recover(); p != nil {
			err = fmt.Errorf("go/printer panicked: %v", p)
		}
	}()
	var b bytes.Buffer
	cfg := printer.Config{Mode: printer.UseSpaces | printer.TabIndent, Tabwidth: 8}
	if err := cfg.Fprint(&b, fset, d); err != nil {
		return "", err
	}
	return b.String(), nil
}

// dropTypeParams removes every type parameter list of a declaration (used only to explain a
// mismatch, after the original has been printed).
func dropTypeParams(d goast.Decl) (funcs, types int) {
	switch x := d.(type) {
	case *goast.FuncDecl:
		if x.Type.TypeParams != nil {
			x.Type.TypeParams = nil
			funcs++
		}
	case *goast.GenDecl:
		for _, s := range x.Specs {
			if ts, ok := s.(*goast.TypeSpec); ok && ts.TypeParams != nil {
				ts.TypeParams = nil
				types++
			}
		}
	}
	return
}

// ---- conversion ------------------------------------------------------------------------------

func convert(f *goast.File) (out *goast.File, stage string, panicked any) {
	stage = "fromgo"
	defer func() {
		if p := recover(); p != nil {
			panicked = p
		}
	}()
	x := fromgo.ASTFile(f, 0)
	stage = "togo"
	out = togo.ASTFile(x, 0)
	stage = ""
	return
}

// severity of verdict classes: the least expected first, so that a known root cause in one
// declaration never hides a different failure in another declaration of the same file.
var classRank = map[string]int{"header-mismatch": 0, "decl-count": 0, "package-name": 0, "print-error": 0, "fromgo-panic": 1, "togo-panic": 1,
	"togo-indexlistexpr-panic": 5, "togo-func-typeparams-dropped": 6, "togo-type-typeparams-dropped": 7}

type verdicts struct {
	best      *vk.Verdict
	tolerated int // declarations equal only modulo the empty-Names artefact
}

func (vs *verdicts) add(v *vk.Verdict) {
	if v == nil {
		return
	}
	if vs.best == nil || classRank[v.Class] < classRank[vs.best.Class] {
		vs.best = v
	}
}

func panicVerdict(stage string, p any, what string) *vk.Verdict {
	msg := fmt.Sprint(p)
	if stage == "togo" && strings.Contains(msg, "goExpr: unknown expr") && strings.Contains(msg, "IndexListExpr") {
		return vk.Bad("togo-indexlistexpr-panic", "%s: togo.ASTFile panics: %s", what, strings.TrimSpace(msg))
	}
	return vk.Bad(stage+"-panic", "%s: %s.ASTFile panics: %s", what, stage, strings.TrimSpace(msg))
}

// nilEmptyNames turns empty non-nil Field.Names slices into nil (go/ast documents "or nil" for
// unnamed parameters and embedded fields and go/printer tests Names == nil).
func nilEmptyNames(d goast.Decl) (n int) {
	goast.Inspect(d, func(x goast.Node) bool {
		if f, ok := x.(*goast.Field); ok && f.Names != nil && len(f.Names) == 0 {
			f.Names = nil
			n++
		}
		return true
	})
	return
}

// compareDecl compares one declaration. When the texts differ it applies, one after the other,
// the repairs that correspond to already understood root causes; every repair that was needed
// yields its own verdict and whatever difference is left after all of them is a header-mismatch.
func compareDecl(fset *gotoken.FileSet, i int, orig, back goast.Decl, vs *verdicts) {
	stripBodies(orig)
	stripBodies(back)
	want, err := printDecl(fset, orig)
	if err != nil {
		return // go/printer cannot print the original: nothing to compare with
	}
	got, err := printDecl(fset, back)
	if err != nil {
		vs.add(vk.Bad("print-error", "declaration %d: go/printer fails on the converted declaration: %v\noriginal:\n%s", i, err, want))
		return
	}
	if got == want {
		return
	}
	want0, got0 := want, got
	// An unnamed parameter/result/embedded field comes back with an empty non-nil Names slice
	// (gopIdents/goIdents), which go/printer shows as `func f() (int)` for `func f() int`. The
	// repository's own pinned tests expect exactly that text (ast/togo TestBasic, ast/fromgo
	// TestMethod), and names and types are intact, so the comparison is made modulo it.
	if nilEmptyNames(back) > 0 {
		if g2, err := printDecl(fset, back); err == nil && g2 != got {
			vs.tolerated++
			got = g2
		}
	}
	if got == want {
		return
	}
	if nf, nt := dropTypeParams(orig); nf+nt > 0 {
		if w2, err := printDecl(fset, orig); err == nil && w2 == got {
			if nf > 0 {
				vs.add(vk.Bad("togo-func-typeparams-dropped", "declaration %d: type parameters of the function are lost\noriginal:  %s\nconverted: %s", i, want0, got0))
			} else {
				vs.add(vk.Bad("togo-type-typeparams-dropped", "declaration %d: type parameters of the type are lost\noriginal:  %s\nconverted: %s", i, want0, got0))
			}
			return
		}
	}
	vs.add(vk.Bad("header-mismatch", "declaration %d prints differently after fromgo+togo\noriginal:  %s\nconverted: %s", i, want0, got0))
}

func roundtrip(c Case) (*vk.Verdict, info) {
	in := info{feats: map[string]bool{}, kinds: map[string]int{}}
	fset := gotoken.NewFileSet()
	f, err := goparser.ParseFile(fset, "x.go", []byte(c.Src), goparser.SkipObjectResolution)
	if err != nil {
		in.rejected = "go-parse-error"
		return nil, in
	}
	in.ndecl = len(f.Decls)
	features(f, &in)

	var vs verdicts
	back, stage, p := convert(f)
	if p == nil {
		if back == nil {
			return vk.Bad("header-mismatch", "togo.ASTFile returned nil"), in
		}
		if back.Name == nil || back.Name.Name != f.Name.Name {
			vs.add(vk.Bad("package-name", "package name %q became %v", f.Name.Name, back.Name))
		}
		if len(back.Decls) != len(f.Decls) {
			return vk.Bad("decl-count", "%d declarations became %d", len(f.Decls), len(back.Decls)), in
		}
		var key strings.Builder
		for i, d := range f.Decls {
			compareDecl(fset, i, d, back.Decls[i], &vs)
			if s, err := printDecl(fset, d); err == nil { // d has been stripped by compareDecl
				key.WriteString(s)
				key.WriteByte('\n')
			}
		}
		in.key = key.String()
		in.tolerated = vs.tolerated
		return vs.best, in
	}
	// The whole-file conversion panicked: convert every declaration alone to find and classify
	// the failing ones, and still compare all the others.
	whole := panicVerdict(stage, p, "whole file")
	located := false
	var key strings.Builder
	for i, d := range f.Decls {
		one := &goast.File{Package: f.Package, Name: f.Name, Decls: []goast.Decl{d}}
		b1, st, p1 := convert(one)
		if p1 != nil {
			located = true
			vs.add(panicVerdict(st, p1, fmt.Sprintf("declaration %d (%s)", i, firstLine(fset, d))))
		} else if b1 == nil || len(b1.Decls) != 1 {
			vs.add(vk.Bad("decl-count", "declaration %d converted alone gives %d declarations", i, len(b1.Decls)))
		} else {
			compareDecl(fset, i, d, b1.Decls[0], &vs)
		}
		stripBodies(d)
		if s, err := printDecl(fset, d); err == nil {
			key.WriteString(s)
			key.WriteByte('\n')
		}
	}
	in.key = key.String()
	if !located {
		vs.add(whole)
	}
	in.tolerated = vs.tolerated
	return vs.best, in
}

func firstLine(fset *gotoken.FileSet, d goast.Decl) string {
	c := d
	if fd, ok := d.(*goast.FuncDecl); ok {
		cp := *fd
		cp.Body = nil
		c = &cp
	}
	s, _ := printDecl(fset, c)
	if i := strings.IndexByte(s, '\n'); i >= 0 {
		s = s[:i] + " …"
	}
	if len(s) > 160 {
		s = s[:160] + "…"
	}
	return s
}

// features records, from the original tree (trusted go/ast), what the file exercises.
func features(f *goast.File, in *info) {
	inBody := 0
	var stack []goast.Node
	goast.Inspect(f, func(n goast.Node) bool {
		if n == nil {
			top := stack[len(stack)-1]
			stack = stack[:len(stack)-1]
			if _, ok := top.(*goast.BlockStmt); ok {
				inBody--
			}
			return true
		}
		stack = append(stack, n)
		if _, ok := n.(*goast.BlockStmt); ok {
			inBody++
		}
		if inBody > 0 {
			return true // bodies are not converted
		}
		in.kinds[reflect.TypeOf(n).Elem().Name()]++
		switch x := n.(type) {
		case *goast.FuncDecl:
			if x.Recv != nil {
				in.feats["method"] = true
				if len(x.Recv.List) == 1 {
					t := x.Recv.List[0].Type
					if s, ok := t.(*goast.StarExpr); ok {
						t = s.X
					}
					switch t.(type) {
					case *goast.IndexExpr, *goast.IndexListExpr:
						in.feats["generic-recv"] = true
					}
				}
			}
			if x.Type.TypeParams != nil {
				in.feats["typeparams-func"] = true
			}
			if x.Body == nil {
				in.feats["bodyless-func"] = true
			}
		case *goast.TypeSpec:
			if x.TypeParams != nil {
				in.feats["typeparams-type"] = true
			}
			if x.Assign.IsValid() {
				in.feats["alias"] = true
			}
		case *goast.IndexListExpr:
			in.feats["indexlist"] = true
		case *goast.InterfaceType:
			for _, m := range x.Methods.List {
				if len(m.Names) == 0 {
					in.feats["iface-embed"] = true
					switch e := m.Type.(type) {
					case *goast.BinaryExpr:
						in.feats["iface-union"] = true
					case *goast.UnaryExpr:
						if e.Op == gotoken.TILDE {
							in.feats["iface-union"] = true
						}
					}
				}
			}
		case *goast.StructType:
			for _, fl := range x.Fields.List {
				if fl.Tag != nil {
					in.feats["tag"] = true
				}
				if len(fl.Names) == 0 {
					in.feats["embedded-field"] = true
				}
			}
		case *goast.ChanType:
			in.feats[fmt.Sprintf("chan-dir%d", x.Dir)] = true
		case *goast.Ellipsis:
			if x.Elt != nil {
				in.feats["variadic"] = true
			} else {
				in.feats["array-ellipsis"] = true
			}
		case *goast.ArrayType:
			if x.Len != nil {
				in.feats["arraylen"] = true
			}
		case *goast.Ident:
			if x.Name == "iota" {
				in.feats["iota"] = true
			}
		case *goast.FuncLit:
			in.feats["funclit"] = true
		case *goast.SliceExpr:
			if x.Slice3 {
				in.feats["slice3"] = true
			}
		case *goast.CallExpr:
			if x.Ellipsis.IsValid() {
				in.feats["call-ellipsis"] = true
			}
		case *goast.GenDecl:
			if x.Lparen.IsValid() {
				in.feats["group-"+x.Tok.String()] = true
			}
		case *goast.ImportSpec:
			if x.Name != nil {
				in.feats["import-name"] = true
			}
		}
		return true
	})
}

func nontrivial(in info) bool {
	for _, k := range []string{"typeparams-func", "typeparams-type", "iface-embed", "iface-union", "tag", "method"} {
		if in.feats[k] {
			return true
		}
	}
	return false
}

var _ = vk.Register("roundtrip", func(c Case) *vk.Verdict { v, _ := roundtrip(c); return v })

// safeRoundtrip is roundtrip with the same panic-to-verdict conversion the registered oracle has.
func safeRoundtrip(c Case) (v *vk.Verdict, in info) {
	defer func() {
		if p := recover(); p != nil {
			v = vk.Bad("panic", "%v\n%s", p, debug.Stack())
		}
	}()
	return roundtrip(c)
}

type failer interface {
	Fatalf(string, ...any)
	Helper()
}

func run(t failer, c Case, class string) {
	v, in := safeRoundtrip(c)
	if in.rejected != "" {
		vk.R.Rejected(class + ":" + in.rejected)
		vk.R.Case(false, "")
		return
	}
	nt := nontrivial(in)
	vk.R.Case(nt, in.key)
	vk.R.Class(class)
	feats := make([]string, 0, len(in.feats))
	for k := range in.feats {
		feats = append(feats, k)
	}
	sort.Strings(feats)
	for _, k := range feats {
		vk.R.Class("feat=" + k)
	}
	kinds := make([]string, 0, len(in.kinds))
	for k := range in.kinds {
		kinds = append(kinds, k)
	}
	sort.Strings(kinds)
	for _, k := range kinds {
		vk.R.ClassN("kind="+k, int64(in.kinds[k]))
	}
	vk.R.Add("declarations", int64(in.ndecl))
	if in.tolerated > 0 {
		vk.R.ClassN("tolerated=unnamed-result-parenthesised", int64(in.tolerated))
	}
	if nt && class != "src=corpus" {
		vk.R.Sample(string(c.Src))
	}
	vk.R.Check(t, "roundtrip", c, v)
}

func drawOptions(t *rapid.T) godecl.Options {
	// a third of the files avoid the constructs of the known findings by construction, so that the
	// whole-file path (no per-declaration fallback) keeps being exercised behind them
	switch rapid.IntRange(0, 5).Draw(t, "opt") {
	case 0, 1:
		vk.R.Excluded("generator:no-generics")
		return godecl.Options{}
	case 2:
		return godecl.Options{TypeParams: true}
	case 3:
		return godecl.Options{IndexList: true}
	default:
		return godecl.Options{TypeParams: true, IndexList: true}
	}
}

func TestGenerated(t *testing.T) {
	vk.R.Assume("a single unnamed result that comes back as `(T)` instead of `T` (empty non-nil Field.Names after conversion) is not a loss: the repository's pinned tests ast/togo TestBasic and ast/fromgo TestMethod expect that text")
	vk.R.Assume("go/parser and go/printer of the toolchain are the trusted reference for what a Go file is and how a declaration header prints")
	vk.R.Rapid(t, 1, 20000, 600000, func(t *rapid.T) {
		opt := drawOptions(t)
		src := godecl.File(opt).Draw(t, "src")
		run(t, Case{Src: vk.Bytes(src)}, "src=generated")
	})
}

// TestInitialValues wraps single generated expressions / types into one declaration each: deeper
// expression trees than the file generator produces.
func TestInitialValues(t *testing.T) {
	vk.R.Rapid(t, 2, 12000, 300000, func(t *rapid.T) {
		opt := drawOptions(t)
		var src string
		switch rapid.IntRange(0, 3).Draw(t, "shape") {
		case 0:
			src = "package p\n\nvar v = " + godecl.Expr(opt, 4).Draw(t, "e") + "\n"
		case 1:
			src = "package p\n\nconst c " + godecl.Type(opt, 1).Draw(t, "t") + " = " + godecl.Expr(opt, 3).Draw(t, "e") + "\n"
		case 2:
			src = "package p\n\ntype t " + godecl.Type(opt, 5).Draw(t, "t") + "\n"
		default:
			src = "package p\n\nfunc f(a " + godecl.Type(opt, 4).Draw(t, "t") + ") (r " + godecl.Type(opt, 3).Draw(t, "u") + ")\n"
		}
		run(t, Case{Src: vk.Bytes(src)}, "src=single-decl")
	})
}

func goMutant() *rapid.Generator[[]byte] {
	donor := rapid.OneOf(lex.GoLexeme(), rapid.SampledFrom([]string{"[T any]", "[K comparable, V any]", "~int | ~string", "...", "<-chan", "chan<-", "`tag`",
		"interface{ ~int }", "struct{ A }", "[...]int{1}", "*", "iota", "[N]", "func()", "map[string]int", "(", ")", "=", ","}))
	return rapid.Custom(func(t *rapid.T) []byte {
		files := lex.Corpus(".go")
		f := files[rapid.IntRange(0, len(files)-1).Draw(t, "file")]
		src := f.Src
		if len(src) > 4000 { // a window that starts at a top-level line, behind a fresh package clause
			start := rapid.IntRange(0, len(src)-2000).Draw(t, "win")
			for start < len(src) && !(start == 0 || src[start-1] == '\n' && (bytes.HasPrefix(src[start:], []byte("func ")) || bytes.HasPrefix(src[start:], []byte("type ")) ||
				bytes.HasPrefix(src[start:], []byte("var ")) || bytes.HasPrefix(src[start:], []byte("const ")))) {
				start++
			}
			end := start + 3000
			if end > len(src) {
				end = len(src)
			}
			for end < len(src) && !(src[end-1] == '\n' && src[end] != '\t' && src[end] != ' ' && src[end] != '}' && src[end] != ')') {
				end++
			}
			if start > 0 {
				src = append([]byte("package p\n\n"), src[start:end]...)
			} else {
				src = src[:end]
			}
		}
		return lex.Mutate(t, src, lex.Spans(src), donor)
	})
}

func TestCorpusMutants(t *testing.T) {
	g := goMutant()
	vk.R.Rapid(t, 3, 8000, 200000, func(t *rapid.T) {
		run(t, Case{Src: vk.Bytes(g.Draw(t, "src"))}, "src=corpus-mutant")
	})
}

func TestCorpusVerbatim(t *testing.T) {
	if vk.R.Shard != 0 {
		return
	}
	files := lex.Corpus(".go")
	vk.R.Set("corpus_go_files", int64(len(files)))
	for _, f := range files {
		run(t, Case{Src: vk.Bytes(f.Src), File: f.Rel}, "src=corpus")
	}
}

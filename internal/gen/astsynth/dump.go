// Package astsynth synthesises position-free XGo syntax trees (xgo/ast) in the image of
// strip-parens∘parse — the trees a code generator would build by hand — together with the tools
// to compare them with re-parsed trees. It is separate from internal/gen/astgen (reflection over
// every documented field, used by C17/C18): here every tree is one the parser itself can
// produce once ParenExpr nodes are removed, so "print, parse, strip parentheses" must be the
// identity (property C22).
//
//	Spec                JSON-serialisable description of a tree (kind, operator, text, flags, children)
//	Build(spec)         the ast.Node for a Spec (no positions except the flag positions below)
//	Dump(node)          canonical text of a tree: kinds, tokens, literal text, syntax flags; positions,
//	                    ParenExpr nodes, comments, objects and derived data (Extra) are left out
//	Expr(cfg), Stmt(cfg) rapid generators of Specs; Pairs() the exhaustive parent/slot/child table
//
// Positions that carry syntax and are therefore kept as flags: CallExpr.NoParenEnd (command-style
// call), CallExpr.Ellipsis, SendStmt.Ellipsis, EnvExpr.Rbrace (${name}), RangeExpr.Colon2.
package astsynth

import (
	"fmt"
	goast "go/ast"
	"reflect"
	"strings"

	"github.com/goplus/xgo/ast"
	"github.com/goplus/xgo/token"
)

var (
	posType   = reflect.TypeOf(token.NoPos)
	tokType   = reflect.TypeOf(token.ADD)
	flagPos   = map[string]bool{"CallExpr.NoParenEnd": true, "CallExpr.Ellipsis": true, "SendStmt.Ellipsis": true, "EnvExpr.Rbrace": true, "RangeExpr.Colon2": true}
	skipField = map[string]bool{"Ident.Obj": true, "DomainTextLit.Extra": true, "File.Scope": true, "File.Unresolved": true, "File.Imports": true,
		"File.Comments": true, "File.Code": true, "LabeledStmt.Obj": true, "BranchStmt.Obj": true, "CompositeLit.Incomplete": true, "SliceLit.Incomplete": true}
)

// Dump renders the tree rooted at n (a node, a slice of nodes, or nil).
func Dump(n any) string {
	var b strings.Builder
	dump(&b, reflect.ValueOf(n), 0)
	return b.String()
}

func dump(b *strings.Builder, v reflect.Value, depth int) {
	if depth > 5000 {
		b.WriteString("<deep>")
		return
	}
	if !v.IsValid() {
		b.WriteString("nil")
		return
	}
	switch v.Kind() {
	case reflect.Interface, reflect.Ptr:
		if v.IsNil() {
			b.WriteString("nil")
			return
		}
		switch x := v.Interface().(type) {
		case *ast.ParenExpr:
			dump(b, reflect.ValueOf(x.X), depth+1)
			return
		case *ast.Ident:
			b.WriteString(x.Name)
			return
		case *goast.CommentGroup, *ast.Object, *ast.Scope:
			b.WriteString("-")
			return
		}
		dump(b, v.Elem(), depth+1)
	case reflect.Struct:
		t := v.Type()
		b.WriteString("(" + t.Name())
		for i := 0; i < v.NumField(); i++ {
			f := t.Field(i)
			key := t.Name() + "." + f.Name
			if !f.IsExported() || skipField[key] || f.Name == "Doc" || f.Name == "Comment" {
				continue
			}
			fv := v.Field(i)
			if f.Type == posType {
				if flagPos[key] && fv.Int() != 0 {
					b.WriteString(" " + f.Name)
				}
				continue
			}
			if f.Anonymous { // ForPhraseStmt embeds *ForPhrase
				b.WriteString(" ")
				dump(b, fv, depth+1)
				continue
			}
			switch fv.Kind() {
			case reflect.Bool:
				if fv.Bool() {
					b.WriteString(" " + f.Name)
				}
				continue
			case reflect.Ptr, reflect.Interface, reflect.Slice:
				if fv.IsNil() || fv.Kind() == reflect.Slice && fv.Len() == 0 {
					continue
				}
			}
			b.WriteString(" " + f.Name + ":")
			dump(b, fv, depth+1)
		}
		b.WriteString(")")
	case reflect.Slice:
		b.WriteString("[")
		for i := 0; i < v.Len(); i++ {
			if i > 0 {
				b.WriteString(" ")
			}
			dump(b, v.Index(i), depth+1)
		}
		b.WriteString("]")
	case reflect.String:
		fmt.Fprintf(b, "%q", v.String())
	case reflect.Bool:
		fmt.Fprint(b, v.Bool())
	case reflect.Map:
		b.WriteString("<map>")
	default:
		if v.Type() == tokType {
			b.WriteString(token.Token(v.Int()).String())
			return
		}
		if v.CanInt() {
			fmt.Fprint(b, v.Int())
		} else if v.CanUint() {
			fmt.Fprint(b, v.Uint())
		} else {
			fmt.Fprintf(b, "<%s>", v.Kind())
		}
	}
}

// Package xgotext generates XGo source text that exercises the XGo-specific syntax (command
// style calls, lambdas, comprehensions, for-phrases, range expressions, error wrapping, ${env},
// string interpolation, number units, domain text literals incl. tpl grammars with ret-procs,
// slice/matrix/map literals, overload declarations, operator and static methods, class-file
// field blocks, top-level statements) mixed with ordinary Go constructs. The text aims at being
// accepted by the XGo parser but does not guarantee it: callers validate with the parser and
// count what it rejects. All randomness is drawn through rapid.
package xgotext

import (
	"fmt"
	"strings"

	"pgregory.net/rapid"
)

type gen struct {
	t *rapid.T
	n int
}

func (g *gen) pick(n int) int         { return rapid.IntRange(0, n-1).Draw(g.t, "k") }
func (g *gen) pct(p int) bool         { return rapid.IntRange(0, 99).Draw(g.t, "p") < p }
func (g *gen) of(xs ...string) string { return xs[g.pick(len(xs))] }
func (g *gen) fresh(p string) string  { g.n++; return fmt.Sprintf("%s%d", p, g.n) }

var idents = []string{"a", "b", "x", "y", "n", "xs", "m", "s", "err", "foo", "bar", "v", "i", "k", "ch", "this", "self"}
var lits = []string{"0", "1", "42", "0x1F", "1_000", "1.5", "1e3", "2i", "'a'", `'\n'`, `"s"`, `"a\tb"`, "`raw`", `""`, `"é世"`,
	"1r", "3.5r", "10r", `c"abc"`, `py"Hi"`, "true", "nil"}
var units = []string{"1m", "2.5s", "3ms", "5h", "1µs", "7d", "10y", "3kg"}
var strex = []string{`"a${x}b"`, `"${x}"`, `"${a+b}, ${f(y)}"`, `"$$"`, `"a$$b${x}"`, `"file:${args[0]}?${q}"`, `"${x.y}$$"`, `"${[1, 2]}"`, `"x=${m[k]}"`}
var types = []string{"int", "string", "bool", "float64", "error", "any", "T", "*T", "[]int", "[]string", "map[string]int", "chan int", "<-chan T", "func(int) string",
	"pkg.T", "[3]int", "struct{ a int }", "interface{ M() }", "List[int]", "Pair[int, string]", "[]*pkg.T", "map[string][]T",
	"chan<- int", "<-chan <-chan T", "<-chan chan int", "<-chan chan<- T", "chan<- <-chan int", "chan (<-chan T)", "<-chan <-chan <-chan int", "chan<- chan<- T", "<-chan []chan T", "<-chan func(<-chan int) chan<- T"}
var binOps = []string{"+", "-", "*", "/", "%", "&", "|", "^", "<<", ">>", "&^", "&&", "||", "==", "!=", "<", "<=", ">", ">=", "->", "<>"}

func (g *gen) ident() string { return g.of(idents...) }

func (g *gen) exprList(d, min, max int) string {
	n := min + g.pick(max-min+1)
	xs := make([]string, n)
	for i := range xs {
		xs[i] = g.expr(d)
	}
	return strings.Join(xs, ", ")
}

func (g *gen) operand(d int) string {
	if d <= 0 || g.pct(55) {
		return g.of("x", "y", "xs", "m", "a.b", "f()", "foo", "pkg.V", "s")
	}
	return "(" + g.expr(d) + ")"
}

func (g *gen) forPhrase(d int, stmt bool) string {
	var b strings.Builder
	b.WriteString("for ")
	switch g.pick(3) {
	case 0:
		b.WriteString(g.of("x", "v", "_"))
	case 1:
		b.WriteString(g.of("i", "k", "_") + ", " + g.of("v", "x"))
	default:
		b.WriteString(g.of("x", "v"))
	}
	b.WriteString(g.of(" <- ", " <- ", " in "))
	switch g.pick(5) {
	case 0:
		b.WriteString(g.rangeExpr(d - 1))
	default:
		b.WriteString(g.operand(d - 1))
	}
	switch g.pick(5) {
	case 0:
		b.WriteString(" if " + g.expr(d-1))
	case 1:
		b.WriteString(", " + g.expr(d-1))
	case 2:
		if !stmt { // `if init; cond` exists in comprehensions only
			b.WriteString(g.of(" if ", ", ") + "t := " + g.expr(d-1) + "; t > " + g.expr(0))
		}
	}
	return b.String()
}

func (g *gen) rangeExpr(d int) string {
	switch g.pick(5) {
	case 0:
		return ":" + g.expr(d)
	case 1:
		return g.expr(d) + ":" + g.expr(d)
	case 2:
		return g.expr(d) + ":" + g.expr(d) + ":" + g.expr(d)
	case 3:
		return ":" + g.expr(d) + ":" + g.expr(d)
	default:
		return g.of("0", "1", "a") + ":" + g.of("10", "n", "len(xs)")
	}
}

func (g *gen) lambda(d int) string {
	var lhs string
	switch g.pick(5) {
	case 0:
		lhs = ""
	case 1:
		lhs = g.of("x", "v") + " "
	case 2:
		lhs = "(" + g.of("x", "v") + ") "
	case 3:
		lhs = "(x, y) "
	default:
		lhs = "(a, b, c) "
	}
	switch g.pick(5) {
	case 0:
		return lhs + "=> " + g.expr(d-1)
	case 1:
		return lhs + "=> (" + g.expr(d-1) + ", " + g.expr(d-1) + ")"
	case 2:
		return lhs + "=> {\n" + g.stmts(d-1, 0, 2) + "}"
	case 3:
		return lhs + "=> { return " + g.expr(d-1) + " }"
	default:
		return lhs + "=> " + g.of("x", "x + 1", "x * y", "nil")
	}
}

var tplGrammars = []string{
	"expr = INT % (\"+\" | \"-\")",
	"\nexpr = termExpr % (\"+\" | \"-\")\n\ntermExpr = unaryExpr % (\"*\" | \"/\")\n\nunaryExpr = operand | \"-\" unaryExpr\n\noperand = INT | \"(\" expr \")\"\n",
	"\nfile = stmts => {\n\treturn self\n}\n\nstmts = *(stmt \";\") => {\n\treturn [n.([]any)[0] for n in self]\n}\n\nstmt = IDENT \"=\" INT\n",
	"\nexpr = operand % (\"*\" | \"/\") => {\n\treturn tpl.binaryOp(true, self, (op, x, y) => {\n\t\treturn x\n\t})\n}\n\noperand = INT => { return self.(*tpl.Token).Lit.int! }\n",
	"doc = +item => { echo self; return len(self) }\nitem = IDENT | STRING",
}

func (g *gen) domainText(d int) string {
	switch g.pick(6) {
	case 0:
		return "tpl`" + g.of(tplGrammars...) + "`"
	case 1:
		return "json`{\"a\": 1, \"b\": [2, 3]}`"
	case 2:
		args := g.exprList(d-1, 1, 3)
		if strings.Contains(args, "`") { // a backquote would end the literal
			args = g.of("x", "&ret, 10", `"a", f(y)`)
		}
		return g.of("html", "huh", "sql") + "`> " + args + "\n<a>text</a>\n`"
	case 3:
		return g.of("re", "regexp", "xml") + "`^[a-z]+\\d*$`"
	case 4:
		return "huh`> &ret, 10\n<form/>\n`"
	default:
		return g.of("yaml", "csv") + "`\na: 1\nb: 2\n`"
	}
}

// cond is the expression of a control clause: any expression, or (a third of the time) a
// parenthesised expression that holds a composite literal where only the parentheses make it legal.
func (g *gen) cond(d int) string {
	if g.pick(3) == 0 {
		return g.parenLit(d)
	}
	return g.expr(d)
}

// parenLit: "(" e ")" where e has an unparenthesised composite literal (typed, qualified, untyped
// XGo literal, comprehension) as callee receiver, operand, index or argument.
func (g *gen) parenLit(d int) string {
	lit := g.of("T{1}", "T{a: "+g.expr(d-1)+"}", "pkg.T{}", "[]int{1, 2}", `{"a": 1}`, "[x for x in xs]", "map[string]int{}", "&T{}", "[2]T{}")
	var e string
	switch g.pick(8) {
	case 0:
		e = lit + ".ok()"
	case 1:
		e = lit + ".f(" + g.expr(d-1) + ").g()"
	case 2:
		e = lit + ".len() > 0"
	case 3:
		e = lit + " == " + g.operand(d-1)
	case 4:
		e = "f(" + lit + ")"
	case 5:
		e = lit + ".a"
	case 6:
		e = "m[" + lit + "]"
	default:
		e = g.operand(d-1) + " != " + lit + ".v"
	}
	return "(" + e + ")"
}

// expr generates an expression of nesting depth at most d.
func (g *gen) expr(d int) string {
	if d <= 0 {
		switch g.pick(4) {
		case 0:
			return g.of(lits...)
		case 1:
			return g.of(units...)
		default:
			return g.ident()
		}
	}
	switch g.pick(36) {
	case 34, 35: // a type in expression context
		t := g.of(types...)
		return g.of("make("+t+")", "make("+t+", "+g.expr(d-1)+")", "new("+t+")", "("+t+")("+g.expr(d-1)+")", "f("+t+", "+g.expr(d-1)+")", "[]"+t+"{}")
	case 0:
		return g.of(lits...)
	case 1:
		return g.of(units...)
	case 2:
		return g.of(strex...)
	case 3:
		return g.of("${x}", "$x", "${HOME}", "$id")
	case 4, 5:
		return g.expr(d-1) + " " + g.of(binOps...) + " " + g.expr(d-1)
	case 6:
		return g.of("-", "!", "^", "&", "<-", "*", "+") + g.operand(d-1)
	case 7:
		return "(" + g.expr(d-1) + ")"
	case 8, 9:
		return g.of("f", "foo", "pkg.F", "x.m", "println", "len", "make", "type") + "(" + g.exprList(d-1, 0, 3) + ")"
	case 10:
		return "f(" + g.exprList(d-1, 1, 2) + ", xs...)"
	case 11:
		return "[" + g.exprList(d-1, 0, 4) + "]"
	case 12:
		return "[" + g.exprList(d-1, 1, 2) + ", " + g.ident() + "...]"
	case 13:
		n := 1 + g.pick(3)
		kv := make([]string, n)
		for i := range kv {
			kv[i] = g.of(`"k"`, `"a"`, "1", "k") + ": " + g.expr(d-1)
		}
		return "{" + strings.Join(kv, ", ") + "}"
	case 14:
		return "{}"
	case 15:
		return "[" + g.expr(d-1) + " " + g.forPhrase(d-1, false) + "]"
	case 16:
		return "[" + g.expr(d-1) + " " + g.forPhrase(d-1, false) + " " + g.forPhrase(d-1, false) + "]"
	case 17:
		return "{" + g.expr(d-1) + ": " + g.expr(d-1) + " " + g.forPhrase(d-1, false) + "}"
	case 18:
		return "{" + g.of("", g.expr(d-1)+" ") + g.forPhrase(d-1, false) + "}"
	case 19:
		return g.of("f", "foo.bar", "xs.filter") + "(" + g.lambda(d) + g.of("", "", " ", " /* c */", ",\n") + ")"
	case 20:
		return "f(" + g.lambda(d) + g.of(", ", " , ", ",\n\t") + g.expr(d-1) + g.of("", " ") + ")"
	case 21:
		return g.of("f(x)", "os.open(s)", "a.b()", "foo", g.operand(d-1)) + g.of("!", "?", "?:"+g.of("0", `""`, "nil", "x"))
	case 22:
		return g.domainText(d)
	case 23:
		return g.operand(d-1) + "[" + g.expr(d-1) + "]"
	case 24:
		o := g.operand(d - 1)
		return o + g.of("[:]", "[1:]", "[:n]", "[a:b]", "[a:b:c]", "["+g.expr(d-1)+":"+g.expr(d-1)+"]")
	case 25:
		return g.operand(d-1) + "." + g.of("f", "name", "goto(1)", "break()")
	case 26:
		return g.operand(d-1) + ".(" + g.of(types...) + ")"
	case 27:
		return g.of("[]int", "[]string", "map[string]int", "T", "pkg.T", "[...]int", "[2]T", "struct{ a int }", "List[int]") + "{" + g.of("", g.exprList(d-1, 1, 3), "a: "+g.expr(d-1), "1: "+g.expr(d-1)+", 2: "+g.expr(d-1)) + "}"
	case 28:
		return "&T{" + g.of("", "a: "+g.expr(d-1)) + "}"
	case 29:
		return "func(" + g.of("", "a int", "a, b T", "xs ...int") + ")" + g.of("", " int", " (int, error)") + " {\n" + g.stmts(d-1, 0, 2) + "}"
	case 30:
		return g.of("int", "string", "[]byte", "float64", "T") + "(" + g.expr(d-1) + ")"
	case 31:
		return g.of("g", "pkg.G") + g.of("[int]", "[int, string]", "[T]") + "(" + g.exprList(d-1, 0, 2) + ")"
	case 32:
		return g.of("goto", "break", "map", "type") + "(" + g.exprList(d-1, 1, 2) + ")"
	default:
		return g.ident()
	}
}

// cmdArgs are the arguments of a command-style call (the first one must not start with an
// operator the parser reads as binary).
func (g *gen) cmdArgs(d int) string {
	first := g.of(lits...)
	switch g.pick(8) {
	case 0:
		first = g.ident()
	case 1:
		first = g.of(strex...)
	case 2:
		first = g.of(units...)
	case 3:
		first = "[" + g.exprList(d-1, 1, 3) + "]"
	case 4:
		first = g.of("[1, 2; 3, 4]", "[\n\t1, 2, 3\n\trow...\n\t7, 8, 9\n]", "[a, b; c, d; "+g.expr(d-1)+", 0]", "[1, 2, 3; xs...]")
	case 5:
		first = g.ident() + " " + g.of("+", "*", "->", "<>", "==") + " " + g.expr(d-1)
	case 6:
		first = g.of("&x", "!x", "-x", "*p", "<-ch", "^x", "$id", "${name}", `{"id": $id}`, "=> {\n\techo 1\n}", "x => x + 1", "x => {\n}", "func() {}", "type(1)", "map[string]int{}")
	}
	if g.pct(55) {
		first += ", " + g.exprList(d-1, 1, 2)
	}
	if g.pct(8) {
		first = g.ident() + "..."
	}
	return first
}

func (g *gen) block(d int) string { return "{\n" + g.stmts(d, 0, 3) + "}" }

func (g *gen) stmts(d, min, max int) string {
	n := min + g.pick(max-min+1)
	var b strings.Builder
	for i := 0; i < n; i++ {
		b.WriteString(g.stmt(d))
		if g.pct(12) { // trailing blanks / comments: what a node's End must not swallow
			b.WriteString(g.of(" ", "  // c", " /* c */", "\t", " // ${x}"))
		}
		b.WriteString("\n")
	}
	return b.String()
}

func (g *gen) simple(d int) string {
	switch g.pick(8) {
	case 0:
		return g.ident() + " := " + g.expr(d)
	case 1:
		return g.ident() + ", " + g.ident() + " := " + g.expr(d) + ", " + g.expr(d)
	case 2:
		return g.operand(0) + " = " + g.expr(d)
	case 3:
		return g.ident() + " " + g.of("+=", "-=", "*=", "|=", "<<=", "&^=") + " " + g.expr(d)
	case 4:
		return g.ident() + g.of("++", "--")
	case 5:
		return g.of("f", "a.b", "pkg.F") + "(" + g.exprList(d, 0, 2) + ")"
	case 6:
		return "ch <- " + g.expr(d)
	default:
		return g.ident() + ", err := " + g.of("f(x)", "os.open(s)") + g.of("", "!", "?")
	}
}

func (g *gen) stmt(d int) string {
	if d <= 0 {
		return g.simple(0)
	}
	switch g.pick(38) {
	case 0, 1, 2, 3:
		return g.simple(d)
	case 4, 5, 6, 7:
		return g.of("echo", "println", "print", "fmt.println", "foo.bar", "wait", "mkdir!", "run") + " " + g.cmdArgs(d)
	case 8:
		return g.of("foo", "onStart", "t.run") + " " + g.lambda(d)
	case 9:
		return "return " + g.of("", g.exprList(d-1, 1, 2))
	case 10:
		s := "if " + g.of("", g.simple(d-1)+"; ") + g.cond(d-1) + " " + g.block(d-1)
		if g.pct(40) {
			s += " else " + g.of(g.block(d-1), "if "+g.expr(d-1)+" "+g.block(d-1))
		}
		return s
	case 11:
		return "for " + g.of("", g.cond(d-1)+" ", "i := 0; i < n; i++ ", "; ; ", "i := 0; ; ", "i := 0; "+g.cond(d-1)+"; i++ ") + g.block(d-1)
	case 12:
		return "for " + g.of("i, v := range xs ", "k := range m ", "range 10 ", "_, v = range xs ", "i := range 10 ", "_, v := range "+g.parenLit(d-1)+" ") + g.block(d-1)
	case 13, 14, 15:
		return g.forPhrase(d, true) + " " + g.block(d-1)
	case 16:
		return "for " + g.rangeExpr(d-1) + " " + g.block(d-1)
	case 17:
		return "switch " + g.of("", g.cond(d-1)+" ", g.simple(d-1)+"; "+g.cond(d-1)+" ") + "{\ncase " + g.exprList(d-1, 1, 2) + ":\n" + g.stmts(d-1, 0, 2) + g.of("", "fallthrough\n") + "default:\n" + g.stmts(d-1, 0, 1) + "}"
	case 18:
		return "switch " + g.of("v := x.(type)", "x.(type)", "t := f(); v := t.(type)") + " {\ncase " + g.of("int", "int, string", "*T", "nil", "[]int") + ":\n" + g.stmts(d-1, 0, 1) + "}"
	case 19:
		return "select {\ncase " + g.of("v := <-ch", "<-ch", "ch <- "+g.expr(d-1), "v, ok = <-ch") + ":\n" + g.stmts(d-1, 0, 1) + g.of("", "default:\n") + "}"
	case 20:
		return g.of("go", "defer") + " " + g.of("f("+g.exprList(d-1, 0, 2)+")", "func() {\n"+g.stmts(d-1, 0, 1)+"}()", "a.b(x)")
	case 21:
		return g.of("L", "Loop") + g.fresh("") + ":\n" + g.stmt(d-1)
	case 22:
		return g.of("break", "continue", "goto L", "break L", "continue L")
	case 23:
		return "var " + g.of(g.ident()+" "+g.of(types...), g.ident()+" = "+g.expr(d-1), g.ident()+", "+g.ident()+" "+g.of(types...)+" = "+g.expr(d-1)+", "+g.expr(d-1), "(\n\t"+g.ident()+" int\n\t"+g.ident()+" = "+g.expr(d-1)+"\n)")
	case 24:
		return "const " + g.of(g.ident()+" = "+g.expr(0), "(\n\tA = iota\n\tB\n)")
	case 25:
		return "type " + g.of("T", "U") + g.fresh("") + " " + g.of(types...)
	case 26:
		return g.block(d - 1)
	case 27:
		return "ch <- " + g.of(g.exprList(d-1, 1, 3), "xs...")
	case 28:
		return g.ident() + " <- " + g.exprList(d-1, 1, 2)
	case 29:
		return g.expr(d)
	case 30:
		return g.of("x", "a.b") + " = " + g.of("["+g.of("", g.exprList(d-1, 1, 2))+"]", "{}", `{"k": `+g.expr(d-1)+"}")
	case 31:
		return "var " + g.ident() + " " + g.of("[]int", "map[string]int", "T", "[]T") + " = " + g.of("[1, 2]", `{"a": 1}`, "{}", "[]")
	default:
		return g.simple(d)
	}
}

func (g *gen) funcDecl(d int, class bool) string {
	sig := "(" + g.of("", "a int", "a, b T", "xs ...int", "f func(int) int, s string") + ")" + g.of("", " int", " (int, error)", " (r T)", " *T")
	body := " " + g.block(d)
	switch g.pick(12) {
	case 0:
		return "func (p *T) " + g.of("M", "run") + g.fresh("") + sig + body
	case 1:
		return "func (" + g.of("a T", "a *foo", "T") + ") " + g.of("+", "-", "*", "/", "==", "<", "+=", "<-", "->", "<>") + " (b " + g.of("T", "*foo", "int") + ")" + g.of("", " T", " bool") + g.of("", body)
	case 2:
		return "func " + g.of("-", "++", "!", "^") + "(a T)" + g.of("", " T") + body
	case 3:
		return "func " + g.of("T", "foo") + "." + g.of("new", "Create") + g.fresh("") + sig + body
	case 4:
		if class {
			return "func ." + g.of("New", "init") + g.fresh("") + sig + body
		}
		return "func " + g.fresh("g") + sig + body
	case 5:
		return "func " + g.of("add", "mul") + g.fresh("") + " = (\n\t" + g.of("addInt", "func(a, b int) int {\n\t\treturn a + b\n\t}") + "\n\t" + g.of("addFloat", "(T).addT", "(*T).mul") + "\n)"
	case 6:
		return "func (" + g.of("T", "*T", "foo") + ")." + g.of("add", "*", "+", "mul") + " = (\n\t(" + g.of("T", "*T") + ").a\n\t" + g.of("b", "(T).c") + "\n)"
	case 7:
		return "func " + g.fresh("ext") + sig
	default:
		return "func " + g.of("f", "main", "init", "onStart", "MainEntry") + g.fresh("") + sig + body
	}
}

func (g *gen) genDecl(d int) string {
	switch g.pick(7) {
	case 0:
		return "var " + g.fresh("v") + " " + g.of(types...) + g.of("", " = "+g.expr(d))
	case 1:
		return "var (\n\t" + g.fresh("v") + " " + g.of(types...) + "\n\t" + g.fresh("v") + ", " + g.fresh("v") + " = " + g.expr(d) + ", " + g.expr(d) + "\n)"
	case 2:
		return "const " + g.of(g.fresh("C")+" = "+g.expr(1), "(\n\t"+g.fresh("K")+" = iota\n\t"+g.fresh("K")+"\n\t_\n)")
	case 3:
		return "type " + g.fresh("T") + " " + g.of("struct {\n\ta, b int `json:\"a\"`\n\tpkg.T\n\t*U\n}", "interface {\n\tM(a int) error\n\tio.Reader\n}", "= pkg.T", "[]int", "func(int) string")
	case 4:
		return "type " + g.fresh("G") + " " + g.of("struct {\n\tk K\n\tv List[T]\n}", "map[K]Pair[K, T]", "interface{ M() }")
	case 5:
		return "type (\n\t" + g.fresh("A") + " int\n\t" + g.fresh("B") + " = string\n)"
	default:
		return "var " + g.fresh("v") + " = " + g.expr(d)
	}
}

func (g *gen) classFields() string {
	n := 1 + g.pick(4)
	var b strings.Builder
	b.WriteString("var (\n")
	for i := 0; i < n; i++ {
		switch g.pick(6) {
		case 0:
			b.WriteString("\t" + g.of("x.App", "Sprite", "*Base", "pkg.T") + "\n")
		case 1:
			b.WriteString("\t" + g.fresh("f") + " " + g.of(types...) + " `json:\"f\"`\n")
		case 2:
			b.WriteString("\t" + g.fresh("f") + ", " + g.fresh("f") + " " + g.of(types...) + "\n")
		case 3:
			b.WriteString("\t" + g.of("Sprite", "pkg.T") + " `tag`\n")
		default:
			b.WriteString("\t" + g.fresh("f") + " " + g.of(types...) + "\n")
		}
	}
	b.WriteString(")\n")
	return b.String()
}

// File generates one XGo source file; class says that it will be parsed as a class file (then it
// may start with a field block: embedded types and tags, no initial values).
func File(class bool) *rapid.Generator[string] {
	return rapid.Custom(func(t *rapid.T) string {
		g := &gen{t: t}
		var b strings.Builder
		if g.pct(30) {
			b.WriteString("package " + g.of("main", "foo") + "\n\n")
		}
		if g.pct(40) {
			b.WriteString(g.of("import \"fmt\"\n", "import (\n\t\"os\"\n\tpkg \"example.com/pkg\"\n)\n", "import \"gop/tpl\"\n"))
		}
		if class { // the first top-level var block of a class file is its field block
			b.WriteString(g.classFields())
		}
		n := g.pick(5)
		for i := 0; i < n; i++ {
			if g.pct(55) {
				b.WriteString(g.funcDecl(2+g.pick(2), class))
			} else {
				b.WriteString(g.genDecl(2))
			}
			b.WriteString("\n\n")
		}
		if g.pct(70) { // top-level statements: the shadow entry
			b.WriteString(g.stmts(3, 1, 5))
		}
		return b.String()
	})
}

// Expr generates one XGo expression.
func Expr(depth int) *rapid.Generator[string] {
	return rapid.Custom(func(t *rapid.T) string {
		g := &gen{t: t}
		return g.expr(depth)
	})
}

//go:build verif

// C39 — every JSON-RPC call completes exactly once with its own answer; an incoming call is
// answered at most once; Close returns once in-flight handlers have finished.
//
// Needs the verif hook of x/jsonrpc2 (proposed_fixes/HOOK-jsonrpc2.diff): VerifYield, VerifState.
package c39

import (
	"bytes"
	"context"
	"encoding/json"
	"errors"
	"fmt"
	"io"
	"os"
	"runtime"
	"strings"
	"sync"
	"sync/atomic"
	"testing"
	"time"

	"github.com/goplus/xgo/x/fakenet"
	"github.com/goplus/xgo/x/jsonrpc2"
	"pgregory.net/rapid"

	"verif/internal/gen/supervise"
	"verif/internal/vk"
)

func TestMain(m *testing.M) {
	if code, parent := supervise.Run("C39", "panic: jsonrpc2"); parent {
		os.Exit(code)
	}
	if v := os.Getenv("VK_C39_CAP"); v != "" {
		if d, err := time.ParseDuration(v); err == nil {
			hardCap = d
		}
	}
	jsonrpc2.VerifYield = dispatch
	vk.Main(m, "C39", "exploration",
		"two Connections (a, b) made with Dial over a pair of io.Pipes (optionally wrapped in fakenet.NewConn), both with handler, preempter (cancel notifications), tee framer and OnInternalError recorder; 1-4 client goroutines issue a drawn list of at most 40 ops on either side: Call(echo | slow | async | fail | cancel-me | unknown, awaited at once or deferred), Notify, cancel of an earlier call; a controller walks a drawn timeline of release / respond / Close / transport disconnect / read-error / write-error injection, each step after a drawn trigger (ops issued, calls completed, hook arrivals) or as soon as every goroutine is blocked (goroutine-dump quiescence, no timer); a drawn yield script says for the k-th arrival at a hook point of a side (update, write:before, write:after, read:loop, read:msg, read:exit): Gosched x n or park until the controller reaches step i. At the end the harness releases/responds everything, awaits all calls, closes both sides. "+
			"Oracle: every Await returns (deadlock = all goroutines blocked) and a second Await gives the same; success carries the call's own number and method; an error is the method's own (fail, method not found), 'context canceled' only if the call was cancelled or a fault op is in the history, a shutdown/transport error (client/server closing, EOF, closed pipe, injected) only if a fault op is in the history; the tee shows at most one response per request id and direction, only to ids that were requested; the handler sees a call id at most once; when Close returns no handler of that side is active, VerifState is idle and done, calls issued before Close began are ready; no internal error is reported; a notification is delivered at most once. "+
			"Non-trivial = a Close/disconnect/injection happens while a call is in flight and a handler is running; distinct = hash of the case document")
}

var ctx = context.Background()

// ---- case -------------------------------------------------------------------------------------------

type ClientOp struct {
	Kind   string `json:"kind"`             // call | notify | cancel
	Side   string `json:"side"`             // a | b: the connection that issues the op
	Method string `json:"method,omitempty"` // call
	Defer  bool   `json:"defer,omitempty"`  // call: await at the end of the goroutine's list
	Ref    int    `json:"ref,omitempty"`    // cancel: the (Ref+1)-th most recent call of this goroutine on that side
}

type Trigger struct {
	Kind  string `json:"kind,omitempty"` // "" (at once) | issued | completed | hook
	N     int    `json:"n,omitempty"`
	Side  string `json:"side,omitempty"`  // hook
	Point string `json:"point,omitempty"` // hook
}

type Control struct {
	Kind    string  `json:"kind"` // release | respond | close | disconnect | readerr | writeerr
	Side    string  `json:"side"`
	After   Trigger `json:"after"`
	Gosched int     `json:"gosched,omitempty"`
}

type Yield struct {
	Side     string `json:"side"`
	Point    string `json:"point"`
	K        int    `json:"k"`
	Gosched  int    `json:"gosched,omitempty"`
	ParkStep int    `json:"park_step,omitempty"` // park until the controller has reached this step (1-based; beyond the timeline = its end)
}

type Case struct {
	Transport string       `json:"transport"` // pipe | fakenet
	Clients   [][]ClientOp `json:"clients"`
	Timeline  []Control    `json:"timeline,omitempty"`
	Script    []Yield      `json:"script,omitempty"`
}

var hookPoints = []string{"update", "write:before", "write:after", "read:loop", "read:msg", "read:exit"}
var methods = []string{"echo", "echo", "slow", "async", "fail", "cancel-me", "unknown"}

func faulty(k string) bool {
	return k == "close" || k == "disconnect" || k == "readerr" || k == "writeerr"
}

type Params struct {
	N int `json:"n"`
}
type Result struct {
	N int    `json:"n"`
	M string `json:"m"`
}
type CancelParams struct {
	ID int64 `json:"id"`
}

var (
	errInjR = errors.New("harness: injected read error")
	errInjW = errors.New("harness: injected write error")
)

// ---- transport --------------------------------------------------------------------------------------

type duplex struct {
	r *io.PipeReader
	w *io.PipeWriter
}

func (d *duplex) Read(p []byte) (int, error)  { return d.r.Read(p) }
func (d *duplex) Write(p []byte) (int, error) { return d.w.Write(p) }
func (d *duplex) Close() error {
	d.r.Close()
	d.w.Close()
	return nil
}

type dialer struct{ rwc io.ReadWriteCloser }

func (d dialer) Dial(context.Context) (io.ReadWriteCloser, error) { return d.rwc, nil }

// fakenetRetains probes (once) whether fakenet hands the caller's buffer to its sink.
var fakenetRetains = sync.OnceValue(func() bool {
	got := make(chan []byte, 1)
	pr, pw := io.Pipe()
	conn := fakenet.NewConn("probe", pr, writerFunc(func(p []byte) (int, error) { got <- p; return len(p), nil }))
	buf := []byte("x")
	conn.Write(buf)
	p := <-got
	conn.Close()
	pw.Close()
	return &p[0] == &buf[0]
})

type writerFunc func([]byte) (int, error)

func (f writerFunc) Write(p []byte) (int, error) { return f(p) }
func (f writerFunc) Close() error                { return nil }

// ---- run state ----------------------------------------------------------------------------------------

type callRec struct {
	side, method string
	n            int
	ac           *jsonrpc2.AsyncCall
	issued       int64
	cancelSent   bool
	returned     bool
	res          Result
	err          error
	again        string
}

type asyncReq struct {
	id jsonrpc2.ID
	n  int
}

type wireMsg struct {
	from string // side that wrote it
	kind string // request | notify | response
	id   string
}

type closeRec struct {
	side       string
	start      int64
	returned   bool
	active     int
	state      jsonrpc2.VerifInFlight
	notReady   []int
	inFlight   int
	handlersUp int
}

type side struct {
	name     string
	conn     *jsonrpc2.Connection
	rwc      io.ReadWriteCloser
	peerRead *io.PipeWriter // writer end of the pipe this side reads from
	ownWrite *io.PipeReader // reader end of the pipe this side writes to
	slow     []chan struct{}
	relCred  int
	async    []asyncReq
	respCred int
	active   int
	handled  map[string]int
	notes    map[int]int
	internal []string
	closeOp  bool
}

type run struct {
	c         Case
	mu        sync.Mutex
	seq       int64
	sides     map[string]*side
	nextN     int
	issued    int
	completed int
	calls     []*callRec
	notifyErr []error
	wire      []wireMsg
	closes    []*closeRec
	hookCount map[string]int
	steps     []chan struct{}
	draining  bool
	drainCh   chan struct{}
	bg        sync.WaitGroup // closers and responders
	started   atomic.Bool
}

type binding struct {
	r *run
	s *side
}

var conns sync.Map // *jsonrpc2.Connection -> binding

func dispatch(c *jsonrpc2.Connection, point string) {
	if v, ok := conns.Load(c); ok {
		b := v.(binding)
		b.r.hook(b.s, point)
	}
}

func (r *run) hook(s *side, point string) {
	if !r.started.Load() { // Dial runs on the controller's goroutine: no script before the history starts
		return
	}
	key := s.name + "|" + point
	r.mu.Lock()
	k := r.hookCount[key]
	r.hookCount[key] = k + 1
	var y *Yield
	for i := range r.c.Script {
		if e := &r.c.Script[i]; e.Side == s.name && e.Point == point && e.K == k {
			y = e
			break
		}
	}
	r.mu.Unlock()
	if y == nil {
		return
	}
	for i := 0; i < y.Gosched; i++ {
		runtime.Gosched()
	}
	if y.ParkStep > 0 {
		i := y.ParkStep
		if i >= len(r.steps) {
			i = len(r.steps) - 1
		}
		<-r.steps[i]
	}
}

func (r *run) tick() int64 {
	r.mu.Lock()
	r.seq++
	s := r.seq
	r.mu.Unlock()
	return s
}

func idKey(id jsonrpc2.ID) string { return fmt.Sprintf("%T:%v", id.Raw(), id.Raw()) }

// ---- tee framer -----------------------------------------------------------------------------------------

type teeFramer struct {
	r *run
	s *side
}

func (t teeFramer) Reader(rw io.Reader) jsonrpc2.Reader { return jsonrpc2.HeaderFramer().Reader(rw) }
func (t teeFramer) Writer(rw io.Writer) jsonrpc2.Writer {
	return teeWriter{t, jsonrpc2.HeaderFramer().Writer(rw)}
}

type teeWriter struct {
	t     teeFramer
	inner jsonrpc2.Writer
}

func (w teeWriter) Write(ctx context.Context, msg jsonrpc2.Message) (int64, error) {
	m := wireMsg{from: w.t.s.name}
	switch v := msg.(type) {
	case *jsonrpc2.Request:
		m.kind, m.id = "notify", ""
		if v.IsCall() {
			m.kind, m.id = "request", idKey(v.ID)
		}
	case *jsonrpc2.Response:
		m.kind, m.id = "response", idKey(v.ID)
	}
	w.t.r.mu.Lock()
	w.t.r.wire = append(w.t.r.wire, m)
	w.t.r.mu.Unlock()
	return w.inner.Write(ctx, msg)
}

// ---- handler ----------------------------------------------------------------------------------------------

func (r *run) preempt(s *side) jsonrpc2.PreempterFunc {
	return func(ctx context.Context, req *jsonrpc2.Request) (any, error) {
		if req.Method != "cancel" || req.IsCall() {
			return nil, jsonrpc2.ErrNotHandled
		}
		var p CancelParams
		if json.Unmarshal(req.Params, &p) == nil {
			s.conn.Cancel(jsonrpc2.Int64ID(p.ID))
		}
		return nil, nil
	}
}

func (r *run) handle(s *side) jsonrpc2.HandlerFunc {
	return func(ctx context.Context, req *jsonrpc2.Request) (any, error) {
		var p Params
		json.Unmarshal(req.Params, &p)
		r.mu.Lock()
		s.active++
		if req.IsCall() {
			s.handled[idKey(req.ID)]++
		} else {
			s.notes[p.N]++
		}
		r.mu.Unlock()
		defer func() {
			r.mu.Lock()
			s.active--
			r.mu.Unlock()
		}()
		if !req.IsCall() {
			return nil, nil
		}
		echo := Result{N: p.N, M: req.Method}
		switch req.Method {
		case "echo":
			return echo, nil
		case "fail":
			return nil, jsonrpc2.NewError(4242, "fail")
		case "slow":
			r.mu.Lock()
			var gate chan struct{}
			switch {
			case r.draining:
			case s.relCred > 0:
				s.relCred--
			default:
				gate = make(chan struct{})
				s.slow = append(s.slow, gate)
			}
			r.mu.Unlock()
			if gate == nil {
				return echo, nil
			}
			select {
			case <-gate:
				return echo, nil
			case <-ctx.Done():
				return nil, ctx.Err()
			case <-r.drainCh:
				return echo, nil
			}
		case "cancel-me":
			select {
			case <-ctx.Done():
				return nil, ctx.Err()
			case <-r.drainCh:
				return echo, nil
			}
		case "async":
			r.mu.Lock()
			defer r.mu.Unlock()
			switch {
			case r.draining:
				return echo, nil
			case s.respCred > 0:
				s.respCred--
				return echo, nil
			}
			s.async = append(s.async, asyncReq{req.ID, p.N})
			return nil, jsonrpc2.ErrAsyncResponse
		}
		return nil, jsonrpc2.ErrNotHandled
	}
}

func (r *run) respond(s *side, q asyncReq) {
	r.bg.Add(1)
	go func() {
		defer r.bg.Done()
		s.conn.Respond(q.id, Result{N: q.n, M: "async"}, nil)
	}()
}

// ---- quiescence -------------------------------------------------------------------------------------------

var blockedStates = []string{"chan receive", "chan send", "select", "sync.Mutex.Lock", "sync.RWMutex", "sync.Cond.Wait", "sync.WaitGroup.Wait"}

var dumpBuf = make([]byte, 4<<20)

// snapshot takes one stop-the-world goroutine dump and reports whether every goroutine other
// than the caller is blocked on a channel, a lock or a condition. The state "semacquire" is
// ambiguous (a goroutine that wants to start a GC cycle waits on a runtime semaphore while the
// dump holds the world): it counts as blocked only when the goroutine sits in package sync.
func snapshot() (quiet bool, sig string, dump string) {
	n := runtime.Stack(dumpBuf, true)
	if n >= len(dumpBuf) {
		return false, "", ""
	}
	d := dumpBuf[:n]
	lines := bytes.Split(d, []byte("\n"))
	first := true
	var b strings.Builder
	for i, line := range lines {
		if !bytes.HasPrefix(line, []byte("goroutine ")) || !bytes.HasSuffix(line, []byte("]:")) {
			continue
		}
		if first { // the caller
			first = false
			continue
		}
		j := bytes.IndexByte(line, '[')
		state := string(line[j+1 : len(line)-2])
		top := ""
		if i+1 < len(lines) {
			top = string(lines[i+1])
		}
		ok := false
		for _, s := range blockedStates {
			if strings.HasPrefix(state, s) {
				ok = true
				break
			}
		}
		if strings.HasPrefix(state, "semacquire") && strings.HasPrefix(top, "sync.runtime_Semacquire") {
			ok = true
		}
		if !ok {
			return false, "", ""
		}
		b.Write(line[:j])
		b.WriteString(top)
		b.WriteByte(';')
	}
	return true, b.String(), string(d)
}

// quiesced: two identical quiescent snapshots with yields in between — nothing can happen any
// more unless the caller acts.
func quiesced() (bool, string) {
	q, sig, _ := snapshot()
	if !q {
		return false, ""
	}
	for i := 0; i < 8; i++ {
		runtime.Gosched()
	}
	q2, sig2, dump := snapshot()
	if !q2 || sig != sig2 {
		return false, ""
	}
	return true, dump
}

var hardCap = 60 * time.Second

// waitUntil spins (Gosched) until cond holds. It gives up when the whole process is quiescent
// (stalled = true, with the goroutine dump) or, as a last resort, after hardCap (capped = true).
func waitUntil(cond func() bool) (ok bool, dump string, capped bool) {
	var deadline time.Time
	for i := 1; ; i++ {
		if cond() {
			return true, "", false
		}
		if i%16 == 0 {
			if q, d := quiesced(); q {
				if cond() {
					return true, "", false
				}
				return false, d, false
			}
			if deadline.IsZero() {
				deadline = time.Now().Add(hardCap)
			} else if time.Now().After(deadline) {
				_, _, d := snapshot()
				if d == "" {
					d = string(dumpBuf[:runtime.Stack(dumpBuf, true)])
				}
				if os.Getenv("VK_C39_DEBUG") != "" {
					for _, g := range strings.Split(d, "\n\n") {
						l := strings.SplitN(g, "\n", 3)
						if len(l) >= 2 {
							fmt.Fprintf(os.Stderr, "CAP %s %s\n", l[0], l[1])
						}
					}
				}
				return false, d, true
			}
		}
		runtime.Gosched()
	}
}

// ---- execution ----------------------------------------------------------------------------------------------

type info struct {
	nontrivial, faults, valve bool
	calls, cancels            int
	outcomes                  map[string]int
}

func clip(s string, n int) string {
	if len(s) > n {
		return s[:n] + "…"
	}
	return s
}

func execute(c Case) (v *vk.Verdict, in info, capped bool) {
	in.outcomes = map[string]int{}
	total := 0
	for _, cl := range c.Clients {
		total += len(cl)
	}
	if len(c.Clients) > 8 || total > 200 || len(c.Timeline) > 64 {
		return vk.Bad("harness", "case too large"), in, false
	}
	r := &run{c: c, sides: map[string]*side{}, hookCount: map[string]int{}, drainCh: make(chan struct{})}
	for i := 0; i <= len(c.Timeline)+1; i++ {
		r.steps = append(r.steps, make(chan struct{}))
	}
	close(r.steps[0])
	ab := [2]*io.PipeReader{}
	abw := [2]*io.PipeWriter{}
	ab[0], abw[0] = io.Pipe() // a -> b
	ab[1], abw[1] = io.Pipe() // b -> a
	sa := &side{name: "a", handled: map[string]int{}, notes: map[int]int{}, peerRead: abw[1], ownWrite: ab[0]}
	sb := &side{name: "b", handled: map[string]int{}, notes: map[int]int{}, peerRead: abw[0], ownWrite: ab[1]}
	sa.rwc = &duplex{r: ab[1], w: abw[0]}
	sb.rwc = &duplex{r: ab[0], w: abw[1]}
	if c.Transport == "fakenet" && fakenetRetains() {
		c.Transport = "pipe" // finding C41-buffer-retained: a data race of fakenet itself would end the process
	}
	if c.Transport == "fakenet" {
		sa.rwc = fakenet.NewConn("a", sa.rwc, sa.rwc)
		sb.rwc = fakenet.NewConn("b", sb.rwc, sb.rwc)
	}
	r.sides["a"], r.sides["b"] = sa, sb
	for _, s := range []*side{sa, sb} {
		s := s
		binder := jsonrpc2.BinderFunc(func(_ context.Context, conn *jsonrpc2.Connection) jsonrpc2.ConnectionOptions {
			s.conn = conn
			conns.Store(conn, binding{r, s})
			return jsonrpc2.ConnectionOptions{Framer: teeFramer{r, s}, Preempter: r.preempt(s), Handler: r.handle(s),
				OnInternalError: func(err error) {
					r.mu.Lock()
					s.internal = append(s.internal, err.Error())
					r.mu.Unlock()
				}}
		})
		if _, err := jsonrpc2.Dial(ctx, dialer{s.rwc}, binder, nil); err != nil {
			return vk.Bad("harness", "Dial: %v", err), in, false
		}
	}
	defer func() {
		conns.Delete(sa.conn)
		conns.Delete(sb.conn)
	}()
	for _, cl := range c.Clients {
		for _, op := range cl {
			if r.sides[op.Side] == nil {
				return vk.Bad("harness", "unknown side %q", op.Side), in, false
			}
		}
	}
	for _, st := range c.Timeline {
		if r.sides[st.Side] == nil {
			return vk.Bad("harness", "unknown side %q", st.Side), in, false
		}
		if faulty(st.Kind) {
			in.faults = true
		}
	}

	r.started.Store(true)
	// client goroutines
	var clients sync.WaitGroup
	clientsDone := make(chan struct{})
	for _, ops := range c.Clients {
		clients.Add(1)
		go func(ops []ClientOp) {
			defer clients.Done()
			var mine, deferred []*callRec
			for _, op := range ops {
				s := r.sides[op.Side]
				r.mu.Lock()
				r.issued++
				r.nextN++
				n := r.nextN
				r.mu.Unlock()
				switch op.Kind {
				case "call":
					cr := &callRec{side: op.Side, method: op.Method, n: n}
					cr.ac = s.conn.Call(ctx, op.Method, Params{N: n})
					r.mu.Lock()
					r.seq++
					cr.issued = r.seq
					r.calls = append(r.calls, cr)
					r.mu.Unlock()
					mine = append(mine, cr)
					if op.Defer {
						deferred = append(deferred, cr)
					} else {
						r.await(cr)
					}
				case "notify":
					err := s.conn.Notify(ctx, "note", Params{N: n})
					r.mu.Lock()
					r.notifyErr = append(r.notifyErr, err)
					r.mu.Unlock()
				case "cancel":
					var tgt *callRec
					k := op.Ref
					for i := len(mine) - 1; i >= 0; i-- {
						if mine[i].side == op.Side {
							if k == 0 {
								tgt = mine[i]
								break
							}
							k--
						}
					}
					if tgt == nil {
						continue
					}
					id, _ := tgt.ac.ID().Raw().(int64)
					r.mu.Lock()
					tgt.cancelSent = true
					r.mu.Unlock()
					err := s.conn.Notify(ctx, "cancel", CancelParams{ID: id})
					r.mu.Lock()
					r.notifyErr = append(r.notifyErr, err)
					r.mu.Unlock()
				}
			}
			for _, cr := range deferred {
				r.await(cr)
			}
		}(ops)
	}
	go func() { clients.Wait(); close(clientsDone) }()

	// the controller's timeline
	for i, st := range c.Timeline {
		s := r.sides[st.Side]
		t := st.After
		ok, _, cp := waitUntil(func() bool {
			r.mu.Lock()
			defer r.mu.Unlock()
			switch t.Kind {
			case "issued":
				return r.issued >= t.N
			case "completed":
				return r.completed >= t.N
			case "hook":
				return r.hookCount[t.Side+"|"+t.Point] >= t.N
			}
			return true
		})
		if cp {
			capped = true
		}
		if !ok {
			in.valve = true
		}
		for g := 0; g < st.Gosched; g++ {
			runtime.Gosched()
		}
		close(r.steps[i+1])
		r.mu.Lock()
		inFlight, up := 0, sa.active+sb.active
		for _, cr := range r.calls {
			if !cr.returned {
				inFlight++
			}
		}
		if faulty(st.Kind) && inFlight > 0 && up > 0 {
			in.nontrivial = true
		}
		r.mu.Unlock()
		switch st.Kind {
		case "release":
			r.mu.Lock()
			if len(s.slow) > 0 {
				close(s.slow[0])
				s.slow = s.slow[1:]
			} else {
				s.relCred++
			}
			r.mu.Unlock()
		case "respond":
			r.mu.Lock()
			if len(s.async) > 0 {
				q := s.async[0]
				s.async = s.async[1:]
				r.mu.Unlock()
				r.respond(s, q)
			} else {
				s.respCred++
				r.mu.Unlock()
			}
		case "close":
			r.closeSide(s)
			// "Close has been called" = the connection has taken note of it
			waitUntil(func() bool { return s.conn.VerifState().ConnClosing })
		case "disconnect":
			s.rwc.Close()
		case "readerr":
			s.peerRead.CloseWithError(errInjR)
		case "writeerr":
			s.ownWrite.CloseWithError(errInjW)
		}
	}
	close(r.steps[len(r.steps)-1])

	// let the clients finish; when everything is blocked, release and answer whatever the
	// handlers still hold, once
	drained := false
	for {
		ok, dump, cp := waitUntil(func() bool {
			select {
			case <-clientsDone:
				return true
			default:
				return false
			}
		})
		if ok {
			break
		}
		if cp {
			r.drain()
			defer r.abort()
			return vk.Bad("no-quiescence", "calls neither complete nor does the process become quiescent within %v; goroutines:\n%s", hardCap, clip(dump, 30000)), in, true
		}
		if drained {
			defer r.abort()
			if readLoopsWriting(dump) >= 2 {
				return vk.Bad("read-loop-write-deadlock", "every goroutine is blocked: the read loops of both connections are writing a response (acceptRequest -> processResult -> write) while the peer, doing the same, does not read; %s; goroutines:\n%s", r.unreturned(), clip(dump, 30000)), in, false
			}
			return vk.Bad("await-stall", "every goroutine is blocked, all handlers have been released and answered, yet %s; goroutines:\n%s", r.unreturned(), clip(dump, 30000)), in, false
		}
		drained = true
		r.drain()
	}
	if !drained {
		r.drain()
	}
	// close both sides and wait for every Close and Respond
	for _, s := range []*side{sa, sb} {
		if !s.closeOp {
			r.closeSide(s)
		}
	}
	bgDone := make(chan struct{})
	go func() { r.bg.Wait(); close(bgDone) }()
	ok, dump, cp := waitUntil(func() bool {
		select {
		case <-bgDone:
			return true
		default:
			return false
		}
	})
	if !ok {
		defer r.abort()
		if cp {
			return vk.Bad("no-quiescence", "Close neither returns nor does the process become quiescent within %v; goroutines:\n%s", hardCap, clip(dump, 30000)), in, true
		}
		return vk.Bad("close-stall", "every goroutine is blocked, no call and no handler is outstanding, yet Close has not returned (a: %+v, b: %+v); goroutines:\n%s",
			sa.conn.VerifState(), sb.conn.VerifState(), clip(dump, 30000)), in, false
	}
	return r.judge(&in), in, capped
}

// readLoopsWriting counts goroutines that are inside readIncoming and, further up the stack,
// inside Connection.write.
func readLoopsWriting(dump string) int {
	// only the connections of this execution: their read loops were started (by Dial) on the
	// goroutine that took the dump, which is the first one in it
	self := ""
	if f := strings.Fields(dump); len(f) > 1 && f[0] == "goroutine" {
		self = "in goroutine " + f[1] + "\n"
	}
	n := 0
	for _, g := range strings.Split(dump, "\n\n") {
		if strings.Contains(g+"\n", self) && strings.Contains(g, ".(*Connection).readIncoming(") && strings.Contains(g, ".(*Connection).processResult(") && strings.Contains(g, ".(*Connection).write(") {
			n++
		}
	}
	return n
}

func (r *run) unreturned() string {
	r.mu.Lock()
	defer r.mu.Unlock()
	var b []string
	for _, cr := range r.calls {
		if !cr.returned {
			b = append(b, fmt.Sprintf("Await of %s call #%d on side %s (id %v) has not returned", cr.method, cr.n, cr.side, cr.ac.ID().Raw()))
		}
	}
	if len(b) == 0 {
		return "a client goroutine is stuck inside Call or Notify"
	}
	return strings.Join(b, "; ")
}

// abort tears the transport down so that the goroutines of a stalled execution go away.
func (r *run) abort() {
	for _, s := range r.sides {
		s.rwc.Close()
		s.peerRead.CloseWithError(io.ErrClosedPipe)
		s.ownWrite.CloseWithError(io.ErrClosedPipe)
	}
}

func (r *run) drain() {
	r.mu.Lock()
	if r.draining {
		r.mu.Unlock()
		return
	}
	r.draining = true
	close(r.drainCh)
	var pend []struct {
		s *side
		q asyncReq
	}
	for _, s := range r.sides {
		for _, q := range s.async {
			pend = append(pend, struct {
				s *side
				q asyncReq
			}{s, q})
		}
		s.async = nil
	}
	r.mu.Unlock()
	for _, p := range pend {
		r.respond(p.s, p.q)
	}
}

func (r *run) await(cr *callRec) {
	var res Result
	err := cr.ac.Await(ctx, &res)
	var res2 Result
	err2 := cr.ac.Await(ctx, &res2)
	r.mu.Lock()
	cr.res, cr.err, cr.returned = res, err, true
	if res != res2 || fmt.Sprint(err) != fmt.Sprint(err2) {
		cr.again = fmt.Sprintf("first (%+v, %v), second (%+v, %v)", res, err, res2, err2)
	}
	r.completed++
	r.mu.Unlock()
}

func (r *run) closeSide(s *side) {
	s.closeOp = true
	cl := &closeRec{side: s.name}
	r.mu.Lock()
	r.seq++
	cl.start = r.seq
	r.closes = append(r.closes, cl)
	r.mu.Unlock()
	r.bg.Add(1)
	go func() {
		defer r.bg.Done()
		s.conn.Close()
		st := s.conn.VerifState()
		r.mu.Lock()
		cl.returned, cl.state, cl.active = true, st, s.active
		for _, cr := range r.calls {
			if cr.side == s.name && cr.issued < cl.start && !cr.ac.IsReady() {
				cl.notReady = append(cl.notReady, cr.n)
			}
		}
		r.mu.Unlock()
	}()
}

func outcome(err error) string {
	switch {
	case err == nil:
		return "ok"
	case errors.Is(err, jsonrpc2.NewError(4242, "")):
		return "fail"
	case errors.Is(err, jsonrpc2.ErrMethodNotFound):
		return "method-not-found"
	case errors.Is(err, jsonrpc2.ErrClientClosing):
		return "client-closing"
	case errors.Is(err, jsonrpc2.ErrServerClosing):
		return "server-closing"
	case errors.Is(err, errInjR), errors.Is(err, errInjW):
		return "injected"
	case errors.Is(err, io.ErrUnexpectedEOF):
		return "unexpected-eof"
	case errors.Is(err, io.EOF):
		return "eof"
	case errors.Is(err, io.ErrClosedPipe):
		return "closed-pipe"
	case strings.Contains(err.Error(), context.Canceled.Error()):
		return "canceled"
	}
	return "other"
}

var transportErr = map[string]bool{"client-closing": true, "server-closing": true, "injected": true, "unexpected-eof": true, "eof": true, "closed-pipe": true}

func (r *run) judge(in *info) *vk.Verdict {
	r.mu.Lock()
	defer r.mu.Unlock()
	for _, s := range r.sides {
		if len(s.internal) > 0 {
			return vk.Bad("internal-error", "side %s reported internal error(s): %q", s.name, s.internal)
		}
	}
	in.calls = len(r.calls)
	for _, cr := range r.calls {
		what := fmt.Sprintf("%s call #%d on side %s (id %v)", cr.method, cr.n, cr.side, cr.ac.ID().Raw())
		if !cr.returned {
			return vk.Bad("await-stall", "Await of %s has not returned", what)
		}
		if cr.again != "" {
			return vk.Bad("await-differs", "%s: two Awaits gave different answers: %s", what, cr.again)
		}
		if cr.cancelSent {
			in.cancels++
		}
		o := outcome(cr.err)
		in.outcomes[o]++
		switch {
		case o == "ok":
			if cr.res.N != cr.n || cr.res.M != cr.method {
				return vk.Bad("wrong-answer", "%s was answered with %+v: not its own result", what, cr.res)
			}
			if cr.method == "fail" || cr.method == "unknown" {
				return vk.Bad("wrong-answer", "%s succeeded with %+v although its handler returns an error", what, cr.res)
			}
		case o == "fail" && cr.method == "fail", o == "method-not-found" && cr.method == "unknown":
		case o == "canceled" && (cr.cancelSent || in.faults):
		case transportErr[o] && in.faults:
		default:
			return vk.Bad("unexpected-error", "%s: Await returned %q (%s); cancel sent: %v, fault ops in the history: %v", what, cr.err, o, cr.cancelSent, in.faults)
		}
	}
	for _, err := range r.notifyErr {
		if o := outcome(err); o != "ok" && !(transportErr[o] && in.faults) {
			return vk.Bad("notify-error", "Notify returned %q (%s) in a history with fault ops: %v", err, o, in.faults)
		}
	}
	// the wire: requests have fresh ids, at most one response per request, none unasked
	asked, answered := map[string]bool{}, map[string]int{}
	for _, m := range r.wire {
		other := "a"
		if m.from == "a" {
			other = "b"
		}
		switch m.kind {
		case "request":
			if asked[m.from+m.id] {
				return vk.Bad("request-id-reused", "side %s wrote two requests with id %s", m.from, m.id)
			}
			asked[m.from+m.id] = true
		case "response":
			if !asked[other+m.id] {
				return vk.Bad("response-unasked", "side %s wrote a response to id %s which side %s had not requested", m.from, m.id, other)
			}
			answered[m.from+m.id]++
			if answered[m.from+m.id] > 1 {
				return vk.Bad("double-response", "side %s wrote %d responses to request id %s", m.from, answered[m.from+m.id], m.id)
			}
		}
	}
	for _, s := range r.sides {
		for id, n := range s.handled {
			if n > 1 {
				return vk.Bad("handled-twice", "the handler of side %s saw call id %s %d times", s.name, id, n)
			}
		}
		for n, k := range s.notes {
			if k > 1 {
				return vk.Bad("notification-duplicated", "notification #%d was delivered %d times to side %s", n, k, s.name)
			}
		}
		if s.active != 0 {
			return vk.Bad("handler-after-close", "side %s still has %d handler(s) running after both connections were closed", s.name, s.active)
		}
		if st := s.conn.VerifState(); !st.Idle || !st.Done {
			return vk.Bad("not-idle-after-close", "side %s after Close returned: %+v", s.name, st)
		}
	}
	for _, cl := range r.closes {
		if !cl.returned {
			return vk.Bad("close-stall", "Close of side %s has not returned", cl.side)
		}
		if cl.active != 0 {
			return vk.Bad("close-before-handlers", "Close of side %s returned while %d handler(s) of that side were still running", cl.side, cl.active)
		}
		if !cl.state.Idle || !cl.state.Done {
			return vk.Bad("not-idle-after-close", "side %s when Close returned: %+v", cl.side, cl.state)
		}
		if len(cl.notReady) > 0 {
			return vk.Bad("call-not-ready-after-close", "Close of side %s returned, calls %v issued before it began are not ready", cl.side, cl.notReady)
		}
	}
	return nil
}

func check(c Case) (*vk.Verdict, info) {
	v, in, capped := execute(c)
	if !capped {
		return v, in
	}
	for i := 0; i < 2; i++ {
		if v2, in2, c2 := execute(c); !c2 {
			return v2, in2
		}
	}
	return v, in
}

var oracle = vk.Register("history", func(c Case) *vk.Verdict { v, _ := check(c); return v })

// ---- generator ------------------------------------------------------------------------------------------------

func genCase(t *rapid.T) Case {
	var c Case
	c.Transport = rapid.SampledFrom([]string{"pipe", "pipe", "fakenet"}).Draw(t, "transport")
	if c.Transport == "fakenet" && fakenetRetains() {
		vk.R.Excluded("steered-away:fakenet-transport(C41-buffer-retained)")
		c.Transport = "pipe"
	}
	sideG := rapid.SampledFrom([]string{"a", "a", "b"})
	opG := rapid.Custom(func(t *rapid.T) ClientOp {
		op := ClientOp{Side: sideG.Draw(t, "side")}
		switch rapid.IntRange(0, 9).Draw(t, "opkind") {
		case 0:
			op.Kind = "notify"
		case 1, 2:
			op.Kind, op.Ref = "cancel", rapid.IntRange(0, 2).Draw(t, "ref")
		default:
			op.Kind, op.Method = "call", rapid.SampledFrom(methods).Draw(t, "method")
			op.Defer = rapid.IntRange(0, 2).Draw(t, "defer") > 0
		}
		return op
	})
	nc := rapid.IntRange(1, 4).Draw(t, "clients")
	total := 0
	for i := 0; i < nc; i++ {
		ops := rapid.SliceOfN(opG, 1, 10).Draw(t, "ops")
		total += len(ops)
		c.Clients = append(c.Clients, ops)
	}
	kinds := []string{"release", "release", "respond", "respond", "close", "close", "disconnect", "readerr", "writeerr"}
	if rapid.IntRange(0, 3).Draw(t, "nofault") == 0 {
		kinds = kinds[:4]
	}
	nt := rapid.IntRange(0, 6).Draw(t, "steps")
	closed := map[string]bool{}
	for i := 0; i < nt; i++ {
		st := Control{Kind: rapid.SampledFrom(kinds).Draw(t, "ckind"), Side: sideG.Draw(t, "cside"), Gosched: rapid.SampledFrom([]int{0, 0, 1, 4}).Draw(t, "cgosched")}
		if st.Kind == "close" {
			if closed[st.Side] {
				st.Kind = "release"
			}
			closed[st.Side] = true
		}
		switch rapid.IntRange(0, 3).Draw(t, "trigger") {
		case 0:
		case 1:
			st.After = Trigger{Kind: "issued", N: rapid.IntRange(1, total).Draw(t, "tn")}
		case 2:
			st.After = Trigger{Kind: "completed", N: rapid.IntRange(1, total).Draw(t, "tn")}
		case 3:
			st.After = Trigger{Kind: "hook", N: rapid.IntRange(1, 12).Draw(t, "tn"), Side: sideG.Draw(t, "tside"), Point: rapid.SampledFrom(hookPoints).Draw(t, "tpoint")}
		}
		c.Timeline = append(c.Timeline, st)
	}
	ny := rapid.IntRange(0, 8).Draw(t, "yields")
	for i := 0; i < ny; i++ {
		y := Yield{Side: sideG.Draw(t, "yside"), Point: rapid.SampledFrom(hookPoints).Draw(t, "ypoint"), K: rapid.IntRange(0, 20).Draw(t, "yk"),
			Gosched: rapid.SampledFrom([]int{0, 1, 3, 10}).Draw(t, "ygosched")}
		if rapid.IntRange(0, 2).Draw(t, "park?") == 0 {
			y.ParkStep = rapid.IntRange(1, nt+1).Draw(t, "parkstep")
		}
		c.Script = append(c.Script, y)
	}
	return c
}

type failer interface {
	Fatalf(string, ...any)
	Helper()
}

func run1(t failer, c Case, class string) {
	var in info
	v := vk.R.Guard("history", c, 240*time.Second, func() *vk.Verdict {
		var v *vk.Verdict
		v, in = check(c)
		return v
	})
	js, _ := json.Marshal(c)
	vk.R.Case(in.nontrivial, string(js))
	vk.R.Class(class)
	vk.R.Class("transport=" + c.Transport)
	if in.faults {
		vk.R.Class("history=with-fault-ops")
	} else {
		vk.R.Class("history=fault-free")
	}
	if in.nontrivial {
		vk.R.Class("fault-while-call-in-flight-and-handler-running")
	}
	if in.valve {
		vk.R.Class("controller-advanced-on-quiescence")
	}
	if in.cancels > 0 {
		vk.R.Class("has-cancelled-call")
	}
	for o, n := range in.outcomes {
		vk.R.ClassN("await="+o, int64(n))
	}
	if in.nontrivial {
		vk.R.Sample(string(js))
	}
	vk.R.Check(t, "history", c, v)
}

func TestHistories(t *testing.T) {
	vk.R.Rapid(t, 1, 1500, 40000, func(t *rapid.T) {
		run1(t, genCase(t), "src=generated")
	})
}

// TestShapes: deterministic shapes (fixed corpus).
func TestShapes(t *testing.T) {
	if vk.R.Shard != 0 {
		return
	}
	shapes := []Case{
		// crossing calls, both sides closing: each read loop rejects the peer's call by writing
		// from the read loop
		{Transport: "pipe", Clients: [][]ClientOp{{{Kind: "call", Side: "a", Method: "echo", Defer: true}}, {{Kind: "call", Side: "b", Method: "echo", Defer: true}}},
			Timeline: []Control{{Kind: "close", Side: "a", After: Trigger{Kind: "hook", N: 1, Side: "b", Point: "read:msg"}}, {Kind: "close", Side: "b", After: Trigger{Kind: "hook", N: 1, Side: "a", Point: "read:msg"}}},
			Script:   []Yield{{Side: "a", Point: "read:msg", K: 0, ParkStep: 3}, {Side: "b", Point: "read:msg", K: 0, ParkStep: 3}}},
		// Close while a slow handler runs and a call is in flight
		{Transport: "pipe", Clients: [][]ClientOp{{{Kind: "call", Side: "a", Method: "slow"}}, {{Kind: "call", Side: "a", Method: "echo", Defer: true}, {Kind: "call", Side: "b", Method: "async"}}},
			Timeline: []Control{{Kind: "close", Side: "b", After: Trigger{Kind: "issued", N: 2}}, {Kind: "release", Side: "b"}, {Kind: "respond", Side: "a"}}},
		// the peer vanishes while calls are outstanding
		{Transport: "pipe", Clients: [][]ClientOp{{{Kind: "call", Side: "a", Method: "cancel-me"}}, {{Kind: "call", Side: "a", Method: "slow", Defer: true}, {Kind: "call", Side: "a", Method: "async"}}},
			Timeline: []Control{{Kind: "disconnect", Side: "b", After: Trigger{Kind: "issued", N: 3}}}},
	}
	for _, c := range shapes {
		for rep := 0; rep < 10; rep++ {
			run1(t, c, "src=shapes")
		}
	}
}

package astsynth

import (
	"fmt"
	"strings"

	"github.com/goplus/xgo/ast"
	"github.com/goplus/xgo/token"
)

// Spec describes one node. The meaning of Op, S, F and the child slots C depends on the kind K
// (see the table in Build). A nil child stands for an absent optional part.
type Spec struct {
	K  string  `json:"k"`
	Op string  `json:"op,omitempty"`
	S  string  `json:"s,omitempty"`
	F  int     `json:"f,omitempty"`
	C  []*Spec `json:"c,omitempty"`
}

const flagPosValue = token.Pos(1) // value of the positions that act as syntax flags

var tokByText = func() map[string]token.Token {
	m := map[string]token.Token{}
	for t := token.Token(0); t < 200; t++ {
		if s := t.String(); s != "" && !strings.HasPrefix(s, "token(") {
			if _, dup := m[s]; !dup {
				m[s] = t
			}
		}
	}
	return m
}()

func tok(s string) token.Token {
	t, ok := tokByText[s]
	if !ok {
		panic("astsynth: unknown token " + s)
	}
	return t
}

func id(name string) *ast.Ident { return &ast.Ident{Name: name} }

func idents(s string) []*ast.Ident {
	if s == "" {
		return nil
	}
	var out []*ast.Ident
	for _, n := range strings.Split(s, ",") {
		out = append(out, id(n))
	}
	return out
}

func (s *Spec) child(i int) *Spec {
	if s == nil || i >= len(s.C) {
		return nil
	}
	return s.C[i]
}

// Slot names the child slot i of kind k (for failure classes).
func Slot(k string, i int) string {
	names := map[string][]string{
		"Unary": {"X"}, "Star": {"X"}, "Binary": {"X", "Y"}, "Call": {"Fun", "Args"}, "CmdCall": {"Fun", "Args"}, "Index": {"X", "Index"},
		"IndexList": {"X", "Indices"}, "Slice": {"X", "Low", "High", "Max"}, "Selector": {"X"}, "TypeAssert": {"X", "Type"},
		"Composite": {"Type", "Elts"}, "KeyValue": {"Key", "Value"}, "SliceLit": {"Elts"}, "FuncLit": {"Body"}, "Lambda": {"Rhs"},
		"Lambda2": {"Body"}, "ErrWrap": {"X", "Default"}, "Compr": {"Elt", "Fors"}, "For": {"X", "Cond"}, "Range": {"First", "Last", "Expr3"},
		"ArrayType": {"Len", "Elt"}, "MapType": {"Key", "Value"},
		"ExprStmt": {"X"}, "Assign": {"Operands"}, "Send": {"Chan", "Values"}, "IncDec": {"X"}, "Return": {"Results"}, "If": {"Cond", "Body", "Else"},
		"Block": {"List"}, "ForCond": {"Cond", "Body"}, "ForIn": {"X", "Cond", "Body"}, "RangeStmt": {"X", "Body"}, "Switch": {"Tag", "Cases"},
		"Case": {"List"}, "Defer": {"Call"}, "Go": {"Call"},
	}[k]
	if len(names) == 0 {
		return fmt.Sprint(i)
	}
	if i >= len(names) {
		i = len(names) - 1
	}
	return names[i]
}

// IsLeaf reports kinds without expression children.
func (s *Spec) IsLeaf() bool {
	switch s.K {
	case "Ident", "Lit", "Unit", "Env", "DomainText":
		return true
	}
	return false
}

// IsStmt reports statement kinds.
func (s *Spec) IsStmt() bool {
	switch s.K {
	case "ExprStmt", "Assign", "Send", "IncDec", "Return", "If", "Block", "ForCond", "ForIn", "RangeStmt", "Switch", "Defer", "Go":
		return true
	}
	return false
}

func exprs(cs []*Spec) []ast.Expr {
	var out []ast.Expr
	for _, c := range cs {
		out = append(out, BuildExpr(c))
	}
	return out
}

func stmts(cs []*Spec) []ast.Stmt {
	var out []ast.Stmt
	for _, c := range cs {
		out = append(out, BuildStmt(c))
	}
	return out
}

func block(s *Spec) *ast.BlockStmt {
	if s == nil {
		return &ast.BlockStmt{}
	}
	return &ast.BlockStmt{List: stmts(s.C)}
}

func optExpr(s *Spec) ast.Expr {
	if s == nil {
		return nil
	}
	return BuildExpr(s)
}

func forPhrase(s *Spec) *ast.ForPhrase {
	names := idents(s.S)
	fp := &ast.ForPhrase{X: BuildExpr(s.child(0)), Cond: optExpr(s.child(1))}
	if len(names) == 2 {
		fp.Key, fp.Value = names[0], names[1]
	} else {
		fp.Value = names[0]
	}
	return fp
}

// BuildExpr builds the expression a Spec describes:
//
//	Ident S=name · Lit Op=kind S=text · Unit Op=kind S="value|unit" · Env S=name F&1=braces ·
//	DomainText S="domain|`text`" · Unary Op C[X] · Star C[X] · Binary Op C[X,Y] ·
//	Call C[Fun,Args…] F&1=ellipsis · CmdCall C[Fun,Args…] (command style, F&1=ellipsis) · Index C[X,Index] · IndexList C[X,Indices…] ·
//	Slice C[X,Low?,High?,Max?] F&1=3-index · Selector C[X] S=sel · TypeAssert C[X,Type] ·
//	Composite C[Type?,Elts…] · KeyValue C[Key,Value] · SliceLit C[Elts…] · FuncLit F&1=param F&2=result C[stmts…] ·
//	Lambda S="a,b" F&1=LhsHasParen F&2=RhsHasParen C[Rhs…] · Lambda2 S F&1 C[stmts…] ·
//	ErrWrap Op=!|?|?: C[X,Default?] · Compr Op=[|{ C[Elt?,For…] · For S="k,v" C[X,Cond?] ·
//	Range C[First?,Last?,Expr3?] · ArrayType C[Len?,Elt] · MapType C[Key,Value] · FuncType
func BuildExpr(s *Spec) ast.Expr {
	switch s.K {
	case "Ident":
		return id(s.S)
	case "Lit":
		return &ast.BasicLit{Kind: tok(s.Op), Value: s.S}
	case "Unit":
		p := strings.SplitN(s.S, "|", 2)
		return &ast.NumberUnitLit{Kind: tok(s.Op), Value: p[0], Unit: p[1]}
	case "Env":
		e := &ast.EnvExpr{Name: id(s.S)}
		if s.F&1 != 0 {
			e.Rbrace = flagPosValue
		}
		return e
	case "DomainText":
		p := strings.SplitN(s.S, "|", 2)
		return &ast.DomainTextLit{Domain: id(p[0]), Value: p[1]}
	case "Unary":
		return &ast.UnaryExpr{Op: tok(s.Op), X: BuildExpr(s.C[0])}
	case "Star":
		return &ast.StarExpr{X: BuildExpr(s.C[0])}
	case "Binary":
		return &ast.BinaryExpr{X: BuildExpr(s.C[0]), Op: tok(s.Op), Y: BuildExpr(s.C[1])}
	case "Call", "CmdCall":
		c := &ast.CallExpr{Fun: BuildExpr(s.C[0]), Args: exprs(s.C[1:])}
		if s.F&1 != 0 {
			c.Ellipsis = flagPosValue
		}
		if s.K == "CmdCall" {
			c.NoParenEnd = flagPosValue
		}
		return c
	case "Index":
		return &ast.IndexExpr{X: BuildExpr(s.C[0]), Index: BuildExpr(s.C[1])}
	case "IndexList":
		return &ast.IndexListExpr{X: BuildExpr(s.C[0]), Indices: exprs(s.C[1:])}
	case "Slice":
		return &ast.SliceExpr{X: BuildExpr(s.C[0]), Low: optExpr(s.child(1)), High: optExpr(s.child(2)), Max: optExpr(s.child(3)), Slice3: s.F&1 != 0}
	case "Selector":
		return &ast.SelectorExpr{X: BuildExpr(s.C[0]), Sel: id(s.S)}
	case "TypeAssert":
		return &ast.TypeAssertExpr{X: BuildExpr(s.C[0]), Type: BuildExpr(s.C[1])}
	case "Composite":
		return &ast.CompositeLit{Type: optExpr(s.child(0)), Elts: exprs(s.C[1:])}
	case "KeyValue":
		return &ast.KeyValueExpr{Key: BuildExpr(s.C[0]), Value: BuildExpr(s.C[1])}
	case "SliceLit":
		return &ast.SliceLit{Elts: exprs(s.C)}
	case "FuncLit":
		return &ast.FuncLit{Type: funcType(s.F), Body: &ast.BlockStmt{List: stmts(s.C)}}
	case "FuncType":
		return funcType(s.F)
	case "Lambda":
		return &ast.LambdaExpr{Lhs: idents(s.S), Rhs: exprs(s.C), LhsHasParen: s.F&1 != 0, RhsHasParen: s.F&2 != 0}
	case "Lambda2":
		return &ast.LambdaExpr2{Lhs: idents(s.S), Body: &ast.BlockStmt{List: stmts(s.C)}, LhsHasParen: s.F&1 != 0}
	case "ErrWrap":
		e := &ast.ErrWrapExpr{X: BuildExpr(s.C[0]), Tok: tok(s.Op[:1])}
		if s.Op == "?:" {
			e.Default = BuildExpr(s.C[1])
		}
		return e
	case "Compr":
		c := &ast.ComprehensionExpr{Tok: tok(s.Op), Elt: optExpr(s.child(0))}
		for _, f := range s.C[1:] {
			c.Fors = append(c.Fors, forPhrase(f))
		}
		return c
	case "Range":
		return &ast.RangeExpr{First: optExpr(s.child(0)), Last: optExpr(s.child(1)), Expr3: optExpr(s.child(2))}
	case "ArrayType":
		return &ast.ArrayType{Len: optExpr(s.child(0)), Elt: BuildExpr(s.C[1])}
	case "MapType":
		return &ast.MapType{Key: BuildExpr(s.C[0]), Value: BuildExpr(s.C[1])}
	}
	panic("astsynth: not an expression kind: " + s.K)
}

func funcType(f int) *ast.FuncType {
	ft := &ast.FuncType{Params: &ast.FieldList{}}
	if f&1 != 0 {
		ft.Params.List = []*ast.Field{{Names: []*ast.Ident{id("p")}, Type: id("int")}}
	}
	if f&2 != 0 {
		ft.Results = &ast.FieldList{List: []*ast.Field{{Type: id("int")}}}
	}
	return ft
}

// BuildStmt builds a statement:
//
//	ExprStmt C[X] · Assign Op F=number of left operands C[lhs…,rhs…] · Send C[Chan,Values…] · IncDec Op C[X] ·
//	Return C[Results…] · If C[Cond,Block,Else?] · Block C[stmts…] · ForCond C[Cond?,Block] ·
//	ForIn S="k,v" C[X,Cond?,Block] · RangeStmt S="k,v" Op=:=|= C[X,Block] · Switch C[Tag?,Case…] · Case C[exprs…] ·
//	Defer C[Call] · Go C[Call]
func BuildStmt(s *Spec) ast.Stmt {
	switch s.K {
	case "ExprStmt":
		return &ast.ExprStmt{X: BuildExpr(s.C[0])}
	case "Assign":
		return &ast.AssignStmt{Lhs: exprs(s.C[:s.F]), Tok: tok(s.Op), Rhs: exprs(s.C[s.F:])}
	case "Send":
		return &ast.SendStmt{Chan: BuildExpr(s.C[0]), Values: exprs(s.C[1:])}
	case "IncDec":
		return &ast.IncDecStmt{X: BuildExpr(s.C[0]), Tok: tok(s.Op)}
	case "Return":
		return &ast.ReturnStmt{Results: exprs(s.C)}
	case "If":
		st := &ast.IfStmt{Cond: BuildExpr(s.C[0]), Body: block(s.child(1))}
		if e := s.child(2); e != nil {
			st.Else = BuildStmt(e)
		}
		return st
	case "Block":
		return block(s)
	case "ForCond":
		return &ast.ForStmt{Cond: optExpr(s.child(0)), Body: block(s.child(1))}
	case "ForIn":
		return &ast.ForPhraseStmt{ForPhrase: forPhrase(&Spec{S: s.S, C: []*Spec{s.C[0], s.child(1)}}), Body: block(s.child(2))}
	case "RangeStmt":
		names := idents(s.S)
		st := &ast.RangeStmt{Tok: tok(s.Op), X: BuildExpr(s.C[0]), Body: block(s.child(1))}
		st.Key = names[0]
		if len(names) > 1 {
			st.Value = names[1]
		}
		return st
	case "Switch":
		st := &ast.SwitchStmt{Tag: optExpr(s.child(0)), Body: &ast.BlockStmt{}}
		for _, c := range s.C[1:] {
			st.Body.List = append(st.Body.List, &ast.CaseClause{List: exprs(c.C)})
		}
		return st
	case "Defer":
		return &ast.DeferStmt{Call: BuildExpr(s.C[0]).(*ast.CallExpr)}
	case "Go":
		return &ast.GoStmt{Call: BuildExpr(s.C[0]).(*ast.CallExpr)}
	}
	panic("astsynth: not a statement kind: " + s.K)
}

// Build builds the node of a Spec (statement or expression).
func Build(s *Spec) ast.Node {
	if s.IsStmt() {
		return BuildStmt(s)
	}
	return BuildExpr(s)
}

// ---- reference rendering ---------------------------------------------------------------------

// Render writes s as source text with parentheses around every operand that is not a leaf: the
// trivially correct way to print a tree. A Spec belongs to the domain of C22 (the image of
// strip-parens∘parse) iff this text parses back to Build(s); bareFirst prints the first
// argument of a command-style call without parentheses (`f a+b, c`), since `f (a+b), c` is a
// different program.
func Render(s *Spec, bareFirst bool) string {
	r := &renderer{bareFirst: bareFirst}
	r.node(s, false)
	return r.b.String()
}

type renderer struct {
	b         strings.Builder
	bareFirst bool
}

func (r *renderer) w(parts ...string) {
	for _, p := range parts {
		r.b.WriteString(p)
	}
}

// operand: parenthesised unless a leaf.
func (r *renderer) operand(s *Spec) {
	if s == nil {
		return
	}
	switch {
	case s.IsLeaf(), s.K == "ArrayType", s.K == "MapType", s.K == "FuncType":
		r.node(s, false)
	default:
		r.w("(")
		r.node(s, false)
		r.w(")")
	}
}

func (r *renderer) list(cs []*Spec, sep string, bare bool) {
	for i, c := range cs {
		if i > 0 {
			r.w(sep)
		}
		if bare {
			r.node(c, false)
		} else {
			r.operand(c)
		}
	}
}

func (r *renderer) stmtList(cs []*Spec) {
	r.w("{")
	for _, c := range cs {
		r.w("\n")
		r.node(c, true)
	}
	r.w("\n}")
}

func (r *renderer) body(s *Spec) {
	if s == nil {
		r.w("{\n}")
		return
	}
	r.stmtList(s.C)
}

func (r *renderer) forPhrase(s *Spec) {
	r.w("for ", strings.ReplaceAll(s.S, ",", ", "), " in ")
	r.operand(s.C[0])
	if c := s.child(1); c != nil {
		r.w(" if ")
		r.operand(c)
	}
}

func (r *renderer) node(s *Spec, _ bool) {
	switch s.K {
	case "Ident", "Lit":
		if s.Op == "CSTRING" {
			r.w("c")
		}
		r.w(s.S)
	case "Unit":
		r.w(strings.Replace(s.S, "|", "", 1))
	case "Env":
		if s.F&1 != 0 {
			r.w("${", s.S, "}")
		} else {
			r.w("$", s.S)
		}
	case "DomainText":
		r.w(strings.Replace(s.S, "|", "", 1))
	case "Unary":
		r.w(s.Op)
		r.operand(s.C[0])
	case "Star":
		r.w("*")
		r.operand(s.C[0])
	case "Binary":
		r.operand(s.C[0])
		r.w(" ", s.Op, " ")
		r.operand(s.C[1])
	case "Call":
		r.operand(s.C[0])
		r.w("(")
		r.list(s.C[1:], ", ", false)
		if s.F&1 != 0 {
			r.w("...")
		}
		r.w(")")
	case "CmdCall":
		r.operand(s.C[0])
		r.w(" ")
		for i, c := range s.C[1:] {
			if i > 0 {
				r.w(", ")
			}
			if i == 0 && r.bareFirst {
				r.node(c, false)
			} else {
				r.operand(c)
			}
		}
		if s.F&1 != 0 {
			r.w("...")
		}
	case "Index":
		r.operand(s.C[0])
		r.w("[")
		r.operand(s.C[1])
		r.w("]")
	case "IndexList":
		r.operand(s.C[0])
		r.w("[")
		r.list(s.C[1:], ", ", false)
		r.w("]")
	case "Slice":
		r.operand(s.C[0])
		r.w("[")
		r.operand(s.child(1))
		r.w(":")
		r.operand(s.child(2))
		if s.F&1 != 0 {
			r.w(":")
			r.operand(s.child(3))
		}
		r.w("]")
	case "Selector":
		r.operand(s.C[0])
		r.w(".", s.S)
	case "TypeAssert":
		r.operand(s.C[0])
		r.w(".(")
		r.node(s.C[1], false)
		r.w(")")
	case "Composite":
		if t := s.child(0); t != nil {
			r.node(t, false)
		}
		r.w("{")
		r.list(s.C[1:], ", ", false)
		r.w("}")
	case "KeyValue":
		r.operand(s.C[0])
		r.w(": ")
		r.operand(s.C[1])
	case "SliceLit":
		r.w("[")
		r.list(s.C, ", ", false)
		r.w("]")
	case "FuncLit":
		r.funcType(s.F)
		r.w(" ")
		r.stmtList(s.C)
	case "FuncType":
		r.funcType(s.F)
	case "Lambda", "Lambda2":
		if s.F&1 != 0 {
			r.w("(", strings.ReplaceAll(s.S, ",", ", "), ") ")
		} else if s.S != "" {
			r.w(s.S, " ")
		}
		r.w("=> ")
		switch {
		case s.K == "Lambda2":
			r.stmtList(s.C)
		case s.F&2 != 0:
			r.w("(")
			r.list(s.C, ", ", false)
			r.w(")")
		default:
			r.node(s.C[0], false)
		}
	case "ErrWrap":
		r.operand(s.C[0])
		r.w(s.Op)
		if s.Op == "?:" {
			r.operand(s.C[1])
		}
	case "Compr":
		open, close := "[", "]"
		if s.Op == "{" {
			open, close = "{", "}"
		}
		r.w(open)
		if e := s.child(0); e != nil {
			if e.K == "KeyValue" {
				r.node(e, false)
			} else {
				r.operand(e)
			}
			r.w(" ")
		}
		for i, f := range s.C[1:] {
			if i > 0 {
				r.w(" ")
			}
			r.forPhrase(f)
		}
		r.w(close)
	case "Range":
		r.operand(s.child(0))
		r.w(":")
		r.operand(s.child(1))
		if s.child(2) != nil {
			r.w(":")
			r.operand(s.child(2))
		}
	case "ArrayType":
		r.w("[")
		r.operand(s.child(0))
		r.w("]")
		r.node(s.C[1], false)
	case "MapType":
		r.w("map[")
		r.node(s.C[0], false)
		r.w("]")
		r.node(s.C[1], false)

	case "ExprStmt":
		r.node(s.C[0], false)
	case "Assign":
		r.list(s.C[:s.F], ", ", false)
		r.w(" ", s.Op, " ")
		r.list(s.C[s.F:], ", ", false)
	case "Send":
		r.operand(s.C[0])
		r.w(" <- ")
		r.list(s.C[1:], ", ", false)
	case "IncDec":
		r.operand(s.C[0])
		r.w(s.Op)
	case "Return":
		r.w("return ")
		r.list(s.C, ", ", false)
	case "If":
		r.w("if ")
		r.operand(s.C[0])
		r.w(" ")
		r.body(s.child(1))
		if e := s.child(2); e != nil {
			r.w(" else ")
			if e.K == "Block" {
				r.body(e)
			} else {
				r.node(e, true)
			}
		}
	case "Block":
		r.stmtList(s.C)
	case "ForCond":
		r.w("for ")
		if c := s.child(0); c != nil {
			r.operand(c)
			r.w(" ")
		}
		r.body(s.child(1))
	case "ForIn":
		r.forPhrase(&Spec{S: s.S, C: []*Spec{s.C[0], s.child(1)}})
		r.w(" ")
		r.body(s.child(2))
	case "RangeStmt":
		r.w("for ", strings.ReplaceAll(s.S, ",", ", "), " ", s.Op, " range ")
		r.operand(s.C[0])
		r.w(" ")
		r.body(s.child(1))
	case "Switch":
		r.w("switch ")
		if t := s.child(0); t != nil {
			r.operand(t)
			r.w(" ")
		}
		r.w("{")
		for _, c := range s.C[1:] {
			if len(c.C) == 0 {
				r.w("\ndefault:")
			} else {
				r.w("\ncase ")
				r.list(c.C, ", ", false)
				r.w(":")
			}
		}
		r.w("\n}")
	case "Defer":
		r.w("defer ")
		r.node(s.C[0], false)
	case "Go":
		r.w("go ")
		r.node(s.C[0], false)
	default:
		panic("astsynth: cannot render kind " + s.K)
	}
}

func (r *renderer) funcType(f int) {
	r.w("func(")
	if f&1 != 0 {
		r.w("p int")
	}
	r.w(")")
	if f&2 != 0 {
		r.w(" int")
	}
}

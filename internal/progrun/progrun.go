// Package progrun builds and runs batches of generated `package main` programs with the Go
// toolchain: one scratch module, one `go build ./...` for the whole batch, then every binary is
// executed under a watchdog. Observables: stdout, exit status, first paragraph of a panic.
package progrun

import (
	"bytes"
	"context"
	"fmt"
	"os"
	"os/exec"
	"path/filepath"
	"regexp"
	"sort"
	"strings"
	"sync"
	"time"

	"verif/internal/gen/lex"
)

// Prog is one program: Files maps a file name (no directories) to its content.
type Prog struct {
	Name  string
	Files map[string]string
}

// Result of building and running one program.
type Result struct {
	BuildErr string // non-empty if `go build` rejected the package
	Stdout   string
	Exit     int
	Panic    string // first paragraph of "panic: …" / "fatal error: …" from stderr
	Stderr   string // clipped
	TimedOut bool
}

// Observable is what two programs are compared on.
func (r Result) Observable() string {
	if r.BuildErr != "" {
		return "BUILD-ERROR\n" + r.BuildErr
	}
	if r.TimedOut {
		return "TIMEOUT\n" + r.Stdout
	}
	return fmt.Sprintf("exit=%d\npanic=%s\nstdout:\n%s", r.Exit, r.Panic, r.Stdout)
}

func scratchRoot() string {
	if d := os.Getenv("VK_SCRATCH"); d != "" {
		return d
	}
	return os.TempDir()
}

var goexcRe = regexp.MustCompile(`\[recovered\]|goroutine \d+ \[`)

func panicParagraph(stderr string) string {
	i := strings.Index(stderr, "panic: ")
	j := strings.Index(stderr, "fatal error: ")
	if i < 0 || (j >= 0 && j < i) {
		i = j
	}
	if i < 0 {
		return ""
	}
	s := stderr[i:]
	if k := strings.Index(s, "\n\n"); k >= 0 {
		s = s[:k]
	}
	if loc := goexcRe.FindStringIndex(s); loc != nil && strings.Contains(s[:loc[0]], "\n") {
		s = s[:strings.LastIndex(s[:loc[0]], "\n")]
	}
	var keep []string
	for _, l := range strings.Split(s, "\n") {
		if strings.HasPrefix(l, "[signal ") { // contains a pc, which differs between binaries
			continue
		}
		keep = append(keep, l)
	}
	return strings.TrimSpace(strings.Join(keep, "\n"))
}

// Run builds all programs in one scratch module and runs them (timeout <= 0: build only). The scratch directory is
// removed before returning.
func Run(progs []Prog, timeout time.Duration) (map[string]Result, error) {
	dir, err := os.MkdirTemp(scratchRoot(), "progrun-")
	if err != nil {
		return nil, err
	}
	defer os.RemoveAll(dir)
	repo := lex.RepoDir()
	gomod := fmt.Sprintf("module scratch\n\ngo 1.23\n\nrequire github.com/goplus/xgo v0.0.0\n\nreplace github.com/goplus/xgo => %s\n", repo)
	if err := os.WriteFile(filepath.Join(dir, "go.mod"), []byte(gomod), 0o644); err != nil {
		return nil, err
	}
	root := os.Getenv("VK_ROOT")
	if root == "" {
		root = "/verif"
	}
	if sum, err := os.ReadFile(filepath.Join(root, "go.sum")); err == nil {
		os.WriteFile(filepath.Join(dir, "go.sum"), sum, 0o644)
	}
	for _, p := range progs {
		pd := filepath.Join(dir, p.Name)
		if err := os.MkdirAll(pd, 0o755); err != nil {
			return nil, err
		}
		for fn, src := range p.Files {
			if err := os.WriteFile(filepath.Join(pd, fn), []byte(src), 0o644); err != nil {
				return nil, err
			}
		}
	}
	bin := filepath.Join(dir, "bin")
	os.MkdirAll(bin, 0o755)
	cmd := exec.Command("go", "build", "-ldflags=-s -w", "-o", bin+"/", "./...")
	cmd.Dir = dir
	cmd.Env = append(os.Environ(), "GOFLAGS=-mod=mod", "GOPROXY=off", "GOSUMDB=off", "GOTOOLCHAIN=local", "CGO_ENABLED=0", "GOWORK=off")
	out, buildErr := cmd.CombinedOutput()
	// split build output per package: "# scratch/<name>" headers
	perPkg := map[string]string{}
	cur := ""
	for _, line := range strings.Split(string(out), "\n") {
		if strings.HasPrefix(line, "# ") {
			cur = strings.TrimPrefix(strings.Fields(line)[1], "scratch/")
			continue
		}
		if cur != "" && line != "" {
			perPkg[cur] += line + "\n"
		}
	}
	// when some packages fail to compile the go command does not write the executables of the
	// others: build those again on their own (they have no diagnostics, so this build succeeds, or
	// tells what is wrong with them)
	if buildErr != nil {
		var again []string
		for _, p := range progs {
			if _, err := os.Stat(filepath.Join(bin, p.Name)); err != nil && perPkg[p.Name] == "" {
				again = append(again, "./"+p.Name)
			}
		}
		if len(again) > 0 && len(again) < len(progs) {
			cmd2 := exec.Command("go", append([]string{"build", "-ldflags=-s -w", "-o", bin + "/"}, again...)...)
			cmd2.Dir = dir
			cmd2.Env = cmd.Env
			out2, err2 := cmd2.CombinedOutput()
			cur = ""
			for _, line := range strings.Split(string(out2), "\n") {
				if strings.HasPrefix(line, "# ") {
					cur = strings.TrimPrefix(strings.Fields(line)[1], "scratch/")
					continue
				}
				if cur != "" && line != "" {
					perPkg[cur] += line + "\n"
				}
			}
			out, buildErr = out2, err2
		}
	}
	res := map[string]Result{}
	var mu sync.Mutex
	var wg sync.WaitGroup
	sem := make(chan struct{}, 16)
	names := make([]string, 0, len(progs))
	for _, p := range progs {
		names = append(names, p.Name)
	}
	sort.Strings(names)
	missing := 0
	for _, name := range names {
		exe := filepath.Join(bin, name)
		if _, err := os.Stat(exe); err != nil {
			msg := perPkg[name]
			if msg == "" {
				if (buildErr == nil || strings.Contains(string(out), "no main packages to build")) && timeout <= 0 {
					// build-only mode and `go build` succeeded: the package is not a command (a
					// mutation renamed `package main`), which is a valid outcome of a build
					res[name] = Result{}
					continue
				}
				msg = "(no binary produced; build output: " + clip(string(out), 600) + ")"
				missing++
			}
			res[name] = Result{BuildErr: msg}
			continue
		}
		if timeout <= 0 { // build only
			res[name] = Result{}
			continue
		}
		wg.Add(1)
		sem <- struct{}{}
		go func(name, exe string) {
			defer wg.Done()
			defer func() { <-sem }()
			r := runOne(dir, exe, timeout)
			mu.Lock()
			res[name] = r
			mu.Unlock()
		}(name, exe)
	}
	wg.Wait()
	// a program that ran out of time while 16 others (and whatever else keeps the machine busy) were
	// running is run once more, alone and with six times the budget, before it counts as timed out
	for _, name := range names {
		if r, ok := res[name]; ok && r.TimedOut {
			res[name] = runOne(dir, filepath.Join(bin, name), 6*timeout)
		}
	}
	if buildErr != nil && len(perPkg) == 0 && missing > 0 {
		return res, fmt.Errorf("go build failed without per-package diagnostics: %v\n%s", buildErr, clip(string(out), 2000))
	}
	return res, nil
}

// runOne runs one built program with a wall-clock budget.
func runOne(dir, exe string, timeout time.Duration) Result {
	ctx, cancel := context.WithTimeout(context.Background(), timeout)
	defer cancel()
	c := exec.CommandContext(ctx, exe)
	c.Dir = dir
	var so, se bytes.Buffer
	c.Stdout, c.Stderr = &so, &se
	c.Env = []string{"GOTRACEBACK=single", "PATH=/usr/bin:/bin", "HOME=" + dir}
	err := c.Run()
	r := Result{Stdout: clip(so.String(), 1<<16), Stderr: clip(se.String(), 4000)}
	if ctx.Err() == context.DeadlineExceeded {
		r.TimedOut = true
	} else if ee, ok := err.(*exec.ExitError); ok {
		r.Exit = ee.ExitCode()
	} else if err != nil {
		r.Exit = -1
		r.Stderr += "\n" + err.Error()
	}
	r.Panic = panicParagraph(se.String())
	return r
}

func clip(s string, n int) string {
	if len(s) > n {
		return s[:n] + "…"
	}
	return s
}

// Package diffrun evaluates (reference Go program, XGo program) pairs: the XGo side is compiled
// in-process by cl, both sides are built and run by progrun in one batch, and a verdict is
// produced from the observables.
package diffrun

import (
	"fmt"
	"regexp"
	"strconv"
	"time"

	"verif/internal/progrun"
	"verif/internal/vk"
	"verif/internal/xcl"
)

// Pair is one differential case.
type Pair struct {
	Ref    string            // reference `package main` Go source
	XFiles map[string]string // XGo package files (name → source), compiled by cl
	Opt    xcl.Options
}

// Out is the outcome for one pair.
type Out struct {
	V        *vk.Verdict
	Ref, X   progrun.Result
	GoText   string // what cl generated
	ClErr    error  // cl/parse error (V is set accordingly)
	ClErrPos int    // line in the first XGo file the error points to (0 = unknown)
}

var lineRe = regexp.MustCompile(`\.(?:xgo|gox|gop):(\d+):`)

// CompileX compiles the XGo side.
func CompileX(files map[string]string, opt xcl.Options) (string, *vk.Verdict, error) {
	r := xcl.Compile(files, opt)
	if r.Panic != nil {
		return "", vk.Bad("cl-panics", "compiling as XGo panicked: %v", r.Panic), r.Err
	}
	if r.ParseErr != nil {
		return "", vk.Bad("xgo-parser-rejects", "XGo parser: %v", r.ParseErr), r.ParseErr
	}
	if r.Err != nil {
		return "", vk.Bad(xcl.RejectClass(r.Err), "XGo compiler: %v", r.Err), r.Err
	}
	return string(r.Go), nil, nil
}

// ErrLine extracts the first source line an XGo error message points to.
func ErrLine(err error) int {
	if err == nil {
		return 0
	}
	if m := lineRe.FindStringSubmatch(err.Error()); m != nil {
		n, _ := strconv.Atoi(m[1])
		return n
	}
	return 0
}

// Judge compares two run results.
func Judge(ref, x progrun.Result) *vk.Verdict {
	if ref.BuildErr != "" {
		return vk.Bad("generator-bug", "the Go toolchain rejects the reference program: %s", ref.BuildErr)
	}
	if x.BuildErr != "" {
		return vk.Bad("xgo-output-does-not-build", "go build rejects the XGo compiler's output: %s", x.BuildErr)
	}
	if ref.TimedOut {
		return vk.Bad("generator-bug", "reference program timed out")
	}
	if x.TimedOut {
		return vk.Bad("xgo-build-hangs", "XGo-compiled program did not finish (reference did)")
	}
	if ref.Stdout != x.Stdout {
		return vk.Bad("stdout-differs", "%s", progrun.FirstDiff(ref.Stdout, x.Stdout))
	}
	if ref.Exit != x.Exit {
		return vk.Bad("exit-differs", "exit status: reference %d, xgo %d (stderr %q)", ref.Exit, x.Exit, x.Stderr)
	}
	if ref.Panic != x.Panic {
		return vk.Bad("panic-differs", "panic paragraph: reference %q, xgo %q", ref.Panic, x.Panic)
	}
	return nil
}

// Eval evaluates all pairs with one go build.
func Eval(pairs []Pair) ([]Out, error) {
	outs := make([]Out, len(pairs))
	var progs []progrun.Prog
	for i, p := range pairs {
		progs = append(progs, progrun.Prog{Name: fmt.Sprintf("r%04d", i), Files: map[string]string{"main.go": p.Ref}})
		gosrc, v, err := CompileX(p.XFiles, p.Opt)
		outs[i].GoText = gosrc
		if v != nil {
			outs[i].V, outs[i].ClErr, outs[i].ClErrPos = v, err, ErrLine(err)
			continue
		}
		progs = append(progs, progrun.Prog{Name: fmt.Sprintf("x%04d", i), Files: map[string]string{"main.go": gosrc}})
	}
	res, err := progrun.Run(progs, 10*time.Second)
	if err != nil {
		return nil, err
	}
	for i := range pairs {
		ref := res[fmt.Sprintf("r%04d", i)]
		outs[i].Ref = ref
		if outs[i].V != nil {
			if ref.BuildErr != "" {
				outs[i].V = vk.Bad("generator-bug", "the Go toolchain rejects the reference program: %s", ref.BuildErr)
			}
			continue
		}
		outs[i].X = res[fmt.Sprintf("x%04d", i)]
		outs[i].V = Judge(ref, outs[i].X)
	}
	return outs, nil
}

// Package tplref is the reference interpreter of TPL grammars, written from tpl/README.md
// (sections "Naming Rules" and "Matching Results"), not from the matcher:
//
//   - a token class (INT, IDENT, STRING, CHAR, FLOAT, …) matches one token of that class;
//     QSTRING / RAWSTRING match a STRING token spelled with " or `; result: the token;
//   - a quoted operator ("+", '+', "<<=") matches that operator token; a quoted identifier
//     ("if") matches an IDENT token with that spelling; "" matches without consuming, result nil;
//   - a rule reference matches what the rule's expression matches (no ret-procs here);
//   - R1 R2 … Rn: all in order, result a list of n results; fails where the first item fails;
//   - R1 | … | Rn: ordered choice, the result of the first option that matches;
//   - *R, +R: greedy without backtracking; the result lists the complete iterations (an
//     iteration that fails, even after consuming, is dropped and ends the repetition);
//   - ?R: the result of R, or nil without consuming when R fails;
//   - R1 % R2 is R1 *(R2 R1): result [r1, [[r2, r1], …]];
//   - R1 ++ R2: pair [r1, r2]; both must consume and the last token of R1 must touch the first
//     token of R2.
//
// The interpreter is a PEG-style recursive matcher; it needs grammars that tplgen.Analyze labels
// Terminating (it has no loop guard beyond a fuel counter that panics).
package tplref

import (
	"fmt"
	"strings"

	"github.com/goplus/xgo/tpl/ast"
	"github.com/goplus/xgo/tpl/scanner"
	"github.com/goplus/xgo/tpl/token"
	"github.com/goplus/xgo/tpl/types"

	"verif/internal/gen/tplgen"
)

// Tok is a scanned input token.
type Tok = types.Token

// Scan tokenises src the way tpl.Compiler.Match does (default scanner, mode 0, automatic
// semicolons included). The TPL scanner is trusted here (checked by C32).
func Scan(src string) []*Tok {
	fset := token.NewFileSet()
	f := fset.AddFile("", fset.Base(), len(src))
	var s scanner.Scanner
	s.Init(f, []byte(src), nil, 0)
	var toks []*Tok
	for {
		t := s.Scan()
		if t.Tok == token.EOF {
			return toks
		}
		toks = append(toks, &t)
	}
}

// OutOfFuel is the panic value of Match when the step allowance (200 000 expression visits) is
// used up: exponential backtracking or a non-terminating grammar.
const OutOfFuel = "tplref: out of fuel"

// Interp interprets one grammar.
type Interp struct {
	A    *tplgen.Analysis
	Doc  ast.Expr
	toks []*Tok
	fuel int
}

// New prepares the interpreter of g (document rule = first rule).
func New(g tplgen.Grammar) *Interp {
	in := &Interp{A: tplgen.Analyze(g)}
	if len(g.Rules) > 0 {
		in.Doc = g.Rules[0].Expr
	}
	return in
}

// Match matches the document rule at the start of toks: ok, tokens consumed, result tree
// (*Tok leaves, []any lists, nil).
func (in *Interp) Match(toks []*Tok) (ok bool, n int, tree any) {
	in.toks, in.fuel = toks, 200000
	return in.match(in.Doc, 0)
}

// MatchExpr matches e at position pos of toks.
func (in *Interp) MatchExpr(e ast.Expr, toks []*Tok, pos int) (ok bool, n int, tree any) {
	in.toks, in.fuel = toks, 200000
	ok, end, tree := in.match(e, pos)
	return ok, end - pos, tree
}

func opSpelling(t *Tok) string {
	switch t.Tok {
	case token.IDENT, token.INT, token.FLOAT, token.IMAG, token.CHAR, token.STRING, token.RAT, token.UNIT, token.COMMENT, token.EOF, token.ILLEGAL:
		return ""
	}
	return t.Tok.String()
}

// terminal reports whether token t is matched by the terminal e (Ident that is not a rule, or a
// non-empty literal).
func (in *Interp) terminal(e ast.Expr, t *Tok) bool {
	switch e := e.(type) {
	case *ast.Ident:
		switch e.Name {
		case "QSTRING":
			return t.Tok == token.STRING && strings.HasPrefix(t.Lit, `"`)
		case "RAWSTRING":
			return t.Tok == token.STRING && strings.HasPrefix(t.Lit, "`")
		}
		c, ok := tplgen.ClassToken(e.Name)
		return ok && t.Tok == c
	case *ast.BasicLit:
		v, ok := tplgen.LitValue(e)
		if !ok || v == "" {
			return false
		}
		if tplgen.IsKeywordLit(v) {
			return t.Tok == token.IDENT && t.Lit == v
		}
		return opSpelling(t) == v
	}
	return false
}

// match returns (ok, end position, tree).
func (in *Interp) match(e ast.Expr, pos int) (bool, int, any) {
	if in.fuel--; in.fuel < 0 {
		panic(OutOfFuel)
	}
	switch e := e.(type) {
	case *ast.Ident:
		if r, isRule := in.A.Rules[e.Name]; isRule {
			return in.match(r, pos)
		}
		if e.Name == "SPACE" {
			panic("tplref: SPACE is not specified by the README")
		}
		if pos < len(in.toks) && in.terminal(e, in.toks[pos]) {
			return true, pos + 1, in.toks[pos]
		}
		return false, pos, nil
	case *ast.BasicLit:
		if v, ok := tplgen.LitValue(e); ok && v == "" {
			return true, pos, nil
		}
		if pos < len(in.toks) && in.terminal(e, in.toks[pos]) {
			return true, pos + 1, in.toks[pos]
		}
		return false, pos, nil
	case *ast.Sequence:
		out := make([]any, len(e.Items))
		at := pos
		for i, x := range e.Items {
			ok, end, r := in.match(x, at)
			if !ok {
				return false, pos, nil
			}
			out[i], at = r, end
		}
		return true, at, out
	case *ast.Choice:
		for _, x := range e.Options {
			if ok, end, r := in.match(x, pos); ok {
				return true, end, r
			}
		}
		return false, pos, nil
	case *ast.UnaryExpr:
		switch e.Op {
		case token.QUESTION:
			if ok, end, r := in.match(e.X, pos); ok {
				return true, end, r
			}
			return true, pos, nil
		case token.MUL, token.ADD:
			out := []any{}
			at := pos
			for {
				ok, end, r := in.match(e.X, at)
				if !ok {
					break
				}
				if end == at {
					panic("tplref: repetition body matched without consuming")
				}
				out, at = append(out, r), end
			}
			if e.Op == token.ADD && len(out) == 0 {
				return false, pos, nil
			}
			return true, at, out
		}
	case *ast.BinaryExpr:
		switch e.Op {
		case token.REM:
			ok, at, first := in.match(e.X, pos)
			if !ok {
				return false, pos, nil
			}
			rest := []any{}
			for {
				ok, mid, sep := in.match(e.Y, at)
				if !ok {
					break
				}
				ok, end, elem := in.match(e.X, mid)
				if !ok {
					break
				}
				if end == at {
					panic("tplref: list iteration matched without consuming")
				}
				rest, at = append(rest, []any{sep, elem}), end
			}
			return true, at, []any{first, rest}
		case token.INC:
			ok, mid, a := in.match(e.X, pos)
			if !ok || mid == pos {
				return false, pos, nil
			}
			ok, end, b := in.match(e.Y, mid)
			if !ok || end == mid {
				return false, pos, nil
			}
			if in.toks[mid-1].End() != in.toks[mid].Pos {
				return false, pos, nil
			}
			return true, end, []any{a, b}
		}
	}
	panic(fmt.Sprintf("tplref: cannot interpret %T", e))
}

// Render prints a result tree: tokens as kind:literal@offset, lists in brackets, nil as nil.
func Render(v any) string {
	var b strings.Builder
	render(&b, v)
	return b.String()
}

func render(b *strings.Builder, v any) {
	switch v := v.(type) {
	case nil:
		b.WriteString("nil")
	case *Tok:
		if v == nil {
			b.WriteString("<nil token>")
			return
		}
		fmt.Fprintf(b, "%s:%s@%d", v.Tok, v.Lit, int(v.Pos))
	case []any:
		b.WriteByte('[')
		for i, x := range v {
			if i > 0 {
				b.WriteByte(' ')
			}
			render(b, x)
		}
		b.WriteByte(']')
	default:
		fmt.Fprintf(b, "<%T>", v)
	}
}

// Valid checks that tree is a derivation of toks[pos:pos+n] under e: every leaf is the token at
// its place and is accepted by the terminal it stands for, every list has the shape its
// operator prescribes, adjacency holds for ++, and every repetition whose body is strict (see
// tplgen.Analysis.StrictExpr) is greedy: the body does not match once more where the
// repetition stopped. It returns nil, or what is wrong.
func (in *Interp) Valid(e ast.Expr, toks []*Tok, pos, n int, tree any) error {
	in.toks, in.fuel = toks, 200000
	end, err := in.valid(e, pos, tree)
	if err != nil {
		return err
	}
	if end != pos+n {
		return fmt.Errorf("tree covers %d tokens, %d reported as consumed", end-pos, n)
	}
	return nil
}

func sameTok(a, b *Tok) bool {
	return a != nil && b != nil && a.Tok == b.Tok && a.Lit == b.Lit && a.Pos == b.Pos
}

func (in *Interp) valid(e ast.Expr, pos int, tree any) (int, error) {
	leaf := func() (int, error) {
		t, ok := tree.(*Tok)
		if !ok {
			return 0, fmt.Errorf("at token %d: %s needs a token, tree has %s", pos, tplgen.Sexpr(e), Render(tree))
		}
		if pos >= len(in.toks) || !sameTok(t, in.toks[pos]) {
			return 0, fmt.Errorf("at token %d: tree has %s, which is not the input token there", pos, Render(tree))
		}
		if !in.terminal(e, t) {
			return 0, fmt.Errorf("at token %d: %s does not match token %s", pos, tplgen.Sexpr(e), Render(tree))
		}
		return pos + 1, nil
	}
	list := func(n int) ([]any, error) {
		l, ok := tree.([]any)
		if !ok || n >= 0 && len(l) != n {
			return nil, fmt.Errorf("at token %d: %s needs a list (of %d), tree has %s", pos, tplgen.Sexpr(e), n, Render(tree))
		}
		return l, nil
	}
	switch e := e.(type) {
	case *ast.Ident:
		if r, isRule := in.A.Rules[e.Name]; isRule {
			return in.valid(r, pos, tree)
		}
		return leaf()
	case *ast.BasicLit:
		if v, ok := tplgen.LitValue(e); ok && v == "" {
			if tree != nil {
				return 0, fmt.Errorf("at token %d: \"\" yields nil, tree has %s", pos, Render(tree))
			}
			return pos, nil
		}
		return leaf()
	case *ast.Sequence:
		l, err := list(len(e.Items))
		if err != nil {
			return 0, err
		}
		at := pos
		for i, x := range e.Items {
			if at, err = in.valid(x, at, l[i]); err != nil {
				return 0, err
			}
		}
		return at, nil
	case *ast.Choice:
		var firstErr error
		for _, x := range e.Options {
			end, err := in.valid(x, pos, tree)
			if err == nil {
				return end, nil
			}
			if firstErr == nil {
				firstErr = err
			}
		}
		return 0, fmt.Errorf("at token %d: no option of %s derives %s (first option: %v)", pos, tplgen.Sexpr(e), Render(tree), firstErr)
	case *ast.UnaryExpr:
		if e.Op == token.QUESTION {
			if tree == nil && !in.A.NullableExpr(e.X) {
				return pos, nil
			}
			if end, err := in.valid(e.X, pos, tree); err == nil {
				return end, nil
			} else if tree != nil {
				return 0, err
			}
			return pos, nil
		}
		l, err := list(-1)
		if err != nil {
			return 0, err
		}
		if e.Op == token.ADD && len(l) == 0 {
			return 0, fmt.Errorf("at token %d: +R with no iteration", pos)
		}
		at := pos
		for _, it := range l {
			end, err := in.valid(e.X, at, it)
			if err != nil {
				return 0, err
			}
			if end == at {
				return 0, fmt.Errorf("at token %d: repetition iteration consumed nothing", at)
			}
			at = end
		}
		if in.A.StrictExpr(e.X) {
			if ok, end, _ := in.match(e.X, at); ok && end > at {
				return 0, fmt.Errorf("at token %d: repetition %s stopped although its body matches %d more token(s)", at, tplgen.Sexpr(e), end-at)
			}
		}
		return at, nil
	case *ast.BinaryExpr:
		l, err := list(2)
		if err != nil {
			return 0, err
		}
		if e.Op == token.INC {
			mid, err := in.valid(e.X, pos, l[0])
			if err != nil {
				return 0, err
			}
			end, err := in.valid(e.Y, mid, l[1])
			if err != nil {
				return 0, err
			}
			if mid == pos || end == mid {
				return 0, fmt.Errorf("at token %d: a side of ++ consumed nothing", pos)
			}
			if in.toks[mid-1].End() != in.toks[mid].Pos {
				return 0, fmt.Errorf("at token %d: ++ between tokens that do not touch", mid)
			}
			return end, nil
		}
		at, err := in.valid(e.X, pos, l[0])
		if err != nil {
			return 0, err
		}
		rest, ok := l[1].([]any)
		if !ok {
			return 0, fmt.Errorf("at token %d: second element of a %% result is %s, not a list", pos, Render(l[1]))
		}
		for _, p := range rest {
			pair, ok := p.([]any)
			if !ok || len(pair) != 2 {
				return 0, fmt.Errorf("at token %d: list iteration %s is not a pair", at, Render(p))
			}
			mid, err := in.valid(e.Y, at, pair[0])
			if err != nil {
				return 0, err
			}
			if at, err = in.valid(e.X, mid, pair[1]); err != nil {
				return 0, err
			}
		}
		if in.A.StrictExpr(e.X) && in.A.StrictExpr(e.Y) {
			if ok, mid, _ := in.match(e.Y, at); ok {
				if ok, end, _ := in.match(e.X, mid); ok && end > at {
					return 0, fmt.Errorf("at token %d: list %s stopped although separator and element match once more", at, tplgen.Sexpr(e))
				}
			}
		}
		return at, nil
	}
	return 0, fmt.Errorf("cannot validate %T", e)
}

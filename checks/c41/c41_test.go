//go:build verif

// C41 — closing a fake connection unblocks pending I/O: data passes in order and unmodified,
// every Read/Write pending at or started after Close returns io.EOF.
//
// Needs the verif hook of x/fakenet (proposed_fixes/HOOK-fakenet.diff): VerifYield, VerifFeeders.
package c41

import (
	"encoding/json"
	"errors"
	"fmt"
	"io"
	"net"
	"os"
	"runtime"
	"sort"
	"strings"
	"sync"
	"sync/atomic"
	"testing"
	"time"
	"unsafe"

	"github.com/goplus/xgo/x/fakenet"
	"pgregory.net/rapid"

	"verif/internal/gen/supervise"
	"verif/internal/vk"
)

func TestMain(m *testing.M) {
	if code, parent := supervise.Run("C41", "panic: "); parent {
		os.Exit(code)
	}
	fakenet.VerifYield = dispatch
	vk.Main(m, "C41", "exploration",
		"histories over one fakenet.NewConn(source, sink): 1-3 readers and 1-3 writers, each with ops completed before the race (awaited), ops started in the race phase and ops started after Close returned; the source hands out a drawn chunking of a fixed byte pattern and blocks when its drawn token budget is used up (its Close may or may not unblock it), the sink records every call (optionally blocking, its Close may or may not stop writes); Close is called by 1-2 goroutines once a drawn hook point has been reached a drawn number of times (do:enter / do:sent / run:recv / run:result of the read or write feeder); a drawn yield script says for the k-th arrival at a hook point: Gosched x n and/or park until close-called / close-returned. "+
			"Oracle over the recorded history (global sequence numbers; an op is recognised at the source/sink by its unique buffer length, the buffer address is only used to see whether the feeder keeps the caller's buffer): an op started after Close returned yields (0, io.EOF) and its buffer never reaches the source/sink; an op that is at a do: hook point when Close has returned yields (0, io.EOF); every other op yields io.EOF only if it overlaps Close, else exactly what its single source/sink call returned, with the right bytes; sink calls are whole unmodified chunks, per writer in order without gap or duplicate; source/sink calls never overlap; no source/sink call that carries the caller's own buffer is running or starts after the Read/Write has returned; after Close returns all ops return without the source being released (30 s watchdog, a stall counts only if it reproduces 3 times). "+
			"Non-trivial = Close with at least one pending op, or an op started after Close; distinct = hash of the case document")
}

// ---- case -----------------------------------------------------------------------------------------

type Actor struct {
	Role string `json:"role"`           // r | w
	Pre  []int  `json:"pre,omitempty"`  // buffer/chunk sizes of ops completed before the race phase
	Race []int  `json:"race,omitempty"` // ops issued in the race phase (around Close)
	Post []int  `json:"post,omitempty"` // ops issued after Close returned
}

type Yield struct {
	Role    string `json:"role"`  // r | w (feeder)
	Point   string `json:"point"` // do:enter | do:sent | run:recv | run:result
	K       int    `json:"k"`     // k-th arrival at that point of that feeder since the race phase began
	Gosched int    `json:"gosched,omitempty"`
	Park    string `json:"park,omitempty"` // "" | close-called | close-returned
}

type Trigger struct {
	Role    string `json:"role,omitempty"`  // "" = Close is called at once
	Point   string `json:"point,omitempty"` // hook point whose Count-th arrival lets Close go
	Count   int    `json:"count,omitempty"`
	Gosched int    `json:"gosched,omitempty"`
}

type Case struct {
	Actors           []Actor `json:"actors"`
	SrcChunks        []int   `json:"src_chunks"`      // bytes the source hands out per call (cyclic, capped by the buffer)
	SrcErrAt         int     `json:"src_err_at"`      // this source call (1-based) fails with a non-EOF error; 0 = never
	SrcRaceTokens    int     `json:"src_race_tokens"` // source calls that may complete in the race phase (0 = source blocks)
	SrcCloseUnblocks bool    `json:"src_close_unblocks"`
	SinkBlocking     bool    `json:"sink_blocking"`
	SinkRaceTokens   int     `json:"sink_race_tokens"`
	SinkCloseStops   bool    `json:"sink_close_stops"`
	Trigger          Trigger `json:"trigger"`
	Closers          int     `json:"closers"` // 1 or 2 goroutines calling Close
	Script           []Yield `json:"script,omitempty"`
}

var points = []string{"do:enter", "do:sent", "run:recv", "run:result"}

// sanitize makes the case deadlock-free by construction: Close must not wait for a hook point
// that the script or a blocked endpoint keeps from being reached. Idempotent; applied by the
// generator and again by the oracle (so hand-written cases are safe too).
func sanitize(c Case) Case {
	if c.Closers < 1 {
		c.Closers = 1
	}
	if c.Closers > 2 {
		c.Closers = 2
	}
	if len(c.SrcChunks) == 0 {
		c.SrcChunks = []int{8}
	}
	// every op of a role gets its own buffer length (k-th op: 32*m + k + 1): the harness
	// recognises an op at the source/sink by that length, whatever buffer the feeder passes on
	c.Actors = append([]Actor{}, c.Actors...)
	k := map[string]int{}
	uniq := func(role string, sizes []int) []int {
		out := make([]int, len(sizes))
		for i, s := range sizes {
			if s < 1 {
				s = 1
			}
			out[i] = ((s-1)/32%8)*32 + k[role]%32 + 1
			k[role]++
		}
		return out
	}
	for i, a := range c.Actors {
		a.Pre, a.Race, a.Post = uniq(a.Role, a.Pre), uniq(a.Role, a.Race), uniq(a.Role, a.Post)
		c.Actors[i] = a
	}
	racers := 0
	for _, a := range c.Actors {
		if a.Role == c.Trigger.Role && len(a.Race) > 0 {
			racers++
		}
	}
	t := &c.Trigger
	okPoint := false
	for _, p := range points {
		okPoint = okPoint || p == t.Point
	}
	if racers == 0 || !okPoint {
		*t = Trigger{Gosched: t.Gosched}
		return c
	}
	parked := func(point string) bool {
		for _, y := range c.Script {
			if y.Role == t.Role && y.Point == point && y.Park != "" {
				return true
			}
		}
		return false
	}
	flows := c.SrcRaceTokens > 0
	if t.Role == "w" {
		flows = !c.SinkBlocking || c.SinkRaceTokens > 0
	}
	switch {
	case t.Point == "do:enter":
	case parked("do:enter"), t.Point == "run:result" && (parked("run:recv") || !flows):
		t.Point = "do:enter"
	}
	if t.Point != "do:enter" || t.Count < 1 {
		t.Count = 1
	}
	if t.Count > racers {
		t.Count = racers
	}
	return c
}

// ---- endpoints (the harness' source and sink) --------------------------------------------------------

var (
	errSrc      = errors.New("harness: source error")
	errClosed   = errors.New("harness: endpoint closed")
	errTeardown = errors.New("harness: teardown")
)

type callRec struct {
	buf        uintptr
	size       int
	n          int
	err        error
	start, end int64 // end == 0: never completed
	off        int   // source: offset of the first byte handed out
	data       []byte
}

type endpoint struct {
	r         *run
	source    bool
	tokens    chan struct{} // nil = never blocks
	closedCh  chan struct{}
	effective bool // Close unblocks/stops calls
	mu        sync.Mutex
	calls     []*callRec
	active    int
	overlap   bool
	off       int
	closes    int
}

func bufID(p []byte) uintptr {
	if len(p) == 0 {
		return 0
	}
	return uintptr(unsafe.Pointer(&p[0]))
}

func srcByte(i int) byte { return byte((i*7 + 3) % 251) }

func chunkByte(actor, op, i int) byte { return byte((actor*31 + op*17 + i*3 + 1) % 253) }

func (e *endpoint) call(p []byte) (int, error) {
	rec := &callRec{buf: bufID(p), size: len(p), start: e.r.seq.Add(1)}
	e.mu.Lock()
	e.active++
	if e.active > 1 {
		e.overlap = true
	}
	e.calls = append(e.calls, rec)
	idx := len(e.calls)
	e.mu.Unlock()
	finish := func(n int, err error) (int, error) {
		e.mu.Lock()
		rec.n, rec.err = n, err
		rec.end = e.r.seq.Add(1)
		e.active--
		e.mu.Unlock()
		return n, err
	}
	var closed <-chan struct{}
	if e.effective {
		closed = e.closedCh
		select {
		case <-closed:
			return finish(0, errClosed)
		default:
		}
	}
	if e.tokens != nil {
		select {
		case <-e.tokens:
		case <-closed:
			return finish(0, errClosed)
		case <-e.r.evEnd:
			return finish(0, errTeardown)
		}
	}
	if !e.source {
		e.mu.Lock()
		rec.data = append([]byte{}, p...)
		e.mu.Unlock()
		return finish(len(p), nil)
	}
	if idx == e.r.c.SrcErrAt {
		return finish(0, errSrc)
	}
	n := e.r.c.SrcChunks[(idx-1)%len(e.r.c.SrcChunks)]
	if n > len(p) {
		n = len(p)
	}
	if n < 1 {
		n = 1
	}
	e.mu.Lock()
	rec.off = e.off
	for i := 0; i < n; i++ {
		p[i] = srcByte(e.off + i)
	}
	e.off += n
	e.mu.Unlock()
	return finish(n, nil)
}

func (e *endpoint) Read(p []byte) (int, error)  { return e.call(p) }
func (e *endpoint) Write(p []byte) (int, error) { return e.call(p) }
func (e *endpoint) Close() error {
	e.mu.Lock()
	e.closes++
	if e.closes == 1 {
		close(e.closedCh)
	}
	e.mu.Unlock()
	return nil
}

func (e *endpoint) release(n int) {
	for i := 0; i < n && e.tokens != nil; i++ {
		e.tokens <- struct{}{}
	}
}

// ---- one execution ----------------------------------------------------------------------------------

type opRec struct {
	actor      int
	role       string
	phase      string // pre | race | post
	lin        int    // index of the op in the actor's whole list
	size       int
	buf        []byte
	id         uintptr
	afterClose bool // Close had returned before the op was invoked
	start, end int64
	n          int
	err        error
	held       string // do: hook point at which the op was when Close had returned
}

type run struct {
	c          Case
	seq        atomic.Int64
	src, sink  *endpoint
	conn       net.Conn
	racing     atomic.Bool
	evRace     chan struct{}
	evCalled   chan struct{}
	evReturned chan struct{}
	evEnd      chan struct{}
	trig       chan struct{}
	runExit    chan struct{}
	mu         sync.Mutex
	counters   map[string]int
	trigOnce   bool
	heldAt     map[string]string // role+size -> do: point
	parks      int
	ops        []*opRec
	closeCall  int64
	closeRet   int64
}

type binding struct {
	r    *run
	role string
}

var feeders sync.Map // feeder (any) -> binding

func dispatch(feeder any, point string, b []byte) {
	if v, ok := feeders.Load(feeder); ok {
		bd := v.(binding)
		bd.r.hook(bd.role, point, b)
	}
}

func isClosed(ch chan struct{}) bool {
	select {
	case <-ch:
		return true
	default:
		return false
	}
}

func (r *run) hook(role, point string, b []byte) {
	if point == "run:exit" {
		r.runExit <- struct{}{}
		return
	}
	if !r.racing.Load() {
		return
	}
	key := role + "|" + point
	r.mu.Lock()
	k := r.counters[key]
	r.counters[key] = k + 1
	if !r.trigOnce && r.c.Trigger.Role == role && r.c.Trigger.Point == point && k+1 >= r.c.Trigger.Count {
		r.trigOnce = true
		close(r.trig)
	}
	var y *Yield
	for i := range r.c.Script {
		if s := &r.c.Script[i]; s.Role == role && s.Point == point && s.K == k {
			y = s
			break
		}
	}
	r.mu.Unlock()
	if y != nil {
		for i := 0; i < y.Gosched; i++ {
			runtime.Gosched()
		}
		var ev chan struct{}
		switch y.Park {
		case "close-called":
			ev = r.evCalled
		case "close-returned":
			ev = r.evReturned
		}
		if ev != nil {
			r.mu.Lock()
			r.parks++
			r.mu.Unlock()
			select {
			case <-ev:
			case <-r.evEnd:
			}
		}
	}
	if strings.HasPrefix(point, "do:") && isClosed(r.evReturned) {
		r.mu.Lock()
		r.heldAt[fmt.Sprint(role, len(b))] = point
		r.mu.Unlock()
	}
}

func (r *run) doOp(ai int, a Actor, phase string, lin, size int) {
	op := &opRec{actor: ai, role: a.Role, phase: phase, lin: lin, size: size, buf: make([]byte, size)}
	op.id = bufID(op.buf)
	if a.Role == "w" {
		for i := range op.buf {
			op.buf[i] = chunkByte(ai, lin, i)
		}
	}
	r.mu.Lock()
	r.ops = append(r.ops, op)
	r.mu.Unlock()
	op.afterClose = isClosed(r.evReturned)
	op.start = r.seq.Add(1)
	var n int
	var err error
	if a.Role == "w" {
		n, err = r.conn.Write(op.buf)
	} else {
		n, err = r.conn.Read(op.buf)
	}
	end := r.seq.Add(1)
	r.mu.Lock()
	op.n, op.err, op.end = n, err, end
	r.mu.Unlock()
}

const watchdog = 30 * time.Second

func waitFor(done <-chan struct{}, d time.Duration) bool {
	t := time.NewTimer(d)
	defer t.Stop()
	select {
	case <-done:
		return true
	case <-t.C:
		return false
	}
}

func wgChan(wg *sync.WaitGroup) chan struct{} {
	ch := make(chan struct{})
	go func() { wg.Wait(); close(ch) }()
	return ch
}

type info struct {
	pending, after, heldN, parks, raceEOF, raceGenuine, lateDelivery, retained int
	runLeak                                                                    bool
}

func stacks() string {
	buf := make([]byte, 1<<16)
	buf = buf[:runtime.Stack(buf, true)]
	return string(buf)
}

// execute runs the history once. stall is set when a wait hit the watchdog.
func execute(c Case) (v *vk.Verdict, in info, stall bool) {
	c = sanitize(c)
	r := &run{c: c, evRace: make(chan struct{}), evCalled: make(chan struct{}), evReturned: make(chan struct{}), evEnd: make(chan struct{}),
		trig: make(chan struct{}), runExit: make(chan struct{}, 4), counters: map[string]int{}, heldAt: map[string]string{}}
	preR, preW := 0, 0
	for _, a := range c.Actors {
		if a.Role != "r" && a.Role != "w" {
			return vk.Bad("harness", "unknown role %q", a.Role), in, false
		}
		for _, s := range append(append(append([]int{}, a.Pre...), a.Race...), a.Post...) {
			if s < 1 || s > 1<<16 {
				return vk.Bad("harness", "op size %d out of range", s), in, false
			}
		}
		if a.Role == "r" {
			preR += len(a.Pre)
		} else {
			preW += len(a.Pre)
		}
	}
	r.src = &endpoint{r: r, source: true, tokens: make(chan struct{}, 1024), closedCh: make(chan struct{}), effective: c.SrcCloseUnblocks}
	r.sink = &endpoint{r: r, closedCh: make(chan struct{}), effective: c.SinkCloseStops}
	if c.SinkBlocking {
		r.sink.tokens = make(chan struct{}, 1024)
	}
	if c.Trigger.Role == "" {
		r.trigOnce = true
		close(r.trig)
	}
	r.conn = fakenet.NewConn("c41", r.src, r.sink)
	rf, wf := fakenet.VerifFeeders(r.conn)
	feeders.Store(rf, binding{r, "r"})
	feeders.Store(wf, binding{r, "w"})
	defer func() {
		feeders.Delete(rf)
		feeders.Delete(wf)
	}()

	var preWG, allWG sync.WaitGroup
	for ai, a := range c.Actors {
		preWG.Add(1)
		allWG.Add(1)
		go func(ai int, a Actor) {
			defer allWG.Done()
			lin := 0
			for _, s := range a.Pre {
				r.doOp(ai, a, "pre", lin, s)
				lin++
			}
			preWG.Done()
			<-r.evRace
			for _, s := range a.Race {
				r.doOp(ai, a, "race", lin, s)
				lin++
			}
			select {
			case <-r.evReturned:
			case <-r.evEnd:
				return
			}
			for _, s := range a.Post {
				r.doOp(ai, a, "post", lin, s)
				lin++
			}
		}(ai, a)
	}
	teardown := func() {
		close(r.evEnd)
		exits := 0
		t := time.NewTimer(2 * time.Second)
		defer t.Stop()
		for exits < 2 {
			select {
			case <-r.runExit:
				exits++
			case <-t.C:
				in.runLeak = true
				return
			}
		}
	}
	stalled := func(class, what string) (*vk.Verdict, info, bool) {
		dump := stacks()
		if !isClosed(r.evCalled) {
			close(r.evCalled)
		}
		if !isClosed(r.evReturned) {
			close(r.evReturned)
		}
		teardown()
		return vk.Bad(class, "%s (no progress for %v); goroutines:\n%s", what, watchdog, dump), in, true
	}

	// phase A: ops that complete before anything races
	r.src.release(preR)
	r.sink.release(preW)
	if !waitFor(wgChan(&preWG), watchdog) {
		return stalled("stall-before-close", "Read/Write calls issued long before Close did not return although the source/sink answered")
	}
	// race phase
	r.racing.Store(true)
	r.src.release(c.SrcRaceTokens)
	r.sink.release(c.SinkRaceTokens)
	close(r.evRace)
	if !waitFor(r.trig, 10*time.Second) {
		v, in, _ := stalled("harness", fmt.Sprintf("the trigger %+v was not reached: the case is not deadlock-free by construction", c.Trigger))
		return v, in, false
	}
	for i := 0; i < c.Trigger.Gosched; i++ {
		runtime.Gosched()
	}
	atomic.StoreInt64(&r.closeCall, r.seq.Add(1))
	close(r.evCalled)
	var closeWG sync.WaitGroup
	for i := 0; i < c.Closers; i++ {
		closeWG.Add(1)
		go func() { defer closeWG.Done(); r.conn.Close() }()
	}
	if !waitFor(wgChan(&closeWG), watchdog) {
		return stalled("stall-close", "Close did not return")
	}
	atomic.StoreInt64(&r.closeRet, r.seq.Add(1))
	close(r.evReturned)
	// everything pending or started later must now return, without the source being released
	if !waitFor(wgChan(&allWG), watchdog) {
		return stalled("stall-after-close", "Read/Write calls pending at or started after Close did not return")
	}
	teardown()
	v = r.judge(&in)
	return v, in, false
}

func opName(o *opRec) string {
	kind := "Read"
	if o.role == "w" {
		kind = "Write"
	}
	return fmt.Sprintf("%s #%d of actor %d (%s phase, %d bytes)", kind, o.lin, o.actor, o.phase, o.size)
}

func (r *run) judge(in *info) *vk.Verdict {
	r.mu.Lock()
	defer r.mu.Unlock()
	closeCall, closeRet := atomic.LoadInt64(&r.closeCall), atomic.LoadInt64(&r.closeRet)
	in.parks = r.parks
	byBuf := map[string]*opRec{} // ops are identified by role and (unique) buffer length
	for _, o := range r.ops {
		key := fmt.Sprint(o.role, o.size)
		if byBuf[key] != nil {
			return vk.Bad("harness", "two %s ops share the length %d", o.role, o.size)
		}
		byBuf[key] = o
		o.held = r.heldAt[key]
	}
	for _, e := range []*endpoint{r.src, r.sink} {
		e.mu.Lock()
		defer e.mu.Unlock()
		if e.overlap {
			return vk.Bad("endpoint-concurrent", "two calls of the %s overlapped: the feeder does not serialise them", e.name())
		}
	}
	callsOf := func(o *opRec) (cs []*callRec) {
		e := r.src
		if o.role == "w" {
			e = r.sink
		}
		for _, c := range e.calls {
			if c.size == o.size {
				cs = append(cs, c)
			}
		}
		return
	}
	ops := append([]*opRec{}, r.ops...)
	sort.Slice(ops, func(i, j int) bool { return ops[i].start < ops[j].start })
	var retained *vk.Verdict
	for _, o := range ops {
		for _, c := range callsOf(o) {
			if c.buf == o.id && (c.end == 0 || c.end > o.end) && retained == nil {
				when := fmt.Sprintf("returned at seq %d", c.end)
				if c.end == 0 {
					when = "never returned"
				}
				retained = vk.Bad("buffer-used-after-return", "%s returned (%d, %v) at seq %d, but the feeder goroutine went on using the caller's buffer: the %s call with that very buffer started at seq %d and %s (io.Reader/io.Writer: implementations must not retain p)",
					opName(o), o.n, o.err, o.end, r.endOf(o).name(), c.start, when)
				in.retained++
			}
		}
	}
	for _, o := range ops {
		cs := callsOf(o)
		isEOF := o.n == 0 && o.err == io.EOF
		if len(cs) > 1 {
			return vk.Bad("duplicate-delivery", "%s reached the %s %d times", opName(o), r.endOf(o).name(), len(cs))
		}
		switch {
		case o.afterClose:
			in.after++
			if !isEOF {
				return vk.Bad("post-close-not-eof", "%s was started after Close had returned and returned (%d, %v), want (0, EOF)", opName(o), o.n, o.err)
			}
			if len(cs) > 0 {
				return vk.Bad("post-close-reached-endpoint", "%s was started after Close had returned, yet its buffer reached the %s (call seq %d, Close returned at seq %d)", opName(o), r.endOf(o).name(), cs[0].start, closeRet)
			}
			continue
		case o.held != "":
			in.heldN++
			if !isEOF {
				return vk.Bad("pending-not-eof", "%s was at %s when Close had returned and then returned (%d, %v), want (0, EOF)", opName(o), o.held, o.n, o.err)
			}
		}
		if o.start < closeCall && o.end > closeCall {
			in.pending++
		}
		if isEOF {
			if o.end < closeCall {
				return vk.Bad("eof-before-close", "%s returned (0, EOF) at seq %d, before Close was called (seq %d)", opName(o), o.end, closeCall)
			}
			if o.phase == "race" {
				in.raceEOF++
			}
			if len(cs) == 1 && (cs[0].end == 0 || cs[0].end > closeRet) {
				in.lateDelivery++
			}
			continue
		}
		if o.phase == "race" {
			in.raceGenuine++
		}
		// a genuine result: exactly what the single source/sink call for this buffer returned
		if len(cs) == 0 {
			return vk.Bad("result-without-call", "%s returned (%d, %v) but its buffer never reached the %s", opName(o), o.n, o.err, r.endOf(o).name())
		}
		c := cs[0]
		if c.end == 0 || c.end > o.end {
			return vk.Bad("result-before-call-end", "%s returned (%d, %v) before the %s call for its buffer had returned", opName(o), o.n, o.err, r.endOf(o).name())
		}
		if o.n != c.n || o.err != c.err {
			return vk.Bad("result-mismatch", "%s returned (%d, %v), the %s had returned (%d, %v)", opName(o), o.n, o.err, r.endOf(o).name(), c.n, c.err)
		}
		if o.role == "r" {
			for i := 0; i < o.n; i++ {
				if o.buf[i] != srcByte(c.off+i) {
					return vk.Bad("data-modified", "%s: byte %d is %#x, the source handed out %#x", opName(o), i, o.buf[i], srcByte(c.off+i))
				}
			}
		}
	}
	// the sink's view: whole unmodified chunks, per writer in order, no gap
	next := map[int]int{}
	for _, c := range r.sink.calls {
		o := byBuf[fmt.Sprint("w", c.size)]
		if o == nil {
			return vk.Bad("sink-unknown-buffer", "the sink was called with a buffer (%d bytes) that no Write passed in", c.size)
		}
		if c.data != nil || c.err == nil {
			if len(c.data) != o.size {
				return vk.Bad("data-modified", "%s reached the sink as %d bytes", opName(o), len(c.data))
			}
			for i, b := range c.data {
				if b != chunkByte(o.actor, o.lin, i) {
					return vk.Bad("data-modified", "%s: byte %d reached the sink as %#x, written %#x", opName(o), i, b, chunkByte(o.actor, o.lin, i))
				}
			}
		}
		if o.lin != next[o.actor] {
			return vk.Bad("sink-order", "writer %d: chunk #%d reached the sink where #%d was due (order/gap)", o.actor, o.lin, next[o.actor])
		}
		next[o.actor] = o.lin + 1
	}
	// the readers' view: successful reads of one reader see increasing source offsets
	last := map[int]int{}
	for _, o := range ops {
		if o.role != "r" || o.err != nil || o.n == 0 {
			continue
		}
		c := callsOf(o)[0]
		if prev, ok := last[o.actor]; ok && c.off < prev {
			return vk.Bad("read-order", "reader %d saw source offset %d after offset %d", o.actor, c.off, prev)
		}
		last[o.actor] = c.off + o.n
	}
	return retained
}

func (e *endpoint) name() string {
	if e.source {
		return "source"
	}
	return "sink"
}

func (r *run) endOf(o *opRec) *endpoint {
	if o.role == "w" {
		return r.sink
	}
	return r.src
}

// check is the oracle: a stall only counts when it reproduces three times in a row.
func check(c Case) (*vk.Verdict, info) {
	v, in, stall := execute(c)
	if !stall {
		return v, in
	}
	for i := 0; i < 2; i++ {
		v2, in2, stall2 := execute(c)
		if !stall2 {
			return v2, in2 // inconclusive stall: did not reproduce
		}
	}
	return v, in
}

var oracle = vk.Register("history", func(c Case) *vk.Verdict { v, _ := check(c); return v })

// ---- generator ----------------------------------------------------------------------------------------

func genCase(t *rapid.T) Case {
	var c Case
	sizes := rapid.SampledFrom([]int{1, 1, 33, 65, 129, 225})
	nr := rapid.IntRange(0, 3).Draw(t, "readers")
	nw := rapid.IntRange(0, 3).Draw(t, "writers")
	if nr+nw == 0 {
		nw = 1
	}
	for i := 0; i < nr+nw; i++ {
		a := Actor{Role: "r"}
		if i >= nr {
			a.Role = "w"
		}
		a.Pre = rapid.SliceOfN(sizes, 0, 3).Draw(t, "pre")
		a.Race = rapid.SliceOfN(sizes, 0, 3).Draw(t, "race")
		a.Post = rapid.SliceOfN(sizes, 0, 2).Draw(t, "post")
		c.Actors = append(c.Actors, a)
	}
	c.SrcChunks = rapid.SliceOfN(rapid.SampledFrom([]int{1, 2, 3, 8, 64}), 1, 3).Draw(t, "srcchunks")
	if rapid.IntRange(0, 5).Draw(t, "srcerr?") == 0 {
		c.SrcErrAt = rapid.IntRange(1, 6).Draw(t, "srcerrat")
	}
	c.SrcRaceTokens = rapid.SampledFrom([]int{0, 0, 0, 1, 2, 9}).Draw(t, "srctokens")
	c.SrcCloseUnblocks = rapid.Bool().Draw(t, "srccloseunblocks")
	c.SinkBlocking = rapid.IntRange(0, 2).Draw(t, "sinkblocking") == 0
	if c.SinkBlocking {
		c.SinkRaceTokens = rapid.SampledFrom([]int{0, 0, 1, 2, 9}).Draw(t, "sinktokens")
	}
	c.SinkCloseStops = rapid.Bool().Draw(t, "sinkclosestops")
	c.Closers = rapid.SampledFrom([]int{1, 1, 1, 2}).Draw(t, "closers")
	if rapid.IntRange(0, 5).Draw(t, "trigger?") > 0 {
		roles := []string{}
		for _, a := range c.Actors {
			if len(a.Race) > 0 {
				roles = append(roles, a.Role)
			}
		}
		if len(roles) == 0 {
			roles = []string{"r", "w"}
		}
		c.Trigger = Trigger{Role: rapid.SampledFrom(roles).Draw(t, "trole"), Point: rapid.SampledFrom(points).Draw(t, "tpoint"), Count: rapid.IntRange(1, 3).Draw(t, "tcount")}
	}
	c.Trigger.Gosched = rapid.SampledFrom([]int{0, 0, 1, 2, 5}).Draw(t, "tgosched")
	n := rapid.IntRange(0, 6).Draw(t, "yields")
	for i := 0; i < n; i++ {
		y := Yield{Role: rapid.SampledFrom([]string{"r", "w"}).Draw(t, "yrole"), Point: rapid.SampledFrom(points).Draw(t, "ypoint"), K: rapid.IntRange(0, 3).Draw(t, "yk")}
		y.Gosched = rapid.SampledFrom([]int{0, 0, 1, 3}).Draw(t, "ygosched")
		y.Park = rapid.SampledFrom([]string{"", "close-called", "close-returned", "close-returned"}).Draw(t, "ypark")
		c.Script = append(c.Script, y)
	}
	return sanitize(c)
}

type failer interface {
	Fatalf(string, ...any)
	Helper()
}

func run1(t failer, c Case, class string) {
	var in info
	v := vk.R.Guard("history", c, 150*time.Second, func() *vk.Verdict {
		var v *vk.Verdict
		v, in = check(c)
		return v
	})
	nt := in.pending > 0 || in.after > 0
	js, _ := json.Marshal(c)
	vk.R.Case(nt, string(js))
	vk.R.Class(class)
	if in.pending > 0 {
		vk.R.Class("close-with-pending-ops")
	}
	if in.after > 0 {
		vk.R.Class("ops-started-after-close")
	}
	if in.heldN > 0 {
		vk.R.Class("op-held-at-hook-across-close")
	}
	if in.parks > 0 {
		vk.R.Class("script-parked-a-goroutine")
	}
	if in.raceEOF > 0 {
		vk.R.Class("race-op:eof")
	}
	if in.raceGenuine > 0 {
		vk.R.Class("race-op:genuine-result")
	}
	if in.lateDelivery > 0 {
		vk.R.Class("observed:pending-op-reached-endpoint-after-close")
	}
	if in.runLeak {
		vk.R.Class("observed:feeder-goroutine-not-exited-2s-after-teardown")
	}
	if c.Trigger.Role != "" {
		vk.R.Class("trigger=" + c.Trigger.Point)
	} else {
		vk.R.Class("trigger=immediate")
	}
	if nt {
		vk.R.Sample(string(js))
	}
	vk.R.Check(t, "history", c, v)
}

func TestHistories(t *testing.T) {
	vk.R.Rapid(t, 1, 5000, 150000, func(t *rapid.T) {
		run1(t, genCase(t), "src=generated")
	})
}

// TestShapes: hand-written shapes of the design (deterministic corpus).
func TestShapes(t *testing.T) {
	if vk.R.Shard != 0 {
		return
	}
	shapes := []Case{
		// a Write between the two selects of do while Close runs, sink keeps accepting writes
		{Actors: []Actor{{Role: "w", Pre: []int{3}, Race: []int{5}, Post: []int{2, 2}}}, Trigger: Trigger{Role: "w", Point: "do:sent", Count: 1},
			Script: []Yield{{Role: "w", Point: "do:sent", K: 0, Park: "close-returned"}}},
		// the feeder holds a received buffer across Close, then calls the sink
		{Actors: []Actor{{Role: "w", Race: []int{5, 1}, Post: []int{2}}}, Trigger: Trigger{Role: "w", Point: "run:recv", Count: 1},
			Script: []Yield{{Role: "w", Point: "run:recv", K: 0, Park: "close-returned"}}},
		// blocked source, three readers pending
		{Actors: []Actor{{Role: "r", Race: []int{8}, Post: []int{1}}, {Role: "r", Race: []int{8}}, {Role: "r", Race: []int{8}}}, Trigger: Trigger{Role: "r", Point: "do:enter", Count: 3}},
		// result ready at the moment of Close
		{Actors: []Actor{{Role: "r", Pre: []int{4}, Race: []int{8, 8}, Post: []int{1}}}, SrcRaceTokens: 9, Trigger: Trigger{Role: "r", Point: "run:result", Count: 1},
			Script: []Yield{{Role: "r", Point: "run:result", K: 0, Park: "close-called"}}},
		// op parked before its first select until Close has returned
		{Actors: []Actor{{Role: "w", Race: []int{4}}, {Role: "r", Race: []int{4}}}, SinkCloseStops: true, Closers: 2,
			Script: []Yield{{Role: "w", Point: "do:enter", K: 0, Park: "close-returned"}, {Role: "r", Point: "do:enter", K: 0, Park: "close-returned"}}},
	}
	for _, c := range shapes {
		c.SrcChunks = []int{3, 8}
		for rep := 0; rep < 20; rep++ {
			run1(t, sanitize(c), "src=shapes")
		}
	}
}

#!/usr/bin/env python3
import json,sys
d=json.load(open(sys.argv[1]))
c=dict(d['case'])
for k,v in c.items():
    if isinstance(v,str) and len(v)>400: c[k]=v[:400]+'…'
print(json.dumps(c)[:1500])
det=d['verdict']['detail']
lines=[l for l in det.split('\n') if 'runtime/' not in l and 'vk/replay' not in l and 'testing.' not in l]
print(d['verdict']['class']); print('\n'.join(lines[:int(sys.argv[2]) if len(sys.argv)>2 else 30]))

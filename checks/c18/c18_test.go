//go:build verif

// C18 — ast.Walk / ast.Inspect visit every node exactly once, in order, nil after children.
package c18

import (
	"fmt"
	goast "go/ast"
	goparser "go/parser"
	gotoken "go/token"
	"path/filepath"
	"runtime/debug"
	"sort"
	"strings"
	"testing"

	"github.com/goplus/xgo/ast"
	"github.com/goplus/xgo/parser"
	"pgregory.net/rapid"

	"verif/internal/astx"
	"verif/internal/gen/astgen"
	"verif/internal/gen/godecl"
	"verif/internal/gen/lex"
	"verif/internal/gen/xgotext"
	"verif/internal/vk"
)

func TestMain(m *testing.M) {
	vk.Main(m, "C18", "exploration",
		"trees = (a) error-free parses (ParseComments) of every repository source file, of token-level mutants of them, of generated Go declaration files and of generated XGo text; (b) trees synthesised by reflection over every node type declared in /repo/ast (registry checked against the package source; each kind also enumerated as root in fixed shapes), mandatory fields set, documented-optional fields drawn. Oracle: reference child enumeration by reflection (astx, field declaration order, through []any/any holders and through the tpl grammar of a tpl literal) minus the documented skips (File.Comments/Imports/ShadowEntry alias, name/type/doc of a shadow entry, implicit package name); for every node a one-level ast.Walk must report exactly those children (multiset), in field order (parsed trees: field order or source order by Pos), then exactly one Visit(nil); the full ast.Walk (one visitor per node) and ast.Inspect must nest properly, report the same parent/children relation and not panic. Non-trivial = tree has an XGo-only node kind; distinct = source kind + set of node kinds")
}

type Case struct {
	Kind     string   `json:"kind"`           // "src" | "synth"
	Name     string   `json:"name,omitempty"` // src: file name (its extension decides class-file parsing)
	Src      vk.Bytes `json:"src,omitempty"`
	Root     string   `json:"root,omitempty"` // synth: root node type
	Depth    int      `json:"depth,omitempty"`
	Choices  []int    `json:"choices,omitempty"`
	Avoid    bool     `json:"avoid,omitempty"`    // synth: steer away from the constructs of known findings
	Comments bool     `json:"comments,omitempty"` // synth: fill Doc/Comment groups
}

type info struct {
	rejected string
	kinds    map[string]int
	nodes    int
}

// ---- the tree under test -------------------------------------------------------------------

var avoidOpt = astgen.Options{
	Avoid:       map[string]bool{"MatrixLit": true, "ElemEllipsis": true},
	AvoidFields: map[string]bool{"ValueSpec.Tag": true, "ForPhrase.Init": true, "ForPhrase.Cond": true, "DomainTextLit.Extra": true},
}

func tree(c Case) (root goast.Node, parsed bool, rejected string) {
	switch c.Kind {
	case "synth":
		opt := astgen.Options{}
		if c.Avoid {
			opt = avoidOpt
		}
		opt.Comments = c.Comments
		n := astgen.Build(c.Root, c.Depth, c.Choices, opt, 3000)
		if n == nil {
			return nil, false, "unknown-root"
		}
		return n, false, ""
	case "src":
		fset := gotoken.NewFileSet()
		f, err := astx.ParseAny(fset, c.Name, c.Src, parser.ParseComments)
		if err != nil || f == nil {
			return nil, true, "parse-error"
		}
		return f, true, ""
	}
	return nil, false, "unknown-kind"
}

// ---- reference -----------------------------------------------------------------------------

// expected lists the children ast.Walk has to visit below n: everything reflection finds, minus
// the documented skips.
func expected(n goast.Node) []astx.Child {
	kids := astx.XChildren(n, astx.Options{Comments: true})
	switch x := n.(type) {
	case *ast.File:
		if x.NoPkgDecl { // the package name is implicit: "if !n.NoPkgDecl { Walk(v, n.Name) }"
			kids = drop(kids, "Name")
		}
	case *ast.FuncDecl:
		if x.Shadow { // "not a shadow entry": only the body of a shadow entry is source text
			kids = keep(kids, "Body")
		}
	}
	return kids
}

func drop(kids []astx.Child, field string) []astx.Child {
	var out []astx.Child
	for _, k := range kids {
		if k.Field != field {
			out = append(out, k)
		}
	}
	return out
}

func keep(kids []astx.Child, field string) []astx.Child {
	var out []astx.Child
	for _, k := range kids {
		if k.Field == field {
			out = append(out, k)
		}
	}
	return out
}

// ---- verdict bookkeeping -------------------------------------------------------------------

// classes of already understood root causes rank last, so that they never hide anything else.
var understood = map[string]int{"order:ForPhrase": 5, "skipped:ValueSpec.Tag": 6, "skipped:DomainTextLit.Extra.Args": 7,
	"skipped:DomainTextLit.Extra(File).Decls(Rule).RetProc": 8, "panic:MatrixLit": 9, "panic:ElemEllipsis": 10}

type verdicts struct {
	best *vk.Verdict
	all  map[string]bool
}

func (vs *verdicts) add(v *vk.Verdict) {
	if v == nil {
		return
	}
	if vs.all == nil {
		vs.all = map[string]bool{}
	}
	vs.all[v.Class] = true
	if vs.best == nil || understood[v.Class] < understood[vs.best.Class] {
		vs.best = v
	}
}

func describe(n goast.Node) string {
	s := "*" + astx.TypeName(n)
	if id, ok := n.(*ast.Ident); ok && id != nil {
		s += "(" + id.Name + ")"
	}
	if p := safePos(n); p.IsValid() {
		s += fmt.Sprintf("@%d", p)
	}
	return s
}

func safePos(n goast.Node) (p gotoken.Pos) {
	defer func() { recover() }()
	return n.Pos()
}

// compareChildren checks the children reported for parent against the reference.
func compareChildren(how string, parent goast.Node, exp []astx.Child, act []goast.Node, parsed bool, vs *verdicts) {
	pt := astx.TypeName(parent)
	left := map[goast.Node]int{}
	for _, a := range act {
		left[a]++
	}
	ok := true
	for _, e := range exp {
		if left[e.Node] > 0 {
			left[e.Node]--
			continue
		}
		ok = false
		vs.add(vk.Bad("skipped:"+pt+"."+e.Field, "%s: %s child %s (field %s) is never visited", how, describe(parent), describe(e.Node), e.Field))
	}
	seen := map[goast.Node]bool{}
	for _, a := range act {
		if left[a] > 0 && !seen[a] {
			seen[a] = true
			ok = false
			cls := "extra:" + pt + ":" + astx.TypeName(a)
			for _, e := range exp {
				if e.Node == a {
					cls = "visited-twice:" + pt + "." + e.Field
				}
			}
			vs.add(vk.Bad(cls, "%s: %s reports child %s %d time(s) more than the tree holds it", how, describe(parent), describe(a), left[a]))
		}
	}
	if !ok {
		return
	}
	same := true
	for i := range exp {
		if exp[i].Node != act[i] {
			same = false
			break
		}
	}
	if same {
		return
	}
	if _, isPkg := parent.(*ast.Package); isPkg {
		return // Package.Files is a map: "for _, f := range n.Files" has no order
	}
	if parsed { // source order: accepted when the positions are non-decreasing
		sorted := true
		last := gotoken.NoPos
		for _, a := range act {
			if p := safePos(a); p.IsValid() {
				if p < last {
					sorted = false
					break
				}
				last = p
			}
		}
		if sorted {
			return
		}
	}
	var es, as []string
	for _, e := range exp {
		es = append(es, e.Field+"="+describe(e.Node))
	}
	for _, a := range act {
		as = append(as, describe(a))
	}
	vs.add(vk.Bad("order:"+pt, "%s: children of %s are visited out of order\nfield/source order: %s\nvisited:            %s", how, describe(parent), strings.Join(es, ", "), strings.Join(as, ", ")))
}

// ---- one-level walk --------------------------------------------------------------------------

type shallow struct {
	started bool
	kids    []goast.Node
	nils    int
	nilAt   int
}

func (s *shallow) Visit(n ast.Node) ast.Visitor {
	if n == nil {
		s.nils++
		s.nilAt = len(s.kids)
		return nil
	}
	if !s.started {
		s.started = true
		return s
	}
	s.kids = append(s.kids, n)
	return nil
}

func shallowWalk(n goast.Node) (s *shallow, panicked any, stack string) {
	s = &shallow{}
	defer func() {
		if p := recover(); p != nil {
			panicked, stack = p, string(debug.Stack())
		}
	}()
	ast.Walk(s, n)
	return
}

// ---- full walks ------------------------------------------------------------------------------

// occ is one visit of a node (a node the parser shares between two parents, e.g. the lead
// comment that is both File.Doc and the first declaration's Doc in a file without package
// clause, is visited once per occurrence, like the reflection reference does).
type occ struct {
	node goast.Node
	kids []goast.Node
}

type recorder struct {
	how      string
	rootOcc  *occ
	occs     []*occ
	stack    []*occ
	problems []*vk.Verdict
}

type deepV struct {
	r *recorder
	o *occ
}

func (r *recorder) enter(parent *occ, n goast.Node) *occ {
	parent.kids = append(parent.kids, n)
	o := &occ{node: n}
	r.occs = append(r.occs, o)
	r.stack = append(r.stack, o)
	return o
}

func (d *deepV) Visit(n ast.Node) ast.Visitor {
	r := d.r
	if n == nil {
		if len(r.stack) == 0 || r.stack[len(r.stack)-1] != d.o {
			r.problems = append(r.problems, vk.Bad("nil-call:"+astx.TypeName(d.o.node), "%s: Visit(nil) arrives on the visitor of %s while the innermost open node is %v", r.how, describe(d.o.node), topNode(r.stack)))
			return nil
		}
		r.stack = r.stack[:len(r.stack)-1]
		return nil
	}
	if len(r.stack) > 0 && r.stack[len(r.stack)-1] != d.o || len(r.stack) == 0 && d.o != r.rootOcc {
		t := topNode(r.stack)
		r.problems = append(r.problems, vk.Bad("nil-call:"+astx.TypeName(t), "%s: %s is visited through the visitor of %v while %v is still open (its Visit(nil) is missing)", r.how, describe(n), d.o.node, t))
	}
	return &deepV{r, r.enter(d.o, n)}
}

func topNode(s []*occ) goast.Node {
	if len(s) == 0 {
		return nil
	}
	return s[len(s)-1].node
}

func deepWalk(root goast.Node, inspect bool) (r *recorder, panicked any, stack string) {
	r = &recorder{how: "ast.Walk", rootOcc: &occ{}}
	defer func() {
		if p := recover(); p != nil {
			panicked, stack = p, string(debug.Stack())
		}
	}()
	if !inspect {
		ast.Walk(&deepV{r, r.rootOcc}, root)
		return
	}
	r.how = "ast.Inspect"
	ast.Inspect(root, func(n ast.Node) bool {
		if n == nil {
			if len(r.stack) == 0 {
				r.problems = append(r.problems, vk.Bad("nil-call:<root>", "ast.Inspect: f(nil) with no open node"))
				return false
			}
			r.stack = r.stack[:len(r.stack)-1]
			return false
		}
		p := r.rootOcc
		if len(r.stack) > 0 {
			p = r.stack[len(r.stack)-1]
		}
		r.enter(p, n)
		return true
	})
	return
}

func trimStack(s string) string {
	lines := strings.Split(s, "\n")
	var out []string
	for _, l := range lines {
		if strings.Contains(l, "xgo/ast") {
			out = append(out, strings.TrimSpace(l))
		}
		if len(out) >= 6 {
			break
		}
	}
	return strings.Join(out, " | ")
}

// ---- the oracle ------------------------------------------------------------------------------

func traverse(c Case) (*vk.Verdict, info) {
	in := info{kinds: map[string]int{}}
	root, parsed, rej := tree(c)
	if rej != "" {
		in.rejected = rej
		return nil, in
	}
	var vs verdicts

	// reference tree (reflection only)
	var order []goast.Node
	exp := map[goast.Node][]astx.Child{}
	var build func(n goast.Node, depth int)
	build = func(n goast.Node, depth int) {
		order = append(order, n)
		in.kinds[astx.TypeName(n)]++
		if _, dup := exp[n]; dup || depth > 5000 {
			return
		}
		kids := expected(n)
		exp[n] = kids
		for _, k := range kids {
			build(k.Node, depth+1)
		}
	}
	build(root, 0)
	in.nodes = len(order)

	// (1) every node on its own: children, order, nil call, no panic
	done := map[goast.Node]bool{}
	for _, n := range order {
		if done[n] {
			continue
		}
		done[n] = true
		s, p, st := shallowWalk(n)
		tn := astx.TypeName(n)
		if p != nil {
			vs.add(vk.Bad("panic:"+tn, "ast.Walk panics on %s: %v [%s]", describe(n), p, trimStack(st)))
			continue
		}
		compareChildren("ast.Walk (one level)", n, exp[n], s.kids, parsed, &vs)
		if s.nils != 1 || s.nilAt != len(s.kids) {
			vs.add(vk.Bad("nil-call:"+tn, "ast.Walk on %s: %d Visit(nil) calls, the last after %d of %d children (want exactly one, after all children)", describe(n), s.nils, s.nilAt, len(s.kids)))
		}
	}

	// (2) the full traversals
	for _, inspect := range []bool{false, true} {
		r, p, st := deepWalk(root, inspect)
		if p != nil {
			last := goast.Node(nil)
			if len(r.occs) > 0 {
				last = r.occs[len(r.occs)-1].node
			}
			vs.add(vk.Bad("panic:"+astx.TypeName(last), "%s panics below %s at %s: %v [%s]", r.how, describe(root), describe(last), p, trimStack(st)))
			continue
		}
		for _, v := range r.problems {
			vs.add(v)
		}
		if len(r.stack) != 0 {
			vs.add(vk.Bad("nil-call:"+astx.TypeName(topNode(r.stack)), "%s: %d nodes never got their Visit(nil), innermost %s", r.how, len(r.stack), describe(topNode(r.stack))))
		}
		if got := r.rootOcc.kids; len(got) != 1 || got[0] != root {
			vs.add(vk.Bad("root", "%s: the first visit is not the root (%d top-level visits)", r.how, len(got)))
		}
		for _, o := range r.occs { // a node that was itself skipped is reported once, at its parent
			kids, ok := exp[o.node]
			if !ok {
				vs.add(vk.Bad("extra:"+astx.TypeName(o.node), "%s: visits %s, which the tree does not hold", r.how, describe(o.node)))
				continue
			}
			compareChildren(r.how, o.node, kids, o.kids, parsed, &vs)
		}
	}
	return vs.best, in
}

var _ = vk.Register("traverse", func(c Case) *vk.Verdict { v, _ := traverse(c); return v })

func safeTraverse(c Case) (v *vk.Verdict, in info) {
	defer func() {
		if p := recover(); p != nil {
			v = vk.Bad("harness-panic", "%v\n%s", p, debug.Stack())
		}
	}()
	return traverse(c)
}

type failer interface {
	Fatalf(string, ...any)
	Helper()
}

func run(t failer, c Case, class string) {
	v, in := safeTraverse(c)
	if in.rejected != "" {
		vk.R.Rejected(class + ":" + in.rejected)
		vk.R.Case(false, "")
		return
	}
	kinds := make([]string, 0, len(in.kinds))
	xgo := false
	for k := range in.kinds {
		kinds = append(kinds, k)
		if astgen.XGoOnly[k] {
			xgo = true
		}
	}
	sort.Strings(kinds)
	vk.R.Case(xgo, c.Kind+"|"+strings.Join(kinds, ","))
	vk.R.Class(class)
	for _, k := range kinds {
		vk.R.ClassN("kind="+k, int64(in.kinds[k]))
	}
	vk.R.Add("nodes", int64(in.nodes))
	if xgo && c.Kind == "src" && len(c.Src) < 400 {
		vk.R.Sample(string(c.Src))
	}
	vk.R.Check(t, "traverse", c, v)
}

// ---- self-test: the registry of node kinds is complete ---------------------------------------

func TestRegistryComplete(t *testing.T) {
	dir := filepath.Join(lex.RepoDir(), "ast")
	files, _ := filepath.Glob(filepath.Join(dir, "*.go"))
	has := map[string]int{}
	structs := map[string]bool{}
	aliases := map[string]string{}
	fset := gotoken.NewFileSet()
	for _, fn := range files {
		if strings.HasSuffix(fn, "_test.go") {
			continue
		}
		f, err := goparser.ParseFile(fset, fn, nil, goparser.SkipObjectResolution)
		if err != nil {
			vk.R.Infra("cannot parse %s: %v", fn, err)
			t.Fatalf("parse %s: %v", fn, err)
		}
		for _, d := range f.Decls {
			switch x := d.(type) {
			case *goast.FuncDecl:
				if x.Recv == nil || len(x.Recv.List) != 1 || (x.Name.Name != "Pos" && x.Name.Name != "End") {
					continue
				}
				rt := x.Recv.List[0].Type
				if s, ok := rt.(*goast.StarExpr); ok {
					rt = s.X
				}
				if id, ok := rt.(*goast.Ident); ok {
					if x.Name.Name == "Pos" {
						has[id.Name] |= 1
					} else {
						has[id.Name] |= 2
					}
				}
			case *goast.GenDecl:
				for _, s := range x.Specs {
					ts, ok := s.(*goast.TypeSpec)
					if !ok || !ts.Name.IsExported() {
						continue
					}
					if _, ok := ts.Type.(*goast.StructType); ok {
						structs[ts.Name.Name] = true
					}
					if sel, ok := ts.Type.(*goast.SelectorExpr); ok && ts.Assign.IsValid() {
						aliases[ts.Name.Name] = sel.Sel.Name
					}
				}
			}
		}
	}
	declared := map[string]bool{}
	for name, m := range has {
		if m == 3 && structs[name] {
			declared[name] = true
		}
	}
	for name, target := range aliases {
		if target == "Comment" || target == "CommentGroup" {
			declared[name] = true
		}
	}
	registered := map[string]bool{}
	for _, n := range astgen.TypeNames() {
		registered[n] = true
	}
	var missing, stale []string
	for n := range declared {
		if !registered[n] {
			missing = append(missing, n)
		}
	}
	for n := range registered {
		if !declared[n] {
			stale = append(stale, n)
		}
	}
	sort.Strings(missing)
	sort.Strings(stale)
	vk.R.Set("node_kinds_declared", int64(len(declared)))
	if len(missing)+len(stale) > 0 {
		vk.R.Infra("node-kind registry out of date: not registered %v, not declared any more %v", missing, stale)
		t.Fatalf("registry out of date: missing %v stale %v", missing, stale)
	}
}

// ---- tests -----------------------------------------------------------------------------------

func fixedChoices(k, n int) []int {
	out := make([]int, n)
	for i := range out {
		if k < 0 {
			out[i] = i % 7
		} else {
			out[i] = k
		}
	}
	return out
}

// TestEveryKind enumerates every node kind as the root of fixed shapes (minimal, everything
// present with the k-th alternative everywhere, a ramp), with and without steering away from
// the constructs of the known findings, and checks that each kind has been built somewhere.
func TestEveryKind(t *testing.T) {
	vk.R.Assume("documented skips are honoured: File.Comments/Imports, File.ShadowEntry (alias of the last declaration), Doc/Recv/Name/Type of a shadow entry (`if !n.Shadow`), the implicit package name (`if !n.NoPkgDecl`), Ident.Obj and scopes")
	vk.R.Assume("trees of the compiler front end (cl) beyond what the parser builds are represented by the synthesised trees only; a node the parser shares between two parents counts once per occurrence")
	vk.R.Assume("sibling order of an *ast.Package's files is not checked (map iteration)")
	names := astgen.TypeNames()
	built := map[string]bool{}
	i := 0
	for _, name := range names {
		for _, avoid := range []bool{false, true} {
			for k := -1; k <= 6; k++ {
				for _, depth := range []int{1, 3} {
					i++
					if i%vk.R.Shards != vk.R.Shard {
						continue
					}
					c := Case{Kind: "synth", Root: name, Depth: depth, Choices: fixedChoices(k, 600), Avoid: avoid, Comments: k%2 == 1}
					if k == 0 {
						c.Choices = nil
					}
					if root, _, _ := tree(c); root != nil {
						if astx.TypeName(root) != name {
							vk.R.Infra("astgen built %s for root %s", astx.TypeName(root), name)
						}
						astx.XWalk(root, astx.Options{Comments: true}, func(n, _ goast.Node, _ string) bool {
							built[astx.TypeName(n)] = true
							return true
						})
					}
					run(t, c, "src=synth-enumerated")
				}
			}
		}
	}
	if vk.R.Shards == 1 {
		for _, name := range names {
			if !built[name] {
				vk.R.Infra("node kind %s is never built by the enumeration", name)
			}
		}
	}
}

func TestSynth(t *testing.T) {
	names := astgen.TypeNames()
	vk.R.Rapid(t, 1, 12000, 300000, func(t *rapid.T) {
		c := Case{Kind: "synth",
			Root:     rapid.SampledFrom(names).Draw(t, "root"),
			Depth:    rapid.IntRange(1, 6).Draw(t, "depth"),
			Choices:  rapid.SliceOfN(rapid.IntRange(0, 40), 0, 300).Draw(t, "choices"),
			Avoid:    rapid.Bool().Draw(t, "avoid"),
			Comments: rapid.Bool().Draw(t, "comments"),
		}
		if c.Avoid {
			vk.R.Excluded("generator:avoid-known")
		}
		run(t, c, "src=synth")
	})
}

var names = []string{"a.xgo", "a.xgo", "a.gop", "A.gox", "A_spx.gox", "main.spx", "Cat.spx", "a.gsh", "a_test.gox", "a.gmx", "a.yap", "a.go"}

func TestCorpusMutants(t *testing.T) {
	g := lex.CorpusMutant(append(append([]string{}, lex.XGoExts...), ".go")...)
	vk.R.Rapid(t, 2, 5000, 100000, func(t *rapid.T) {
		src := g.Draw(t, "src")
		run(t, Case{Kind: "src", Name: rapid.SampledFrom(names).Draw(t, "name"), Src: src}, "src=corpus-mutant")
	})
}

func TestGeneratedXGo(t *testing.T) {
	vk.R.Rapid(t, 3, 5000, 100000, func(t *rapid.T) {
		name := rapid.SampledFrom([]string{"a.xgo", "a.xgo", "A.gox", "main.spx"}).Draw(t, "name")
		src := xgotext.File(!strings.HasSuffix(name, ".xgo")).Draw(t, "src")
		run(t, Case{Kind: "src", Name: name, Src: vk.Bytes(src)}, "src=generated-xgo")
	})
}

func TestGeneratedGo(t *testing.T) {
	vk.R.Rapid(t, 4, 800, 20000, func(t *rapid.T) {
		opt := godecl.Options{TypeParams: rapid.Bool().Draw(t, "tp"), IndexList: rapid.Bool().Draw(t, "il")}
		src := godecl.File(opt).Draw(t, "src")
		run(t, Case{Kind: "src", Name: "a.go", Src: vk.Bytes(src)}, "src=generated-go")
	})
}

func TestCorpus(t *testing.T) {
	if vk.R.Shard != 0 {
		return
	}
	n := 0
	for _, f := range lex.Corpus() {
		if filepath.Ext(f.Path) == ".tpl" {
			continue
		}
		n++
		run(t, Case{Kind: "src", Name: filepath.Base(f.Path), Src: vk.Bytes(f.Src)}, "src=corpus")
	}
	vk.R.Set("corpus_files", int64(n))
}

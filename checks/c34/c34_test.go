//go:build verif

// C34 — directory parsing selects exactly the right files, classifies class / project / normal
// .gox files as the class-kind function and the extension rules say, and groups by package name.
package c34

import (
	"encoding/json"
	"fmt"
	"io/fs"
	"path"
	"sort"
	"strings"
	"syscall"
	"testing"
	"time"

	"github.com/goplus/xgo/ast"
	"github.com/goplus/xgo/parser"
	"github.com/goplus/xgo/token"
	"pgregory.net/rapid"

	"verif/internal/vk"
)

func TestMain(m *testing.M) {
	vk.Main(m, "C34", "exploration",
		"directories of 0-12 entries served through a harness FileSystem: names = prefix {none, _, gop_autogen, gop_autogen_, ., xgo_autogen} + stem + extension {.xgo .gop .go .gox .spx .gmx .gsh _spx.gox _test.gox _yap.gox .yap .txt .md .XGO .gox.bak none}, some entries are sub-directories named like files; contents are valid for every parse mode (optional package clause p1/p2/main/foo, Go files always have one); ClassKind = nil (default) or a drawn suffix table {suffix -> isProj, project file name}; Filter = nil or a drawn reject set; mode bits drawn from {ParseGoAsGoPlus, SaveAbsFile, ParseComments, PackageClauseOnly}; directory spelled relative, dotted or absolute. Oracle = independent model of the statement: included iff regular file, no '_' prefix, filter accepts, and (.xgo/.gop, or .go without gop_autogen prefix, or .gox, or ClassKind says class); IsClass/IsProj/IsNormalGox per the rules; key = Join(dir, name) (absolute under SaveAbsFile); grouped under the declared package name (main when absent); Go files under GoFiles unless ParseGoAsGoPlus; no error. A second oracle applies the classification rules to ParseFSEntry on every file name (ErrUnknownFileKind iff no rule applies). Non-trivial = at least one included class file and at least one excluded entry; distinct = hash of the case document")
}

// ---- case ---------------------------------------------------------------------------------------

type Entry struct {
	Name string `json:"name"`
	Dir  bool   `json:"dir,omitempty"`
	Pkg  string `json:"pkg,omitempty"`  // declared package name; "" = no package clause
	Body int    `json:"body,omitempty"` // index into bodies
}

type CKRule struct {
	Suffix   string `json:"suffix"`
	Proj     bool   `json:"proj,omitempty"`
	ProjName string `json:"proj_name,omitempty"` // this file name is the project file of the class
}

type Case struct {
	Dir      string   `json:"dir"`
	Entries  []Entry  `json:"entries"`
	CK       []CKRule `json:"ck,omitempty"`
	CustomCK bool     `json:"custom_ck,omitempty"` // false: Config.ClassKind == nil
	Filter   bool     `json:"filter,omitempty"`    // false: Config.Filter == nil
	Reject   []string `json:"reject,omitempty"`    // names the filter rejects
	GoAsXGo  bool     `json:"go_as_xgo,omitempty"`
	Abs      bool     `json:"abs,omitempty"`
	Extra    uint     `json:"extra,omitempty"` // further parser.Mode bits (ParseComments, PackageClauseOnly)
}

// bodies are valid in every mode used here (Go parser, XGo parser, class-file mode)
var bodies = []string{"func f() {}\n", "", "func f() {}\n\nfunc g(a int) int { return a }\n", "// c\n"}

func (e Entry) content() string {
	b := bodies[e.Body%len(bodies)]
	if e.Pkg != "" {
		return "package " + e.Pkg + "\n\n" + b
	}
	return b
}

// ---- harness file system ------------------------------------------------------------------------

const absRoot = "/abs/root"

type hfs struct {
	dir     string // the only directory that exists, in the spelling of the case ...
	alt     string // ... and in its absolute spelling (which one the parser asks for is its business)
	entries []Entry
	reads   map[string]int
}

type dirEntry struct{ e Entry }

func (d dirEntry) Name() string               { return d.e.Name }
func (d dirEntry) IsDir() bool                { return d.e.Dir }
func (d dirEntry) Type() fs.FileMode          { return d.Mode().Type() }
func (d dirEntry) Info() (fs.FileInfo, error) { return d, nil }
func (d dirEntry) Size() int64                { return int64(len(d.e.content())) }
func (d dirEntry) ModTime() time.Time         { return time.Unix(0, 0) }
func (d dirEntry) Sys() any                   { return nil }
func (d dirEntry) Mode() fs.FileMode {
	if d.e.Dir {
		return fs.ModeDir | 0o755
	}
	return 0o644
}

func (h *hfs) ReadDir(dirname string) ([]fs.DirEntry, error) {
	if dirname != h.dir && dirname != h.alt {
		return nil, &fs.PathError{Op: "readdir", Path: dirname, Err: syscall.ENOENT}
	}
	es := append([]Entry{}, h.entries...)
	sort.Slice(es, func(i, j int) bool { return es[i].Name < es[j].Name })
	out := make([]fs.DirEntry, len(es))
	for i, e := range es {
		out[i] = dirEntry{e}
	}
	return out, nil
}

func (h *hfs) ReadFile(filename string) ([]byte, error) {
	h.reads[filename]++
	for _, e := range h.entries {
		if path.Join(h.dir, e.Name) == filename || path.Join(h.alt, e.Name) == filename {
			if e.Dir {
				return nil, &fs.PathError{Op: "read", Path: filename, Err: syscall.EISDIR}
			}
			return []byte(e.content()), nil
		}
	}
	return nil, &fs.PathError{Op: "open", Path: filename, Err: syscall.ENOENT}
}

func (h *hfs) Join(elem ...string) string  { return path.Join(elem...) }
func (h *hfs) Base(filename string) string { return path.Base(filename) }
func (h *hfs) Abs(p string) (string, error) {
	if path.IsAbs(p) {
		return path.Clean(p), nil
	}
	return path.Join(absRoot, p), nil
}

// ---- model ----------------------------------------------------------------------------------------

type flags struct{ Class, Proj, NormalGox bool }

type want struct {
	key    string
	pkg    string
	goFile bool
	fl     flags
}

// modelExt: the extension is everything from the last dot of the name.
func modelExt(name string) string {
	if i := strings.LastIndexByte(name, '.'); i >= 0 {
		return name[i:]
	}
	return ""
}

// classKind is the model of Config.ClassKind: default rules when the case has no table.
func (c Case) classKind(name string) (proj, ok bool) {
	if !c.CustomCK {
		switch modelExt(name) {
		case ".spx":
			return name == "main.spx", true
		case ".gsh", ".gmx":
			return true, true
		}
		return false, false
	}
	for _, r := range c.CK {
		if strings.HasSuffix(name, r.Suffix) {
			return r.Proj || name == r.ProjName, true
		}
	}
	return false, false
}

// classify applies the extension rules: recognised?, the flags, and whether it is a Go file.
func (c Case) classify(name string) (known bool, fl flags, isGo bool) {
	switch modelExt(name) {
	case ".xgo", ".gop":
		return true, flags{}, false
	case ".go":
		return true, flags{}, true
	case ".gox":
		if proj, ok := c.classKind(name); ok {
			return true, flags{Class: true, Proj: proj}, false
		}
		return true, flags{Class: true, NormalGox: true}, false
	}
	if proj, ok := c.classKind(name); ok {
		return true, flags{Class: true, Proj: proj}, false
	}
	return false, flags{}, false
}

func (c Case) usedDir() string {
	if c.Abs {
		if path.IsAbs(c.Dir) {
			return path.Clean(c.Dir)
		}
		return path.Join(absRoot, c.Dir)
	}
	return c.Dir
}

func (c Case) fs() *hfs {
	h := &hfs{dir: c.Dir, entries: c.Entries, reads: map[string]int{}}
	h.alt, _ = h.Abs(c.Dir)
	return h
}

func (c Case) rejected(name string) bool {
	if !c.Filter {
		return false
	}
	for _, r := range c.Reject {
		if r == name {
			return true
		}
	}
	return false
}

func (c Case) model() (ws []want, excluded int) {
	for _, e := range c.Entries {
		known, fl, isGo := c.classify(e.Name)
		switch {
		case e.Dir, !known, strings.HasPrefix(e.Name, "_"), c.rejected(e.Name),
			isGo && strings.HasPrefix(e.Name, "gop_autogen"):
			excluded++
			continue
		}
		pkg := e.Pkg
		if pkg == "" {
			pkg = "main"
		}
		ws = append(ws, want{key: path.Join(c.usedDir(), e.Name), pkg: pkg, goFile: isGo && !c.GoAsXGo, fl: fl})
	}
	return
}

func (c Case) conf() parser.Config {
	var conf parser.Config
	if c.CustomCK {
		conf.ClassKind = func(fname string) (bool, bool) { return c.classKind(fname) }
	}
	if c.Filter {
		conf.Filter = func(fi fs.FileInfo) bool { return !c.rejected(fi.Name()) }
	}
	conf.Mode = parser.Mode(c.Extra)
	if c.GoAsXGo {
		conf.Mode |= parser.ParseGoAsGoPlus
	}
	if c.Abs {
		conf.Mode |= parser.SaveAbsFile
	}
	return conf
}

func (c Case) sane() *vk.Verdict {
	seen := map[string]bool{}
	for _, e := range c.Entries {
		if seen[e.Name] || e.Name == "" || strings.ContainsAny(e.Name, "/\\") {
			return vk.Bad("harness", "bad or duplicate entry name %q", e.Name)
		}
		seen[e.Name] = true
	}
	return nil
}

// ---- oracle 1: ParseFSDir -------------------------------------------------------------------------

func checkDir(c Case) *vk.Verdict {
	if v := c.sane(); v != nil {
		return v
	}
	h := c.fs()
	fset := token.NewFileSet()
	pkgs, err := parser.ParseFSDir(fset, h, c.Dir, c.conf())
	if err != nil {
		return vk.Bad("unexpected-error", "ParseFSDir(%q) returned %v although every file is well-formed", c.Dir, err)
	}
	if pkgs == nil {
		return vk.Bad("nil-map", "ParseFSDir(%q) returned a nil map and a nil error", c.Dir)
	}
	ws, _ := c.model()
	wantBy := map[string]want{}
	for _, w := range ws {
		wantBy[w.key] = w
	}
	got := map[string]bool{}
	var names []string
	for name := range pkgs {
		names = append(names, name)
	}
	sort.Strings(names)
	for _, name := range names {
		pkg := pkgs[name]
		if pkg == nil {
			return vk.Bad("nil-package", "package %q maps to nil", name)
		}
		if pkg.Name != name {
			return vk.Bad("package-name", "package stored under %q has Name %q", name, pkg.Name)
		}
		if len(pkg.Files)+len(pkg.GoFiles) == 0 {
			return vk.Bad("empty-package", "package %q has no file", name)
		}
		var keys []string
		for k := range pkg.Files {
			keys = append(keys, k)
		}
		sort.Strings(keys)
		for _, k := range keys {
			f := pkg.Files[k]
			w, ok := wantBy[k]
			if !ok {
				return vk.Bad(unexpectedClass(c, k), "file %q was returned in package %q but must not be included (%s)", k, name, c.why(k))
			}
			if got[k] {
				return vk.Bad("duplicate-file", "file %q appears twice", k)
			}
			got[k] = true
			if w.goFile {
				return vk.Bad("go-file-placement", "Go file %q is under Files, expected under GoFiles (ParseGoAsGoPlus not set)", k)
			}
			if f == nil || f.Name == nil {
				return vk.Bad("nil-file", "file %q is nil or has no name", k)
			}
			if w.pkg != name || f.Name.Name != name {
				return vk.Bad("wrong-package", "file %q declares package %q, grouped under %q (file name ident %q)", k, w.pkg, name, f.Name.Name)
			}
			if v := sameFlags("", k, f, w.fl); v != nil {
				return v
			}
		}
		keys = keys[:0]
		for k := range pkg.GoFiles {
			keys = append(keys, k)
		}
		sort.Strings(keys)
		for _, k := range keys {
			f := pkg.GoFiles[k]
			w, ok := wantBy[k]
			if !ok {
				return vk.Bad(unexpectedClass(c, k), "Go file %q was returned in package %q but must not be included (%s)", k, name, c.why(k))
			}
			if got[k] {
				return vk.Bad("duplicate-file", "file %q appears twice", k)
			}
			got[k] = true
			if !w.goFile {
				return vk.Bad("go-file-placement", "file %q is under GoFiles, expected under Files", k)
			}
			if f == nil || f.Name == nil {
				return vk.Bad("nil-file", "Go file %q is nil or has no name", k)
			}
			if w.pkg != name || f.Name.Name != name {
				return vk.Bad("wrong-package", "Go file %q declares package %q, grouped under %q", k, w.pkg, name)
			}
		}
	}
	for _, w := range ws {
		if !got[w.key] {
			return vk.Bad("missing-file", "file %q (package %q, %+v) must be included but is not in the result; returned: %v", w.key, w.pkg, w.fl, keysOf(got))
		}
	}
	return nil
}

func keysOf(m map[string]bool) []string {
	var ks []string
	for k := range m {
		ks = append(ks, k)
	}
	sort.Strings(ks)
	return ks
}

// why explains the model's reason to exclude the file with result key k.
func (c Case) why(k string) string {
	name := path.Base(k)
	for _, e := range c.Entries {
		if e.Name != name {
			continue
		}
		known, _, isGo := c.classify(name)
		switch {
		case path.Dir(k) != path.Clean(c.usedDir()) && c.usedDir() != ".":
			return "wrong directory in the key, expected " + c.usedDir()
		case e.Dir:
			return "it is a directory"
		case strings.HasPrefix(name, "_"):
			return "underscore prefix"
		case c.rejected(name):
			return "rejected by the filter"
		case isGo && strings.HasPrefix(name, "gop_autogen"):
			return "gop_autogen Go file"
		case !known:
			return "extension not recognised and ClassKind does not claim it"
		}
		return "key differs from " + path.Join(c.usedDir(), name)
	}
	return "no such entry"
}

func unexpectedClass(c Case, k string) string {
	w := c.why(k)
	switch {
	case strings.HasPrefix(w, "underscore"):
		return "included-underscore"
	case strings.HasPrefix(w, "rejected"):
		return "included-filtered"
	case strings.HasPrefix(w, "gop_autogen"):
		return "included-autogen"
	case strings.HasPrefix(w, "extension"):
		return "included-unknown-kind"
	case strings.HasPrefix(w, "it is a directory"):
		return "included-directory"
	case strings.HasPrefix(w, "wrong directory"), strings.HasPrefix(w, "key differs"):
		return "wrong-key"
	}
	return "unexpected-file"
}

func sameFlags(prefix, k string, f *ast.File, w flags) *vk.Verdict {
	g := flags{f.IsClass, f.IsProj, f.IsNormalGox}
	if g == w {
		return nil
	}
	cls := "flags"
	switch {
	case g.Class != w.Class:
		cls = "flag-isclass"
	case g.NormalGox != w.NormalGox:
		cls = "flag-isnormalgox"
	case g.Proj != w.Proj:
		cls = "flag-isproj"
	}
	return vk.Bad(prefix+cls, "file %q: IsClass/IsProj/IsNormalGox = %v/%v/%v, the rules say %v/%v/%v", k, g.Class, g.Proj, g.NormalGox, w.Class, w.Proj, w.NormalGox)
}

var dirOracle = vk.Register("dir", checkDir)

// ---- oracle 2: ParseFSEntry on every name -----------------------------------------------------------

func checkEntries(c Case) *vk.Verdict {
	if v := c.sane(); v != nil {
		return v
	}
	conf := c.conf()
	for _, e := range c.Entries {
		if e.Dir {
			continue
		}
		h := c.fs()
		filename := path.Join(c.usedDir(), e.Name)
		f, err := parser.ParseFSEntry(token.NewFileSet(), h, filename, nil, conf)
		known, fl, _ := c.classify(e.Name)
		if !known {
			if err != parser.ErrUnknownFileKind {
				return vk.Bad("entry-unknown-kind-accepted", "ParseFSEntry(%q): no extension rule and no ClassKind entry applies, got err=%v", filename, err)
			}
			continue
		}
		if err != nil {
			return vk.Bad("entry-unexpected-error", "ParseFSEntry(%q) returned %v", filename, err)
		}
		if f == nil || f.Name == nil {
			return vk.Bad("entry-nil-file", "ParseFSEntry(%q) returned a nil file", filename)
		}
		if v := sameFlags("entry-", filename, f, fl); v != nil {
			return v
		}
		pkg := e.Pkg
		if pkg == "" {
			pkg = "main"
		}
		if f.Name.Name != pkg {
			return vk.Bad("entry-wrong-package", "ParseFSEntry(%q): package %q, declared %q", filename, f.Name.Name, pkg)
		}
	}
	return nil
}

var entryOracle = vk.Register("entry", checkEntries)

// ---- generators -------------------------------------------------------------------------------------

var stems = []string{"a", "b", "main", "Foo", "x_test", "a.b", "app", "index", "c", "gop_autogen", "Main"}
var exts = []string{".xgo", ".xgo", ".gop", ".go", ".go", ".gox", ".gox", ".spx", ".spx", ".gmx", ".gsh", "_spx.gox", "_test.gox", "_yap.gox", ".yap",
	".txt", ".md", "", ".XGO", ".gox.bak", ".go~", ".Gox"}
var prefixes = []string{"", "", "", "", "", "_", "_", "gop_autogen", "gop_autogen_", ".", "xgo_autogen_", "main"}
var fixedNames = []string{"main.spx", "gop_autogen.go", "gop_autogen_test.go", "_skip.xgo", "_x.gox", "_main.spx", "gop_autogen.xgo", "gop_autogen.gox", "README.md", "go.mod", "main_spx.gox",
	"main_yap.gox", "main.gmx", "Makefile", ".gox", ".go", "_.go", "x.gop", "gop_autogen_x.gop"}
var pkgNames = []string{"", "", "main", "p1", "p1", "p2", "foo"}
var ckSuffixes = []string{".spx", ".gmx", ".gsh", "_spx.gox", "_test.gox", "_yap.gox", ".yap", ".txt", ".md", ".gox", ".xgo", ".go", ".gop", "x", "_test.gox", ".bak"}
var dirs = []string{"pkg", "./pkg", "/work/pkg", ".", "a/b", "/", "../up"}

func genName() *rapid.Generator[string] {
	return rapid.OneOf(
		rapid.SampledFrom(fixedNames),
		rapid.Custom(func(t *rapid.T) string {
			return rapid.SampledFrom(prefixes).Draw(t, "prefix") + rapid.SampledFrom(stems).Draw(t, "stem") + rapid.SampledFrom(exts).Draw(t, "ext")
		}),
		rapid.Custom(func(t *rapid.T) string {
			return rapid.SampledFrom(stems).Draw(t, "stem") + rapid.SampledFrom(exts).Draw(t, "ext")
		}),
	)
}

func genCase(t *rapid.T) Case {
	var c Case
	c.Dir = rapid.SampledFrom(dirs).Draw(t, "dir")
	names := rapid.SliceOfNDistinct(genName(), 0, 12, func(s string) string { return s }).Draw(t, "names")
	for _, n := range names {
		e := Entry{Name: n}
		e.Dir = rapid.IntRange(0, 7).Draw(t, "isdir") == 0
		if !e.Dir {
			e.Pkg = rapid.SampledFrom(pkgNames).Draw(t, "pkg")
			e.Body = rapid.IntRange(0, len(bodies)-1).Draw(t, "body")
			if e.Pkg == "" && strings.HasSuffix(n, ".go") { // the Go parser requires a package clause
				e.Pkg = "main"
			}
		}
		c.Entries = append(c.Entries, e)
	}
	if c.CustomCK = rapid.IntRange(0, 2).Draw(t, "customck") > 0; c.CustomCK {
		for i, n := 0, rapid.IntRange(0, 4).Draw(t, "rules"); i < n; i++ {
			r := CKRule{Suffix: rapid.SampledFrom(ckSuffixes).Draw(t, "suffix"), Proj: rapid.Bool().Draw(t, "proj")}
			if !r.Proj && rapid.Bool().Draw(t, "projname?") {
				pool := append([]string{"main" + r.Suffix, "Main" + r.Suffix}, names...)
				r.ProjName = rapid.SampledFrom(pool).Draw(t, "projname")
			}
			c.CK = append(c.CK, r)
		}
	}
	if c.Filter = rapid.IntRange(0, 2).Draw(t, "filter") == 0; c.Filter && len(names) > 0 {
		c.Reject = rapid.SliceOfNDistinct(rapid.SampledFrom(names), 0, 4, func(s string) string { return s }).Draw(t, "reject")
	}
	c.GoAsXGo = rapid.Bool().Draw(t, "goasxgo")
	c.Abs = rapid.Bool().Draw(t, "abs")
	if rapid.Bool().Draw(t, "comments") {
		c.Extra |= uint(parser.ParseComments)
	}
	if rapid.IntRange(0, 3).Draw(t, "pkgclauseonly") == 0 {
		c.Extra |= uint(parser.PackageClauseOnly)
	}
	return c
}

type failer interface {
	Fatalf(string, ...any)
	Helper()
}

func run(t failer, c Case, class string) {
	v := dirOracle(c)
	ws, excluded := c.model()
	nClass, nProj, nNormal, nGo := 0, 0, 0, 0
	pk := map[string]bool{}
	for _, w := range ws {
		pk[w.pkg] = true
		if w.fl.Class {
			nClass++
		}
		if w.fl.Proj {
			nProj++
		}
		if w.fl.NormalGox {
			nNormal++
		}
		if w.goFile {
			nGo++
		}
	}
	nt := nClass >= 1 && excluded >= 1
	js, _ := json.Marshal(c)
	vk.R.Case(nt, string(js))
	vk.R.Class(class)
	vk.R.Class(fmt.Sprintf("packages=%d", len(pk)))
	if nClass > 0 {
		vk.R.Class("has-class-file")
	}
	if nProj > 0 {
		vk.R.Class("has-project-file")
	}
	if nNormal > 0 {
		vk.R.Class("has-normal-gox")
	}
	if nGo > 0 {
		vk.R.Class("has-GoFiles")
	}
	if c.CustomCK {
		vk.R.Class("classkind=table")
	} else {
		vk.R.Class("classkind=default")
	}
	if c.Filter {
		vk.R.Class("filter=set")
	}
	for _, e := range c.Entries {
		switch known, _, isGo := c.classify(e.Name); {
		case e.Dir:
			vk.R.Class("excluded:directory")
		case !known:
			vk.R.Class("excluded:unknown-kind")
		case strings.HasPrefix(e.Name, "_"):
			vk.R.Class("excluded:underscore")
		case c.rejected(e.Name):
			vk.R.Class("excluded:filter")
		case isGo && strings.HasPrefix(e.Name, "gop_autogen"):
			vk.R.Class("excluded:autogen")
		}
	}
	if nt {
		var ns []string
		for _, e := range c.Entries {
			ns = append(ns, e.Name)
		}
		vk.R.Sample(strings.Join(ns, " "))
	}
	vk.R.Check(t, "dir", c, v)
	vk.R.Check(t, "entry", c, entryOracle(c))
}

func TestGenerated(t *testing.T) {
	vk.R.Rapid(t, 1, 20000, 400000, func(t *rapid.T) {
		run(t, genCase(t), "src=generated")
	})
}

// TestEveryNameAlone: each prefix x stem x extension alone in a directory, under the default
// ClassKind and under one fixed table, in both Go modes (deterministic enumeration).
func TestEveryNameAlone(t *testing.T) {
	table := []CKRule{{Suffix: "_spx.gox"}, {Suffix: ".spx", ProjName: "main.spx"}, {Suffix: "_yap.gox", Proj: true}, {Suffix: ".yap"}, {Suffix: ".gmx", Proj: true}}
	var names []string
	seen := map[string]bool{}
	add := func(n string) {
		if n != "" && !seen[n] {
			seen[n] = true
			names = append(names, n)
		}
	}
	for _, n := range fixedNames {
		add(n)
	}
	for _, p := range prefixes {
		for _, s := range stems {
			for _, e := range exts {
				add(p + s + e)
			}
		}
	}
	idx := 0
	for _, n := range names {
		for variant := 0; variant < 4; variant++ {
			idx++
			if idx%vk.R.Shards != vk.R.Shard {
				continue
			}
			e := Entry{Name: n, Pkg: "p1"}
			c := Case{Dir: "pkg", Entries: []Entry{e, {Name: "keep.xgo"}}, GoAsXGo: variant&1 != 0}
			if variant&2 != 0 {
				c.CustomCK, c.CK = true, table
			}
			if n == "keep.xgo" {
				c.Entries = c.Entries[:1]
			}
			run(t, c, "src=every-name")
		}
	}
	vk.R.Set("every_name_count", int64(len(names)))
}

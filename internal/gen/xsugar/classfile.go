package xsugar

import (
	"fmt"
	"strings"
)

// ClassCase is one generated normal .gox class with a program using it, plus the explicit
// struct form.
type ClassCase struct {
	Name    string
	XFiles  map[string]string // Name.gox + main.xgo
	Go      string            // reference: explicit struct and pointer-receiver methods
	Fields  []ClassField      // expected fields of the struct, in order
	Methods []string          // expected method names
	Labels  []string
	Mutates bool
}

// ClassField is one expected struct field.
type ClassField struct {
	Name, Type, Tag string
	Embedded        bool
}

type cfield struct {
	name, typ, tag string
	embedded       bool
	kind           string // int string []int []string map point ptr base
}

// ClassProgram draws one class case.
func ClassProgram(g *G) *ClassCase {
	name := []string{"Rect", "Acct", "Node"}[g.Intn(3, "cname")]
	pool := []cfield{
		{name: "w", typ: "int", kind: "int"}, {name: "h", typ: "int", kind: "int"}, {name: "cnt", typ: "int", kind: "int"},
		{name: "title", typ: "string", kind: "string"}, {name: "note", typ: "string", kind: "string"},
		{name: "tags", typ: "[]string", kind: "[]string"}, {name: "nums", typ: "[]int", kind: "[]int"},
		{name: "idx", typ: "map[string]int", kind: "map"}, {name: "pt", typ: "point", kind: "point"},
		{name: "link", typ: "*point", kind: "ptr"}, {name: "ratio", typ: "float64", kind: "float"},
	}
	// always at least two int fields and a string (methods need something to work on)
	fields := []cfield{pool[0], pool[1], pool[3]}
	for _, f := range pool[2:] {
		if f.name != "title" && g.Chance(45, "field") {
			fields = append(fields, f)
		}
	}
	if g.Chance(35, "embed") {
		fields = append([]cfield{{name: "base", typ: "base", kind: "base", embedded: true}}, fields...)
	}
	if g.Chance(30, "tagged") {
		fields[len(fields)-1].tag = "`json:\"x\"`"
	}
	has := func(n string) bool {
		for _, f := range fields {
			if f.name == n {
				return true
			}
		}
		return false
	}
	// §f = field reference, @m( = method call
	type method struct {
		name, params, results, body string
		mutates                     bool
	}
	var ms []method
	ms = append(ms, method{"area", "", "int", "return §w * §h + " + fmt.Sprint(g.Intn(5, "k")), false})
	ms = append(ms, method{"scale", "k int", "", "§w *= k\n§h = §h*k + 1", true})
	if g.Chance(70, "m-describe") {
		b := "return fmt.Sprint(§title, \":\", @area(), "
		if has("tags") {
			b += "len(§tags), "
		}
		b += "§w)"
		ms = append(ms, method{"describe", "", "string", b, false})
	}
	if has("tags") && g.Chance(80, "m-add") {
		ms = append(ms, method{"add", "tag string, more ...string", "int", "§tags = append(§tags, tag)\n§tags = append(§tags, more...)\nreturn len(§tags)", true})
	}
	if has("nums") && g.Chance(80, "m-push") {
		ms = append(ms, method{"push", "v int", "(int, bool)", "APPEND\nif v%2 == 0 {\n\t@scale(1)\n}\nreturn len(§nums), v > §w", true})
	}
	if has("idx") && g.Chance(80, "m-set") {
		ms = append(ms, method{"set", "k string, v int", "", "if §idx == nil {\n\t§idx = map[string]int{}\n}\n§idx[k] = v + §cntOrW", true})
	}
	if has("pt") && g.Chance(80, "m-move") {
		ms = append(ms, method{"move", "dx, dy int", "point", "§pt.x += dx\n§pt.y += dy\nreturn §pt", true})
	}
	if has("link") {
		ms = append(ms, method{"follow", "", "int", "if §link == nil {\n\t§link = &point{1, 2}\n}\n§link.x++\nreturn §link.x + §link.y", true})
	}
	if has("base") && g.Chance(80, "m-bump") {
		ms = append(ms, method{"bump", "", "int", "§id++\nreturn §id + this.base.id", true})
	}
	if has("ratio") {
		ms = append(ms, method{"half", "", "float64", "§ratio = §ratio/2 + 0.25\nreturn §ratio", true})
	}
	if g.Chance(60, "m-shadow-param") {
		// a parameter named like a field shadows it; the field stays reachable through this
		ms = append(ms, method{"setW", "w int", "int", "this.w = w\n§h = w + §h\nreturn w * 2", true})
	}
	if g.Chance(50, "m-shadow-local") {
		ms = append(ms, method{"peek", "", "int", "title := 5\nh := title + §w\nreturn h + len(this.title)", false})
	}
	if g.Chance(50, "m-closure") {
		ms = append(ms, method{"sumTo", "n int", "int", "acc := 0\nadd := func(v int) {\n\tacc += v + §w\n}\nfor i := 0; i < n; i++ {\n\tadd(i)\n}\ndefer func() {\n\t§h++\n}()\nreturn acc + §h", true})
	}
	if g.Chance(40, "m-self-link") {
		ms = append(ms, method{"chain", "", "int", "if §next == nil {\n\t§next = &" + name + "{w: §w + 1}\n}\nreturn §next.w + §next.area()", true})
	}
	if g.Chance(30, "m-predeclared-names") {
		// members named like predeclared identifiers: a bare `error` / `string(...)` inside the class
		// refers to the member
		ms = append(ms, method{"string", "n int", "string", "return fmt.Sprint(\"<\", n, \">\")", false})
		ms = append(ms, method{"fail", "msg string", "string", "§error = msg + §error\nreturn @string(len(§error)) + §error", true})
	}
	cntOrW := "w"
	if has("cnt") {
		cntOrW = "cnt"
	}
	render := func(body string, xgo bool) string {
		body = strings.ReplaceAll(body, "§cntOrW", "§"+cntOrW)
		if xgo {
			body = strings.ReplaceAll(body, "APPEND", "§nums <- v")
		} else {
			body = strings.ReplaceAll(body, "APPEND", "§nums = append(§nums, v)")
		}
		var b strings.Builder
		for i := 0; i < len(body); i++ {
			if strings.HasPrefix(body[i:], "§") {
				i += len("§") - 1
				if !xgo || g.Chance(30, "explicit-this") {
					b.WriteString("this.")
				}
				continue
			}
			if body[i] == '@' {
				if !xgo || g.Chance(30, "explicit-this-call") {
					b.WriteString("this.")
				}
				continue
			}
			b.WriteByte(body[i])
		}
		return b.String()
	}
	for _, m := range ms {
		if m.name == "chain" {
			fields = append(fields, cfield{name: "next", typ: "*" + name, kind: "selfptr"})
		}
		if m.name == "fail" {
			fields = append(fields, cfield{name: "error", typ: "string", kind: "predeclared-name"})
		}
	}
	var gox, gostruct, gomethods strings.Builder
	types := "type point struct {\n\tx, y int\n}\n\ntype base struct {\n\tid int\n}\n"
	// declarations that may precede the var block of a class file: imports, constants, types
	typesInClass := g.Chance(50, "types-in-classfile")
	constInClass := g.Chance(40, "const-in-classfile")
	gox.WriteString("import \"fmt\"\n\n")
	if constInClass {
		gox.WriteString("const classK = 3\n\n")
	}
	if typesInClass {
		gox.WriteString(types + "\n")
	}
	gox.WriteString("var (\n")
	fmt.Fprintf(&gostruct, "type %s struct {\n", name)
	cc := &ClassCase{Name: name}
	grouped := g.Chance(35, "grouped-fields") // `w, h int` on one line
	for fi, f := range fields {
		line := f.name + " " + f.typ
		if f.embedded {
			line = f.typ
		}
		if grouped && f.name == "w" && fi+1 < len(fields) && fields[fi+1].name == "h" {
			cc.Fields = append(cc.Fields, ClassField{Name: "w", Type: "int"}, ClassField{Name: "h", Type: "int"})
			cc.Labels = append(cc.Labels, "field=int", "field=int", "grouped-field-names")
			gox.WriteString("\tw, h int\n")
			gostruct.WriteString("\tw, h int\n")
			continue
		}
		if grouped && f.name == "h" && fi > 0 && fields[fi-1].name == "w" {
			continue
		}
		if f.tag != "" {
			line += " " + f.tag
		}
		gox.WriteString("\t" + line + "\n")
		gostruct.WriteString("\t" + line + "\n")
		cc.Fields = append(cc.Fields, ClassField{Name: f.name, Type: f.typ, Tag: f.tag, Embedded: f.embedded})
		cc.Labels = append(cc.Labels, "field="+f.kind)
	}
	gox.WriteString(")\n\n")
	gostruct.WriteString("}\n")
	gox.WriteString("var _ = fmt.Sprint\n\n")
	for _, m := range ms {
		res := m.results
		if res != "" {
			res = " " + res
		}
		fmt.Fprintf(&gox, "func %s(%s)%s {\n%s\n}\n\n", m.name, m.params, res, indent(render(m.body, true)))
		fmt.Fprintf(&gomethods, "func (this *%s) %s(%s)%s {\n%s\n}\n\n", name, m.name, m.params, res, indent(render(m.body, false)))
		cc.Methods = append(cc.Methods, m.name)
		cc.Labels = append(cc.Labels, "method="+m.name)
		if m.mutates {
			cc.Mutates = true
		}
	}
	// the using program (valid in both languages)
	var use strings.Builder
	fmt.Fprintf(&use, "\tc := &%s{w: %d, h: %d, title: \"t\"}\n", name, 1+g.Intn(5, "w"), 1+g.Intn(5, "h"))
	fmt.Fprintf(&use, "\tvar z %s\n", name)
	calls := 3 + g.Intn(6, "ncalls")
	for i := 0; i < calls; i++ {
		m := ms[g.Intn(len(ms), "call")]
		recv := []string{"c", "c", "z"}[g.Intn(3, "recv")]
		var args string
		switch m.name {
		case "scale":
			args = fmt.Sprint(g.Intn(4, "k"))
		case "add":
			args = []string{`"a"`, `"a", "b"`, `"a", "b", "c"`}[g.Intn(3, "va")]
		case "push":
			args = fmt.Sprint(g.Intn(9, "v"))
		case "set":
			args = fmt.Sprintf("%q, %d", fmt.Sprintf("k%d", g.Intn(3, "key")), g.Intn(9, "v"))
		case "move":
			args = fmt.Sprintf("%d, %d", g.Intn(3, "dx"), g.Intn(3, "dy"))
		case "setW", "sumTo", "string":
			args = fmt.Sprint(g.Intn(5, "n"))
		case "fail":
			args = `"e"`
		}
		if m.results == "" {
			fmt.Fprintf(&use, "\t%s.%s(%s)\n", recv, m.name, args)
		} else if strings.HasPrefix(m.results, "(") {
			fmt.Fprintf(&use, "\tfmt.Println(%s.%s(%s))\n", recv, m.name, args)
		} else {
			fmt.Fprintf(&use, "\tfmt.Println(%q, %s.%s(%s))\n", m.name, recv, m.name, args)
		}
	}
	if has("link") || has("next") {
		// pointers print as addresses: dump the other fields one by one
		if has("link") {
			use.WriteString("\tfmt.Println(c.w, c.h, c.title, c.link != nil, z.w, z.h, z.link != nil)\n")
		} else {
			use.WriteString("\tfmt.Println(c.w, c.h, c.title, c.next != nil, z.w, z.h, z.next != nil)\n")
		}
	} else {
		use.WriteString("\tfmt.Printf(\"%+v\\n\", *c)\n\tfmt.Printf(\"%+v\\n\", z)\n")
	}
	mainTypes := types
	if typesInClass {
		mainTypes = ""
		cc.Labels = append(cc.Labels, "types-declared-in-classfile")
	}
	mainSrc := "import \"fmt\"\n\n" + mainTypes + "\nfunc main() {\n" + use.String() + "}\n"
	cc.XFiles = map[string]string{name + ".gox": gox.String(), "main.xgo": mainSrc}
	if constInClass {
		types = "const classK = 3\n\n" + types
		cc.Labels = append(cc.Labels, "const-declared-in-classfile")
	}
	cc.Go = "package main\n\nimport \"fmt\"\n\nvar _ = fmt.Sprint\n\n" + types + "\n" + gostruct.String() + "\n" + gomethods.String() + "func main() {\n" + use.String() + "}\n"
	return cc
}

package astx

import (
	"fmt"
	goast "go/ast"
	gotoken "go/token"
	"path"
	"reflect"
	"sort"

	"github.com/goplus/xgo/ast"
	"github.com/goplus/xgo/parser"
)

// This file adds helpers on top of Children/Walk (whose behaviour is unchanged):
//
//   - IsXGoNode / XChildren: the children of a node restricted to node types of package xgo/ast
//     (and go/ast comments). Nodes of another tree universe that are embedded in an XGo tree
//     (the tpl grammar of a tpl`…` literal) are transparent: the XGo nodes below them (rule
//     ret-procs) are hoisted to the enclosing XGo node.
//   - ParseAny: parse a source file the way its name says (class file or not).
//   - EqualModuloPos: structural equality of two trees ignoring positions.

const xgoAstPkg = "github.com/goplus/xgo/ast"

// IsXGoNode reports whether n is a node type declared in xgo/ast (or a go/ast comment node,
// which xgo/ast aliases).
func IsXGoNode(n goast.Node) bool {
	t := reflect.TypeOf(n)
	if t == nil {
		return false
	}
	for t.Kind() == reflect.Ptr {
		t = t.Elem()
	}
	switch t.PkgPath() {
	case xgoAstPkg:
		return true
	case "go/ast":
		return t.Name() == "Comment" || t.Name() == "CommentGroup"
	}
	return false
}

// XChildren lists the XGo child nodes of n in field declaration order. Foreign nodes are looked
// through; their XGo descendants carry the field path "<field>(<ForeignType>).<field>…".
// The files of an *ast.Package are listed in file name order.
func XChildren(n goast.Node, opt Options) []Child {
	if pkg, ok := n.(*ast.Package); ok {
		if pkg == nil {
			return nil
		}
		names := make([]string, 0, len(pkg.Files))
		for k := range pkg.Files {
			names = append(names, k)
		}
		sort.Strings(names)
		var out []Child
		for i, k := range names {
			if f := pkg.Files[k]; f != nil {
				out = append(out, Child{Node: f, Field: "Files", Index: i})
			}
		}
		return out
	}
	var out []Child
	for _, c := range Children(n, opt) {
		hoist(c, opt, &out, 0)
	}
	return out
}

func hoist(c Child, opt Options, out *[]Child, depth int) {
	if IsXGoNode(c.Node) {
		*out = append(*out, c)
		return
	}
	if depth > 64 {
		return
	}
	for _, g := range Children(c.Node, opt) {
		g.Field = fmt.Sprintf("%s(%s).%s", c.Field, TypeName(c.Node), g.Field)
		g.Index = -1
		hoist(g, opt, out, depth+1)
	}
}

// XWalk is Walk over XChildren.
func XWalk(n goast.Node, opt Options, visit func(n, parent goast.Node, field string) bool) {
	var rec func(n, parent goast.Node, field string, depth int)
	rec = func(n, parent goast.Node, field string, depth int) {
		if !visit(n, parent, field) || depth > 100000 {
			return
		}
		for _, c := range XChildren(n, opt) {
			rec(c.Node, n, c.Field, depth+1)
		}
	}
	rec(n, nil, "", 0)
}

// classExt lists the file extensions parsed as class files by ParseAny.
var classExt = map[string]bool{".gox": true, ".spx": true, ".gmx": true, ".gsh": true, ".yap": true}

// ParseAny parses src as the kind of file its name denotes: .xgo/.gop/.go as plain XGo source,
// .gox/.spx/.gmx/.gsh/.yap as class files (project file iff main.spx, .gmx, .gsh — the parser's
// default classification, extended to .yap so that no corpus file is an unknown kind).
func ParseAny(fset *gotoken.FileSet, name string, src []byte, mode parser.Mode) (*ast.File, error) {
	conf := parser.Config{Mode: mode, ClassKind: func(fname string) (isProj, ok bool) {
		switch ext := path.Ext(fname); ext {
		case ".spx":
			return fname == "main.spx", true
		case ".gsh", ".gmx":
			return true, true
		case ".yap":
			return false, true
		}
		return false, false
	}}
	if ext := path.Ext(name); !classExt[ext] && ext != ".xgo" && ext != ".gop" && ext != ".go" {
		name += ".xgo"
	}
	return parser.ParseEntry(fset, "/foo/"+path.Base(name), src, conf)
}

// EqualModuloPos compares two trees structurally: same dynamic types, same non-position
// scalar fields, same children (in order, through []any / any holders), ignoring token.Pos
// fields, resolution data (Ident.Obj, scopes) and comments. It returns "" when equal and a
// path to the first difference otherwise.
func EqualModuloPos(a, b any) string {
	return eq(reflect.ValueOf(a), reflect.ValueOf(b), "", 0)
}

func eq(a, b reflect.Value, at string, depth int) string {
	if depth > 10000 {
		return ""
	}
	if !a.IsValid() || !b.IsValid() {
		if a.IsValid() != b.IsValid() {
			return at + ": one side is nil"
		}
		return ""
	}
	if a.Type() != b.Type() {
		return fmt.Sprintf("%s: %s vs %s", at, a.Type(), b.Type())
	}
	t := a.Type()
	if t == posType || t == objType || t == scopeType || t == goObjType || t == goScpType {
		return ""
	}
	switch a.Kind() {
	case reflect.Interface, reflect.Ptr:
		if a.IsNil() || b.IsNil() {
			if a.IsNil() != b.IsNil() {
				return at + ": nil vs non-nil"
			}
			return ""
		}
		if _, isCG := a.Interface().(*goast.CommentGroup); isCG {
			return ""
		}
		return eq(a.Elem(), b.Elem(), at, depth+1)
	case reflect.Struct:
		for i := 0; i < a.NumField(); i++ {
			f := t.Field(i)
			if !f.IsExported() || skipField(t.Name(), f.Name) {
				continue
			}
			if d := eq(a.Field(i), b.Field(i), at+"."+f.Name, depth+1); d != "" {
				return d
			}
		}
		return ""
	case reflect.Slice:
		if a.Len() != b.Len() {
			return fmt.Sprintf("%s: length %d vs %d", at, a.Len(), b.Len())
		}
		for i := 0; i < a.Len(); i++ {
			if d := eq(a.Index(i), b.Index(i), fmt.Sprintf("%s[%d]", at, i), depth+1); d != "" {
				return d
			}
		}
		return ""
	case reflect.Map:
		return ""
	case reflect.String:
		if a.String() != b.String() {
			return fmt.Sprintf("%s: %q vs %q", at, a.String(), b.String())
		}
		return ""
	case reflect.Bool:
		if a.Bool() != b.Bool() {
			return fmt.Sprintf("%s: %v vs %v", at, a.Bool(), b.Bool())
		}
		return ""
	case reflect.Int, reflect.Int8, reflect.Int16, reflect.Int32, reflect.Int64:
		if a.Int() != b.Int() {
			return fmt.Sprintf("%s: %d vs %d", at, a.Int(), b.Int())
		}
		return ""
	case reflect.Uint, reflect.Uint8, reflect.Uint16, reflect.Uint32, reflect.Uint64:
		if a.Uint() != b.Uint() {
			return fmt.Sprintf("%s: %d vs %d", at, a.Uint(), b.Uint())
		}
		return ""
	}
	return ""
}

#!/bin/bash
# validates MANIFEST.json and every evidence file against the schemas
cd "$(dirname "$0")/.." && python3-vt - <<'PY'
import json,jsonschema,glob,sys
ok=True
try:
    jsonschema.validate(json.load(open('MANIFEST.json')),json.load(open('/root/.vp/MANIFEST.schema.json')))
except Exception as e:
    print("MANIFEST:",e); ok=False
es=json.load(open('/root/.vp/EVIDENCE.schema.json'))
for f in sorted(glob.glob('evidence/*.json')):
    try: jsonschema.validate(json.load(open(f)),es)
    except Exception as e: print(f,str(e)[:300]); ok=False
m=json.load(open('MANIFEST.json'))
ids=[c['property_id'] for c in m['checks']]+[c['property_id'] for c in m.get('not_applicable',[])]
print("manifest covers",len(set(ids)),"properties; evidence files:",len(glob.glob('evidence/*.json')))
sys.exit(0 if ok else 1)
PY

package tplgen

import (
	"strings"

	"github.com/goplus/xgo/tpl/ast"
	"github.com/goplus/xgo/tpl/token"
	"pgregory.net/rapid"
)

// ---- grammars for matching (C28, C29) --------------------------------------------------------

// MatchClasses are the token classes used in grammars that are matched against input.
var MatchClasses = []string{"INT", "IDENT", "STRING", "CHAR", "FLOAT", "QSTRING", "RAWSTRING"}

// MatchLits are literal spellings for such grammars: keywords, operators (CHAR and STRING
// spellings), and the empty string.
var MatchLits = []string{`"if"`, `"x"`, `"+"`, `","`, `"("`, `")"`, `'-'`, `"<<"`, `";"`, `""`, "`*`", `"else"`}

// MatchGrammar generates closed grammars over a small terminal alphabet, so that generated
// inputs have a fair chance to match deeply; every rule has an operator at its root.
func MatchGrammar(maxRules, maxDepth int) *rapid.Generator[Grammar] {
	return GrammarOf(GrammarConfig{MinRules: 1, MaxRules: maxRules, MaxDepth: maxDepth, Closed: true, OpRoot: true,
		Classes: MatchClasses, Lits: rapid.SampledFrom(MatchLits)})
}

func ident(name string) ast.Expr { return &ast.Ident{Name: name} }
func seq(items ...ast.Expr) ast.Expr {
	return &ast.Sequence{Items: items}
}
func alt(opts ...ast.Expr) ast.Expr { return &ast.Choice{Options: opts} }
func un(op token.Token, x ast.Expr) ast.Expr {
	return &ast.UnaryExpr{Op: op, X: x}
}
func bin(op token.Token, x, y ast.Expr) ast.Expr { return &ast.BinaryExpr{X: x, Op: op, Y: y} }

// DangerKinds names the injections of Endanger (index = kind).
var DangerKinds = []string{"star-of-optional", "plus-of-star", "star-of-empty", "star-of-choice-with-optional", "list-nullable-elem-and-sep",
	"plus-of-optional-sequence", "leftrec-direct", "leftrec-direct-under-choice", "leftrec-indirect", "leftrec-indirect-under-choice",
	"leftrec-hidden-optional-prefix", "leftrec-hidden-star-prefix", "leftrec-hidden-under-choice", "leftrec-nested-choice"}

// Endanger rewrites one or two rules of g into shapes that may not terminate: repetitions of
// nullable bodies, lists whose element and separator are both nullable, and direct, indirect or
// hidden (behind a nullable prefix) left recursion, with and without a top-level choice. It
// returns the new grammar and the names of the injections.
func Endanger(t *rapid.T, g Grammar) (Grammar, []string) {
	out := Grammar{Rules: append([]Rule{}, g.Rules...)}
	var kinds []string
	small := func(label string) ast.Expr {
		switch rapid.IntRange(0, 4).Draw(t, label) {
		case 0:
			return ident("INT")
		case 1:
			return ident("IDENT")
		case 2:
			return MkLit(`","`)
		case 3:
			return MkLit(`"x"`)
		}
		return ident(out.Rules[rapid.IntRange(0, len(out.Rules)-1).Draw(t, label+"rule")].Name)
	}
	n := rapid.IntRange(1, 2).Draw(t, "ndanger")
	for k := 0; k < n; k++ {
		i := rapid.SampledFrom([]int{0, 0, 1, 2, 3}).Draw(t, "victim") % len(out.Rules)
		r := out.Rules[i]
		self := ident(r.Name)
		other := (i + 1) % len(out.Rules)
		kind := rapid.IntRange(0, len(DangerKinds)-1).Draw(t, "danger")
		var e ast.Expr
		switch kind {
		case 0:
			e = un(token.MUL, un(token.QUESTION, small("x")))
		case 1:
			e = un(token.ADD, un(token.MUL, small("x")))
		case 2:
			e = un(token.MUL, MkLit(`""`))
		case 3:
			e = un(token.MUL, alt(small("a"), un(token.QUESTION, small("b"))))
		case 4:
			e = bin(token.REM, un(token.QUESTION, small("a")), un(token.QUESTION, small("b")))
		case 5:
			e = un(token.ADD, seq(un(token.QUESTION, small("a")), un(token.MUL, small("b"))))
		case 6:
			e = seq(self, small("x"))
		case 7:
			e = alt(seq(self, small("x")), small("y"))
		case 8, 9:
			if len(out.Rules) < 2 {
				e = seq(self, small("x"))
				kind = 6
				break
			}
			e = seq(ident(out.Rules[other].Name), small("x"))
			back := seq(self, small("y"))
			if kind == 9 {
				back = alt(back, small("z"))
			}
			out.Rules[other] = Rule{Name: out.Rules[other].Name, Expr: back}
		case 10:
			e = seq(un(token.QUESTION, small("a")), self, small("b"))
		case 11:
			e = seq(un(token.MUL, small("a")), self)
		case 12:
			e = alt(seq(un(token.QUESTION, small("a")), self), small("b"))
		case 13:
			e = seq(alt(self, small("a")), small("b"))
		}
		kinds = append(kinds, DangerKinds[kind])
		if kind < 6 {
			// place the repetition: alone, before, after, or as an option of the old expression
			switch rapid.IntRange(0, 3).Draw(t, "place") {
			case 1:
				e = seq(e, r.Expr)
			case 2:
				e = seq(r.Expr, e)
			case 3:
				e = alt(r.Expr, e)
			}
		}
		out.Rules[i] = Rule{Name: r.Name, Expr: e}
	}
	return out, kinds
}

// ---- inputs ----------------------------------------------------------------------------------

// InTok is one input token; Glue means: no blank between it and the next token.
type InTok struct {
	Text string
	Glue bool
}

// JoinInput renders the tokens as one line of text.
func JoinInput(toks []InTok) string {
	var b strings.Builder
	for i, t := range toks {
		b.WriteString(t.Text)
		if i+1 < len(toks) && !t.Glue {
			b.WriteByte(' ')
		}
	}
	return b.String()
}

var classSamples = map[string][]string{
	"INT": {"1", "42", "0"}, "IDENT": {"foo", "x", "if", "b"}, "STRING": {`"s"`, "`r`"}, "CHAR": {"'c'"}, "FLOAT": {"1.5", "2e3"},
	"QSTRING": {`"q"`, `""`}, "RAWSTRING": {"`r`", "``"}, "IMAG": {"2i"}, "RAT": {"3r"}, "LPAREN": {"("}, "RPAREN": {")"},
	"LBRACK": {"["}, "RBRACK": {"]"}, "LBRACE": {"{"}, "RBRACE": {"}"},
}

// Alphabet returns input spellings for every terminal of g (one or more per token class, the
// text of every literal) plus a few foreign tokens.
func Alphabet(g Grammar) []string {
	seen := map[string]bool{}
	var out []string
	add := func(s string) {
		if s != "" && !seen[s] {
			seen[s] = true
			out = append(out, s)
		}
	}
	rules := map[string]bool{}
	for _, r := range g.Rules {
		rules[r.Name] = true
	}
	for _, r := range g.Rules {
		Walk(r.Expr, func(e ast.Expr) {
			switch e := e.(type) {
			case *ast.Ident:
				if !rules[e.Name] {
					for _, s := range classSamples[e.Name] {
						add(s)
					}
				}
			case *ast.BasicLit:
				if v, ok := LitValue(e); ok {
					add(v)
				}
			}
		})
	}
	for _, s := range []string{"7", "y", ",", "+", `"z"`} {
		add(s)
	}
	return out
}

type deriver struct {
	t     *rapid.T
	rules map[string]ast.Expr
	out   []InTok
	fuel  int
}

// Derive samples a derivation of the first rule of g: a token sequence the grammar is meant
// to match (rule expansion stops at depth maxDepth, where the rule contributes nothing, so
// deep or non-terminating grammars still yield finite, possibly non-matching inputs).
func Derive(t *rapid.T, g Grammar, maxDepth int) []InTok {
	d := &deriver{t: t, rules: map[string]ast.Expr{}, fuel: 40}
	for _, r := range g.Rules {
		if _, dup := d.rules[r.Name]; !dup {
			d.rules[r.Name] = r.Expr
		}
	}
	if len(g.Rules) > 0 {
		d.expr(g.Rules[0].Expr, maxDepth)
	}
	return d.out
}

func (d *deriver) emit(s string) {
	if s != "" {
		d.out = append(d.out, InTok{Text: s})
	}
}

func (d *deriver) expr(e ast.Expr, depth int) {
	if d.fuel <= 0 {
		return
	}
	switch e := e.(type) {
	case *ast.Ident:
		if x, ok := d.rules[e.Name]; ok {
			if depth > 0 {
				d.fuel--
				d.expr(x, depth-1)
			}
			return
		}
		if s := classSamples[e.Name]; len(s) > 0 {
			d.emit(rapid.SampledFrom(s).Draw(d.t, "spelling"))
		}
	case *ast.BasicLit:
		if v, ok := LitValue(e); ok {
			d.emit(v)
		}
	case *ast.Sequence:
		for _, x := range e.Items {
			d.expr(x, depth)
		}
	case *ast.Choice:
		d.expr(e.Options[rapid.IntRange(0, len(e.Options)-1).Draw(d.t, "option")], depth)
	case *ast.UnaryExpr:
		lo, hi := 0, 3
		switch e.Op {
		case token.QUESTION:
			hi = 1
		case token.ADD:
			lo = 1
		}
		for i, n := 0, rapid.IntRange(lo, hi).Draw(d.t, "times"); i < n; i++ {
			d.expr(e.X, depth)
		}
	case *ast.BinaryExpr:
		if e.Op == token.REM {
			d.expr(e.X, depth)
			for i, n := 0, rapid.IntRange(0, 2).Draw(d.t, "more"); i < n; i++ {
				d.expr(e.Y, depth)
				d.expr(e.X, depth)
			}
			return
		}
		d.expr(e.X, depth)
		if n := len(d.out); n > 0 {
			d.out[n-1].Glue = true
		}
		d.expr(e.Y, depth)
	}
}

// Perturb applies one near-miss edit: delete, insert or replace one token (from alphabet),
// duplicate one, swap neighbours, or flip the blank after a token (adjacency).
func Perturb(t *rapid.T, toks []InTok, alphabet []string) ([]InTok, string) {
	out := append([]InTok{}, toks...)
	if len(alphabet) == 0 {
		alphabet = []string{"1"}
	}
	if len(out) == 0 {
		return []InTok{{Text: rapid.SampledFrom(alphabet).Draw(t, "tok")}}, "insert"
	}
	i := rapid.IntRange(0, len(out)-1).Draw(t, "at")
	switch rapid.IntRange(0, 5).Draw(t, "edit") {
	case 0:
		return append(out[:i:i], out[i+1:]...), "delete"
	case 1:
		ins := InTok{Text: rapid.SampledFrom(alphabet).Draw(t, "tok")}
		return append(out[:i:i], append([]InTok{ins}, out[i:]...)...), "insert"
	case 2:
		out[i] = InTok{Text: rapid.SampledFrom(alphabet).Draw(t, "tok"), Glue: out[i].Glue}
		return out, "replace"
	case 3:
		return append(out[:i+1:i+1], append([]InTok{{Text: out[i].Text}}, out[i+1:]...)...), "duplicate"
	case 4:
		if i+1 < len(out) {
			out[i].Text, out[i+1].Text = out[i+1].Text, out[i].Text
		}
		return out, "swap"
	default:
		out[i].Glue = !out[i].Glue
		return out, "adjacency"
	}
}

// RandomInput draws 0..max tokens from the alphabet, now and then glued to the next one.
func RandomInput(t *rapid.T, alphabet []string, max int) []InTok {
	n := rapid.IntRange(0, max).Draw(t, "len")
	out := make([]InTok, n)
	for i := range out {
		out[i] = InTok{Text: rapid.SampledFrom(alphabet).Draw(t, "tok"), Glue: rapid.IntRange(0, 7).Draw(t, "glue") == 0}
	}
	return out
}

//go:build verif

// C33 — token spellings round-trip through the scanners (exhaustive enumeration).
package c33

import (
	"fmt"
	gotoken "go/token"
	"strings"
	"testing"

	"github.com/goplus/xgo/scanner"
	"github.com/goplus/xgo/token"
	tplscanner "github.com/goplus/xgo/tpl/scanner"
	tpltoken "github.com/goplus/xgo/tpl/token"

	"verif/internal/vk"
)

func TestMain(m *testing.M) {
	vk.Main(m, "C33", "exploration",
		"exhaustive enumeration of every XGo token value 0..255 that is an operator or keyword (by IsOperator/IsKeyword and a real spelling) and every TPL token value 0..511 with a spelling in its table; each is scanned alone from its spelling. Non-trivial = multi-character spelling or a token that go/token does not have; distinct = (language, token value)")
}

// Case identifies one token of one language.
type Case struct {
	Lang string `json:"lang"` // "xgo" | "tpl"
	Tok  int    `json:"tok"`
}

func isName(s string) bool { // table entries like "IDENT", "EOF" are names, not spellings
	if s == "" || strings.HasPrefix(s, "token(") {
		return true
	}
	return s[0] >= 'A' && s[0] <= 'Z'
}

var oracle = vk.Register("token", func(c Case) *vk.Verdict {
	if c.Lang == "xgo" {
		return xgoToken(token.Token(c.Tok))
	}
	return tplToken(tpltoken.Token(c.Tok))
})

func xgoToken(tok token.Token) *vk.Verdict {
	sp := tok.String()
	if tok.Precedence() > token.LowestPrec && !tok.IsOperator() {
		return vk.Bad("prec-not-operator", "token %d %q has precedence %d but IsOperator() is false", tok, sp, tok.Precedence())
	}
	if !(tok.IsOperator() || tok.IsKeyword()) || isName(sp) {
		return nil
	}
	if tok.IsKeyword() {
		if got := token.Lookup(sp); got != tok {
			return vk.Bad("lookup", "Lookup(%q) = %v, want %v", sp, got, tok)
		}
	}
	fset := gotoken.NewFileSet()
	f := fset.AddFile("t.xgo", -1, len(sp))
	var errs []string
	var s scanner.Scanner
	s.Init(f, []byte(sp), func(pos gotoken.Position, msg string) { errs = append(errs, msg) }, scanner.ScanComments)
	pos, got, lit := s.Scan()
	if got != tok {
		return vk.Bad("xgo-scan-mismatch:"+sp, "scanning %q yields %v (lit %q), want token %d", sp, got, lit, int(tok))
	}
	if off := f.Offset(pos); off != 0 {
		return vk.Bad("xgo-offset", "scanning %q: offset %d", sp, off)
	}
	if tok.IsKeyword() && lit != sp {
		return vk.Bad("xgo-keyword-lit", "scanning %q: literal %q", sp, lit)
	}
	_, t2, l2 := s.Scan()
	if t2 == token.SEMICOLON && l2 == "\n" {
		_, t2, _ = s.Scan()
	}
	if t2 != token.EOF {
		return vk.Bad("xgo-trailing", "scanning %q: extra token %v after it", sp, t2)
	}
	if len(errs) > 0 {
		return vk.Bad("xgo-scan-error", "scanning %q: errors %v", sp, errs)
	}
	return nil
}

func tplToken(tok tpltoken.Token) (v *vk.Verdict) {
	sp := tok.String()
	if isName(sp) {
		return nil
	}
	defer func() {
		if p := recover(); p != nil {
			v = vk.Bad("tpl-panic", "token %d %q: %v", tok, sp, p)
		}
	}()
	if n := tok.Len(); n != len(sp) {
		return vk.Bad("tpl-len", "Token(%d).Len() = %d, spelling %q", tok, n, sp)
	}
	fset := gotoken.NewFileSet()
	f := fset.AddFile("t.tpl", -1, len(sp))
	var errs []string
	var s tplscanner.Scanner
	s.Init(f, []byte(sp), func(pos gotoken.Position, msg string) { errs = append(errs, msg) }, tplscanner.ScanComments)
	t := s.Scan()
	if t.Tok != tok {
		return vk.Bad("tpl-scan-mismatch:"+sp, "scanning %q yields %v (lit %q), want token %d", sp, t.Tok, t.Lit, int(tok))
	}
	if off := f.Offset(t.Pos); off != 0 {
		return vk.Bad("tpl-offset", "scanning %q: offset %d", sp, off)
	}
	if int(t.End()-t.Pos) != len(sp) {
		return vk.Bad("tpl-end", "scanning %q: End-Pos = %d", sp, t.End()-t.Pos)
	}
	t2 := s.Scan()
	if t2.Tok == tpltoken.SEMICOLON && t2.Lit == "\n" {
		t2 = s.Scan()
	}
	if t2.Tok != tpltoken.EOF {
		return vk.Bad("tpl-trailing", "scanning %q: extra token %v", sp, t2.Tok)
	}
	if len(errs) > 0 {
		return vk.Bad("tpl-scan-error", "scanning %q: errors %v", sp, errs)
	}
	return nil
}

func TestAllTokens(t *testing.T) {
	r := vk.R
	r.Assume("token values outside 0..255 (XGo) / 0..511 (TPL) have no spelling")
	goHas := map[string]bool{}
	for g := gotoken.Token(0); g < 100; g++ {
		goHas[g.String()] = true
	}
	run := func(c Case, sp string) {
		v := oracle(c)
		r.Case(len(sp) > 1 || !goHas[sp], fmt.Sprintf("%s/%d", c.Lang, c.Tok))
		r.Class("lang=" + c.Lang)
		r.Sample(fmt.Sprintf("%s token %d %q", c.Lang, c.Tok, sp))
		if v = r.Judge(v); v != nil {
			r.Fail(fmt.Sprintf("token-%s-%d", c.Lang, c.Tok), c, v)
			t.Errorf("%s", v)
		}
	}
	for i := 0; i < 256; i++ {
		tok := token.Token(i)
		sp := tok.String()
		if (tok.IsOperator() || tok.IsKeyword()) && !isName(sp) || tok.Precedence() > 0 {
			run(Case{"xgo", i}, sp)
		}
	}
	for i := 0; i < 512; i++ {
		if sp := tpltoken.Token(i).String(); !isName(sp) {
			run(Case{"tpl", i}, sp)
		}
	}
	// ForEach visits exactly the multi-byte operators, in increasing order, each once.
	seen := map[tpltoken.Token]int{}
	last := tpltoken.Token(0)
	ordered := true
	tpltoken.ForEach(0, func(tok tpltoken.Token, lit string) int {
		seen[tok]++
		if tok <= last {
			ordered = false
		}
		last = tok
		if lit != tok.String() {
			seen[tok] += 100
		}
		return 0
	})
	var bad []string
	for i := 0; i < 512; i++ {
		tok := tpltoken.Token(i)
		sp := tok.String()
		want := 0
		if !isName(sp) && len(sp) > 1 {
			want = 1
		}
		if seen[tok] != want {
			bad = append(bad, fmt.Sprintf("%d %q visited %d want %d", i, sp, seen[tok], want))
		}
	}
	if !ordered {
		bad = append(bad, "not in increasing order")
	}
	r.Case(true, "tpl/ForEach")
	if len(bad) > 0 {
		v := r.Judge(vk.Bad("tpl-foreach", "%v", bad))
		if v != nil {
			r.Fail("foreach", Case{"tpl", -1}, v)
			t.Errorf("%s", v)
		}
	}
	r.Exhaustive(true)
}

package fmtin

import (
	"bytes"
	"reflect"

	"github.com/goplus/xgo/ast"
	"github.com/goplus/xgo/printer"
	"github.com/goplus/xgo/token"
	"pgregory.net/rapid"

	"verif/internal/astx"
)

// slotFields lists the expression slots a mutation may rewrite (value positions only: a type
// position would make most rewrites meaningless).
var slotFields = map[string]bool{
	"BinaryExpr.X": true, "BinaryExpr.Y": true, "UnaryExpr.X": true, "ParenExpr.X": true, "CallExpr.Args": true,
	"AssignStmt.Rhs": true, "ReturnStmt.Results": true, "IndexExpr.Index": true, "KeyValueExpr.Value": true,
	"IfStmt.Cond": true, "SliceLit.Elts": true, "SendStmt.Value": true, "LambdaExpr.Rhs": true,
	"ComprehensionExpr.Elt": true, "RangeExpr.Last": true, "ErrWrapExpr.X": true, "ExprStmt.X": true, "ForPhrase.X": true,
}

type slot struct {
	v      reflect.Value // addressable, of type ast.Expr
	parent string        // "BinaryExpr.X"
}

var exprT = reflect.TypeOf((*ast.Expr)(nil)).Elem()

func collectSlots(root any) (slots []slot, binaries []*ast.BinaryExpr, cmdCalls []*ast.CallExpr) {
	seen := map[uintptr]bool{}
	var rec func(v reflect.Value, depth int)
	rec = func(v reflect.Value, depth int) {
		if !v.IsValid() || depth > 2000 {
			return
		}
		switch v.Kind() {
		case reflect.Interface:
			if !v.IsNil() {
				rec(v.Elem(), depth+1)
			}
		case reflect.Ptr:
			if v.IsNil() || seen[v.Pointer()] {
				return
			}
			if v.Elem().Kind() != reflect.Struct {
				return
			}
			seen[v.Pointer()] = true
			if b, ok := v.Interface().(*ast.BinaryExpr); ok {
				binaries = append(binaries, b)
			}
			if s, ok := v.Interface().(*ast.ExprStmt); ok {
				if c, ok := s.X.(*ast.CallExpr); ok && len(c.Args) > 0 && !c.Ellipsis.IsValid() {
					cmdCalls = append(cmdCalls, c)
				}
			}
			st := v.Elem()
			tn := st.Type().Name()
			for i := 0; i < st.NumField(); i++ {
				f := st.Type().Field(i)
				if !f.IsExported() || f.Name == "Obj" || f.Name == "Scope" || f.Name == "Comments" || f.Name == "Imports" ||
					f.Name == "Unresolved" || f.Name == "ShadowEntry" || f.Name == "Doc" || f.Name == "Comment" {
					continue
				}
				fv := st.Field(i)
				key := tn + "." + f.Name
				if slotFields[key] {
					switch {
					case fv.Type() == exprT && !fv.IsNil():
						slots = append(slots, slot{fv, key})
					case fv.Kind() == reflect.Slice && fv.Type().Elem() == exprT:
						for j := 0; j < fv.Len(); j++ {
							if !fv.Index(j).IsNil() {
								slots = append(slots, slot{fv.Index(j), key})
							}
						}
					}
				}
				rec(fv, depth+1)
			}
		case reflect.Slice:
			for j := 0; j < v.Len(); j++ {
				rec(v.Index(j), depth+1)
			}
		}
	}
	rec(reflect.ValueOf(root), 0)
	return
}

func id(name string) *ast.Ident { return &ast.Ident{Name: name} }
func lit(v string) *ast.BasicLit {
	return &ast.BasicLit{Kind: token.INT, Value: v}
}

var swapOps = []token.Token{token.ADD, token.SUB, token.MUL, token.QUO, token.REM, token.AND, token.OR, token.XOR, token.SHL, token.SHR,
	token.AND_NOT, token.LAND, token.LOR, token.EQL, token.NEQ, token.LSS, token.LEQ, token.GTR, token.GEQ}

// MutOps are the mutation operators (the first component of a mutation class).
var MutOps = []string{"binop-swap", "unary-", "unary!", "unary^", "paren", "call", "index", "errwrap!", "errwrap?", "errwrap?:",
	"lambda", "lambda-paren", "comprehension", "map-comprehension", "range", "slicelit", "binary-left", "binary-right", "selector",
	"slice", "command-toggle", "star", "funclit-call", "lambda-block"}

// Mutant parses the input, applies 1..k mutations, prints the tree with printer.Fprint and
// returns the text if it parses (nil otherwise), with the classes "op@Parent.Field>ChildKind".
func Mutant(t *rapid.T, in Input, k int, allowed func(class string) bool) ([]byte, []string) {
	f, fset, err := Parse(in.Src, in.Class)
	if err != nil {
		return nil, nil
	}
	var used []string
	n := rapid.IntRange(1, k).Draw(t, "nmut")
	for i := 0; i < n; i++ {
		slots, bins, cmds := collectSlots(f)
		op := rapid.SampledFrom(MutOps).Draw(t, "mutop")
		switch op {
		case "binop-swap":
			if len(bins) == 0 {
				continue
			}
			b := bins[rapid.IntRange(0, len(bins)-1).Draw(t, "bin")]
			cl := op + "@" + b.Op.String()
			nop := rapid.SampledFrom(swapOps).Draw(t, "newop")
			cl += ">" + nop.String()
			if allowed != nil && !allowed(cl) {
				continue
			}
			b.Op = nop
			used = append(used, cl)
			continue
		case "command-toggle":
			if len(cmds) == 0 {
				continue
			}
			c := cmds[rapid.IntRange(0, len(cmds)-1).Draw(t, "cmd")]
			cl := op + "@to-call"
			if !c.IsCommand() {
				cl = op + "@to-command"
			}
			if allowed != nil && !allowed(cl) {
				continue
			}
			if c.IsCommand() {
				c.NoParenEnd = token.NoPos
			} else {
				c.NoParenEnd = c.Fun.End() + 1
				if !c.NoParenEnd.IsValid() {
					c.NoParenEnd = 1
				}
			}
			used = append(used, cl)
			continue
		}
		if len(slots) == 0 {
			continue
		}
		s := slots[rapid.IntRange(0, len(slots)-1).Draw(t, "slot")]
		e := s.v.Interface().(ast.Expr)
		if s.parent == "ExprStmt.X" && op != "errwrap!" && op != "errwrap?" && op != "call" && op != "paren" && op != "funclit-call" {
			continue // an expression statement must stay a call-like expression
		}
		if _, isKV := e.(*ast.KeyValueExpr); isKV {
			continue
		}
		cl := op + "@" + s.parent + ">" + astx.TypeName(e)
		if allowed != nil && !allowed(cl) {
			continue
		}
		var ne ast.Expr
		switch op {
		case "unary-":
			ne = &ast.UnaryExpr{Op: token.SUB, X: e}
		case "unary!":
			ne = &ast.UnaryExpr{Op: token.NOT, X: e}
		case "unary^":
			ne = &ast.UnaryExpr{Op: token.XOR, X: e}
		case "paren":
			ne = &ast.ParenExpr{X: e}
		case "call":
			ne = &ast.CallExpr{Fun: id("f"), Args: []ast.Expr{e}}
		case "index":
			ne = &ast.IndexExpr{X: id("xs"), Index: e}
		case "errwrap!":
			ne = &ast.ErrWrapExpr{X: e, Tok: token.NOT}
		case "errwrap?":
			ne = &ast.ErrWrapExpr{X: e, Tok: token.QUESTION}
		case "errwrap?:":
			ne = &ast.ErrWrapExpr{X: e, Tok: token.QUESTION, Default: lit("0")}
		case "lambda":
			ne = &ast.LambdaExpr{Lhs: []*ast.Ident{id("x")}, Rhs: []ast.Expr{e}}
		case "lambda-paren":
			ne = &ast.LambdaExpr{Lhs: []*ast.Ident{id("x"), id("y")}, Rhs: []ast.Expr{e, id("y")}, LhsHasParen: true, RhsHasParen: true}
		case "lambda-block":
			ne = &ast.LambdaExpr2{Lhs: []*ast.Ident{id("x")}, Body: &ast.BlockStmt{List: []ast.Stmt{&ast.ReturnStmt{Results: []ast.Expr{e}}}}}
		case "comprehension":
			ne = &ast.ComprehensionExpr{Tok: token.LBRACK, Elt: e, Fors: []*ast.ForPhrase{{Value: id("v"), X: id("xs")}}}
		case "map-comprehension":
			ne = &ast.ComprehensionExpr{Tok: token.LBRACE, Elt: &ast.KeyValueExpr{Key: id("k"), Value: e},
				Fors: []*ast.ForPhrase{{Key: id("k"), Value: id("v"), X: id("m"), Cond: id("ok")}}}
		case "range":
			ne = &ast.RangeExpr{First: lit("1"), Last: e}
		case "slicelit":
			ne = &ast.SliceLit{Elts: []ast.Expr{e, lit("2")}}
		case "binary-left":
			ne = &ast.BinaryExpr{X: e, Op: rapid.SampledFrom(swapOps).Draw(t, "bop"), Y: id("y")}
		case "binary-right":
			ne = &ast.BinaryExpr{X: id("x"), Op: rapid.SampledFrom(swapOps).Draw(t, "bop"), Y: e}
		case "selector":
			ne = &ast.SelectorExpr{X: e, Sel: id("m")}
		case "slice":
			ne = &ast.SliceExpr{X: e, Low: lit("1")}
		case "star":
			ne = &ast.StarExpr{X: e}
		case "funclit-call":
			ne = &ast.CallExpr{Fun: &ast.FuncLit{Type: &ast.FuncType{Params: &ast.FieldList{}},
				Body: &ast.BlockStmt{List: []ast.Stmt{&ast.ExprStmt{X: &ast.CallExpr{Fun: id("g"), Args: []ast.Expr{e}}}}}}}
		default:
			continue
		}
		s.v.Set(reflect.ValueOf(ne))
		used = append(used, cl)
	}
	if len(used) == 0 {
		return nil, nil
	}
	// printed without comments: next to synthesised (position-less) nodes the printer would place
	// them at arbitrary token boundaries, which is outside the domain of a base source
	f.Comments = nil
	var buf bytes.Buffer
	ok := func() (ok bool) {
		defer func() {
			if recover() != nil { // printing synthesised trees is C22's subject
				ok = false
			}
		}()
		return (&printer.Config{Mode: printer.UseSpaces | printer.TabIndent, Tabwidth: 8}).Fprint(&buf, fset, f) == nil
	}()
	if !ok || !Valid(buf.Bytes(), in.Class) {
		return nil, nil
	}
	return buf.Bytes(), used
}

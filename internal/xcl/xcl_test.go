package xcl

import (
	"fmt"
	"testing"
	"time"
)

func TestCompile(t *testing.T) {
	t0 := time.Now()
	r := Compile(map[string]string{"bar.xgo": "import \"fmt\"\nx := [1, 2, 3]\nfor v <- x { fmt.Println(v) }\necho \"hi\", x\n"}, Options{})
	fmt.Println(time.Since(t0), r.ParseErr, r.Err)
	fmt.Println(string(r.Go))
	t0 = time.Now()
	r = Compile(map[string]string{"bar.xgo": "import \"strings\"\necho strings.ToUpper(\"a\")\n"}, Options{})
	fmt.Println(time.Since(t0), r.ParseErr, r.Err, string(r.Go))
}

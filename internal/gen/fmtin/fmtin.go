// Package fmtin builds the inputs of the formatter properties C19–C21: valid XGo sources from
// the repository corpus and from the program generators, whitespace perturbations at token
// boundaries, comments at conventional places, AST-mutated variants and (for C21) comments
// injected at arbitrary token boundaries. Every transformation keeps a result only if it still
// parses, so each result is simply another valid source. All randomness is drawn through rapid.
package fmtin

import (
	"bytes"
	"fmt"
	goast "go/ast"
	gotoken "go/token"
	"path"
	"sort"
	"strings"
	"sync"

	"github.com/goplus/xgo/ast"
	"github.com/goplus/xgo/parser"
	"github.com/goplus/xgo/token"
	"pgregory.net/rapid"

	"verif/internal/astx"
	"verif/internal/gen/gosub"
	"verif/internal/gen/lex"
	"verif/internal/gen/xgotext"
	"verif/internal/gen/xsugar"
)

// Input is one source together with the mode it is parsed and formatted in.
type Input struct {
	Src    []byte
	Class  bool   // ParseGoPlusClass / format.Source(src, true)
	Origin string // corpus | gosub | xsugar-coll | xsugar-errwrap | xgotext | xgotext-class
	Name   string // corpus: path relative to the repository
}

// IsClassName reports whether a file of that name is formatted as a class file.
func IsClassName(name string) bool {
	switch path.Ext(name) {
	case ".gox", ".spx", ".gmx", ".gsh", ".yap":
		return true
	}
	return false
}

// Parse parses src the way format.Source does.
func Parse(src []byte, class bool) (*ast.File, *gotoken.FileSet, error) {
	fset := gotoken.NewFileSet()
	mode := parser.ParseComments
	if class {
		mode |= parser.ParseGoPlusClass
	}
	f, err := parser.ParseFile(fset, "", src, mode)
	return f, fset, err
}

// Valid reports whether src parses without error (a panic of the parser counts as invalid:
// parser robustness is C13's subject).
func Valid(src []byte, class bool) (ok bool) {
	defer func() {
		if recover() != nil {
			ok = false
		}
	}()
	f, _, err := Parse(src, class)
	return err == nil && f != nil
}

var (
	corpusOnce  sync.Once
	corpusValid []Input
)

// CorpusValid returns every repository source that parses without error in the mode its
// extension asks for (sorted by path). Files larger than max bytes are skipped when max > 0.
func CorpusValid() []Input {
	corpusOnce.Do(func() {
		for _, f := range lex.Corpus(".xgo", ".gop", ".gox", ".spx", ".gmx", ".gsh", ".yap", ".go") {
			class := IsClassName(f.Path)
			if Valid(f.Src, class) {
				corpusValid = append(corpusValid, Input{Src: f.Src, Class: class, Origin: "corpus", Name: f.Rel})
			}
		}
	})
	return corpusValid
}

// Base draws one unmodified valid source. Generated text that does not parse is redrawn a few
// times and then replaced by a corpus file.
func Base() *rapid.Generator[Input] {
	return rapid.Custom(func(t *rapid.T) Input {
		corpus := CorpusValid()
		for try := 0; try < 4; try++ {
			var in Input
			switch k := rapid.IntRange(0, 11).Draw(t, "origin"); {
			case k <= 2:
				c := corpus[rapid.IntRange(0, len(corpus)-1).Draw(t, "file")]
				if len(c.Src) > 40000 { // keep a case small; the verbatim corpus test covers the big files
					continue
				}
				return c
			case k == 3:
				in = Input{Src: []byte(gosub.Gen().Draw(t, "gosub").Source()), Origin: "gosub"}
			case k == 4:
				in = Input{Src: []byte(xsugar.CollectionProgram(&xsugar.G{T: t}, rapid.IntRange(1, 8).Draw(t, "n")).XGo()), Origin: "xsugar-coll"}
			case k == 5:
				in = Input{Src: []byte(xsugar.ErrWrapProgram(&xsugar.G{T: t}, rapid.IntRange(1, 8).Draw(t, "n")).XGo()), Origin: "xsugar-errwrap"}
			case k <= 9:
				in = Input{Src: []byte(xgotext.File(false).Draw(t, "xgotext")), Origin: "xgotext"}
			default:
				in = Input{Src: []byte(xgotext.File(true).Draw(t, "xgotext")), Class: true, Origin: "xgotext-class"}
			}
			if strings.HasPrefix(in.Origin, "xgotext") {
				// xgotext decorates some nodes with block comments inside expressions; arbitrary
				// comment positions are C21's domain, not that of a base source
				in.Src = []byte(strings.ReplaceAll(strings.ReplaceAll(string(in.Src), " /* c */", ""), "/* c */", ""))
			}
			if Valid(in.Src, in.Class) {
				return in
			}
		}
		return corpus[rapid.IntRange(0, len(corpus)-1).Draw(t, "fallback")]
	})
}

// ---- tokens -------------------------------------------------------------------------------------

// Tok is one token with its byte extent.
type Tok struct {
	Off, End int
	Tok      token.Token
	Lit      string
	Auto     bool // automatic semicolon (no bytes)
}

// Tokens scans src (comments included). End is exact for tokens that carry their spelling.
func Tokens(src []byte) []Tok {
	raw := lex.Scan(src)
	out := make([]Tok, 0, len(raw))
	for _, r := range raw {
		t := Tok{Off: r.Off, Tok: r.Tok, Lit: r.Lit}
		switch {
		case r.Tok == token.SEMICOLON && r.Lit == "\n":
			t.End, t.Auto = r.Off, true
		case r.Lit != "" && r.Tok != token.SEMICOLON:
			t.End = r.Off + len(r.Lit)
			if r.Tok == token.COMMENT || r.Tok == token.STRING { // CR stripping may shorten the literal
				t.End = r.Off + rawLen(src[r.Off:], r.Lit)
			}
		default:
			t.End = r.Off + len(r.Tok.String())
		}
		if t.End > len(src) {
			t.End = len(src)
		}
		out = append(out, t)
	}
	return out
}

// rawLen returns the number of source bytes that spell lit when '\r' bytes were removed.
func rawLen(src []byte, lit string) int {
	i, j := 0, 0
	for i < len(src) && j < len(lit) {
		if src[i] == lit[j] {
			i++
			j++
		} else if src[i] == '\r' {
			i++
		} else {
			break
		}
	}
	return i
}

// ---- whitespace perturbation -----------------------------------------------------------------------

var wsPool = []string{"", " ", " ", "  ", "\t", "\n", "\n", "\n\n", "\n\t", " \n", "\n\n\n"}

// Perturb replaces the white space at 1..k token boundaries that do not touch a comment by a
// drawn blank/tab/newline sequence. It returns nil when the result does not parse.
//
// With keepLines no line break is added or removed: a gap that holds a line break gets another
// number of blank lines / another indentation, a gap without one gets blanks and tabs.
func Perturb(t *rapid.T, in Input, k int, keepLines bool) []byte {
	toks := Tokens(in.Src)
	var cuts [][2]int // gaps between two consecutive real tokens
	for i := 0; i+1 < len(toks); i++ {
		a, b := toks[i], toks[i+1]
		if a.Tok == token.COMMENT || b.Tok == token.COMMENT || a.Auto {
			continue
		}
		j := i + 1
		if b.Auto { // the gap runs to the token after the automatic semicolon
			if j+1 >= len(toks) || toks[j+1].Tok == token.COMMENT {
				continue
			}
			b = toks[j+1]
		}
		if a.End > b.Off || a.End < a.Off {
			continue
		}
		if len(bytes.TrimSpace(in.Src[a.End:b.Off])) != 0 {
			continue // something the scanner skipped (BOM, ...)
		}
		cuts = append(cuts, [2]int{a.End, b.Off})
	}
	if len(cuts) == 0 {
		return nil
	}
	n := rapid.IntRange(1, k).Draw(t, "nperturb")
	chosen := map[int]string{}
	for i := 0; i < n; i++ {
		c := rapid.IntRange(0, len(cuts)-1).Draw(t, "gap")
		ws := rapid.SampledFrom(wsPool).Draw(t, "ws")
		if keepLines {
			if bytes.IndexByte(in.Src[cuts[c][0]:cuts[c][1]], '\n') >= 0 {
				ws = rapid.SampledFrom([]string{"\n", "\n\n", "\n\t", "\n\n\n", " \n", "\n  ", "\n\t\t"}).Draw(t, "nl")
			} else {
				ws = strings.ReplaceAll(ws, "\n", " ")
			}
		}
		chosen[c] = ws
	}
	var b bytes.Buffer
	last := 0
	for c, cut := range cuts {
		ws, ok := chosen[c]
		if !ok {
			continue
		}
		b.Write(in.Src[last:cut[0]])
		b.WriteString(ws)
		last = cut[1]
	}
	b.Write(in.Src[last:])
	if !Valid(b.Bytes(), in.Class) {
		return nil
	}
	return b.Bytes()
}

// ---- comments at conventional places -------------------------------------------------------------------

// ConvClass names one conventional comment placement: style × place × kind of the next token.
type ConvClass struct {
	Style string // "//" or "#"
	Place string // own-line-after-stmt | own-line-after-lbrace | file-start | trailing
	Next  string // spelling class of the token that follows the place
}

func (c ConvClass) String() string { return c.Style + "|" + c.Place + "|" + c.Next }

func tokClass(t Tok) string {
	switch {
	case t.Tok == token.IDENT:
		return "IDENT"
	case t.Tok.IsLiteral():
		return "LIT"
	case t.Tok == token.COMMENT:
		return "COMMENT"
	}
	return t.Tok.String()
}

// ConvComments inserts 1..k comments at conventional places: on a line of their own before a
// statement, declaration, spec or field (after a line that ended a statement or opened a
// block; at the start of the file), or trailing a line that ends a statement. allowed filters
// the placement classes (nil = all). It returns the new text, the classes used, and nil text
// when nothing could be placed or the result does not parse.
func ConvComments(t *rapid.T, in Input, k int, allowed func(ConvClass) bool) ([]byte, []ConvClass) {
	toks := Tokens(in.Src)
	type place struct {
		off   int // insertion offset
		place string
		next  string
	}
	var places []place
	lineStart := func(off int) int {
		for off > 0 && in.Src[off-1] != '\n' {
			off--
		}
		return off
	}
	ownLine := func(off int) bool { // only blanks between the line start and off
		return len(bytes.TrimSpace(in.Src[lineStart(off):off])) == 0
	}
	next := func(i int) (Tok, bool) {
		for ; i < len(toks); i++ {
			if !toks[i].Auto {
				return toks[i], true
			}
		}
		return Tok{}, false
	}
	if len(toks) > 0 && toks[0].Tok != token.COMMENT {
		places = append(places, place{0, "file-start", tokClass(toks[0])})
	}
	for i, tk := range toks {
		nx, ok := next(i + 1)
		if !ok || nx.Tok == token.COMMENT {
			continue
		}
		switch {
		case tk.Auto && tk.Off < len(in.Src) && in.Src[tk.Off] == '\n':
			// the statement's line ends here: trailing place, and own-line place before the next token
			if i > 0 && toks[i-1].Tok != token.COMMENT {
				places = append(places, place{tk.Off, "trailing", tokClass(nx)})
			}
			if ownLine(nx.Off) {
				places = append(places, place{lineStart(nx.Off), "own-line-after-stmt", tokClass(nx)})
			}
		case tk.Tok == token.LBRACE && ownLine(nx.Off) && nx.Off > tk.End && bytes.IndexByte(in.Src[tk.End:nx.Off], '\n') >= 0:
			places = append(places, place{lineStart(nx.Off), "own-line-after-lbrace", tokClass(nx)})
		}
	}
	if len(places) == 0 {
		return nil, nil
	}
	n := rapid.IntRange(1, k).Draw(t, "ncomments")
	ins := map[int]string{}
	var used []ConvClass
	for i := 0; i < n; i++ {
		p := places[rapid.IntRange(0, len(places)-1).Draw(t, "place")]
		style := rapid.SampledFrom([]string{"//", "//", "#"}).Draw(t, "style")
		if p.place == "trailing" {
			style = "//"
		}
		cl := ConvClass{style, p.place, p.next}
		if allowed != nil && !allowed(cl) {
			continue
		}
		if _, dup := ins[p.off]; dup {
			continue
		}
		text := style + " " + rapid.SampledFrom([]string{"note", "TODO: x", "k", "a b c", "1"}).Draw(t, "text")
		if rapid.IntRange(0, 5).Draw(t, "bare") == 0 {
			text = style // "//" or a bare "#"
		}
		if p.place == "trailing" {
			ins[p.off] = " " + text
		} else {
			rest := in.Src[p.off:]
			indent := rest[:len(rest)-len(bytes.TrimLeft(rest, " \t"))]
			ins[p.off] = string(indent) + text + "\n"
		}
		used = append(used, cl)
	}
	if len(ins) == 0 {
		return nil, nil
	}
	offs := make([]int, 0, len(ins))
	for o := range ins {
		offs = append(offs, o)
	}
	sort.Ints(offs)
	var b bytes.Buffer
	last := 0
	for _, o := range offs {
		b.Write(in.Src[last:o])
		b.WriteString(ins[o])
		last = o
	}
	b.Write(in.Src[last:])
	if !Valid(b.Bytes(), in.Class) {
		return nil, nil
	}
	return b.Bytes(), used
}

// ---- comments at arbitrary token boundaries (C21) ----------------------------------------------------------

// InjClass names one injection: comment style × previous token × next token.
type InjClass struct {
	Style string // "/*" "//" "#"
	Prev  string
	Next  string
}

func (c InjClass) String() string { return c.Style + "|" + c.Prev + "|" + c.Next }

// Inject inserts 1..k uniquely numbered comments (/*kN*/, //kN⏎, # kN⏎) at drawn token
// boundaries (also before the first and after the last token). Line comments are followed by a
// newline, so they are only legal where a line break is. allowed filters classes (nil = all).
// It returns nil when the commented source does not parse.
func Inject(t *rapid.T, in Input, k int, allowed func(InjClass) bool) ([]byte, []InjClass) {
	toks := Tokens(in.Src)
	var real []Tok
	for _, tk := range toks {
		if !tk.Auto {
			real = append(real, tk)
		}
	}
	if len(real) == 0 {
		return nil, nil
	}
	n := rapid.IntRange(1, k).Draw(t, "ninject")
	ins := map[int]string{}
	var used []InjClass
	// clustered placement: all comments within a dozen tokens of one place (several comments inside
	// one small construct, e.g. a one-line function body)
	cluster := -1
	if rapid.IntRange(0, 3).Draw(t, "cluster") == 0 {
		cluster = rapid.IntRange(0, len(real)).Draw(t, "clusterat")
	}
	// the text after the number: comment sizes matter to the printer (a body that is "small enough"
	// is kept on one line, and the size of its comments counts)
	filler := func() string {
		switch rapid.IntRange(0, 5).Draw(t, "len") {
		case 0:
			return " " + strings.Repeat("medium text ", rapid.IntRange(1, 3).Draw(t, "rep"))
		case 1:
			return " " + strings.Repeat("a long comment text ", rapid.IntRange(3, 7).Draw(t, "rep"))
		}
		return ""
	}
	for i := 0; i < n; i++ {
		j := rapid.IntRange(0, len(real)).Draw(t, "boundary") // before real[j]; len = after the last token
		if cluster >= 0 {
			j = min(len(real), cluster+j%12)
		}
		prev, next := "BOF", "EOF"
		off := len(in.Src)
		if j < len(real) {
			off, next = real[j].Off, tokClass(real[j])
		}
		if j > 0 {
			prev = tokClass(real[j-1])
			if j == len(real) {
				off = real[j-1].End
			}
		}
		style := rapid.SampledFrom([]string{"/*", "/*", "/*", "//", "#"}).Draw(t, "style")
		cl := InjClass{style, prev, next}
		if allowed != nil && !allowed(cl) {
			continue
		}
		if _, dup := ins[off]; dup {
			continue
		}
		id := len(ins) + 1
		switch style {
		case "/*":
			ins[off] = fmt.Sprintf("/*k%d%s*/", id, filler())
			if rapid.IntRange(0, 5).Draw(t, "multiline") == 0 {
				// block comments over several lines, in the usual layouts (the printer strips a common
				// prefix from the continuation lines)
				ins[off] = fmt.Sprintf(rapid.SampledFrom([]string{
					"/*k%d\n second line */",
					"/*\n* k%d alpha\n* beta\n*/",
					"/*\n * k%d alpha\n * beta\n */",
					"/*\n**k%d** bold start\nplain\n*/",
					"/*\n\tk%d indented\n\t\tmore\n*/",
					"/* k%d\n\n   blank line above */",
					"/*\n#k%d\n//not a comment\n*/",
				}).Draw(t, "mlform"), id)
			}
			if rapid.Bool().Draw(t, "pad") {
				ins[off] = " " + ins[off] + " "
			}
		case "//":
			ins[off] = fmt.Sprintf(" //k%d%s\n", id, strings.TrimRight(filler(), " "))
		default:
			ins[off] = fmt.Sprintf(" # k%d\n", id)
			if rapid.IntRange(0, 5).Draw(t, "bare") == 0 {
				ins[off] = " #\n"
			}
		}
		used = append(used, cl)
	}
	if len(ins) == 0 {
		return nil, nil
	}
	offs := make([]int, 0, len(ins))
	for o := range ins {
		offs = append(offs, o)
	}
	sort.Ints(offs)
	var b bytes.Buffer
	last := 0
	for _, o := range offs {
		b.Write(in.Src[last:o])
		b.WriteString(ins[o])
		last = o
	}
	b.Write(in.Src[last:])
	if !Valid(b.Bytes(), in.Class) {
		return nil, nil
	}
	return b.Bytes(), used
}

// CommentTexts lists the comment tokens of src in order (XGo scanner, verbatim text).
func CommentTexts(src []byte) []string {
	var out []string
	for _, tk := range lex.Scan(src) {
		if tk.Tok == token.COMMENT {
			out = append(out, tk.Lit)
		}
	}
	return out
}

// ---- tree features ------------------------------------------------------------------------------------

// xgoKinds are the node kinds (and shapes) that make a source non-trivial for C19–C21.
var xgoKinds = map[string]bool{"LambdaExpr": true, "LambdaExpr2": true, "ComprehensionExpr": true, "ErrWrapExpr": true, "RangeExpr": true,
	"DomainTextLit": true, "OverloadFuncDecl": true, "ForPhraseStmt": true, "SliceLit": true, "MatrixLit": true, "EnvExpr": true,
	"NumberUnitLit": true, "StringLitEx": true, "ElemEllipsis": true, "TupleLit": true, "AnySelectorExpr": true, "CondExpr": true}

// Features returns the XGo-specific constructs of a tree (node kinds, "command" for a
// command-style call, "class-fields" for the field block of a class file) and the set of
// (parent kind . field > child kind) edges.
func Features(f *ast.File) (xgo map[string]bool, edges map[string]bool) {
	xgo, edges = map[string]bool{}, map[string]bool{}
	astx.Walk(f, astx.Options{}, func(n, parent goast.Node, field string) bool {
		name := astx.TypeName(n)
		if xgoKinds[name] {
			xgo[name] = true
		}
		if c, ok := n.(*ast.CallExpr); ok && c.IsCommand() {
			xgo["command"] = true
		}
		if parent != nil {
			edges[astx.TypeName(parent)+"."+field+">"+name] = true
		}
		return true
	})
	if f.IsClass && len(f.Decls) > 0 {
		for _, d := range f.Decls {
			if g, ok := d.(*ast.GenDecl); ok && g.Tok == token.VAR {
				xgo["class-fields"] = true
			}
			break
		}
	}
	return
}

// Keys returns the sorted keys of a set.
func Keys(m map[string]bool) []string {
	out := make([]string, 0, len(m))
	for k := range m {
		out = append(out, k)
	}
	sort.Strings(out)
	return out
}

// Short clips s for messages.
func Short(s string, n int) string {
	if len(s) > n {
		return s[:n] + "…"
	}
	return strings.ToValidUTF8(s, "?")
}

// ---- pipeline ------------------------------------------------------------------------------------------

// Variant is a drawn input with the record of how it was made.
type Variant struct {
	Input
	Steps   []string // base, mutant, conv-comments, perturb
	Classes []string // catalogue classes of the steps ("mut:…", "conv:…")
}

// Policy filters the catalogue classes a pipeline may use (nil members = everything).
type Policy struct {
	Conv func(ConvClass) bool
	Mut  func(string) bool
	// KeepLines: perturbations never add or remove a line break (see Perturb).
	KeepLines bool
}

// DrawVariant draws a base source and applies, each with some probability, an AST mutation,
// conventional comments and a whitespace perturbation (in that order). Steps whose result does
// not parse are skipped.
func DrawVariant(t *rapid.T, pol Policy) Variant {
	v := Variant{Input: Base().Draw(t, "base"), Steps: []string{"base"}}
	if rapid.IntRange(0, 9).Draw(t, "do-mutate") < 4 && len(v.Src) < 20000 {
		if out, cls := Mutant(t, v.Input, 3, pol.Mut); out != nil {
			v.Src, v.Steps = out, append(v.Steps, "mutant")
			for _, c := range cls {
				v.Classes = append(v.Classes, "mut:"+c)
			}
		}
	}
	if rapid.IntRange(0, 9).Draw(t, "do-comments") < 4 {
		if out, cls := ConvComments(t, v.Input, 4, pol.Conv); out != nil {
			v.Src, v.Steps = out, append(v.Steps, "conv-comments")
			for _, c := range cls {
				v.Classes = append(v.Classes, "conv:"+c.String())
			}
		}
	}
	if rapid.IntRange(0, 9).Draw(t, "do-perturb") < 6 {
		if out := Perturb(t, v.Input, 8, pol.KeepLines); out != nil {
			v.Src, v.Steps = out, append(v.Steps, "perturb")
		}
	}
	return v
}

// OneLineForPhrase reports whether some block written on one source line directly contains a
// for-in statement (`func f() { for x <- xs {} }`): printing such a function body makes the
// printer measure the statement through printNode, where *ast.ForPhraseStmt (which also has the
// promoted exprNode method of *ast.ForPhrase) is taken for an expression and log.Fatalf ends
// the process. Checks steer away from the shape (it cannot be evaluated in-process).
func OneLineForPhrase(f *ast.File, fset *gotoken.FileSet) bool {
	found := false
	astx.Walk(f, astx.Options{}, func(n, _ goast.Node, _ string) bool {
		if b, ok := n.(*ast.BlockStmt); ok && b != nil && !found {
			if b.Lbrace.IsValid() && b.Rbrace.IsValid() && fset.Position(b.Lbrace).Line == fset.Position(b.Rbrace).Line {
				for _, s := range b.List {
					if _, ok := s.(*ast.ForPhraseStmt); ok {
						found = true
					}
				}
			}
		}
		return !found
	})
	return found
}

// IsXGoKind reports whether a node kind is XGo-specific.
func IsXGoKind(name string) bool { return xgoKinds[name] }

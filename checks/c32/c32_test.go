//go:build verif

// C32 — the TPL scanner tokenises like the XGo scanner on the lexemes both share.
package c32

import (
	gotoken "go/token"
	"runtime/debug"
	"strings"
	"testing"

	"github.com/goplus/xgo/scanner"
	"github.com/goplus/xgo/token"
	tplscanner "github.com/goplus/xgo/tpl/scanner"
	tpltoken "github.com/goplus/xgo/tpl/token"
	"pgregory.net/rapid"

	"verif/internal/gen/lex"
	"verif/internal/vk"
)

func TestMain(m *testing.M) {
	vk.Main(m, "C32", "exploration",
		"sequences of lexemes with drawn separators (blank, tab, LF, CRLF, none), both comment modes; inputs in which either scanner produces a token the other language does not have (Go keywords, c\"/C\"/py\" strings for XGo; @ and ** for TPL) are outside the statement and counted under rejected. Oracle: pairwise equality of (offset, token class by spelling, literal) including automatic semicolons. Non-trivial = at least one literal and one newline-sensitive position (automatic semicolon); distinct = hash of (mode, bytes)")
}

type Case struct {
	Src      vk.Bytes `json:"src"`
	Comments bool     `json:"comments"`
}

type tk struct {
	Off int
	Tok string
	Lit string
}

func scanX(src []byte, comments bool) (out []tk, why string) {
	fset := gotoken.NewFileSet()
	f := fset.AddFile("x", -1, len(src))
	var s scanner.Scanner
	mode := scanner.Mode(0)
	if comments {
		mode = scanner.ScanComments
	}
	s.Init(f, src, func(gotoken.Position, string) {}, mode)
	for i := 0; i < 2*len(src)+4; i++ {
		pos, tok, lit := s.Scan()
		if tok == token.EOF {
			break
		}
		if tok.IsKeyword() {
			why = "go-keyword"
		}
		if tok == token.CSTRING || tok == token.PYSTRING {
			why = "cstring"
		}
		out = append(out, tk{f.Offset(pos), tok.String(), lit})
	}
	return
}

func scanT(src []byte, comments bool) (out []tk, why string) {
	fset := gotoken.NewFileSet()
	f := fset.AddFile("x", -1, len(src))
	var s tplscanner.Scanner
	mode := tplscanner.Mode(0)
	if comments {
		mode = tplscanner.ScanComments
	}
	s.Init(f, src, func(gotoken.Position, string) {}, mode)
	for i := 0; i < 2*len(src)+4; i++ {
		t := s.Scan()
		if t.Tok == tpltoken.EOF {
			break
		}
		if t.Tok == tpltoken.AT || t.Tok == tpltoken.POW {
			why = "tpl-only-op"
		}
		if t.Tok == tpltoken.ILLEGAL && t.Lit == "@" {
			why = "tpl-only-op"
		}
		out = append(out, tk{f.Offset(t.Pos), t.Tok.String(), t.Lit})
	}
	return
}

type info struct {
	rejected string
	nontriv  bool
}

func compare(c Case) (v *vk.Verdict, in info) {
	defer func() {
		if p := recover(); p != nil {
			v = vk.Bad("panic", "%v\n%s", p, debug.Stack())
		}
	}()
	x, why1 := scanX(c.Src, c.Comments)
	t, why2 := scanT(c.Src, c.Comments)
	if why1 != "" {
		in.rejected = why1
		return nil, in
	}
	if why2 != "" {
		in.rejected = why2
		return nil, in
	}
	hasLit, hasSemi := false, false
	for i := 0; i < len(x) || i < len(t); i++ {
		if i >= len(x) || i >= len(t) {
			return vk.Bad("token-count", "XGo %d tokens, TPL %d tokens; first extra: xgo=%v tpl=%v", len(x), len(t), at(x, i), at(t, i)), in
		}
		a, b := x[i], t[i]
		if a != b {
			cls := "token-mismatch"
			if a.Tok == "COMMENT" && b.Tok == "COMMENT" && strings.HasPrefix(a.Lit, "#") && strings.ReplaceAll(b.Lit, "\r", "") == a.Lit && a.Off == b.Off {
				cls = "sharp-comment-cr"
			}
			return vk.Bad(cls, "token %d differs: XGo %+v, TPL %+v", i, a, b), in
		}
		if a.Lit != "" && a.Tok != ";" && a.Tok != "IDENT" {
			hasLit = true
		}
		if a.Tok == ";" && a.Lit == "\n" {
			hasSemi = true
		}
	}
	in.nontriv = hasLit && hasSemi
	return nil, in
}

func at(ts []tk, i int) any {
	if i < len(ts) {
		return ts[i]
	}
	return "<none>"
}

var oracle = vk.Register("cmp", func(c Case) *vk.Verdict { v, _ := compare(c); return v })

type failer interface {
	Fatalf(string, ...any)
	Helper()
}

func run(t failer, c Case, class string) {
	v, in := compare(c)
	if in.rejected != "" {
		vk.R.Rejected(in.rejected)
		vk.R.Case(false, "")
		return
	}
	key := string(c.Src)
	if c.Comments {
		key = "c|" + key
	}
	vk.R.Case(in.nontriv, key)
	vk.R.Class(class)
	if in.nontriv {
		vk.R.Sample(string(c.Src))
	}
	vk.R.Check(t, "cmp", c, v)
}

var sharedOps = []string{"+", "-", "*", "/", "%", "&", "|", "^", "<<", ">>", "&^", "+=", "-=", "*=", "/=", "%=", "&=", "|=", "^=",
	"<<=", ">>=", "&^=", "&&", "||", "<-", "++", "--", "==", "<", ">", "=", "!", "!=", "<=", ">=", ":=", "...", "(", "[", "{", ",",
	".", ")", "]", "}", ";", ":", "?", "$", "=>", "->", "<>", "~"}

var sharedLits = []string{"1r", "1.5r", "1m", "2.5s", "3ms", "0x1r", "10y", "1e3r", "1ix", "# c", "#c\n", "# x\r\n", "#", "#\r", "#!a b\r\n"}

func sharedSoup() *rapid.Generator[string] {
	lx := rapid.OneOf(
		lex.Ident().Filter(func(s string) bool { return !token.IsKeyword(s) }),
		rapid.SampledFrom(sharedOps), rapid.SampledFrom(sharedOps),
		lex.GoLexeme().Filter(func(s string) bool { return !token.IsKeyword(s) }),
		lex.GoLexeme().Filter(func(s string) bool { return !token.IsKeyword(s) }),
		rapid.SampledFrom(sharedLits),
		lex.Number(), lex.Quoted(),
	)
	return lex.Soup(lx, 0, 16)
}

func TestSharedSoup(t *testing.T) {
	g := sharedSoup()
	vk.R.Rapid(t, 1, 150000, 3000000, func(t *rapid.T) {
		run(t, Case{Src: vk.Bytes(g.Draw(t, "src")), Comments: rapid.Bool().Draw(t, "comments")}, "src=shared-soup")
	})
}

func TestHostile(t *testing.T) {
	g := lex.Hostile()
	vk.R.Rapid(t, 2, 40000, 800000, func(t *rapid.T) {
		run(t, Case{Src: vk.Bytes(g.Draw(t, "src")), Comments: rapid.Bool().Draw(t, "comments")}, "src=hostile")
	})
}

func TestTplCorpus(t *testing.T) {
	if vk.R.Shard != 0 {
		return
	}
	for _, f := range lex.Corpus() {
		for _, cm := range []bool{false, true} {
			run(t, Case{Src: vk.Bytes(f.Src), Comments: cm}, "src=corpus")
		}
	}
}

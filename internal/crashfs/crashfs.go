//go:build linux && amd64

// Package crashfs enumerates crash points of a command: it runs the command under ptrace,
// recognises the system calls that change the file system below given root directories, and can
// kill the whole process tree with SIGKILL at the entry of the k-th such call — the call is then
// never executed, so the files are in the state "after call k-1 / before call k", exactly what a
// power cut or kill -9 at that moment leaves behind (no page-cache effects are modelled).
//
//	tr, err := crashfs.Run(crashfs.Cmd{Argv, Dir, Env, Roots}, 0)   // complete run: tr.Calls lists the mutating calls
//	tr, err := crashfs.Run(cmd, k)                                    // killed at the entry of call k (1-based); tr.Killed
//
// Mutating calls (x86-64): open/openat/creat with O_CREAT, O_TRUNC, O_WRONLY or O_RDWR; write,
// pwrite64, writev on a descriptor that refers to a file below a root; rename, renameat,
// renameat2, unlink, unlinkat, rmdir, chmod, fchmod, fchmodat, truncate, ftruncate, link, linkat,
// symlink, symlinkat, mkdir, mkdirat — counted only when a path argument (resolved against the
// caller's working directory or directory descriptor) lies below one of the roots. All threads
// and child processes are followed (PTRACE_O_TRACECLONE/FORK/VFORK/EXEC, PTRACE_O_EXITKILL).
// Run may be called from several goroutines at once.
package crashfs

import (
	"fmt"
	"os"
	"os/exec"
	"path/filepath"
	"runtime"
	"strings"
	"syscall"
)

// Cmd describes the command to run.
type Cmd struct {
	Argv  []string
	Dir   string
	Env   []string
	Roots []string // absolute directories whose content matters
}

// Call is one mutating system call seen at its entry.
type Call struct {
	Name  string `json:"name"`
	Path  string `json:"path,omitempty"`  // resolved first path argument (or the file behind the descriptor)
	Path2 string `json:"path2,omitempty"` // second path (rename, link)
	Arg   int64  `json:"arg,omitempty"`   // open flags, mode, length
}

func (c Call) String() string {
	s := c.Name + "(" + c.Path
	if c.Path2 != "" {
		s += " -> " + c.Path2
	}
	return s + ")"
}

// Trace is the result of one run.
type Trace struct {
	Calls    []Call // mutating calls in order of their entry (the last one was not executed if Killed)
	Killed   bool   // the tree was killed at the entry of call number len(Calls)
	ExitCode int    // exit code of the command when it ran to completion
	Procs    int    // threads and processes followed
}

const (
	sysWrite     = 1
	sysOpen      = 2
	sysPwrite64  = 18
	sysWritev    = 20
	sysTruncate  = 76
	sysFtruncate = 77
	sysRename    = 82
	sysMkdir     = 83
	sysRmdir     = 84
	sysCreat     = 85
	sysLink      = 86
	sysUnlink    = 87
	sysSymlink   = 88
	sysChmod     = 90
	sysFchmod    = 91
	sysOpenat    = 257
	sysMkdirat   = 258
	sysUnlinkat  = 263
	sysRenameat  = 264
	sysLinkat    = 265
	sysSymlinkat = 266
	sysFchmodat  = 268
	sysRenameat2 = 316
	sysOpenat2   = 437

	atFdcwd = -100
	enosys  = ^uint64(37) // -ENOSYS: value of rax at a syscall-entry stop

	ptraceOExitKill = 0x100000

	// __WALL | __WNOTHREAD: wait for the tracees of the calling thread only, so that several
	// Run calls may proceed in parallel, each on its own locked thread
	waitFlags = syscall.WALL | 0x20000000
)

var names = map[uint64]string{sysWrite: "write", sysOpen: "open", sysPwrite64: "pwrite64", sysWritev: "writev", sysTruncate: "truncate", sysFtruncate: "ftruncate",
	sysRename: "rename", sysMkdir: "mkdir", sysRmdir: "rmdir", sysCreat: "creat", sysLink: "link", sysUnlink: "unlink", sysSymlink: "symlink", sysChmod: "chmod",
	sysFchmod: "fchmod", sysOpenat: "openat", sysMkdirat: "mkdirat", sysUnlinkat: "unlinkat", sysRenameat: "renameat", sysLinkat: "linkat", sysSymlinkat: "symlinkat",
	sysFchmodat: "fchmodat", sysRenameat2: "renameat2", sysOpenat2: "openat2"}

type tracer struct {
	roots []string
}

func (t *tracer) inside(p string) bool {
	if p == "" {
		return false
	}
	for _, r := range t.roots {
		if p == r || strings.HasPrefix(p, r+"/") {
			return true
		}
	}
	return false
}

func readString(pid int, addr uint64) string {
	if addr == 0 {
		return ""
	}
	var out []byte
	buf := make([]byte, 256)
	for len(out) < 4096 {
		n, err := syscall.PtracePeekData(pid, uintptr(addr)+uintptr(len(out)), buf)
		if err != nil || n == 0 {
			break
		}
		for i := 0; i < n; i++ {
			if buf[i] == 0 {
				return string(append(out, buf[:i]...))
			}
		}
		out = append(out, buf[:n]...)
	}
	return string(out)
}

func link(pid int, what string) string {
	s, err := os.Readlink(fmt.Sprintf("/proc/%d/%s", pid, what))
	if err != nil {
		return ""
	}
	return strings.TrimSuffix(s, " (deleted)")
}

// resolve makes path absolute the way the kernel will: against dirfd or the working directory.
func resolve(pid int, dirfd int64, path string) string {
	if path == "" {
		return ""
	}
	if !filepath.IsAbs(path) {
		base := ""
		if int32(dirfd) == atFdcwd {
			base = link(pid, "cwd")
		} else {
			base = link(pid, fmt.Sprintf("fd/%d", int32(dirfd)))
		}
		if base == "" {
			return ""
		}
		path = base + "/" + path
	}
	return filepath.Clean(path)
}

// classify returns the mutating call the registers describe, if it is one below the roots.
func (t *tracer) classify(pid int, r *syscall.PtraceRegs) (Call, bool) {
	nr := r.Orig_rax
	name, ok := names[nr]
	if !ok {
		return Call{}, false
	}
	a := [4]uint64{r.Rdi, r.Rsi, r.Rdx, r.R10}
	c := Call{Name: name}
	const wr = syscall.O_CREAT | syscall.O_TRUNC | syscall.O_WRONLY | syscall.O_RDWR
	switch nr {
	case sysOpen:
		c.Path, c.Arg = resolve(pid, atFdcwd, readString(pid, a[0])), int64(a[1])
		if a[1]&wr == 0 {
			return c, false
		}
	case sysCreat:
		c.Path = resolve(pid, atFdcwd, readString(pid, a[0]))
	case sysOpenat:
		c.Path, c.Arg = resolve(pid, int64(a[0]), readString(pid, a[1])), int64(a[2])
		if a[2]&wr == 0 {
			return c, false
		}
	case sysOpenat2:
		c.Path = resolve(pid, int64(a[0]), readString(pid, a[1])) // flags live in a struct: treat as mutating
	case sysWrite, sysPwrite64, sysWritev, sysFtruncate, sysFchmod:
		c.Path, c.Arg = link(pid, fmt.Sprintf("fd/%d", int32(a[0]))), int64(a[2])
		if nr == sysFchmod || nr == sysFtruncate {
			c.Arg = int64(a[1])
		}
	case sysTruncate, sysChmod, sysMkdir:
		c.Path, c.Arg = resolve(pid, atFdcwd, readString(pid, a[0])), int64(a[1])
	case sysRmdir, sysUnlink:
		c.Path = resolve(pid, atFdcwd, readString(pid, a[0]))
	case sysRename, sysLink:
		c.Path, c.Path2 = resolve(pid, atFdcwd, readString(pid, a[0])), resolve(pid, atFdcwd, readString(pid, a[1]))
	case sysSymlink:
		c.Path = resolve(pid, atFdcwd, readString(pid, a[1]))
	case sysSymlinkat:
		c.Path = resolve(pid, int64(a[1]), readString(pid, a[2]))
	case sysMkdirat, sysFchmodat:
		c.Path, c.Arg = resolve(pid, int64(a[0]), readString(pid, a[1])), int64(a[2])
	case sysUnlinkat:
		c.Path = resolve(pid, int64(a[0]), readString(pid, a[1]))
	case sysRenameat, sysRenameat2, sysLinkat:
		c.Path, c.Path2 = resolve(pid, int64(a[0]), readString(pid, a[1])), resolve(pid, int64(a[2]), readString(pid, a[3]))
	}
	return c, t.inside(c.Path) || t.inside(c.Path2)
}

// Run runs the command under ptrace. killAt == 0 lets it finish; killAt == k > 0 kills every
// process of the tree at the entry of the k-th mutating call. If the command performs fewer
// than k such calls it finishes normally (Killed false).
func Run(cmd Cmd, killAt int) (tr Trace, err error) {
	type result struct {
		tr  Trace
		err error
	}
	ch := make(chan result, 1)
	go func() {
		// every ptrace request must come from the thread that started the tracee
		runtime.LockOSThread()
		defer runtime.UnlockOSThread()
		t, e := run(cmd, killAt)
		ch <- result{t, e}
	}()
	r := <-ch
	return r.tr, r.err
}

func run(cmd Cmd, killAt int) (tr Trace, err error) {
	t := &tracer{}
	for _, r := range cmd.Roots {
		t.roots = append(t.roots, filepath.Clean(r))
	}
	c := exec.Command(cmd.Argv[0], cmd.Argv[1:]...)
	c.Dir, c.Env = cmd.Dir, cmd.Env
	c.SysProcAttr = &syscall.SysProcAttr{Ptrace: true, Setpgid: true}
	devnull, _ := os.OpenFile(os.DevNull, os.O_RDWR, 0)
	if devnull != nil {
		defer devnull.Close()
		c.Stdin, c.Stdout, c.Stderr = devnull, devnull, devnull
	}
	if err = c.Start(); err != nil {
		return tr, fmt.Errorf("crashfs: start: %w", err)
	}
	main := c.Process.Pid
	alive := map[int]bool{}
	killAll := func() {
		syscall.Kill(-main, syscall.SIGKILL)
		for p := range alive {
			syscall.Kill(p, syscall.SIGKILL)
		}
		for {
			var ws syscall.WaitStatus
			if _, e := syscall.Wait4(-1, &ws, waitFlags, nil); e != nil {
				if e == syscall.EINTR {
					continue
				}
				return
			}
		}
	}
	var ws syscall.WaitStatus
	if _, err = syscall.Wait4(main, &ws, waitFlags, nil); err != nil || !ws.Stopped() {
		killAll()
		return tr, fmt.Errorf("crashfs: tracee did not stop at exec: %v %v", err, ws)
	}
	alive[main] = true
	opts := syscall.PTRACE_O_TRACESYSGOOD | syscall.PTRACE_O_TRACECLONE | syscall.PTRACE_O_TRACEFORK | syscall.PTRACE_O_TRACEVFORK | syscall.PTRACE_O_TRACEEXEC | ptraceOExitKill
	if err = syscall.PtraceSetOptions(main, opts); err != nil {
		killAll()
		return tr, fmt.Errorf("crashfs: setoptions: %w", err)
	}
	if err = syscall.PtraceSyscall(main, 0); err != nil {
		killAll()
		return tr, fmt.Errorf("crashfs: resume: %w", err)
	}
	tr.Procs = 1
	for len(alive) > 0 {
		pid, e := syscall.Wait4(-1, &ws, waitFlags, nil)
		if e == syscall.EINTR {
			continue
		}
		if e != nil {
			break // ECHILD: nothing left
		}
		switch {
		case ws.Exited() || ws.Signaled():
			delete(alive, pid)
			if pid == main {
				tr.ExitCode = ws.ExitStatus()
				if ws.Signaled() {
					tr.ExitCode = 128 + int(ws.Signal())
				}
			}
			continue
		case !ws.Stopped():
			continue
		}
		if !alive[pid] {
			alive[pid] = true // a new thread or child: its first stop is the automatic SIGSTOP
			tr.Procs++
			if ws.StopSignal() == syscall.SIGSTOP {
				syscall.PtraceSyscall(pid, 0)
				continue
			}
		}
		sig := ws.StopSignal()
		switch {
		case sig == syscall.SIGTRAP|0x80: // syscall stop
			var regs syscall.PtraceRegs
			if e := syscall.PtraceGetRegs(pid, &regs); e == nil && regs.Rax == enosys {
				if call, ok := t.classify(pid, &regs); ok {
					tr.Calls = append(tr.Calls, call)
					if killAt > 0 && len(tr.Calls) == killAt {
						tr.Killed = true
						killAll()
						return tr, nil
					}
				}
			}
			syscall.PtraceSyscall(pid, 0)
		case sig == syscall.SIGTRAP: // ptrace event (clone, fork, vfork, exec) or exec trap
			syscall.PtraceSyscall(pid, 0)
		default: // a real signal (SIGURG from the Go runtime, SIGCHLD, …): deliver it
			syscall.PtraceSyscall(pid, int(sig))
		}
	}
	return tr, nil
}

//go:build verif

// C07 — the compiler never crashes or hangs on parseable input (and partial ASTs); error
// positions lie inside the compiled files; x/build helpers return errors instead of panicking.
package c07

import (
	"fmt"
	gotoken "go/token"
	"os"
	"path/filepath"
	"regexp"
	"strconv"
	"strings"
	"sync"
	"testing"
	"time"

	"github.com/goplus/gogen"
	"github.com/goplus/xgo/parser/fsx/memfs"
	"github.com/goplus/xgo/x/build"
	xerrors "github.com/qiniu/x/errors"
	"pgregory.net/rapid"

	"verif/internal/gen/lex"
	"verif/internal/gen/pkggen"
	"verif/internal/vk"
	"verif/internal/xcl"
)

func TestMain(m *testing.M) {
	vk.Main(m, "C07", "exploration",
		"packages from pkggen: pristine generated packages (gosub, XGo sugar, overloads, interpolation, .gox classes), near-miss mutants (0-2 operators), token-damaged variants compiled from the partial AST the parser returns, and repository .xgo/.gox files (verbatim and damaged); entry points cl.NewPackage+WriteTo (through ParseFSDir, partial ASTs included) and x/build BuildFile/BuildFSDir. Oracle: the call returns within a watchdog, no panic escapes, and every *gogen.CodeError / ImportError / MatchError position is valid and lies inside one of the compiled files. Non-trivial = the parser accepted the input and cl reported at least one error, or the AST was partial; distinct = hash of the sources + entry point")
}

type Case struct {
	Files map[string]string `json:"files"`
	Entry string            `json:"entry"` // cl | buildfile | buildfsdir
}

type info struct {
	parseOK, clErr, partial bool
}

func lineCount(s string) int { return strings.Count(s, "\n") + 1 }

func checkPositions(err error, fset *gotoken.FileSet, files map[string]string) *vk.Verdict {
	var list []error
	switch e := err.(type) {
	case xerrors.List:
		list = e
	default:
		list = []error{err}
	}
	for _, e := range list {
		var pos gotoken.Pos
		has := false
		switch x := e.(type) {
		case *gogen.CodeError:
			pos, has = x.Pos, true
		case *gogen.ImportError:
			pos, has = x.Pos, true
		case *gogen.BoundTypeError:
			pos, has = x.Pos, true
		case *gogen.MatchError:
			if x.Src != nil {
				pos, has = x.Src.Pos(), true
			}
		}
		if !has {
			continue
		}
		if !pos.IsValid() {
			cls := "error-without-position:" + strings.TrimPrefix(fmt.Sprintf("%T", e), "*gogen.")
			if _, ok := e.(*gogen.CodeError); ok && fromCl(e.Error()) {
				// a CodeError whose text is one of cl's own messages was created in this repository
				// (newCodeErrorf / handleErrorf always get a position): that is not the listed finding
				// about errors that gogen creates without one
				cls += "-from-cl/" + gist(e.Error())
			}
			return vk.Bad(cls, "%T carries an invalid position: %q", e, e.Error())
		}
		p := fset.PositionFor(pos, false) // unadjusted: a //line or /*line*/ directive inside the source renames positions, not files
		name := strings.TrimPrefix(p.Filename, "/foo/")
		src, ok := files[name]
		if !ok {
			return vk.Bad("error-position-outside-files", "error position %v is not in a compiled file: %q", p, e.Error())
		}
		if p.Line < 1 || p.Line > lineCount(src) {
			return vk.Bad("error-position-outside-files", "error position %v is beyond the %d lines of %s: %q", p, lineCount(src), name, e.Error())
		}
	}
	return nil
}

// gist reduces a diagnostic to the first words of it that belong to the vocabulary of compiler
// messages (operands, identifiers and literals drop out): the listed position-less errors are
// identified by (error type, gist), so that another message losing its position is reported.
var diagWords = map[string]bool{}

func init() {
	for _, w := range strings.Fields(`invalid operation non numeric type types cannot use as value in assignment undefined mismatched
		operator not defined on missing return too many few arguments argument call to range over assign declared used unused label
		import imported redeclared block duplicate case switch constant overflows truncated convert conversion nil untyped func method
		field selector index slice map chan send receive defer expression statement function break continue goto fallthrough is of
		for and or no new variables left side expected found must be lambda overload env string interpolation template recursive
		literal struct array pointer interface failed match matches unmatched ambiguous multiple unknown unsupported unexpected
		compile compiling load package module finding go has does implement have want got with without by variadic parameter
		parameters result results values count length bound bounds boundtype initialization cycle refers itself embedded receiver
		generic instantiate infer inferred comparable ordered address take indirect shift shifted operand division zero
		extra init main name names already previous declaration other here builtin built append copy delete len cap make
		panic print println real imag complex close recover unsafe`) {
		diagWords[w] = true
	}
}

// clFormats: the message formats of the errors cl creates itself, read from the repository's
// cl/*.go (string literal arguments of newCodeErrorf, newCodeError and handleErrorf), as regexps.
var (
	clFormatsOnce sync.Once
	clFormats     []*regexp.Regexp
)

var errCall = regexp.MustCompile("(?:newCodeErrorf|newCodeError|handleErrorf)\\([^\"`\\n]*\"((?:[^\"\\\\]|\\\\.)*)\"")

func fromCl(msg string) bool {
	clFormatsOnce.Do(func() {
		files, _ := filepath.Glob(filepath.Join(lex.RepoDir(), "cl", "*.go"))
		seen := map[string]bool{}
		for _, f := range files {
			if strings.HasSuffix(f, "_test.go") {
				continue
			}
			src, err := os.ReadFile(f)
			if err != nil {
				continue
			}
			for _, m := range errCall.FindAllStringSubmatch(string(src), -1) {
				lit, err := strconv.Unquote("\"" + m[1] + "\"")
				if err != nil || seen[lit] || len(strings.Trim(lit, "%vsdqT# ")) < 6 { // formats that are nearly all verbs match anything
					continue
				}
				seen[lit] = true
				re := regexp.QuoteMeta(lit)
				re = regexp.MustCompile(`%[#+]?[a-zA-Z]`).ReplaceAllString(re, ".*")
				if r, err := regexp.Compile("(?s)^(-: )?" + re + "$"); err == nil {
					clFormats = append(clFormats, r)
				}
			}
		}
	})
	first := strings.SplitN(msg, "\n", 2)[0]
	for _, r := range clFormats {
		if r.MatchString(msg) || r.MatchString(first) {
			return true
		}
	}
	return false
}

const sizeofRecursive = "stack-overflow@go/types.(*gcSizes).Sizeof"

func usesSizeof(files map[string]string) bool {
	for _, src := range files {
		if strings.Contains(src, "Sizeof(") || strings.Contains(src, "Alignof(") || strings.Contains(src, "Offsetof(") {
			return true
		}
	}
	return false
}

var letters = regexp.MustCompile(`[A-Za-z]+`)

func gist(msg string) string {
	var out []string
	for _, w := range letters.FindAllString(msg, -1) {
		w = strings.ToLower(w)
		if diagWords[w] {
			out = append(out, w)
			if len(out) == 5 {
				break
			}
		}
	}
	return strings.Join(out, "-")
}

func compile(c Case) (v *vk.Verdict, in info) {
	switch c.Entry {
	case "cl":
		r := xcl.Compile(c.Files, xcl.Options{Partial: true})
		in.parseOK = r.ParseErr == nil
		in.partial = r.ParseErr != nil && r.AST != nil
		in.clErr = r.Err != nil
		if r.Panic != nil && r.Phase == "writeto" && r.ParseErr != nil {
			// NewPackage returned a package for a partial AST; printing it (gogen) is outside the statement
			in.clErr = false
			return nil, in
		}
		if r.Panic != nil {
			return vk.Bad("panic-escapes:"+r.Phase, "a panic escaped cl.NewPackage/WriteTo: %v\n%s", r.Panic, repoFrames(r.Stack)), in
		}
		if r.Err != nil {
			return checkPositions(r.Err, r.Fset, c.Files), in
		}
	case "buildfile", "buildfsdir":
		defer func() {
			if p := recover(); p != nil {
				v = vk.Bad("build-panics", "x/build %s panicked: %v", c.Entry, p)
			}
		}()
		im, fset := xcl.Importer()
		ctx := build.NewContext(im, fset)
		if c.Entry == "buildfile" {
			for name, src := range c.Files { // single-file packages only
				_, err := ctx.BuildFile("/foo/"+name, src)
				in.clErr = err != nil
			}
		} else {
			var names []string
			data := map[string]string{}
			for n, s := range c.Files {
				names = append(names, n)
				data["/foo/"+n] = s
			}
			_, err := ctx.BuildFSDir(memfs.New(map[string][]string{"/foo": names}, data), "/foo")
			in.clErr = err != nil
		}
		in.parseOK = true
	}
	return nil, in
}

var oracle = vk.Register("compile", func(c Case) *vk.Verdict { v, _ := compile(c); return v })

func TestCompile(t *testing.T) {
	r := vk.R
	r.Rapid(t, 1, 700, 30000, func(t *rapid.T) {
		var p pkggen.Pkg
		if rapid.IntRange(0, 4).Draw(t, "src") == 0 {
			p = pkggen.Corpus(t)
		} else {
			p = pkggen.Base(t)
		}
		switch rapid.IntRange(0, 3).Draw(t, "damage") {
		case 1:
			p.NearMiss(t, 1+rapid.IntRange(0, 1).Draw(t, "n"))
		case 2:
			p.Break(t)
		case 3:
			p.NearMiss(t, 1)
			p.Break(t)
		}
		entry := "cl"
		switch rapid.IntRange(0, 5).Draw(t, "entry") {
		case 0:
			if len(p.Files) == 1 {
				entry = "buildfile"
			}
		case 1:
			entry = "buildfsdir"
		}
		if entry != "cl" {
			// the build helpers are also asked for files and directories they have nothing to compile
			// in: ignored names (leading underscore), unknown or missing extensions, an empty directory
			switch rapid.IntRange(0, 11).Draw(t, "names") {
			case 0, 1, 2, 3:
				files := map[string]string{}
				how := rapid.IntRange(0, 3).Draw(t, "rename")
				for n, src := range p.Files {
					switch how {
					case 0:
						n = "_" + n
					case 1:
						n = strings.TrimSuffix(n, filepath.Ext(n)) + ".txt"
					case 2:
						n = strings.TrimSuffix(n, filepath.Ext(n))
					default:
						n = "gop_autogen_" + strings.TrimSuffix(n, filepath.Ext(n)) + ".go"
					}
					files[n] = src
				}
				p.Files = files
				p.Kind += "+odd-names"
			case 4:
				if entry == "buildfsdir" {
					p.Files = map[string]string{}
					p.Kind = "empty-directory"
				}
			}
		}
		c := Case{Files: p.Files, Entry: entry}
		if r.HasKnown(sizeofRecursive) && usesSizeof(p.Files) {
			// listed finding: unsafe.Sizeof of an invalid recursive type overflows the stack inside
			// go/types; a process that dies cannot go on, so such packages are left out (counted)
			r.Excluded(sizeofRecursive)
			return
		}
		var in info
		v := r.Guard("compile", c, 30*time.Second, func() *vk.Verdict {
			vv, i := compile(c)
			in = i
			return vv
		})
		r.Case((in.parseOK && in.clErr) || in.partial, entry+p.Key())
		r.Class("base=" + p.Kind)
		r.Class("entry=" + entry)
		switch {
		case in.partial:
			r.Class("outcome=partial-ast-compiled")
		case !in.parseOK:
			r.Class("outcome=no-package-parsed")
		case in.clErr:
			r.Class("outcome=cl-errors")
		default:
			r.Class("outcome=compiled")
		}
		if in.partial && len(p.Ops) > 0 {
			r.Sample(map[string]any{"base": p.Kind, "ops": p.Ops, "entry": entry})
		}
		if os.Getenv("VK_DISCOVER") != "" {
			if v != nil {
				fmt.Printf("DISCOVER %s | %s\n", v.Class, strings.SplitN(v.Detail, "\n", 2)[0])
			}
			if v = r.Judge(v); v != nil {
				r.Class("would-fail:" + v.Class)
				r.Fail("compile", c, v)
			}
			return
		}
		r.Check(t, "compile", c, v)
	})
	_ = fmt.Sprint
}

// repoFrames keeps the frames of the repository under test (the interesting part of a stack).
func repoFrames(stack string) string {
	var out []string
	lines := strings.Split(stack, "\n")
	for i := 0; i+1 < len(lines); i++ {
		if strings.Contains(lines[i], "github.com/goplus/") && !strings.Contains(lines[i], "verif/") {
			out = append(out, strings.TrimSpace(lines[i])+" "+strings.TrimSpace(lines[i+1]))
		}
		if len(out) >= 8 {
			break
		}
	}
	return strings.Join(out, "\n")
}

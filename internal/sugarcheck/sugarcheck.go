// Package sugarcheck is the shared harness of the XGo-sugar properties (C02–C05, C10, C11): it
// draws xsugar programs, compiles the XGo rendering with cl, builds and runs it next to the Go
// rendering (the documented expansion) and compares the output item by item.
package sugarcheck

import (
	"fmt"
	"regexp"
	"strings"
	"testing"

	"pgregory.net/rapid"

	"verif/internal/diffrun"
	"verif/internal/gen/xsugar"
	"verif/internal/vk"
	"verif/internal/xcl"
)

// Case is the replayable form: both renderings, complete.
type Case struct {
	XGo string `json:"xgo"`
	Go  string `json:"go"`
}

// Options configure one run.
type Options struct {
	Name            string                            // oracle name
	Program         func(g *xsugar.G) *xsugar.Program // draws one program
	Quick, Thorough int                               // number of programs
	Known           func(it xsugar.Item) string       // class of a known finding this item belongs to ("" = none): item is not generated
	Documented      func(it xsugar.Item) bool         // true if the docs show exactly this shape: cl rejecting it is a violation
	Oracle          func(Case) *vk.Verdict            // the oracle registered with NewOracle at package init
}

var headerRe = regexp.MustCompile(`(?m)^item (\d+) (\S+)$`)

// splitItems cuts stdout into per-item chunks keyed by header line.
func splitItems(out string) (heads []string, chunks []string) {
	locs := headerRe.FindAllStringIndex(out, -1)
	for i, l := range locs {
		end := len(out)
		if i+1 < len(locs) {
			end = locs[i+1][0]
		}
		heads = append(heads, out[l[0]:l[1]])
		chunks = append(chunks, out[l[0]:end])
	}
	return
}

// blame refines a stdout/exit/panic disagreement to the first item whose output differs.
func blame(o diffrun.Out) *vk.Verdict {
	v := o.V
	if v == nil {
		return nil
	}
	switch v.Class {
	case "stdout-differs", "exit-differs", "panic-differs":
	default:
		return v
	}
	rh, rc := splitItems(o.Ref.Stdout)
	xh, xc := splitItems(o.X.Stdout)
	for i := 0; i < len(rh); i++ {
		kind := strings.Fields(rh[i])[2]
		if i >= len(xh) || xh[i] != rh[i] {
			prev := kind
			if i > 0 {
				prev = strings.Fields(rh[i-1])[2]
			}
			return vk.Bad("aborts:"+prev, "XGo program stopped before %q; reference continues. xgo exit=%d panic=%q", rh[i], o.X.Exit, o.X.Panic)
		}
		if rc[i] != xc[i] {
			return vk.Bad("differs:"+kind, "%s: reference prints\n%s\nxgo prints\n%s", rh[i], rc[i], xc[i])
		}
	}
	if len(rh) > 0 && v.Class != "stdout-differs" {
		kind := strings.Fields(rh[len(rh)-1])[2]
		return vk.Bad(v.Class+":"+kind, "%s", v.Detail)
	}
	return v
}

// Refine maps a compile-time rejection to a more specific verdict class from the offending source
// line and the error text ("" = keep the default class).
type Refine func(srcLine, errText string) string

func srcLine(src string, n int) string {
	lines := strings.Split(src, "\n")
	if n >= 1 && n <= len(lines) {
		return lines[n-1]
	}
	return ""
}

func refineReject(o diffrun.Out, xgo string, refine Refine) *vk.Verdict {
	v := o.V
	if v == nil || (v.Class != "cl-rejects" && v.Class != "xgo-parser-rejects" && v.Class != "cl-panics") || o.ClErr == nil {
		return v
	}
	if refine != nil {
		if cls := refine(srcLine(xgo, o.ClErrPos), o.ClErr.Error()); cls != "" {
			return &vk.Verdict{Class: cls, Detail: v.Detail}
		}
	}
	// default: one class per item kind
	if idx := itemAtLine(xgo, o.ClErrPos); idx >= 0 {
		if m := regexp.MustCompile(fmt.Sprintf(`"item %d (\S+)"`, idx)).FindStringSubmatch(xgo); m != nil {
			return &vk.Verdict{Class: v.Class + ":" + m[1], Detail: v.Detail}
		}
	}
	return v
}

// NewOracle registers the replay oracle of a sugar check (call it from a package-level var).
func NewOracle(name string, refine Refine) func(Case) *vk.Verdict {
	return vk.Register(name, func(c Case) *vk.Verdict {
		outs, err := diffrun.Eval([]diffrun.Pair{{Ref: c.Go, XFiles: map[string]string{"bar.xgo": c.XGo}}})
		if err != nil {
			return vk.Bad("infra", "%v", err)
		}
		return blame(diffrun.Out{V: refineReject(outs[0], c.XGo, refine), Ref: outs[0].Ref, X: outs[0].X})
	})
}

// itemAtLine maps a line of the rendered XGo file to an item index (-1 = not inside an item).
func itemAtLine(src string, line int) int {
	cur := -1
	for i, l := range strings.Split(src, "\n") {
		if strings.HasPrefix(l, "// @item ") {
			fmt.Sscanf(l, "// @item %d", &cur)
		} else if strings.HasPrefix(l, "func main()") {
			cur = -1
		}
		if i+1 == line {
			return cur
		}
	}
	return -1
}

var msgNorm = regexp.MustCompile(`[0-9]+|"[^"]*"|\b[vikg][0-9]+\b`)

func rejectClass(kind string, err error) string {
	m := err.Error()
	if i := strings.Index(m, ": "); i >= 0 && i < 40 {
		m = m[i+2:]
	}
	if i := strings.IndexByte(m, '\n'); i >= 0 {
		m = m[:i]
	}
	m = msgNorm.ReplaceAllString(m, "#")
	if len(m) > 70 {
		m = m[:70]
	}
	return kind + ": " + m
}

// Run executes the generated tier: programs are drawn through rapid's seeded example API.
func Run(t *testing.T, r *vk.Rec, opt Options) {
	n := r.N(opt.Quick, opt.Thorough)
	gen := rapid.Custom(func(t *rapid.T) *xsugar.Program {
		return opt.Program(&xsugar.G{T: t, Flags: map[string]bool{}})
	})
	var progs []*xsugar.Program
	for i := 0; i < n; i++ {
		progs = append(progs, vk.Example(r, gen, 1, i))
	}
	RunPrograms(t, r, opt, progs)
}

// RunPrograms evaluates the given programs (batches of 40, one go build each) and stops after
// the first batch with a violation.
func RunPrograms(t *testing.T, r *vk.Rec, opt Options, all []*xsugar.Program) {
	oracle := opt.Oracle
	if oracle == nil {
		t.Fatalf("sugarcheck: Options.Oracle is nil (register it with NewOracle at package level)")
	}
	n := len(all)
	const batch = 40
	failed := false
	for start := 0; start < n && !failed; start += batch {
		end := start + batch
		if end > n {
			end = n
		}
		var progs []*xsugar.Program
		var pairs []diffrun.Pair
		for i := start; i < end; i++ {
			p := all[i]
			// drop items of known-finding classes, and items cl rejects
			var kept []xsugar.Item
			for _, it := range p.Items {
				if opt.Known != nil {
					if cls := opt.Known(it); cls != "" {
						r.Excluded(cls)
						continue
					}
				}
				kept = append(kept, it)
			}
			p.Items = kept
			for tries := 0; tries < 40 && len(p.Items) > 0; tries++ {
				src := p.XGo()
				_, v, err := diffrun.CompileX(map[string]string{"bar.xgo": src}, xcl.Options{})
				if v == nil {
					break
				}
				idx := itemAtLine(src, diffrun.ErrLine(err))
				if idx < 0 || idx >= len(p.Items) {
					r.Rejected("unattributed: " + rejectClass("?", err))
					p.Items = nil
					break
				}
				it := p.Items[idx]
				if v.Class == "cl-panics" || (opt.Documented != nil && opt.Documented(it)) {
					single := &xsugar.Program{Items: []xsugar.Item{it}, DeclsX: p.DeclsX, DeclsG: p.DeclsG}
					c := Case{XGo: single.XGo(), Go: single.Go()}
					vv := oracle(c)
					if vv == nil {
						vv, c = v, Case{XGo: src, Go: p.Go()}
					}
					if r.Judge(vv) != nil {
						r.Fail(opt.Name, c, vv)
						t.Errorf("%s", vv)
						failed = true
					}
				} else {
					r.Rejected(rejectClass(it.Kind, err))
				}
				p.Items = append(p.Items[:idx:idx], p.Items[idx+1:]...)
			}
			if len(p.Items) == 0 {
				r.Case(false, "")
				continue
			}
			progs = append(progs, p)
			pairs = append(pairs, diffrun.Pair{Ref: p.Go(), XFiles: map[string]string{"bar.xgo": p.XGo()}})
		}
		outs, err := diffrun.Eval(pairs)
		if err != nil {
			r.Infra("batch %d: %v", start, err)
			t.Fatalf("infra: %v", err)
		}
		for i, o := range outs {
			p := progs[i]
			for _, it := range p.Items {
				r.Case(it.NonTrivial, it.Key)
				r.Class("kind=" + it.Kind)
				for _, l := range it.Labels {
					r.Class(it.Kind + ":" + l)
				}
			}
			if i == 0 {
				it := p.Items[0]
				r.Sample(map[string]string{"kind": it.Kind, "xgo": it.X, "go": it.G})
			}
			v := blame(o)
			if v == nil {
				continue
			}
			if v.Class == "generator-bug" {
				r.Infra("generator bug: %s\n%s", v.Detail, pairs[i].Ref)
				t.Errorf("generator bug: %s", v.Detail)
				continue
			}
			if r.Judge(v) == nil {
				continue
			}
			failed = true
			c := Case{XGo: pairs[i].XFiles["bar.xgo"], Go: pairs[i].Ref}
			// reduce to the single blamed item when it fails alone
			if m := regexp.MustCompile(`item (\d+) `).FindStringSubmatch(v.Detail); m != nil {
				var idx int
				fmt.Sscan(m[1], &idx)
				if idx >= 0 && idx < len(p.Items) {
					single := &xsugar.Program{Items: []xsugar.Item{p.Items[idx]}, DeclsX: p.DeclsX, DeclsG: p.DeclsG}
					c2 := Case{XGo: single.XGo(), Go: single.Go()}
					if v2 := oracle(c2); v2 != nil && v2.Class == v.Class {
						c, v = c2, v2
					}
				}
			}
			r.Fail(opt.Name, c, v)
			t.Errorf("%s", v)
		}
	}
}

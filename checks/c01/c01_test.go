//go:build verif

// C01 — a valid Go program means the same thing when compiled as XGo.
package c01

import (
	"fmt"
	goast "go/ast"
	goparser "go/parser"
	gotoken "go/token"
	"sort"
	"strings"
	"testing"
	"time"

	"verif/internal/gen/gosub"
	"verif/internal/progrun"
	"verif/internal/vk"
	"verif/internal/xcl"
)

func TestMain(m *testing.M) {
	vk.Main(m, "C01", "exploration",
		"programs from the typed gosub generator (structs with embedding, methods with value/pointer receivers, an interface, closures, defer/recover, labelled loops, goto, switch/fallthrough/type switch, maps via sorted keys, slices/arrays, constants/iota, init(), os.Exit and uncaught panics); each program text is built by the Go toolchain and, compiled as bar.xgo by cl.NewPackage, built again; oracle: equal stdout, exit status and panic paragraph. Non-trivial = at least 3 functions or methods, a loop, a closure or method call and at least 3 output lines; distinct = hash of the source text")
}

type Case struct {
	Src string `json:"src"`
}

// compileX compiles src as /foo/bar.xgo and returns the generated Go text.
func compileX(src string) (string, *vk.Verdict) {
	r := xcl.Compile(map[string]string{"bar.xgo": src}, xcl.Options{})
	if r.Panic != nil {
		return "", vk.Bad("cl-panics", "compiling the program as XGo panicked: %v", r.Panic)
	}
	if r.ParseErr != nil {
		return "", vk.Bad("xgo-parser-rejects", "XGo parser rejects a valid Go program: %v", r.ParseErr)
	}
	if r.Err != nil {
		return "", vk.Bad(xcl.RejectClass(r.Err), "XGo compiler rejects a valid Go program: %v", r.Err)
	}
	return string(r.Go), nil
}

func judge(ref, x progrun.Result) *vk.Verdict {
	if ref.BuildErr != "" {
		return vk.Bad("generator-bug", "the Go toolchain rejects the reference program: %s", ref.BuildErr)
	}
	if x.BuildErr != "" {
		return vk.Bad("xgo-output-does-not-build", "go build rejects the XGo compiler's output: %s", x.BuildErr)
	}
	if ref.TimedOut {
		return vk.Bad("generator-bug", "reference program timed out")
	}
	if x.TimedOut {
		return vk.Bad("xgo-build-hangs", "XGo-compiled program did not finish (reference did)")
	}
	if ref.Stdout != x.Stdout {
		return vk.Bad("stdout-differs", "%s", progrun.FirstDiff(ref.Stdout, x.Stdout))
	}
	if ref.Exit != x.Exit {
		return vk.Bad("exit-differs", "exit status: reference %d, xgo %d (stderr %q)", ref.Exit, x.Exit, x.Stderr)
	}
	if ref.Panic != x.Panic {
		return vk.Bad("panic-differs", "panic paragraph: reference %q, xgo %q", ref.Panic, x.Panic)
	}
	return nil
}

// evalBatch evaluates many programs with one go build. Returns a verdict per index (nil = ok).
func evalBatch(srcs []string) ([]*vk.Verdict, []progrun.Result, error) {
	verdicts := make([]*vk.Verdict, len(srcs))
	refs := make([]progrun.Result, len(srcs))
	gotexts := make([]string, len(srcs))
	var progs []progrun.Prog
	for i, src := range srcs {
		gosrc, v := compileX(src)
		gotexts[i] = gosrc
		progs = append(progs, progrun.Prog{Name: fmt.Sprintf("r%04d", i), Files: map[string]string{"main.go": src}})
		if v != nil {
			verdicts[i] = v
			continue
		}
		progs = append(progs, progrun.Prog{Name: fmt.Sprintf("x%04d", i), Files: map[string]string{"main.go": gosrc}})
	}
	res, err := progrun.Run(progs, 10*time.Second)
	if err != nil {
		return nil, nil, err
	}
	for i := range srcs {
		ref := res[fmt.Sprintf("r%04d", i)]
		refs[i] = ref
		if verdicts[i] != nil {
			if ref.BuildErr != "" { // Go rejects it too: generator bug, not a finding
				verdicts[i] = vk.Bad("generator-bug", "the Go toolchain rejects the reference program: %s", ref.BuildErr)
			}
			continue
		}
		verdicts[i] = refineOrder(judge(ref, res[fmt.Sprintf("x%04d", i)]), srcs[i], gotexts[i])
		if a, b := varOrder(srcs[i]), varOrder(gotexts[i]); len(a) == len(b) && strings.Join(a, ",") != strings.Join(b, ",") {
			reordered[srcs[i]] = true
		}
	}
	return verdicts, refs, nil
}

// reordered: programs whose package-level variables are emitted in another order than declared (a
// run-time difference of such a program is filed under the listed finding, so they are counted)
var reordered = map[string]bool{}

var oracle = vk.Register("prog", func(c Case) *vk.Verdict {
	vs, _, err := evalBatch([]string{c.Src})
	if err != nil {
		return vk.Bad("infra", "%v", err)
	}
	return vs[0]
})

// varOrder lists the package-level variable names of a Go file in declaration order.
func varOrder(src string) []string {
	f, err := goparser.ParseFile(gotoken.NewFileSet(), "x.go", src, goparser.SkipObjectResolution)
	if err != nil {
		return nil
	}
	var out []string
	for _, d := range f.Decls {
		if gd, ok := d.(*goast.GenDecl); ok && gd.Tok == gotoken.VAR {
			for _, sp := range gd.Specs {
				for _, n := range sp.(*goast.ValueSpec).Names {
					if n.Name != "_" {
						out = append(out, n.Name)
					}
				}
			}
		}
	}
	return out
}

// refineOrder names one known root cause: the compiler emits package-level variables in the
// order in which they are first referenced, not in declaration order, which changes the order in
// which Go runs their initialisers. It applies only when the emitted order really differs.
func refineOrder(v *vk.Verdict, src, gotext string) *vk.Verdict {
	if v == nil || (v.Class != "stdout-differs" && v.Class != "panic-differs" && v.Class != "exit-differs") {
		return v
	}
	if xcl.HasConstRuneString(src) {
		return &vk.Verdict{Class: "const-string-of-rune-folded-wrong", Detail: v.Class + ": " + v.Detail}
	}
	a, b := varOrder(src), varOrder(gotext)
	if len(a) == len(b) && strings.Join(a, ",") != strings.Join(b, ",") {
		return &vk.Verdict{Class: "package-var-emitted-out-of-order", Detail: fmt.Sprintf("declared %v, emitted %v; %s", a, b, v.Detail)}
	}
	return v
}

// reduce shrinks a failing program: units (declarations and main statements) are removed while
// the program still builds with Go and fails with the same verdict class.
func reduce(p *gosub.Program, class string) *gosub.Program {
	cur := &gosub.Program{Decls: append([]string(nil), p.Decls...), Main: append([]string(nil), p.Main...), AfterMain: p.AfterMain}
	without := func(q *gosub.Program, drop map[int]bool) *gosub.Program {
		r := &gosub.Program{AfterMain: q.AfterMain}
		for i, d := range q.Decls {
			if !drop[i] {
				r.Decls = append(r.Decls, d)
			}
		}
		for i, s := range q.Main {
			if !drop[len(q.Decls)+i] {
				r.Main = append(r.Main, s)
			}
		}
		return r
	}
	for round := 0; round < 3; round++ {
		n := len(cur.Decls) + len(cur.Main)
		var cands []*gosub.Program
		var idx []int
		for i := 1; i < n; i++ { // unit 0 = helpers, always kept
			cands = append(cands, without(cur, map[int]bool{i: true}))
			idx = append(idx, i)
		}
		if len(cands) == 0 {
			break
		}
		srcs := make([]string, len(cands))
		for i, c := range cands {
			srcs[i] = c.Source()
		}
		vs, _, err := evalBatch(srcs)
		if err != nil {
			break
		}
		var removable []int
		for i, v := range vs {
			if v != nil && v.Class == class {
				removable = append(removable, idx[i])
			}
		}
		if len(removable) == 0 {
			break
		}
		// cumulative prefixes of the removable set, all in one batch; keep the longest that still fails
		var pre []*gosub.Program
		for j := 1; j <= len(removable); j++ {
			drop := map[int]bool{}
			for _, k := range removable[:j] {
				drop[k] = true
			}
			pre = append(pre, without(cur, drop))
		}
		srcs = srcs[:0]
		for _, c := range pre {
			srcs = append(srcs, c.Source())
		}
		vs, _, err = evalBatch(srcs)
		if err != nil {
			break
		}
		best := -1
		for j, v := range vs {
			if v != nil && v.Class == class {
				best = j
			}
		}
		if best < 0 {
			break
		}
		cur = pre[best]
	}
	return cur
}

func nonTrivial(p *gosub.Program, out string) bool {
	fns := 0
	for _, d := range p.Decls {
		if strings.HasPrefix(d, "func ") {
			fns++
		}
	}
	loops := p.Feat["for3"] + p.Feat["range"] + p.Feat["forcond"]
	calls := p.Feat["closure"] + p.Feat["closure-mutating"] + p.Feat["methodcall"] + p.Feat["methodstmt"] + p.Feat["call"]
	return fns >= 3 && loops >= 1 && calls >= 1 && strings.Count(out, "\n") >= 3
}

func TestPrograms(t *testing.T) {
	r := vk.R
	r.Assume("Go toolchain (go1.23.5) and fmt are the reference semantics")
	n := r.N(72, 960)
	g := gosub.Gen()
	const batch = 36
	reduced := map[string]bool{}
	failed := false
	for start := 0; start < n && !failed; start += batch {
		end := start + batch
		if end > n {
			end = n
		}
		var ps []*gosub.Program
		var srcs []string
		for i := start; i < end; i++ {
			p := vk.Example(r, g, 1, i)
			ps = append(ps, p)
			srcs = append(srcs, p.Source())
		}
		vs, refs, err := evalBatch(srcs)
		if err != nil {
			r.Infra("batch %d: %v", start, err)
			t.Fatalf("infra: %v", err)
		}
		for i, v := range vs {
			p := ps[i]
			r.Case(nonTrivial(p, refs[i].Stdout), srcs[i])
			var feats []string
			for k := range p.Feat {
				feats = append(feats, k)
			}
			sort.Strings(feats)
			for _, k := range feats {
				r.Class("uses:" + k)
			}
			if refs[i].Exit != 0 {
				r.Class("outcome:nonzero-exit")
			}
			if reordered[srcs[i]] {
				r.Class("covered-by-known:package-var-emitted-out-of-order")
			}
			if refs[i].Panic != "" {
				r.Class("outcome:uncaught-panic")
			}
			if i == 0 && start == 0 {
				r.Sample(srcs[i])
			}
			if v == nil {
				continue
			}
			if v.Class == "generator-bug" {
				r.Infra("generator bug (program %d): %s", start+i, v.Detail)
				t.Errorf("generator bug: %s", v.Detail)
				continue
			}
			if r.Judge(v) == nil {
				continue
			}
			failed = true // finish this batch, then stop: the first failures are what gets reported
			c := Case{Src: srcs[i]}
			if !reduced[v.Class] {
				reduced[v.Class] = true
				small := reduce(p, v.Class)
				c2 := Case{Src: small.Source()}
				if v2 := oracle(c2); v2 != nil && v2.Class == v.Class {
					v, c = v2, c2
				}
			}
			r.Fail("prog", c, v)
			t.Errorf("program %d: %s", start+i, v)
		}
	}
}

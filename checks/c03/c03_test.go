//go:build verif

// C03 — error-wrapping operators !, ? and ?: behave as documented.
package c03

import (
	"regexp"
	"strings"
	"testing"

	"verif/internal/gen/xsugar"
	"verif/internal/sugarcheck"
	"verif/internal/vk"
)

func TestMain(m *testing.M) {
	vk.Main(m, "C03", "exploration",
		"programs of 10 items; each item is a generated function using one of expr!, expr?, expr?:d on 1-3 wrapped calls (functions and a method returning error / (int|string|[]int|struct, error) / (int, string, error), each call tracing itself) in statement, define, assignment, argument and operand positions, two wraps in one statement, error and non-error outcomes; rendered as XGo and as the documented Go expansion (v, err := f(); if err != nil { panic(err) / return zero..., err / use d }); oracle: equal state, enclosing function results (zero values + errors.Is on the sentinel), recovered panic kind, and call trace. Non-trivial = an error outcome is taken or >= 2 wraps; distinct = item text")
}

var multiQ = regexp.MustCompile(`^\s*\w+, \w+ :?= .*\)\?$`)

// refine names the one known rejection (two values + error through expr?) so that it can be listed
// as a known finding without hiding any other rejection.
func refine(line, errText string) string {
	if strings.Contains(errText, "assignment mismatch: 2 variables but 1 values") && multiQ.MatchString(line) {
		return "cl-rejects:multi-value-question"
	}
	return ""
}

var oracle = sugarcheck.NewOracle("pair", refine)

func TestErrWrap(t *testing.T) {
	sugarcheck.Run(t, vk.R, sugarcheck.Options{
		Name:    "pair",
		Oracle:  oracle,
		Program: func(g *xsugar.G) *xsugar.Program { return xsugar.ErrWrapProgram(g, 10) },
		// every generated use is an instance of "expr! / expr? / expr?:d on a call returning
		// (values..., error)": a compile-time rejection means the operator is not usable there.
		Documented: func(xsugar.Item) bool { return true },
		Known: func(it xsugar.Item) string {
			if it.Kind != "errwrapQ" || !vk.R.HasKnown("cl-rejects:multi-value-question") {
				return ""
			}
			for _, l := range it.Labels {
				if l == "multi-value" {
					return "cl-rejects:multi-value-question"
				}
			}
			return ""
		},
		Quick:    40,
		Thorough: 800,
	})
}

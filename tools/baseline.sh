#!/bin/bash
# Runs the pinned suite of /repo (guard OFF: no -tags verif) and compares with BASELINE.json stable_pass.
# usage: tools/baseline.sh [repo-dir]     exit 0 iff every stable_pass test passed.
REPO="${1:-/repo}"
export GOPROXY=off GOSUMDB=off GOTOOLCHAIN=local GOFLAGS=
OUT=$(mktemp /tmp/baseline-XXXXXX.json)
(cd "$REPO" && go test -mod=mod -json -vet=off -count=1 -timeout ${TIMEOUT:-25m} ./... ) >"$OUT" 2>/dev/null
python3 - "$OUT" <<'PY'
import json,sys
passed=set(); failed=set()
for l in open(sys.argv[1]):
    try: e=json.loads(l)
    except: continue
    if e.get('Test') and e.get('Action') in('pass','fail'):
        k=e['Package']+'::'+e['Test']
        (passed if e['Action']=='pass' else failed).add(k)
base=set(json.load(open('/root/.vp/BASELINE.json'))['stable_pass'])
missing=sorted(base-passed)
print("baseline: %d stable_pass, %d passed now, %d missing, %d failed"%(len(base),len(passed),len(missing),len(failed)))
for m in missing[:40]: print("  MISSING",m)
for m in sorted(failed)[:40]: print("  FAILED",m)
sys.exit(1 if missing else 0)
PY
rc=$?
rm -f "$OUT"
(cd "$REPO" && git status --short | head -5)
exit $rc

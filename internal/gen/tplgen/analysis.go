package tplgen

import (
	"sort"
	"strconv"
	"strings"

	"github.com/goplus/xgo/tpl/ast"
	"github.com/goplus/xgo/tpl/token"
)

// ---- static analysis of a grammar (C28: which grammars can fail to terminate; C29: where
// ordered choice and the implementation's committed choice coincide) --------------------------
//
// "Nullable" means: can succeed without consuming a token. It is a may-analysis written from
// tpl/README.md: "" and SPACE consume nothing, ?R and *R may match nothing, +R is nullable
// iff R is, a sequence iff every item is, a choice iff some option is, R1 % R2 iff R1 is,
// R1 ++ R2 never (both sides must consume). A rule is nullable iff its expression is.

// Analysis is the result of Analyze.
type Analysis struct {
	Rules     map[string]ast.Expr // first definition of every rule
	Nullable  map[string]bool     // rule name -> nullable
	Reachable map[string]bool     // rules reachable from the first rule (including it)

	// NullableRepBody: a reachable *R or +R whose R is nullable, or R1 % R2 with R1 and R2
	// both nullable (its hidden repetition *(R2 R1) has a nullable body). Such a repetition
	// can succeed without consuming, i.e. loop.
	NullableRepBody bool
	RepBodies       []string // S-expressions of the offending repetitions

	// Left recursion among reachable rules: rule r is left-recursive when r can call itself
	// before consuming a token. Direct = r's own expression has r in left position; Indirect =
	// only through other rules; Hidden = some step of the cycle is reached only by skipping a
	// nullable prefix (e.g. r = ?A r B).
	LeftRecursive   []string // sorted names of left-recursive reachable rules
	LeftRecDirect   bool
	LeftRecIndirect bool
	LeftRecHidden   bool

	// TopChoice: the expression of some left-recursive rule is a Choice (the only place where
	// the compiler computes First sets, hence the only left recursion it can reject).
	LeftRecUnderChoice bool
}

// Terminating reports that neither danger is present: every match of the grammar terminates
// (each repetition iteration and each left-position rule call consumes input).
func (a *Analysis) Terminating() bool {
	return !a.NullableRepBody && len(a.LeftRecursive) == 0
}

// Labels returns the evidence labels of the grammar.
func (a *Analysis) Labels() []string {
	var out []string
	if a.NullableRepBody {
		out = append(out, "has-nullable-repetition-body")
	}
	if a.LeftRecDirect {
		out = append(out, "left-recursive-direct")
	}
	if a.LeftRecIndirect {
		out = append(out, "left-recursive-indirect")
	}
	if a.LeftRecHidden {
		out = append(out, "left-recursive-hidden-behind-nullable-prefix")
	}
	if len(out) == 0 {
		out = append(out, "terminating")
	}
	return out
}

var classTokens = map[string]token.Token{"EOF": token.EOF, "COMMENT": token.COMMENT, "IDENT": token.IDENT, "INT": token.INT,
	"FLOAT": token.FLOAT, "IMAG": token.IMAG, "CHAR": token.CHAR, "STRING": token.STRING, "RAT": token.RAT, "UNIT": token.UNIT,
	"LPAREN": token.LPAREN, "RPAREN": token.RPAREN, "LBRACK": token.LBRACK, "RBRACK": token.RBRACK, "LBRACE": token.LBRACE, "RBRACE": token.RBRACE}

// ClassToken returns the token class an identifier denotes when it is not a rule name.
func ClassToken(name string) (token.Token, bool) {
	t, ok := classTokens[name]
	return t, ok
}

// LitValue returns the value a literal spelling denotes ("" for the empty string literal); ok
// is false for spellings that are not valid Go literals.
func LitValue(l *ast.BasicLit) (v string, ok bool) {
	if l.Kind == token.CHAR {
		if len(l.Value) < 3 {
			return "", false
		}
		r, _, tail, err := strconv.UnquoteChar(l.Value[1:len(l.Value)-1], '\'')
		if err != nil || tail != "" || r > 0xff {
			return "", false
		}
		return string([]byte{byte(r)}), true
	}
	s, err := strconv.Unquote(l.Value)
	return s, err == nil
}

// IsKeywordLit reports whether a literal value is matched as an identifier spelled v.
func IsKeywordLit(v string) bool {
	if v == "" {
		return false
	}
	c := v[0]
	return c >= 'a' && c <= 'z' || c >= 'A' && c <= 'Z' || c == '_'
}

// Analyze computes the analysis of g. Identifiers resolve to rules first, then to token
// classes and SPACE, like the compiler does; undefined identifiers count as non-nullable
// terminals (such grammars do not compile anyway).
func Analyze(g Grammar) *Analysis {
	a := &Analysis{Rules: map[string]ast.Expr{}, Nullable: map[string]bool{}, Reachable: map[string]bool{}}
	var order []string
	for _, r := range g.Rules {
		if _, dup := a.Rules[r.Name]; !dup {
			a.Rules[r.Name] = r.Expr
			order = append(order, r.Name)
		}
	}
	if len(order) == 0 {
		return a
	}
	// nullable: least fixpoint
	for changed := true; changed; {
		changed = false
		for _, name := range order {
			if !a.Nullable[name] && a.NullableExpr(a.Rules[name]) {
				a.Nullable[name] = true
				changed = true
			}
		}
	}
	// reachability
	var reach func(string)
	reach = func(name string) {
		if a.Reachable[name] {
			return
		}
		a.Reachable[name] = true
		Walk(a.Rules[name], func(e ast.Expr) {
			if id, ok := e.(*ast.Ident); ok {
				if _, isRule := a.Rules[id.Name]; isRule {
					reach(id.Name)
				}
			}
		})
	}
	reach(order[0])
	// nullable repetition bodies
	for _, name := range order {
		if !a.Reachable[name] {
			continue
		}
		Walk(a.Rules[name], func(e ast.Expr) {
			switch e := e.(type) {
			case *ast.UnaryExpr:
				if (e.Op == token.MUL || e.Op == token.ADD) && a.NullableExpr(e.X) {
					a.NullableRepBody = true
					a.RepBodies = append(a.RepBodies, Sexpr(e))
				}
			case *ast.BinaryExpr:
				if e.Op == token.REM && a.NullableExpr(e.X) && a.NullableExpr(e.Y) {
					a.NullableRepBody = true
					a.RepBodies = append(a.RepBodies, Sexpr(e))
				}
			}
		})
	}
	// left-call graph: edge[r][s] = hidden (true when s is only reached behind a nullable prefix)
	edge := map[string]map[string]bool{}
	for _, name := range order {
		if !a.Reachable[name] {
			continue
		}
		m := map[string]bool{}
		a.leftRefs(a.Rules[name], false, m)
		edge[name] = m
	}
	for _, name := range order {
		if !a.Reachable[name] {
			continue
		}
		// breadth-first search for the shortest left-call cycle through name
		type st struct {
			at     string
			hidden bool
			steps  int
		}
		seen := map[string]bool{}
		queue := []st{{name, false, 0}}
		found := false
		for len(queue) > 0 && !found {
			cur := queue[0]
			queue = queue[1:]
			succ := make([]string, 0, len(edge[cur.at]))
			for s := range edge[cur.at] {
				succ = append(succ, s)
			}
			sort.Strings(succ)
			for _, s := range succ {
				h := cur.hidden || edge[cur.at][s]
				if s == name {
					found = true
					a.LeftRecursive = append(a.LeftRecursive, name)
					if cur.steps == 0 {
						a.LeftRecDirect = true
					} else {
						a.LeftRecIndirect = true
					}
					if h {
						a.LeftRecHidden = true
					}
					if _, ok := a.Rules[name].(*ast.Choice); ok {
						a.LeftRecUnderChoice = true
					}
					break
				}
				if !seen[s] {
					seen[s] = true
					queue = append(queue, st{s, h, cur.steps + 1})
				}
			}
		}
	}
	sort.Strings(a.LeftRecursive)
	return a
}

// NullableExpr reports whether e may succeed without consuming (uses the rule table of a).
func (a *Analysis) NullableExpr(e ast.Expr) bool {
	switch e := e.(type) {
	case *ast.Ident:
		if _, isRule := a.Rules[e.Name]; isRule {
			return a.Nullable[e.Name]
		}
		return e.Name == "SPACE"
	case *ast.BasicLit:
		v, ok := LitValue(e)
		return ok && v == ""
	case *ast.Sequence:
		for _, x := range e.Items {
			if !a.NullableExpr(x) {
				return false
			}
		}
		return true
	case *ast.Choice:
		for _, x := range e.Options {
			if a.NullableExpr(x) {
				return true
			}
		}
		return false
	case *ast.UnaryExpr:
		if e.Op == token.ADD {
			return a.NullableExpr(e.X)
		}
		return true
	case *ast.BinaryExpr:
		if e.Op == token.REM {
			return a.NullableExpr(e.X)
		}
		return false
	}
	return false
}

// leftRefs collects the rules e can call before consuming a token.
func (a *Analysis) leftRefs(e ast.Expr, hidden bool, out map[string]bool) {
	add := func(name string) {
		if old, ok := out[name]; !ok || (old && !hidden) {
			out[name] = hidden
		}
	}
	switch e := e.(type) {
	case *ast.Ident:
		if _, isRule := a.Rules[e.Name]; isRule {
			add(e.Name)
		}
	case *ast.Sequence:
		for i, x := range e.Items {
			a.leftRefs(x, hidden || i > 0, out)
			if !a.NullableExpr(x) {
				break
			}
		}
	case *ast.Choice:
		for _, x := range e.Options {
			a.leftRefs(x, hidden, out)
		}
	case *ast.UnaryExpr:
		a.leftRefs(e.X, hidden, out)
	case *ast.BinaryExpr:
		a.leftRefs(e.X, hidden, out)
		if e.Op == token.REM && a.NullableExpr(e.X) {
			a.leftRefs(e.Y, true, out)
		}
	}
}

// ---- first sets and strictness (C29) ---------------------------------------------------------

// FirstSet returns the terminals e can start with, as strings: "class:INT", "kw:if", "op:+",
// following rule references and skipping nullable prefixes (non left-recursive grammars only).
func (a *Analysis) FirstSet(e ast.Expr) map[string]bool {
	out := map[string]bool{}
	a.first(e, out, map[string]bool{})
	return out
}

func (a *Analysis) first(e ast.Expr, out map[string]bool, active map[string]bool) {
	switch e := e.(type) {
	case *ast.Ident:
		if x, isRule := a.Rules[e.Name]; isRule {
			if !active[e.Name] {
				active[e.Name] = true
				a.first(x, out, active)
				delete(active, e.Name)
			}
			return
		}
		switch e.Name {
		case "SPACE":
		case "QSTRING", "RAWSTRING":
			out["class:STRING"] = true
		default:
			out["class:"+e.Name] = true
		}
	case *ast.BasicLit:
		if v, ok := LitValue(e); ok && v != "" {
			if IsKeywordLit(v) {
				out["kw:"+v] = true
			} else {
				out["op:"+v] = true
			}
		}
	case *ast.Sequence:
		for _, x := range e.Items {
			a.first(x, out, active)
			if !a.NullableExpr(x) {
				break
			}
		}
	case *ast.Choice:
		for _, x := range e.Options {
			a.first(x, out, active)
		}
	case *ast.UnaryExpr:
		a.first(e.X, out, active)
	case *ast.BinaryExpr:
		a.first(e.X, out, active)
		if e.Op == token.REM && a.NullableExpr(e.X) {
			a.first(e.Y, out, active)
		}
	}
}

// StrictChoice reports whether ordered choice (README) and the implementation's committed
// choice must agree on c: no option after the first is nullable, and no option starts with a
// quoted keyword while a later one starts with the IDENT class (the compiler's conflict test
// does not see that overlap and commits to the keyword option once it consumed the keyword).
func (a *Analysis) StrictChoice(c *ast.Choice) bool {
	firsts := make([]map[string]bool, len(c.Options))
	for i, o := range c.Options {
		if i > 0 && a.NullableExpr(o) {
			return false
		}
		firsts[i] = a.FirstSet(o)
	}
	for i := range firsts {
		kw := false
		for k := range firsts[i] {
			if strings.HasPrefix(k, "kw:") {
				kw = true
			}
		}
		if !kw {
			continue
		}
		for j := i + 1; j < len(firsts); j++ {
			if firsts[j]["class:IDENT"] {
				return false
			}
		}
	}
	return true
}

// StrictExpr reports whether every Choice inside e, and inside every rule e can reach, is a
// StrictChoice: on such expressions the reference interpreter and the implementation must
// agree completely (success, consumption, tree).
func (a *Analysis) StrictExpr(e ast.Expr) bool {
	return a.strict(e, map[string]bool{})
}

func (a *Analysis) strict(e ast.Expr, seen map[string]bool) bool {
	ok := true
	Walk(e, func(x ast.Expr) {
		switch x := x.(type) {
		case *ast.Choice:
			if !a.StrictChoice(x) {
				ok = false
			}
		case *ast.Ident:
			if r, isRule := a.Rules[x.Name]; isRule && !seen[x.Name] {
				seen[x.Name] = true
				if !a.strict(r, seen) {
					ok = false
				}
			}
		}
	})
	return ok
}

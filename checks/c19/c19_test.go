//go:build verif

// C19 — formatting preserves the syntax tree.
package c19

import (
	"encoding/json"
	"fmt"
	"os"
	"regexp"
	"runtime/debug"
	"sort"
	"strings"
	"sync"
	"testing"

	"github.com/goplus/xgo/format"
	"pgregory.net/rapid"

	"verif/internal/astx"
	"verif/internal/gen/fmtin"
	"verif/internal/vk"
)

func TestMain(m *testing.M) {
	vk.Main(m, "C19", "exploration",
		"valid sources: every repository source that parses (verbatim), and drawn variants = base source (corpus file, gosub program, xsugar collection / error-wrap program, xgotext file in normal and class-file mode) optionally followed by an AST mutation (operator swap, wrap in unary/paren/call/index/ErrWrap/selector/slice/star, move into lambda / block lambda / comprehension / range / slice literal / function literal, call <-> command style; printed comment-free with printer.Fprint and kept only if it parses), comments at conventional places (// and # on a line of their own before a statement, declaration, spec or field, // trailing a statement line) and a white-space perturbation (blanks, tabs, line breaks at token boundaries that do not touch a comment; kept only if it parses). Oracle: format.Source succeeds, its output parses, and astx.FormatEqual(parse(src), parse(out)) = equal ignoring positions, comment fields, ParenExpr wrappers, explicit empty statements and the order / duplicates / quoting of import specs. A failing source that shows the shape of a listed finding (fmtin.Shapes) fails under class shape/<name>, any other under its own class; Non-trivial = tree holds an XGo-specific construct (command call, lambda, comprehension, ErrWrap, range, domain text, overload declaration, class field block, ...); distinct = source bytes")
}

type Case struct {
	Src   vk.Bytes `json:"src"`
	Class bool     `json:"class"`
	How   []string `json:"how,omitempty"` // informational: origin, steps, catalogue classes
}

type info struct {
	rejected string
	shapes   []string
	xgo      []string
	edges    map[string]bool
	hash     uint64
}

var idx = regexp.MustCompile(`\[\d+\]`)

// signature turns a FormatEqual path into a stable class: the last two "<Kind>.Field" steps and the
// kind of difference, without indices and values.
func signature(d string) string {
	path, msg, _ := strings.Cut(d, ": ")
	path = idx.ReplaceAllString(path, "")
	parts := strings.Split(path, "<")
	if len(parts) > 1 {
		parts = parts[len(parts)-1:]
	}
	for i, p := range parts {
		if j := strings.Index(p, ">"); j >= 0 {
			parts[i] = p[:j] + p[j+1:]
		}
	}
	kind := msg
	switch {
	case strings.Contains(msg, "nil vs non-nil"), strings.Contains(msg, "one side is nil"):
		kind = "nil-vs-non-nil"
	case strings.HasPrefix(msg, "length"):
		kind = "length"
	case strings.HasPrefix(msg, "imports"):
		kind = "imports"
	case strings.HasPrefix(msg, "*ast."): // another kind of node: the kinds say it all
		return strings.ReplaceAll(strings.ReplaceAll(msg, "*ast.", ""), " ", "")
	case strings.HasPrefix(msg, `"`):
		kind = "string"
	default:
		kind = "value"
	}
	return strings.Join(parts, "/") + ":" + strings.ReplaceAll(kind, " ", "")
}

// cls builds the verdict class: a source that shows the shape of a listed finding (fmtin.Shapes)
// fails as "shape/<shape>" whatever the kind of failure (the first shape that is still listed as
// a known finding of this property: a repaired shape stops covering for anything), any other
// source as "<kind>" or "<kind>:<signature>".
func (in info) cls(kind, sig string) string {
	for _, sh := range in.shapes {
		if vk.R.KnownClass("shape/"+sh) != nil && os.Getenv("FMT_NOKNOWN") == "" {
			return "shape/" + sh
		}
	}
	if sig != "" {
		return kind + ":" + sig
	}
	return kind
}

func check(c Case) (v *vk.Verdict, in info) {
	defer func() {
		if p := recover(); p != nil {
			v = vk.Bad(in.cls("panic", ""), "%v\n%s", p, debug.Stack())
		}
	}()
	f1, fset1, err := fmtin.Parse(c.Src, c.Class)
	if err != nil {
		in.rejected = "input-does-not-parse"
		return nil, in
	}
	xgo, edges := fmtin.Features(f1)
	in.xgo, in.edges = fmtin.Keys(xgo), edges
	in.shapes = fmtin.Shapes(f1, fset1, c.Src)
	out, err := format.Source(c.Src, c.Class)
	if err != nil {
		return vk.Bad(in.cls("format-error", ""), "format.Source fails on a source that parses: %v", err), in
	}
	f2, _, err := fmtin.Parse(out, c.Class)
	if err != nil {
		return vk.Bad(in.cls("output-does-not-parse", ""), "%v\n--- output:\n%s", err, fmtin.Short(string(out), 1500)), in
	}
	if d := astx.FormatEqual(f1, f2); d != "" {
		return vk.Bad(in.cls("tree-differs", signature(d)), "%s\n--- output:\n%s", d, fmtin.Short(string(out), 1500)), in
	}
	return nil, in
}

var oracle = vk.Register("fmt-tree", func(c Case) *vk.Verdict { v, _ := check(c); return v })

type failer interface {
	Fatalf(string, ...any)
	Helper()
}

var (
	survey   = os.Getenv("FMT_SURVEY") != ""
	surveyMu sync.Mutex
	surveyN  = map[string]int{}
)

func run(t failer, c Case, labels ...string) {
	v, in := check(c)
	if in.rejected != "" {
		vk.R.Rejected(in.rejected)
		vk.R.Case(false, "")
		return
	}
	vk.R.Case(len(in.xgo) > 0, string(c.Src))
	// how much of the input space the listed shapes blind: every source that shows one is counted
	if len(in.shapes) > 0 {
		vk.R.Class("shows-listed-shape=yes")
		for _, sh := range in.shapes {
			if vk.R.KnownClass("shape/"+sh) != nil {
				vk.R.Class("covered-by-known-shape=" + sh)
			}
		}
	}
	if len(in.xgo) > 0 && len(c.Src) < 1500 {
		vk.R.Sample(string(c.Src))
	}
	for _, l := range labels {
		vk.R.Class(l)
	}
	for _, x := range in.xgo {
		vk.R.Class("xgo=" + x)
	}
	if survey {
		if v != nil {
			surveyMu.Lock()
			surveyN[v.Class]++
			n := surveyN[v.Class]
			surveyN[v.Class+"|"+strings.Join(c.How[:1], "")+"|"+fmt.Sprint(len(c.How) > 1 && strings.Contains(strings.Join(c.How, " "), " perturb"))]++
			surveyMu.Unlock()
			vk.R.Class("FAIL " + v.Class)
			if n == 1 {
				m := minimise(c, v.Class)
				if dir := os.Getenv("FMT_DUMP"); dir != "" {
					js, _ := json.MarshalIndent(map[string]any{"property": "C19", "test": "fmt-tree", "case": m, "note": v.Class}, "", " ")
					os.WriteFile(dir+"/"+strings.NewReplacer("/", "_", ":", "_").Replace(v.Class)+".json", js, 0o644)
				}
			}
			if n <= 3 {
				m := minimise(c, v.Class)
				mv, _ := check(m)
				fmt.Printf("SURVEY %s\n  how=%v\n  detail=%s\n  min=%q\n", v.Class, c.How, fmtin.Short(strings.ReplaceAll(mv.Detail, "\n", "\\n"), 400), fmtin.Short(string(m.Src), 1200))
			}
		}
		return
	}
	vk.R.Check(t, "fmt-tree", c, v)
}

// minimise removes lines (then single bytes) greedily while the verdict class stays the same.
func minimise(c Case, class string) Case {
	same := func(src []byte) bool {
		v, in := check(Case{Src: src, Class: c.Class})
		return in.rejected == "" && v != nil && v.Class == class
	}
	lines := strings.SplitAfter(string(c.Src), "\n")
	for chunk := len(lines) / 2; chunk >= 1; chunk /= 2 {
		for i := 0; i+chunk <= len(lines); {
			cand := append(append([]string{}, lines[:i]...), lines[i+chunk:]...)
			if same([]byte(strings.Join(cand, ""))) {
				lines = cand
			} else {
				i += chunk
			}
		}
	}
	src := []byte(strings.Join(lines, ""))
	// single bytes are only removed from comment-free text: a byte-level cut would move comments to
	// places that are outside the domain
	if len(src) < 400 && len(fmtin.CommentTexts(src)) == 0 {
		for i := 0; i < len(src); {
			cand := append(append([]byte{}, src[:i]...), src[i+1:]...)
			if same(cand) {
				src = cand
			} else {
				i++
			}
		}
	}
	return Case{Src: src, Class: c.Class}
}

func TestCorpus(t *testing.T) {
	if vk.R.Shard != 0 {
		return
	}
	for _, in := range fmtin.CorpusValid() {
		run(t, Case{Src: in.Src, Class: in.Class, How: []string{"corpus:" + in.Name}}, "src=corpus-verbatim")
	}
}

func TestVariants(t *testing.T) {
	vk.R.Rapid(t, 1, 3000, 80000, func(t *rapid.T) {
		pol := fmtin.Policy{}
		if os.Getenv("FMT_NOSHARP") != "" {
			pol.Conv = func(c fmtin.ConvClass) bool { return c.Style != "#" }
		}
		v := fmtin.DrawVariant(t, pol)
		how := append(append([]string{v.Origin + ":" + v.Name}, v.Steps...), v.Classes...)
		labels := []string{"origin=" + v.Origin}
		for _, s := range v.Steps[1:] {
			labels = append(labels, "step="+s)
		}
		run(t, Case{Src: v.Src, Class: v.Class, How: how}, labels...)
	})
	if survey {
		var ks []string
		for k, n := range surveyN {
			ks = append(ks, fmt.Sprintf("%6d %s", n, k))
		}
		sort.Strings(ks)
		fmt.Println("SURVEY SUMMARY\n" + strings.Join(ks, "\n"))
	}
}

package fmtin

import (
	"bytes"
	goast "go/ast"
	gotoken "go/token"

	"github.com/goplus/xgo/ast"
	"github.com/goplus/xgo/token"

	"verif/internal/astx"
)

// Shapes returns, in a fixed priority order, the names of the listed-finding shapes a source
// shows. Every predicate over-approximates the trigger of one root cause of a formatter defect
// found on the unchanged tree (known_findings: C19/C20/C21); checks append the first name to
// the verdict class, so a listed finding never hides a failure of a source without its shape.
func Shapes(f *ast.File, fset *gotoken.FileSet, src []byte) []string {
	var out []string
	add := func(ok bool, name string) {
		if ok {
			out = append(out, name)
		}
	}
	toks := Tokens(src)
	sharp, bareSharp, commentCstr := false, false, false
	for i, t := range toks {
		if t.Tok == token.COMMENT && len(t.Lit) > 0 && t.Lit[0] == '#' {
			sharp = true
			if len(t.Lit) == 1 {
				bareSharp = true
			}
		}
		if t.Tok == token.CSTRING || t.Tok == token.PYSTRING {
			for j := i - 1; j >= 0; j-- {
				if toks[j].Auto {
					continue
				}
				if toks[j].Tok == token.COMMENT {
					commentCstr = true
				}
				break
			}
		}
	}
	var keywordIdent, lambdaInHeader bool
	var commentInOverload, envSplit, lambdaArgNewline, commentInMatrix, importRparen, parenLambdaBlock, matrixRowEllipsis bool
	commentIn := func(lo, hi gotoken.Pos) bool {
		for _, g := range f.Comments {
			if g.Pos() > lo && g.Pos() < hi {
				return true
			}
		}
		return false
	}
	off := func(p gotoken.Pos) int { return fset.Position(p).Offset }
	// two trailing comments a few lines apart, the code between them running over a line break:
	// their alignment depends on where the source broke its lines
	trailingPair := false
	{
		type tc struct {
			line   int
			closes bool
		}
		var tcs []tc
		lines := bytes.Split(src, []byte("\n"))
		tokLine := make([]int, len(toks)) // line of each token's first byte
		balance := map[int]int{}          // line → closing minus opening brackets
		ln, at := 0, 0
		for i, t := range toks {
			for at < t.Off && at < len(src) {
				if src[at] == '\n' {
					ln++
				}
				at++
			}
			tokLine[i] = ln
			switch t.Tok {
			case token.LPAREN, token.LBRACK, token.LBRACE:
				balance[ln]--
			case token.RPAREN, token.RBRACK, token.RBRACE:
				balance[ln]++
			}
		}
		for i, t := range toks {
			if t.Tok != token.COMMENT {
				continue
			}
			j := i - 1
			for j >= 0 && toks[j].Auto {
				j--
			}
			if j < 0 || toks[j].Tok == token.COMMENT || tokLine[j] != tokLine[i] {
				continue
			}
			tcs = append(tcs, tc{tokLine[i], balance[tokLine[i]] > 0})
		}
		for i := 1; i < len(tcs); i++ {
			a, b := tcs[i-1], tcs[i]
			if d := b.line - a.line; d >= 1 && d <= 4 {
				blank := false
				for l := a.line + 1; l < b.line && l < len(lines); l++ {
					if len(bytes.TrimSpace(lines[l])) == 0 {
						blank = true
					}
				}
				if !blank && (d > 1 || a.closes || b.closes) {
					trailingPair = true
				}
			}
		}
	}
	var braceInHeader, ellipsisInHeader, emptyCmd, guardInParen, classTag, cmdNextLine, onelineLambda, onelineLambdaInList bool
	line := func(p gotoken.Pos) int { return fset.Position(p).Line }
	header := func(n goast.Node) {
		if n == nil {
			return
		}
		astx.Walk(n, astx.Options{}, func(x, _ goast.Node, _ string) bool {
			switch v := x.(type) {
			case *ast.LambdaExpr2:
				lambdaInHeader = true
			case *ast.ComprehensionExpr:
				if v.Tok == token.LBRACE {
					braceInHeader = true
				}
			case *ast.CompositeLit:
				if v.Type == nil {
					braceInHeader = true
				}
			case *ast.ElemEllipsis:
				ellipsisInHeader = true
			case *ast.BlockStmt:
				return false // a block inside the header (function literal body) is not header text
			}
			return true
		})
	}
	hdrExpr := func(e ast.Expr) {
		if e != nil {
			header(e)
			x := e
			for {
				p, ok := x.(*ast.ParenExpr)
				if !ok {
					break
				}
				x = p.X
				switch x.(type) {
				case *ast.LambdaExpr, *ast.LambdaExpr2: // `switch ((x, y) => (x(), y)) {`
					braceInHeader = true
				}
			}
		}
	}
	hdrStmt := func(s ast.Stmt) {
		if s != nil {
			header(s)
		}
	}
	astx.Walk(f, astx.Options{}, func(n, _ goast.Node, _ string) bool {
		switch v := n.(type) {
		case *ast.IfStmt:
			hdrStmt(v.Init)
			hdrExpr(v.Cond)
		case *ast.ForStmt:
			hdrStmt(v.Init)
			hdrExpr(v.Cond)
			hdrStmt(v.Post)
		case *ast.SwitchStmt:
			hdrStmt(v.Init)
			hdrExpr(v.Tag)
			if p, ok := v.Tag.(*ast.ParenExpr); ok {
				astx.Walk(p, astx.Options{}, func(x, _ goast.Node, _ string) bool {
					if ta, ok := x.(*ast.TypeAssertExpr); ok && ta.Type == nil {
						guardInParen = true
					}
					return true
				})
			}
		case *ast.TypeSwitchStmt:
			hdrStmt(v.Init)
			hdrStmt(v.Assign)
		case *ast.RangeStmt:
			hdrExpr(v.X)
		case *ast.ForPhraseStmt:
			if v.ForPhrase != nil {
				hdrExpr(v.X)
				hdrStmt(v.Init)
				hdrExpr(v.Cond)
			}
		case *ast.CaseClause:
			for _, e := range v.List {
				hdrExpr(e)
			}
		case *ast.CommClause:
			hdrStmt(v.Comm)
		case *ast.CallExpr:
			if v.IsCommand() && len(v.Args) == 0 {
				emptyCmd = true
			}
			if v.IsCommand() && len(v.Args) > 0 && (line(v.Args[0].Pos()) > line(v.Fun.End()) || v.Ellipsis.IsValid() && line(v.NoParenEnd) > line(v.Ellipsis)) {
				cmdNextLine = true // `f (` line break `x...)` or `f (x...` line break `)`
			}
			if n := len(v.Args); n > 0 && !v.IsCommand() && v.Rparen.IsValid() {
				switch v.Args[n-1].(type) {
				case *ast.LambdaExpr, *ast.LambdaExpr2:
					if a, b := off(v.Args[n-1].Pos()), off(v.Rparen); a < b && b <= len(src) && line(v.Rparen) > line(v.Args[n-1].Pos()) {
						// a line break between the lambda and the closing parenthesis
						if i := lastNonSpace(src, b); i >= 0 && (src[i] == ',' || src[i] != '}') {
							lambdaArgNewline = true
						}
					}
				}
			}
		case *ast.ReturnStmt:
			if exprListOnelineLambda(v.Results, line) {
				onelineLambdaInList = true
			}
		case *ast.AssignStmt:
			if exprListOnelineLambda(v.Rhs, line) {
				onelineLambdaInList = true
			}
		case *ast.LambdaExpr2:
			if v.Body != nil && len(v.Body.List) > 0 && line(v.Body.Lbrace) == line(v.Body.Rbrace) {
				onelineLambda = true
			}
		case *ast.Ident:
			switch v.Name {
			case "break", "continue", "goto", "fallthrough":
				keywordIdent = true
			}
		case *ast.ValueSpec:
			if v.Tag != nil {
				classTag = true
			}
		case *ast.OverloadFuncDecl:
			if commentIn(v.Lparen, v.Rparen) {
				commentInOverload = true
			}
		case *ast.MatrixLit:
			if commentIn(v.Lbrack, v.Rbrack) {
				commentInMatrix = true
			}
			// a row other than the last that ends in `x...`: printed one row per line, and inside
			// parentheses the scanner inserts no semicolon after `...`
			for i, row := range v.Elts {
				if i+1 < len(v.Elts) && len(row) > 0 {
					if _, ok := row[len(row)-1].(*ast.ElemEllipsis); ok && parenDepthAt(src, off(v.Lbrack)) > 0 {
						matrixRowEllipsis = true
					}
				}
			}
		case *ast.GenDecl:
			if v.Tok == token.IMPORT && v.Rparen.IsValid() && len(v.Specs) > 0 && line(v.Rparen) == line(v.Specs[len(v.Specs)-1].Pos()) && line(v.Lparen) != line(v.Rparen) {
				importRparen = true
			}
		case *ast.ParenExpr:
			if _, ok := v.X.(*ast.LambdaExpr2); ok {
				parenLambdaBlock = true
			}
		case *ast.EnvExpr:
			if v.Name != nil && line(v.TokPos) != line(v.Name.Pos()) {
				envSplit = true
			}
		}
		return true
	})
	// most definite root causes first; a check takes the first shape that is still listed as a
	// known finding of its property
	add(bareSharp, "bare-sharp-comment")
	add(sharp, "sharp-comment")
	add(classTag, "class-field-tag")
	add(commentInOverload, "comment-in-overload-decl")
	add(commentCstr, "comment-before-cstring")
	add(emptyCmd, "empty-command-call")
	add(cmdNextLine, "command-arg-on-next-line")
	add(keywordIdent, "branch-keyword-as-identifier")
	add(guardInParen, "type-guard-in-paren")
	add(envSplit, "env-expr-split-over-lines")
	add(commentInMatrix, "comment-in-matrix-lit")
	add(matrixRowEllipsis, "matrix-row-ellipsis-in-parens")
	add(braceInHeader, "brace-in-header")
	add(lambdaInHeader, "lambda-block-in-header")
	add(ellipsisInHeader, "elem-ellipsis-in-header")
	add(parenLambdaBlock, "paren-lambda-block")
	add(lambdaArgNewline, "lambda-last-arg-before-newline")
	add(onelineLambdaInList, "oneline-lambda-before-multiline-element")
	add(onelineLambda, "oneline-lambda-block")
	add(importRparen, "import-rparen-on-spec-line")
	add(trailingPair, "trailing-comments-around-line-break")
	return out
}

func lastNonSpace(src []byte, before int) int {
	for i := before - 1; i >= 0; i-- {
		switch src[i] {
		case ' ', '\t', '\n', '\r':
			continue
		}
		return i
	}
	return -1
}

// parenDepthAt counts the parentheses open at offset at (tokens only: strings and comments do not count).
func parenDepthAt(src []byte, at int) int {
	d := 0
	for _, t := range Tokens(src) {
		if t.Off >= at {
			break
		}
		switch t.Tok {
		case token.LPAREN:
			d++
		case token.RPAREN:
			d--
		}
	}
	return d
}

// exprListOnelineLambda: an expression list of two or more elements in which an element holds a
// block lambda written on one line and a later element runs over several lines (the first pass
// breaks the lambda's block over lines inside a list that is itself broken).
func exprListOnelineLambda(list []ast.Expr, line func(gotoken.Pos) int) bool {
	if len(list) < 2 {
		return false
	}
	for i, e := range list[:len(list)-1] {
		found := false
		astx.Walk(e, astx.Options{}, func(n, _ goast.Node, _ string) bool {
			if l, ok := n.(*ast.LambdaExpr2); ok && l.Body != nil && len(l.Body.List) > 0 && line(l.Body.Lbrace) == line(l.Body.Rbrace) {
				found = true
			}
			return !found
		})
		if !found {
			continue
		}
		for _, later := range list[i+1:] {
			if line(later.Pos()) != line(later.End()-1) {
				return true
			}
		}
	}
	return false
}

// Package supervise lets a check whose histories run inside library goroutines survive two
// kinds of process death that no recover() can catch: a panic raised on a goroutine of the
// code under test (invariant panics) and a report of the race detector. The test binary
// re-executes itself as a child (GORACE=halt_on_error=1, so the first race ends the child at
// once); if the child dies that way, the parent writes the history that was in flight (the
// vk "current case" region) as a replay file and prints the VIOLATION lines the driver looks for.
package supervise

import (
	"bytes"
	"crypto/sha256"
	"encoding/binary"
	"encoding/hex"
	"encoding/json"
	"fmt"
	"os"
	"os/exec"
	"path/filepath"
	"strings"
	"sync"

	"verif/internal/vk"
)

type tail struct {
	mu  sync.Mutex
	buf []byte
}

func (t *tail) Write(p []byte) (int, error) {
	t.mu.Lock()
	t.buf = append(t.buf, p...)
	if len(t.buf) > 4<<20 {
		t.buf = t.buf[len(t.buf)-(2<<20):]
	}
	t.mu.Unlock()
	return os.Stdout.Write(p)
}

// Run returns (exit code, true) in the supervising parent and (0, false) in the child (or
// when the binary replays a single case).
func Run(id string, panicMarkers ...string) (int, bool) {
	if os.Getenv("VK_SUPERVISED") != "" || os.Getenv("VK_REPLAY") != "" {
		return 0, false
	}
	cmd := exec.Command(os.Args[0], os.Args[1:]...)
	gorace := "halt_on_error=1"
	if old := os.Getenv("GORACE"); old != "" {
		gorace = old + " " + gorace
	}
	cmd.Env = append(os.Environ(), "VK_SUPERVISED=1", "GORACE="+gorace)
	out := &tail{}
	cmd.Stdout, cmd.Stderr, cmd.Stdin = out, out, nil
	err := cmd.Run()
	code := 0
	if err != nil {
		code = 2
		if ee, ok := err.(*exec.ExitError); ok {
			code = ee.ExitCode()
		}
	}
	if code == 0 || code == 1 {
		return code, true
	}
	text := string(out.buf)
	class, detail := "", ""
	if i := strings.Index(text, "WARNING: DATA RACE"); i >= 0 {
		class, detail = "data-race", clip(text[i:], 3000)
	}
	for _, m := range panicMarkers {
		if i := strings.Index(text, m); i >= 0 && class == "" {
			class, detail = "library-panic", clip(text[i:], 3000)
		}
	}
	if class == "" {
		return code, true
	}
	root := vk.Root()
	replay := "(history in flight not available)"
	if doc := current(); doc != nil {
		doc["verdict"] = map[string]string{"class": class, "detail": detail}
		js, _ := json.MarshalIndent(doc, "", " ")
		sum := sha256.Sum256(js)
		rel := filepath.Join("replays", id, class+"-"+hex.EncodeToString(sum[:4])+".json")
		os.MkdirAll(filepath.Join(root, "replays", id), 0o755)
		if os.WriteFile(filepath.Join(root, rel), js, 0o644) == nil {
			replay = rel
		}
	}
	fmt.Printf("VIOLATION property=%s replay=%s\n", id, replay)
	fmt.Printf("  class=%s detail=%s\n", class, strings.ReplaceAll(clip(detail, 600), "\n", "\\n"))
	return 1, true
}

func clip(s string, n int) string {
	if len(s) > n {
		return s[:n] + "…"
	}
	return s
}

// current reads the case the child was evaluating when it died.
func current() map[string]any {
	path := os.Getenv("VK_CURRENT")
	if path == "" {
		return nil
	}
	b, err := os.ReadFile(path)
	if err != nil || len(b) < 8 {
		return nil
	}
	n := binary.LittleEndian.Uint64(b[:8])
	if n == 0 || n > uint64(len(b)-8) {
		return nil
	}
	var doc map[string]any
	if json.NewDecoder(bytes.NewReader(b[8:8+n])).Decode(&doc) != nil {
		return nil
	}
	return doc
}

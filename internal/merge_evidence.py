#!/usr/bin/env python3
"""Merge per-shard evidence files of one thorough run into evidence/<ID>.json.

Counts are summed; distinct_nontrivial is the size of the UNION of the per-shard hash sets
(side files *.hashes written by internal/vk), so it stays a measured number."""
import json, sys, os

def main():
    pid, out, files = sys.argv[1], sys.argv[2], sys.argv[3:]
    files = [f for f in files if f.endswith('.json') and os.path.exists(f)]
    if not files:
        print("no shard evidence"); sys.exit(1)
    docs = [json.load(open(f)) for f in sorted(files)]
    base = docs[0]
    cov = base["coverage"]
    hashes = set()
    for f in sorted(files):
        hf = f + ".hashes"
        if os.path.exists(hf):
            hashes.update(l.strip() for l in open(hf) if l.strip())
    for d in docs[1:]:
        c = d["coverage"]
        for k, v in c.items():
            if k in ("rule", "exhaustive"):
                continue
            if k == "samples":
                cov["samples"] = (cov.get("samples", []) + v)[:16]
            elif isinstance(v, dict):
                tgt = cov.setdefault(k, {})
                for kk, vv in v.items():
                    if isinstance(vv, (int, float)):
                        tgt[kk] = tgt.get(kk, 0) + vv
                    else:
                        tgt.setdefault(kk, vv)
            elif isinstance(v, bool):
                cov[k] = cov.get(k, True) and v
            elif isinstance(v, (int, float)):
                cov[k] = cov.get(k, 0) + v
            else:
                cov.setdefault(k, v)
        if "exhaustive" in c:
            cov["exhaustive"] = cov.get("exhaustive", True) and c["exhaustive"]
        base["violations"] = base.get("violations", 0) + d.get("violations", 0)
        base["wall_s"] = max(base.get("wall_s", 0), d.get("wall_s", 0))
        for a in d.get("assumptions", []):
            if a not in base.setdefault("assumptions", []):
                base["assumptions"].append(a)
    if hashes:
        cov["distinct_nontrivial"] = len(hashes)
    cov["shards"] = len(docs)
    base.pop("shard", None); base.pop("shards", None)
    with open(out, "w") as f:
        json.dump(base, f, indent=1); f.write("\n")

main()

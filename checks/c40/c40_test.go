//go:build verif

// C40 — watch mode never loses or duplicates a changed directory, never invents one, and a
// waiting Fetch wakes up once a change is reported.
//
// Needs the verif hook of x/watcher (proposed_fixes/HOOK-watcher.diff): VerifHook, VerifState.
package c40

import (
	"encoding/json"
	"fmt"
	"os"
	"path/filepath"
	"runtime"
	"sort"
	"strings"
	"sync"
	"testing"
	"time"

	"github.com/goplus/xgo/x/watcher"
	"pgregory.net/rapid"

	"verif/internal/gen/supervise"
	"verif/internal/vk"
)

func TestMain(m *testing.M) {
	if code, parent := supervise.Run("C40", "panic: "); parent {
		os.Exit(code)
	}
	watcher.VerifHook = dispatch
	vk.Main(m, "C40", "exploration",
		"histories over one watcher.Changes: 1-3 producers each calling FileChanged(dir/file) for a drawn list over at most 4 directories (incl. '.', nested), 1-3 fetchers each calling Fetch (fullPath drawn) a drawn number of times, all concurrent; a drawn script says for the k-th arrival at a point (op start, fetch:before-wait, fetch:after-wait, fetch:took, report:inserted, report:unlocked = between unlock and Broadcast): Gosched x n and, outside the mutex, park until (fetchers in Wait >= n | takes >= n | inserts >= n); a deterministic deadlock breaker releases the oldest park when every goroutine is blocked. When producers are done and every fetcher has returned or sits in cond.Wait, the harness feeds fresh directories until all fetchers are done, then drains. "+
			"Oracle: the in-mutex hooks give the exact linearisation of inserts and takes, which is replayed against a pending-set model (a take must take a pending directory: no invention, no duplicate; inserted directory = path.Dir of the reported name); every Fetch result matches one take inside its call window; API-level counting (returns(d) <= reports(d) started before, each result reported before); at every quiescent point (deterministic: producers returned, hook counters and sync.Cond's wait/notify tickets agree) NOT (pending non-empty and a fetcher un-notified in Wait) and VerifState's pending set equals the model; the final drain returns exactly the pending set; every reported directory is returned by a later Fetch. "+
			"Non-trivial = a report arrives while at least 2 fetchers sit in Wait, or a report coalesces with a pending one; distinct = hash of the case document")
}

// ---- case -------------------------------------------------------------------------------------------

type Report struct {
	Dir  string `json:"dir"`  // directory the harness expects to become pending
	File string `json:"file"` // reported name = Dir/File ("." -> File)
}

type ParkCond struct {
	Kind string `json:"kind"` // parked | takes | inserts
	N    int    `json:"n"`
}

type Yield struct {
	Point   string    `json:"point"`
	K       int       `json:"k"` // k-th arrival at that point (all goroutines together)
	Gosched int       `json:"gosched,omitempty"`
	Park    *ParkCond `json:"park,omitempty"` // only honoured at points outside the mutex
}

type Case struct {
	Root      string     `json:"root"`
	Producers [][]Report `json:"producers"`
	Fetchers  [][]bool   `json:"fetchers"` // per fetcher: fullPath argument of each Fetch
	Script    []Yield    `json:"script,omitempty"`
}

var lockedPoints = map[string]bool{"fetch:before-wait": true, "fetch:after-wait": true, "fetch:took": true, "report:inserted": true}
var allPoints = []string{"report:start", "fetch:start", "fetch:before-wait", "fetch:after-wait", "fetch:took", "report:inserted", "report:unlocked"}

func (r Report) name() string {
	if r.Dir == "." {
		return r.File
	}
	return r.Dir + "/" + r.File
}

// ---- one execution ------------------------------------------------------------------------------------

type event struct {
	seq       int64
	kind      string // inserted | took
	dir       string
	inWait    int  // fetchers in Wait at that moment (hook counters)
	coalesced bool // inserted while already pending (model)
}

type opRec struct {
	who        string // p<i> | f<i> | harness
	kind       string // report | fetch
	dir        string // report: expected dir; fetch: returned dir (root stripped)
	raw        string
	full       bool
	start, end int64
}

type parkRec struct {
	cond ParkCond
	ch   chan struct{}
}

type run struct {
	c        Case
	ch       *watcher.Changes
	root     string
	hm       sync.Mutex
	seq      int64
	nEvents  int64 // state changes, to detect a stable snapshot
	total    int   // goroutines of the history
	finished int
	prodDone int
	inWait   int
	inserts  int
	takes    int
	parked   []*parkRec
	counters map[string]int
	events   []event
	ops      []*opRec
	breaker  int
	parksN   int
	signal   chan struct{}
}

var bound sync.Map // *watcher.Changes -> *run

func dispatch(c *watcher.Changes, point, dir string) {
	if v, ok := bound.Load(c); ok {
		v.(*run).hook(point, dir)
	}
}

func (r *run) satisfied(c ParkCond) bool {
	switch c.Kind {
	case "parked":
		return r.inWait >= c.N
	case "takes":
		return r.takes >= c.N
	case "inserts":
		return r.inserts >= c.N
	}
	return true
}

// changedLocked is called (hm held) after every state change: release satisfied parks, break
// deadlocks deterministically, wake the controller.
func (r *run) changedLocked() {
	r.nEvents++
	keep := r.parked[:0]
	for _, p := range r.parked {
		if r.satisfied(p.cond) {
			close(p.ch)
		} else {
			keep = append(keep, p)
		}
	}
	r.parked = keep
	if len(r.parked) > 0 && r.finished+r.inWait+len(r.parked) >= r.total {
		// nobody can run: release the oldest park
		close(r.parked[0].ch)
		r.parked = r.parked[1:]
		r.breaker++
	}
	select {
	case r.signal <- struct{}{}:
	default:
	}
}

// point is called at every scripted point (hook or harness level).
func (r *run) point(point string) {
	r.hm.Lock()
	k := r.counters[point]
	r.counters[point] = k + 1
	var y *Yield
	for i := range r.c.Script {
		if s := &r.c.Script[i]; s.Point == point && s.K == k {
			y = s
			break
		}
	}
	r.hm.Unlock()
	if y == nil {
		return
	}
	for i := 0; i < y.Gosched; i++ {
		runtime.Gosched()
	}
	if y.Park != nil && !lockedPoints[point] {
		r.hm.Lock()
		if r.satisfied(*y.Park) {
			r.hm.Unlock()
			return
		}
		p := &parkRec{cond: *y.Park, ch: make(chan struct{})}
		r.parked = append(r.parked, p)
		r.parksN++
		r.changedLocked()
		r.hm.Unlock()
		<-p.ch
	}
}

func (r *run) hook(point, dir string) {
	r.hm.Lock()
	switch point {
	case "fetch:before-wait":
		r.inWait++
	case "fetch:after-wait":
		r.inWait--
	case "fetch:took":
		r.seq++
		r.takes++
		r.events = append(r.events, event{seq: r.seq, kind: "took", dir: dir, inWait: r.inWait})
	case "report:inserted":
		r.seq++
		r.inserts++
		r.events = append(r.events, event{seq: r.seq, kind: "inserted", dir: dir, inWait: r.inWait})
	}
	if point != "report:unlocked" {
		r.changedLocked()
	}
	r.hm.Unlock()
	r.point(point)
}

func (r *run) now() int64 {
	r.hm.Lock()
	r.seq++
	s := r.seq
	r.hm.Unlock()
	return s
}

func (r *run) report(who string, rep Report) {
	op := &opRec{who: who, kind: "report", dir: rep.Dir, raw: rep.name()}
	op.start = r.now()
	r.hm.Lock()
	r.ops = append(r.ops, op)
	r.hm.Unlock()
	r.ch.FileChanged(rep.name())
	end := r.now()
	r.hm.Lock()
	op.end = end
	r.hm.Unlock()
}

func (r *run) fetch(who string, full bool) {
	op := &opRec{who: who, kind: "fetch", full: full}
	op.start = r.now()
	r.hm.Lock()
	r.ops = append(r.ops, op)
	r.hm.Unlock()
	got := r.ch.Fetch(full)
	end := r.now()
	r.hm.Lock()
	op.raw, op.end = got, end
	r.hm.Unlock()
}

const watchdog = 30 * time.Second

type info struct {
	parkedBurst, coalesced                               bool
	breaker, parks, drainReports, lateWakeups, maxInWait int
	condPeek                                             bool
}

func stacks() string {
	buf := make([]byte, 1<<16)
	return string(buf[:runtime.Stack(buf, true)])
}

// settle waits (on hook events, never on time) until producers are done and every fetcher has
// returned or is un-notified in cond.Wait; it returns the pending set seen at that point.
func (r *run) settle(in *info) (pending []string, waiting int, v *vk.Verdict, stall bool) {
	timer := time.NewTimer(watchdog)
	defer timer.Stop()
	for {
		r.hm.Lock()
		ev := r.nEvents
		quiet := r.prodDone == len(r.c.Producers) && r.finished+r.inWait >= r.total && len(r.parked) == 0
		inWait := r.inWait
		r.hm.Unlock()
		if quiet {
			p, un := r.ch.VerifState()
			r.hm.Lock()
			same := ev == r.nEvents
			r.hm.Unlock()
			if same {
				if un >= 0 {
					in.condPeek = true
				}
				switch {
				case un < 0 && (len(p) == 0 || inWait == 0), un >= 0 && un == inWait:
					// stable: every waiting fetcher is registered and un-notified
					if len(p) > 0 && inWait > 0 {
						return p, inWait, vk.Bad("lost-wakeup", "all producers have returned, directories %q are pending, yet %d fetcher(s) sit in cond.Wait without a notification", p, inWait), false
					}
					return p, inWait, nil, false
				case un >= 0 && un > inWait:
					return p, inWait, vk.Bad("harness", "sync.Cond has %d un-notified waiters, the hooks count %d fetchers in Wait", un, inWait), false
				}
				// some fetcher has been notified and is on its way out of Wait: wait for its hook
			}
		}
		select {
		case <-r.signal:
		case <-timer.C:
			r.hm.Lock()
			defer r.hm.Unlock()
			return nil, 0, vk.Bad("stall", "no quiescence within %v (producers done %d/%d, finished %d/%d, in Wait %d); goroutines:\n%s", watchdog, r.prodDone, len(r.c.Producers), r.finished, r.total, r.inWait, stacks()), true
		}
	}
}

func execute(c Case) (v *vk.Verdict, in info, stall bool) {
	if len(c.Producers) > 8 || len(c.Fetchers) > 8 {
		return vk.Bad("harness", "too many goroutines"), in, false
	}
	r := &run{c: c, counters: map[string]int{}, signal: make(chan struct{}, 1), total: len(c.Producers) + len(c.Fetchers)}
	r.ch = watcher.NewChanges(c.Root)
	abs, _ := filepath.Abs(c.Root)
	r.root = abs + "/" // NewChanges: root is made absolute, Fetch(true) puts root + "/" in front
	bound.Store(r.ch, r)
	defer bound.Delete(r.ch)
	var wg sync.WaitGroup
	for i, reps := range c.Producers {
		wg.Add(1)
		go func(i int, reps []Report) {
			defer wg.Done()
			for _, rep := range reps {
				r.point("report:start")
				r.report(fmt.Sprintf("p%d", i), rep)
			}
			r.hm.Lock()
			r.finished++
			r.prodDone++
			r.changedLocked()
			r.hm.Unlock()
		}(i, reps)
	}
	for i, fs := range c.Fetchers {
		wg.Add(1)
		go func(i int, fs []bool) {
			defer wg.Done()
			for _, full := range fs {
				r.point("fetch:start")
				r.fetch(fmt.Sprintf("f%d", i), full)
			}
			r.hm.Lock()
			r.finished++
			r.changedLocked()
			r.hm.Unlock()
		}(i, fs)
	}
	// feed until every fetcher is done
	model := map[string]bool{}
	checked := 0
	for round := 0; ; round++ {
		pending, waiting, v, st := r.settle(&in)
		if v == nil {
			v = r.replay(model, &checked, pending, &in)
		}
		if v != nil || st {
			// let every goroutine finish before returning
			r.flush()
			return v, in, st
		}
		if waiting == 0 {
			break
		}
		in.drainReports++
		r.report("harness", Report{Dir: fmt.Sprintf("zz-feed/%d", round), File: "x.xgo"})
	}
	wg.Wait()
	// final drain: exactly the pending set, each once
	pending, _ := r.ch.VerifState()
	for range pending {
		r.fetch("harness", false)
	}
	after, _ := r.ch.VerifState()
	if len(after) != 0 {
		return vk.Bad("drain-left-over", "after fetching %d times %q is still pending", len(pending), after), in, false
	}
	if v := r.replay(model, &checked, nil, &in); v != nil {
		return v, in, false
	}
	return r.judge(&in), in, false
}

// flush makes blocked goroutines of a failed or stalled execution go away (best effort).
func (r *run) flush() {
	r.hm.Lock()
	for _, p := range r.parked {
		close(p.ch)
	}
	r.parked = nil
	n := 0
	for _, fs := range r.c.Fetchers {
		n += len(fs)
	}
	r.hm.Unlock()
	for i := 0; i < n; i++ {
		r.ch.FileChanged(fmt.Sprintf("zz-flush/%d/x.xgo", i))
	}
}

// replay runs the new part of the linearised hook log against the pending-set model and, at a
// quiescent point, compares the model with the real pending set.
func (r *run) replay(model map[string]bool, checked *int, pending []string, in *info) *vk.Verdict {
	if pending == nil {
		pending = []string{}
	}
	r.hm.Lock()
	defer r.hm.Unlock()
	for ; *checked < len(r.events); *checked++ {
		e := &r.events[*checked]
		if e.inWait > in.maxInWait {
			in.maxInWait = e.inWait
		}
		switch e.kind {
		case "inserted":
			if model[e.dir] {
				e.coalesced = true
				in.coalesced = true
			}
			if e.inWait >= 2 {
				in.parkedBurst = true
			}
			model[e.dir] = true
		case "took":
			if !model[e.dir] {
				return vk.Bad("took-not-pending", "Fetch removed %q (event %d) which was not pending: pending set %q", e.dir, e.seq, keys(model))
			}
			delete(model, e.dir)
		}
	}
	if strings.Join(keys(model), "\x00") != strings.Join(pending, "\x00") {
		return vk.Bad("pending-mismatch", "quiescent point: the model says %q are pending, Changes holds %q", keys(model), pending)
	}
	return nil
}

func keys(m map[string]bool) []string {
	ks := []string{}
	for k := range m {
		ks = append(ks, k)
	}
	sort.Strings(ks)
	return ks
}

func (r *run) judge(in *info) *vk.Verdict {
	r.hm.Lock()
	defer r.hm.Unlock()
	in.breaker, in.parks = r.breaker, r.parksN
	var reports, fetches []*opRec
	for _, o := range r.ops {
		if o.kind == "report" {
			reports = append(reports, o)
		} else {
			fetches = append(fetches, o)
		}
	}
	prefix := r.root
	// the inserted directory is path.Dir of the reported name
	ins := map[string]int{}
	for _, e := range r.events {
		if e.kind == "inserted" {
			ins[e.dir]++
		}
	}
	rep := map[string]int{}
	for _, o := range reports {
		rep[o.dir]++
	}
	for d, n := range ins {
		if rep[d] != n {
			return vk.Bad("wrong-dir", "directory %q was inserted %d times, reported %d times (reports: %v)", d, n, rep[d], rep)
		}
	}
	for d, n := range rep {
		if ins[d] != n {
			return vk.Bad("wrong-dir", "directory %q was reported %d times, inserted %d times (inserted: %v)", d, n, ins[d], ins)
		}
	}
	// every Fetch result is a take inside its window
	used := map[int]bool{}
	sort.Slice(fetches, func(i, j int) bool { return fetches[i].end < fetches[j].end })
	for _, f := range fetches {
		f.dir = f.raw
		if f.full {
			if !strings.HasPrefix(f.raw, prefix) {
				return vk.Bad("fullpath", "Fetch(true) returned %q, expected the root %q in front", f.raw, prefix)
			}
			f.dir = strings.TrimPrefix(f.raw, prefix)
		}
		found := false
		for i, e := range r.events {
			if e.kind == "took" && !used[i] && e.dir == f.dir && e.seq > f.start && e.seq < f.end {
				used[i], found = true, true
				break
			}
		}
		if !found {
			return vk.Bad("result-without-take", "%s: Fetch returned %q but removed no such directory during the call", f.who, f.raw)
		}
		// API level: reported before, and not more often than reported
		nrep, nret := 0, 0
		for _, o := range reports {
			if o.dir == f.dir && o.start < f.end {
				nrep++
			}
		}
		for _, g := range fetches {
			if g.dir == f.dir && g.end <= f.end && g.end != 0 {
				nret++
			}
		}
		if nrep == 0 {
			return vk.Bad("invented", "%s: Fetch returned %q which nobody had reported by then", f.who, f.raw)
		}
		if nret > nrep {
			return vk.Bad("duplicate", "%q had been returned %d times when only %d reports of it had started", f.dir, nret, nrep)
		}
	}
	// nothing lost: each report is followed by a fetch of its directory
	for _, o := range reports {
		ok := false
		for _, f := range fetches {
			if f.dir == o.dir && f.end > o.start {
				ok = true
				break
			}
		}
		if !ok {
			return vk.Bad("lost", "%s reported %q (dir %q); no later Fetch returned it although the set was drained", o.who, o.raw, o.dir)
		}
	}
	return nil
}

func check(c Case) (*vk.Verdict, info) {
	v, in, stall := execute(c)
	if !stall {
		return v, in
	}
	for i := 0; i < 2; i++ {
		if v2, in2, st2 := execute(c); !st2 {
			return v2, in2
		}
	}
	return v, in
}

var oracle = vk.Register("history", func(c Case) *vk.Verdict { v, _ := check(c); return v })

// ---- generator ------------------------------------------------------------------------------------------

var dirPool = []string{"a", "b", ".", "a/sub", "c"}
var filePool = []string{"x.xgo", "main.go", "y_test.gox", "README.md", "z.spx"}

func genCase(t *rapid.T) Case {
	var c Case
	c.Root = rapid.SampledFrom([]string{"/work", "/", "/tmp/w/", "rel"}).Draw(t, "root")
	nd := rapid.IntRange(1, 4).Draw(t, "dirs")
	dirs := rapid.SliceOfNDistinct(rapid.SampledFrom(dirPool), nd, nd, func(s string) string { return s }).Draw(t, "dirset")
	rep := rapid.Custom(func(t *rapid.T) Report {
		return Report{Dir: rapid.SampledFrom(dirs).Draw(t, "dir"), File: rapid.SampledFrom(filePool).Draw(t, "file")}
	})
	np := rapid.IntRange(1, 3).Draw(t, "producers")
	for i := 0; i < np; i++ {
		c.Producers = append(c.Producers, rapid.SliceOfN(rep, 0, 5).Draw(t, "reports"))
	}
	nf := rapid.IntRange(1, 3).Draw(t, "fetchers")
	for i := 0; i < nf; i++ {
		c.Fetchers = append(c.Fetchers, rapid.SliceOfN(rapid.Bool(), 1, 4).Draw(t, "fetches"))
	}
	n := rapid.IntRange(0, 8).Draw(t, "yields")
	for i := 0; i < n; i++ {
		y := Yield{Point: rapid.SampledFrom(allPoints).Draw(t, "point"), K: rapid.IntRange(0, 4).Draw(t, "k"), Gosched: rapid.SampledFrom([]int{0, 0, 1, 3}).Draw(t, "gosched")}
		if !lockedPoints[y.Point] && rapid.IntRange(0, 2).Draw(t, "park?") > 0 {
			kind := rapid.SampledFrom([]string{"parked", "parked", "takes", "inserts"}).Draw(t, "pkind")
			max := nf
			if kind != "parked" {
				max = 4
			}
			y.Park = &ParkCond{Kind: kind, N: rapid.IntRange(1, max).Draw(t, "pn")}
		}
		c.Script = append(c.Script, y)
	}
	return c
}

type failer interface {
	Fatalf(string, ...any)
	Helper()
}

func run1(t failer, c Case, class string) {
	var in info
	v := vk.R.Guard("history", c, 150*time.Second, func() *vk.Verdict {
		var v *vk.Verdict
		v, in = check(c)
		return v
	})
	nt := in.parkedBurst || in.coalesced
	js, _ := json.Marshal(c)
	vk.R.Case(nt, string(js))
	vk.R.Class(class)
	if in.parkedBurst {
		vk.R.Class("report-while->=2-fetchers-in-wait")
	}
	if in.coalesced {
		vk.R.Class("coalesced-double-report")
	}
	vk.R.Class(fmt.Sprintf("max-fetchers-in-wait=%d", in.maxInWait))
	if in.parks > 0 {
		vk.R.Class("script-parked-a-goroutine")
	}
	if in.breaker > 0 {
		vk.R.Class("deadlock-breaker-used")
	}
	if in.drainReports > 0 {
		vk.R.Class("harness-fed-waiting-fetchers")
	}
	if in.condPeek {
		vk.R.Class("quiescence=cond-tickets")
	} else {
		vk.R.Class("quiescence=hook-counters-only")
	}
	if nt {
		vk.R.Sample(string(js))
	}
	vk.R.Check(t, "history", c, v)
}

func TestHistories(t *testing.T) {
	vk.R.Rapid(t, 1, 3000, 100000, func(t *rapid.T) {
		run1(t, genCase(t), "src=generated")
	})
}

// TestShapes: the shapes named in the design, run repeatedly (deterministic corpus).
func TestShapes(t *testing.T) {
	if vk.R.Shard != 0 {
		return
	}
	x := func(d string) Report { return Report{Dir: d, File: "x.xgo"} }
	shapes := []Case{
		// all fetchers parked, then a burst of reports
		{Producers: [][]Report{{x("a"), x("b"), x("c")}}, Fetchers: [][]bool{{false}, {true}, {false}},
			Script: []Yield{{Point: "report:start", K: 0, Park: &ParkCond{"parked", 3}}}},
		// burst from two producers, the second insert happens between the first's unlock and Broadcast
		{Producers: [][]Report{{x("a")}, {x("b")}}, Fetchers: [][]bool{{false}, {false}},
			Script: []Yield{{Point: "report:start", K: 0, Park: &ParkCond{"parked", 2}}, {Point: "report:start", K: 1, Park: &ParkCond{"parked", 2}},
				{Point: "report:unlocked", K: 0, Park: &ParkCond{"inserts", 2}}}},
		// same dir reported twice around a fetch
		{Producers: [][]Report{{x("a"), x("a")}, {x("a")}}, Fetchers: [][]bool{{false, false}},
			Script: []Yield{{Point: "report:start", K: 1, Park: &ParkCond{"takes", 1}}}},
		// a fetcher arrives between a producer's unlock and its Broadcast and takes the directory
		{Producers: [][]Report{{x("a")}, {x("b")}}, Fetchers: [][]bool{{false}, {false}},
			Script: []Yield{{Point: "fetch:start", K: 1, Park: &ParkCond{"inserts", 1}}, {Point: "report:start", K: 0, Park: &ParkCond{"parked", 1}},
				{Point: "report:unlocked", K: 0, Park: &ParkCond{"takes", 1}}, {Point: "report:start", K: 1, Park: &ParkCond{"takes", 1}}}},
	}
	for _, c := range shapes {
		c.Root = "/work"
		for rep := 0; rep < 25; rep++ {
			run1(t, c, "src=shapes")
		}
	}
}

//go:build verif

// C17 — every AST node's span is exact and nested.
package c17

import (
	"bytes"
	"fmt"
	goast "go/ast"
	gotoken "go/token"
	"os"
	"path/filepath"
	"regexp"
	"runtime/debug"
	"sort"
	"strings"
	"testing"

	"github.com/goplus/xgo/ast"
	"github.com/goplus/xgo/parser"
	"github.com/goplus/xgo/scanner"
	"github.com/goplus/xgo/token"
	"pgregory.net/rapid"

	"verif/internal/astx"
	"verif/internal/gen/astgen"
	"verif/internal/gen/godecl"
	"verif/internal/gen/lex"
	"verif/internal/gen/xgotext"
	"verif/internal/vk"
)

func TestMain(m *testing.M) {
	vk.Main(m, "C17", "exploration",
		"files = every repository source file (.xgo/.gop/.gox/.spx/.gmx/.gsh/.yap/.go, parsed as the kind its name says), token-level mutants of them, generated XGo text and generated Go declaration files; only error-free parses count (the rest is rejected). Oracle: the file is tokenised with the XGo scanner (plus a sub-tokenisation of the `${…}` parts of strings, of the argument line of tag`> …` literals and of the interior of tpl`…` literals) giving the sets of token starts and token ends; every node with a real span (synthetic nodes — implicit package/main ident, shadow entry frame, implicit empty statement, bracket-less field lists — are skipped) must have Pos in starts, End in ends and Pos < End, with a failure attributed to the innermost node it originates from; reflection children (astx) must lie inside the parent, in order and pairwise disjoint (FuncDecl.Type, which by go/ast convention spans receiver and name, is only required to lie inside); every value/type expression (not key:value, `...`, for-phrase, `[...]T`, range expression, matrix literal, command-style call, operator name, method signature) must re-parse from its own source slice with ParseExpr without error into a tree equal modulo positions. Non-trivial = file has an XGo-only node kind; distinct = set of (node kind, parent kind) pairs")
}

type Case struct {
	Name string   `json:"name"` // file name: its extension decides class-file parsing
	Src  vk.Bytes `json:"src"`
}

type info struct {
	rejected string
	kinds    map[string]int
	pairs    map[string]bool
	nodes    int
	checked  int
	reparsed int
	skipped  int
}

// ---- tokenisation ---------------------------------------------------------------------------

type tokens struct {
	starts, ends map[int]bool
}

// addTokens scans src[off:end] with the XGo scanner and records token starts and ends (file
// offsets). Literals that hold XGo code are scanned recursively.
func (ts *tokens) addTokens(src []byte, off, end, depth int) {
	if depth > 8 || off >= end {
		return
	}
	defer func() { recover() }()
	seg := src[off:end]
	fset := gotoken.NewFileSet()
	f := fset.AddFile("x", -1, len(seg))
	var s scanner.Scanner
	s.Init(f, seg, func(gotoken.Position, string) {}, 0)
	prevTok, prevLit, prevEnd := token.ILLEGAL, "", -1
	for i := 0; i < 2*len(seg)+4; i++ {
		pos, tok, lit := s.Scan()
		if tok == token.EOF {
			break
		}
		if tok == token.SEMICOLON && lit != ";" {
			continue // automatic semicolon: not a source token
		}
		a := f.Offset(pos)
		b := a + len(lit)
		switch {
		case lit == "":
			b = a + len(tok.String())
		case tok == token.CSTRING:
			b = a + 1 + len(lit)
		case tok == token.PYSTRING:
			b = a + 2 + len(lit)
		case tok == token.STRING && lit[0] == '`':
			if j := bytes.IndexByte(seg[a+1:], '`'); j >= 0 { // carriage returns are stripped from lit
				b = a + 1 + j + 1
			}
		}
		if b > len(seg) {
			b = len(seg)
		}
		ts.starts[off+a] = true
		ts.ends[off+b] = true
		if tok == token.STRING || tok == token.CSTRING || tok == token.PYSTRING {
			q := bytes.IndexAny(seg[a:b], "\"`")
			if q >= 0 && b-1 > a+q+1 {
				ts.inLiteral(src, off+a+q+1, off+b-1, depth)
				if tok == token.STRING && seg[a] == '`' && prevTok == token.IDENT && prevEnd == a {
					ts.domainText(src, prevLit, off+a+1, off+b-1, depth)
				}
			}
		}
		prevTok, prevLit, prevEnd = tok, lit, b
	}
}

// inLiteral scans the ${…} parts of a string body src[a:b] ("$$" is an escaped dollar).
func (ts *tokens) inLiteral(src []byte, a, b, depth int) {
	for i := a; i+1 < b; i++ {
		if src[i] != '$' {
			continue
		}
		switch src[i+1] {
		case '$':
			i++
		case '{':
			j := bytes.IndexByte(src[i+2:b], '}')
			if j < 0 {
				return
			}
			ts.addTokens(src, i+2, i+2+j, depth+1)
			i += 2 + j
		}
	}
}

// domainText scans the XGo code inside a domain text literal body src[a:b]: the argument line
// of tag`> a, b …` and the whole grammar of tpl`…` (its ret-procs are XGo lambdas; the other
// tpl tokens are the lexemes both languages share).
func (ts *tokens) domainText(src []byte, domain string, a, b, depth int) {
	if domain == "tpl" {
		ts.addTokens(src, a, b, depth+1)
		return
	}
	if bytes.HasPrefix(src[a:b], []byte("> ")) {
		// the arguments end at the first statement end, which may be lines below (a func literal
		// argument); scanning is sequential, so the text behind them only adds unused offsets
		ts.addTokens(src, a+2, b, depth+1)
	}
}

// ---- node classification ----------------------------------------------------------------------

type span struct{ pos, end int }

type checker struct {
	src    []byte
	base   int
	size   int
	ts     tokens
	vs     verdicts
	in     *info
	badEnd map[goast.Node]bool
	badPos map[goast.Node]bool
	badRe  map[goast.Node]bool // re-parse failed here: enclosing expressions are not re-parsed
	broken map[goast.Node]bool // nodes of a domain text argument list with a dropped syntax error
}

// synthetic reports nodes that do not stand for source text of their own.
func synthetic(n, parent goast.Node, field string) bool {
	switch x := n.(type) {
	case *ast.Ident:
		return x.Implicit() || !x.NamePos.IsValid()
	case *ast.EmptyStmt:
		return x.Implicit
	case *ast.FuncDecl:
		return x.Shadow
	case *ast.FieldList:
		return x == nil || !x.Opening.IsValid() && len(x.List) == 0
	case *ast.File:
		return false
	}
	if fd, ok := parent.(*ast.FuncDecl); ok && fd.Shadow {
		return true // Name, Type and the brace-less Body of a shadow entry
	}
	return false
}

func (c *checker) span(n goast.Node) (s span, ok bool) {
	defer func() {
		if recover() != nil {
			ok = false
		}
	}()
	p, e := n.Pos(), n.End()
	if !p.IsValid() || !e.IsValid() {
		return span{}, false
	}
	return span{int(p) - c.base, int(e) - c.base}, true
}

func (c *checker) text(s span) string {
	a, b := s.pos, s.end
	if a < 0 {
		a = 0
	}
	if b > len(c.src) {
		b = len(c.src)
	}
	if a >= b {
		return ""
	}
	t := string(c.src[a:b])
	if len(t) > 80 {
		t = t[:60] + " … " + t[len(t)-15:]
	}
	return t
}

func (c *checker) where(n goast.Node, s span) string {
	line := 1 + bytes.Count(c.src[:clamp(s.pos, 0, len(c.src))], []byte("\n"))
	return fmt.Sprintf("%s [%d,%d) line %d %q", astx.TypeName(n), s.pos, s.end, line, c.text(s))
}

func clamp(x, lo, hi int) int {
	if x < lo {
		return lo
	}
	if x > hi {
		return hi
	}
	return x
}

// understood root causes rank last so that they never hide anything else.
var understood = map[string]int{"end:EnvExpr": 5, "end:LambdaExpr": 6, "end:CallExpr-command": 7, "span:IndexExpr-no-brackets": 8,
	"end:BasicLit-cstring": 9, "child-outside:ValueSpec.Tag": 10, "end:File-shadow-entry": 11, "end:raw-string-cr": 12, "domaintext-args-error-dropped": 13}

type verdicts struct{ best *vk.Verdict }

var debugAll = map[string][]string{} // VK_C17_DEBUG: every class with examples

func (vs *verdicts) add(v *vk.Verdict) {
	if v != nil && os.Getenv("VK_C17_DEBUG") != "" {
		debugAll[v.Class] = append(debugAll[v.Class], v.Detail)
	}
	if v != nil && (vs.best == nil || understood[v.Class] < understood[vs.best.Class]) {
		vs.best = v
	}
}

// visit checks n (post-order: children first, so that a bad boundary is attributed to the
// innermost node that has it).
func (c *checker) visit(n, parent goast.Node, field string, inSynthetic bool) {
	kind := astx.TypeName(n)
	c.in.kinds[kind]++
	c.in.pairs[kind+"<"+astx.TypeName(parent)] = true
	c.in.nodes++
	kids := astx.Children(n, astx.Options{})
	syn := synthetic(n, parent, field)
	for _, k := range kids {
		c.visit(k.Node, n, k.Field, syn)
	}
	if syn {
		return
	}
	s, ok := c.span(n)
	if !ok {
		return
	}
	c.in.checked++

	if ix, isIx := n.(*ast.IndexExpr); isIx && !ix.Lbrack.IsValid() && !ix.Rbrack.IsValid() {
		c.report(n, vk.Bad("span:IndexExpr-no-brackets", "IndexExpr without Lbrack/Rbrack: Pos=%d End=%d, its operands are %s and %s", s.pos, s.end, c.whereOf(ix.X), c.whereOf(ix.Index)))
		c.badEnd[n], c.badPos[n] = true, true
		return
	}

	// boundaries
	posOK, endOK := true, true
	if !c.ts.starts[s.pos] {
		posOK = false
		c.badPos[n] = true
		if !c.inherited(kids, s.pos, true) {
			c.report(n, vk.Bad("pos:"+kind, "Pos of %s is not the start of a token", c.where(n, s)))
		}
	}
	if ls, ok := n.(*ast.LabeledStmt); ok {
		// `L:` directly before a closing brace (or the end of the file-level statements) labels an
		// implicit empty statement, which has no text: the end of the labeled statement is that
		// synthetic node's position (go/ast convention) and is not a token boundary
		if es, ok := ls.Stmt.(*ast.EmptyStmt); ok && es.Implicit {
			c.ts.ends[s.end] = true
		}
	}
	if !c.ts.ends[s.end] {
		endOK = false
		c.badEnd[n] = true
		if !c.inherited(kids, s.end, false) {
			cls := "end:" + kind
			if call, ok := n.(*ast.CallExpr); ok && call.IsCommand() {
				cls = "end:CallExpr-command"
			}
			if lit, ok := n.(*ast.BasicLit); ok && (lit.Kind == token.CSTRING || lit.Kind == token.PYSTRING) {
				cls = "end:BasicLit-cstring"
			}
			if c.rawWithCR(n) {
				cls = "end:raw-string-cr"
			}
			c.report(n, vk.Bad(cls, "End of %s is not just after a token (next bytes %q)", c.where(n, s), c.text(span{s.end, s.end + 12})))
		}
	}
	if posOK && endOK && s.pos >= s.end {
		c.report(n, vk.Bad("empty-span:"+kind, "%s: Pos >= End", c.where(n, s)))
		return
	}

	// children: inside, ordered, disjoint
	last := -1
	lastDesc := ""
	for _, k := range kids {
		if synthetic(k.Node, n, k.Field) {
			continue
		}
		ks, ok := c.span(k.Node)
		if !ok || c.badPos[k.Node] && c.badEnd[k.Node] {
			continue
		}
		if posOK && endOK && (ks.pos < s.pos || ks.end > s.end) && !c.badPos[k.Node] && !c.badEnd[k.Node] {
			c.report(n, vk.Bad("child-outside:"+kind+"."+k.Field, "child %s lies outside its parent %s", c.where(k.Node, ks), c.where(n, s)))
		}
		if _, isFD := n.(*ast.FuncDecl); isFD && k.Field == "Type" {
			continue // go/ast convention: FuncType.Pos is the func keyword, so it spans receiver and name
		}
		if !c.badPos[k.Node] && ks.pos < last {
			c.report(n, vk.Bad("children-overlap:"+kind, "in %s child %s starts before the end (%d) of the preceding child %s", c.where(n, s), c.where(k.Node, ks), last, lastDesc))
		}
		if !c.badEnd[k.Node] && ks.end > last {
			last, lastDesc = ks.end, k.Field
		}
	}

	// re-parse
	if _, isStmt := n.(ast.Stmt); isStmt {
		return // ForPhraseStmt embeds *ForPhrase and so satisfies ast.Expr, but is a statement
	}
	if x, isExpr := n.(ast.Expr); isExpr && posOK && endOK && reparsable(x, parent, field) && !c.hasBadDescendant(n) {
		c.reparse(x, s)
	}
}

// rawWithCR reports whether n is a raw string (or domain text) literal whose source text holds
// carriage returns: the scanner drops them from the literal value (Go spec), and End() is
// computed from the value.
func (c *checker) rawWithCR(n goast.Node) bool {
	var vp gotoken.Pos
	switch x := n.(type) {
	case *ast.BasicLit:
		if x.Kind != token.STRING || len(x.Value) == 0 || x.Value[0] != '`' {
			return false
		}
		vp = x.ValuePos
	case *ast.DomainTextLit:
		vp = x.ValuePos
	default:
		return false
	}
	a := int(vp) - c.base
	if a < 0 || a >= len(c.src) || c.src[a] != '`' {
		return false
	}
	j := bytes.IndexByte(c.src[a+1:], '`')
	return j >= 0 && bytes.IndexByte(c.src[a+1:a+1+j], '\r') >= 0
}

// report records a verdict for node n. Inside the argument list of a domain text literal whose
// syntax errors the parser dropped, every consequence is one root cause.
func (c *checker) report(n goast.Node, v *vk.Verdict) {
	if c.broken[n] {
		v = vk.Bad("domaintext-args-error-dropped", "the argument list of a domain text literal has a syntax error that the parser does not report; consequence: %s: %s", v.Class, v.Detail)
	}
	c.vs.add(v)
}

// markBrokenArgs finds tag`> args …` literals whose argument text is not syntactically valid on
// its own although the file parsed without error (domainTextLitEx parses the arguments with a
// sub-parser and drops its errors). The test is independent of the tree: the text between "> "
// and the start of the raw part is parsed as the arguments of a command-style call.
func (c *checker) markBrokenArgs(f *ast.File) {
	astx.Walk(f, astx.Options{}, func(n, _ goast.Node, _ string) bool {
		d, ok := n.(*ast.DomainTextLit)
		if !ok {
			return true
		}
		ex, ok := d.Extra.(*ast.DomainTextLitEx)
		if !ok || ex == nil {
			return true
		}
		a, b := int(d.ValuePos)-c.base+3, int(ex.RawPos)-c.base
		if a < 0 || b > len(c.src) || a > b {
			return true
		}
		text := "_ " + string(c.src[a:b]) + "\n"
		_, err := parser.ParseFile(gotoken.NewFileSet(), "args.xgo", text, 0)
		if err != nil {
			for _, arg := range ex.Args {
				astx.Walk(arg, astx.Options{}, func(x, _ goast.Node, _ string) bool {
					c.broken[x] = true
					return true
				})
			}
			c.broken[d] = true
		}
		return true
	})
}

func (c *checker) whereOf(n goast.Node) string {
	s, ok := c.span(n)
	if !ok {
		return astx.TypeName(n) + " (no span)"
	}
	return c.where(n, s)
}

// inherited reports whether the bad boundary of a node is the bad boundary of one of its
// children (then the child is the origin and has been reported).
func (c *checker) inherited(kids []astx.Child, off int, isPos bool) bool {
	for _, k := range kids {
		ks, ok := c.span(k.Node)
		if !ok {
			continue
		}
		if isPos && ks.pos == off && c.badPos[k.Node] || !isPos && ks.end == off && c.badEnd[k.Node] {
			return true
		}
	}
	return false
}

func (c *checker) hasBadDescendant(n goast.Node) bool {
	bad := false
	astx.Walk(n, astx.Options{}, func(x, _ goast.Node, _ string) bool {
		if bad || c.badPos[x] || c.badEnd[x] || c.badRe[x] {
			bad = true
			return false
		}
		return true
	})
	return bad
}

// reparsable selects the expressions that stand on their own as a value or type expression.
func reparsable(x ast.Expr, parent goast.Node, field string) bool {
	switch v := x.(type) {
	case *ast.KeyValueExpr, *ast.Ellipsis, *ast.ForPhrase, *ast.ElemEllipsis, *ast.BadExpr:
		return false
	case *ast.ArrayType:
		if _, ok := v.Len.(*ast.Ellipsis); ok {
			return false // raw [...]T: only valid in front of a composite literal
		}
	case *ast.Ident:
		if !token.IsIdentifier(v.Name) && !token.IsKeyword(v.Name) {
			return false // operator name of an operator method
		}
		if token.IsKeyword(v.Name) && v.Name != "goto" && v.Name != "type" && v.Name != "map" && v.Name != "break" && v.Name != "continue" && v.Name != "fallthrough" {
			return false
		}
	case *ast.BasicLit:
		switch field {
		case "Tag", "Path":
			return false // field tags and import paths are plain strings, not interpolated value expressions
		}
	case *ast.DomainTextLit:
		if token.IsKeyword(v.Domain.Name) {
			return false // goto`…` etc.: a keyword is an identifier only at the start of a statement
		}
	case *ast.FuncType:
		if !v.Func.IsValid() {
			return false // interface method signature
		}
		if _, ok := parent.(*ast.FuncDecl); ok {
			return false // spans receiver and name
		}
	}
	switch p := parent.(type) {
	case *ast.LabeledStmt, *ast.BranchStmt:
		return false // labels
	case *ast.SelectorExpr:
		if field == "Sel" {
			return p != nil // selector names are plain identifiers
		}
	}
	return true
}

func (c *checker) reparse(x ast.Expr, s span) {
	text := string(c.src[s.pos:s.end])
	if ellipsisNewline.MatchString(text) {
		// the scanner ends a statement at `...` + newline only outside parentheses: the same text
		// can tokenise differently on its own and inside the parentheses it came from
		c.in.skipped++
		return
	}
	c.in.reparsed++
	kind := astx.TypeName(x)
	y, err := func() (y ast.Expr, err error) {
		defer func() {
			if p := recover(); p != nil {
				err = fmt.Errorf("the parser panics: %v", p)
			}
		}()
		y, err = parseInContext(x, text)
		if err != nil {
			// an expression that stands where a type is expected is read by the type parser there (a
			// parameter type `a[a(), 1]` of a damaged file is an instantiation to it and a syntax error
			// to the expression parser): re-parse it where it came from, as the type of a declaration
			if ty, err2 := parseAsType(text); err2 == nil {
				return ty, nil
			}
			if ty, err2 := parseAsParam(text); err2 == nil {
				return ty, nil
			}
		}
		return y, err
	}()
	if err != nil {
		c.badRe[x] = true
	}
	if env, ok := x.(*ast.EnvExpr); ok && err != nil && env.HasBrace() && s.end < len(c.src) && c.src[s.end] == '}' {
		c.report(x, vk.Bad("end:EnvExpr", "End of %s is the position of its closing brace, not the position after it (re-parsing the slice fails: %v)", c.where(x, s), firstLine(err.Error())))
		return
	}
	if err != nil {
		c.report(x, vk.Bad("reparse-error:"+kind, "%s: ParseExpr of its own source slice fails: %v", c.where(x, s), firstLine(err.Error())))
		return
	}
	if d := astx.EqualModuloPos(x, y); d != "" {
		c.badRe[x] = true
		c.report(x, vk.Bad("reparse-differs:"+kind, "%s: re-parsing its source slice gives a different tree at %s", c.where(x, s), d))
	}
}

// parseAsType parses text in type position: as the type of `var _ <text>`.
func parseAsType(text string) (ast.Expr, error) {
	f, err := parser.ParseFile(gotoken.NewFileSet(), "t.xgo", "package p\n\nvar _ "+text+"\n", 0)
	if err != nil {
		return nil, err
	}
	for _, d := range f.Decls {
		if gd, ok := d.(*ast.GenDecl); ok && len(gd.Specs) == 1 {
			if vs, ok := gd.Specs[0].(*ast.ValueSpec); ok && vs.Type != nil && len(vs.Values) == 0 {
				return vs.Type, nil
			}
		}
	}
	return nil, fmt.Errorf("not a type")
}

// parseAsParam parses text as the type of an unnamed parameter: `func _(<text>)`. The parameter
// list parser decides late whether an entry is a name or a type and accepts more than the type
// parser does.
func parseAsParam(text string) (ast.Expr, error) {
	f, err := parser.ParseFile(gotoken.NewFileSet(), "t.xgo", "package p\n\nfunc _("+text+")\n", 0)
	if err != nil {
		return nil, err
	}
	for _, d := range f.Decls {
		if fd, ok := d.(*ast.FuncDecl); ok && fd.Type != nil && fd.Type.Params != nil && len(fd.Type.Params.List) == 1 {
			if fl := fd.Type.Params.List[0]; len(fl.Names) == 0 && fl.Type != nil {
				return fl.Type, nil
			}
		}
	}
	return nil, fmt.Errorf("not a parameter type")
}

var ellipsisNewline = regexp.MustCompile(`\.\.\.[ \t]*(//[^\n]*|/\*[^\n]*\*/[ \t]*)?\r?\n`)

// parseInContext parses the source text of an expression on its own: ParseExpr for what is an
// expression anywhere; the three expression kinds that only exist in a context are parsed in the
// smallest such context (a range expression as the container of a for-phrase, a matrix literal
// as a call argument, a command-style call as a statement).
func parseInContext(x ast.Expr, text string) (ast.Expr, error) {
	switch v := x.(type) {
	case *ast.RangeExpr:
		y, err := parser.ParseExpr("[_ for _ <- " + text + "]")
		if err != nil {
			return nil, err
		}
		if ce, ok := y.(*ast.ComprehensionExpr); ok && len(ce.Fors) == 1 {
			return ce.Fors[0].X, nil
		}
		return y, nil
	case *ast.MatrixLit:
		// as the argument of a command-style call (not inside parentheses: the scanner ends a
		// matrix row at `...` + newline only outside parentheses)
		y, err := parseStmtExpr("_ " + text)
		if err != nil {
			return nil, err
		}
		if call, ok := y.(*ast.CallExpr); ok && len(call.Args) == 1 {
			return call.Args[0], nil
		}
		return y, nil
	case *ast.CallExpr:
		if v.IsCommand() {
			return parseStmtExpr(text)
		}
	}
	return parser.ParseExpr(text)
}

// parseStmtExpr parses text as the only statement of a function body and returns its expression.
func parseStmtExpr(text string) (ast.Expr, error) {
	f, err := parser.ParseFile(gotoken.NewFileSet(), "stmt.xgo", "func _() {\n"+text+"\n}\n", 0)
	if err != nil {
		return nil, err
	}
	if len(f.Decls) == 1 {
		if fd, ok := f.Decls[0].(*ast.FuncDecl); ok && fd.Body != nil && len(fd.Body.List) == 1 {
			if es, ok := fd.Body.List[0].(*ast.ExprStmt); ok {
				return es.X, nil
			}
		}
	}
	return nil, fmt.Errorf("the text does not parse as one expression statement")
}

func firstLine(s string) string {
	if i := strings.IndexByte(s, '\n'); i >= 0 {
		return s[:i]
	}
	return s
}

// ---- the oracle ------------------------------------------------------------------------------

func spans(c Case) (*vk.Verdict, info) {
	in := info{kinds: map[string]int{}, pairs: map[string]bool{}}
	fset := gotoken.NewFileSet()
	f, err := astx.ParseAny(fset, c.Name, c.Src, 0)
	if err != nil || f == nil {
		in.rejected = "parse-error"
		return nil, in
	}
	if bad := astx.HasBad(f); bad != "" {
		in.rejected = "bad-node" // C13's business
		return nil, in
	}
	var tf *gotoken.File
	fset.Iterate(func(x *gotoken.File) bool { tf = x; return false })
	ck := &checker{src: c.Src, base: tf.Base(), size: tf.Size(), in: &in,
		ts:     tokens{starts: map[int]bool{}, ends: map[int]bool{}},
		badEnd: map[goast.Node]bool{}, badPos: map[goast.Node]bool{}, badRe: map[goast.Node]bool{}, broken: map[goast.Node]bool{}}
	ck.ts.addTokens(c.Src, 0, len(c.Src), 0)
	ck.markBrokenArgs(f)
	ck.file(f)
	return ck.vs.best, in
}

// file checks the File node itself and then every declaration.
func (c *checker) file(f *ast.File) {
	c.in.kinds["File"]++
	c.in.nodes++
	for _, k := range astx.Children(f, astx.Options{}) {
		c.visit(k.Node, f, k.Field, false)
	}
	s, ok := c.span(f)
	if !ok {
		return
	}
	if f.Package.IsValid() && !c.ts.starts[s.pos] {
		c.vs.add(vk.Bad("pos:File", "File.Pos()=%d is not the start of a token", s.pos))
	}
	if !c.ts.ends[s.end] && len(f.Decls) > 0 {
		last := f.Decls[len(f.Decls)-1]
		if fd, ok := last.(*ast.FuncDecl); ok && fd.Shadow {
			if fd.Body != nil && len(fd.Body.List) > 0 && c.badEnd[fd.Body.List[len(fd.Body.List)-1]] && c.lastStmtEnd(fd) == s.end {
				return // inherited from the last statement, reported there
			}
			c.vs.add(vk.Bad("end:File-shadow-entry", "File.End()=%d is not just after the last token of the file (last statement of the shadow entry ends at %d, file size %d)", s.end, c.lastStmtEnd(fd), c.size))
		} else if !c.badEnd[last] {
			c.vs.add(vk.Bad("end:File", "File.End()=%d is not just after a token", s.end))
		}
	}
}

func (c *checker) lastStmtEnd(fd *ast.FuncDecl) int {
	if fd.Body == nil || len(fd.Body.List) == 0 {
		return -1
	}
	if s, ok := c.span(fd.Body.List[len(fd.Body.List)-1]); ok {
		return s.end
	}
	return -1
}

var _ = vk.Register("spans", func(c Case) *vk.Verdict { v, _ := spans(c); return v })

func safeSpans(c Case) (v *vk.Verdict, in info) {
	defer func() {
		if p := recover(); p != nil {
			v = vk.Bad("harness-panic", "%v\n%s", p, debug.Stack())
		}
	}()
	return spans(c)
}

type failer interface {
	Fatalf(string, ...any)
	Helper()
}

func run(t failer, c Case, class string) {
	v, in := safeSpans(c)
	if in.rejected != "" {
		vk.R.Rejected(class + ":" + in.rejected)
		vk.R.Case(false, "")
		return
	}
	xgo := false
	kinds := make([]string, 0, len(in.kinds))
	for k := range in.kinds {
		kinds = append(kinds, k)
		if astgen.XGoOnly[k] {
			xgo = true
		}
	}
	sort.Strings(kinds)
	pairs := make([]string, 0, len(in.pairs))
	for k := range in.pairs {
		pairs = append(pairs, k)
	}
	sort.Strings(pairs)
	vk.R.Case(xgo, strings.Join(pairs, ","))
	vk.R.Class(class)
	for _, k := range kinds {
		vk.R.ClassN("kind="+k, int64(in.kinds[k]))
	}
	vk.R.Add("nodes", int64(in.nodes))
	vk.R.Add("nodes_with_checked_span", int64(in.checked))
	vk.R.Add("expressions_reparsed", int64(in.reparsed))
	vk.R.Add("reparse_skipped_ellipsis_newline", int64(in.skipped))
	if xgo && len(c.Src) < 300 {
		vk.R.Sample(string(c.Src))
	}
	if os.Getenv("VK_C17_DEBUG") != "" {
		return
	}
	vk.R.Check(t, "spans", c, v)
}

// ---- tests -----------------------------------------------------------------------------------

var names = []string{"a.xgo", "a.xgo", "a.xgo", "a.gop", "A.gox", "A_spx.gox", "main.spx", "Cat.spx", "a.gsh", "a.gmx", "a.yap", "a.go"}

func TestCorpusMutants(t *testing.T) {
	g := lex.CorpusMutant(append(append([]string{}, lex.XGoExts...), ".go")...)
	vk.R.Rapid(t, 1, 10000, 200000, func(t *rapid.T) {
		src := g.Draw(t, "src")
		run(t, Case{Name: rapid.SampledFrom(names).Draw(t, "name"), Src: src}, "src=corpus-mutant")
	})
}

func TestGeneratedXGo(t *testing.T) {
	vk.R.Rapid(t, 2, 8000, 160000, func(t *rapid.T) {
		name := rapid.SampledFrom([]string{"a.xgo", "a.xgo", "A.gox", "main.spx"}).Draw(t, "name")
		src := xgotext.File(!strings.HasSuffix(name, ".xgo")).Draw(t, "src")
		run(t, Case{Name: name, Src: vk.Bytes(src)}, "src=generated-xgo")
	})
}

func TestGeneratedGo(t *testing.T) {
	vk.R.Rapid(t, 3, 600, 20000, func(t *rapid.T) {
		opt := godecl.Options{IndexList: rapid.Bool().Draw(t, "il")}
		src := godecl.File(opt).Draw(t, "src")
		run(t, Case{Name: "a.go", Src: vk.Bytes(src)}, "src=generated-go")
	})
}

func TestCorpus(t *testing.T) {
	if vk.R.Shard != 0 {
		return
	}
	n := 0
	for _, f := range lex.Corpus() {
		if filepath.Ext(f.Path) == ".tpl" {
			continue
		}
		n++
		run(t, Case{Name: filepath.Base(f.Path), Src: vk.Bytes(f.Src)}, "src=corpus")
	}
	vk.R.Set("corpus_files", int64(n))
	if os.Getenv("VK_C17_DEBUG") != "" {
		var ks []string
		for k := range debugAll {
			ks = append(ks, k)
		}
		sort.Strings(ks)
		for _, k := range ks {
			fmt.Printf("DEBUG %5d %s\n", len(debugAll[k]), k)
			for i, d := range debugAll[k] {
				if i < 3 {
					fmt.Printf("        %s\n", strings.ReplaceAll(d, "\n", "\\n"))
				}
			}
		}
	}
}

//go:build verif

// C04 — a range expression denotes the same integer sequence in every context.
package c04

import (
	"fmt"
	"testing"

	"verif/internal/gen/xsugar"
	"verif/internal/sugarcheck"
	"verif/internal/vk"
)

func TestMain(m *testing.M) {
	vk.Main(m, "C04", "exploration",
		"exhaustive grid start,end in [-4,4], step in {-3..3}\\{0} (486 triples), each in 2 of 7 spellings per run (literal, omitted start/step, variables, parenthesised expressions, traced calls, constants, mixed operand forms; the pair rotates with VERIF_SEED, thorough runs all 7) plus rapid-drawn larger bounds; every triple is printed from for <-, for in, for := range, for = range, labelled for <- with continue, for range (count), for <- if, list/map/select/exists comprehensions and a nested two-phrase comprehension, each loop with a 64-iteration fuse. Oracle: all contexts print the sequence of the reference loop for i:=start; (step>0 && i<end)||(step<0 && i>end); i+=step. Non-trivial = not (unit step and at most one element); distinct = (start,end,step,spelling)")
}

var oracle = sugarcheck.NewOracle("pair", nil)

var spellings = []string{"literal", "omit", "var", "expr", "call", "const", "mixed"}

func negKnown() bool {
	return vk.R.HasKnown("differs:range-neg-stmt")
}

func TestGrid(t *testing.T) {
	r := vk.R
	use := spellings
	if !r.Thorough() {
		k := int(r.Seed) % len(spellings)
		use = []string{spellings[k], spellings[(k+2)%len(spellings)]}
	}
	var items []xsugar.Item
	for _, sp := range use {
		for start := -4; start <= 4; start++ {
			for end := -4; end <= 4; end++ {
				for step := -3; step <= 3; step++ {
					if step == 0 {
						continue
					}
					if sp == "omit" && start != 0 && step != 1 {
						continue // nothing can be omitted: same as literal
					}
					full := true
					if step < 0 && negKnown() {
						// statement contexts with a negative step are a listed known finding: keep exploring
						// the comprehension contexts of the same triple
						full = false
						r.Excluded("range-neg-statement-contexts")
					}
					items = append(items, xsugar.RangeItem(start, end, step, sp, full))
				}
			}
		}
	}
	// programs of 60 items
	var progs []*xsugar.Program
	for i := 0; i < len(items); i += 60 {
		j := i + 60
		if j > len(items) {
			j = len(items)
		}
		progs = append(progs, &xsugar.Program{Items: items[i:j]})
	}
	r.Set("grid_points", int64(len(items)))
	r.Exhaustive(true)
	sugarcheck.RunPrograms(t, r, sugarcheck.Options{Name: "pair", Oracle: oracle,
		Documented: func(xsugar.Item) bool { return true }}, progs)
}

func TestLarger(t *testing.T) {
	r := vk.R
	// bounds outside the grid: drawn, small spans so that loops stay short
	sugarcheck.Run(t, r, sugarcheck.Options{Name: "pair", Oracle: oracle, Quick: 6, Thorough: 120,
		Documented: func(xsugar.Item) bool { return true },
		Program: func(g *xsugar.G) *xsugar.Program {
			p := &xsugar.Program{}
			for i := 0; i < 30; i++ {
				start := g.Intn(2001, "start") - 1000
				step := g.Intn(41, "step") - 20
				if step == 0 {
					step = 7
				}
				if step < 0 && negKnown() && g.Chance(70, "avoidneg") {
					step = -step
				}
				n := g.Intn(9, "n")
				end := start + step*n + g.Intn(3, "rem")*sign(step)
				if g.Chance(15, "reverse") {
					end = start - step*n
				}
				full := !(step < 0 && negKnown())
				p.Items = append(p.Items, xsugar.RangeItem(start, end, step, spellings[g.Intn(len(spellings), "sp")], full))
			}
			return p
		}})
	_ = fmt.Sprint
}

func sign(x int) int {
	if x < 0 {
		return -1
	}
	return 1
}

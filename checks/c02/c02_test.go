//go:build verif

// C02 — XGo collection sugar evaluates like its documented Go expansion.
package c02

import (
	"testing"

	"verif/internal/gen/xsugar"
	"verif/internal/sugarcheck"
	"verif/internal/vk"
)

func TestMain(m *testing.M) {
	vk.Main(m, "C02", "exploration",
		"programs of 12 items drawn from: list/map literals (typing by element kinds), a <- v / a <- v1, v2 / a <- s... (identifiers and selectors), for-in over lists, string lists, maps and ranges with optional index/key and if filter (<- and in), list/map/select/exists comprehensions with 1-3 for-phrases and per-phrase filters, command-style calls; element and filter expressions contain traced calls. Each item is rendered as XGo and as the explicit Go loops/calls of doc/docs.md (last for-phrase outermost); oracle: equal printed values and evaluation trace per item. Non-trivial = item has a filter, >= 2 phrases or a traced side effect; distinct = item text")
}

var oracle = sugarcheck.NewOracle("pair", nil)

func TestCollections(t *testing.T) {
	vk.R.Assume("Go toolchain output of the hand-expanded loops is the documented meaning")
	sugarcheck.Run(t, vk.R, sugarcheck.Options{
		Name:    "pair",
		Oracle:  oracle,
		Program: func(g *xsugar.G) *xsugar.Program { return xsugar.CollectionProgram(g, 12) },
		// every item shape is a documented form (doc/docs.md) or a direct generalisation of one, and
		// none is rejected on the pinned tree: a compile-time rejection is a regression of the sugar.
		Documented: func(xsugar.Item) bool { return true },
		Quick:      40,
		Thorough:   800,
	})
}

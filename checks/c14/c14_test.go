//go:build verif

// C14 — valid Go files parse to the same syntax tree as with go/parser.
package c14

import (
	"fmt"
	goast "go/ast"
	goparser "go/parser"
	gotoken "go/token"
	"os"
	"path/filepath"
	"runtime"
	"runtime/debug"
	"sort"
	"strings"
	"testing"

	"github.com/goplus/xgo/parser"

	"verif/internal/astx"
	"verif/internal/gen/gosub"
	"verif/internal/gen/lex"
	"verif/internal/vk"
)

func TestMain(m *testing.M) {
	vk.Main(m, "C14", "exploration",
		"Go files: (a) gosub programs (type-checked by construction, with and without drawn blank lines/comments), (b) every .go file of the repository that belongs to a package the repository builds (no testdata/demo directories), (c) thorough: every non-testdata .go file under GOROOT/src. Oracle: go/parser accepts => XGo parser.ParseFile returns nil error and astx.CrossEqual (same node types, identifiers, literals, operators; positions, objects and comments ignored). A file that is rejected or differs is classified by the Go feature at the point of failure (generics, `$` inside a string literal) or reported as an unlisted class. Non-trivial = at least 30 statements; distinct = hash of the file")
}

type Case struct {
	Name string `json:"name"`
	Src  string `json:"src"`
}

type feat struct {
	generics, dollar bool
	stmts            int
}

func features(f *goast.File) (ft feat) {
	goast.Inspect(f, func(n goast.Node) bool {
		switch n := n.(type) {
		case *goast.FuncType:
			if n.TypeParams != nil {
				ft.generics = true
			}
		case *goast.TypeSpec:
			if n.TypeParams != nil {
				ft.generics = true
			}
		case *goast.IndexListExpr:
			ft.generics = true
		case *goast.UnaryExpr:
			if n.Op == gotoken.TILDE {
				ft.generics = true
			}
		case *goast.InterfaceType:
			for _, m := range n.Methods.List {
				if len(m.Names) == 0 {
					if _, ok := m.Type.(*goast.BinaryExpr); ok { // union
						ft.generics = true
					}
				}
			}
		case *goast.BasicLit:
			if n.Kind == gotoken.STRING && strings.Contains(n.Value, "$") {
				ft.dollar = true
			}
		case goast.Stmt:
			ft.stmts++
		}
		return true
	})
	return
}

type info struct {
	rejected string
	ft       feat
}

func compare(c Case) (v *vk.Verdict, in info) {
	defer func() {
		if p := recover(); p != nil {
			v = vk.Bad("panic", "%v\n%s", p, debug.Stack())
		}
	}()
	gfset := gotoken.NewFileSet()
	gf, err := goparser.ParseFile(gfset, "x.go", c.Src, goparser.SkipObjectResolution)
	if err != nil {
		in.rejected = "go/parser-rejects"
		return nil, in
	}
	in.ft = features(gf)
	xfset := gotoken.NewFileSet()
	xf, xerr := parser.ParseFile(xfset, "x.go", c.Src, 0)
	suffix := ""
	switch {
	case in.ft.generics:
		suffix = ":generics"
	case in.ft.dollar:
		suffix = ":dollar-in-string"
	}
	if xerr != nil {
		return vk.Bad("xgo-parser-rejects"+suffix, "%s: go/parser accepts the file, the XGo parser reports: %v", c.Name, firstLine(xerr.Error())), in
	}
	if d := astx.CrossEqual(gf, xf); d != "" {
		return vk.Bad("tree-differs"+suffix, "%s: %s", c.Name, d), in
	}
	return nil, in
}

func firstLine(s string) string {
	if i := strings.IndexByte(s, '\n'); i >= 0 {
		return s[:i]
	}
	return s
}

var oracle = vk.Register("cmp", func(c Case) *vk.Verdict { v, _ := compare(c); return v })

func run(t *testing.T, c Case, class string) {
	v, in := compare(c)
	if in.rejected != "" {
		vk.R.Rejected(in.rejected)
		vk.R.Case(false, "")
		return
	}
	vk.R.Case(in.ft.stmts >= 30, c.Src)
	vk.R.Class(class)
	if in.ft.generics {
		vk.R.Class("uses-generics")
	}
	if in.ft.dollar {
		vk.R.Class("dollar-in-string")
	}
	if v = vk.R.Judge(v); v != nil {
		if len(c.Src) > 3000 {
			c = shrink(c, v.Class)
		}
		vk.R.Fail("cmp", c, oracle(c))
		t.Errorf("%s", v)
	}
}

// shrink keeps only the top-level declarations needed to reproduce the same class.
func shrink(c Case, class string) Case {
	fset := gotoken.NewFileSet()
	f, err := goparser.ParseFile(fset, "x.go", c.Src, goparser.SkipObjectResolution)
	if err != nil {
		return c
	}
	tf := fset.File(f.Pos())
	header := c.Src[:tf.Offset(f.Name.End())] + "\n\n"
	var keep []string
	for _, d := range f.Decls {
		keep = append(keep, c.Src[tf.Offset(d.Pos()):tf.Offset(d.End())])
	}
	try := func(parts []string) bool {
		v, _ := compare(Case{Src: header + strings.Join(parts, "\n\n") + "\n"})
		return v != nil && v.Class == class
	}
	if !try(keep) {
		return c
	}
	for i := 0; i < len(keep); {
		cand := append(append([]string(nil), keep[:i]...), keep[i+1:]...)
		if try(cand) {
			keep = cand
		} else {
			i++
		}
	}
	return Case{Name: c.Name + " (reduced)", Src: header + strings.Join(keep, "\n\n") + "\n"}
}

func TestGenerated(t *testing.T) {
	r := vk.R
	n := r.N(300, 6000)
	g1, g2 := gosub.Gen(), gosub.GenOpt(gosub.Options{Layout: true, Marks: true})
	for i := 0; i < n; i++ {
		g := g1
		if i%2 == 1 {
			g = g2
		}
		p := vk.Example(r, g, 1, i)
		run(t, Case{Name: fmt.Sprintf("gosub#%d", i), Src: p.Source()}, "src=gosub")
		if i == 0 {
			r.Sample(p.Source())
		}
	}
}

func buildable(rel string) bool {
	for _, part := range strings.Split(filepath.ToSlash(rel), "/") {
		if part == "testdata" || strings.HasPrefix(part, "_") || part == "demo" || part == "testdata_" {
			return false
		}
	}
	return true
}

func TestRepoGoFiles(t *testing.T) {
	if vk.R.Shard != 0 {
		return
	}
	for _, f := range lex.Corpus(".go") {
		if !buildable(f.Rel) {
			vk.R.Rejected("not-in-a-built-package")
			continue
		}
		run(t, Case{Name: f.Rel, Src: string(f.Src)}, "src=repo.go")
	}
}

func TestGorootFiles(t *testing.T) {
	r := vk.R
	if !r.Thorough() {
		return
	}
	root := filepath.Join(runtime.GOROOT(), "src")
	var files []string
	filepath.Walk(root, func(p string, info os.FileInfo, err error) error {
		if err != nil {
			return nil
		}
		if info.IsDir() {
			if info.Name() == "testdata" || info.Name() == "vendor" {
				return filepath.SkipDir
			}
			return nil
		}
		if strings.HasSuffix(p, ".go") && info.Size() < 400000 {
			files = append(files, p)
		}
		return nil
	})
	sort.Strings(files)
	r.Assume("GOROOT/src files outside testdata type-check (they are the standard library of the running toolchain)")
	for i, p := range files {
		if i%r.Shards != r.Shard {
			continue
		}
		b, err := os.ReadFile(p)
		if err != nil {
			continue
		}
		rel, _ := filepath.Rel(root, p)
		run(t, Case{Name: "GOROOT/src/" + rel, Src: string(b)}, "src=goroot")
	}
}

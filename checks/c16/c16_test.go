//go:build verif

// C16 — the XGo scanner agrees with go/scanner on Go lexemes.
package c16

import (
	"fmt"
	goscanner "go/scanner"
	gotoken "go/token"
	"runtime/debug"
	"sort"
	"strings"
	"testing"
	"unicode"
	"unicode/utf8"

	"github.com/goplus/xgo/scanner"
	"github.com/goplus/xgo/token"
	"pgregory.net/rapid"

	"verif/internal/gen/lex"
	"verif/internal/vk"
)

func TestMain(m *testing.M) {
	vk.Main(m, "C16", "exploration",
		"sequences of Go lexemes (identifiers, keywords, operators, valid and malformed numeric/rune/string/raw literals, comments) with drawn separators, plus an exhaustive enumeration of short numeric spellings and quoted bodies; inputs in which go/scanner's own token stream shows an XGo-specific lexeme (=> -> <> ? $ #, number glued to a letter, c\"/C\"/py\" prefixes) are outside the statement and counted under rejected. Oracle: go/scanner of the running toolchain (kinds, offsets, literals, automatic semicolons, set of error offsets). Non-trivial = contains a literal with separator/escape/exponent/prefix or a comment next to a semicolon insertion point; distinct = hash of bytes")
}

type Case struct {
	Src vk.Bytes `json:"src"`
}

type tk struct {
	off int
	tok string // spelling class: Go token name/spelling
	lit string
}

func scanGo(src []byte) (toks []tk, errs []int) {
	fset := gotoken.NewFileSet()
	f := fset.AddFile("x.go", -1, len(src))
	var s goscanner.Scanner
	s.Init(f, src, func(p gotoken.Position, msg string) { errs = append(errs, p.Offset) }, goscanner.ScanComments)
	for i := 0; i < 2*len(src)+4; i++ {
		pos, tok, lit := s.Scan()
		if tok == gotoken.EOF {
			break
		}
		toks = append(toks, tk{f.Offset(pos), tok.String(), lit})
	}
	return
}

func scanXGo(src []byte) (toks []tk, errs []int) {
	fset := gotoken.NewFileSet()
	f := fset.AddFile("x.go", -1, len(src))
	var s scanner.Scanner
	s.Init(f, src, func(p gotoken.Position, msg string) { errs = append(errs, p.Offset) }, scanner.ScanComments)
	for i := 0; i < 2*len(src)+4; i++ {
		pos, tok, lit := s.Scan()
		if tok == token.EOF {
			break
		}
		toks = append(toks, tk{f.Offset(pos), tok.String(), lit})
	}
	return
}

func isNum(t string) bool  { return t == "INT" || t == "FLOAT" || t == "IMAG" }
func isWord(t string) bool { return t == "IDENT" || (len(t) > 1 && t[0] >= 'a' && t[0] <= 'z') }

func tokLen(t tk) int {
	if t.lit != "" {
		return len(t.lit) // approximate for CR-stripped literals; only used for adjacency
	}
	return len(t.tok)
}

// outside reports why the input is outside the statement's domain ("" = inside).
func outside(src []byte, g []tk) string {
	for i, a := range g {
		if a.tok == "ILLEGAL" {
			switch a.lit {
			case "?", "$", "#":
				return "xgo-char " + a.lit
			}
			return "illegal-char" // a character that belongs to no Go lexeme: outside "composed only of Go lexemes"
		}
		if isNum(a.tok) { // XGo reads letters (and digits) glued to a number as a unit suffix
			e := a.off + len(a.lit)
			if e < len(src) {
				r, _ := utf8.DecodeRune(src[e:])
				if r == '_' || unicode.IsLetter(r) || a.tok == "IMAG" && unicode.IsDigit(r) {
					return "number-unit"
				}
			}
		}
		if i+1 >= len(g) {
			continue
		}
		b := g[i+1]
		adjacent := a.off+tokLen(a) == b.off
		if !adjacent {
			continue
		}
		bs := b.tok
		if b.lit != "" {
			bs = b.lit
		}
		switch {
		case (a.tok == "=" || a.tok == "-" || a.tok == "<") && strings.HasPrefix(bs, ">"):
			return "xgo-op " + a.tok + ">"
		case a.tok == "IDENT" && (a.lit == "c" || a.lit == "C" || a.lit == "py") && b.tok == "STRING" && strings.HasPrefix(b.lit, `"`):
			return "cstring-prefix"
		}
	}
	return ""
}

func split(ts []tk) (code, comments []tk) {
	for _, t := range ts {
		if t.tok == "COMMENT" {
			comments = append(comments, t)
		} else {
			code = append(code, t)
		}
	}
	return
}

func uniq(a []int) []int {
	sort.Ints(a)
	var out []int
	for i, v := range a {
		if i == 0 || v != a[i-1] {
			out = append(out, v)
		}
	}
	return out
}

type info struct {
	rejected string
	interest bool
	ntok     int
}

func compare(c Case) (v *vk.Verdict, in info) {
	defer func() {
		if p := recover(); p != nil {
			v = vk.Bad("panic", "%v\n%s", p, debug.Stack())
		}
	}()
	src := []byte(c.Src)
	g, gerr := scanGo(src)
	in.ntok = len(g)
	if why := outside(src, g); why != "" {
		in.rejected = why
		return nil, in
	}
	x, xerr := scanXGo(src)
	gc, gm := split(g)
	xc, xm := split(x)
	for i := 0; i < len(gc) || i < len(xc); i++ {
		if i >= len(gc) || i >= len(xc) {
			return vk.Bad(classOf(src, gc, xc, i), "token count differs: go/scanner %d tokens, XGo %d; first extra at index %d: go=%v xgo=%v", len(gc), len(xc), i, at(gc, i), at(xc, i)), in
		}
		a, b := gc[i], xc[i]
		if a.tok != b.tok || a.lit != b.lit {
			return vk.Bad(classOf(src, gc, xc, i), "token %d differs: go/scanner %v, XGo %v", i, a, b), in
		}
		if a.off != b.off {
			if a.tok == ";" && a.lit == "\n" && b.off < a.off && b.off < len(src) && src[b.off] == '/' {
				in.interest = true
				continue // automatic semicolon before/after a trailing comment: both orders are Go's
			}
			return vk.Bad("offset", "token %d %v: go/scanner offset %d, XGo offset %d", i, a.tok, a.off, b.off), in
		}
		if isNum(a.tok) && strings.ContainsAny(a.lit, "_xXbBoOeEpP.") || (a.tok == "CHAR" || a.tok == "STRING") && strings.ContainsAny(a.lit, "\\\r") {
			in.interest = true
		}
	}
	if len(gm) != len(xm) {
		return vk.Bad("comments", "go/scanner sees %d comments, XGo %d", len(gm), len(xm)), in
	}
	for i := range gm {
		if gm[i] != xm[i] {
			return vk.Bad("comments", "comment %d differs: go/scanner %v, XGo %v", i, gm[i], xm[i]), in
		}
	}
	ge, xe := uniq(gerr), uniq(xerr)
	if fmt.Sprint(ge) != fmt.Sprint(xe) {
		return vk.Bad("error-offsets", "go/scanner reports errors at offsets %v, XGo at %v", ge, xe), in
	}
	return nil, in
}

func at(ts []tk, i int) any {
	if i < len(ts) {
		return ts[i]
	}
	return "<none>"
}

// classOf names the two documented XGo semicolon rules so that they can be listed as known
// findings without hiding any other disagreement.
func classOf(src []byte, gc, xc []tk, i int) string {
	if i < len(xc) && xc[i].tok == ";" && xc[i].lit == "\n" && i > 0 && i-1 < len(gc) {
		j := i - 1
		for j > 0 && gc[j].tok == "ILLEGAL" { // illegal characters preserve the pending-semicolon state
			j--
		}
		switch gc[j].tok {
		case "!":
			return "semi-after-not"
		case "...":
			return "semi-after-ellipsis"
		}
	}
	return "token-mismatch"
}

var oracle = vk.Register("cmp", func(c Case) *vk.Verdict { v, _ := compare(c); return v })

type failer interface {
	Fatalf(string, ...any)
	Helper()
}

func run(t failer, c Case, class string) {
	v, in := compare(c)
	if in.rejected != "" {
		vk.R.Rejected(strings.SplitN(in.rejected, " ", 2)[0])
		vk.R.Case(false, "")
		return
	}
	vk.R.Case(in.interest && in.ntok >= 2, string(c.Src))
	vk.R.Class(class)
	if in.interest {
		vk.R.Sample(string(c.Src))
	}
	vk.R.Check(t, "cmp", c, v)
}

// goLexeme avoids, by construction, most XGo-only spellings (the rest is filtered by outside()).
func goSoup() *rapid.Generator[string] {
	return rapid.Custom(func(t *rapid.T) string {
		n := rapid.IntRange(1, 14).Draw(t, "n")
		var b strings.Builder
		prevWordOrNum := false
		for i := 0; i < n; i++ {
			lx := lex.GoLexeme().Draw(t, "lx")
			sep := lex.Sep().Draw(t, "sep")
			startsWord := lx != "" && (lx[0] == '_' || lx[0] >= 'a' && lx[0] <= 'z' || lx[0] >= 'A' && lx[0] <= 'Z' || lx[0] >= 0x80 || lx[0] >= '0' && lx[0] <= '9' || lx[0] == '.')
			if prevWordOrNum && startsWord && b.Len() > 0 {
				last := b.String()[b.Len()-1]
				if !(last == ' ' || last == '\n' || last == '\t' || last == '\r') {
					b.WriteByte(' ')
				}
			}
			b.WriteString(lx)
			b.WriteString(sep)
			prevWordOrNum = sep == "" && lx != "" && (isWordByte(lx[len(lx)-1]))
		}
		return b.String()
	})
}

func isWordByte(c byte) bool {
	return c == '_' || c >= 'a' && c <= 'z' || c >= 'A' && c <= 'Z' || c >= '0' && c <= '9' || c >= 0x80 || c == '.'
}

func TestGoSoup(t *testing.T) {
	g := goSoup()
	vk.R.Rapid(t, 1, 150000, 2500000, func(t *rapid.T) {
		run(t, Case{Src: vk.Bytes(g.Draw(t, "src"))}, "src=go-soup")
	})
}

func TestGoCorpus(t *testing.T) {
	if vk.R.Shard != 0 {
		return
	}
	for _, f := range lex.Corpus(".go") {
		run(t, Case{Src: vk.Bytes(f.Src)}, "src=corpus.go")
	}
}

func TestGoCorpusMutants(t *testing.T) {
	g := lex.CorpusMutant(".go")
	vk.R.Rapid(t, 2, 8000, 200000, func(t *rapid.T) {
		run(t, Case{Src: vk.Bytes(g.Draw(t, "src"))}, "src=corpus-mutant")
	})
}

// TestExhaustiveSpellings enumerates all numeric spellings over a 17-letter alphabet and all
// quoted bodies over a 10-letter alphabet up to a tier-dependent length, each followed by a
// newline (so the automatic semicolon is compared too).
func TestExhaustiveSpellings(t *testing.T) {
	numAlpha := []byte("0179afxobep_.+-i8")
	qAlpha := []byte(`a\'"nx40uU7`)
	nl, ql := 4, 4
	if vk.R.Thorough() {
		nl, ql = 5, 5
	}
	shard, shards := vk.R.Shard, vk.R.Shards
	count := 0
	var rec func(prefix []byte, alpha []byte, max int, emit func([]byte))
	rec = func(prefix []byte, alpha []byte, max int, emit func([]byte)) {
		if len(prefix) > 0 {
			count++
			if count%shards == shard {
				emit(prefix)
			}
		}
		if len(prefix) == max {
			return
		}
		for _, c := range alpha {
			rec(append(prefix, c), alpha, max, emit)
		}
	}
	rec(nil, numAlpha, nl, func(b []byte) {
		if !(b[0] >= '0' && b[0] <= '9' || b[0] == '.') {
			return
		}
		run(t, Case{Src: vk.Bytes(string(b) + "\n")}, "src=exhaustive-number")
	})
	for _, q := range []string{`"`, `'`} {
		rec(nil, qAlpha, ql, func(b []byte) {
			run(t, Case{Src: vk.Bytes(q + string(b) + q + "\n")}, "src=exhaustive-quoted")
		})
	}
	vk.R.Set("exhaustive_number_len", int64(nl))
	vk.R.Set("exhaustive_quoted_len", int64(ql))
}

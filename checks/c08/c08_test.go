//go:build verif

// C08 — compilation output is deterministic.
package c08

import (
	"bytes"
	"crypto/sha256"
	"encoding/hex"
	"encoding/json"
	"fmt"
	goast "go/ast"
	"os"
	"os/exec"
	"path/filepath"
	"runtime/debug"
	"sort"
	"strings"
	"testing"

	"github.com/goplus/mod/modfile"
	"github.com/goplus/xgo/ast"
	"github.com/goplus/xgo/cl"
	"github.com/goplus/xgo/parser"
	"github.com/goplus/xgo/parser/fsx/memfs"
	"github.com/qiniu/x/errors"
	"pgregory.net/rapid"

	"verif/internal/astx"
	"verif/internal/gen/gosub"
	"verif/internal/gen/xsugar"
	"verif/internal/vk"
	"verif/internal/xcl"
)

func TestMain(m *testing.M) {
	if p := os.Getenv("VK_C08_WORKER"); p != "" {
		os.Exit(worker(p))
	}
	vk.Main(m, "C08", "exploration",
		"packages = (a) gosub programs split over 1–4 .xgo and 0–2 .go files (types, their methods and their users in different files, an init function per file, overload declarations `func f = (…)` whose candidates live in other files, types and functions that only a .go file declares), (b) xsugar class programs (1–2 normal .gox classes + .xgo users) and overload/collection programs with a .go helper file, (c) error mutants of (a)/(b): dropped declarations and injected ill-typed declarations in several files, so that several errors are reported, (d) project packages: project class files and work class files of 1-4 of the class frameworks of the repository's test packages (spx .tgmx/.tspx, spx2 .t2gmx/.t2spx, spx4 .t4gmx/.t4spx, mcp _mcp.gox/_tool.gox) with 0-2 project files per framework, fields, methods and main bodies, optionally a plain .xgo and .go file and ill-typed methods in several files. Oracle (metamorphic): the same sources are compiled K=12 times in one process (fresh parse; directory listing permuted; the ast.Package Files/GoFiles maps rebuilt in a permuted insertion order) and once in each of 3 fresh worker processes (per case for a drawn sample and for replays; for every case of the run in 3 batch workers): the bytes written by WriteTo and the error list (order included) must be identical. A package the parser rejects is outside the statement (parse errors are reported in listing order by design). Non-trivial = at least 2 files and a cross-file reference (two class files of a framework count as one), or at least 2 reported errors; distinct = hash of the sources")
}

type SrcFile struct {
	Name string `json:"name"`
	Src  string `json:"src"`
}

type Case struct {
	Files   []SrcFile `json:"files"`
	Seed    int       `json:"seed"`              // drives the permutations of listing and map insertion order
	Workers bool      `json:"workers,omitempty"` // also compile in 3 fresh processes
}

const K = 12

// ---- one compilation -------------------------------------------------------------------------

type outcome struct {
	Go       string   `json:"go"` // generated source ("" if none)
	Errs     []string `json:"errs"`
	ParseErr string   `json:"parse_err,omitempty"`
}

func (o outcome) digest() string {
	h := sha256.New()
	h.Write([]byte(o.Go))
	h.Write([]byte{0})
	for _, e := range o.Errs {
		h.Write([]byte(e))
		h.Write([]byte{0})
	}
	return hex.EncodeToString(h.Sum(nil)[:8])
}

// perm returns the i-th permutation of 0..n-1 derived from seed (a small LCG: no global state).
func perm(n, seed, i int) []int {
	p := make([]int, n)
	for j := range p {
		p[j] = j
	}
	if i == 0 {
		return p // the sorted order first
	}
	if i == 1 { // reversed
		for a, b := 0, n-1; a < b; a, b = a+1, b-1 {
			p[a], p[b] = p[b], p[a]
		}
		return p
	}
	x := uint64(seed)*6364136223846793005 + uint64(i)*1442695040888963407 + 1
	for j := n - 1; j > 0; j-- {
		x = x*6364136223846793005 + 1442695040888963407
		k := int((x >> 33) % uint64(j+1))
		p[j], p[k] = p[k], p[j]
	}
	return p
}

func errStrings(err error) []string {
	if err == nil {
		return nil
	}
	if list, ok := err.(errors.List); ok {
		out := make([]string, len(list))
		for i, e := range list {
			out[i] = e.Error()
		}
		return out
	}
	return []string{err.Error()}
}

// compileOnce parses and compiles the files like `xgo build` does (ParseFSDir over a directory,
// cl.NewPackage, WriteTo) with the directory listed in the order `listing` and the package's
// file maps rebuilt in the order `insert`.
func compileOnce(files []SrcFile, listing, insert []int) (o outcome) {
	im, fset := xcl.Importer()
	names := make([]string, len(files))
	data := map[string]string{}
	for i, j := range listing {
		names[i] = files[j].Name
	}
	for _, f := range files {
		data["/foo/"+f.Name] = f.Src
	}
	defer func() {
		if p := recover(); p != nil {
			o.Errs = append(o.Errs, fmt.Sprintf("panic: %v", p))
		}
	}()
	pkgs, err := parser.ParseFSDir(fset, memfs.New(map[string][]string{"/foo": names}, data), "/foo", parser.Config{Mode: parser.ParseComments, ClassKind: classKind})
	if err != nil {
		o.ParseErr = err.Error()
		return
	}
	pkg := pkgs["main"]
	if pkg == nil {
		o.ParseErr = "no package main"
		return
	}
	// rebuild the maps in a drawn insertion order
	var keys []string
	for k := range pkg.Files {
		keys = append(keys, "x"+k)
	}
	for k := range pkg.GoFiles {
		keys = append(keys, "g"+k)
	}
	sort.Strings(keys)
	np := &ast.Package{Name: pkg.Name, Imports: pkg.Imports, Files: map[string]*ast.File{}}
	for _, j := range insert {
		if j >= len(keys) {
			continue
		}
		k := keys[j]
		if k[0] == 'x' {
			np.Files[k[1:]] = pkg.Files[k[1:]]
		} else {
			if np.GoFiles == nil {
				np.GoFiles = map[string]*goast.File{}
			}
			np.GoFiles[k[1:]] = pkg.GoFiles[k[1:]]
		}
	}
	if len(np.Files)+len(np.GoFiles) != len(keys) {
		o.Errs = append(o.Errs, "harness: map rebuild lost files")
		return
	}
	conf := &cl.Config{Fset: fset, Importer: im, LookupClass: lookupClass}
	p, err := cl.NewPackage("", np, conf)
	if err != nil {
		o.Errs = errStrings(err)
		return
	}
	var b bytes.Buffer
	if err := p.WriteTo(&b); err != nil {
		o.Errs = errStrings(err)
		return
	}
	o.Go = b.String()
	return
}

// lookupClass knows the class frameworks of the repository's own test packages (cl/internal/spx,
// spx2, spx4, mcp): project class files (.tgmx, .t2gmx, .t4gmx, main_mcp.gox) and their work classes.
func lookupClass(ext string) (c *modfile.Project, ok bool) {
	switch ext {
	case ".tgmx", ".tspx":
		return &modfile.Project{
			Ext: ".tgmx", Class: "*MyGame",
			Works:    []*modfile.Class{{Ext: ".tspx", Class: "Sprite"}},
			PkgPaths: []string{"github.com/goplus/xgo/cl/internal/spx", "math"}}, true
	case ".t2gmx", ".t2spx":
		return &modfile.Project{
			Ext: ".t2gmx", Class: "Game",
			Works:    []*modfile.Class{{Ext: ".t2spx", Class: "Sprite"}},
			PkgPaths: []string{"github.com/goplus/xgo/cl/internal/spx2"}}, true
	case ".t4gmx", ".t4spx":
		return &modfile.Project{
			Ext: ".t4gmx", Class: "*MyGame",
			Works:    []*modfile.Class{{Ext: ".t4spx", Class: "Sprite"}},
			PkgPaths: []string{"github.com/goplus/xgo/cl/internal/spx4", "math"}}, true
	case "_mcp.gox", "_tool.gox", "_prompt.gox", "_res.gox":
		return &modfile.Project{
			Ext: "_mcp.gox", Class: "Game",
			Works: []*modfile.Class{
				{Ext: "_tool.gox", Class: "Tool", Proto: "ToolProto", Prefix: "Tool_"},
				{Ext: "_prompt.gox", Class: "Prompt", Proto: "PromptProto", Embedded: true},
				{Ext: "_res.gox", Class: "Resource", Proto: "ResourceProto"},
			},
			PkgPaths: []string{"github.com/goplus/xgo/cl/internal/mcp"}}, true
	}
	return
}

func classKind(fname string) (isProj bool, ok bool) {
	ext := modfile.ClassExt(fname)
	c, ok := lookupClass(ext)
	if ok {
		isProj = c.IsProj(ext, fname)
	}
	return
}

func identity(n int) []int { return perm(n, 0, 0) }

// ---- worker processes ------------------------------------------------------------------------

// worker compiles every case of the JSON file once (sorted listing) and prints one outcome per line.
func worker(path string) int {
	data, err := os.ReadFile(path)
	if err != nil {
		fmt.Println("WORKER-ERROR", err)
		return 2
	}
	var cases []Case
	if err := json.Unmarshal(data, &cases); err != nil {
		fmt.Println("WORKER-ERROR", err)
		return 2
	}
	for _, c := range cases {
		o := compileOnce(sorted(c.Files), identity(len(c.Files)), identity(len(c.Files)))
		js, _ := json.Marshal(o)
		fmt.Printf("OUTCOME %s\n", js)
	}
	return 0
}

func scratchDir() string {
	if d := os.Getenv("VK_SCRATCH"); d != "" {
		return d
	}
	return os.TempDir()
}

// runWorker compiles the cases in one fresh process of this test binary.
func runWorker(cases []Case) ([]outcome, error) {
	f, err := os.CreateTemp(scratchDir(), "c08-cases-*.json")
	if err != nil {
		return nil, err
	}
	defer os.Remove(f.Name())
	js, _ := json.Marshal(cases)
	f.Write(js)
	f.Close()
	cmd := exec.Command(os.Args[0], "-test.run", "^$")
	cmd.Env = append(os.Environ(), "VK_C08_WORKER="+f.Name(), "VK_REPLAY=", "VK_CURRENT=")
	var stdout bytes.Buffer
	cmd.Stdout = &stdout
	if err := cmd.Run(); err != nil {
		return nil, fmt.Errorf("worker: %v: %s", err, tail(stdout.String()))
	}
	var out []outcome
	for _, line := range strings.Split(stdout.String(), "\n") {
		if rest, ok := strings.CutPrefix(line, "OUTCOME "); ok {
			var o outcome
			if err := json.Unmarshal([]byte(rest), &o); err != nil {
				return nil, err
			}
			out = append(out, o)
		}
	}
	if len(out) != len(cases) {
		return nil, fmt.Errorf("worker answered %d of %d cases: %s", len(out), len(cases), tail(stdout.String()))
	}
	return out, nil
}

func tail(s string) string {
	if len(s) > 400 {
		s = s[len(s)-400:]
	}
	return s
}

func sorted(files []SrcFile) []SrcFile {
	out := append([]SrcFile(nil), files...)
	sort.Slice(out, func(i, j int) bool { return out[i].Name < out[j].Name })
	return out
}

// ---- the oracle ------------------------------------------------------------------------------

type info struct {
	rejected string
	first    outcome
	nerr     int
	cross    bool
	infra    string
}

func diffAt(a, b string) string {
	i := 0
	for i < len(a) && i < len(b) && a[i] == b[i] {
		i++
	}
	lo := i - 60
	if lo < 0 {
		lo = 0
	}
	clip := func(s string) string {
		hi := i + 80
		if hi > len(s) {
			hi = len(s)
		}
		if lo > len(s) {
			return ""
		}
		return s[lo:hi]
	}
	return fmt.Sprintf("first difference at byte %d:\n--- A: …%q\n--- B: …%q", i, clip(a), clip(b))
}

func compare(what string, a, b outcome) *vk.Verdict {
	if a.ParseErr != b.ParseErr {
		return vk.Bad("parse-error-differs", "%s: parse result differs: %q vs %q", what, a.ParseErr, b.ParseErr)
	}
	if strings.Join(a.Errs, "\x00") != strings.Join(b.Errs, "\x00") {
		sa, sb := append([]string(nil), a.Errs...), append([]string(nil), b.Errs...)
		sort.Strings(sa)
		sort.Strings(sb)
		same := strings.Join(sa, "\x00") == strings.Join(sb, "\x00")
		if strings.Join(notInGoFiles(a.Errs), "\x00") == strings.Join(notInGoFiles(b.Errs), "\x00") {
			// only errors located in .go files change places or come and go (a crash while one
			// of their symbols is loaded cuts the rest short): the order in which the symbols of
			// the package's Go files are loaded
			return vk.Bad("go-file-symbol-order", "%s: the errors located in .go files differ (same set: %v):\n A (%d): %s\n B (%d): %s", what, same, len(a.Errs), strings.Join(a.Errs, " | "), len(b.Errs), strings.Join(b.Errs, " | "))
		}
		if same {
			return vk.Bad("error-order", "%s: the same %d errors are reported in a different order:\n A: %s\n B: %s", what, len(a.Errs), strings.Join(a.Errs, " | "), strings.Join(b.Errs, " | "))
		}
		return vk.Bad("error-set", "%s: different errors are reported:\n A (%d): %s\n B (%d): %s", what, len(a.Errs), strings.Join(a.Errs, " | "), len(b.Errs), strings.Join(b.Errs, " | "))
	}
	if a.Go != b.Go {
		return vk.Bad("output-differs", "%s: generated Go differs (%d vs %d bytes); %s", what, len(a.Go), len(b.Go), diffAt(a.Go, b.Go))
	}
	return nil
}

// notInGoFiles drops the errors located in a .go file ("/foo/name.go:line:col: …").
func notInGoFiles(errs []string) []string {
	var out []string
	for _, e := range errs {
		if i := strings.Index(e, ".go:"); i > 0 && !strings.ContainsAny(e[:i], " \t") {
			continue
		}
		out = append(out, e)
	}
	return out
}

func determinism(c Case) (*vk.Verdict, info) {
	var in info
	files := sorted(c.Files)
	n := len(files)
	first := compileOnce(files, identity(n), identity(n))
	in.first = first
	if first.ParseErr != "" {
		in.rejected = "parse-error"
		return nil, in
	}
	in.nerr = len(first.Errs)
	in.cross = crossFile(files)
	for i := 1; i < K; i++ {
		o := compileOnce(files, perm(n, c.Seed, i), perm(n, c.Seed+7, i+1))
		if v := compare(fmt.Sprintf("compilation %d of %d in one process (listing %v, insertion %v) against the first", i+1, K, perm(n, c.Seed, i), perm(n, c.Seed+7, i+1)), first, o); v != nil {
			return v, in
		}
	}
	if c.Workers {
		type res struct {
			outs []outcome
			err  error
		}
		ch := make([]chan res, 3)
		for w := range ch {
			ch[w] = make(chan res, 1)
			go func(ch chan res) { outs, err := runWorker([]Case{c}); ch <- res{outs, err} }(ch[w])
		}
		for w := range ch {
			r := <-ch[w]
			if r.err != nil {
				in.infra = r.err.Error()
				return nil, in
			}
			if v := compare(fmt.Sprintf("fresh process %d against this process", w+1), first, r.outs[0]); v != nil {
				return v, in
			}
		}
	}
	return nil, in
}

// crossFile reports whether a file uses a top-level name another file declares.
func crossFile(files []SrcFile) bool {
	_, fset := xcl.Importer()
	// class files of a framework refer to each other by construction (a work class embeds the
	// project class, the project's Main creates the work classes)
	nclass := 0
	for _, f := range files {
		if _, ok := classKind(f.Name); ok {
			nclass++
		}
	}
	if nclass >= 2 {
		return true
	}
	decl := map[string]int{}
	var trees []*ast.File
	for i, f := range files {
		if filepath.Ext(f.Name) == ".go" {
			trees = append(trees, nil)
			for _, line := range strings.Split(f.Src, "\n") {
				for _, kw := range []string{"func ", "type ", "var ", "const "} {
					if rest, ok := strings.CutPrefix(line, kw); ok {
						name := strings.FieldsFunc(rest, func(r rune) bool {
							return !(r == '_' || r >= '0' && r <= '9' || r >= 'a' && r <= 'z' || r >= 'A' && r <= 'Z')
						})
						if len(name) > 0 {
							decl[name[0]] = i
						}
					}
				}
			}
			continue
		}
		af, err := astx.ParseAny(fset, f.Name, []byte(f.Src), 0)
		if err != nil {
			trees = append(trees, nil)
			continue
		}
		trees = append(trees, af)
		for _, d := range af.Decls {
			switch x := d.(type) {
			case *ast.FuncDecl:
				if x.Recv == nil && !x.Shadow {
					decl[x.Name.Name] = i
				}
			case *ast.GenDecl:
				for _, s := range x.Specs {
					switch y := s.(type) {
					case *ast.TypeSpec:
						decl[y.Name.Name] = i
					case *ast.ValueSpec:
						for _, nm := range y.Names {
							decl[nm.Name] = i
						}
					}
				}
			}
		}
		if af.IsClass {
			decl[strings.TrimSuffix(f.Name, filepath.Ext(f.Name))] = i
		}
	}
	found := false
	for i, af := range trees {
		if af == nil || found {
			continue
		}
		astx.Walk(af, astx.Options{}, func(n, _ goast.Node, _ string) bool {
			if id, ok := n.(*ast.Ident); ok {
				if j, ok := decl[id.Name]; ok && j != i {
					found = true
				}
			}
			return !found
		})
	}
	return found
}

var _ = vk.Register("determinism", func(c Case) *vk.Verdict { c.Workers = true; v, _ := determinism(c); return v })

func safe(c Case) (v *vk.Verdict, in info) {
	defer func() {
		if p := recover(); p != nil {
			v = vk.Bad("harness-panic", "%v\n%s", p, debug.Stack())
		}
	}()
	return determinism(c)
}

type failer interface {
	Fatalf(string, ...any)
	Helper()
}

type done struct {
	c     Case
	first outcome
}

var batch []done // every evaluated case of the run, for the batch workers

func run(t failer, c Case, class string) {
	v, in := safe(c)
	if in.rejected != "" {
		vk.R.Rejected(class + ":" + in.rejected)
		vk.R.Case(false, "")
		return
	}
	if in.infra != "" {
		vk.R.Infra("%s", in.infra)
	}
	var key strings.Builder
	for _, f := range sorted(c.Files) {
		key.WriteString(f.Name + "\x00" + f.Src + "\x00")
	}
	nt := len(c.Files) >= 2 && in.cross || in.nerr >= 2
	vk.R.Case(nt, key.String())
	vk.R.Class(class)
	vk.R.Class(fmt.Sprintf("files=%d", len(c.Files)))
	switch {
	case in.nerr == 0:
		vk.R.Class("errors=0")
	case in.nerr == 1:
		vk.R.Class("errors=1")
	default:
		vk.R.Class("errors>=2")
	}
	if strings.HasPrefix(class, "src=project") {
		nproj := 0
		for _, f := range c.Files {
			if isProj, ok := classKind(f.Name); ok && isProj {
				nproj++
			}
		}
		vk.R.Class(fmt.Sprintf("project: project-files=%d compiles=%v", nproj, in.nerr == 0))
	}
	if in.cross {
		vk.R.Class("cross-file-reference")
	}
	if c.Workers {
		vk.R.Class("fresh-processes=per-case")
	}
	vk.R.Add("compilations_in_process", K)
	if v == nil {
		batch = append(batch, done{c, in.first})
	}
	vk.R.Check(t, "determinism", c, v)
}

// ---- generators --------------------------------------------------------------------------------

var stdPkgs = []string{"errors", "fmt", "os", "path/filepath", "runtime", "sort", "strconv", "strings"}

func fileText(decls []string) string {
	body := strings.Join(decls, "\n\n") + "\n"
	var b strings.Builder
	b.WriteString("package main\n\n")
	var imps []string
	for _, pkg := range stdPkgs {
		if strings.Contains(body, pkg[strings.LastIndex(pkg, "/")+1:]+".") {
			imps = append(imps, pkg)
		}
	}
	if len(imps) > 0 {
		b.WriteString("import (\n")
		for _, i := range imps {
			fmt.Fprintf(&b, "\t%q\n", i)
		}
		b.WriteString(")\n\n")
	}
	b.WriteString(body)
	return b.String()
}

var illTyped = []string{
	"var bad%d int = \"s\"",
	"func badf%d() {\n\tundefinedCall%d()\n}",
	"func badg%d() int {\n\treturn \"x\"\n}",
	"var bad%d = missing%d + 1",
	"type badT%d struct {\n\tf missingType%d\n}",
	"func badh%d(a int) {\n\ta.nope()\n}",
	"const badc%d int = 1.5",
}

// splitProgram distributes a gosub program over several files.
func splitProgram(t *rapid.T, mutate bool) Case {
	p := gosub.Gen().Draw(t, "prog")
	nx := rapid.IntRange(1, 4).Draw(t, "nxgo")
	ng := rapid.IntRange(0, 2).Draw(t, "ngo")
	decls := append([]string(nil), p.Decls...)
	// overload declarations whose parts live in different files
	var extraMain []string
	ov := rapid.IntRange(0, 3).Draw(t, "overload")
	if ov&1 != 0 {
		decls = append(decls, "func ovxAddI(a, b int) int {\n\treturn a + b\n}", "func ovxAddS(a, b string) string {\n\treturn a + b\n}",
			"func ovxAddF(a, b float64) float64 {\n\treturn a + b\n}")
		extraMain = append(extraMain, "fmt.Println(ovxAdd(1, 2), ovxAdd(\"a\", \"b\"), ovxAdd(1.5, 2))")
	}
	if mutate && len(decls) > 3 { // drop declarations: their users report errors
		for d := rapid.IntRange(0, 2).Draw(t, "drops"); d > 0; d-- {
			i := rapid.IntRange(1, len(decls)-1).Draw(t, "drop")
			decls = append(decls[:i:i], decls[i+1:]...)
		}
	}
	files := make([][]string, nx+ng)
	for i, d := range decls {
		k := rapid.IntRange(0, nx+ng-1).Draw(t, "file")
		if i == 0 {
			k = 0
		}
		files[k] = append(files[k], d)
	}
	mainFile := rapid.IntRange(0, nx-1).Draw(t, "mainfile")
	if ov&1 != 0 {
		k := rapid.IntRange(0, nx-1).Draw(t, "ovfile")
		files[k] = append(files[k], "func ovxAdd = (\n\tovxAddI\n\tovxAddS\n\tovxAddF\n)")
	}
	if ov&2 != 0 && ng > 0 { // functions and a type that only a Go file declares
		k := nx + rapid.IntRange(0, ng-1).Draw(t, "gofile")
		files[k] = append(files[k], "type GoPair struct {\n\tA, B int\n}", "func (p GoPair) Sum() int {\n\treturn p.A + p.B\n}",
			"func goMulS(a string, b int) string {\n\treturn strings.Repeat(a, b)\n}")
		extraMain = append(extraMain, "fmt.Println(GoPair{3, 4}.Sum(), goMulS(\"ab\", 2))")
	}
	for k := 0; k < nx; k++ {
		if rapid.Bool().Draw(t, "init") {
			files[k] = append(files[k], fmt.Sprintf("func init() {\n\tfmt.Println(\"init %d\")\n}", k))
		}
	}
	if mutate {
		for n := rapid.IntRange(1, 4).Draw(t, "inject"); n > 0; n-- {
			k := rapid.IntRange(0, nx-1).Draw(t, "badfile")
			id := 100 + n
			s := illTyped[rapid.IntRange(0, len(illTyped)-1).Draw(t, "bad")]
			files[k] = append(files[k], strings.ReplaceAll(s, "%d", fmt.Sprint(id)))
		}
	}
	mainStmts := append(append([]string(nil), p.Main...), extraMain...)
	files[mainFile] = append(files[mainFile], "func main() {\n\t"+strings.ReplaceAll(strings.Join(mainStmts, "\n"), "\n", "\n\t")+"\n}")
	var c Case
	xn := []string{"alpha.xgo", "beta.xgo", "gamma.xgo", "delta.xgo"}
	gn := []string{"helper.go", "zeta.go"}
	for k := range files {
		name := ""
		if k < nx {
			name = xn[k]
		} else {
			name = gn[k-nx]
		}
		c.Files = append(c.Files, SrcFile{name, fileText(files[k])})
	}
	return c
}

const extraClass = "var (\n\tn int\n\ttag string\n)\n\nfunc bump(by int) int {\n\tn += by\n\treturn n\n}\n\nfunc label() string {\n\treturn tag + \"!\"\n}\n"

// classProgram is an xsugar class case plus an optional second class and helper files.
func classProgram(t *rapid.T, mutate bool) Case {
	g := &xsugar.G{T: t, Flags: map[string]bool{}}
	cc := xsugar.ClassProgram(g)
	var c Case
	for n, s := range cc.XFiles {
		c.Files = append(c.Files, SrcFile{n, s})
	}
	if rapid.Bool().Draw(t, "second-class") {
		c.Files = append(c.Files, SrcFile{"Extra.gox", extraClass})
		c.Files = append(c.Files, SrcFile{"useextra.xgo", "func useExtra() int {\n\te := &Extra{tag: \"t\"}\n\techo e.label()\n\treturn e.bump(2) + e.bump(3)\n}\n\nfunc init() {\n\techo useExtra()\n}\n"})
	}
	if rapid.Bool().Draw(t, "go-helper") {
		c.Files = append(c.Files, SrcFile{"helper.go", "package main\n\nfunc hmulI(a, b int) int {\n\treturn a * b\n}\n\nfunc hmulS(a string, b int) string {\n\tr := \"\"\n\tfor i := 0; i < b; i++ {\n\t\tr += a\n\t}\n\treturn r\n}\n"})
		c.Files = append(c.Files, SrcFile{"usehelper.xgo", "func init() {\n\techo hmulI(2, 3), hmulS(\"x\", 2)\n}\n"})
	}
	if mutate {
		for n := rapid.IntRange(1, 3).Draw(t, "inject"); n > 0; n-- {
			s := strings.ReplaceAll(illTyped[rapid.IntRange(0, len(illTyped)-1).Draw(t, "bad")], "%d", fmt.Sprint(200+n))
			c.Files = append(c.Files, SrcFile{fmt.Sprintf("bad%d.xgo", n), s + "\n"})
		}
	}
	c.Files = sorted(c.Files)
	return c
}

// projectProgram is a package of project class files and work class files of 1-4 class frameworks
// (the repository's test frameworks spx, spx2, spx4 and mcp), optionally with a plain .xgo and .go
// file. Packages with several frameworks, several project files or no project file are legal inputs
// too: whatever the compiler answers has to be the same answer every time.
func projectProgram(t *rapid.T, mutate bool) Case {
	type fw struct{ proj, work string }
	fws := []fw{{".tgmx", ".tspx"}, {".t2gmx", ".t2spx"}, {".t4gmx", ".t4spx"}, {"_mcp.gox", "_tool.gox"}}
	nfw := rapid.SampledFrom([]int{1, 2, 2, 3, 3, 3, 4}).Draw(t, "frameworks")
	picked := rapid.Permutation(fws).Draw(t, "fw")[:nfw]
	projNames := []string{"Alpha", "Beta", "Gamma", "main", "Zeta", "index"}
	workNames := []string{"Kai", "Lee", "Mo", "Nu", "bar", "Abe"}
	var c Case
	used := map[string]bool{}
	fn := 0
	funcs := func(n int) string {
		var b strings.Builder
		for i := 0; i < n; i++ {
			fn++
			switch rapid.IntRange(0, 2).Draw(t, "fshape") {
			case 0:
				fmt.Fprintf(&b, "func f%d() {\n\tprintln \"f%d\"\n}\n\n", fn, fn)
			case 1:
				fmt.Fprintf(&b, "func g%d(a int) int {\n\treturn a + %d\n}\n\n", fn, fn)
			default:
				fmt.Fprintf(&b, "func h%d(s string) (string, int) {\n\treturn s + \"!\", len(s)\n}\n\n", fn)
			}
		}
		return b.String()
	}
	fields := func() string {
		if !rapid.Bool().Draw(t, "fields") {
			return ""
		}
		fn++
		return fmt.Sprintf("var (\n\tcnt%d int\n\ttag%d string\n)\n\n", fn, fn)
	}
	if !mutate && nfw >= 2 && rapid.IntRange(0, 1).Draw(t, "one-entry") == 0 {
		// one project file per framework, exactly one of them with top-level statements (the
		// package's entry point), the others with declarations only
		entry := rapid.IntRange(0, nfw-1).Draw(t, "entry")
		for i, f := range picked {
			base := projNames[i]
			src := fields() + funcs(rapid.IntRange(0, 2).Draw(t, "nfuncs"))
			if i == entry {
				src += "println \"entry " + base + "\"\n"
			}
			c.Files = append(c.Files, SrcFile{base + f.proj, src})
			if rapid.Bool().Draw(t, "work") {
				wsrc := funcs(rapid.IntRange(0, 1).Draw(t, "nfuncs"))
				if f.work == "_tool.gox" {
					wsrc += "return -1\n"
				}
				c.Files = append(c.Files, SrcFile{workNames[i] + f.work, wsrc})
			}
		}
		c.Files = sorted(c.Files)
		return c
	}
	for _, f := range picked {
		nproj := rapid.SampledFrom([]int{0, 1, 1, 1, 1, 2}).Draw(t, "nproj")
		if f.proj == "_mcp.gox" && nproj > 1 {
			nproj = 1
		}
		for i := 0; i < nproj; i++ {
			base := rapid.SampledFrom(projNames).Draw(t, "projname")
			name := base + f.proj
			if used[strings.ToLower(base)] {
				continue
			}
			used[strings.ToLower(base)] = true
			src := fields() + funcs(rapid.IntRange(0, 3).Draw(t, "nfuncs"))
			if rapid.Bool().Draw(t, "mainbody") {
				src += "println \"proj " + base + "\"\n"
			}
			c.Files = append(c.Files, SrcFile{name, src})
		}
		for i, nwork := 0, rapid.IntRange(0, 3).Draw(t, "nwork"); i < nwork; i++ {
			base := rapid.SampledFrom(workNames).Draw(t, "workname")
			if used[strings.ToLower(base)] {
				continue
			}
			used[strings.ToLower(base)] = true
			src := fields() + funcs(rapid.IntRange(0, 2).Draw(t, "nfuncs"))
			if f.work == "_tool.gox" {
				src += "return -1\n"
			} else if rapid.Bool().Draw(t, "mainbody") {
				src += "println \"work " + base + "\"\n"
			}
			c.Files = append(c.Files, SrcFile{base + f.work, src})
		}
	}
	if rapid.Bool().Draw(t, "plain-xgo") {
		c.Files = append(c.Files, SrcFile{"util.xgo", "func util(a int) int {\n\treturn a * 2\n}\n"})
	}
	if rapid.Bool().Draw(t, "go-helper") {
		c.Files = append(c.Files, SrcFile{"helper.go", "package main\n\nfunc goHelper(a int) int {\n\treturn a + 1\n}\n"})
	}
	if mutate {
		// ill-typed methods in several class files: several errors, from several files
		for i := range c.Files {
			if strings.HasSuffix(c.Files[i].Name, ".go") || !rapid.Bool().Draw(t, "break") {
				continue
			}
			fn++
			s := strings.ReplaceAll(illTyped[rapid.IntRange(0, len(illTyped)-1).Draw(t, "bad")], "%d", fmt.Sprint(300+fn))
			if !strings.HasPrefix(s, "func ") {
				continue
			}
			// functions go before the main body of a class file
			c.Files[i].Src = s + "\n\n" + c.Files[i].Src
			if strings.HasPrefix(c.Files[i].Src, s+"\n\nvar (") { // the var block has to stay first
				c.Files[i].Src = strings.TrimPrefix(c.Files[i].Src, s+"\n\n")
			}
		}
	}
	if len(c.Files) == 0 {
		c.Files = append(c.Files, SrcFile{"Kai.tspx", "println \"kai\"\n"})
	}
	c.Files = sorted(c.Files)
	return c
}

// sugarProgram is a single-file xsugar program plus a Go helper file.
func sugarProgram(t *rapid.T) Case {
	g := &xsugar.G{T: t, Flags: map[string]bool{}}
	n := rapid.IntRange(1, 5).Draw(t, "n")
	var src string
	switch rapid.IntRange(0, 2).Draw(t, "family") {
	case 0:
		src = xsugar.OverloadProgram(g, n).XGo()
	case 1:
		src = xsugar.CollectionProgram(g, n).XGo()
	default:
		src = xsugar.ErrWrapProgram(g, n).XGo()
	}
	c := Case{Files: []SrcFile{{"main.xgo", src}}}
	if rapid.Bool().Draw(t, "go-helper") {
		c.Files = append(c.Files, SrcFile{"helper.go", "package main\n\nfunc goHelper(a int) int {\n\treturn a + 1\n}\n"}, SrcFile{"use.xgo", "func init() {\n\techo goHelper(1)\n}\n"})
	}
	return c
}

func drawCase(t *rapid.T) (Case, string) {
	var c Case
	class := ""
	switch rapid.IntRange(0, 13).Draw(t, "kind") {
	case 10, 11, 13:
		c, class = projectProgram(t, false), "src=project-classes"
	case 12:
		c, class = projectProgram(t, true), "src=project-classes-errors"
	case 0, 1, 2:
		c, class = splitProgram(t, false), "src=gosub-split"
	case 3, 4:
		c, class = splitProgram(t, true), "src=gosub-split-errors"
	case 5, 6:
		c, class = classProgram(t, false), "src=class"
	case 7:
		c, class = classProgram(t, true), "src=class-errors"
	default:
		c, class = sugarProgram(t), "src=xsugar"
	}
	c.Seed = rapid.IntRange(0, 1<<20).Draw(t, "seed")
	// fresh processes cost seconds each (a cold importer runs `go list`): during a run they are
	// used in batches (see TestPackages); a replayed case gets its own three processes
	return c, class
}

func TestPackages(t *testing.T) {
	vk.R.Rapid(t, 1, 120, 3600, func(t *rapid.T) {
		c, class := drawCase(t)
		run(t, c, class)
	})
	// every case of the run once more in each of 3 fresh processes
	if len(batch) == 0 {
		return
	}
	cases := make([]Case, len(batch))
	for i, d := range batch {
		cases[i] = d.c
	}
	type res struct {
		outs []outcome
		err  error
	}
	ch := make([]chan res, 3)
	for w := range ch {
		ch[w] = make(chan res, 1)
		go func(c chan res) { outs, err := runWorker(cases); c <- res{outs, err} }(ch[w])
	}
	for w := range ch {
		r := <-ch[w]
		if r.err != nil {
			vk.R.Infra("batch worker %d: %v", w+1, r.err)
			return
		}
		for i, o := range r.outs {
			if v := compare(fmt.Sprintf("fresh batch process %d against the first process", w+1), batch[i].first, o); v != nil {
				c := cases[i]
				c.Workers = true
				vk.R.Check(t, "determinism", c, v)
			}
		}
		vk.R.Add("compilations_in_fresh_processes", int64(len(r.outs)))
	}
}

// Package vk is the small verification kit shared by all checks: evidence
// recording, known-finding matching, replay files, seeds and rapid glue.
//
// Conventions (see DESIGN.md section 2):
//   - every check package has `func TestMain(m *testing.M) { vk.Main(m, "CNN", rule) }`
//   - an oracle is a plain function `func(c Case) *vk.Verdict` (nil = property held)
//   - a failing case is reported through Rec.Fail, which stores the (last = smallest,
//     because rapid re-runs the shrunk case last) failing input, writes it under
//     replays/CNN/ and prints the `VIOLATION property=CNN replay=<path>` line at exit
//   - a failing case whose class is listed in known_findings.json with status "known"
//     is counted under excluded_known and does not fail the run.
package vk

import (
	"crypto/sha256"
	"encoding/base64"
	"encoding/hex"
	"encoding/json"
	"flag"
	"fmt"
	"hash/fnv"
	"os"
	"path/filepath"
	"sort"
	"strconv"
	"strings"
	"sync"
	"testing"
	"time"
	"unicode/utf8"

	"pgregory.net/rapid"
)

// Verdict describes one way a case broke the property.
type Verdict struct {
	Class  string `json:"class"`  // stable class name, used to match known findings
	Detail string `json:"detail"` // human readable
}

func (v *Verdict) String() string {
	if v == nil {
		return "ok"
	}
	return v.Class + ": " + v.Detail
}

// Bad is shorthand to build a verdict.
func Bad(class, format string, args ...any) *Verdict {
	return &Verdict{Class: class, Detail: fmt.Sprintf(format, args...)}
}

// Bytes marshals as a JSON string when valid UTF-8 and as {"b64":...} otherwise, so
// that replay files stay readable without ever being lossy.
type Bytes []byte

func (b Bytes) MarshalJSON() ([]byte, error) {
	if utf8.Valid(b) {
		return json.Marshal(string(b))
	}
	return json.Marshal(map[string]string{"b64": base64.StdEncoding.EncodeToString(b)})
}

func (b *Bytes) UnmarshalJSON(data []byte) error {
	if len(data) > 0 && data[0] == '"' {
		var s string
		if err := json.Unmarshal(data, &s); err != nil {
			return err
		}
		*b = Bytes(s)
		return nil
	}
	var m map[string]string
	if err := json.Unmarshal(data, &m); err != nil {
		return err
	}
	d, err := base64.StdEncoding.DecodeString(m["b64"])
	*b = d
	return err
}

// ---------------------------------------------------------------------------------------------

// Finding is one entry of known_findings.json.
type Finding struct {
	Property string `json:"property"`
	ID       string `json:"id"`
	Status   string `json:"status"` // "known" | "fixed"
	Commit   string `json:"commit,omitempty"`
	What     string `json:"what"`
	Class    string `json:"class"`           // verdict class this entry matches
	Repro    string `json:"repro,omitempty"` // path relative to /verif
}

type failure struct {
	test    string
	verdict Verdict
	caseJS  []byte
	ext     string
	raw     []byte
}

// Rec collects the evidence of one run of one check package.
type Rec struct {
	mu          sync.Mutex
	ID          string
	Rule        string
	Level       string
	Tier        string
	Seed        int64
	Shard       int
	Shards      int
	Root        string // /verif
	start       time.Time
	evals       int64
	distinct    map[uint64]struct{}
	classes     map[string]int64
	excluded    map[string]int64
	rejected    map[string]int64
	samples     []any
	sampleSeen  int64
	extra       map[string]any
	assume      []string
	exhaustive  *bool
	fails       map[string]*failure // per test name: last failing case
	failOrder   []string
	infra       []string
	known       []Finding
	knownHits   map[string]int64
	violations  int
	maxSamples  int
	lastFailKey string
	autoSamples []any
}

// R is the package-level recorder, initialised by Main.
var R *Rec

func envInt(name string, def int64) int64 {
	if s := os.Getenv(name); s != "" {
		if v, err := strconv.ParseInt(s, 10, 64); err == nil {
			return v
		}
	}
	return def
}

// Root returns the /verif directory (VK_ROOT or by walking up to go.mod).
func Root() string {
	if r := os.Getenv("VK_ROOT"); r != "" {
		return r
	}
	dir, _ := os.Getwd()
	for d := dir; d != "/" && d != "."; d = filepath.Dir(d) {
		if _, err := os.Stat(filepath.Join(d, "properties.jsonl")); err == nil {
			return d
		}
	}
	return "/verif"
}

func newRec(id, level, rule string) *Rec {
	r := &Rec{ID: id, Rule: rule, Level: level, start: time.Now(),
		distinct: map[uint64]struct{}{}, classes: map[string]int64{}, excluded: map[string]int64{},
		rejected: map[string]int64{}, extra: map[string]any{}, fails: map[string]*failure{},
		knownHits: map[string]int64{}, maxSamples: 8}
	r.Tier = os.Getenv("VERIF_TIER")
	if r.Tier != "thorough" {
		r.Tier = "quick"
	}
	r.Seed = envInt("VERIF_SEED", 1)
	r.Shard = int(envInt("VK_SHARD", 0))
	r.Shards = int(envInt("VK_SHARDS", 1))
	if r.Shards < 1 {
		r.Shards = 1
	}
	r.Root = Root()
	r.loadKnown()
	return r
}

func (r *Rec) loadKnown() {
	files := []string{filepath.Join(r.Root, "known_findings.json")}
	more, _ := filepath.Glob(filepath.Join(r.Root, "known_findings.d", "*.json"))
	sort.Strings(more)
	files = append(files, more...)
	for _, file := range files {
		data, err := os.ReadFile(file)
		if err != nil {
			continue
		}
		var all []Finding
		if err := json.Unmarshal(data, &all); err != nil {
			r.infra = append(r.infra, filepath.Base(file)+": "+err.Error())
			continue
		}
		for _, f := range all {
			if f.Property == r.ID {
				r.known = append(r.known, f)
			}
		}
	}
}

// Thorough reports whether the thorough tier is running.
func (r *Rec) Thorough() bool { return r.Tier == "thorough" }

// N picks the case budget for the tier and divides it over shards.
func (r *Rec) N(quick, thorough int) int {
	n := quick
	if r.Thorough() {
		n = thorough
	}
	if s := os.Getenv("VK_SCALE"); s != "" { // development aid: scale budgets
		if f, err := strconv.ParseFloat(s, 64); err == nil {
			n = int(float64(n) * f)
		}
	}
	n = (n + r.Shards - 1) / r.Shards
	if n < 1 {
		n = 1
	}
	return n
}

// RapidSeed is the PRNG value handed to rapid for a given sub-test index: a pure function
// of VERIF_SEED and the shard; never 0 (0 means "random" to rapid).
func (r *Rec) RapidSeed(sub int) uint64 {
	s := uint64(r.Seed)*1000003 + uint64(r.Shard)*7919 + uint64(sub)*104729 + 1
	if s == 0 {
		s = 1
	}
	return s
}

// Hash64 is the hash used for distinctness.
func Hash64(parts ...string) uint64 {
	h := fnv.New64a()
	for _, p := range parts {
		h.Write([]byte(p))
		h.Write([]byte{0})
	}
	return h.Sum64()
}

// Case counts one evaluated case. nontrivial says whether it is non-trivial by the check's
// rule; key canonicalises the case for distinctness (only used when nontrivial).
func (r *Rec) Case(nontrivial bool, key string) {
	r.mu.Lock()
	r.evals++
	if nontrivial {
		r.distinct[Hash64(key)] = struct{}{}
		if len(r.autoSamples) < 3 && key != "" { // safety net: a check that never calls Sample still shows cases
			r.autoSamples = append(r.autoSamples, clip(key))
		}
	}
	r.mu.Unlock()
}

// CaseH is Case with a precomputed hash.
func (r *Rec) CaseH(nontrivial bool, h uint64) {
	r.mu.Lock()
	r.evals++
	if nontrivial {
		r.distinct[h] = struct{}{}
	}
	r.mu.Unlock()
}

// Class increments a label counter.
func (r *Rec) Class(label string) { r.ClassN(label, 1) }

func (r *Rec) ClassN(label string, n int64) {
	r.mu.Lock()
	r.classes[label] += n
	r.mu.Unlock()
}

// Excluded counts a case steered away from / matched to a known finding.
func (r *Rec) Excluded(class string) {
	r.mu.Lock()
	r.excluded[class]++
	r.mu.Unlock()
}

// Rejected counts a generated case that is outside the property's precondition.
func (r *Rec) Rejected(reason string) {
	r.mu.Lock()
	r.rejected[reason]++
	r.mu.Unlock()
}

// Sample offers a sample (first few are kept, then a deterministic stride-based reservoir).
func (r *Rec) Sample(v any) {
	r.mu.Lock()
	defer r.mu.Unlock()
	r.sampleSeen++
	if len(r.samples) < r.maxSamples {
		r.samples = append(r.samples, clip(v))
		return
	}
	// deterministic thinning: replace slot k at powers of two
	n := r.sampleSeen
	if n&(n-1) == 0 {
		r.samples[int(n>>3)%r.maxSamples] = clip(v)
	}
}

func clip(v any) any {
	if s, ok := v.(string); ok {
		if len(s) > 600 {
			s = s[:600] + "…"
		}
		if !utf8.ValidString(s) {
			s = strconv.QuoteToASCII(s)
		}
		return s
	}
	return v
}

// Set stores an extra coverage key.
func (r *Rec) Set(key string, v any) {
	r.mu.Lock()
	r.extra[key] = v
	r.mu.Unlock()
}

// Add adds to an integer extra coverage key.
func (r *Rec) Add(key string, n int64) {
	r.mu.Lock()
	old, _ := r.extra[key].(int64)
	r.extra[key] = old + n
	r.mu.Unlock()
}

// Assume records an assumption / trusted-base statement.
func (r *Rec) Assume(s string) {
	r.mu.Lock()
	for _, a := range r.assume {
		if a == s {
			r.mu.Unlock()
			return
		}
	}
	r.assume = append(r.assume, s)
	r.mu.Unlock()
}

// Exhaustive marks the run as complete over a finite space (all sub-checks must agree).
func (r *Rec) Exhaustive(b bool) {
	r.mu.Lock()
	if r.exhaustive == nil {
		r.exhaustive = &b
	} else {
		v := *r.exhaustive && b
		r.exhaustive = &v
	}
	r.mu.Unlock()
}

// Infra records an infrastructure problem (exit code 2, never a violation).
func (r *Rec) Infra(format string, args ...any) {
	r.mu.Lock()
	r.infra = append(r.infra, fmt.Sprintf(format, args...))
	r.mu.Unlock()
}

// KnownClass reports whether class is a listed known (unfixed) finding of this property.
func (r *Rec) KnownClass(class string) *Finding {
	for i := range r.known {
		if r.known[i].Status == "known" && r.known[i].Class == class {
			return &r.known[i]
		}
	}
	return nil
}

// HasKnown reports whether class is listed as a known (unfixed) finding: generators use it to
// steer away from the class by construction (and count what they skipped with Excluded).
func (r *Rec) HasKnown(class string) bool { return r.KnownClass(class) != nil }

// Judge applies the known-findings filter to a verdict: it returns nil when the property held
// or when the failure belongs to a listed known finding (counted), and the verdict otherwise.
func (r *Rec) Judge(v *Verdict) *Verdict {
	if v == nil {
		return nil
	}
	if f := r.KnownClass(v.Class); f != nil {
		r.mu.Lock()
		r.excluded[v.Class]++
		r.knownHits[f.ID]++
		r.mu.Unlock()
		return nil
	}
	return v
}

// Fail records a failing case for test `name`. c is JSON-marshalled into the replay file.
// Later calls for the same test overwrite earlier ones (rapid runs the shrunk case last).
func (r *Rec) Fail(name string, c any, v *Verdict) {
	js, err := json.MarshalIndent(c, "", " ")
	if err != nil {
		js = []byte(fmt.Sprintf("%q", fmt.Sprint(c)))
	}
	// one replay per (oracle, class); rapid re-runs the shrunk case last, so later = smaller
	// within one test, and across tests the shorter document wins.
	key := name + "\x00" + v.Class
	r.mu.Lock()
	if old, ok := r.fails[key]; !ok {
		r.failOrder = append(r.failOrder, key)
	} else if r.lastFailKey != key && len(old.caseJS) <= len(js) {
		r.lastFailKey = key
		r.mu.Unlock()
		return
	}
	r.lastFailKey = key
	r.fails[key] = &failure{test: name, verdict: *v, caseJS: js}
	r.mu.Unlock()
}

type tbLike interface {
	Fatalf(string, ...any)
	Helper()
}

// Check judges a verdict for case c inside a test or rapid property and fails it if needed.
func (r *Rec) Check(t tbLike, name string, c any, v *Verdict) {
	t.Helper()
	if v = r.Judge(v); v != nil {
		r.Fail(name, c, v)
		t.Fatalf("%s", v.String())
	}
}

// Rapid runs a rapid property with the tier's budget and a seed derived from VERIF_SEED.
// sub distinguishes several properties inside one package.
func (r *Rec) Rapid(t *testing.T, sub int, quick, thorough int, prop func(*rapid.T)) {
	t.Helper()
	n := r.N(quick, thorough)
	flag.Set("rapid.checks", strconv.Itoa(n))
	flag.Set("rapid.seed", strconv.FormatUint(r.RapidSeed(sub), 10))
	flag.Set("rapid.nofailfile", "true")
	if os.Getenv("VK_SHRINKTIME") != "" {
		flag.Set("rapid.shrinktime", os.Getenv("VK_SHRINKTIME"))
	} else {
		flag.Set("rapid.shrinktime", "20s")
	}
	before := r.evalsNow()
	rapid.Check(t, prop)
	r.mu.Lock()
	r.extra["requested:"+t.Name()] = int64(n)
	r.extra["ran:"+t.Name()] = r.evals - before
	r.mu.Unlock()
}

func (r *Rec) evalsNow() int64 {
	r.mu.Lock()
	defer r.mu.Unlock()
	return r.evals
}

// Example materialises the i-th value of a generator deterministically.
func Example[V any](r *Rec, g *rapid.Generator[V], sub, i int) V {
	return g.Example(int(r.RapidSeed(sub)%(1<<40))*1009 + i)
}

// ---------------------------------------------------------------------------------------------

// Main is the TestMain body of every check package.
func Main(m *testing.M, id, level, rule string) {
	R = newRec(id, level, rule)
	flag.Parse()
	initCurrent()
	if p := os.Getenv("VK_REPLAY"); p != "" {
		os.Exit(R.replayOne(p))
	}
	if os.Getenv("VK_NOREGRESS") == "" && R.Shard == 0 {
		R.regress()
	}
	code := m.Run()
	os.Exit(R.finish(code))
}

func (r *Rec) finish(code int) int {
	r.mu.Lock()
	defer r.mu.Unlock()
	// violations → replay files + lines
	for _, name := range r.failOrder {
		f := r.fails[name]
		sum := sha256.Sum256(append([]byte(f.verdict.Class), f.caseJS...))
		dir := filepath.Join(r.Root, "replays", r.ID)
		os.MkdirAll(dir, 0o755)
		name = f.test
		base := sanitize(name) + "-" + sanitize(f.verdict.Class) + "-" + hex.EncodeToString(sum[:4]) + ".json"
		path := filepath.Join(dir, base)
		doc := map[string]any{"property": r.ID, "test": name, "verdict": f.verdict, "case": json.RawMessage(f.caseJS),
			"seed": r.Seed, "tier": r.Tier, "replay": fmt.Sprintf("./check %s --replay replays/%s/%s", r.ID, r.ID, base)}
		js, _ := json.MarshalIndent(doc, "", " ")
		if err := os.WriteFile(path, js, 0o644); err != nil {
			fmt.Printf("INFRA: cannot write replay: %v\n", err)
		}
		fmt.Printf("VIOLATION property=%s replay=replays/%s/%s\n", r.ID, r.ID, base)
		fmt.Printf("  class=%s detail=%s\n", f.verdict.Class, oneLine(f.verdict.Detail, 400))
		r.violations++
	}
	for _, s := range r.infra {
		fmt.Printf("INFRA: %s\n", s)
	}
	r.writeEvidence()
	if r.violations > 0 {
		return 1
	}
	if len(r.infra) > 0 || code != 0 {
		return 2
	}
	return 0
}

func oneLine(s string, n int) string {
	s = strings.ReplaceAll(s, "\n", "\\n")
	if len(s) > n {
		s = s[:n] + "…"
	}
	return s
}

func sanitize(s string) string {
	var b strings.Builder
	for _, c := range s {
		if c >= 'a' && c <= 'z' || c >= 'A' && c <= 'Z' || c >= '0' && c <= '9' || c == '-' || c == '_' {
			b.WriteRune(c)
		} else {
			b.WriteByte('_')
		}
	}
	return b.String()
}

func (r *Rec) writeEvidence() {
	out := os.Getenv("VK_EVIDENCE_OUT")
	if out == "" {
		out = filepath.Join(r.Root, "evidence", r.ID+".json")
	}
	os.MkdirAll(filepath.Dir(out), 0o755)
	cov := map[string]any{}
	for k, v := range r.extra {
		cov[k] = v
	}
	cov["evaluations"] = r.evals
	cov["distinct_nontrivial"] = len(r.distinct)
	cov["rule"] = r.Rule
	samples := r.samples
	if len(samples) == 0 {
		samples = r.autoSamples
	}
	if samples == nil {
		samples = []any{}
	}
	cov["samples"] = samples
	cov["classes"] = r.classes
	cov["excluded_known"] = r.excluded
	cov["rejected"] = r.rejected
	if len(r.knownHits) > 0 {
		cov["known_finding_hits"] = r.knownHits
	}
	if r.exhaustive != nil {
		cov["exhaustive"] = *r.exhaustive
	}
	sort.Strings(r.assume)
	if r.assume == nil {
		r.assume = []string{}
	}
	doc := map[string]any{
		"property_id": r.ID, "tier": r.Tier, "seed": r.Seed, "level": r.Level,
		"coverage": cov, "assumptions": r.assume, "violations": r.violations,
		"wall_s": float64(int(time.Since(r.start).Seconds()*100)) / 100,
	}
	if r.Shards > 1 {
		doc["shard"] = r.Shard
		doc["shards"] = r.Shards
	}
	js, _ := json.MarshalIndent(doc, "", " ")
	if err := os.WriteFile(out, append(js, '\n'), 0o644); err != nil {
		fmt.Printf("INFRA: cannot write evidence: %v\n", err)
	}
	if r.Shards > 1 {
		// side file with the distinct hashes so the driver can union them
		var b strings.Builder
		for h := range r.distinct {
			b.WriteString(strconv.FormatUint(h, 16))
			b.WriteByte('\n')
		}
		os.WriteFile(out+".hashes", []byte(b.String()), 0o644)
	}
}

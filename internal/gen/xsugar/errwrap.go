package xsugar

import (
	"fmt"
	"strings"
)

// ErrWrapDecls: functions returning (values..., error) that trace their call.
const ErrWrapDecls = `
var errA = errors.New("errA")
var errB = errors.New("errB")

func e0(tag string, fail bool) error {
	trace = append(trace, tag)
	if fail {
		return errA
	}
	return nil
}

func e1(tag string, fail bool, v int) (int, error) {
	trace = append(trace, tag)
	if fail {
		return v + 1000, errA
	}
	return v, nil
}

func es(tag string, fail bool, v string) (string, error) {
	trace = append(trace, tag)
	if fail {
		return "junk", errB
	}
	return v, nil
}

func e2(tag string, fail bool, a int, b string) (int, string, error) {
	trace = append(trace, tag)
	if fail {
		return a + 1000, "junk", errA
	}
	return a, b, nil
}

func el(tag string, fail bool, n int) ([]int, error) {
	trace = append(trace, tag)
	if fail {
		return []int{9}, errB
	}
	return mk(n), nil
}

func er(tag string, fail bool, n int) (rec, error) {
	trace = append(trace, tag)
	if fail {
		return rec{"junk", 9}, errA
	}
	return rec{"r", n}, nil
}

type wrapper struct {
	n int
}

func (w *wrapper) get(tag string, fail bool) (int, error) {
	trace = append(trace, tag)
	if fail {
		return 0, errB
	}
	return w.n, nil
}

func (w *wrapper) peek() (int, error) {
	trace = append(trace, "peek")
	return w.n + 1, nil
}

func noargs() (int, error) {
	trace = append(trace, "noargs")
	return 5, nil
}

func noargsFail() (int, error) {
	trace = append(trace, "noargsFail")
	return 0, errA
}

func use2(a int, b int) int {
	return a*10 + b
}

func which(err error) string {
	switch {
	case err == nil:
		return "nil"
	case errors.Is(err, errA):
		return "errA"
	case errors.Is(err, errB):
		return "errB"
	}
	return "other"
}

// frameFn names the function recorded in the source frame an error was wrapped with. The XGo
// build wraps the error (its text carries "===> errors stack:" and the function name); in the
// reference program the error is the plain sentinel and the expected name is returned.
func frameFn(err error, want string) string {
	if err == nil {
		return ""
	}
	s := err.Error()
	i := strings.Index(s, "errors stack:\n")
	if i < 0 {
		return want
	}
	rest := s[i+len("errors stack:\n"):]
	if j := strings.IndexAny(rest, "(\n"); j >= 0 {
		rest = rest[:j]
	}
	return rest
}

func frameR(r interface{}, want string) string {
	if e, ok := r.(error); ok {
		return frameFn(e, want)
	}
	return ""
}

func whichR(r interface{}) string {
	if r == nil {
		return "no-panic"
	}
	if e, ok := r.(error); ok {
		return "panic:" + which(e)
	}
	return "panic:non-error"
}
`

// wrapCall is one wrapped call: XGo text of the call (without the operator), result shape.
type wrapCall struct {
	call  string // e1("g1", true, 3)
	shape string // "0" | "int" | "string" | "2" | "list" | "rec"
	fail  bool
	xcall string // XGo spelling of the operand when it differs from call (`noargs`, `wr.peek`: no parentheses)
	field string // ".sc": the wrapped value is a rec and the int is selected from it (`er(...)!.sc`)
}

// x is the XGo spelling of the wrapped operand.
func (c wrapCall) x() string {
	if c.xcall != "" {
		return c.xcall
	}
	return c.call
}

func (g *G) wrapCall(shape string, fail bool) wrapCall {
	tag := g.Tag()
	f := fmt.Sprint(fail)
	switch shape {
	case "0":
		return wrapCall{call: fmt.Sprintf("e0(%q, %s)", tag, f), shape: shape, fail: fail}
	case "int":
		switch g.Intn(8, "intform") {
		case 0, 1:
			return wrapCall{call: fmt.Sprintf("wr.get(%q, %s)", tag, f), shape: shape, fail: fail}
		case 2: // identifier without parentheses
			if fail {
				return wrapCall{call: "noargsFail()", xcall: "noargsFail", shape: shape, fail: true}
			}
			return wrapCall{call: "noargs()", xcall: "noargs", shape: shape}
		case 3: // selector without parentheses
			return wrapCall{call: "wr.peek()", xcall: "wr.peek", shape: shape}
		case 4: // a field of the wrapped value
			return wrapCall{call: fmt.Sprintf("er(%q, %s, %d)", tag, f, g.Intn(9, "v")), shape: shape, fail: fail, field: ".sc"}
		}
		return wrapCall{call: fmt.Sprintf("e1(%q, %s, %d)", tag, f, g.Intn(9, "v")), shape: shape, fail: fail}
	case "string":
		return wrapCall{call: fmt.Sprintf("es(%q, %s, %q)", tag, f, "s"+fmt.Sprint(g.Intn(9, "v"))), shape: shape, fail: fail}
	case "2":
		return wrapCall{call: fmt.Sprintf("e2(%q, %s, %d, %q)", tag, f, g.Intn(9, "v"), "b"), shape: shape, fail: fail}
	case "list":
		return wrapCall{call: fmt.Sprintf("el(%q, %s, %d)", tag, f, g.Intn(4, "v")), shape: shape, fail: fail}
	}
	return wrapCall{call: fmt.Sprintf("er(%q, %s, %d)", tag, f, g.Intn(9, "v")), shape: shape, fail: fail}
}

func zeroOf(shape string) string {
	switch shape {
	case "int":
		return "0"
	case "string":
		return `""`
	case "list":
		return "nil"
	case "rec":
		return "rec{}"
	}
	return ""
}

func goType(shape string) string {
	switch shape {
	case "int":
		return "int"
	case "string":
		return "string"
	case "list":
		return "[]int"
	case "rec":
		return "rec"
	}
	return ""
}

// ErrWrapItem draws one item of the C03 family.
func (g *G) ErrWrapItem() Item {
	op := []string{"?", "?", "!", "!", "?:"}[g.Intn(5, "op")]
	id := g.Var("h")
	failPct := 50
	fails := func() bool { return g.Chance(failPct, "fail") }
	var labels []string
	labels = append(labels, "op="+op)

	// enclosing function result shape (for `?` the last result must be error)
	encl := [][]string{{}, {"int"}, {"int", "string"}, {"list"}, {"rec", "int"}}[g.Intn(5, "encl")]
	retZero := func() string {
		var z []string
		for _, s := range encl {
			z = append(z, zeroOf(s))
		}
		return strings.Join(append(z, "err"), ", ")
	}
	retOK := func(vals map[string]string) string {
		var z []string
		for _, s := range encl {
			switch s {
			case "int":
				z = append(z, vals["int"])
			case "string":
				z = append(z, vals["string"])
			case "list":
				z = append(z, vals["list"])
			case "rec":
				z = append(z, vals["rec"])
			}
		}
		return strings.Join(append(z, "nil"), ", ")
	}
	sig := func() string {
		var ts []string
		for _, s := range encl {
			ts = append(ts, goType(s))
		}
		ts = append(ts, "error")
		if len(ts) == 1 {
			return "error"
		}
		return "(" + strings.Join(ts, ", ") + ")"
	}

	// body statements, both renderings; ints available afterwards: a, s, l, r
	var bx, bg []string
	pre := "wr := &wrapper{n: 7}\n_ = wr\na, s, l, r := 0, \"\", []int(nil), rec{}\n_, _, _, _ = a, s, l, r"
	hoist := func(c wrapCall, targets string) (x string, gg string) {
		// returns the Go statements that evaluate c once and handle the error per op
		return "", ""
	}
	_ = hoist
	nwrap := 0
	emit := func(c wrapCall, use string) {
		// use: "stmt" | "define" | "assign" | "arg" | "operand" | "return"
		nwrap++
		tmp := g.Var("w")
		onErr := ""
		switch op {
		case "?":
			onErr = "return " + retZero()
		case "!":
			onErr = "panic(err)"
		}
		switch c.shape {
		case "0":
			switch op {
			case "?:":
				// no value to default: not generated
			default:
				xcall := c.call + op
				if g.Chance(50, "cmdstyle") { // command style: e0! "g1", true
					i := strings.Index(c.call, "(")
					xcall = c.call[:i] + op + " " + strings.TrimSuffix(c.call[i+1:], ")")
					labels = append(labels, "command-style")
				}
				bx = append(bx, xcall)
				bg = append(bg, fmt.Sprintf("if err := %s; err != nil {\n\t%s\n}", c.call, onErr))
			}
			return
		case "2":
			if use == "discard" && op != "?:" { // statement position: both values are dropped
				bx = append(bx, c.call+op)
				bg = append(bg, fmt.Sprintf("if _, _, err := %s; err != nil {\n\t%s\n}", c.call, onErr))
				labels = append(labels, "multi-value-discarded")
				return
			}
			bx = append(bx, fmt.Sprintf("a, s = %s%s", c.call, op))
			bg = append(bg, fmt.Sprintf("{\n\t%s, %s2, err := %s\n\tif err != nil {\n\t\t%s\n\t}\n\ta, s = %s, %s2\n}", tmp, tmp, c.call, onErr, tmp, tmp))
			labels = append(labels, "multi-value")
			return
		}
		target := map[string]string{"int": "a", "string": "s", "list": "l", "rec": "r"}[c.shape]
		if op == "?:" && c.field != "" { // (x ?: d).f is not written: wrap the int-valued twin of er instead
			c.call, c.field = strings.Replace(c.call, "er(", "e1(", 1), ""
		}
		wrapped := c.x() + op + c.field
		var goVal string
		var goPre string
		if op == "?:" {
			def := map[string]string{"int": fmt.Sprint(40 + g.Intn(9, "def")), "string": `"dflt"`, "list": "[]int{4, 2}", "rec": `rec{"d", 1}`}[c.shape]
			xdef := def
			if c.shape == "list" {
				xdef = "[4, 2]"
			}
			wrapped = c.x() + "?:" + xdef
			goVal = fmt.Sprintf("func() %s {\n\tv, err := %s\n\tif err != nil {\n\t\treturn %s\n\t}\n\treturn v\n}()", goType(c.shape), c.call, def)
		} else {
			goPre = fmt.Sprintf("%s, err := %s\nif err != nil {\n\t%s\n}\n", tmp, c.call, onErr)
			goVal = tmp + c.field
		}
		switch use {
		case "discard":
			if op == "?:" || c.field != "" { // a defaulted value or a selected field as a statement would be an unused value
				bx = append(bx, fmt.Sprintf("%s = %s", target, wrapped))
				bg = append(bg, fmt.Sprintf("%s%s = %s", goPre, target, goVal))
				break
			}
			// value-yielding call in statement position (`file.write(b)?`): the value is dropped
			bx = append(bx, wrapped)
			bg = append(bg, fmt.Sprintf("%s_ = %s", goPre, goVal))
			labels = append(labels, "value-discarded")
		case "define":
			n := g.Var("d")
			bx = append(bx, fmt.Sprintf("%s := %s\n%s = %s", n, wrapped, target, n))
			bg = append(bg, fmt.Sprintf("%s%s := %s\n%s = %s", goPre, n, goVal, target, n))
		case "arg":
			if c.shape == "int" {
				bx = append(bx, fmt.Sprintf("a = use2(%s, a)", wrapped))
				bg = append(bg, fmt.Sprintf("%sa = use2(%s, a)", goPre, goVal))
			} else {
				bx = append(bx, fmt.Sprintf("s = fmt.Sprint(%s, s)", wrapped))
				bg = append(bg, fmt.Sprintf("%ss = fmt.Sprint(%s, s)", goPre, goVal))
			}
		case "operand":
			if c.shape == "int" {
				bx = append(bx, fmt.Sprintf("a = a*2 + %s", wrapped))
				bg = append(bg, fmt.Sprintf("%sa = a*2 + %s", goPre, goVal))
			} else if c.shape == "string" {
				bx = append(bx, fmt.Sprintf("s = s + %s + \"|\"", wrapped))
				bg = append(bg, fmt.Sprintf("%ss = s + %s + \"|\"", goPre, goVal))
			} else {
				bx = append(bx, fmt.Sprintf("%s = %s", target, wrapped))
				bg = append(bg, fmt.Sprintf("%s%s = %s", goPre, target, goVal))
			}
		default:
			bx = append(bx, fmt.Sprintf("%s = %s", target, wrapped))
			bg = append(bg, fmt.Sprintf("%s%s = %s", goPre, target, goVal))
		}
	}

	n := 1 + g.Intn(3, "nwraps")
	anyFail := false
	for i := 0; i < n; i++ {
		shapes := []string{"int", "int", "string", "list", "rec", "0", "2"}
		sh := shapes[g.Intn(len(shapes), "shape")]
		if op == "?:" && (sh == "0" || sh == "2") { // no single value to default
			sh = "int"
		}
		f := fails()
		anyFail = anyFail || f
		failPct = 25 // later wraps fail less often so that they are reached
		emit(g.wrapCall(sh, f), []string{"stmt", "define", "arg", "operand", "discard"}[g.Intn(5, "use")])
	}
	// a statement with two wraps of ints in one expression
	if g.Chance(40, "double") {
		c1, c2 := g.wrapCall("int", fails()), g.wrapCall("int", fails())
		anyFail = anyFail || c1.fail || c2.fail
		labels = append(labels, "two-wraps-one-stmt")
		nwrap += 2
		switch op {
		case "?:":
			if c1.field != "" {
				c1.call, c1.field = strings.Replace(c1.call, "er(", "e1(", 1), ""
			}
			if c2.field != "" {
				c2.call, c2.field = strings.Replace(c2.call, "er(", "e1(", 1), ""
			}
			bx = append(bx, fmt.Sprintf("a = %s?:1 + %s?:2", c1.x(), c2.x()))
			bg = append(bg, fmt.Sprintf("a = func() int {\n\tv, err := %s\n\tif err != nil {\n\t\treturn 1\n\t}\n\treturn v\n}() + func() int {\n\tv, err := %s\n\tif err != nil {\n\t\treturn 2\n\t}\n\treturn v\n}()", c1.call, c2.call))
		default:
			onErr := "panic(err)"
			if op == "?" {
				onErr = "return " + retZero()
			}
			bx = append(bx, fmt.Sprintf("a = %s%s%s + %s%s%s", c1.x(), op, c1.field, c2.x(), op, c2.field))
			t1, t2 := g.Var("w"), g.Var("w")
			bg = append(bg, fmt.Sprintf("%s, err := %s\nif err != nil {\n\t%s\n}\n%s, err := %s\nif err != nil {\n\t%s\n}\na = %s%s + %s%s", t1, c1.call, onErr, t2, c2.call, onErr, t1, c1.field, t2, c2.field))
		}
	}
	okRet := retOK(map[string]string{"int": "a", "string": "s", "list": "l", "rec": "r"})
	state := "fmt.Println(\"  state\", a, s, l, r)"
	var declX, declG, callX string
	switch op {
	case "?":
		declX = fmt.Sprintf("func %s() %s {\n%s\n%s\n%s\n\treturn %s\n}", id, sig(), indent(pre), indent(strings.Join(bx, "\n")), indent(state), okRet)
		declG = fmt.Sprintf("func %s() %s {\n%s\n%s\n%s\n\treturn %s\n}", id, sig(), indent(pre), indent(strings.Join(bg, "\n")), indent(state), okRet)
		var outs []string
		for i := range encl {
			outs = append(outs, fmt.Sprintf("o%d", i))
		}
		outs = append(outs, "err")
		callX = strings.Join(outs, ", ") + " := " + id + "()\nfmt.Println(\"  result\", " + strings.Join(outs[:len(outs)-1], ", ")
		if len(encl) > 0 {
			callX += ", "
		}
		callX += "which(err), frameFn(err, \"main." + id + "\"))\nflush(false)"
		if g.Chance(40, "in-funclit") {
			// `?` returns from the innermost function: here a function literal with an error result
			// inside a named function that has none
			labels = append(labels, "question-inside-funclit")
			wrap := func(decl string) string {
				lit := strings.Replace(decl, "func "+id+"() ", "fn := func() ", 1)
				call := strings.Replace(strings.TrimSuffix(callX, "\nflush(false)"), id+"()", "fn()", 1)
				return fmt.Sprintf("func %s() int {\n%s\n%s\n\treturn 0\n}", id, indent(lit), indent(call))
			}
			declX, declG = wrap(declX), wrap(declG)
			callX = "_ = " + id + "()\nflush(false)"
		}
	default:
		// `!` and `?:` work anywhere: run inside a function literal with a recover
		inLambda := g.Chance(35, "in-overloaded-lambda")
		if inLambda && op == "!" {
			// a command-style wrap as the lambda's last statement, both outcomes
			f := g.Chance(50, "lastfail")
			tag := g.Tag()
			bx = append(bx, fmt.Sprintf("e0! %q, %v", tag, f))
			bg = append(bg, fmt.Sprintf("if err := e0(%q, %v); err != nil {\n\tpanic(err)\n}", tag, f))
			labels = append(labels, "command-style")
		}
		body := func(stmts []string, xgo bool) string {
			inner := strings.Join(stmts, "\n")
			if inLambda {
				// the statements run inside a lambda passed to an overloaded function whose first
				// candidate does not match the first argument (the compiler has to try the next one)
				if xgo {
					inner = "onEvt \"evt\", v => {\n\t_ = v\n" + indent(inner) + "\n}"
				} else {
					inner = "onEvtS(\"evt\", func(v string) {\n\t_ = v\n" + indent(inner) + "\n})"
				}
			}
			return fmt.Sprintf("func %s() {\n\tdefer func() {\n\t\tr := recover()\n\t\tfmt.Println(\"  recovered\", whichR(r), frameR(r, \"main.%s\"))\n\t}()\n%s\n%s\n%s\n}", id, id, indent(pre), indent(inner), indent(state))
		}
		if inLambda {
			labels = append(labels, "inside-lambda-of-overloaded-call")
		}
		declX, declG = body(bx, true), body(bg, false)
		callX = id + "()\nflush(false)"
	}
	key := "errwrap/" + op + "/" + strings.Join(bx, ";")
	return Item{Kind: "errwrap" + map[string]string{"?": "Q", "!": "B", "?:": "D"}[op], X: callX, G: callX, DeclX: declX, DeclG: declG, Key: key,
		NonTrivial: anyFail || nwrap >= 2, Labels: labels}
}

// ErrWrapProgram draws a program of n items of the C03 family.
const evtFuncs = `
func onEvtI(k int, f func(int)) {
	f(k)
}

func onEvtS(k string, f func(string)) {
	f(k)
}
`

func ErrWrapProgram(g *G, n int) *Program {
	p := &Program{DeclsX: []string{ErrWrapDecls, evtFuncs, "func onEvt = (\n\tonEvtI\n\tonEvtS\n)\n"}, DeclsG: []string{ErrWrapDecls, evtFuncs}}
	for i := 0; i < n; i++ {
		p.Items = append(p.Items, g.ErrWrapItem())
	}
	return p
}

// Package deps pins every module the checks may need into go.mod/go.sum (offline cache only).
package deps

import (
	_ "github.com/goplus/gogen"
	_ "github.com/goplus/mod/modfile"
	_ "github.com/goplus/mod/xgomod"
	_ "github.com/goplus/xgo/ast/fromgo"
	_ "github.com/goplus/xgo/ast/togo"
	_ "github.com/goplus/xgo/cl"
	_ "github.com/goplus/xgo/cl/cltest"
	_ "github.com/goplus/xgo/format"
	_ "github.com/goplus/xgo/format/formatutil"
	_ "github.com/goplus/xgo/parser/fsx/memfs"
	_ "github.com/goplus/xgo/tool"
	_ "github.com/goplus/xgo/tpl"
	_ "github.com/goplus/xgo/x/build"
	_ "github.com/goplus/xgo/x/fakenet"
	_ "github.com/goplus/xgo/x/format"
	_ "github.com/goplus/xgo/x/jsonrpc2"
	_ "github.com/goplus/xgo/x/typesutil"
	_ "github.com/goplus/xgo/x/watcher"
	_ "github.com/goplus/xgo/x/xgoprojs"
	_ "github.com/qiniu/x/errors"
	_ "pgregory.net/rapid"
)

//go:build verif

package c20

import (
	"encoding/json"
	"fmt"
	"os"
	"sort"
	"strings"
	"testing"

	"verif/internal/gen/fmtin"
)

func TestCand(t *testing.T) {
	b, err := os.ReadFile(os.Getenv("CAND"))
	if err != nil {
		return
	}
	m := map[string]string{}
	json.Unmarshal(b, &m)
	var ks []string
	for k := range m {
		ks = append(ks, k)
	}
	sort.Strings(ks)
	for _, k := range ks {
		if k == "crash" {
			continue
		}
		src, class := m[k], false
		if strings.HasPrefix(src, "CLASS\n") {
			src, class = src[6:], true
		}
		v, in := check(Case{Src: []byte(src), Class: class})
		d := "ok"
		if v != nil {
			d = v.Class + " :: " + fmtin.Short(strings.ReplaceAll(v.Detail, "\n", "\\n"), 150)
		}
		fmt.Printf("%-38s rej=%q shapes=%v\n    %s\n", k, in.rejected, in.shapes, d)
	}
}

package astsynth

import (
	"fmt"
	gotoken "go/token"

	"github.com/goplus/xgo/ast"
	"github.com/goplus/xgo/parser"
	"pgregory.net/rapid"
)

// ---- templates -------------------------------------------------------------------------------
//
// A template is a Spec with holes (K "?"; S "e" = expression, "s" = statement, "call" = call
// expression). Everything that is not a hole is fixed. The immediate parent of a hole and the
// index of the hole in its C list name the slot.

func hole(cat string) *Spec       { return &Spec{K: "?", S: cat} }
func e() *Spec                    { return hole("e") }
func leaf(name string) *Spec      { return &Spec{K: "Ident", S: name} }
func lit(kind, text string) *Spec { return &Spec{K: "Lit", Op: kind, S: text} }
func n(k, op string, c ...*Spec) *Spec {
	return &Spec{K: k, Op: op, C: c}
}
func nf(k string, f int, s string, c ...*Spec) *Spec { return &Spec{K: k, F: f, S: s, C: c} }

var UnaryOps = []string{"-", "+", "!", "^", "&", "<-"}
var BinaryOps = []string{"||", "&&", "==", "!=", "<", "<=", ">", ">=", "->", "<>", "+", "-", "|", "^", "*", "/", "%", "<<", ">>", "&", "&^"}

// Leaves are the leaf expressions used to fill the holes that are not under test.
var Leaves = []*Spec{leaf("a"), leaf("b"), lit("INT", "1"), lit("STRING", `"s"`), lit("FLOAT", "2.5"), lit("CHAR", "'c'"), lit("IMAG", "3i"), lit("RAT", "4r"),
	lit("STRING", "`r`"), lit("CSTRING", `"cs"`), {K: "Unit", Op: "INT", S: "2|m"}, {K: "Env", S: "x"}, {K: "Env", S: "y", F: 1}, {K: "DomainText", S: "json|`{}`"}, leaf("_"), leaf("é")}

// ExprTemplates returns every expression template (one per kind / operator / flag variant).
func ExprTemplates() []*Spec {
	var out []*Spec
	for _, op := range UnaryOps {
		out = append(out, n("Unary", op, e()))
	}
	out = append(out, n("Star", "", e()))
	for _, op := range BinaryOps {
		out = append(out, n("Binary", op, e(), e()))
	}
	out = append(out,
		n("Call", "", e()), n("Call", "", e(), e()), n("Call", "", e(), e(), e()), nf("Call", 1, "", e(), e()),
		n("Call", "", n("ArrayType", "", nil, leaf("T")), e()), n("Call", "", n("Star", "", leaf("T")), e()),
		n("Index", "", e(), e()), n("IndexList", "", e(), e(), e()),
		n("Slice", "", e(), nil, nil), n("Slice", "", e(), e(), nil), n("Slice", "", e(), nil, e()), n("Slice", "", e(), e(), e()), nf("Slice", 1, "", e(), e(), e(), e()), nf("Slice", 1, "", e(), nil, e(), e()),
		nf("Selector", 0, "f", e()), n("TypeAssert", "", e(), leaf("T")), n("TypeAssert", "", e(), n("Star", "", leaf("T"))),
		n("Composite", "", leaf("T")), n("Composite", "", leaf("T"), e()), n("Composite", "", leaf("T"), e(), e()), n("Composite", "", leaf("T"), n("KeyValue", "", e(), e())),
		n("Composite", "", nil, n("KeyValue", "", e(), e())), n("Composite", "", n("ArrayType", "", nil, leaf("int")), e()), n("Composite", "", n("MapType", "", leaf("string"), leaf("T")), n("KeyValue", "", e(), e())),
		n("Composite", "", n("ArrayType", "", e(), leaf("int")), e()),
		n("SliceLit", ""), n("SliceLit", "", e()), n("SliceLit", "", e(), e()),
		nf("FuncLit", 0, "", hole("s")), nf("FuncLit", 3, "", n("Return", "", e())),
		nf("Lambda", 0, "x", e()), nf("Lambda", 1, "x,y", e()), nf("Lambda", 3, "x,y", e(), e()), nf("Lambda", 1, "", e()), nf("Lambda", 2, "x", e()), nf("Lambda", 0, "", e()),
		nf("Lambda2", 0, "x", hole("s")), nf("Lambda2", 1, "x,y", n("Return", "", e())), nf("Lambda2", 0, "", hole("s")),
		n("ErrWrap", "!", e()), n("ErrWrap", "?", e()), n("ErrWrap", "?:", e(), e()),
		n("Compr", "[", e(), nf("For", 0, "v", e())), n("Compr", "[", e(), nf("For", 0, "k,v", e(), e())), n("Compr", "{", e(), nf("For", 0, "v", e())),
		n("Compr", "{", n("KeyValue", "", e(), e()), nf("For", 0, "k,v", e())), n("Compr", "[", e(), nf("For", 0, "v", e()), nf("For", 0, "w", e(), e())), n("Compr", "{", nil, nf("For", 0, "v", e())),
	)
	return out
}

// StmtTemplates returns every statement template.
func StmtTemplates() []*Spec {
	out := []*Spec{
		n("ExprStmt", "", e()),
		n("ExprStmt", "", n("CmdCall", "", e(), e())), n("ExprStmt", "", n("CmdCall", "", e(), e(), e())), n("ExprStmt", "", nf("CmdCall", 1, "", e(), e(), e())),
		nf("Assign", 1, "", hole("lv"), e()), nf("Assign", 2, "", hole("lv"), hole("lv"), e(), e()), nf("Assign", 2, "", hole("lv"), hole("lv"), e()),
		n("Send", "", e(), e()), n("Send", "", e(), e(), e()),
		n("IncDec", "++", hole("lv")), n("IncDec", "--", hole("lv")),
		n("Return", ""), n("Return", "", e()), n("Return", "", e(), e()),
		n("If", "", e(), n("Block", "")), n("If", "", e(), n("Block", "", hole("s")), n("Block", "", hole("s"))), n("If", "", e(), n("Block", ""), n("If", "", e(), n("Block", ""))),
		n("ForCond", "", e(), n("Block", "")), n("ForCond", "", nil, n("Block", "", hole("s"))),
		nf("ForIn", 0, "v", e(), nil, n("Block", "")), nf("ForIn", 0, "k,v", e(), e(), n("Block", "")),
		nf("ForIn", 0, "i", n("Range", "", nil, e(), nil), nil, n("Block", "")), nf("ForIn", 0, "i", n("Range", "", e(), e(), nil), nil, n("Block", "")), nf("ForIn", 0, "i", n("Range", "", e(), e(), e()), nil, n("Block", "")),
		{K: "RangeStmt", Op: ":=", S: "k,v", C: []*Spec{e(), n("Block", "")}}, {K: "RangeStmt", Op: "=", S: "k", C: []*Spec{e(), n("Block", "")}},
		n("Switch", "", e(), n("Case", "", e()), n("Case", "")), n("Switch", "", nil, n("Case", "", e(), e())),
		n("Defer", "", n("Call", "", e(), e())), n("Go", "", n("Call", "", e())), n("Block", "", hole("s"), hole("s")),
	}
	for _, op := range []string{"=", ":=", "+=", "-=", "*=", "/=", "%=", "&=", "|=", "^=", "<<=", ">>=", "&^="} {
		out = append(out, &Spec{K: "Assign", Op: op, F: 1, C: []*Spec{hole("lv"), e()}})
	}
	for _, s := range out {
		if s.K == "Assign" && s.Op == "" {
			s.Op = "="
		}
	}
	return out
}

// Label names a template: kind plus what distinguishes the variant.
func Label(s *Spec) string {
	if s == nil {
		return "nil"
	}
	l := s.K
	if s.Op != "" && s.K != "Lit" {
		l += "(" + s.Op + ")"
	}
	return l
}

// ClassOf names the shape (parent kind, slot, child kind) of child sitting in slot index of
// parent. Operators are part of the name only where they matter for printing: the child's
// operator for ErrWrap children (! ? ?:) and both operators for a unary or star operand of a
// unary or binary operator (sign adjacency).
func ClassOf(parent *Spec, index int, child *Spec) string {
	c := parent.K + "." + Slot(parent.K, index) + ":" + child.K
	switch {
	case child.K == "ErrWrap":
		c += "(" + child.Op + ")"
	case (parent.K == "Unary" || parent.K == "Binary" || parent.K == "Star") && (child.K == "Unary" || child.K == "Star"):
		pop, cop := parent.Op, child.Op
		if parent.K == "Star" {
			pop = "*"
		}
		if child.K == "Star" {
			cop = "*"
		}
		c += "(" + pop + " " + cop + ")"
	}
	return c
}

// clone copies a Spec tree.
func clone(s *Spec) *Spec {
	if s == nil {
		return nil
	}
	c := *s
	c.C = make([]*Spec, len(s.C))
	for i, x := range s.C {
		c.C[i] = clone(x)
	}
	return &c
}

// Hole addresses one hole of a template: the parent node and the index in its C list.
type Hole struct {
	Parent *Spec
	Index  int
}

// Holes lists the holes of s in pre-order.
func Holes(s *Spec) (out []Hole) {
	if s == nil {
		return
	}
	for i, c := range s.C {
		if c != nil && c.K == "?" {
			out = append(out, Hole{s, i})
		} else {
			out = append(out, Holes(c)...)
		}
	}
	return
}

func fillLeaves(s *Spec, next *int) {
	for _, h := range Holes(s) {
		switch h.Parent.C[h.Index].S {
		case "s":
			h.Parent.C[h.Index] = n("ExprStmt", "", n("Call", "", leaf(fmt.Sprintf("g%d", *next))))
		case "call":
			h.Parent.C[h.Index] = n("Call", "", leaf(fmt.Sprintf("g%d", *next)))
		default:
			h.Parent.C[h.Index] = leaf(fmt.Sprintf("v%d", *next))
		}
		*next++
	}
}

// Pair is one entry of the exhaustive parent/slot/child table.
type Pair struct {
	Tree   *Spec  // the complete tree (holes filled)
	Parent string // label of the node that owns the slot
	Slot   string
	Child  string // label of the child put in the slot
}

// Class is the shape key (parent, slot, child) used for verdict classes and steering.
func (p Pair) Class() string { return p.Parent + "." + p.Slot + ":" + p.Child }

// lvalues are the child templates allowed in assignment-target holes (category "lv").
func lvalues() []*Spec {
	return []*Spec{leaf("a"), n("Index", "", e(), e()), nf("Selector", 0, "f", e()), n("Star", "", e())}
}

// Pairs enumerates every (parent template, expression hole, child template) combination, all
// other holes filled with distinct identifiers: the complete depth-2 catalogue. Statement
// templates are parents only.
func Pairs() []Pair {
	var out []Pair
	children := append([]*Spec{}, ExprTemplates()...)
	for _, l := range Leaves {
		children = append(children, l)
	}
	parents := append(append([]*Spec{}, ExprTemplates()...), StmtTemplates()...)
	for _, pt := range parents {
		for hi, h0 := range Holes(pt) {
			cat := h0.Parent.C[h0.Index].S
			if cat != "e" && cat != "lv" {
				continue
			}
			kids := children
			if cat == "lv" {
				kids = lvalues()
			}
			for _, ct := range kids {
				tree := clone(pt)
				h := Holes(tree)[hi]
				child := clone(ct)
				next := 0
				fillLeaves(child, &next)
				h.Parent.C[h.Index] = child
				fillLeaves(tree, &next)
				out = append(out, Pair{Tree: tree, Parent: Label(h.Parent), Slot: Slot(h.Parent.K, h.Index), Child: Label(child)})
			}
		}
	}
	return out
}

// Triples adds the three-level families that the pair table cannot show: a command-style call
// whose first argument is a unary operator over a unary or star operand (`f - -x`), and an
// ErrWrap ! or ? under a unary, star or binary operator in a slot that is followed by ':'.
func Triples() []Pair {
	var out []Pair
	ops := append(append([]string{}, UnaryOps...), "*")
	mk := func(op string, x *Spec) *Spec {
		if op == "*" {
			return n("Star", "", x)
		}
		return n("Unary", op, x)
	}
	for _, o1 := range ops {
		for _, o2 := range ops {
			for _, more := range []bool{false, true} {
				call := n("CmdCall", "", leaf("f"), mk(o1, mk(o2, leaf("x"))))
				if more {
					call.C = append(call.C, leaf("y"))
				}
				out = append(out, Pair{Tree: n("ExprStmt", "", call), Parent: "CmdCall", Slot: "Args", Child: "Unary(" + o1 + ")>Unary(" + o2 + ")"})
			}
		}
	}
	for _, ew := range []string{"!", "?"} {
		for _, wrap := range []func(*Spec) *Spec{
			func(x *Spec) *Spec { return n("Unary", "-", x) },
			func(x *Spec) *Spec { return n("Star", "", x) },
			func(x *Spec) *Spec { return n("Binary", "+", leaf("p"), x) },
			func(x *Spec) *Spec { return n("Binary", "&&", leaf("p"), n("Unary", "!", x)) },
		} {
			x := func() *Spec { return wrap(n("ErrWrap", ew, leaf("e"))) }
			for _, tree := range []*Spec{
				n("Slice", "", leaf("a"), x(), nil), n("Slice", "", leaf("a"), x(), leaf("h")), nf("Slice", 1, "", leaf("a"), leaf("l"), x(), leaf("m")),
				n("Switch", "", nil, n("Case", "", leaf("c"), x())), n("Compr", "{", n("KeyValue", "", x(), leaf("v")), nf("For", 0, "k,v", leaf("m"))),
				n("Composite", "", nil, n("KeyValue", "", x(), leaf("v"))),
			} {
				out = append(out, Pair{Tree: tree, Parent: tree.K, Slot: "right-edge", Child: "ErrWrap(" + ew + ")"})
			}
		}
	}
	return out
}

// ---- random trees ----------------------------------------------------------------------------

// Config steers the random generators. Avoid (may be nil) vetoes a child for a slot: the
// generator then puts a leaf there and reports the class through Steered.
type Config struct {
	MaxDepth int
	Avoid    func(class string) bool
	Steered  func(class string)
}

func (cfg Config) fill(t *rapid.T, tree *Spec, depth int, exprT, stmtT []*Spec) {
	for _, h := range Holes(tree) {
		cat := h.Parent.C[h.Index].S
		var child *Spec
		switch {
		case cat == "s":
			if depth <= 0 {
				child = n("ExprStmt", "", n("Call", "", leaf("g")))
			} else {
				child = clone(rapid.SampledFrom(stmtT).Draw(t, "stmt"))
				cfg.fill(t, child, depth-1, exprT, stmtT)
			}
		case cat == "call":
			child = n("Call", "", leaf("g"))
		case depth <= 0 || rapid.IntRange(0, 3).Draw(t, "leaf") == 0:
			child = clone(rapid.SampledFrom(Leaves).Draw(t, "leafkind"))
		default:
			child = clone(rapid.SampledFrom(exprT).Draw(t, "expr"))
			if cat == "lv" {
				child = clone(rapid.SampledFrom(lvalues()).Draw(t, "lvalue"))
			}
			class := ClassOf(h.Parent, h.Index, child)
			if cfg.Avoid != nil && cfg.Avoid(class) {
				if cfg.Steered != nil {
					cfg.Steered(class)
				}
				child = clone(rapid.SampledFrom(Leaves).Draw(t, "leafkind"))
			} else {
				cfg.fill(t, child, depth-1, exprT, stmtT)
			}
		}
		h.Parent.C[h.Index] = child
	}
}

// Expr generates expression trees of template depth <= cfg.MaxDepth.
func Expr(cfg Config) *rapid.Generator[*Spec] {
	exprT, stmtT := ExprTemplates(), StmtTemplates()
	return rapid.Custom(func(t *rapid.T) *Spec {
		root := clone(rapid.SampledFrom(exprT).Draw(t, "root"))
		cfg.fill(t, root, rapid.IntRange(1, cfg.MaxDepth).Draw(t, "depth")-1, exprT, stmtT)
		return root
	})
}

// Stmt generates statement trees.
func Stmt(cfg Config) *rapid.Generator[*Spec] {
	exprT, stmtT := ExprTemplates(), StmtTemplates()
	return rapid.Custom(func(t *rapid.T) *Spec {
		root := clone(rapid.SampledFrom(stmtT).Draw(t, "root"))
		cfg.fill(t, root, rapid.IntRange(1, cfg.MaxDepth).Draw(t, "depth")-1, exprT, stmtT)
		return root
	})
}

// ---- parsing back ----------------------------------------------------------------------------

// Parse parses src as an expression (stmt false) or as the single statement of a function body
// and returns the node.
func Parse(src string, stmt bool) (ast.Node, error) {
	if !stmt {
		return parser.ParseExpr(src)
	}
	fset := gotoken.NewFileSet()
	f, err := parser.ParseFile(fset, "a.xgo", "func _() {\n"+src+"\n}\n", 0)
	if err != nil {
		return nil, err
	}
	for _, d := range f.Decls {
		if fd, ok := d.(*ast.FuncDecl); ok && fd.Name.Name == "_" && fd.Body != nil {
			if len(fd.Body.List) != 1 {
				return nil, fmt.Errorf("%d statements parsed instead of one", len(fd.Body.List))
			}
			return fd.Body.List[0], nil
		}
	}
	return nil, fmt.Errorf("function _ not found in the parsed file")
}

// InImage reports whether s is in the image of strip-parens∘parse: some fully parenthesised
// rendering of s parses back to Build(s).
func InImage(s *Spec) bool {
	want := Dump(Build(s))
	for _, bare := range []bool{false, true} {
		if got, err := Parse(Render(s, bare), s.IsStmt()); err == nil && Dump(got) == want {
			return true
		}
	}
	return false
}

//go:build verif

// C20 — formatting is idempotent.
package c20

import (
	"bytes"
	"encoding/json"
	"fmt"
	"os"
	"runtime/debug"
	"sort"
	"strings"
	"sync"
	"testing"

	"github.com/goplus/xgo/format"
	"github.com/goplus/xgo/token"
	"pgregory.net/rapid"

	"verif/internal/gen/fmtin"
	"verif/internal/vk"
)

func TestMain(m *testing.M) {
	vk.Main(m, "C20", "exploration",
		"same inputs as C19 (corpus verbatim; base source + optional AST mutation + conventional comments + layout perturbation), except that a perturbation keeps every line break where it is (number of blank lines, indentation and intra-line spacing vary): which lines a construct is broken over is input to the printer's layout decisions, and re-breaking lines at arbitrary token boundaries gives an open-ended tail of alignment effects that no closed list of shapes covers. Oracle: format.Source(format.Source(x)) == format.Source(x) bytewise (x whose first pass fails is C19's business and counted as rejected). Listed findings are matched by shape as in C19. Non-trivial = the first pass changed the text; distinct = source bytes")
}

type Case struct {
	Src   vk.Bytes `json:"src"`
	Class bool     `json:"class"`
	How   []string `json:"how,omitempty"` // informational: origin, steps, catalogue classes
}

type info struct {
	rejected string
	shapes   []string
	changed  bool // the first pass changed the text
	xgo      []string
	edges    map[string]bool
	hash     uint64
}

// cls builds the verdict class: a source that shows the shape of a listed finding (fmtin.Shapes)
// fails as "shape/<shape>" whatever the kind of failure (the first shape that is still listed as
// a known finding of this property: a repaired shape stops covering for anything), any other
// source as "<kind>" or "<kind>:<signature>".
func (in info) cls(kind, sig string) string {
	for _, sh := range in.shapes {
		if vk.R.KnownClass("shape/"+sh) != nil && os.Getenv("FMT_NOKNOWN") == "" {
			return "shape/" + sh
		}
	}
	if sig != "" {
		return kind + ":" + sig
	}
	return kind
}

func check(c Case) (v *vk.Verdict, in info) {
	defer func() {
		if p := recover(); p != nil {
			v = vk.Bad(in.cls("panic", ""), "%v\n%s", p, debug.Stack())
		}
	}()
	f1, fset1, err := fmtin.Parse(c.Src, c.Class)
	if err != nil {
		in.rejected = "input-does-not-parse"
		return nil, in
	}
	xgo, edges := fmtin.Features(f1)
	in.xgo, in.edges = fmtin.Keys(xgo), edges
	in.shapes = fmtin.Shapes(f1, fset1, c.Src)
	out, err := format.Source(c.Src, c.Class)
	if err != nil {
		in.rejected = "first-pass-fails" // C19's clause
		return nil, in
	}
	in.changed = !bytes.Equal(out, c.Src)
	out2, err := format.Source(out, c.Class)
	if err != nil {
		return vk.Bad(in.cls("second-pass-error", ""), "the formatted text is rejected by the second pass: %v\n--- first pass:\n%s", err, fmtin.Short(string(out), 1500)), in
	}
	if !bytes.Equal(out, out2) {
		// every listed shape is a layout defect (alignment, line breaks, a comma before a line
		// break): it only covers for a second pass that prints the same tokens and comments
		if !sameTokens(out, out2) {
			return vk.Bad("not-idempotent:tokens-differ", "%s", diffLines(out, out2)), in
		}
		return vk.Bad(in.cls("not-idempotent", ""), "%s", diffLines(out, out2)), in
	}
	return nil, in
}

// sameTokens compares the token streams of two texts: automatic semicolons and a comma that
// directly precedes a closing bracket are layout, comment texts are compared without their
// leading/trailing white space.
func sameTokens(a, b []byte) bool {
	norm := func(src []byte) []string {
		var out []string
		toks := fmtin.Tokens(src)
		for i, t := range toks {
			if t.Auto {
				continue
			}
			if t.Tok == token.COMMA || t.Tok == token.SEMICOLON {
				j := i + 1
				for j < len(toks) && toks[j].Auto {
					j++
				}
				if j < len(toks) && (toks[j].Tok == token.RPAREN || toks[j].Tok == token.RBRACE || toks[j].Tok == token.RBRACK) {
					continue
				}
			}
			lit := t.Lit
			if t.Tok == token.COMMENT {
				lit = strings.Join(strings.Fields(lit), " ")
			}
			out = append(out, t.Tok.String()+"\x00"+lit)
		}
		return out
	}
	x, y := norm(a), norm(b)
	if len(x) != len(y) {
		return false
	}
	for i := range x {
		if x[i] != y[i] {
			return false
		}
	}
	return true
}

func diffLines(a, b []byte) string {
	la, lb := strings.Split(string(a), "\n"), strings.Split(string(b), "\n")
	i := 0
	for i < len(la) && i < len(lb) && la[i] == lb[i] {
		i++
	}
	j, k := len(la), len(lb)
	for j > i && k > i && la[j-1] == lb[k-1] {
		j--
		k--
	}
	lo := i - 2
	if lo < 0 {
		lo = 0
	}
	return fmt.Sprintf("line %d:\n--- pass 1:\n%s\n--- pass 2:\n%s", i+1, fmtin.Short(strings.Join(la[lo:j], "\n"), 700), fmtin.Short(strings.Join(lb[lo:k], "\n"), 700))
}

var oracle = vk.Register("fmt-twice", func(c Case) *vk.Verdict { v, _ := check(c); return v })

type failer interface {
	Fatalf(string, ...any)
	Helper()
}

var (
	survey   = os.Getenv("FMT_SURVEY") != ""
	surveyMu sync.Mutex
	surveyN  = map[string]int{}
)

func run(t failer, c Case, labels ...string) {
	v, in := check(c)
	if in.rejected != "" {
		vk.R.Rejected(in.rejected)
		vk.R.Case(false, "")
		return
	}
	vk.R.Case(in.changed, string(c.Src))
	// how much of the input space the listed shapes blind: every source that shows one is counted
	if len(in.shapes) > 0 {
		vk.R.Class("shows-listed-shape=yes")
		for _, sh := range in.shapes {
			if vk.R.KnownClass("shape/"+sh) != nil {
				vk.R.Class("covered-by-known-shape=" + sh)
			}
		}
	}
	if in.changed && len(c.Src) < 1500 {
		vk.R.Sample(string(c.Src))
	}
	for _, l := range labels {
		vk.R.Class(l)
	}
	for _, x := range in.xgo {
		vk.R.Class("xgo=" + x)
	}
	if survey {
		if v != nil {
			surveyMu.Lock()
			surveyN[v.Class]++
			n := surveyN[v.Class]
			surveyN[v.Class+"|"+strings.Join(c.How[:1], "")+"|"+fmt.Sprint(len(c.How) > 1 && strings.Contains(strings.Join(c.How, " "), " perturb"))]++
			surveyMu.Unlock()
			vk.R.Class("FAIL " + v.Class)
			if n == 1 {
				m := minimise(c, v.Class)
				if dir := os.Getenv("FMT_DUMP"); dir != "" {
					js, _ := json.MarshalIndent(map[string]any{"property": "C20", "test": "fmt-twice", "case": m, "note": v.Class}, "", " ")
					os.WriteFile(dir+"/"+strings.NewReplacer("/", "_", ":", "_").Replace(v.Class)+".json", js, 0o644)
				}
			}
			if n <= 3 {
				m := minimise(c, v.Class)
				mv, _ := check(m)
				fmt.Printf("SURVEY %s\n  how=%v\n  detail=%s\n  min=%q\n", v.Class, c.How, fmtin.Short(strings.ReplaceAll(mv.Detail, "\n", "\\n"), 400), fmtin.Short(string(m.Src), 1200))
			}
		}
		return
	}
	vk.R.Check(t, "fmt-twice", c, v)
}

// minimise removes lines (then single bytes) greedily while the verdict class stays the same.
func minimise(c Case, class string) Case {
	same := func(src []byte) bool {
		v, in := check(Case{Src: src, Class: c.Class})
		return in.rejected == "" && v != nil && v.Class == class
	}
	lines := strings.SplitAfter(string(c.Src), "\n")
	for chunk := len(lines) / 2; chunk >= 1; chunk /= 2 {
		for i := 0; i+chunk <= len(lines); {
			cand := append(append([]string{}, lines[:i]...), lines[i+chunk:]...)
			if same([]byte(strings.Join(cand, ""))) {
				lines = cand
			} else {
				i += chunk
			}
		}
	}
	src := []byte(strings.Join(lines, ""))
	// single bytes are only removed from comment-free text: a byte-level cut would move comments to
	// places that are outside the domain
	if len(src) < 400 && len(fmtin.CommentTexts(src)) == 0 {
		for i := 0; i < len(src); {
			cand := append(append([]byte{}, src[:i]...), src[i+1:]...)
			if same(cand) {
				src = cand
			} else {
				i++
			}
		}
	}
	return Case{Src: src, Class: c.Class}
}

func TestCorpus(t *testing.T) {
	if vk.R.Shard != 0 {
		return
	}
	for _, in := range fmtin.CorpusValid() {
		run(t, Case{Src: in.Src, Class: in.Class, How: []string{"corpus:" + in.Name}}, "src=corpus-verbatim")
	}
}

func TestVariants(t *testing.T) {
	vk.R.Rapid(t, 1, 3000, 80000, func(t *rapid.T) {
		// Layout perturbations keep every line break where it is (blank lines, indentation and spacing
		// vary): which lines a construct is broken over is input to the printer's layout decisions, and
		// breaking lines at arbitrary token boundaries gives an open-ended tail of alignment effects
		// (also in plain Go code) that no closed catalogue of shapes covers (DESIGN section 3).
		pol := fmtin.Policy{KeepLines: true}
		if os.Getenv("FMT_NOSHARP") != "" {
			pol.Conv = func(c fmtin.ConvClass) bool { return c.Style != "#" }
		}
		v := fmtin.DrawVariant(t, pol)
		how := append(append([]string{v.Origin + ":" + v.Name}, v.Steps...), v.Classes...)
		labels := []string{"origin=" + v.Origin}
		for _, s := range v.Steps[1:] {
			labels = append(labels, "step="+s)
		}
		run(t, Case{Src: v.Src, Class: v.Class, How: how}, labels...)
	})
	if survey {
		var ks []string
		for k, n := range surveyN {
			ks = append(ks, fmt.Sprintf("%6d %s", n, k))
		}
		sort.Strings(ks)
		fmt.Println("SURVEY SUMMARY\n" + strings.Join(ks, "\n"))
	}
}

package gosub

import "strings"

// miscIdioms are self-contained Go 1.18 idioms (range-over-int and min/max/clear are Go 1.21+: the
// repository's go.mod says go 1.18, so they are outside the subset XGo claims to accept; `for i :=
// range 4` is indeed rejected). @T@ is a fresh print tag, @1@/@2@ are drawn int expressions, @S@ a
// drawn string expression. Local names start with q so that they cannot capture a name a drawn
// expression refers to.
var miscIdioms = []struct{ name, text string }{
	{"append-copy-slice3", `{
	qa := []int{1, 2, 3, 4, 5}
	qb := qa[1:3:4]
	qb = append(qb, @1@)
	qb = append(qb, qa[:2]...)
	qc := make([]int, 3, 8)
	qn := copy(qc, qa[2:])
	var qnil []int
	qnil = append(qnil, qb...)
	fmt.Println("@T@", qa, qb, len(qb), cap(qa[1:3:4]), qc, qn, qnil, len(qa[4:]), qa[len(qa)-1:])
}`},
	{"bytes-runes-strings", `{
	qs := "héllo, 世" + @S@
	qbs := []byte(qs)
	qrs := []rune(qs)
	qbs[0] = 'H'
	qrs[1] = 'E'
	fmt.Println("@T@", len(qs), len(qbs), len(qrs), string(qbs[:2]), string(qrs[:3]), string(rune(k0+65+((@1@)%26+26)%26)), qs[1:3] == "\xc3\xa9", strings.ToUpper(string(qrs[2:5])))
	for qi, qr := range "aé" {
		fmt.Println("@T@", qi, qr, string(qr))
	}
}`},
	{"method-expression", `{
	qfs := Celsius.Fahr
	qsum := IntList.Sum
	fmt.Println("@T@", qfs(Celsius(@1@)), qsum(IntList{1, @2@}), (IntList).Sum([]int{4}))
}`},
	{"anonymous-struct", `{
	qp := struct {
		x, y int
		tag  string
	}{@1@, @2@, "t"}
	qq := qp
	qq.x++
	qpts := []struct{ a, b int }{{1, 2}, {b: 3}}
	qmp := map[struct{ k string }]int{{"a"}: 1}
	fmt.Println("@T@", qp, qq, qp == qq, qpts, qmp[struct{ k string }{"a"}], len(qpts))
}`},
	{"select", `{
	qc1 := make(chan int, 1)
	qc2 := make(chan string, 1)
	qc2 <- "s"
	for qi := 0; qi < 3; qi++ {
		select {
		case qv := <-qc1:
			fmt.Println("@T@", "c1", qv)
		case qv, qok := <-qc2:
			fmt.Println("@T@", "c2", qv, qok)
			qc1 <- @1@
		default:
			fmt.Println("@T@", "idle")
		}
	}
}`},
	{"assign-order", `{
	qa := []int{0, 0, 0}
	qi := 0
	qi, qa[qi] = 1, 7
	qa[qi], qi = 8, 2
	qx, qy := @1@, @2@
	qx, qy = qy, qx+qy
	qm := map[string]int{}
	qm["k"], qm["j"] = qx, qy
	fmt.Println("@T@", qa, qi, qx, qy, qm)
}`},
	{"map-ops", `{
	var qnm map[string]int
	qm := map[string][]int{"a": {1}}
	qm["a"] = append(qm["a"], @1@)
	qm["b"] = append(qm["b"], 2)
	delete(qm, "zz")
	delete(qm, "b")
	type qpt struct{ x int }
	qmp := map[int]qpt{1: {2}}
	qt := qmp[1]
	qt.x += @2@
	qmp[1] = qt
	qcnt := map[rune]int{}
	for _, qr := range "abca" {
		qcnt[qr]++
	}
	fmt.Println("@T@", qnm["x"], len(qnm), qm, len(qm), qmp, qcnt['a'], qcnt['z'])
}`},
	{"switch-init", `switch qx := @1@; {
case qx < 0:
	fmt.Println("@T@", "neg")
case qx == 0, qx == 1:
	fmt.Println("@T@", "small")
	fallthrough
default:
	fmt.Println("@T@", qx%7)
}`},
	{"shifts-bitops", `{
	qu := uint8(k0 + @1@)
	qn := uint(k0 + 3)
	fmt.Println("@T@", qu<<3>>1, qu&^0x0f, ^qu, qu|1<<qn, -7>>1, -7/2, -7%3, 7&-8, int64(1)<<(qn+40), 1<<qn == 8, qu>>qn)
}`},
	{"composite-literal-index-in-header", `{
	type qkey struct{ a, b int }
	qm := map[qkey]int{{1, 2}: 3, {@1@, 0}: 4}
	if qw, qok := qm[qkey{1, 2}]; qok {
		fmt.Println("@T@", "hit", qw)
	}
	for qi := qm[qkey{1, 2}]; qi < 5; qi++ {
		fmt.Println("@T@", "loop", qi)
	}
	switch qm[qkey{9, 9}] {
	case 0:
		fmt.Println("@T@", "zero")
	}
	if qs := [][]int{{1}, {2, 3}}; len(qs[[]int{1}[0]]) == 2 {
		fmt.Println("@T@", "nested", qs[1][[1]int{1}[0]])
	}
}`},
	{"array-of-arrays", `{
	var qgrid [2][3]int
	qgrid[1][2] = @1@
	qcp := qgrid
	qcp[0][0] = 9
	qrow := qgrid[1]
	qrow[0] = 5
	qpg := &qgrid
	qpg[0][1] = @2@
	fmt.Println("@T@", qgrid, qcp, qrow, len(qgrid), len(qgrid[0]), qgrid == qcp, [...]string{2: "c"})
}`},
}

func (g *gen) miscIdiom(sc *scope) string {
	k := g.intn(len(miscIdioms), "misc")
	if miscIdioms[k].name == "method-expression" && g.feat["named-basic-type"] == 0 {
		k = len(miscIdioms) - 1 // Celsius / IntList are not declared in this program
	}
	m := miscIdioms[k]
	g.f(m.name)
	r := strings.NewReplacer("@T@", g.tag(), "@1@", g.expr(sc, tInt, 1), "@2@", g.expr(sc, tInt, 1), "@S@", g.expr(sc, tString, 1))
	return r.Replace(m.text)
}

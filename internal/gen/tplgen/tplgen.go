// Package tplgen generates TPL grammars (github.com/goplus/xgo/tpl): random tpl/ast expression
// trees, a minimal-parenthesis printer, layout noise, literal spellings (every escape form),
// whole grammar sources and malformed mutants. All randomness is drawn through rapid.
//
// The package is shared by the TPL checks (C27, C30, C31 and later C28, C29). API in one place:
//
//	trees     Expr(cfg) / DrawExpr / DrawOp(t, cfg, depth)  random ast.Expr (positions are zero)
//	          Sexpr(e)                              canonical position-free text of a tree
//	          Levels(e), Size(e)                    shape measures for evidence
//	printing  Tokens(e, extra)                      token list with minimal parentheses
//	          Layout(t, toks, style)                join tokens with drawn blanks/comments/newlines
//	          NeedGap(a, b), Recognize(toks)        lexical adjacency rule; reference recogniser
//	          DropFactor(t, toks)                   remove one factor so that a factor is missing
//	literals  CharSpellings(b), StringSpellings(b)  every spelling of a one-byte literal
//	          ValidLit(), AnyLit()                  literal generators (compilable / anything)
//	grammars  Grammar, Rule, GrammarOf(cfg)         whole grammars; (Grammar).Tokens() flat list
//	          MutateTokens(t, toks), MutateBytes    malformed-rule mutators
//
// Soundness notes (what the printer relies on, all read from tpl/scanner and tpl/parser):
//   - the documented precedence is unary (* + ?) > ++ > % > sequence > | (tpl/README.md);
//     % and ++ associate to the left; parentheses leave no node in the tree, so a parenthesised
//     Sequence inside a Sequence (or Choice inside a Choice) stays a nested node;
//   - the scanner inserts a semicolon at a newline after IDENT, literals, ')', '}', '++' and '?',
//     so Layout only breaks lines after '=', '|', '%', '*', '+', '(' and '=>';
//   - "**", "++", "+=", "*=", "%=", "|=", "||", "==", "=>" are single tokens, so NeedGap keeps
//     the two halves apart.
package tplgen

import (
	"fmt"
	"strings"

	"github.com/goplus/xgo/tpl/ast"
	"github.com/goplus/xgo/tpl/token"
	"pgregory.net/rapid"
)

// ---- trees -----------------------------------------------------------------------------------

// ExprConfig steers DrawExpr.
type ExprConfig struct {
	Idents   []string                 // names used for Ident leaves (rule names, token classes)
	Lits     *rapid.Generator[string] // spelled literals ("x", 'x', `x`) for BasicLit leaves
	MaxDepth int                      // operator nesting depth (0 = leaf only)
}

// DefaultIdents is a pool of identifier spellings for parser-level checks.
var DefaultIdents = []string{"a", "b", "c", "x1", "expr", "INT", "STRING", "_t", "é", "IDENT", "term_2", "世"}

// SyntaxLits are literal spellings whose bodies look like TPL syntax (parser-level checks: the
// parser keeps the spelling verbatim, so none of them may influence the tree).
var SyntaxLits = []string{`"x"`, `'+'`, "`raw`", `"a\"b"`, `"||"`, `'\''`, `"\\"`, `"("`, `")"`, `"|"`, `"%"`, `"++"`,
	`"*"`, `";"`, `"=>"`, `"/*"`, `"//"`, `"#"`, "`a\nb`", "`\"`", `"if"`, `'('`, `'|'`, `"<<="`, `""`, "``", `'\x9d'`, `"\n"`, `"{"`, `"}"`, "`}`"}

// MkLit builds the BasicLit node the parser builds for a spelled literal.
func MkLit(spelling string) *ast.BasicLit {
	kind := token.STRING
	if strings.HasPrefix(spelling, "'") {
		kind = token.CHAR
	}
	return &ast.BasicLit{Kind: kind, Value: spelling}
}

var unaryOps = []token.Token{token.MUL, token.ADD, token.QUESTION}

// DrawExpr draws one expression tree of operator depth <= depth.
func DrawExpr(t *rapid.T, cfg ExprConfig, depth int) ast.Expr {
	return drawExpr(t, cfg, depth, 0)
}

// DrawOp is DrawExpr with an operator node at the root (when depth > 0).
func DrawOp(t *rapid.T, cfg ExprConfig, depth int) ast.Expr {
	return drawExpr(t, cfg, depth, 2)
}

func drawExpr(t *rapid.T, cfg ExprConfig, depth, minKind int) ast.Expr {
	kind := 0
	if depth > 0 {
		// 0,1 leaf; 2 sequence; 3 choice; 4 unary; 5 %; 6 ++  (small = simple, for shrinking)
		kind = rapid.IntRange(minKind, 6).Draw(t, "kind")
	}
	switch kind {
	case 2:
		n := rapid.IntRange(2, 4).Draw(t, "nseq")
		items := make([]ast.Expr, n)
		for i := range items {
			items[i] = DrawExpr(t, cfg, depth-1)
		}
		return &ast.Sequence{Items: items}
	case 3:
		n := rapid.IntRange(2, 4).Draw(t, "nalt")
		opts := make([]ast.Expr, n)
		for i := range opts {
			opts[i] = DrawExpr(t, cfg, depth-1)
		}
		return &ast.Choice{Options: opts}
	case 4:
		op := rapid.SampledFrom(unaryOps).Draw(t, "uop")
		return &ast.UnaryExpr{Op: op, X: DrawExpr(t, cfg, depth-1)}
	case 5:
		return &ast.BinaryExpr{X: DrawExpr(t, cfg, depth-1), Op: token.REM, Y: DrawExpr(t, cfg, depth-1)}
	case 6:
		return &ast.BinaryExpr{X: DrawExpr(t, cfg, depth-1), Op: token.INC, Y: DrawExpr(t, cfg, depth-1)}
	}
	if cfg.Lits != nil && rapid.Bool().Draw(t, "lit") {
		return MkLit(cfg.Lits.Draw(t, "spelling"))
	}
	return &ast.Ident{Name: rapid.SampledFrom(cfg.Idents).Draw(t, "name")}
}

// Expr is DrawExpr as a generator (depth drawn in 0..cfg.MaxDepth).
func Expr(cfg ExprConfig) *rapid.Generator[ast.Expr] {
	return rapid.Custom(func(t *rapid.T) ast.Expr {
		return DrawExpr(t, cfg, rapid.IntRange(0, cfg.MaxDepth).Draw(t, "depth"))
	})
}

// Sexpr renders a tree without positions: identifiers by name, literals as kind:spelling,
// (seq …), (alt …), (* x), (+ x), (? x), (% x y), (++ x y). nil children print as <nil>; an
// empty Sequence prints as (seq). Any other operator token prints by its String().
func Sexpr(e ast.Expr) string {
	var b strings.Builder
	sexpr(&b, e)
	return b.String()
}

func sexpr(b *strings.Builder, e ast.Expr) {
	switch e := e.(type) {
	case nil:
		b.WriteString("<nil>")
	case *ast.Ident:
		if e == nil {
			b.WriteString("<nil>")
			return
		}
		b.WriteString(e.Name)
	case *ast.BasicLit:
		if e.Kind == token.CHAR {
			b.WriteString("c:")
		} else if e.Kind == token.STRING {
			b.WriteString("s:")
		} else {
			fmt.Fprintf(b, "%v:", e.Kind)
		}
		b.WriteString(e.Value)
	case *ast.Sequence:
		b.WriteString("(seq")
		for _, x := range e.Items {
			b.WriteByte(' ')
			sexpr(b, x)
		}
		b.WriteByte(')')
	case *ast.Choice:
		b.WriteString("(alt")
		for _, x := range e.Options {
			b.WriteByte(' ')
			sexpr(b, x)
		}
		b.WriteByte(')')
	case *ast.UnaryExpr:
		b.WriteString("(" + e.Op.String() + " ")
		sexpr(b, e.X)
		b.WriteByte(')')
	case *ast.BinaryExpr:
		b.WriteString("(" + e.Op.String() + " ")
		sexpr(b, e.X)
		b.WriteByte(' ')
		sexpr(b, e.Y)
		b.WriteByte(')')
	default:
		fmt.Fprintf(b, "<%T>", e)
	}
}

// precedence levels of the documented order; a larger number binds tighter.
const (
	precChoice = 1
	precSeq    = 2
	precRem    = 3
	precInc    = 4
	precUnary  = 5
	precAtom   = 6
)

func prec(e ast.Expr) int {
	switch e := e.(type) {
	case *ast.Choice:
		return precChoice
	case *ast.Sequence:
		return precSeq
	case *ast.BinaryExpr:
		if e.Op == token.REM {
			return precRem
		}
		return precInc
	case *ast.UnaryExpr:
		return precUnary
	}
	return precAtom
}

// Walk visits e and every descendant in pre-order.
func Walk(e ast.Expr, visit func(ast.Expr)) {
	if e == nil {
		return
	}
	visit(e)
	switch e := e.(type) {
	case *ast.Sequence:
		for _, x := range e.Items {
			Walk(x, visit)
		}
	case *ast.Choice:
		for _, x := range e.Options {
			Walk(x, visit)
		}
	case *ast.UnaryExpr:
		Walk(e.X, visit)
	case *ast.BinaryExpr:
		Walk(e.X, visit)
		Walk(e.Y, visit)
	}
}

// Levels counts the distinct operator precedence levels (|, sequence, %, ++, unary) in e.
func Levels(e ast.Expr) int {
	seen := map[int]bool{}
	Walk(e, func(x ast.Expr) {
		if p := prec(x); p != precAtom {
			seen[p] = true
		}
	})
	return len(seen)
}

// Size counts the nodes of e.
func Size(e ast.Expr) (n int) {
	Walk(e, func(ast.Expr) { n++ })
	return
}

// ---- printing --------------------------------------------------------------------------------

// Tokens prints e as a token list with the minimal parentheses the documented precedence
// needs to read back as the same tree. extra (may be nil) is asked once per node whether to add
// a redundant pair of parentheses around it.
func Tokens(e ast.Expr, extra func() bool) []string {
	var out []string
	emit(&out, e, precChoice, extra)
	return out
}

// NeededParens counts the parentheses pairs Tokens(e, nil) emits.
func NeededParens(e ast.Expr) (n int) {
	for _, t := range Tokens(e, nil) {
		if t == "(" {
			n++
		}
	}
	return
}

func emit(out *[]string, e ast.Expr, min int, extra func() bool) {
	paren := prec(e) < min
	redundant := !paren && extra != nil && extra()
	if paren || redundant {
		*out = append(*out, "(")
		min = precChoice
	}
	switch e := e.(type) {
	case *ast.Ident:
		*out = append(*out, e.Name)
	case *ast.BasicLit:
		*out = append(*out, e.Value)
	case *ast.Choice:
		for i, x := range e.Options {
			if i > 0 {
				*out = append(*out, "|")
			}
			emit(out, x, precSeq, extra) // a Choice option that is a Choice needs parentheses
		}
	case *ast.Sequence:
		for _, x := range e.Items {
			emit(out, x, precRem, extra) // an item that is a Sequence or Choice needs parentheses
		}
	case *ast.BinaryExpr:
		if e.Op == token.REM { // left associative: (a % b) % c prints bare, a % (b % c) keeps them
			emit(out, e.X, precRem, extra)
			*out = append(*out, "%")
			emit(out, e.Y, precInc, extra)
		} else {
			emit(out, e.X, precInc, extra)
			*out = append(*out, "++")
			emit(out, e.Y, precUnary, extra)
		}
	case *ast.UnaryExpr:
		*out = append(*out, e.Op.String())
		emit(out, e.X, precUnary, extra)
	default:
		panic(fmt.Sprintf("tplgen: cannot print %T", e))
	}
	if paren || redundant {
		*out = append(*out, ")")
	}
}

func isWordByte(c byte) bool {
	return c == '_' || c >= '0' && c <= '9' || c >= 'a' && c <= 'z' || c >= 'A' && c <= 'Z' || c >= 0x80
}

// NeedGap reports whether tokens a and b must be separated by a blank or comment to be scanned
// as two tokens (identifier characters touching; two halves of a longer operator touching).
func NeedGap(a, b string) bool {
	if a == "" || b == "" {
		return false
	}
	x, y := a[len(a)-1], b[0]
	if isWordByte(x) && isWordByte(y) {
		return true
	}
	if a == "++" && y == '+' { // "+++" scans as "++" "+"
		return false
	}
	switch string([]byte{x, y}) {
	case "++", "+=", "**", "*=", "%=", "||", "|=", "==", "=>", "/*", "//":
		return true
	}
	return false
}

// Layout styles.
const (
	Canonical = 0 // one blank between tokens
	Tight     = 1 // no blank wherever the scanner does not need one
	Noisy     = 2 // drawn blanks, tabs, comments and (where no semicolon is inserted) newlines
)

var gapsInline = []string{"", " ", " ", "  ", "\t", " /*c*/ ", "/**/", " /* | % ( */"}
var gapsNewline = []string{"\n", "\n\t", " // c\n", " # c\n", "\r\n", "\n\n  ", "//\n"}

func isTerminator(tok string) bool {
	return tok != "" && strings.Trim(tok, " \t\r\n;") == ""
}

func newlineOK(prev string) bool {
	switch prev {
	case "=", "|", "%", "*", "+", "(", "=>":
		return true
	}
	return isTerminator(prev) // after ";" or an inserted semicolon more blank lines are skipped
}

// Layout joins tokens into source text. Tokens made only of blanks, newlines and ';' are rule
// terminators and are written verbatim. In Noisy style the gaps are drawn from t.
func Layout(t *rapid.T, toks []string, style int) string {
	var b strings.Builder
	prev := "\n"
	for i, tok := range toks {
		gap := ""
		switch {
		case isTerminator(tok):
		case style == Noisy:
			pool := gapsInline
			if newlineOK(prev) && rapid.IntRange(0, 3).Draw(t, "nl") == 0 {
				pool = gapsNewline
			}
			gap = rapid.SampledFrom(pool).Draw(t, "gap")
			if gap == "" && NeedGap(prev, tok) {
				gap = " "
			}
		case style == Tight:
			if NeedGap(prev, tok) {
				gap = " "
			}
		default:
			if i > 0 && !isTerminator(prev) {
				gap = " "
			}
		}
		b.WriteString(gap)
		b.WriteString(tok)
		prev = tok
	}
	return b.String()
}

// Recognize is the reference recogniser of the documented expression syntax over a token list:
//
//	expr = termlist % "|" ; termlist = +term ; term = term2 % "%" ; term2 = factor % "++"
//	factor = atom | ("*" | "+" | "?") factor | "(" expr ")"
//
// where an atom is any token that is not one of ( ) | % ++ * + ?.
func Recognize(toks []string) bool {
	p := &recog{toks: toks}
	return p.expr() && p.i == len(toks)
}

type recog struct {
	toks []string
	i    int
}

func (p *recog) peek() string {
	if p.i < len(p.toks) {
		return p.toks[p.i]
	}
	return ""
}

// IsAtom reports whether a printed token is an identifier or literal.
func IsAtom(tok string) bool {
	switch tok {
	case "", "(", ")", "|", "%", "++", "*", "+", "?", "=", "=>", ";":
		return false
	}
	return !isTerminator(tok)
}

func (p *recog) expr() bool {
	if !p.termlist() {
		return false
	}
	for p.peek() == "|" {
		p.i++
		if !p.termlist() {
			return false
		}
	}
	return true
}

func (p *recog) startsFactor() bool {
	switch t := p.peek(); t {
	case "*", "+", "?", "(":
		return true
	default:
		return IsAtom(t)
	}
}

func (p *recog) termlist() bool {
	if !p.term() {
		return false
	}
	for p.startsFactor() {
		if !p.term() {
			return false
		}
	}
	return true
}

func (p *recog) term() bool {
	if !p.term2() {
		return false
	}
	for p.peek() == "%" {
		p.i++
		if !p.term2() {
			return false
		}
	}
	return true
}

func (p *recog) term2() bool {
	if !p.factor() {
		return false
	}
	for p.peek() == "++" {
		p.i++
		if !p.factor() {
			return false
		}
	}
	return true
}

func (p *recog) factor() bool {
	switch t := p.peek(); t {
	case "*", "+", "?":
		p.i++
		return p.factor()
	case "(":
		p.i++
		if !p.expr() || p.peek() != ")" {
			return false
		}
		p.i++
		return true
	default:
		if IsAtom(t) {
			p.i++
			return true
		}
		return false
	}
}

// DropFactor removes one atom (a factor) from a well-formed expression token list such that
// the rest is no longer an expression, i.e. a factor is missing where the syntax demands one.
// ok is false when every single removal leaves a well-formed expression (e.g. "a b c").
func DropFactor(t *rapid.T, toks []string) (out []string, ok bool) {
	var cand []int
	for i, tok := range toks {
		if IsAtom(tok) {
			rest := append(append([]string{}, toks[:i]...), toks[i+1:]...)
			if !Recognize(rest) {
				cand = append(cand, i)
			}
		}
	}
	if len(cand) == 0 {
		return nil, false
	}
	i := rapid.SampledFrom(cand).Draw(t, "drop")
	return append(append([]string{}, toks[:i]...), toks[i+1:]...), true
}

// Package gosub generates well-typed, terminating, deterministic Go `package main` programs in
// the Go subset that XGo claims to accept (DESIGN.md §4.1). Programs are built constructively:
// every expression is generated at a requested type from a symbol table, so no rejection
// sampling is needed. All randomness is drawn through rapid.
//
// Excluded on purpose (the property excludes them): builtin println/print, `$` in string
// literals, names that differ only in the case of their first letter, generics, goroutines,
// time/rand, direct map ranging (only through sorted keys), pointer printing, unsafe/cgo.
package gosub

import (
	"fmt"
	"regexp"
	"sort"
	"strings"

	"pgregory.net/rapid"
)

// Program is a generated program in a form the reducer can work with: removing a Decl or a
// Main statement yields another candidate program (validity is re-checked with go/types).
type Program struct {
	Decls []string // top-level declarations (types, vars, funcs, methods), in order
	Main  []string // statements of func main, in order (each may span lines)
	Feat  map[string]int
	// AfterMain: declarations (var/const/type only) written after func main, so that main is the
	// last function but not the last declaration
	AfterMain []string
}

// Source renders the program. Imports are derived from the text.
func (p *Program) Source() string {
	var b strings.Builder
	body := strings.Join(p.Decls, "\n\n") + "\n\nfunc main() {\n" + indent(strings.Join(p.Main, "\n"), 1) + "\n}\n"
	if len(p.AfterMain) > 0 {
		body += "\n" + strings.Join(p.AfterMain, "\n\n") + "\n"
	}
	b.WriteString("package main\n\n")
	var imps []string
	for _, pkg := range []string{"errors", "fmt", "os", "path/filepath", "runtime", "sort", "strconv", "strings"} {
		if strings.Contains(body, pkg[strings.LastIndex(pkg, "/")+1:]+".") {
			imps = append(imps, pkg)
		}
	}
	if len(imps) > 0 {
		b.WriteString("import (\n")
		for _, i := range imps {
			fmt.Fprintf(&b, "\t%q\n", i)
		}
		b.WriteString(")\n\n")
	}
	b.WriteString(body)
	return b.String()
}

// SourceNoMain renders the declarations as one file of package main without a main function
// (the parts of a package that is spread over several files).
func (p *Program) SourceNoMain() string {
	var b strings.Builder
	body := strings.Join(p.Decls, "\n\n") + "\n"
	b.WriteString("package main\n\n")
	var imps []string
	for _, pkg := range []string{"errors", "fmt", "os", "path/filepath", "runtime", "sort", "strconv", "strings"} {
		if strings.Contains(body, pkg[strings.LastIndex(pkg, "/")+1:]+".") {
			imps = append(imps, pkg)
		}
	}
	if len(imps) > 0 {
		b.WriteString("import (\n")
		for _, i := range imps {
			fmt.Fprintf(&b, "\t%q\n", i)
		}
		b.WriteString(")\n\n")
	}
	b.WriteString(body)
	return b.String()
}

func indent(s string, n int) string {
	pre := strings.Repeat("\t", n)
	lines := strings.Split(s, "\n")
	for i, l := range lines {
		if l != "" {
			lines[i] = pre + l
		}
	}
	return strings.Join(lines, "\n")
}

// ---- types ---------------------------------------------------------------------------------

type kind int

const (
	kInt kind = iota
	kInt64
	kUint8
	kFloat
	kString
	kBool
	kSliceInt
	kSliceStr
	kMapSI
	kArr3
	kStruct // Name set
	kPtr    // pointer to struct Name
	kFunc   // func(int) int
	kIface  // interface Name
	kError
	kAny
)

type ty struct {
	k    kind
	name string // struct / interface name
}

func (t ty) String() string {
	switch t.k {
	case kInt:
		return "int"
	case kInt64:
		return "int64"
	case kUint8:
		return "uint8"
	case kFloat:
		return "float64"
	case kString:
		return "string"
	case kBool:
		return "bool"
	case kSliceInt:
		return "[]int"
	case kSliceStr:
		return "[]string"
	case kMapSI:
		return "map[string]int"
	case kArr3:
		return "[3]int"
	case kStruct:
		return t.name
	case kPtr:
		return "*" + t.name
	case kFunc:
		return "func(int) int"
	case kIface:
		return t.name
	case kError:
		return "error"
	case kAny:
		return "interface{}"
	}
	return "?"
}

var (
	tInt      = ty{k: kInt}
	tInt64    = ty{k: kInt64}
	tUint8    = ty{k: kUint8}
	tFloat    = ty{k: kFloat}
	tString   = ty{k: kString}
	tBool     = ty{k: kBool}
	tSliceInt = ty{k: kSliceInt}
	tSliceStr = ty{k: kSliceStr}
	tMapSI    = ty{k: kMapSI}
	tArr3     = ty{k: kArr3}
	tFunc     = ty{k: kFunc}
	tError    = ty{k: kError}
	tAny      = ty{k: kAny}
)

type field struct {
	name string
	t    ty
}

type structDef struct {
	name    string
	fields  []field // own fields
	embed   string  // embedded struct name or ""
	methods []*funcDef
}

type funcDef struct {
	name     string
	recv     string // struct name for methods
	ptrRecv  bool
	params   []field
	results  []ty
	named    bool // named results
	variad   bool // last param is ...int
	mayPanic bool
}

type variable struct {
	name string
	t    ty
	ro   bool // not assignable (range vars of strings, consts)
}

type scope struct {
	vars   []variable
	parent *scope
}

func (s *scope) all() []variable {
	var out []variable
	seen := map[string]bool{}
	for c := s; c != nil; c = c.parent {
		for i := len(c.vars) - 1; i >= 0; i-- {
			v := c.vars[i]
			if !seen[v.name] {
				seen[v.name] = true
				out = append(out, v)
			}
		}
	}
	return out
}

func (s *scope) ofType(t ty) []variable {
	var out []variable
	for _, v := range s.all() {
		if v.t == t {
			out = append(out, v)
		}
	}
	return out
}

// gen is the generator state.
type gen struct {
	t        *rapid.T
	structs  []*structDef
	iface    string   // interface name ("" if none)
	impls    []string // struct names implementing iface (via pointer receiver or value)
	implPtr  map[string]bool
	funcs    []*funcDef
	globals  []variable
	nvar     int
	nlabel   int
	feat     map[string]int
	depth    int
	inFunc   *funcDef
	loopLbl  []string
	budget   int // remaining statement budget
	opt      Options
	nmark    int
	pure     bool            // no traced evaluations (package-level initialisers)
	noShadow map[string]bool // package-level names declared after func main
}

var declNameRe = regexp.MustCompile(`(?m)^(?:var |const |type |\t)([A-Za-z_]\w*)\b`)

// Options of the generator.
type Options struct {
	Marks  bool // wrap int literals in mk(id, v) calls that record runtime.Caller (C09)
	Layout bool // insert blank lines and comments between statements and declarations
}

const markHelper = `func mk(id int, v int) int {
	pc, file, line, _ := runtime.Caller(1)
	entry := 0
	if f := runtime.FuncForPC(pc); f != nil {
		_, entry = f.FileLine(f.Entry())
	}
	fmt.Println("MK", id, filepath.Base(file), line, entry)
	return v
}`

func (g *gen) f(name string) { g.feat[name]++ }

func (g *gen) intn(n int, label string) int {
	if n <= 1 {
		return 0
	}
	return rapid.IntRange(0, n-1).Draw(g.t, label)
}

func (g *gen) chance(pct int, label string) bool {
	return rapid.IntRange(0, 99).Draw(g.t, label) < pct
}

func (g *gen) fresh(prefix string) string {
	g.nvar++
	return fmt.Sprintf("%s%d", prefix, g.nvar)
}

func (g *gen) structByName(n string) *structDef {
	for _, s := range g.structs {
		if s.name == n {
			return s
		}
	}
	return nil
}

// allFields returns own + promoted fields.
func (g *gen) allFields(s *structDef) []field {
	var out []field
	if s.embed != "" {
		out = append(out, g.allFields(g.structByName(s.embed))...)
	}
	return append(out, s.fields...)
}

// allMethods returns own + promoted methods callable on an addressable value of s.
func (g *gen) allMethods(s *structDef) []*funcDef {
	var out []*funcDef
	if s.embed != "" {
		out = append(out, g.allMethods(g.structByName(s.embed))...)
	}
	return append(out, s.methods...)
}

// ---- literals ------------------------------------------------------------------------------

var strAlphabet = []string{"a", "b", "xy", "Go", " ", "-", "é", "世", "0", "9", "_", ",", ":", "%", "q"}

func (g *gen) strLit() string {
	n := g.intn(4, "slen")
	var b strings.Builder
	for i := 0; i < n; i++ {
		b.WriteString(strAlphabet[g.intn(len(strAlphabet), "sch")])
	}
	s := b.String()
	switch g.intn(6, "sform") {
	case 0:
		if !strings.Contains(s, "`") {
			return "`" + s + "`"
		}
	case 1:
		return fmt.Sprintf("%q", s+"\n")
	case 2:
		return fmt.Sprintf("%q", s+"\t\"")
	}
	return fmt.Sprintf("%q", s)
}

func (g *gen) intLit() string {
	if g.opt.Marks && g.chance(45, "mark") {
		g.nmark++
		return fmt.Sprintf("mk(%d, %s)", g.nmark, g.intLit0())
	}
	return g.intLit0()
}

func (g *gen) intLit0() string {
	switch g.intn(8, "iform") {
	case 0:
		return "0"
	case 1:
		return "1"
	case 2:
		return fmt.Sprint(g.intn(10, "ival"))
	case 3:
		return fmt.Sprint(g.intn(50, "ival"))
	case 4:
		return fmt.Sprintf("0x%x", g.intn(64, "ival"))
	case 5:
		return fmt.Sprintf("(-%d)", 1+g.intn(50, "ival"))
	case 6:
		return []string{"1_0", "0b101", "0o17", "int('a')", "1 << 4", "7 / 2", "7 % 3", "-7 / 2", "c1"}[g.intn(8, "ispec")]
	}
	return fmt.Sprint(2 + g.intn(7, "ival"))
}

func (g *gen) floatLit() string {
	return []string{"0.5", "1.5", "2.0", "0.25", "3.75", "1e2", "0.1", "10", "-2.5", "1.0 / 4"}[g.intn(10, "fval")]
}

// ---- expressions ---------------------------------------------------------------------------

// expr generates an expression of type t.
func (g *gen) expr(sc *scope, t ty, d int) string {
	vars := sc.ofType(t)
	leaf := d <= 0 || g.chance(25, "leaf")
	if leaf {
		if len(vars) > 0 && g.chance(70, "usevar") {
			return vars[g.intn(len(vars), "var")].name
		}
		return g.literal(sc, t, d)
	}
	switch t.k {
	case kInt:
		return g.intExpr(sc, d)
	case kInt64:
		switch g.intn(4, "i64") {
		case 0:
			return "int64(" + g.expr(sc, tInt, d-1) + ")"
		case 1:
			return "(" + g.expr(sc, tInt64, d-1) + " " + []string{"+", "-", "*", "^", "&", "|"}[g.intn(6, "op")] + " " + g.expr(sc, tInt64, d-1) + ")"
		case 2:
			return "(int64(" + g.expr(sc, tInt64, d-1) + ") << (uint(k0+" + g.expr(sc, tInt, d-1) + ") & 7))"
		}
		return "(" + g.expr(sc, tInt64, d-1) + " >> 3)"
	case kUint8:
		switch g.intn(3, "u8") {
		case 0:
			return "uint8(k0 + " + g.expr(sc, tInt, d-1) + ")"
		case 1:
			return "(" + g.expr(sc, tUint8, d-1) + " " + []string{"+", "-", "*", "^", "&^"}[g.intn(5, "op")] + " " + g.expr(sc, tUint8, d-1) + ")"
		}
		return "(" + g.expr(sc, tUint8, d-1) + " << 3)"
	case kFloat:
		switch g.intn(4, "fl") {
		case 0:
			return "float64(" + g.expr(sc, tInt, d-1) + ")"
		case 1:
			return "(" + g.expr(sc, tFloat, d-1) + " " + []string{"+", "-", "*"}[g.intn(3, "op")] + " " + g.expr(sc, tFloat, d-1) + ")"
		case 2:
			return "(" + g.expr(sc, tFloat, d-1) + " / " + []string{"2", "4", "0.5", "8"}[g.intn(4, "div")] + ")"
		}
		return g.floatLit()
	case kString:
		return g.strExpr(sc, d)
	case kBool:
		return g.boolExpr(sc, d)
	case kSliceInt:
		switch g.intn(5, "sl") {
		case 0:
			return "append(" + g.expr(sc, tSliceInt, d-1) + ", " + g.expr(sc, tInt, d-1) + ")"
		case 1:
			return "cut(" + g.expr(sc, tSliceInt, d-1) + ", " + g.expr(sc, tInt, d-1) + ", " + g.expr(sc, tInt, d-1) + ")"
		case 2:
			return "append([]int(nil), " + g.expr(sc, tSliceInt, d-1) + "...)"
		case 3:
			if fs := g.funcsReturning(tSliceInt); len(fs) > 0 {
				return g.call(sc, fs[g.intn(len(fs), "fn")], d-1)
			}
		}
		return g.literal(sc, t, d-1)
	case kStruct, kPtr, kSliceStr, kMapSI, kArr3, kFunc, kIface, kError, kAny:
		if fs := g.funcsReturning(t); len(fs) > 0 && g.chance(40, "callret") {
			return g.call(sc, fs[g.intn(len(fs), "fn")], d-1)
		}
		return g.literal(sc, t, d-1)
	}
	return g.literal(sc, t, d)
}

func (g *gen) funcsReturning(t ty) []*funcDef {
	var out []*funcDef
	for _, f := range g.funcs {
		if len(f.results) == 1 && f.results[0] == t && f.recv == "" && f != g.inFunc && !f.mayPanic {
			out = append(out, f)
		}
	}
	return out
}

// call renders a call of f with generated arguments.
func (g *gen) call(sc *scope, f *funcDef, d int) string {
	var args []string
	for i, p := range f.params {
		if f.variad && i == len(f.params)-1 {
			switch g.intn(3, "variadic") {
			case 0: // no extra args
			case 1:
				args = append(args, g.expr(sc, tInt, d), g.expr(sc, tInt, d))
			case 2:
				args = append(args, g.expr(sc, tSliceInt, d)+"...")
			}
			continue
		}
		args = append(args, g.expr(sc, p.t, d))
	}
	g.f("call")
	return f.name + "(" + strings.Join(args, ", ") + ")"
}

func (g *gen) literal(sc *scope, t ty, d int) string {
	if d < 0 {
		d = 0
	}
	switch t.k {
	case kInt:
		return g.intLit()
	case kInt64:
		return "int64(" + g.intLit() + ")"
	case kUint8:
		return fmt.Sprintf("uint8(k0 + %d)", g.intn(256, "u8"))
	case kFloat:
		return g.floatLit()
	case kString:
		return g.strLit()
	case kBool:
		return []string{"true", "false"}[g.intn(2, "b")]
	case kSliceInt:
		n := g.intn(5, "n")
		if n == 0 && g.chance(50, "nil") {
			return "[]int(nil)"
		}
		var el []string
		for i := 0; i < n; i++ {
			el = append(el, g.expr(sc, tInt, d-1))
		}
		if g.chance(15, "keyed") && n > 0 {
			return fmt.Sprintf("[]int{%d: %s, %s}", n, g.expr(sc, tInt, 0), strings.Join(el, ", "))
		}
		return "[]int{" + strings.Join(el, ", ") + "}"
	case kSliceStr:
		n := g.intn(4, "n")
		var el []string
		for i := 0; i < n; i++ {
			el = append(el, g.expr(sc, tString, d-1))
		}
		return "[]string{" + strings.Join(el, ", ") + "}"
	case kMapSI:
		n := g.intn(4, "n")
		var el []string
		for i := 0; i < n; i++ {
			el = append(el, fmt.Sprintf("%q: %s", fmt.Sprintf("k%d", i), g.expr(sc, tInt, d-1)))
		}
		return "map[string]int{" + strings.Join(el, ", ") + "}"
	case kArr3:
		if g.chance(30, "arrsparse") {
			return "[3]int{1: " + g.expr(sc, tInt, d-1) + "}"
		}
		return "[...]int{" + g.expr(sc, tInt, d-1) + ", " + g.expr(sc, tInt, d-1) + ", " + g.expr(sc, tInt, d-1) + "}"
	case kStruct:
		return g.structLit(sc, g.structByName(t.name), d)
	case kPtr:
		if g.chance(20, "new") {
			return "new(" + t.name + ")"
		}
		return "&" + g.structLit(sc, g.structByName(t.name), d)
	case kFunc:
		g.f("closure")
		p := g.fresh("p")
		inner := &scope{parent: sc, vars: []variable{{name: p, t: tInt}}}
		return "func(" + p + " int) int { return " + g.expr(inner, tInt, d-1) + " }"
	case kIface:
		if len(g.impls) == 0 {
			return "nil"
		}
		s := g.impls[g.intn(len(g.impls), "impl")]
		if g.implPtr[s] {
			return g.literal(sc, ty{k: kPtr, name: s}, d)
		}
		return g.literal(sc, ty{k: kStruct, name: s}, d)
	case kError:
		switch g.intn(3, "err") {
		case 0:
			return "error(nil)"
		case 1:
			return "errors.New(" + g.strLit() + ")"
		}
		return "fmt.Errorf(\"e%d: %v\", " + g.expr(sc, tInt, d-1) + ", " + g.expr(sc, tString, d-1) + ")"
	case kAny:
		switch g.intn(9, "any") {
		case 5:
			return "interface{}(" + g.expr(sc, tMapSI, d-1) + ")"
		case 6:
			return "interface{}(" + g.expr(sc, tArr3, d-1) + ")"
		case 7:
			return "interface{}(" + g.expr(sc, tError, d-1) + ")"
		case 8:
			return "interface{}(" + g.expr(sc, tSliceStr, d-1) + ")"
		case 0:
			return "interface{}(" + g.expr(sc, tInt, d-1) + ")"
		case 1:
			return "interface{}(" + g.expr(sc, tString, d-1) + ")"
		case 2:
			return "interface{}(" + g.expr(sc, tBool, d-1) + ")"
		case 3:
			return "interface{}(" + g.expr(sc, tSliceInt, d-1) + ")"
		}
		return "interface{}(" + g.expr(sc, tFloat, d-1) + ")"
	}
	return "nil"
}

func (g *gen) structLit(sc *scope, s *structDef, d int) string {
	var parts []string
	keyed := s.embed != "" || g.chance(70, "keyed")
	if s.embed != "" && g.chance(70, "embedinit") {
		parts = append(parts, s.embed+": "+g.structLit(sc, g.structByName(s.embed), d-1))
	}
	if keyed {
		for _, f := range s.fields {
			if g.chance(75, "fieldset") {
				parts = append(parts, f.name+": "+g.expr(sc, f.t, d-1))
			}
		}
		// keys may be written in any order; values are evaluated in the order written
		if len(parts) > 1 && g.chance(50, "keyorder") {
			for i := len(parts) - 1; i > 0; i-- {
				j := g.intn(i+1, "perm")
				parts[i], parts[j] = parts[j], parts[i]
			}
			g.f("keyed-literal-out-of-order")
		}
	} else {
		for _, f := range s.fields {
			parts = append(parts, g.expr(sc, f.t, d-1))
		}
	}
	return s.name + "{" + strings.Join(parts, ", ") + "}"
}

func (g *gen) intExpr(sc *scope, d int) string {
	a := func() string { return g.expr(sc, tInt, d-1) }
	if !g.pure && g.chance(12, "traced") { // an observable evaluation: makes order and multiplicity visible
		g.nlabel++
		g.f("traced-eval")
		return fmt.Sprintf("tr(\"e%d\", %s)", g.nlabel, a())
	}
	switch g.intn(22, "int") {
	case 0, 1:
		return "(" + a() + " + " + a() + ")"
	case 2:
		return "(" + a() + " - " + a() + ")"
	case 3:
		return "(" + a() + " * " + a() + ")"
	case 4:
		return "(" + a() + " / (" + a() + " | 1))"
	case 5:
		return "(" + a() + " % (" + a() + " | 1))"
	case 6:
		return "(" + a() + " " + []string{"&", "|", "^", "&^"}[g.intn(4, "bop")] + " " + a() + ")"
	case 7:
		return "(int(" + a() + ") << (uint(k0+" + a() + ") & 7))"
	case 8:
		return "(int(" + a() + ") >> (uint(k0+" + a() + ") & 3))"
	case 9:
		return "-(" + a() + ")"
	case 10:
		return "^" + a()
	case 11:
		return "len(" + g.expr(sc, []ty{tSliceInt, tString, tMapSI, tSliceStr, tArr3}[g.intn(5, "lent")], d-1) + ")"
	case 12:
		return "at(" + g.expr(sc, tSliceInt, d-1) + ", " + a() + ")"
	case 13:
		return g.expr(sc, tMapSI, d-1) + "[" + g.expr(sc, tString, d-1) + "]"
	case 14:
		if fs := g.funcsReturning(tInt); len(fs) > 0 {
			return g.call(sc, fs[g.intn(len(fs), "fn")], d-1)
		}
	case 15:
		// field access
		for _, v := range sc.all() {
			if v.t.k == kStruct || v.t.k == kPtr {
				for _, f := range g.allFields(g.structByName(v.t.name)) {
					if f.t == tInt && g.chance(60, "fld") {
						g.f("field")
						return v.name + "." + f.name
					}
				}
			}
		}
	case 16:
		// method call on a struct variable
		for _, v := range sc.all() {
			if v.t.k == kStruct && !v.ro || v.t.k == kPtr {
				for _, m := range g.allMethods(g.structByName(v.t.name)) {
					if len(m.results) == 1 && m.results[0] == tInt && m != g.inFunc && g.chance(60, "mth") {
						g.f("methodcall")
						return v.name + "." + g.callArgs(sc, m, d-1)
					}
				}
			}
		}
	case 17:
		if fv := sc.ofType(tFunc); len(fv) > 0 {
			g.f("funcvalcall")
			return fv[g.intn(len(fv), "fv")].name + "(" + a() + ")"
		}
	case 18:
		return "int(" + g.expr(sc, []ty{tInt64, tUint8}[g.intn(2, "conv")], d-1) + ")"
	case 19:
		return g.expr(sc, tArr3, d-1) + "[" + fmt.Sprint(g.intn(3, "ai")) + "]"
	case 20:
		return "int(at2(" + g.expr(sc, tString, d-1) + ", " + a() + "))"
	case 21:
		if len(g.impls) > 0 {
			for _, v := range sc.all() {
				if v.t.k == kIface {
					g.f("ifacecall")
					return v.name + ".Area(" + a() + ")"
				}
			}
		}
	}
	return "(" + a() + " + " + g.intLit() + ")"
}

func (g *gen) callArgs(sc *scope, m *funcDef, d int) string {
	var args []string
	for _, p := range m.params {
		args = append(args, g.expr(sc, p.t, d))
	}
	return m.name + "(" + strings.Join(args, ", ") + ")"
}

func (g *gen) strExpr(sc *scope, d int) string {
	s := func() string { return g.expr(sc, tString, d-1) }
	switch g.intn(12, "str") {
	case 0, 1:
		return "(" + s() + " + " + s() + ")"
	case 2:
		return "strings.ToUpper(" + s() + ")"
	case 3:
		return "strings.Repeat(" + s() + ", " + g.expr(sc, tInt, d-1) + " & 3)"
	case 4:
		return "fmt.Sprint(" + g.expr(sc, g.printable(), d-1) + ", " + g.expr(sc, g.printable(), d-1) + ")"
	case 5:
		return "fmt.Sprintf(\"%d|%s|%v\", " + g.expr(sc, tInt, d-1) + ", " + s() + ", " + g.expr(sc, g.printable(), d-1) + ")"
	case 6:
		return "strconv.Itoa(" + g.expr(sc, tInt, d-1) + ")"
	case 7:
		return "sub(" + s() + ", " + g.expr(sc, tInt, d-1) + ", " + g.expr(sc, tInt, d-1) + ")"
	case 8:
		// k0 keeps the operand non-constant: string(rune(<constant>)) is folded wrongly by gogen (a
		// listed finding of C01/C25, decided by regress files), and would hide whatever else differs
		return "string(rune(k0 + 65 + (" + g.expr(sc, tInt, d-1) + " & 15)))"
	case 9:
		return "strings.Join(" + g.expr(sc, tSliceStr, d-1) + ", " + g.strLit() + ")"
	case 10:
		if fs := g.funcsReturning(tString); len(fs) > 0 {
			return g.call(sc, fs[g.intn(len(fs), "fn")], d-1)
		}
	case 11:
		return "strconv.Quote(" + s() + ")"
	}
	return g.strLit()
}

func (g *gen) boolExpr(sc *scope, d int) string {
	switch g.intn(9, "bool") {
	case 0, 1:
		return "(" + g.expr(sc, tInt, d-1) + " " + []string{"<", "<=", ">", ">=", "==", "!="}[g.intn(6, "cmp")] + " " + g.expr(sc, tInt, d-1) + ")"
	case 2:
		return "(" + g.expr(sc, tString, d-1) + " " + []string{"<", "==", "!=", ">="}[g.intn(4, "cmp")] + " " + g.expr(sc, tString, d-1) + ")"
	case 3:
		return "!" + g.expr(sc, tBool, d-1)
	case 4:
		return "(" + g.expr(sc, tBool, d-1) + " && " + g.expr(sc, tBool, d-1) + ")"
	case 5:
		return "(" + g.expr(sc, tBool, d-1) + " || " + g.expr(sc, tBool, d-1) + ")"
	case 6:
		return "strings.Contains(" + g.expr(sc, tString, d-1) + ", " + g.expr(sc, tString, d-1) + ")"
	case 7:
		return "(" + g.expr(sc, tArr3, d-1) + " == " + g.expr(sc, tArr3, d-1) + ")"
	case 8:
		return "(" + g.expr(sc, tFloat, d-1) + " < " + g.expr(sc, tFloat, d-1) + ")"
	}
	return "true"
}

// printable picks a type whose fmt output is deterministic.
func (g *gen) printable() ty {
	c := []ty{tInt, tInt, tString, tBool, tFloat, tSliceInt, tInt64, tUint8, tArr3, tMapSI, tSliceStr}
	if len(g.structs) > 0 && g.chance(25, "pstruct") {
		return ty{k: kStruct, name: g.structs[g.intn(len(g.structs), "ps")].name}
	}
	return c[g.intn(len(c), "pt")]
}

// ---- statements ----------------------------------------------------------------------------

func (g *gen) declTypes() []ty {
	out := []ty{tInt, tInt, tInt, tString, tString, tBool, tFloat, tInt64, tUint8, tSliceInt, tSliceInt, tSliceStr, tMapSI, tArr3, tFunc, tAny, tError}
	for _, s := range g.structs {
		out = append(out, ty{k: kStruct, name: s.name}, ty{k: kPtr, name: s.name})
	}
	if g.iface != "" && len(g.impls) > 0 {
		out = append(out, ty{k: kIface, name: g.iface})
	}
	return out
}

func (g *gen) printStmt(sc *scope, tag string) string {
	n := 1 + g.intn(3, "nprint")
	var args []string
	for i := 0; i < n; i++ {
		args = append(args, g.expr(sc, g.printable(), 2))
	}
	switch g.intn(6, "pform") {
	case 0:
		verbs := []string{"%v", "%d", "%s", "%q", "%t", "%x", "%5.2f", "%+v", "%T", "%08b", "%c", "%U", "%e", "%#v", "%6d|", "%-6s|"}
		// choose verb compatible with an int / string / general value
		return fmt.Sprintf("fmt.Printf(\"%s %s %s %s\\n\", %s, %s, %s)", tag,
			[]string{"%d", "%x", "%08b", "%6d|", "%c", "%U", "%v"}[g.intn(7, "vi")],
			[]string{"%s", "%q", "%v", "%-6s|", "%x"}[g.intn(5, "vs")],
			[]string{"%v", "%+v", "%T", "%#v"}[g.intn(4, "vg")]+verbs[0][:0],
			g.expr(sc, tInt, 2), g.expr(sc, tString, 2), g.expr(sc, g.printable(), 2))
	case 1:
		return fmt.Sprintf("fmt.Printf(\"%s %%5.2f %%e %%t\\n\", %s, %s, %s)", tag, g.expr(sc, tFloat, 2), g.expr(sc, tFloat, 1), g.expr(sc, tBool, 2))
	case 2:
		return fmt.Sprintf("fmt.Print(%q, %s, \"\\n\")", tag+" ", strings.Join(args, ", "))
	}
	return fmt.Sprintf("fmt.Println(%q, %s)", tag, strings.Join(args, ", "))
}

// block generates n statements in a new scope and returns the text.
func (g *gen) block(parent *scope, n int, d int) string {
	sc := &scope{parent: parent}
	var out []string
	for i := 0; i < n && g.budget > 0; i++ {
		if g.opt.Marks && g.chance(40, "markstmt") {
			g.nmark++
			out = append(out, fmt.Sprintf("_ = mk(%d, 0)", g.nmark))
		}
		out = append(out, g.stmt(sc, d))
	}
	if len(out) == 0 {
		out = append(out, g.printStmt(sc, g.tag()))
	}
	return strings.Join(out, "\n")
}

func (g *gen) tag() string {
	g.nlabel++
	return fmt.Sprintf("t%d", g.nlabel)
}

func (g *gen) assignable(sc *scope) []variable {
	var out []variable
	for _, v := range sc.all() {
		if !v.ro {
			out = append(out, v)
		}
	}
	return out
}

// stmt generates one statement (possibly compound). New variables are added to sc.
func (g *gen) stmt(sc *scope, d int) string {
	g.budget--
	max := 41
	if d <= 0 {
		max = 12 // only simple statements
	}
	switch c := g.intn(max, "stmt"); c {
	case 0, 1, 2: // declaration
		t := g.declTypes()[g.intn(len(g.declTypes()), "dt")]
		name := g.fresh("v")
		var s string
		switch g.intn(4, "dform") {
		case 0:
			s = fmt.Sprintf("var %s %s = %s", name, t, g.expr(sc, t, 3))
		case 1:
			if t.k == kPtr || t.k == kIface || t.k == kFunc {
				s = fmt.Sprintf("var %s %s = %s", name, t, g.expr(sc, t, 3))
			} else {
				s = fmt.Sprintf("var %s %s", name, t)
			}
		default:
			e := g.expr(sc, t, 3)
			if needsConv(t, e) {
				e = t.String() + "(" + e + ")"
			}
			s = fmt.Sprintf("%s := %s", name, e)
		}
		sc.vars = append(sc.vars, variable{name: name, t: t})
		g.f("decl")
		return s + "\n_ = " + name
	case 3, 4: // assignment
		vs := g.assignable(sc)
		if len(vs) == 0 {
			return g.printStmt(sc, g.tag())
		}
		v := vs[g.intn(len(vs), "av")]
		g.f("assign")
		switch v.t.k {
		case kInt, kInt64, kUint8:
			switch g.intn(4, "aform") {
			case 0:
				return v.name + "++"
			case 1:
				return v.name + "--"
			case 2:
				return v.name + " " + []string{"+=", "-=", "*=", "^=", "|=", "&=", "<<="}[g.intn(7, "aop")] + " " + g.smallOf(sc, v.t)
			}
		case kString:
			// assignments to strings are bounded in length: `s += s` (or s = s + t with t growing the
			// same way) inside three nested loops doubles the string 64 times
			if g.chance(50, "sapp") {
				return v.name + " += sub(" + g.expr(sc, tString, 2) + ", 0, 3)"
			}
			return v.name + " = sub(" + g.expr(sc, tString, 3) + ", 0, 24)"
		case kSliceInt:
			switch g.intn(3, "slform") {
			case 0:
				return v.name + " = append(" + v.name + ", " + g.expr(sc, tInt, 2) + ")"
			case 1:
				return "if len(" + v.name + ") > 0 {\n\t" + v.name + "[at(" + v.name + ", " + g.expr(sc, tInt, 1) + ")*0+len(" + v.name + ")-1] = " + g.expr(sc, tInt, 2) + "\n}"
			}
		case kMapSI:
			switch g.intn(3, "mform") {
			case 0:
				return "if " + v.name + " != nil {\n\t" + v.name + "[" + g.expr(sc, tString, 1) + "] = " + g.expr(sc, tInt, 2) + "\n}"
			case 1:
				return "delete(" + v.name + ", " + g.expr(sc, tString, 1) + ")"
			}
		case kArr3:
			return v.name + "[" + fmt.Sprint(g.intn(3, "ai")) + "] = " + g.expr(sc, tInt, 2)
		case kStruct, kPtr:
			fs := g.allFields(g.structByName(v.t.name))
			if len(fs) > 0 && g.chance(70, "fset") {
				f := fs[g.intn(len(fs), "fi")]
				g.f("fieldassign")
				if v.t.k == kPtr {
					return "if " + v.name + " != nil {\n\t" + v.name + "." + f.name + " = " + g.expr(sc, f.t, 2) + "\n}"
				}
				return v.name + "." + f.name + " = " + g.expr(sc, f.t, 2)
			}
		}
		return v.name + " = " + g.expr(sc, v.t, 3)
	case 5, 6, 7: // print
		return g.printStmt(sc, g.tag())
	case 8: // swap / multi-assign
		vs := g.assignable(sc)
		for i := 0; i < len(vs); i++ {
			for j := i + 1; j < len(vs); j++ {
				if vs[i].t == vs[j].t && vs[i].t.k <= kBool {
					g.f("swap")
					return fmt.Sprintf("%s, %s = %s, %s", vs[i].name, vs[j].name, vs[j].name, g.expr(sc, vs[i].t, 1))
				}
			}
		}
		return g.printStmt(sc, g.tag())
	case 9: // multi-value call
		for _, f := range g.funcs {
			if len(f.results) == 2 && f.recv == "" && f != g.inFunc && !f.mayPanic {
				a, b := g.fresh("v"), g.fresh("v")
				callText := g.call(sc, f, 2)
				sc.vars = append(sc.vars, variable{name: a, t: f.results[0]}, variable{name: b, t: f.results[1]})
				g.f("multiret")
				return fmt.Sprintf("%s, %s := %s\n_, _ = %s, %s", a, b, callText, a, b)
			}
		}
		return g.printStmt(sc, g.tag())
	case 10: // expression statement: call
		for _, f := range g.funcs {
			if f.recv == "" && f != g.inFunc && !f.mayPanic && g.chance(40, "callstmt") {
				return g.call(sc, f, 2)
			}
		}
		return g.printStmt(sc, g.tag())
	case 11: // comma-ok forms
		name, ok := g.fresh("v"), g.fresh("ok")
		switch g.intn(4, "commaok") {
		case 3:
			txt := fmt.Sprintf("%s, %s := map[string]map[string]int{\"a\": {\"b\": %s}, \"c\": nil}[%s][\"b\"]\n_, _ = %s, %s", name, ok, g.expr(sc, tInt, 1), g.expr(sc, tString, 1), name, ok)
			sc.vars = append(sc.vars, variable{name: name, t: tInt}, variable{name: ok, t: tBool})
			g.f("commaok-nested-map")
			return txt
		case 0:
			txt := fmt.Sprintf("%s, %s := %s[%s]\n_, _ = %s, %s", name, ok, g.expr(sc, tMapSI, 1), g.expr(sc, tString, 1), name, ok)
			sc.vars = append(sc.vars, variable{name: name, t: tInt}, variable{name: ok, t: tBool})
			g.f("commaok-map")
			return txt
		case 1:
			txt := fmt.Sprintf("%s, %s := %s.(int)\n_, _ = %s, %s", name, ok, g.expr(sc, tAny, 1), name, ok)
			sc.vars = append(sc.vars, variable{name: name, t: tInt}, variable{name: ok, t: tBool})
			g.f("commaok-assert")
			return txt
		}
		txt := fmt.Sprintf("%s, %s := %s.(string)\n_, _ = %s, %s", name, ok, g.expr(sc, tAny, 1), name, ok)
		sc.vars = append(sc.vars, variable{name: name, t: tString}, variable{name: ok, t: tBool})
		g.f("commaok-assert")
		return txt
	case 12, 13: // if
		g.f("if")
		s := "if "
		inner := &scope{parent: sc}
		if g.chance(30, "ifinit") {
			n := g.fresh("v")
			s += n + " := " + g.expr(sc, tInt, 2) + "; " + n + " " + []string{"<", ">", "!=", "=="}[g.intn(4, "ifc")] + " " + g.expr(sc, tInt, 1)
			inner.vars = append(inner.vars, variable{name: n, t: tInt})
			g.f("if-init")
		} else {
			if g.opt.Marks && g.chance(50, "markif") {
				g.nmark++
				s += fmt.Sprintf("mk(%d, 1) == 1 && ", g.nmark)
			}
			s += g.expr(sc, tBool, 3)
		}
		s += " {\n" + indent(g.block(inner, 1+g.intn(3, "ifn"), d-1), 1) + "\n}"
		if g.chance(50, "else") {
			if g.chance(40, "elseif") {
				s += " else if " + g.expr(inner, tBool, 2) + " {\n" + indent(g.block(inner, 1+g.intn(2, "ein"), d-1), 1) + "\n}"
			}
			s += " else {\n" + indent(g.block(inner, 1+g.intn(2, "eln"), d-1), 1) + "\n}"
		}
		return s
	case 14, 15: // 3-clause for loop, maybe labelled
		g.f("for3")
		i := g.fresh("i")
		label := ""
		if g.chance(35, "labelled") {
			label = g.fresh("L")
			g.f("labelled-loop")
		}
		inner := &scope{parent: sc, vars: []variable{{name: i, t: tInt, ro: true}}}
		if label != "" {
			g.loopLbl = append(g.loopLbl, label)
		}
		g.loopLbl = append(g.loopLbl, "")
		body := g.loopBody(inner, d-1)
		g.loopLbl = g.loopLbl[:len(g.loopLbl)-1]
		if label != "" {
			g.loopLbl = g.loopLbl[:len(g.loopLbl)-1]
		}
		hdr := fmt.Sprintf("for %s := 0; %s < %d; %s++", i, i, 1+g.intn(4, "iters"), i)
		if g.chance(20, "downloop") {
			hdr = fmt.Sprintf("for %s := %d; %s > 0; %s -= 2", i, 2+g.intn(5, "iters"), i, i)
		}
		if label != "" {
			body += "\nif " + i + " > 100 {\n\tbreak " + label + "\n}"
		}
		s := hdr + " {\n" + indent(body, 1) + "\n}"
		if label != "" {
			s = label + ":\n" + s
		}
		return s
	case 16, 17: // range loops
		g.f("range")
		g.loopLbl = append(g.loopLbl, "")
		defer func() { g.loopLbl = g.loopLbl[:len(g.loopLbl)-1] }()
		switch g.intn(6, "rform") {
		case 0:
			i, v := g.fresh("i"), g.fresh("e")
			inner := &scope{parent: sc, vars: []variable{{name: i, t: tInt, ro: true}, {name: v, t: tInt}}}
			return fmt.Sprintf("for %s, %s := range %s {\n%s\n}", i, v, g.expr(sc, tSliceInt, 2), indent("_, _ = "+i+", "+v+"\n"+g.loopBody(inner, d-1), 1))
		case 1:
			i, r := g.fresh("i"), g.fresh("r")
			inner := &scope{parent: sc, vars: []variable{{name: i, t: tInt, ro: true}}}
			g.f("range-string")
			return fmt.Sprintf("for %s, %s := range %s {\n%s\n}", i, r, g.expr(sc, tString, 2), indent("fmt.Println(\""+g.tag()+"\", "+i+", "+r+", string("+r+"))\n"+g.loopBody(inner, d-1), 1))
		case 2:
			k := g.fresh("k")
			m := g.fresh("m")
			inner := &scope{parent: sc, vars: []variable{{name: k, t: tString, ro: true}, {name: m, t: tMapSI}}}
			g.f("range-map-sorted")
			return fmt.Sprintf("{\n\t%s := %s\n\tfor _, %s := range keys(%s) {\n%s\n\t}\n}", m, g.expr(sc, tMapSI, 2), k, m, indent("fmt.Println(\""+g.tag()+"\", "+k+", "+m+"["+k+"])\n"+g.loopBody(inner, d-1), 2))
		case 3:
			i := g.fresh("i")
			inner := &scope{parent: sc, vars: []variable{{name: i, t: tInt, ro: true}}}
			return fmt.Sprintf("for %s := range %s {\n%s\n}", i, g.expr(sc, tSliceStr, 2), indent("_ = "+i+"\n"+g.loopBody(inner, d-1), 1))
		case 4:
			inner := &scope{parent: sc}
			return fmt.Sprintf("for range %s {\n%s\n}", g.expr(sc, tArr3, 1), indent(g.loopBody(inner, d-1), 1))
		case 5:
			i, v := g.fresh("i"), g.fresh("e")
			inner := &scope{parent: sc, vars: []variable{{name: i, t: tInt, ro: true}, {name: v, t: tInt}}}
			g.f("range-array")
			return fmt.Sprintf("for %s, %s := range %s {\n%s\n}", i, v, g.expr(sc, tArr3, 2), indent("_, _ = "+i+", "+v+"\n"+g.loopBody(inner, d-1), 1))
		}
	case 18: // cond loop with counter
		g.f("forcond")
		n := g.fresh("n")
		inner := &scope{parent: sc, vars: []variable{{name: n, t: tInt, ro: true}}}
		g.loopLbl = append(g.loopLbl, "")
		body := g.block(inner, 1+g.intn(2, "fcn"), d-1)
		g.loopLbl = g.loopLbl[:len(g.loopLbl)-1]
		return fmt.Sprintf("{\n\t%s := %d\n\tfor %s > 0 {\n\t\t%s--\n%s\n\t}\n}", n, 1+g.intn(4, "iters"), n, n, indent(body, 2))
	case 19, 20: // switch
		return g.switchStmt(sc, d)
	case 21: // type switch
		g.f("typeswitch")
		v := g.fresh("x")
		var b strings.Builder
		fmt.Fprintf(&b, "switch %s := %s.(type) {\n", v, g.expr(sc, tAny, 2))
		perm := []struct {
			tn string
			t  ty
		}{{"int", tInt}, {"string", tString}, {"bool", tBool}, {"[]int", tSliceInt}, {"float64", tFloat},
			{tMapSI.String(), tMapSI}, {tArr3.String(), tArr3}, {"error", tError}, {"[]string", tSliceStr}, {tFunc.String(), tFunc}}
		start := g.intn(len(perm), "tsstart")
		n := 1 + g.intn(5, "tsn")
		for i := 0; i < n; i++ {
			p := perm[(start+i)%len(perm)]
			inner := &scope{parent: sc, vars: []variable{{name: v, t: p.t, ro: true}}}
			shown := v
			if p.t == tFunc {
				shown = v + " != nil" // a func value prints as an address
			}
			fmt.Fprintf(&b, "case %s:\n%s\n", p.tn, indent("fmt.Println(\""+g.tag()+"\", "+shown+")\n"+g.block(inner, 1, d-1), 1))
		}
		if g.chance(30, "tsnil") {
			fmt.Fprintf(&b, "case nil:\n\tfmt.Println(%q)\n", g.tag()+" nil")
		}
		fmt.Fprintf(&b, "default:\n\tfmt.Printf(\"%s %%T\\n\", %s)\n}", g.tag(), v)
		return b.String()
	case 22: // closure capturing and mutating
		g.f("closure-mutating")
		acc, fn, p := g.fresh("acc"), g.fresh("fn"), g.fresh("p")
		accInit := g.expr(sc, tInt, 1)
		sc.vars = append(sc.vars, variable{name: acc, t: tInt})
		inner := &scope{parent: sc, vars: []variable{{name: p, t: tInt}}}
		s := fmt.Sprintf("%s := %s\n%s := func(%s int) int {\n\t%s += %s\n\treturn %s\n}\n", acc, accInit, fn, p, acc, g.expr(inner, tInt, 2), g.expr(inner, tInt, 2))
		sc.vars = append(sc.vars, variable{name: fn, t: tFunc})
		s += fmt.Sprintf("fmt.Println(%q, %s(%s), %s(%s), %s)", g.tag(), fn, g.expr(sc, tInt, 1), fn, g.expr(sc, tInt, 1), acc)
		return s
	case 23: // defer in an immediately-invoked func literal (LIFO observable)
		g.f("defer")
		var b strings.Builder
		b.WriteString("func() {\n")
		n := 1 + g.intn(3, "ndefer")
		for i := 0; i < n; i++ {
			if g.chance(30, "deferfn") {
				fmt.Fprintf(&b, "\tdefer func() { fmt.Println(%q, %s) }()\n", g.tag(), g.expr(sc, tInt, 1))
			} else {
				fmt.Fprintf(&b, "\tdefer fmt.Println(%q, %s)\n", g.tag(), g.expr(sc, g.printable(), 1))
			}
		}
		savedLbl := g.loopLbl // labels of enclosing loops are not visible inside a function literal
		g.loopLbl = nil
		b.WriteString(indent(g.block(sc, 1+g.intn(2, "dn"), d-1), 1))
		g.loopLbl = savedLbl
		b.WriteString("\n}()")
		return b.String()
	case 24: // recover from a deliberate panic
		g.f("recover")
		what := []string{
			"panic(" + g.strLit() + ")",
			"panic(" + g.expr(sc, tInt, 1) + ")",
			"panic(fmt.Errorf(\"boom %d\", " + g.expr(sc, tInt, 1) + "))",
			"var m map[string]int\n\tm[\"a\"] = 1",
			"var s []int\n\t_ = s[" + g.intLitSmall() + "]",
			"z := 0\n\tfmt.Println(1 / z)",
			"var p *" + g.anyStructName() + "\n\tfmt.Println(*p)",
			"var e interface{} = " + g.strLit() + "\n\tfmt.Println(e.(int))",
			"a := []int{1, 2, 3}\n\ti := 5\n\tfmt.Println(a[1:i])",
		}[g.intn(9, "pkind")]
		return fmt.Sprintf("func() {\n\tdefer func() {\n\t\tr := recover()\n\t\tfmt.Println(%q, r)\n\t\tif e, ok := r.(error); ok {\n\t\t\tfmt.Println(e.Error())\n\t\t}\n\t}()\n\t%s\n\tfmt.Println(\"unreachable\")\n}()", g.tag(), what)
	case 25: // method call statement / interface use
		for _, v := range sc.all() {
			if (v.t.k == kStruct && !v.ro) || v.t.k == kPtr {
				ms := g.allMethods(g.structByName(v.t.name))
				if len(ms) > 0 {
					m := ms[g.intn(len(ms), "mi")]
					if m == g.inFunc {
						continue
					}
					g.f("methodstmt")
					call := v.name + "." + g.callArgs(sc, m, 2)
					pre := ""
					if v.t.k == kPtr {
						pre = "if " + v.name + " != nil {\n\t"
					}
					var s string
					if len(m.results) == 0 {
						s = call
					} else {
						s = fmt.Sprintf("fmt.Println(%q, %s)", g.tag(), call)
					}
					if pre != "" {
						return pre + s + "\n}"
					}
					return s
				}
			}
		}
		return g.printStmt(sc, g.tag())
	case 26: // method value / func value
		for _, v := range sc.all() {
			if v.t.k == kStruct && !v.ro {
				for _, m := range g.allMethods(g.structByName(v.t.name)) {
					if len(m.params) == 1 && m.params[0].t == tInt && len(m.results) == 1 && m.results[0] == tInt && m != g.inFunc {
						fn := g.fresh("mv")
						sc.vars = append(sc.vars, variable{name: fn, t: tFunc})
						g.f("methodvalue")
						return fmt.Sprintf("%s := %s.%s\nfmt.Println(%q, %s(%s))", fn, v.name, m.name, g.tag(), fn, g.expr(sc, tInt, 1))
					}
				}
			}
		}
		return g.printStmt(sc, g.tag())
	case 27: // nested block with shadowing
		g.f("shadow")
		vs := sc.all()
		inner := &scope{parent: sc}
		s := "{\n"
		if len(vs) > 0 {
			v := vs[g.intn(len(vs), "shv")]
			if v.t.k <= kBool && !g.noShadow[v.name] {
				s += "\t" + v.name + " := " + g.expr(sc, v.t, 2) + "\n\t_ = " + v.name + "\n"
				if needsConv(v.t, "") {
					s = "{\n\tvar " + v.name + " " + v.t.String() + " = " + g.expr(sc, v.t, 2) + "\n\t_ = " + v.name + "\n"
				}
				inner.vars = append(inner.vars, variable{name: v.name, t: v.t})
			}
		}
		return s + indent(g.block(inner, 1+g.intn(3, "shn"), d-1), 1) + "\n}"
	case 28: // buffered channel round trip
		if g.chance(40, "chantypes") { // channel types in expression context, nested and directed
			g.f("chan-types-in-expr")
			cc := g.fresh("cc")
			return fmt.Sprintf("{\n\t%s := make(chan chan int, 1)\n\tro := make(<-chan chan int)\n\tso := make(chan<- <-chan int, 2)\n\tvar conv <-chan int = (<-chan int)(make(chan int))\n\tvar fn func(<-chan int) chan<- int\n\t_, _, _, _ = ro, so, conv, fn\n\tinner := make(chan int, 1)\n\tinner <- %s\n\t%s <- inner\n\tfmt.Println(%q, <-<-%s, len(%s), cap(so), ro == nil, conv != nil)\n}",
				cc, g.expr(sc, tInt, 1), cc, g.tag(), cc, cc)
		}
		g.f("chan")
		ch, v := g.fresh("ch"), g.fresh("e")
		inner := &scope{parent: sc, vars: []variable{{name: v, t: tInt}}}
		return fmt.Sprintf("{\n\t%s := make(chan int, 3)\n\t%s <- %s\n\t%s <- %s\n\tclose(%s)\n\tfor %s := range %s {\n%s\n\t}\n\tselect {\n\tcase x, ok := <-%s:\n\t\tfmt.Println(%q, x, ok)\n\tdefault:\n\t\tfmt.Println(\"empty\")\n\t}\n}",
			ch, ch, g.expr(sc, tInt, 1), ch, g.expr(sc, tInt, 1), ch, v, ch, indent("_ = "+v+"\n"+g.printStmt(inner, g.tag()), 2), ch, g.tag())
	case 30: // closures created in a loop, each capturing the loop variable
		g.f("closure-in-loop")
		fs, i, f := g.fresh("fs"), g.fresh("i"), g.fresh("f")
		inner := &scope{parent: sc, vars: []variable{{name: i, t: tInt, ro: true}}}
		return fmt.Sprintf("{\n\tvar %s []func() int\n\tfor %s := 0; %s < 3; %s++ {\n\t\t%s = append(%s, func() int { return %s })\n\t}\n\tfor _, %s := range %s {\n\t\tfmt.Println(%q, %s())\n\t}\n}",
			fs, i, i, i, fs, fs, g.expr(inner, tInt, 2), f, fs, g.tag(), f)
	case 31: // struct / array value semantics and equality
		g.f("value-semantics")
		st := g.structs[g.intn(len(g.structs), "vs")]
		a, b := g.fresh("v"), g.fresh("v")
		lit := g.structLit(sc, st, 2)
		s := fmt.Sprintf("%s := %s\n%s := %s\n", a, lit, b, a)
		fs := g.allFields(st)
		for _, fl := range fs {
			if fl.t == tInt {
				s += fmt.Sprintf("%s.%s++\n", b, fl.name)
				break
			}
		}
		if g.comparableStruct(st) {
			s += fmt.Sprintf("fmt.Println(%q, %s == %s, %s != %s)\n", g.tag(), a, b, a, a)
		}
		arr := g.fresh("v")
		s += fmt.Sprintf("%s := %s\n%sc := %s\n%sc[0]++\nfmt.Println(%q, %s, %sc, %s == %sc)\nfmt.Printf(\"%s %%+v %%+v\\n\", %s, %s)", arr, g.expr(sc, tArr3, 1), arr, arr, arr, g.tag(), arr, arr, arr, arr, g.tag(), a, b)
		return s
	case 32: // string switch, byte/rune conversions
		g.f("string-switch")
		sv := g.fresh("v")
		return fmt.Sprintf("{\n\t%s := %s\n\tswitch %s {\n\tcase \"\", \"a\":\n\t\tfmt.Println(%q, \"short\")\n\tcase \"zz\" + %s:\n\t\tfmt.Println(%q)\n\tdefault:\n\t\tfmt.Println(%q, []byte(%s), []rune(%s), string([]rune(%s)) == %s, len([]rune(%s)))\n\t}\n}",
			sv, g.expr(sc, tString, 2), sv, g.tag(), g.strLit(), g.tag(), g.tag(), sv, sv, sv, sv, sv)
	case 33: // defer changing a named result, recover returning a value
		g.f("defer-named-result")
		nr := g.fresh("nr")
		return fmt.Sprintf("fmt.Println(%q, func() (%s int) {\n\tdefer func() { %s *= 2 }()\n\tdefer func() {\n\t\tif e := recover(); e != nil {\n\t\t\t%s = -1\n\t\t}\n\t}()\n\tif %s {\n\t\tpanic(\"p\")\n\t}\n\treturn %s\n}())",
			g.tag(), nr, nr, nr, g.expr(sc, tBool, 2), g.expr(sc, tInt, 2))
	case 34: // nested slices and anonymous structs
		g.f("nested-composite")
		m, a := g.fresh("v"), g.fresh("v")
		return fmt.Sprintf("%s := [][]int{{%s}, {%s, %s}, nil}\n%s[2] = append(%s[2], %s[1]...)\n%s := struct {\n\tn int\n\ts []string\n}{%s, []string{%s}}\nfmt.Println(%q, %s, len(%s[0]), %s, %s.n+len(%s.s))",
			m, g.expr(sc, tInt, 1), g.expr(sc, tInt, 1), g.expr(sc, tInt, 1), m, m, m, a, g.expr(sc, tInt, 1), g.expr(sc, tString, 1), g.tag(), m, m, a, a, a)
	case 35: // fixed-width integer wrap-around and mixed conversions
		g.f("int-wraparound")
		x := g.fresh("v")
		return fmt.Sprintf("{\n\t%s := int8(k0 + %s)\n\t%s += 100\n\t%s *= 3\n\tfmt.Println(%q, %s, uint16(%s), uint32(k0+%s)*4000000000, int32(k0+%s)<<30, float32(%s)/3)\n}",
			x, g.expr(sc, tInt, 1), x, x, g.tag(), x, x, g.expr(sc, tInt, 1), g.expr(sc, tInt, 1), x)
	case 36: // complex numbers and constants of other kinds
		g.f("complex")
		return fmt.Sprintf("{\n\tzc := complex(float64(%s), 1.5)\n\tzc = zc*zc + 2i\n\tconst big = 1 << 40\n\tconst typed int64 = big >> 3\n\tfmt.Println(%q, zc, real(zc), imag(zc), big/1024, typed, 'x', \"s\"[0])\n}", g.expr(sc, tInt, 1), g.tag())
	case 37: // errors: wrapping, errors.Is / As, type switch on error and Stringer
		g.f("errors")
		return fmt.Sprintf("{\n\tbase := errors.New(%s)\n\twrapped := fmt.Errorf(\"ctx %%d: %%w\", %s, base)\n\tvar e interface{} = wrapped\n\tswitch x := e.(type) {\n\tcase fmt.Stringer:\n\t\tfmt.Println(%q, x.String())\n\tcase error:\n\t\tfmt.Println(%q, x, errors.Is(x, base), errors.Unwrap(x) == base)\n\t}\n}",
			g.strLit(), g.expr(sc, tInt, 1), g.tag(), g.tag())
	case 38, 39, 40: // assorted self-contained Go idioms (misc.go)
		return g.miscIdiom(sc)
	case 29: // goto forward (no declarations jumped over) / sort
		if g.chance(50, "sortorgoto") {
			g.f("sort")
			s := g.fresh("v")
			srcExpr := g.expr(sc, tSliceInt, 2)
			sc.vars = append(sc.vars, variable{name: s, t: tSliceInt})
			return fmt.Sprintf("%s := append([]int(nil), %s...)\nsort.Ints(%s)\nsort.Slice(%s, func(i, j int) bool { return %s[i]%%3 < %s[j]%%3 || (%s[i]%%3 == %s[j]%%3 && %s[i] < %s[j]) })\nfmt.Println(%q, %s)", s, srcExpr, s, s, s, s, s, s, s, s, g.tag(), s)
		}
		g.f("goto")
		l := g.fresh("G")
		return fmt.Sprintf("if %s {\n\tgoto %s\n}\nfmt.Println(%q)\n%s:\nfmt.Println(%q)", g.expr(sc, tBool, 2), l, g.tag(), l, g.tag())
	}
	return g.printStmt(sc, g.tag())
}

func (g *gen) anyStructName() string {
	if len(g.structs) == 0 {
		return "int"
	}
	return g.structs[g.intn(len(g.structs), "asn")].name
}

func (g *gen) intLitSmall() string { return fmt.Sprint(g.intn(4, "ils")) }

func (g *gen) smallOf(sc *scope, t ty) string {
	switch t.k {
	case kInt:
		return "(" + g.expr(sc, tInt, 1) + " & 7)"
	case kInt64:
		return "int64(" + fmt.Sprint(1+g.intn(5, "sm")) + ")"
	}
	return fmt.Sprint(1 + g.intn(5, "sm"))
}

func needsConv(t ty, e string) bool {
	// `x := 1` would make an int even if int64/uint8/float64 was requested: force the type.
	switch t.k {
	case kInt64, kUint8, kFloat, kError, kAny, kIface:
		return true
	}
	return false
}

func (g *gen) loopBody(inner *scope, d int) string {
	body := g.block(inner, 1+g.intn(3, "lbn"), d)
	if g.chance(35, "brk") {
		kw := []string{"break", "continue"}[g.intn(2, "bc")]
		target := ""
		// pick an enclosing label (non-empty) sometimes
		var labels []string
		for _, l := range g.loopLbl {
			if l != "" {
				labels = append(labels, l)
			}
		}
		if len(labels) > 0 && g.chance(60, "uselabel") {
			target = " " + labels[g.intn(len(labels), "lbl")]
			g.f("labelled-" + kw)
		}
		if g.chance(30, "oneline") {
			g.f("oneline-branch")
			body += "\nif " + g.expr(inner, tBool, 2) + " { " + kw + target + " }\n" + g.printStmt(inner, g.tag())
		} else {
			body += "\nif " + g.expr(inner, tBool, 2) + " {\n\t" + kw + target + "\n}\n" + g.printStmt(inner, g.tag())
		}
	}
	return body
}

func (g *gen) switchStmt(sc *scope, d int) string {
	var b strings.Builder
	if g.chance(60, "tagged") {
		g.f("switch")
		init := ""
		tagExpr := g.expr(sc, tInt, 2) + " % 4"
		inner := &scope{parent: sc}
		if g.chance(25, "swinit") {
			n := g.fresh("v")
			init = n + " := " + g.expr(sc, tInt, 1) + "; "
			tagExpr = n + " % 4"
			inner.vars = append(inner.vars, variable{name: n, t: tInt})
		}
		fmt.Fprintf(&b, "switch %s%s {\n", init, tagExpr)
		used := 0
		for c := 0; c < 4 && used < 3; c++ {
			if !g.chance(65, "case") {
				continue
			}
			used++
			vals := fmt.Sprint(c)
			if g.chance(25, "multi") {
				vals += fmt.Sprintf(", %d", -c-1)
			}
			// clause bodies: statements, nothing at all, a lone break, a lone fallthrough
			switch bk := g.intn(10, "bodykind"); {
			case bk == 0:
				g.f("switch-empty-clause")
				fmt.Fprintf(&b, "case %s:\n", vals)
				continue
			case bk == 1:
				g.f("switch-break-only-clause")
				fmt.Fprintf(&b, "case %s:\n\tbreak\n", vals)
				continue
			case bk == 2 && c < 3:
				g.f("switch-fallthrough-only-clause")
				fmt.Fprintf(&b, "case %s:\n\tfallthrough\n", vals)
				fmt.Fprintf(&b, "case %d:\n%s\n", 10+c, indent(g.printStmt(inner, g.tag()), 1))
				continue
			}
			fmt.Fprintf(&b, "case %s:\n%s\n", vals, indent(g.block(inner, 1+g.intn(2, "cn"), d-1), 1))
			if g.chance(25, "fallthrough") && c < 3 {
				b.WriteString("\tfallthrough\n")
				fmt.Fprintf(&b, "case %d:\n%s\n", 10+c, indent(g.printStmt(inner, g.tag()), 1))
				g.f("fallthrough")
			}
		}
		if g.chance(70, "default") {
			fmt.Fprintf(&b, "default:\n%s\n", indent(g.block(inner, 1, d-1), 1))
		}
		b.WriteString("}")
		return b.String()
	}
	g.f("switch-tagless")
	b.WriteString("switch {\n")
	n := 1 + g.intn(3, "ncase")
	for i := 0; i < n; i++ {
		switch bk := g.intn(10, "tbodykind"); {
		case bk == 0:
			g.f("switch-empty-clause")
			fmt.Fprintf(&b, "case %s:\n", g.expr(sc, tBool, 2))
			continue
		case bk == 1:
			g.f("switch-fallthrough-only-clause")
			fmt.Fprintf(&b, "case %s:\n\tfallthrough\n", g.expr(sc, tBool, 2))
			continue // the next clause (or default) follows
		}
		fmt.Fprintf(&b, "case %s:\n%s\n", g.expr(sc, tBool, 2), indent(g.block(sc, 1, d-1), 1))
		if g.chance(20, "brkcase") {
			b.WriteString("\tbreak\n")
		} else if g.chance(15, "tfallthrough") {
			b.WriteString("\tfallthrough\n")
		}
	}
	fmt.Fprintf(&b, "default:\n%s\n}", indent(g.printStmt(sc, g.tag()), 1))
	return b.String()
}

// ---- declarations --------------------------------------------------------------------------

const helpers = `var k0 = 0 // makes an expression non-constant without changing its value

func tr(tag string, v int) int {
	fmt.Println("tr", tag, v)
	return v
}

func at(s []int, i int) int {
	if len(s) == 0 {
		return 0
	}
	i %= len(s)
	if i < 0 {
		i += len(s)
	}
	return s[i]
}

func at2(s string, i int) byte {
	if len(s) == 0 {
		return 0
	}
	i %= len(s)
	if i < 0 {
		i += len(s)
	}
	return s[i]
}

func cut(s []int, i, j int) []int {
	n := len(s)
	if n == 0 {
		return s
	}
	i, j = ((i%n)+n)%n, ((j%n)+n)%n
	if i > j {
		i, j = j, i
	}
	return s[i:j:j]
}

func sub(s string, i, j int) string {
	n := len(s)
	if n == 0 {
		return s
	}
	i, j = ((i%n)+n)%n, ((j%n)+n)%n
	if i > j {
		i, j = j, i
	}
	return s[i:j]
}

func keys(m map[string]int) []string {
	var ks []string
	for k := range m {
		ks = append(ks, k)
	}
	sort.Strings(ks)
	return ks
}`

var fieldNames = []string{"fa", "fb", "fc", "fd", "fe", "ff", "fg", "fh", "fi", "fj", "fk", "fl"}
var methodNames = []string{"Area", "Mb", "mc", "Md", "me", "Mf", "mg", "Mh"}

func (g *gen) genStructs() []string {
	var decls []string
	n := 1 + g.intn(3, "nstruct")
	fidx := 0
	for i := 0; i < n; i++ {
		s := &structDef{name: fmt.Sprintf("T%d", i)}
		if i > 0 && g.chance(40, "embed") {
			s.embed = g.structs[g.intn(len(g.structs), "emb")].name
			// no diamond / no duplicate embedding depth issues: embed only one struct
			g.f("embedded-struct")
		}
		nf := 1 + g.intn(4, "nfield")
		ftypes := []ty{tInt, tInt, tString, tBool, tFloat, tSliceInt, tMapSI, tArr3, tInt64, tUint8}
		for j := 0; j < nf && fidx < len(fieldNames); j++ {
			ft := ftypes[g.intn(len(ftypes), "ft")]
			if i > 0 && g.chance(15, "structfield") {
				ft = ty{k: kStruct, name: g.structs[g.intn(len(g.structs), "sf")].name}
				if ft.name == s.embed {
					ft = tInt
				}
			}
			s.fields = append(s.fields, field{name: fieldNames[fidx], t: ft})
			fidx++
		}
		g.structs = append(g.structs, s)
		var b strings.Builder
		fmt.Fprintf(&b, "type %s struct {\n", s.name)
		// the embedded field stands before, between or after the named fields
		embedAt := -1
		if s.embed != "" {
			embedAt = g.intn(len(s.fields)+1, "embedpos")
			if embedAt > 0 {
				g.f("embedded-struct-not-first")
			}
		}
		for j, f := range s.fields {
			if j == embedAt {
				fmt.Fprintf(&b, "\t%s\n", s.embed)
			}
			fmt.Fprintf(&b, "\t%s %s\n", f.name, f.t)
		}
		if embedAt == len(s.fields) {
			fmt.Fprintf(&b, "\t%s\n", s.embed)
		}
		b.WriteString("}")
		decls = append(decls, b.String())
	}
	if g.chance(40, "hof") {
		// higher-order helpers: function literals of many signatures in argument position
		g.f("funclit-arguments")
		decls = append(decls, "func hofRun(f func()) {\n\tf()\n}\n\nfunc hofTry(f func(string) (int, error), s string) (int, error) {\n\treturn f(s)\n}\n\nfunc hofBin(f func(a, b int) int) int {\n\treturn f(2, 3)\n}\n\nfunc hofVar(f func(xs ...int) int) int {\n\treturn f(1, 2, 3)\n}\n\nfunc hofPair(f func(int) (int, string)) string {\n\tn, s := f(4)\n\treturn fmt.Sprint(n, s)\n}\n\nfunc hofTwo() (int, string) {\n\treturn 7, \"seven\"\n}")
	}
	if g.chance(40, "aliases") {
		// package-level alias declarations, single and grouped, over basic, composite and named types
		g.f("type-aliases")
		decls = append(decls, "type IntsAlias = []int\n\ntype (\n\tStrAlias   = string\n\tPairAlias  = struct{ a, b int }\n\tFuncAlias  = func(int) int\n\tAliasAlias = IntsAlias\n)")
	}
	if g.chance(35, "embedzoo") {
		// embedded fields of every spelling: T, *T, pkg.T, *pkg.T, a predeclared interface
		g.f("embedded-field-zoo")
		decls = append(decls, "type zooBase struct {\n\tid int\n}\n\nfunc (b *zooBase) ID() int { return b.id * 2 }\n\ntype zooMark struct {\n\tmark string\n}\n\ntype zoo struct {\n\t*zooBase\n\tzooMark\n\tstrings.Builder\n\t*sort.IntSlice\n\terror\n\tn int\n}")
	}
	return decls
}

func (g *gen) comparableStruct(s *structDef) bool {
	for _, f := range g.allFields(s) {
		switch f.t.k {
		case kSliceInt, kMapSI, kSliceStr, kFunc:
			return false
		case kStruct:
			if !g.comparableStruct(g.structByName(f.t.name)) {
				return false
			}
		}
	}
	return true
}

func (g *gen) genMethods() []string {
	var decls []string
	midx := 1
	// interface with Area(int) int implemented by some structs
	if g.chance(70, "iface") {
		g.iface = "Shape"
		decls = append(decls, "type Shape interface {\n\tArea(k int) int\n}")
		g.f("interface")
	}
	for _, s := range g.structs {
		hasArea := false
		for _, m := range g.allMethods(s) {
			if m.name == "Area" {
				hasArea = true
			}
		}
		if g.iface != "" && !hasArea && g.chance(70, "implements") {
			m := &funcDef{name: "Area", recv: s.name, ptrRecv: g.chance(50, "ptrrecv"), params: []field{{"k", tInt}}, results: []ty{tInt}}
			decls = append(decls, g.genFuncBody(m))
			s.methods = append(s.methods, m)
			hasArea = true
		}
		nm := g.intn(3, "nmeth")
		for j := 0; j < nm && midx < len(methodNames); j++ {
			m := &funcDef{name: methodNames[midx], recv: s.name, ptrRecv: g.chance(50, "ptrrecv")}
			midx++
			if g.chance(70, "mparam") {
				m.params = append(m.params, field{"a", tInt})
			}
			switch g.intn(4, "mres") {
			case 0:
			case 1:
				m.results = []ty{tString}
			default:
				m.results = []ty{tInt}
			}
			decls = append(decls, g.genFuncBody(m))
			s.methods = append(s.methods, m)
		}
	}
	// which structs implement the interface (method sets): value receiver → both T and *T; pointer → *T only
	g.implPtr = map[string]bool{}
	for _, s := range g.structs {
		for _, m := range g.allMethods(s) {
			if m.name == "Area" {
				g.impls = append(g.impls, s.name)
				ptr := false
				for c := s; c != nil; {
					for _, mm := range c.methods {
						if mm.name == "Area" && mm.ptrRecv {
							ptr = true
						}
					}
					if c.embed == "" {
						break
					}
					c = g.structByName(c.embed)
				}
				g.implPtr[s.name] = ptr
				break
			}
		}
	}
	return decls
}

// genFuncBody renders a function or method with a generated body.
func (g *gen) genFuncBody(f *funcDef) string {
	old, oldLbl := g.inFunc, g.loopLbl
	g.inFunc, g.loopLbl = f, nil
	defer func() { g.inFunc, g.loopLbl = old, oldLbl }()
	sc := &scope{}
	for _, gv := range g.globals {
		sc.vars = append(sc.vars, gv)
	}
	fsc := &scope{parent: sc}
	var b strings.Builder
	b.WriteString("func ")
	if f.recv != "" {
		rt := f.recv
		if f.ptrRecv {
			rt = "*" + rt
			fsc.vars = append(fsc.vars, variable{name: "r", t: ty{k: kPtr, name: f.recv}, ro: true})
		} else {
			fsc.vars = append(fsc.vars, variable{name: "r", t: ty{k: kStruct, name: f.recv}})
		}
		fmt.Fprintf(&b, "(r %s) ", rt)
	}
	b.WriteString(f.name + "(")
	for i, p := range f.params {
		if i > 0 {
			b.WriteString(", ")
		}
		if f.variad && i == len(f.params)-1 {
			fmt.Fprintf(&b, "%s ...int", p.name)
			fsc.vars = append(fsc.vars, variable{name: p.name, t: tSliceInt})
		} else {
			fmt.Fprintf(&b, "%s %s", p.name, p.t)
			fsc.vars = append(fsc.vars, variable{name: p.name, t: p.t})
		}
	}
	b.WriteString(")")
	var resNames []string
	if len(f.results) > 0 {
		if f.named {
			b.WriteString(" (")
			for i, r := range f.results {
				if i > 0 {
					b.WriteString(", ")
				}
				n := fmt.Sprintf("res%d", i)
				resNames = append(resNames, n)
				fmt.Fprintf(&b, "%s %s", n, r)
				fsc.vars = append(fsc.vars, variable{name: n, t: r})
			}
			b.WriteString(")")
		} else if len(f.results) == 1 {
			b.WriteString(" " + f.results[0].String())
		} else {
			b.WriteString(" (")
			for i, r := range f.results {
				if i > 0 {
					b.WriteString(", ")
				}
				b.WriteString(r.String())
			}
			b.WriteString(")")
		}
	}
	b.WriteString(" {\n")
	if f.recv != "" && f.ptrRecv {
		// guard against nil receivers (new(T) is fine, nil pointers are not generated)
	}
	saved := g.budget
	g.budget = 2 + g.intn(4, "fstmts")
	body := g.block(fsc, g.budget, 2)
	g.budget = saved
	b.WriteString(indent(body, 1))
	b.WriteString("\n")
	if len(f.results) > 0 {
		// the block's own variables are out of scope here; return expressions use params/globals
		var rets []string
		for _, r := range f.results {
			rets = append(rets, g.expr(fsc, r, 2))
		}
		if f.named && g.chance(50, "bareret") {
			for i, n := range resNames {
				fmt.Fprintf(&b, "\t%s = %s\n", n, rets[i])
			}
			b.WriteString("\treturn\n")
			g.f("named-results")
		} else {
			b.WriteString("\treturn " + strings.Join(rets, ", ") + "\n")
		}
	}
	b.WriteString("}")
	return b.String()
}

func (g *gen) genFuncs() []string {
	var decls []string
	n := 2 + g.intn(4, "nfunc")
	rtypes := []ty{tInt, tInt, tString, tBool, tSliceInt, tFloat, tMapSI, tError}
	for i := 0; i < n; i++ {
		f := &funcDef{name: fmt.Sprintf("fn%d", i)}
		np := g.intn(4, "nparam")
		ptypes := []ty{tInt, tInt, tString, tBool, tSliceInt, tFloat, tFunc}
		for _, s := range g.structs {
			ptypes = append(ptypes, ty{k: kStruct, name: s.name}, ty{k: kPtr, name: s.name})
		}
		for j := 0; j < np; j++ {
			f.params = append(f.params, field{fmt.Sprintf("a%d", j), ptypes[g.intn(len(ptypes), "pt")]})
		}
		if g.chance(20, "variadic") {
			f.params = append(f.params, field{"rest", tSliceInt})
			f.variad = true
			g.f("variadic")
		}
		nr := g.intn(3, "nres")
		for j := 0; j < nr; j++ {
			rt := rtypes[g.intn(len(rtypes), "rt")]
			if len(g.structs) > 0 && g.chance(15, "structres") {
				rt = ty{k: kStruct, name: g.structs[g.intn(len(g.structs), "rs")].name}
			}
			f.results = append(f.results, rt)
		}
		f.named = nr > 0 && g.chance(30, "named")
		decls = append(decls, g.genFuncBody(f))
		g.funcs = append(g.funcs, f)
	}
	// a recursive function with decreasing fuel
	if g.chance(70, "recursive") {
		g.f("recursion")
		f := &funcDef{name: "rec", params: []field{{"n", tInt}, {"acc", tInt}}, results: []ty{tInt}}
		sc := &scope{vars: []variable{{name: "n", t: tInt, ro: true}, {name: "acc", t: tInt}}}
		for _, gv := range g.globals {
			if gv.t == tInt {
				sc.vars = append(sc.vars, variable{name: gv.name, t: gv.t, ro: true})
			}
		}
		old := g.inFunc
		g.inFunc = f
		decls = append(decls, fmt.Sprintf("func rec(n int, acc int) int {\n\tif n <= 0 {\n\t\treturn acc\n\t}\n\tdefer func() { acc++ }()\n\treturn rec(n-1, %s%%1000) + %s%%7\n}", g.expr(sc, tInt, 2), g.expr(sc, tInt, 1)))
		g.inFunc = old
		g.funcs = append(g.funcs, f)
	}
	return decls
}

func (g *gen) genGlobals() []string {
	// package-level initialisers are not statements: no marks there (C09 is about statements)
	marks := g.opt.Marks
	g.opt.Marks = false
	g.pure = true
	defer func() { g.opt.Marks = marks; g.pure = false }()
	var decls []string
	n := 1 + g.intn(4, "nglobal")
	sc := &scope{}
	gtypes := []ty{tInt, tInt, tString, tSliceInt, tMapSI, tBool, tFloat, tArr3}
	grouped := g.chance(40, "grouped")
	var lines []string
	for i := 0; i < n; i++ {
		t := gtypes[g.intn(len(gtypes), "gt")]
		name := fmt.Sprintf("g%d", i)
		e := g.expr(sc, t, 2)
		lines = append(lines, fmt.Sprintf("%s %s = %s", name, t, e))
		g.globals = append(g.globals, variable{name: name, t: t})
		sc.vars = append(sc.vars, variable{name: name, t: t})
	}
	if grouped {
		decls = append(decls, "var (\n"+indent(strings.Join(lines, "\n"), 1)+"\n)")
	} else {
		for _, l := range lines {
			decls = append(decls, "var "+l)
		}
	}
	if g.chance(50, "const") {
		g.f("const-iota")
		decls = append(decls, "const (\n\tc0 = iota * 3\n\tc1\n\tc2\n\tc3 = \"k\" + \"z\"\n\tc4 = c1<<2 | 1\n)")
		g.globals = append(g.globals, variable{name: "c0", t: tInt, ro: true}, variable{name: "c1", t: tInt, ro: true},
			variable{name: "c2", t: tInt, ro: true}, variable{name: "c3", t: tString, ro: true}, variable{name: "c4", t: tInt, ro: true})
	}
	if g.chance(40, "namedtype") {
		g.f("named-basic-type")
		decls = append(decls, "type Celsius float64\n\nfunc (c Celsius) Fahr() float64 { return float64(c)*9/5 + 32 }\n\ntype IntList []int\n\nfunc (l IntList) Sum() (s int) {\n\tfor _, v := range l {\n\t\ts += v\n\t}\n\treturn\n}")
	}
	return decls
}

// Gen is the rapid generator of programs.
func Gen() *rapid.Generator[*Program] { return GenOpt(Options{}) }

// GenOpt is Gen with options.
func GenOpt(opt Options) *rapid.Generator[*Program] {
	return rapid.Custom(func(t *rapid.T) *Program {
		g := &gen{t: t, feat: map[string]int{}, opt: opt, noShadow: map[string]bool{}}
		p := &Program{Feat: g.feat}
		p.Decls = append(p.Decls, helpers)
		if opt.Marks {
			p.Decls = append(p.Decls, markHelper)
		}
		if opt.Layout {
			defer func() {
				// blank lines and comments between top-level units and between main statements
				for i := range p.Decls {
					if g.chance(30, "layout") {
						p.Decls[i] = []string{"// c\n", "\n", "/* block\n   comment */\n", "// doc line 1\n// doc line 2\n"}[g.intn(4, "lk")] + p.Decls[i]
					}
				}
				for i := range p.Main {
					if g.chance(30, "layout") {
						p.Main[i] = []string{"// c\n", "\n", "\n\n// c\n", "/* b */\n"}[g.intn(4, "lk")] + p.Main[i]
					}
				}
			}()
		}
		p.Decls = append(p.Decls, g.genStructs()...)
		globals := g.genGlobals()
		if g.chance(30, "decl-after-main") {
			// one var/const/type declaration is written after func main
			var cand []int
			for i, d := range globals {
				if strings.HasPrefix(d, "var ") || strings.HasPrefix(d, "const ") || (strings.HasPrefix(d, "type ") && !strings.Contains(d, "\nfunc ")) {
					cand = append(cand, i)
				}
			}
			if len(cand) > 0 {
				i := cand[g.intn(len(cand), "which")]
				p.AfterMain = append(p.AfterMain, globals[i])
				// the names it declares are not shadowed by locals: package-level declarations that are
				// loaded lazily from inside a function see that function's locals (a listed finding of
				// C01, decided by its regress file)
				for _, m := range declNameRe.FindAllStringSubmatch(globals[i], -1) {
					g.noShadow[m[1]] = true
				}
				globals = append(globals[:i:i], globals[i+1:]...)
				g.f("decl-after-main")
			}
		}
		p.Decls = append(p.Decls, globals...)
		p.Decls = append(p.Decls, g.genMethods()...)
		p.Decls = append(p.Decls, g.genFuncs()...)
		if g.chance(40, "init") {
			g.f("init-func")
			sc := &scope{}
			sc.vars = append(sc.vars, g.globals...)
			g.budget = 2
			p.Decls = append(p.Decls, "func init() {\n"+indent(g.block(sc, 2, 1), 1)+"\n}")
		}
		// main
		sc := &scope{}
		sc.vars = append(sc.vars, g.globals...)
		msc := &scope{parent: sc}
		g.budget = 12 + g.intn(20, "mainbudget")
		for g.budget > 0 {
			p.Main = append(p.Main, g.stmt(msc, 3))
		}
		if strings.Contains(strings.Join(p.Decls, "\n"), "type IntsAlias = ") {
			p.Main = append(p.Main, fmt.Sprintf("{\n\tvar al IntsAlias = []int{%s}\n\tvar sa StrAlias = \"s\"\n\tvar fa FuncAlias = func(x int) int { return x + 1 }\n\tvar aa AliasAlias = append(al, 2)\n\tfmt.Println(\"alias\", al, sa+\"!\", PairAlias{1, 2}, fa(len(aa)), aa)\n}", g.expr(msc, tInt, 1)))
		}
		if strings.Contains(strings.Join(p.Decls, "\n"), "func hofRun(") {
			calls := []string{
				"hofRun(func() { return })",
				"hofRun(func() {\n\tfmt.Println(\"hof run\")\n\treturn\n})",
				"hofRun(func() { fmt.Println(\"hof one-line\") })",
				"fmt.Println(hofTry(func(s string) (int, error) { return strconv.Atoi(s) }, \"12\"))",
				"fmt.Println(hofTry(func(s string) (int, error) {\n\tn, err := strconv.Atoi(s)\n\treturn n + 1, err\n}, \"x1\"))",
				"fmt.Println(hofTry(func(s string) (n int, err error) {\n\tn = len(s)\n\treturn\n}, \"abc\"))",
				"fmt.Println(hofBin(func(a, b int) int { return (a + b) * 2 }))",
				"fmt.Println(hofBin(func(a, b int) int { return a*b + " + g.expr(msc, tInt, 1) + " }))",
				"fmt.Println(hofBin(func(a, _ int) int { return -a }))",
				"fmt.Println(hofVar(func(xs ...int) int { return len(xs) + xs[0] }))",
				"fmt.Println(hofPair(func(n int) (int, string) { return hofTwo() }))",
				"fmt.Println(hofPair(func(n int) (int, string) { return n * 2, \"d\" }))",
				"fmt.Println(hofBin(func(a, b int) int {\n\tif a > b {\n\t\treturn a\n\t}\n\treturn b\n}))",
			}
			for n := 2 + g.intn(4, "hofn"); n > 0; n-- {
				p.Main = append(p.Main, calls[g.intn(len(calls), "hofcall")])
			}
		}
		if strings.Contains(strings.Join(p.Decls, "\n"), "type zoo struct") {
			p.Main = append(p.Main, fmt.Sprintf("{\n\tz := zoo{zooBase: &zooBase{id: %s}, zooMark: zooMark{\"m\"}, IntSlice: &sort.IntSlice{3, 1, 2}, n: 1}\n\tz.WriteString(\"zoo\")\n\tsort.Sort(z.IntSlice)\n\tfmt.Println(\"zoo\", z.id, z.ID(), z.mark, z.Builder.Len(), *z.IntSlice, z.error == nil, z.n)\n}", g.expr(msc, tInt, 1)))
		}
		if strings.Contains(strings.Join(p.Decls, "\n"), "Celsius") {
			p.Main = append(p.Main, fmt.Sprintf("fmt.Println(\"named\", Celsius(%s).Fahr(), IntList(%s).Sum(), len(IntList{1, 2}))", g.floatLit(), g.expr(msc, tSliceInt, 2)))
		}
		// final state dump
		var names []string
		for _, v := range msc.all() {
			switch v.t.k {
			case kFunc, kPtr, kIface, kError, kAny:
				continue
			}
			names = append(names, v.name)
		}
		sort.Strings(names)
		if len(names) > 12 {
			names = names[:12]
		}
		if len(names) > 0 {
			p.Main = append(p.Main, "fmt.Println(\"final\", "+strings.Join(names, ", ")+")")
		}
		// ending: normal, os.Exit, or an uncaught panic
		switch g.intn(10, "ending") {
		case 0:
			g.f("os-exit")
			p.Main = append(p.Main, fmt.Sprintf("os.Exit(%d)", g.intn(4, "code")))
		case 1:
			g.f("uncaught-panic")
			p.Main = append(p.Main, []string{"panic(\"fatal: \" + " + g.expr(msc, tString, 1) + ")", "panic(fmt.Errorf(\"bad %d\", " + g.expr(msc, tInt, 1) + "))", "var np []int\nfmt.Println(np[3])", "panic(" + g.expr(msc, tInt, 1) + ")"}[g.intn(4, "up")])
		}
		return p
	})
}

//go:build verif

// C13 — the parser never panics or hangs, reports sorted errors, and nil error ⇒ no Bad nodes.
package c13

import (
	"fmt"
	goscanner "go/scanner"
	gotoken "go/token"
	"sort"
	"strings"
	"testing"
	"time"

	"github.com/goplus/xgo/ast"
	"github.com/goplus/xgo/parser"
	"github.com/goplus/xgo/token"
	"pgregory.net/rapid"

	"verif/internal/astx"
	"verif/internal/gen/lex"
	"verif/internal/vk"
)

func TestMain(m *testing.M) {
	vk.Main(m, "C13", "exploration",
		"byte strings from XGo/Go lexeme soup biased to parser-interesting fragments, hostile bytes, token-level mutants and truncations of every repository source file; entry points ParseFile (normal and class-file mode), ParseEntry on .xgo/.gox/_spx.gox/.spx/.gsh names, ParseExpr and ParseExprEx; mode flags {ParseComments, AllErrors, DeclarationErrors} drawn. Oracle is a validity predicate (no panic, answer within a watchdog, non-nil file, error is a sorted scanner.ErrorList, nil error ⇒ reflection walk finds no Bad node). Non-trivial = at least 10 tokens and at least one XGo-specific token; distinct = hash of the set of token-kind trigrams plus entry point")
}

type Case struct {
	Src   vk.Bytes `json:"src"`
	Entry string   `json:"entry"` // file | class | expr | exprex | entry:<filename>
	Mode  uint     `json:"mode"`  // parser.Mode bits (ParseComments, AllErrors, DeclarationErrors)
}

func sortedList(err error) *vk.Verdict {
	if err == nil {
		return nil
	}
	list, ok := err.(goscanner.ErrorList)
	if !ok {
		if err == parser.ErrUnknownFileKind {
			return nil
		}
		return vk.Bad("error-type", "error is %T (%v), not scanner.ErrorList", err, err)
	}
	if len(list) == 0 {
		return vk.Bad("empty-error-list", "non-nil error with an empty list")
	}
	if !sort.IsSorted(list) {
		var b strings.Builder
		for i, e := range list {
			if i > 8 {
				break
			}
			fmt.Fprintf(&b, "%v | ", e)
		}
		return vk.Bad("unsorted-errors", "error list is not sorted by position: %s", b.String())
	}
	return nil
}

func parse(c Case) *vk.Verdict {
	fset := gotoken.NewFileSet()
	src := []byte(c.Src)
	mode := parser.Mode(c.Mode)
	var f *ast.File
	var err error
	switch {
	case c.Entry == "file":
		f, err = parser.ParseFile(fset, "/foo/bar.xgo", src, mode)
	case c.Entry == "class":
		f, err = parser.ParseFile(fset, "/foo/Bar.gox", src, mode|parser.ParseGoPlusClass)
	case strings.HasPrefix(c.Entry, "entry:"):
		f, err = parser.ParseEntry(fset, "/foo/"+strings.TrimPrefix(c.Entry, "entry:"), src, parser.Config{Mode: mode})
		if err == parser.ErrUnknownFileKind {
			return nil
		}
	case c.Entry == "expr":
		x, err := parser.ParseExpr(string(src))
		if v := sortedList(err); v != nil {
			return v
		}
		if err == nil {
			if x == nil {
				return vk.Bad("nil-result", "ParseExpr returned nil expression and nil error")
			}
			if bad := astx.HasBad(x); bad != "" {
				return vk.Bad("bad-node-without-error", "ParseExpr: nil error but the tree contains %s", bad)
			}
		}
		return nil
	case c.Entry == "exprex":
		file := fset.AddFile("/foo/e.xgo", -1, len(src))
		x, errs := parser.ParseExprEx(file, src, 0, mode)
		if len(errs) == 0 {
			if x == nil {
				return vk.Bad("nil-result", "ParseExprEx returned nil expression and no error")
			}
			if bad := astx.HasBad(x); bad != "" {
				return vk.Bad("bad-node-without-error", "ParseExprEx: no error but the tree contains %s", bad)
			}
		}
		return nil
	default:
		return vk.Bad("harness", "unknown entry %q", c.Entry)
	}
	if f == nil {
		return vk.Bad("nil-file", "%s: returned nil *ast.File (err=%v)", c.Entry, err)
	}
	if v := sortedList(err); v != nil {
		return v
	}
	if err == nil {
		if bad := astx.HasBad(f); bad != "" {
			return vk.Bad("bad-node-without-error", "%s: nil error but the tree contains %s", c.Entry, bad)
		}
	}
	return nil
}

var oracle = vk.Register("parse", parse)

type failer interface {
	Fatalf(string, ...any)
	Helper()
}

var xgoOnly = map[token.Token]bool{token.DRARROW: true, token.SRARROW: true, token.BIDIARROW: true, token.QUESTION: true,
	token.ENV: true, token.RAT: true, token.UNIT: true, token.CSTRING: true, token.PYSTRING: true}

func fingerprint(c Case) (nontrivial bool, h uint64) {
	toks := lex.Scan(c.Src)
	xgo := false
	set := map[uint32]struct{}{}
	var a, b token.Token
	for i, t := range toks {
		if xgoOnly[t.Tok] || t.Tok == token.NOT && i+1 < len(toks) && toks[i+1].Tok == token.SEMICOLON ||
			t.Tok == token.ARROW && i > 0 && toks[i-1].Tok == token.IDENT {
			xgo = true
		}
		if i >= 2 {
			set[uint32(a)<<16|uint32(b)<<8|uint32(t.Tok)&0xff] = struct{}{}
		}
		a, b = b, t.Tok
	}
	keys := make([]int, 0, len(set))
	for k := range set {
		keys = append(keys, int(k))
	}
	sort.Ints(keys)
	return xgo && len(toks) >= 10, vk.Hash64(c.Entry, fmt.Sprint(keys))
}

func run(t failer, c Case, class string) {
	v := vk.R.Guard("parse", c, 20*time.Second, func() *vk.Verdict { return oracle(c) })
	nt, h := fingerprint(c)
	vk.R.CaseH(nt, h)
	vk.R.Class(class)
	vk.R.Class("entry=" + strings.SplitN(c.Entry, ":", 2)[0])
	if nt {
		vk.R.Sample(string(c.Src))
	}
	vk.R.Check(t, "parse", c, v)
}

var entries = []string{"file", "file", "file", "class", "class", "expr", "exprex", "entry:a.xgo", "entry:A.gox", "entry:A_spx.gox",
	"entry:main.spx", "entry:a.gsh", "entry:a_test.gox", "entry:a.gop", "entry:a.go", "entry:a.gmx"}

func drawCase(t *rapid.T, src []byte) Case {
	mode := uint(0)
	if rapid.Bool().Draw(t, "comments") {
		mode |= uint(parser.ParseComments)
	}
	if rapid.Bool().Draw(t, "allerrors") {
		mode |= uint(parser.AllErrors)
	}
	if rapid.IntRange(0, 3).Draw(t, "declerrors") == 0 {
		mode |= uint(parser.DeclarationErrors)
	}
	return Case{Src: src, Entry: rapid.SampledFrom(entries).Draw(t, "entry"), Mode: mode}
}

func TestSoup(t *testing.T) {
	g := lex.Soup(lex.XGoLexeme(), 0, 40)
	vk.R.Rapid(t, 1, 80000, 1200000, func(t *rapid.T) {
		run(t, drawCase(t, []byte(g.Draw(t, "src"))), "src=soup")
	})
}

func TestHostile(t *testing.T) {
	g := lex.Hostile()
	vk.R.Rapid(t, 2, 40000, 500000, func(t *rapid.T) {
		run(t, drawCase(t, []byte(g.Draw(t, "src"))), "src=hostile")
	})
}

func TestCorpusMutants(t *testing.T) {
	g := lex.CorpusMutant()
	vk.R.Rapid(t, 3, 25000, 400000, func(t *rapid.T) {
		run(t, drawCase(t, g.Draw(t, "src")), "src=corpus-mutant")
	})
}

func TestCorpusVerbatim(t *testing.T) {
	if vk.R.Shard != 0 {
		return
	}
	for _, f := range lex.Corpus() {
		entry := "file"
		if strings.HasSuffix(f.Path, ".gox") || strings.HasSuffix(f.Path, ".spx") || strings.HasSuffix(f.Path, ".gmx") || strings.HasSuffix(f.Path, ".gsh") {
			entry = "class"
		}
		run(t, Case{Src: vk.Bytes(f.Src), Entry: entry, Mode: uint(parser.ParseComments | parser.AllErrors)}, "src=corpus")
	}
}

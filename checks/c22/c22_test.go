//go:build verif

// C22 — printing a synthesised tree (no positions, no ParenExpr) yields source that parses back
// to the same tree.
package c22

import (
	"bytes"
	gotoken "go/token"
	"strings"
	"testing"

	"github.com/goplus/xgo/ast"
	"github.com/goplus/xgo/printer"
	"pgregory.net/rapid"

	"verif/internal/gen/astsynth"
	"verif/internal/vk"
)

func TestMain(m *testing.M) {
	vk.Main(m, "C22", "exploration",
		"position-free xgo/ast trees built from templates (astsynth): every unary/binary operator incl. -> and <>, star, call (plain, variadic, conversion), command-style call statements, index, index list, slice (2/3-index, optional bounds), selector, type assertion, composite literals (typed, untyped, array, map, key:value), slice literal, func literal, lambda (all Lhs/Rhs forms), block lambda, ErrWrap ! ? ?:, list/map/set comprehensions (1..2 phrases, filter), range expressions in for-in, EnvExpr $x/${x}, NumberUnitLit, DomainTextLit, all literal kinds; statements: expression, assignment (=, :=, all op=, multi), send, inc/dec, return, if/else, for, for-in, range, switch/case, defer, go, block. A tree belongs to the domain (image of strip-parens∘parse) iff its fully parenthesised reference rendering parses back to it; others are counted under rejected. (1) exhaustive: every (parent template, slot, child template) pair; (2) random trees of template depth <= 4, steered away from the listed known shapes. Oracle: printer.Fprint → parser (expression, or single statement of a function body) → same tree (kinds, tokens, literal text, command-call/ellipsis/brace flags; positions and ParenExpr ignored). A failure is reduced to its smallest failing subtree and keyed by (parent kind[op], slot, child kind[op]). Non-trivial = some operand needs parentheses in its slot (binds looser than the slot) or a sign adjacency (- -a, a - -b, a & ^b, <- <-c, a / *p); distinct = hash of the tree")
}

type Case struct {
	Tree *astsynth.Spec `json:"tree"`
}

// roundTrip prints and re-parses; it returns "" when the tree came back, else what went wrong.
func roundTrip(s *astsynth.Spec) (problem, printed string) {
	const bare = false
	node := astsynth.Build(s)
	var buf bytes.Buffer
	var root any = node
	if st, ok := node.(ast.Stmt); ok && !bare {
		// statements are printed as the only statement of a block (Fprint on a bare
		// *ast.ForPhraseStmt takes the expression path and exits the process, see regress/C22)
		root = &ast.BlockStmt{List: []ast.Stmt{st}}
	}
	if err := printer.Fprint(&buf, gotoken.NewFileSet(), root); err != nil {
		return "printer error: " + err.Error(), ""
	}
	printed = buf.String()
	if _, ok := root.(*ast.BlockStmt); ok && s.K != "Block" || ok && !bare && s.K == "Block" {
		printed = strings.TrimSpace(printed)
		printed = strings.TrimSuffix(strings.TrimPrefix(printed, "{"), "}")
	}
	back, err := astsynth.Parse(printed, s.IsStmt())
	if err != nil {
		return "printed text does not parse: " + err.Error(), printed
	}
	if want, got := astsynth.Dump(node), astsynth.Dump(back); want != got {
		return "printed text parses to a different tree:\n want " + want + "\n got  " + got, printed
	}
	return "", printed
}

func standalone(s *astsynth.Spec) bool {
	switch s.K {
	case "KeyValue", "For", "Case", "Range", "ArrayType", "MapType", "FuncType", "CmdCall", "?":
		return false
	}
	return true
}

func fails(s *astsynth.Spec) bool {
	defer func() { recover() }()
	if excluded(s) != "" || !astsynth.InImage(s) {
		return false
	}
	p, _ := roundTrip(s)
	return p != ""
}

// logical children: (owner, index) of the nearest descendants that can stand alone.
type slot struct {
	owner *astsynth.Spec
	index int
}

func logicalChildren(s *astsynth.Spec, out *[]slot) {
	for i, c := range s.C {
		if c == nil {
			continue
		}
		if standalone(c) {
			*out = append(*out, slot{s, i})
		} else {
			logicalChildren(c, out)
		}
	}
}

func minimal(s *astsynth.Spec) *astsynth.Spec {
	var kids []slot
	logicalChildren(s, &kids)
	for _, k := range kids {
		if c := k.owner.C[k.index]; fails(c) {
			return minimal(c)
		}
	}
	return s
}

// classify reduces a failing tree to its smallest failing subtree and names the slot whose
// occupant causes the failure (replacing it by an identifier makes the subtree print correctly).
// reduce replaces, top-down, every operand of root that is not needed for the failure by an
// identifier (statements by a call statement): greedy delta debugging on the tree.
func reduce(root, at *astsynth.Spec) {
	var kids []slot
	logicalChildren(at, &kids)
	for _, k := range kids {
		c := k.owner.C[k.index]
		if c.K == "Ident" || c.K == "Block" {
			if c.K == "Block" {
				reduce(root, c)
			}
			continue
		}
		var repl *astsynth.Spec = &astsynth.Spec{K: "Ident", S: "z"}
		if c.IsStmt() {
			repl = &astsynth.Spec{K: "ExprStmt", C: []*astsynth.Spec{{K: "Call", C: []*astsynth.Spec{{K: "Ident", S: "z"}}}}}
			if c.K == "ExprStmt" && len(c.C) == 1 && c.C[0].K == "Call" && len(c.C[0].C) == 1 && c.C[0].C[0].K == "Ident" {
				continue
			}
		}
		k.owner.C[k.index] = repl
		if fails(root) {
			continue // not needed
		}
		k.owner.C[k.index] = c
		reduce(root, c)
	}
}

func classify(s *astsynth.Spec) (class string, min *astsynth.Spec) {
	min = minimal(s)
	reduce(min, min)
	var kids []slot
	logicalChildren(min, &kids)
	for _, k := range kids {
		c := k.owner.C[k.index]
		if c.IsLeaf() && c.K == "Ident" {
			continue
		}
		var repl *astsynth.Spec = &astsynth.Spec{K: "Ident", S: "z"}
		if c.IsStmt() {
			repl = &astsynth.Spec{K: "ExprStmt", C: []*astsynth.Spec{{K: "Call", C: []*astsynth.Spec{{K: "Ident", S: "z"}}}}}
		}
		k.owner.C[k.index] = repl
		bad := fails(min)
		k.owner.C[k.index] = c
		if !bad {
			class := astsynth.ClassOf(k.owner, k.index, c)
			// an ErrWrap ! or ? at the right edge of an operand that is followed by ':' (case
			// list, map key, slice bound): one family whatever lies between slot and ErrWrap
			if slotName := astsynth.Slot(k.owner.K, k.index); k.owner.K == "Case" || k.owner.K == "KeyValue" && slotName == "Key" || k.owner.K == "Slice" && slotName != "X" {
				r := c
				for r != nil && (r.K == "Binary" || r.K == "Unary" || r.K == "Star" || r.K == "Lambda" && r.F&2 == 0 || r.K == "ErrWrap" && r.Op == "?:") {
					r = r.C[len(r.C)-1]
				}
				if r != nil && r != c && r.K == "ErrWrap" && r.Op != "?:" {
					return astsynth.ClassOf(k.owner, k.index, r) + "@right-edge", min
				}
			}
			// does the pair alone (operands of c replaced by identifiers) already fail? If not,
			// the shape is three levels deep: name the operand of c that is needed as well.
			var sub []slot
			logicalChildren(c, &sub)
			saved := make([]*astsynth.Spec, len(sub))
			for i, g := range sub {
				saved[i] = g.owner.C[g.index]
				if !saved[i].IsStmt() {
					g.owner.C[g.index] = &astsynth.Spec{K: "Ident", S: "y"}
				}
			}
			pairFails := fails(min)
			for i, g := range sub {
				g.owner.C[g.index] = saved[i]
			}
			if !pairFails {
				for i, g := range sub {
					if saved[i].IsStmt() || saved[i].K == "Ident" {
						continue
					}
					g.owner.C[g.index] = &astsynth.Spec{K: "Ident", S: "y"}
					still := fails(min)
					g.owner.C[g.index] = saved[i]
					if !still {
						return class + ">" + astsynth.ClassOf(g.owner, g.index, saved[i]), min
					}
				}
				return class + ">combination", min
			}
			return class, min
		}
	}
	return min.K + ":combination", min
}

// excluded names the contexts that need parentheses for reasons the property does not list
// (the printer relies on ParenExpr nodes there, as go/printer does): a composite literal, brace
// comprehension or block lambda in a control clause; an expression statement, assignment, send
// or inc/dec that starts with "{"; a slice literal in a position where "[x]" reads as an array
// type (left operand of a binary operator, callee, indexed or sliced operand, channel of a send).
func excluded(s *astsynth.Spec) string {
	if s == nil {
		return ""
	}
	braces := func(x *astsynth.Spec) bool {
		found := false
		var walk func(*astsynth.Spec)
		walk = func(y *astsynth.Spec) {
			if y == nil {
				return
			}
			if y.K == "Composite" || y.K == "Compr" && y.Op == "{" || y.K == "Lambda2" || y.K == "FuncLit" {
				found = true
			}
			for _, c := range y.C {
				walk(c)
			}
		}
		walk(x)
		return found
	}
	var leftmost func(*astsynth.Spec) *astsynth.Spec
	leftmost = func(x *astsynth.Spec) *astsynth.Spec {
		switch x.K {
		case "Binary", "Call", "CmdCall", "Index", "IndexList", "Slice", "Selector", "TypeAssert", "ErrWrap", "ExprStmt", "Assign", "Send", "IncDec":
			if len(x.C) > 0 && x.C[0] != nil {
				return leftmost(x.C[0])
			}
		}
		return x
	}
	at := func(i int) *astsynth.Spec {
		if i < len(s.C) {
			return s.C[i]
		}
		return nil
	}
	switch s.K {
	case "If", "ForCond", "Switch":
		if braces(at(0)) {
			return "brace-expression-in-control-clause"
		}
	case "ForIn":
		if braces(at(0)) || braces(at(1)) {
			return "brace-expression-in-control-clause"
		}
	case "RangeStmt":
		if braces(at(0)) {
			return "brace-expression-in-control-clause"
		}
	case "For": // comprehension phrase: the filter ends at the closing bracket, the source at "if"
		if braces(at(0)) || braces(at(1)) {
			return "brace-expression-in-control-clause"
		}
	case "ExprStmt", "Assign", "Send", "IncDec":
		heads := []*astsynth.Spec{s}
		if s.K == "Assign" {
			heads = s.C[:s.F]
		}
		for _, h := range heads {
			if l := leftmost(h); l.K == "Composite" && l.C[0] == nil || l.K == "Compr" && l.Op == "{" {
				return "statement-starts-with-brace"
			}
		}
		if s.K == "Send" {
			r := s.C[0]
			for r != nil && (r.K == "Binary" || r.K == "Unary" || r.K == "Star") {
				r = r.C[len(r.C)-1]
			}
			if r != nil && r.K == "SliceLit" {
				return "slice-literal-reads-as-array-type"
			}
		}
	case "Composite", "KeyValue", "SliceLit", "Compr":
		// inside a literal "{" starts a nested literal: an element that merely begins with a
		// brace expression reads as one
		for i, c := range s.C {
			if c == nil || s.K == "Composite" && i == 0 {
				continue
			}
			if l := leftmost(c); l != c && (l.K == "Composite" && l.C[0] == nil || l.K == "Compr" && l.Op == "{") {
				return "element-starts-with-brace"
			}
		}
	}
	switch s.K {
	case "Binary", "Unary", "Star", "Selector", "TypeAssert", "ErrWrap":
		for _, c := range s.C {
			if c != nil && c.K == "SliceLit" {
				return "slice-literal-reads-as-array-type"
			}
		}
	case "Call", "CmdCall", "Index", "IndexList", "Slice", "Send":
		if len(s.C) > 0 && s.C[0] != nil && s.C[0].K == "SliceLit" {
			return "slice-literal-reads-as-array-type"
		}
	}
	for _, c := range s.C {
		if r := excluded(c); r != "" {
			return r
		}
	}
	return ""
}

type info struct {
	rejected bool
	why      string
	min      *astsynth.Spec // smallest failing subtree, when the case fails
	printed  string
}

func evaluate(c Case) (v *vk.Verdict, in info) {
	if c.Tree == nil {
		return vk.Bad("harness", "no tree"), in
	}
	if why := excluded(c.Tree); why != "" {
		in.rejected, in.why = true, why
		return nil, in
	}
	if !astsynth.InImage(c.Tree) {
		in.rejected, in.why = true, "not-in-the-image-of-parse"
		return nil, in
	}
	problem, printed := roundTrip(c.Tree)
	in.printed = printed
	if problem == "" {
		return nil, in
	}
	class, min := classify(c.Tree)
	in.min = min
	_, minPrinted := roundTrip(min)
	return vk.Bad(class, "smallest failing subtree %s prints as %q (reference rendering %q); whole tree prints as %q: %s",
		astsynth.Dump(astsynth.Build(min)), strings.TrimSpace(minPrinted), astsynth.Render(min, false), strings.TrimSpace(printed), problem), in
}

var oracle = vk.Register("roundtrip", func(c Case) *vk.Verdict { v, _ := evaluate(c); return v })

type failer interface {
	Fatalf(string, ...any)
	Helper()
}

var precOf = func() map[string]int {
	m := map[string]int{}
	for i, op := range astsynth.BinaryOps {
		switch {
		case i == 0:
			m[op] = 1
		case i == 1:
			m[op] = 2
		case i < 10:
			m[op] = 3
		case i < 14:
			m[op] = 4
		default:
			m[op] = 5
		}
	}
	return m
}()

// needsCare: does the tree contain an operand that binds looser than its slot, or a sign adjacency?
func needsCare(s *astsynth.Spec) bool {
	if s == nil {
		return false
	}
	loose := func(c *astsynth.Spec) bool {
		switch c.K {
		case "Binary", "Unary", "Star", "Lambda", "Lambda2", "ErrWrap", "FuncLit":
			return true
		}
		return false
	}
	switch s.K {
	case "Unary", "Star":
		if c := s.C[0]; c.K == "Binary" || (c.K == "Unary" || c.K == "Star") && (s.Op == c.Op || s.K == "Star" && c.K == "Star") {
			return true
		}
	case "Binary":
		x, y := s.C[0], s.C[1]
		if x.K == "Binary" && precOf[x.Op] < precOf[s.Op] || y.K == "Binary" && precOf[y.Op] <= precOf[s.Op] {
			return true
		}
		if y.K == "Unary" || y.K == "Star" {
			return true
		}
	case "ErrWrap", "Selector", "Index", "Slice", "TypeAssert", "Call", "CmdCall", "IndexList":
		if len(s.C) > 0 && s.C[0] != nil && loose(s.C[0]) {
			return true
		}
	}
	for _, c := range s.C {
		if needsCare(c) {
			return true
		}
	}
	return false
}

// exitsProcess: a func literal whose body directly holds a for-in statement makes the printer
// call log.Fatalf (ForPhraseStmt is measured through the expression path). While that is a listed
// finding (class "crash", isolated regress file) such trees are not evaluated in-process.
func exitsProcess(s *astsynth.Spec) bool {
	if s == nil {
		return false
	}
	if s.K == "FuncLit" {
		for _, c := range s.C {
			if c != nil && c.K == "ForIn" {
				return true
			}
		}
	}
	for _, c := range s.C {
		if exitsProcess(c) {
			return true
		}
	}
	return false
}

func run(t failer, c Case, classes ...string) {
	if exitsProcess(c.Tree) {
		if vk.R.HasKnown("crash") {
			vk.R.Excluded("crash")
			vk.R.Case(false, "")
			return
		}
		vk.R.Current("roundtrip", c) // if the process dies the driver re-runs exactly this case
	}
	v, in := evaluate(c)
	if in.rejected {
		vk.R.Rejected(in.why)
		vk.R.Case(false, "")
		return
	}
	nt := needsCare(c.Tree)
	vk.R.Case(nt, astsynth.Dump(astsynth.Build(c.Tree)))
	for _, cl := range classes {
		vk.R.Class(cl)
	}
	vk.R.Class("root=" + c.Tree.K)
	if nt {
		vk.R.Sample(strings.TrimSpace(in.printed))
	}
	if v != nil && in.min != nil {
		c = Case{Tree: in.min} // the replay holds the reduced tree: no shrinking needed
	}
	vk.R.Check(t, "roundtrip", c, v)
}

// soft turns Fatalf into Errorf so that the enumeration reports every failing shape of a run.
type soft struct{ t *testing.T }

func (s soft) Fatalf(f string, a ...any) { s.t.Errorf(f, a...) }
func (s soft) Helper()                   {}

// TestPairs enumerates the complete depth-2 catalogue.
func TestPairs(t *testing.T) {
	pairs := append(astsynth.Pairs(), astsynth.Triples()...)
	n := 0
	for i, p := range pairs {
		if i%vk.R.Shards != vk.R.Shard {
			continue
		}
		run(soft{t}, Case{Tree: p.Tree}, "src=pair-catalogue")
		n++
	}
	vk.R.Add("pair_catalogue_size", int64(n))
}

func steering() astsynth.Config {
	return astsynth.Config{MaxDepth: 4,
		Avoid:   func(class string) bool { return vk.R.HasKnown(class) },
		Steered: func(class string) { vk.R.Excluded(class) }}
}

func TestRandomExpr(t *testing.T) {
	g := astsynth.Expr(steering())
	vk.R.Rapid(t, 1, 14000, 350000, func(rt *rapid.T) {
		// soft: every failing shape of the run is reported (each already reduced), not only the first
		run(soft{t}, Case{Tree: g.Draw(rt, "tree")}, "src=random-expr")
	})
}

func TestRandomStmt(t *testing.T) {
	g := astsynth.Stmt(steering())
	vk.R.Rapid(t, 2, 6000, 150000, func(rt *rapid.T) {
		run(soft{t}, Case{Tree: g.Draw(rt, "tree")}, "src=random-stmt")
	})
}

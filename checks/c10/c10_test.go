//go:build verif

// C10 — overloaded functions dispatch on argument types, independent of candidate order.
package c10

import (
	"regexp"
	"strings"
	"testing"

	"verif/internal/gen/xsugar"
	"verif/internal/sugarcheck"
	"verif/internal/vk"
)

func TestMain(m *testing.M) {
	vk.Main(m, "C10", "exploration",
		"programs of 10 items; each item is an overload set of 2-4 candidates whose parameter type tuples (arity 1-2 over int, string, bool, float64, []int, *T, T, func(int) int) are pairwise different, declared as inline func literals, named functions, methods ((T).m = ...), a mix of literals and names, or operators on a struct type (binary + - * == <, unary -, and the multi-type (T).* = ((T).mulInt, (T).mulT, intMulT) form); the candidate list is written in a drawn permutation; every candidate is called with typed variables of exactly its parameter types. Reference: the same functions called directly by name in Go. Oracle: each call prints the tag of the candidate whose parameters equal the argument types (and its result). Non-trivial = >= 3 candidates, mixed style or multi-type operator; distinct = (style, type tuples, order)")
}

// refine names the one known rejection: a candidate body that calls the overloaded name itself.
func refine(line, errText string) string {
	if m := undefOv.FindStringSubmatch(errText); m != nil && strings.Contains(line, m[1]+"(") && strings.Contains(line, "return 100 + ") {
		return "cl-rejects:overload-called-from-candidate"
	}
	return ""
}

var undefOv = regexp.MustCompile(`undefined: (\w+)`)

var oracle = sugarcheck.NewOracle("pair", refine)

func TestOverloads(t *testing.T) {
	sugarcheck.Run(t, vk.R, sugarcheck.Options{
		Name:    "pair",
		Oracle:  oracle,
		Program: func(g *xsugar.G) *xsugar.Program {
			// candidate bodies that call the overloaded name are generated once the listed finding
			// about them is repaired (until then the regress file decides it)
			g.Flags["overload-self-call"] = !vk.R.HasKnown("cl-rejects:overload-called-from-candidate")
			return xsugar.OverloadProgram(g, 10)
		},
		// every style must compile: doc/overload.md shows literals, names and methods, and the
		// repository's own tests (cl TestOverload: ",addInt,addFloat", ".addInt,,.addString") mix
		// literals and names in one set
		Documented: func(it xsugar.Item) bool { return true },
		Quick:      16,
		Thorough:   600,
	})
}

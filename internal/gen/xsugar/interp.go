package xsugar

import (
	"fmt"
	"strings"
)

// InterpDecls: values the ${...} parts refer to.
const InterpDecls = `
type label string

var (
	iv   = 42
	neg  = -7
	i64  = int64(1) << 40
	u64  = uint64(1) << 63
	fv   = 2.5
	fbig = 1e21
	fsm  = 0.000001
	sv   = "str"
	lv   = label("lab")
	ev   = errors.New("boom")
	rv   = rec{"nm", 3}
	xs   = []int{5, 6, 7}
	bv   = true
)

const (
	cpi        = 3.14159265358979
	cbig       = 1234567.5
	cint       = 1 << 40
	ctyped int = 77
	cstr       = "konst"
	cflt32     = float32(0.1)
)
`

type interpPart struct {
	x, g string // XGo source text inside the literal; Go expression (string-typed) for the concatenation
	kind string
}

// interpLiteral draws one literal: returns XGo spelling and Go concatenation.
func (g *G) interpLiteral() (x, gg string, nexpr, ndollar int, kinds []string, hasBool bool) {
	raw := g.Chance(20, "raw")
	n := g.Intn(7, "nparts")
	var xb strings.Builder
	var gparts []string
	lastWasText := false
	addText := func(xt, gt string) {
		xb.WriteString(xt)
		if lastWasText && len(gparts) > 0 {
			gparts[len(gparts)-1] += " + " + gt
		} else {
			gparts = append(gparts, gt)
		}
		lastWasText = true
	}
	quoteGo := func(s string) string {
		if raw {
			return "`" + s + "`"
		}
		return "\"" + s + "\""
	}
	for i := 0; i < n; i++ {
		switch g.Intn(10, "pk") {
		case 0, 1, 2: // plain text
			texts := []string{"a", "x y", "Z9", "{", "}", "{}", "é", "世", "-", ":", "%d", "#", "@", "(", ")"}
			if !raw {
				texts = append(texts, `\n`, `\t`, `\"`, `\\`, `\x41`, `é`, `\101`)
			} else {
				texts = append(texts, `"`, `\n`, "'")
			}
			t := texts[g.Intn(len(texts), "txt")]
			addText(t, quoteGo(t))
		case 3: // $$
			ndollar++
			xb.WriteString("$$")
			if lastWasText && len(gparts) > 0 {
				gparts[len(gparts)-1] += " + \"$\""
			} else {
				gparts = append(gparts, "\"$\"")
			}
			lastWasText = true
		default: // ${expr}
			tag := g.Tag()
			parts := []interpPart{
				{"iv", "strconv.Itoa(iv)", "int"},
				{"neg", "strconv.Itoa(neg)", "int"},
				{"iv+neg*2", "strconv.Itoa(iv+neg*2)", "int-arith"},
				{fmt.Sprintf("t(%q, %d)", tag, g.Intn(99, "tv")), "", "int-call"},
				{"i64", "strconv.FormatInt(i64, 10)", "int64"},
				{"u64", "strconv.FormatUint(u64, 10)", "uint64"},
				{"fv", "strconv.FormatFloat(fv, 'g', -1, 64)", "float"},
				{"fbig", "strconv.FormatFloat(fbig, 'g', -1, 64)", "float"},
				{"fsm*3", "strconv.FormatFloat(fsm*3, 'g', -1, 64)", "float-arith"},
				{"sv", "sv", "string"},
				{fmt.Sprintf("ts(%q, sv)", tag), fmt.Sprintf("ts(%q, sv)", tag), "string-call"},
				{"lv", "string(lv)", "named-string"},
				{"ev", "ev.Error()", "error"},
				{"rv.nm", "rv.nm", "selector-string"},
				{"rv.sc", "strconv.Itoa(rv.sc)", "selector-int"},
				{"xs[1]", "strconv.Itoa(xs[1])", "index"},
				{"len(xs)", "strconv.Itoa(len(xs))", "builtin-call"},
				{"sv+sv", "sv + sv", "string-concat"},
				{"cpi", "strconv.FormatFloat(cpi, 'g', -1, 64)", "const-float-long"},
				{"cbig", "strconv.FormatFloat(cbig, 'g', -1, 64)", "const-float-long"},
				{"1234567.5", "strconv.FormatFloat(1234567.5, 'g', -1, 64)", "float-literal-long"},
				{"cpi*2", "strconv.FormatFloat(cpi*2, 'g', -1, 64)", "const-float-expr"},
				{"0.1+0.2", "strconv.FormatFloat(0.1+0.2, 'g', -1, 64)", "const-float-expr"},
				{"fv*cpi", "strconv.FormatFloat(fv*cpi, 'g', -1, 64)", "float-arith"},
				{"cint", "strconv.FormatInt(cint, 10)", "const-int"},
				{"ctyped", "strconv.Itoa(ctyped)", "const-int"},
				{"cstr", "cstr", "const-string"},
				{"7", "strconv.Itoa(7)", "int-literal"},
				{"bv", "", "bool"},
			}
			p := parts[g.Intn(len(parts), "expr")]
			if p.kind == "int-call" {
				p.g = "strconv.Itoa(" + p.x + ")"
			}
			if raw && g.Chance(20, "quoted-in-raw") {
				p = interpPart{`{"k": iv}["k"]`, `strconv.Itoa(map[string]int{"k": iv}["k"])`, "expr-with-quote-in-raw"}
				p = interpPart{`len("ab")`, `strconv.Itoa(len("ab"))`, "expr-with-quote-in-raw"}
			}
			if p.kind == "bool" {
				hasBool = true
				p.g = "strconv.FormatBool(bv)"
			}
			// calls with string literal arguments cannot be written inside a "..." literal
			if !raw && strings.Contains(p.x, "\"") {
				p = interpPart{"iv", "strconv.Itoa(iv)", "int"}
			}
			nexpr++
			kinds = append(kinds, p.kind)
			if g.Chance(15, "spaces") {
				xb.WriteString("${ " + p.x + " }")
			} else {
				xb.WriteString("${" + p.x + "}")
			}
			gparts = append(gparts, p.g)
			lastWasText = false
		}
	}
	if g.Chance(10, "trailing-dollar") {
		addText("$", quoteGo("$"))
	}
	q := "\""
	if raw {
		q = "`"
	}
	x = q + xb.String() + q
	if len(gparts) == 0 {
		gg = quoteGo("")
	} else {
		gg = strings.Join(gparts, " + ")
		if !strings.Contains(gg, "\"") && !strings.Contains(gg, "`") && len(gparts) == 1 {
			gg = "\"\" + " + gg
		}
	}
	return
}

// InterpItem draws one C05 item: four literals, printed with %q, then the trace.
func (g *G) InterpItem() Item {
	var xb, gb strings.Builder
	var labels []string
	nontrivial := false
	bools := false
	key := ""
	for i := 0; i < 4; i++ {
		x, gg, nexpr, ndollar, kinds, hasBool := g.interpLiteral()
		if hasBool {
			bools = true
		}
		// the literal in a drawn context: argument, typed variable, operand of + and ==, argument of a
		// user function, map key, result of a function literal, case of a switch
		ctx := []string{"fmt.Printf(\"  %%q\\n\", @)", "{\n\tvar s string = @\n\tfmt.Printf(\"  %%q\\n\", s)\n}", "fmt.Printf(\"  %%q\\n\", \"<\" + @ + \">\")",
			"fmt.Printf(\"  %%q %%v\\n\", @, @ == \"a\")", "fmt.Printf(\"  %%q\\n\", ts(\"ctx\", @))", "fmt.Printf(\"  %%v\\n\", map[string]int{\"a\": 1}[@])",
			"fmt.Printf(\"  %%q\\n\", func() string { return @ }())", "switch \"a\" {\ncase @:\n\tfmt.Println(\"  hit\")\ndefault:\n\tfmt.Println(\"  miss\")\n}", "fmt.Printf(\"  %%d\\n\", len(@))"}[g.Intn(9, "ctx")]
		if strings.Count(ctx, "@") > 1 && nexpr > 0 {
			ctx = "fmt.Printf(\"  %%q\\n\", @)" // the context would evaluate the parts twice
		}
		ctx = strings.ReplaceAll(ctx, "%%", "%")
		fmt.Fprintf(&xb, "%s\n", strings.ReplaceAll(ctx, "@", x))
		fmt.Fprintf(&gb, "%s\n", strings.ReplaceAll(ctx, "@", "("+gg+")"))
		if nexpr >= 2 || ndollar >= 1 {
			nontrivial = true
		}
		for _, k := range kinds {
			labels = append(labels, "part="+k)
		}
		key += x
	}
	kind := "interp"
	if bools {
		kind = "interp-bool" // the statement does not define a string form for bools: rejection is not a violation
	}
	xb.WriteString("flush(false)")
	gb.WriteString("flush(false)")
	return Item{Kind: kind, X: xb.String(), G: gb.String(), Key: "interp/" + key, NonTrivial: nontrivial, Labels: labels}
}

// InterpProgram draws a program of n C05 items.
func InterpProgram(g *G, n int) *Program {
	p := &Program{DeclsX: []string{InterpDecls}, DeclsG: []string{InterpDecls}}
	for i := 0; i < n; i++ {
		p.Items = append(p.Items, g.InterpItem())
	}
	return p
}

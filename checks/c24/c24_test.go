//go:build verif

// C24 — RearrangeFuncs only reorders top-level chunks (function declarations first, order inside
// each class kept, no byte added or lost) and SourceEx succeeds whenever Source succeeds on the
// original or on that rearrangement.
package c24

import (
	"bytes"
	"fmt"
	gotoken "go/token"
	"runtime/debug"
	"sort"
	"strings"
	"testing"

	"github.com/goplus/xgo/format"
	"github.com/goplus/xgo/format/formatutil"
	"github.com/goplus/xgo/scanner"
	"github.com/goplus/xgo/token"
	"pgregory.net/rapid"

	"verif/internal/vk"
)

func TestMain(m *testing.M) {
	vk.Main(m, "C24", "exploration",
		"scripts built as a sequence of top-level chunks of known kind (func / method declarations, var-const-type declarations, statements with braces, parentheses, composite and function literals, explicit ';', calls of function literals), each with optional leading line/block comments (with braces and quotes inside) and blank lines, optional comment at end of file. The source is the concatenation of the chunk texts, so chunk boundaries and kinds are known by construction and not taken from any tokenizer. Shapes that hit a listed finding (parenthesised declaration groups, package clause, imports, function literal with result type, same-line trailing comment, missing final newline) are generated one shape per case in a separate sub-test. Oracle: expected order = chunks before the first statement, then the function declarations that follow it, then the rest; (1) output is a byte permutation of the input, (2) the token stream of the output (XGo scanner, automatic semicolons included) equals the token stream of the expected order, (3) SourceEx returns nil error whenever format.Source accepts the input or the expected rearrangement. Non-trivial = at least one function declaration after the first statement; distinct = sequence of chunk kinds plus texts hash")
}

// Chunk is one top-level piece of a script. Text holds leading comments, the code, an optional
// same-line comment and the terminating newline(s); only the last chunk may lack the newline.
type Chunk struct {
	Kind string `json:"kind"` // package import func var stmt funclit funclit-result comment
	Text string `json:"text"`
}

type Case struct {
	Chunks []Chunk `json:"chunks"`
	Shape  string  `json:"shape"` // "" or the one special shape this case carries (see shapes)
}

func (c Case) src() []byte {
	var b bytes.Buffer
	for _, ch := range c.Chunks {
		b.WriteString(ch.Text)
	}
	return b.Bytes()
}

func (c Case) has(kind string) bool {
	for _, ch := range c.Chunks {
		if ch.Kind == kind {
			return true
		}
	}
	return false
}

func isDeclKind(k string) bool {
	return k == "package" || k == "import" || k == "func" || k == "var" || k == "comment"
}

// expected returns the chunks in the order the property describes.
func expected(chunks []Chunk) (out []Chunk, moved bool) {
	first := -1
	for i, ch := range chunks {
		if !isDeclKind(ch.Kind) {
			first = i
			break
		}
	}
	if first < 0 {
		return chunks, false
	}
	out = append(out, chunks[:first]...)
	for _, ch := range chunks[first:] {
		if ch.Kind == "func" {
			out = append(out, ch)
			moved = true
		}
	}
	for _, ch := range chunks[first:] {
		if ch.Kind != "func" {
			out = append(out, ch)
		}
	}
	return out, moved
}

func join(chunks []Chunk) []byte {
	var b bytes.Buffer
	for _, ch := range chunks {
		b.WriteString(ch.Text)
		if !strings.HasSuffix(ch.Text, "\n") { // only the last chunk of a source may lack it
			b.WriteString("\n")
		}
	}
	return b.Bytes()
}

type tk struct {
	Tok token.Token
	Lit string
}

// tokens scans src with the XGo scanner; comments are dropped unless keep is set.
func tokens(src []byte, keep bool) (out []tk) {
	fset := gotoken.NewFileSet()
	f := fset.AddFile("x.xgo", -1, len(src))
	var s scanner.Scanner
	s.Init(f, src, func(gotoken.Position, string) {}, scanner.ScanComments)
	for i := 0; i < 2*len(src)+4; i++ {
		_, tok, lit := s.Scan()
		if tok == token.EOF {
			break
		}
		if tok == token.COMMENT && !keep {
			continue
		}
		if tok == token.SEMICOLON {
			lit = "" // automatic or explicit does not matter
		}
		out = append(out, tk{tok, lit})
	}
	return
}

func sortedBytes(b []byte) []byte {
	c := append([]byte(nil), b...)
	sort.Slice(c, func(i, j int) bool { return c[i] < c[j] })
	return c
}

type info struct {
	nontriv  bool
	key      string
	origOK   bool
	expOK    bool
	moved    bool
	identity bool
}

// suffix makes the verdict class specific to the special shape a case carries, so that a listed
// finding never hides a failure of a case without that shape.
func (c Case) cls(base string) string {
	if c.Shape == "" {
		return base
	}
	return base + "/" + c.Shape
}

func check(c Case) (v *vk.Verdict, in info) {
	defer func() {
		if p := recover(); p != nil {
			v = vk.Bad(c.cls("panic"), "%v\n%s", p, debug.Stack())
		}
	}()
	src := c.src()
	exp, moved := expected(c.Chunks)
	in.moved = moved
	in.nontriv = moved
	var kb strings.Builder
	for _, ch := range c.Chunks {
		kb.WriteString(ch.Kind + ",")
	}
	in.key = c.Shape + "|" + kb.String() + fmt.Sprint(vk.Hash64(string(src)))

	out, err := formatutil.RearrangeFuncs(append([]byte(nil), src...))
	if err != nil {
		return vk.Bad(c.cls("rearrange-error"), "RearrangeFuncs: %v", err), in
	}
	in.identity = bytes.Equal(out, src)
	// (1) no byte added or lost
	if len(out) != len(src) || !bytes.Equal(sortedBytes(out), sortedBytes(src)) {
		return vk.Bad(c.cls("bytes-changed"), "output (%d bytes) is not a byte permutation of the input (%d bytes):\n%s", len(out), len(src), out), in
	}
	// (2) same chunks, expected order
	want := join(exp)
	if a, b := tokens(out, false), tokens(want, false); !equalTk(a, b) {
		return vk.Bad(c.cls("chunk-order"), "code tokens of the output differ from the expected order at token %s\n--- output:\n%s\n--- expected order:\n%s", firstDiff(a, b), out, want), in
	}
	if (c.Shape == "" || c.Shape == "group-after-statement" || c.Shape == "funclit-result") && !c.has("comment") {
		// comment placement is unambiguous here: leading comments go with the chunk below them
		// (a comment at the end of the file has no chunk below it: whichever chunk ends up last keeps it)
		if a, b := tokens(out, true), tokens(want, true); !equalTk(a, b) {
			return vk.Bad(c.cls("comment-moved"), "tokens with comments differ from the expected order at token %s\n--- output:\n%s\n--- expected order:\n%s", firstDiff(a, b), out, want), in
		}
	}
	// (3) SourceEx
	_, e1 := format.Source(append([]byte(nil), src...), false)
	_, e2 := format.Source(append([]byte(nil), want...), false)
	in.origOK, in.expOK = e1 == nil, e2 == nil
	res, e3 := formatutil.SourceEx(append([]byte(nil), src...), false)
	if (in.origOK || in.expOK) && e3 != nil {
		return vk.Bad(c.cls("sourceex-fails"), "format.Source accepts original=%v rearrangement=%v, but SourceEx fails: %v\n--- source:\n%s", in.origOK, in.expOK, e3, src), in
	}
	if e3 == nil && len(res) == 0 && len(bytes.TrimSpace(src)) > 0 {
		return vk.Bad(c.cls("sourceex-empty"), "SourceEx returned no error and an empty result for\n%s", src), in
	}
	return nil, in
}

func equalTk(a, b []tk) bool {
	if len(a) != len(b) {
		return false
	}
	for i := range a {
		if a[i] != b[i] {
			return false
		}
	}
	return true
}

func firstDiff(a, b []tk) string {
	for i := 0; i < len(a) || i < len(b); i++ {
		if i >= len(a) || i >= len(b) || a[i] != b[i] {
			x, y := "<end>", "<end>"
			if i < len(a) {
				x = fmt.Sprintf("%v %q", a[i].Tok, a[i].Lit)
			}
			if i < len(b) {
				y = fmt.Sprintf("%v %q", b[i].Tok, b[i].Lit)
			}
			return fmt.Sprintf("%d (output %s, expected %s)", i, x, y)
		}
	}
	return "-"
}

var oracle = vk.Register("rearrange", func(c Case) *vk.Verdict { v, _ := check(c); return v })

type failer interface {
	Fatalf(string, ...any)
	Helper()
}

func run(t failer, c Case, class string) {
	v, in := check(c)
	vk.R.Case(in.nontriv, in.key)
	vk.R.Class(class)
	if c.Shape != "" {
		vk.R.Class("shape=" + c.Shape)
	}
	if in.moved {
		vk.R.Class("func-after-statement")
	}
	if in.identity {
		vk.R.Class("output=input")
	}
	if in.origOK {
		vk.R.Class("source-accepts-original")
	}
	if in.expOK {
		vk.R.Class("source-accepts-rearrangement")
	}
	if in.moved && in.expOK && !in.origOK {
		vk.R.Class("sourceex-needs-rearrangement")
	}
	if in.nontriv {
		vk.R.Sample(string(c.src()))
	}
	vk.R.Check(t, "rearrange", c, v)
}

// ---- generator --------------------------------------------------------------------------------

var funcPool = []string{
	"func f() {\n}\n",
	"func add(a, b int) int {\n\treturn a + b\n}\n",
	"func g() { echo 1 }\n",
	"func h(xs ...int) (n int, err error) {\n\tfor _, x := range xs {\n\t\tn += x\n\t}\n\treturn\n}\n",
	"func id(x any) (y any) {\n\ty = x\n\treturn\n}\n",
	"func k() func() {\n\treturn func() {\n\t\techo 2\n\t}\n}\n",
	"func m() map[string]int {\n\treturn map[string]int{\"a\": 1}\n}\n",
	"func s() string {\n\t// } not a brace {\n\treturn \"}{(\" + `)}` + string('{')\n}\n",
	"func (p *T) M() {\n}\n",
	"func (T) N(a int) int { return a }\n",
	"func (p T) String() string {\n\tif p.a > 0 {\n\t\treturn \"+\"\n\t}\n\treturn \"\"\n}\n",
	"func /* c */ w(a int) {\n\tswitch a {\n\tcase 1:\n\t\techo 1\n\tdefault:\n\t}\n}\n",
	"func v(cb func(int) (int, error)) (r func() int) {\n\treturn nil\n}\n",
}

var varPool = []string{
	"var x int\n", "var y = 1\n", "var a, b = 1, 2\n", "const k = 3\n",
	"type T struct {\n\ta int\n}\n", "type I interface {\n\tM()\n}\n", "type F func(a int) (b int)\n",
	"var fn = func() {\n\techo 1\n}\n", "var m = map[string]int{\n\t\"a\": 1,\n}\n", "var z = f(\n\t1,\n\t2,\n)\n",
	"type P = struct{ x, y int }\n", "const s = \"}{\"\n", "var r = `a\n}{\nb`\n",
}

var stmtPool = []string{
	"echo \"hi\"\n", "x := 1\n", "println x\n", "x = f(1, 2)\n",
	"for i := 0; i < 3; i++ {\n\techo i\n}\n",
	"if x > 0 {\n\techo x\n} else {\n\techo -x\n}\n",
	"for v <- [1, 2] {\n\techo v\n}\n",
	"arr := []int{1, 2, 3}\n", "m := {\"a\": 1}\n",
	"f := func(a int) {\n\techo a\n}\n",
	"go func() {\n\techo 1\n}()\n", "defer func() {}()\n",
	"a := 1; b := 2\n",
	"switch x {\ncase 1:\n\techo 1\ndefault:\n}\n",
	"t := T{a: 1}\n", "s := \"}{\"\n", "r := `raw\n}{`\n",
	"f(\n\t1,\n\t2,\n)\n", "xs := [x*2 for x <- [1, 2]]\n",
	"if v, ok := m[\"a\"]; ok {\n\techo v\n}\n",
	"echo func() int {\n\treturn 1\n}()\n",
	"x.y(func() {\n\techo 1\n}, (1 + 2))\n",
	"a[(1+2)*3] = [1, 2][0]\n",
}

var funclitPool = []string{
	"func() {\n\techo 1\n}()\n", "func(a int) {\n}(1)\n", "func(a func()) {}(nil)\n", "func (a int) {}(2)\n",
	"func(a, b int) {\n\tif a > b {\n\t\techo a\n\t}\n}(1, 2)\n",
}

var leadPool = []string{"// c\n", "/* c */\n", "/*\n multi { \n*/\n", "// x { (\n", "// it's \"quoted\n", "// a\n// b\n", "\n", "// free\n\n", "/* ` */\n"}

// special shapes: one per case, every one of them is tied to a listed finding or was tied to one
var groupPool = []string{
	"var (\n\ta = 1\n\tb = 2\n)\n", "const (\n\tc1 = iota\n\tc2\n)\n", "type (\n\tA int\n\tB struct{ x int }\n)\n",
	"var (\n\tone = 1\n)\n", "var (\n\tf1 = func() {\n\t}\n\tn int\n)\n",
}
var funcGroupPool = []string{"func mul = (\n\tmulInt\n\tmulFloat\n)\n", "func (T).add = (\n\t(T).addInt\n\t(T).addT\n)\n"}
var importPool = []string{"import \"fmt\"\n", "import f \"fmt\"\n", "import \"fmt\"\nimport \"os\"\n"}
var importGroupPool = []string{"import (\n\t\"fmt\"\n\t\"os\"\n)\n", "import (\n\t\"strings\"\n)\n"}
var funclitResultPool = []string{"func() int {\n\treturn 1\n}()\n", "func(a int) (r int) {\n\treturn a\n}(1)\n", "func() (int, error) { return 0, nil }()\n"}
var trailPool = []string{" // t", " /* t */", " // }", " # t", " /* a */ // b"}

var shapes = []string{"group-before-statement", "group-after-statement", "func-group", "package", "import", "import-group", "funclit-result", "trailing-comment", "no-final-newline"}

func chunkGen(t *rapid.T, kinds []string) Chunk {
	kind := rapid.SampledFrom(kinds).Draw(t, "kind")
	var text string
	switch kind {
	case "func":
		text = rapid.SampledFrom(funcPool).Draw(t, "text")
	case "var":
		text = rapid.SampledFrom(varPool).Draw(t, "text")
	case "stmt":
		text = rapid.SampledFrom(stmtPool).Draw(t, "text")
	case "funclit":
		text = rapid.SampledFrom(funclitPool).Draw(t, "text")
	}
	return decorate(t, Chunk{kind, text})
}

func decorate(t *rapid.T, ch Chunk) Chunk {
	for i, n := 0, rapid.SampledFrom([]int{0, 0, 0, 1, 1, 2}).Draw(t, "nlead"); i < n; i++ {
		ch.Text = rapid.SampledFrom(leadPool).Draw(t, "lead") + ch.Text
	}
	if rapid.IntRange(0, 3).Draw(t, "blank") == 0 {
		ch.Text += "\n"
	}
	return ch
}

var allKinds = []string{"func", "func", "var", "stmt", "stmt", "funclit"}

func scriptGen(shape string) *rapid.Generator[Case] {
	return rapid.Custom(func(t *rapid.T) Case {
		var cs []Chunk
		// a prefix of declarations, then a free mix
		for i, n := 0, rapid.IntRange(0, 3).Draw(t, "ndecl"); i < n; i++ {
			cs = append(cs, chunkGen(t, []string{"func", "var"}))
		}
		for i, n := 0, rapid.IntRange(0, 7).Draw(t, "nrest"); i < n; i++ {
			cs = append(cs, chunkGen(t, allKinds))
		}
		insert := func(ch Chunk, lo, hi int) {
			at := rapid.IntRange(lo, hi).Draw(t, "at")
			cs = append(cs[:at:at], append([]Chunk{ch}, cs[at:]...)...)
		}
		firstStmt := func() int {
			for i, ch := range cs {
				if !isDeclKind(ch.Kind) {
					return i
				}
			}
			return len(cs)
		}
		switch shape {
		case "group-before-statement":
			insert(decorate(t, Chunk{"var", rapid.SampledFrom(groupPool).Draw(t, "group")}), 0, firstStmt())
		case "group-after-statement":
			cs = append(cs, Chunk{"stmt", "echo 0\n"})
			insert(decorate(t, Chunk{"var", rapid.SampledFrom(groupPool).Draw(t, "group")}), firstStmt()+1, len(cs))
		case "func-group":
			insert(decorate(t, Chunk{"func", rapid.SampledFrom(funcGroupPool).Draw(t, "group")}), 0, len(cs))
		case "package":
			cs = append([]Chunk{decorate(t, Chunk{"package", "package main\n"})}, cs...)
		case "import":
			cs = append([]Chunk{decorate(t, Chunk{"import", rapid.SampledFrom(importPool).Draw(t, "imp")})}, cs...)
		case "import-group":
			cs = append([]Chunk{decorate(t, Chunk{"import", rapid.SampledFrom(importGroupPool).Draw(t, "imp")})}, cs...)
		case "funclit-result":
			insert(decorate(t, Chunk{"funclit-result", rapid.SampledFrom(funclitResultPool).Draw(t, "flr")}), 0, len(cs))
		case "trailing-comment":
			if len(cs) == 0 {
				cs = append(cs, Chunk{"stmt", "echo 0\n"})
			}
			for i, n := 0, rapid.IntRange(1, 3).Draw(t, "ntrail"); i < n; i++ {
				k := rapid.IntRange(0, len(cs)-1).Draw(t, "which")
				tx := cs[k].Text
				body := strings.TrimRight(tx, "\n")
				if strings.HasSuffix(body, "*/") || strings.Contains(body[strings.LastIndex(body, "\n")+1:], "//") {
					continue // already ends in a comment
				}
				cs[k].Text = body + rapid.SampledFrom(trailPool).Draw(t, "trail") + tx[len(body):]
			}
		case "no-final-newline":
			if len(cs) == 0 {
				cs = append(cs, Chunk{"var", "var a int\n"})
			}
		}
		if rapid.IntRange(0, 7).Draw(t, "eofcomment") == 0 && shape != "no-final-newline" {
			cs = append(cs, Chunk{"comment", "// the end\n"})
		}
		if shape == "no-final-newline" {
			last := &cs[len(cs)-1]
			last.Text = strings.TrimRight(last.Text, "\n")
		}
		return Case{Chunks: cs, Shape: shape}
	})
}

func TestGenerated(t *testing.T) {
	g := scriptGen("")
	vk.R.Rapid(t, 1, 12000, 400000, func(t *rapid.T) {
		run(t, g.Draw(t, "script"), "src=generated")
	})
}

// TestShapes generates the special shapes, one per case, each shape with its own budget so that
// a listed finding of one shape does not stop the search in the others.
func TestShapes(t *testing.T) {
	for i, shape := range shapes {
		g := scriptGen(shape)
		t.Run(shape, func(t *testing.T) {
			vk.R.Rapid(t, 10+i, 500, 12000, func(t *rapid.T) {
				run(t, g.Draw(t, "script"), "src=shapes")
			})
		})
	}
}

// TestKindSequences enumerates every sequence of up to 6 chunks over 5 fixed chunks
// (func, method, var, statement, call of a function literal).
func TestKindSequences(t *testing.T) {
	atoms := []Chunk{
		{"func", "func f() {\n}\n\n"},
		{"func", "// doc\nfunc (p *T) m(a int) (r int) {\n\treturn a\n}\n"},
		{"var", "var v = []int{\n\t1,\n}\n"},
		{"stmt", "for i := 0; i < 3; i++ {\n\techo i\n}\n"},
		{"funclit", "// call\nfunc(a func()) {}(nil)\n\n"},
	}
	idx := 0
	for n := 0; n <= 6; n++ {
		total := 1
		for i := 0; i < n; i++ {
			total *= len(atoms)
		}
		for a := 0; a < total; a++ {
			idx++
			if idx%vk.R.Shards != vk.R.Shard {
				continue
			}
			var cs []Chunk
			for i, x := 0, a; i < n; i++ {
				cs = append(cs, atoms[x%len(atoms)])
				x /= len(atoms)
			}
			run(t, Case{Chunks: cs}, "src=kind-sequences")
		}
	}
	vk.R.Set("kind_sequences_enumerated", int64(idx))
}

// Package godecl generates declaration-heavy Go source files (text). It targets the node kinds
// that appear in declaration headers: generic funcs/types, type-set interfaces, embedded fields,
// struct tags, channels of every direction, variadics, array lengths, iota blocks, methods
// (pointer, value, anonymous and generic receivers), composite/func literals as initial values.
// The text is meant to be validated by the caller with go/parser: the generator aims at
// (syntactically) valid Go but does not guarantee it. All randomness is drawn through rapid.
package godecl

import (
	"fmt"
	"strings"

	"pgregory.net/rapid"
)

// Options steer the generator away from language features.
type Options struct {
	TypeParams bool // type parameter lists on funcs and types, generic receivers
	IndexList  bool // instantiations with two or more type arguments (ast.IndexListExpr)
	XGoSafe    bool // avoid spellings the XGo parser reads differently from Go (none known; reserved)
}

type gen struct {
	t   *rapid.T
	opt Options
	tps []string // type parameters in scope
	n   int
}

func (g *gen) pick(n int) int { return rapid.IntRange(0, n-1).Draw(g.t, "k") }

func (g *gen) pct(p int) bool { return rapid.IntRange(0, 99).Draw(g.t, "p") < p }

func (g *gen) of(xs ...string) string { return xs[g.pick(len(xs))] }

func (g *gen) fresh(prefix string) string {
	g.n++
	return fmt.Sprintf("%s%d", prefix, g.n)
}

var basicTypes = []string{"int", "string", "bool", "byte", "rune", "error", "any", "float64", "uint8", "int64", "uintptr", "complex128"}
var namedTypes = []string{"A", "B", "Node", "io.Reader", "sync.Mutex", "time.Duration", "pkg.T", "fmt.Stringer", "unsafe.Pointer"}
var genericNames = []string{"List", "Set", "pkg.Vec", "Opt"}
var generic2Names = []string{"Pair", "Map", "pkg.Either"}

func (g *gen) leafType() string {
	if len(g.tps) > 0 && g.pct(35) {
		return g.of(g.tps...)
	}
	if g.pct(60) {
		return g.of(basicTypes...)
	}
	return g.of(namedTypes...)
}

// typ generates a type expression of depth at most d.
func (g *gen) typ(d int) string {
	if d <= 0 {
		return g.leafType()
	}
	switch g.pick(16) {
	case 0, 1, 2:
		return g.leafType()
	case 3:
		return "*" + g.typ(d-1)
	case 4:
		return "[]" + g.typ(d-1)
	case 5:
		return "[" + g.constExpr(d-1) + "]" + g.typ(d-1)
	case 6:
		return "map[" + g.typ(d-1) + "]" + g.typ(d-1)
	case 7:
		return g.chanType(d)
	case 8:
		return "func" + g.signature(d-1)
	case 9:
		return g.structType(d - 1)
	case 10:
		return g.interfaceType(d - 1)
	case 11, 12:
		return g.instance(d - 1)
	case 13:
		return "(" + g.typ(d-1) + ")"
	case 14:
		return "*" + g.of(namedTypes...)
	default:
		return "[]" + g.leafType()
	}
}

func (g *gen) chanType(d int) string {
	switch g.pick(9) {
	case 7:
		return "<-chan <-chan " + g.typ(d-1)
	case 8:
		return "<-chan chan " + g.typ(d-1)
	case 0:
		return "chan " + g.typ(d-1)
	case 1:
		return "<-chan " + g.typ(d-1)
	case 2:
		return "chan<- " + g.typ(d-1)
	case 3:
		return "chan (<-chan " + g.typ(d-1) + ")"
	case 4:
		return "chan<- chan " + g.typ(d-1)
	case 5:
		return "<-chan chan<- " + g.typ(d-1)
	default:
		return "chan<- <-chan " + g.typ(d-1)
	}
}

// instance generates a generic instantiation (or a plain named type when instantiations are off).
func (g *gen) instance(d int) string {
	if !g.opt.TypeParams && !g.opt.IndexList && g.pct(50) {
		return g.of(namedTypes...)
	}
	if g.opt.IndexList && g.pct(45) {
		s := g.of(generic2Names...) + "[" + g.typ(d) + ", " + g.typ(d)
		if g.pct(20) {
			s += ", " + g.typ(d)
		}
		return s + "]"
	}
	return g.of(genericNames...) + "[" + g.typ(d) + "]"
}

func (g *gen) names(prefix string, max int) string {
	n := 1 + g.pick(max)
	var xs []string
	for i := 0; i < n; i++ {
		if g.pct(8) {
			xs = append(xs, "_")
		} else {
			xs = append(xs, g.fresh(prefix))
		}
	}
	return strings.Join(xs, ", ")
}

// signature generates "(params) results".
func (g *gen) signature(d int) string {
	var b strings.Builder
	b.WriteString("(")
	n := g.pick(4)
	named := g.pct(55)
	for i := 0; i < n; i++ {
		if i > 0 {
			b.WriteString(", ")
		}
		if named {
			b.WriteString(g.names("p", 2) + " ")
		}
		if i == n-1 && g.pct(30) {
			b.WriteString("...")
		}
		b.WriteString(g.typ(d))
	}
	b.WriteString(")")
	switch g.pick(6) {
	case 0, 1:
	case 2:
		b.WriteString(" " + g.typ(d))
	case 3:
		b.WriteString(" (" + g.typ(d) + ", error)")
	case 4:
		b.WriteString(" (" + g.fresh("r") + " " + g.typ(d) + ", err error)")
	default:
		b.WriteString(" (" + g.names("r", 2) + " " + g.typ(d) + ")")
	}
	return b.String()
}

var tags = []string{"`json:\"a\"`", "`json:\"b,omitempty\" xml:\"b\"`", "\"k:\\\"v\\\"\"", "``", "`x`", "\"\""}

func (g *gen) structType(d int) string {
	n := g.pick(5)
	if n == 0 {
		return g.of("struct{}", "struct {\n}")
	}
	sep := g.of("\n", "\n", "; ")
	var fs []string
	for i := 0; i < n; i++ {
		var f string
		switch g.pick(9) {
		case 0:
			f = g.of("A", "Node", "io.Reader", "sync.Mutex", "pkg.T")
		case 1:
			f = "*" + g.of("A", "Node", "sync.Mutex", "pkg.T")
		case 2:
			if g.opt.TypeParams || g.opt.IndexList {
				f = g.instance(d)
				if g.pct(30) {
					f = "*" + f
				}
			} else {
				f = g.of("B", "fmt.Stringer")
			}
		case 3:
			f = "_ " + g.typ(d)
		default:
			f = g.names("f", 3) + " " + g.typ(d)
		}
		if g.pct(35) {
			f += " " + g.of(tags...)
		}
		fs = append(fs, f)
	}
	if sep == "; " {
		return "struct{ " + strings.Join(fs, sep) + " }"
	}
	return "struct {\n" + strings.Join(fs, sep) + "\n}"
}

func (g *gen) unionTerm() string {
	t := g.of("int", "string", "float64", "int8", "uint", "A", "[]byte", "pkg.T", "map[string]int", "*A")
	if g.pct(50) {
		t = "~" + t
	}
	return t
}

func (g *gen) union() string {
	n := 1 + g.pick(4)
	var xs []string
	for i := 0; i < n; i++ {
		xs = append(xs, g.unionTerm())
	}
	return strings.Join(xs, " | ")
}

func (g *gen) interfaceType(d int) string {
	n := g.pick(5)
	if n == 0 {
		return g.of("interface{}", "interface {\n}")
	}
	sep := g.of("\n", "\n", "; ")
	var ms []string
	for i := 0; i < n; i++ {
		switch g.pick(8) {
		case 0:
			ms = append(ms, g.of("io.Reader", "fmt.Stringer", "error", "comparable", "A"))
		case 1:
			ms = append(ms, g.union())
		case 2:
			if g.opt.TypeParams || g.opt.IndexList {
				ms = append(ms, g.instance(d))
			} else {
				ms = append(ms, "io.Writer")
			}
		case 3:
			ms = append(ms, "interface{ "+g.union()+" }")
		default:
			ms = append(ms, g.of("M", "Get", "set", "String", "Len")+g.fresh("")+g.signature(d))
		}
	}
	if sep == "; " {
		return "interface{ " + strings.Join(ms, sep) + " }"
	}
	return "interface {\n" + strings.Join(ms, sep) + "\n}"
}

var intLits = []string{"0", "1", "7", "42", "0x1F", "0b101", "0o17", "1_000", "017"}
var otherLits = []string{"1.5", ".5", "1e3", "0x1p-2", "2i", "1.5i", "'a'", `'\n'`, `'\x41'`, `'世'`, `"s"`, `"a\tb"`, "`raw`", "`a\nb`", `""`, `"é世"`}
var binOps = []string{"+", "-", "*", "/", "%", "&", "|", "^", "<<", ">>", "&^", "&&", "||", "==", "!=", "<", "<=", ">", ">="}
var unOps = []string{"-", "+", "!", "^", "&", "<-", "*"}
var valueNames = []string{"x", "y", "iota", "nil", "true", "pkg.V", "math.MaxInt8", "a.b.c", "len", "s"}

// constExpr generates a constant-looking integer expression (array lengths, iota blocks).
func (g *gen) constExpr(d int) string {
	if d <= 0 || g.pct(45) {
		return g.of(append(intLits, "N", "iota", "pkg.N", "len(s)")...)
	}
	switch g.pick(5) {
	case 0:
		return "(" + g.constExpr(d-1) + ")"
	case 1:
		return g.of("-", "+", "^") + g.constExpr(d-1)
	case 2:
		return "1 << " + g.constExpr(d-1)
	case 3:
		return "unsafe.Sizeof(" + g.expr(d-1) + ")"
	default:
		return g.constExpr(d-1) + " " + g.of("+", "-", "*", "/", "%", "<<", "&", "|") + " " + g.constExpr(d-1)
	}
}

func (g *gen) exprList(d, min, max int) string {
	n := min + g.pick(max-min+1)
	var xs []string
	for i := 0; i < n; i++ {
		xs = append(xs, g.expr(d))
	}
	return strings.Join(xs, ", ")
}

// litType is a type usable in front of a composite literal.
func (g *gen) litType(d int) string {
	switch g.pick(9) {
	case 0:
		return "[]" + g.typ(d)
	case 1:
		return "[...]" + g.typ(d)
	case 2:
		return "[" + g.constExpr(0) + "]" + g.typ(d)
	case 3:
		return "map[" + g.typ(d) + "]" + g.typ(d)
	case 4:
		return g.structType(d)
	case 5:
		return g.instance(d)
	default:
		return g.of("A", "Node", "pkg.T", "image.Point")
	}
}

func (g *gen) elts(d int) string {
	n := g.pick(4)
	var xs []string
	keyed := g.pct(40)
	for i := 0; i < n; i++ {
		var e string
		if g.pct(15) {
			e = "{" + g.exprList(d, 0, 2) + "}"
		} else {
			e = g.expr(d)
		}
		if keyed {
			e = g.of("A", "k", `"k"`, "1", "pkg.K", "2 + 3") + ": " + e
		}
		xs = append(xs, e)
	}
	s := strings.Join(xs, ", ")
	if n > 0 && g.pct(25) {
		return "\n" + strings.ReplaceAll(s, ", ", ",\n") + ",\n"
	}
	return s
}

// expr generates a value expression of depth at most d.
func (g *gen) expr(d int) string {
	if d <= 0 {
		switch g.pick(3) {
		case 0:
			return g.of(intLits...)
		case 1:
			return g.of(otherLits...)
		default:
			return g.of(valueNames...)
		}
	}
	switch g.pick(24) {
	case 22, 23:
		// a type in expression context (argument of make/new/a call, conversion operand): the parser
		// reads it through parseUnaryExpr/parsePrimaryExpr, not parseType; channel types of every
		// direction and nesting are drawn more often here (`<-chan <-chan T` re-associates arrows)
		t := g.typ(d - 1)
		if g.pct(60) {
			t = g.chanType(d)
		}
		switch g.pick(6) {
		case 0:
			return "make(" + t + ")"
		case 1:
			return "make(" + t + ", " + g.expr(d-1) + ")"
		case 2:
			return "new(" + t + ")"
		case 3:
			return "(" + t + ")(" + g.expr(d-1) + ")"
		case 4:
			return g.of("f", "pkg.F") + "(" + t + ", " + g.expr(d-1) + ")"
		default:
			return "[]" + t + "{}"
		}
	case 0:
		return g.of(intLits...)
	case 1:
		return g.of(otherLits...)
	case 2:
		return g.of(valueNames...)
	case 3, 4:
		return g.expr(d-1) + " " + g.of(binOps...) + " " + g.expr(d-1)
	case 5:
		return g.of(unOps...) + g.operand(d-1)
	case 6:
		return "(" + g.expr(d-1) + ")"
	case 7:
		s := g.of("f", "len", "pkg.F", "x.m", "new", "make") + "(" + g.exprList(d-1, 0, 3)
		if g.pct(20) { // variadic spread: the last argument is an operand (a number would swallow a dot)
			if !strings.HasSuffix(s, "(") {
				s += ", "
			}
			s += g.of("xs", "s", "pkg.V", "f()", "[]int{1}") + "..."
		}
		return s + ")"
	case 8:
		return g.of("int", "string", "A", "pkg.T", "[]byte", "(*A)", "(func())", "float64") + "(" + g.expr(d-1) + ")"
	case 9, 10:
		return g.litType(d-1) + "{" + g.elts(d-1) + "}"
	case 11:
		return "&" + g.of("A", "Node", "pkg.T") + "{" + g.elts(d-1) + "}"
	case 12:
		body := g.of("{}", "{ return }", "{ x := 1; _ = x }", "{\n\tfor i := 0; i < 3; i++ {\n\t}\n}", "{ return func() {} }")
		return "func" + g.signature(d-1) + " " + body
	case 13:
		return g.operand(d-1) + "." + g.of("f", "Field", "m")
	case 14:
		return g.operand(d-1) + "[" + g.expr(d-1) + "]"
	case 15:
		o := g.operand(d - 1)
		switch g.pick(6) {
		case 0:
			return o + "[:]"
		case 1:
			return o + "[" + g.expr(d-1) + ":]"
		case 2:
			return o + "[:" + g.expr(d-1) + "]"
		case 3:
			return o + "[" + g.expr(d-1) + ":" + g.expr(d-1) + "]"
		case 4:
			return o + "[:" + g.expr(d-1) + ":" + g.expr(d-1) + "]"
		default:
			return o + "[" + g.expr(d-1) + ":" + g.expr(d-1) + ":" + g.expr(d-1) + "]"
		}
	case 16:
		return g.operand(d-1) + ".(" + g.typ(d-1) + ")"
	case 17:
		if g.opt.IndexList && g.pct(50) {
			return g.of("g", "pkg.G") + "[" + g.typ(d-1) + ", " + g.typ(d-1) + "](" + g.exprList(d-1, 0, 2) + ")"
		}
		if g.opt.TypeParams || g.opt.IndexList {
			return g.of("g", "pkg.G") + "[" + g.typ(d-1) + "](" + g.exprList(d-1, 0, 2) + ")"
		}
		return "g(" + g.exprList(d-1, 0, 2) + ")"
	case 18:
		return "*" + g.operand(d-1)
	case 19:
		return "<-" + g.operand(d-1)
	case 20:
		return "map[string]" + g.typ(d-1) + "{" + `"k": ` + g.expr(d-1) + "}"
	default:
		return g.operand(d-1) + "." + g.of("M", "pkg") + "(" + g.exprList(d-1, 0, 2) + ")"
	}
}

// operand generates a primary-expression-safe operand.
func (g *gen) operand(d int) string {
	if d <= 0 || g.pct(50) {
		return g.of("x", "y", "s", "pkg.V", "a.b", "f()", "m[k]")
	}
	return "(" + g.expr(d) + ")"
}

// ---- declarations --------------------------------------------------------------------------

var imports = []string{`"fmt"`, `"io"`, `"sync"`, `"time"`, `"unsafe"`, `"math"`, `pkg "example.com/x/pkg"`, `. "strings"`, `_ "embed"`, `image "image"`, "`os`"}

func (g *gen) importDecl() string {
	if g.pct(40) {
		return "import " + g.of(imports...)
	}
	n := g.pick(4)
	var xs []string
	for i := 0; i < n; i++ {
		xs = append(xs, "\t"+g.of(imports...))
	}
	if n == 0 {
		return "import ()"
	}
	return "import (\n" + strings.Join(xs, "\n") + "\n)"
}

func (g *gen) constDecl() string {
	switch g.pick(4) {
	case 0:
		return "const " + g.fresh("C") + " = " + g.constExpr(2)
	case 1:
		return "const " + g.fresh("C") + " " + g.of("int", "uint8", "A", "time.Duration", "float64") + " = " + g.expr(2)
	case 2:
		return "const " + g.fresh("C") + ", " + g.fresh("C") + " = " + g.expr(1) + ", " + g.expr(1)
	}
	// iota block
	n := 1 + g.pick(5)
	var b strings.Builder
	b.WriteString("const (\n")
	for i := 0; i < n; i++ {
		switch {
		case i == 0 || g.pct(30):
			b.WriteString("\t" + g.fresh("K"))
			if g.pct(40) {
				b.WriteString(" " + g.of("A", "int", "uint32", "pkg.T"))
			}
			b.WriteString(" = " + g.of("iota", "1 << iota", "iota + 1", "iota * "+g.constExpr(1), g.constExpr(2), g.expr(1)) + "\n")
		case g.pct(20):
			b.WriteString("\t_\n")
		case g.pct(20):
			b.WriteString("\t" + g.fresh("K") + ", " + g.fresh("K") + " = iota, -iota\n")
		default:
			b.WriteString("\t" + g.fresh("K") + "\n")
		}
	}
	b.WriteString(")")
	return b.String()
}

func (g *gen) varSpec() string {
	switch g.pick(6) {
	case 0:
		return g.fresh("v") + " " + g.typ(3)
	case 1:
		return g.fresh("v") + " = " + g.expr(3)
	case 2:
		return g.fresh("v") + " " + g.typ(2) + " = " + g.expr(2)
	case 3:
		return g.fresh("v") + ", " + g.fresh("v") + " " + g.typ(2)
	case 4:
		return g.fresh("v") + ", " + g.of("_", g.fresh("v")) + " = " + g.expr(2) + ", " + g.expr(2)
	default:
		return g.fresh("v") + ", " + g.fresh("v") + " " + g.typ(1) + " = " + g.expr(1) + ", " + g.expr(1)
	}
}

func (g *gen) varDecl() string {
	if g.pct(60) {
		return "var " + g.varSpec()
	}
	n := g.pick(4)
	if n == 0 {
		return "var ()"
	}
	var xs []string
	for i := 0; i < n; i++ {
		xs = append(xs, "\t"+g.varSpec())
	}
	return "var (\n" + strings.Join(xs, "\n") + "\n)"
}

// constraint generates a type constraint.
func (g *gen) constraint() string {
	switch g.pick(8) {
	case 0, 1:
		return "any"
	case 2:
		return "comparable"
	case 3:
		return g.union()
	case 4:
		return "interface{ " + g.union() + " }"
	case 5:
		return g.of("fmt.Stringer", "io.Reader", "constraints.Ordered", "A")
	case 6:
		return "interface{ " + g.union() + "; String() string }"
	default:
		if len(g.tps) > 0 {
			return "~[]" + g.of(g.tps...)
		}
		return "~[]byte"
	}
}

// typeParams generates "[T any, K comparable]" and puts the names in scope.
func (g *gen) typeParams() string {
	n := 1 + g.pick(3)
	var xs []string
	g.tps = nil
	for i := 0; i < n; i++ {
		name := g.of("T", "K", "V", "E", "S") + g.fresh("")
		if g.pct(25) {
			name2 := g.of("T", "U") + g.fresh("")
			c := g.constraint()
			g.tps = append(g.tps, name, name2)
			xs = append(xs, name+", "+name2+" "+c)
			continue
		}
		c := g.constraint()
		g.tps = append(g.tps, name)
		xs = append(xs, name+" "+c)
	}
	return "[" + strings.Join(xs, ", ") + "]"
}

func (g *gen) typeSpec() string {
	name := g.of("A", "B", "Node", "T", "List", "Pair") + g.fresh("")
	defer func() { g.tps = nil }()
	tp := ""
	if g.opt.TypeParams && g.pct(45) {
		tp = g.typeParams()
	}
	assign := " "
	if g.pct(20) {
		assign = " = "
	}
	var t string
	switch g.pick(6) {
	case 0, 1:
		t = g.structType(2)
	case 2:
		t = g.interfaceType(2)
	default:
		t = g.typ(3)
	}
	return name + tp + assign + t
}

func (g *gen) typeDecl() string {
	if g.pct(65) {
		return "type " + g.typeSpec()
	}
	n := g.pick(4)
	if n == 0 {
		return "type ()"
	}
	var xs []string
	for i := 0; i < n; i++ {
		xs = append(xs, "\t"+g.typeSpec())
	}
	return "type (\n" + strings.Join(xs, "\n") + "\n)"
}

var bodies = []string{"{}", "{\n}", "{\n\treturn\n}", "{\n\tx := []int{1, 2}\n\t_ = x\n\tpanic(\"x\")\n}",
	"{\n\ttype local[T any] struct{ v T }\n\tvar f = func(a int) int { return a }\n\t_ = f\n}",
	"{\n\tfor i := range 3 {\n\t\t_ = i\n\t}\n\tselect {}\n}"}

func (g *gen) funcDecl() string {
	defer func() { g.tps = nil }()
	var b strings.Builder
	b.WriteString("func ")
	method := g.pct(45)
	if method {
		base := g.of("A", "Node", "List", "T")
		recvT := base
		if g.opt.TypeParams && g.pct(40) {
			// generic receiver: names are binders, not constraints
			n := 1 + g.pick(2)
			if !g.opt.IndexList {
				n = 1
			}
			var ps []string
			for i := 0; i < n; i++ {
				p := g.of("T", "K", "_") // "_" is allowed as a receiver type parameter
				if p != "_" {
					p += g.fresh("")
					g.tps = append(g.tps, p)
				}
				ps = append(ps, p)
			}
			recvT = base + "[" + strings.Join(ps, ", ") + "]"
		}
		if g.pct(50) {
			recvT = "*" + recvT
		}
		switch g.pick(4) {
		case 0:
			b.WriteString("(" + recvT + ") ")
		case 1:
			b.WriteString("(_ " + recvT + ") ")
		default:
			b.WriteString("(" + g.of("r", "p", "self") + " " + recvT + ") ")
		}
	}
	b.WriteString(g.of("F", "f", "New", "String", "init", "M") + g.fresh(""))
	if !method && g.opt.TypeParams && g.pct(50) {
		b.WriteString(g.typeParams())
	}
	b.WriteString(g.signature(2))
	if !g.pct(6) { // a few external (body-less) declarations
		b.WriteString(" " + g.of(bodies...))
	}
	return b.String()
}

// File generates one Go source file.
func File(opt Options) *rapid.Generator[string] {
	return rapid.Custom(func(t *rapid.T) string {
		g := &gen{t: t, opt: opt}
		var b strings.Builder
		b.WriteString("package " + g.of("p", "main", "pkg_test") + "\n\n")
		if g.pct(60) {
			b.WriteString(g.importDecl() + "\n\n")
		}
		n := 1 + g.pick(8)
		for i := 0; i < n; i++ {
			var d string
			switch g.pick(10) {
			case 0, 1:
				d = g.constDecl()
			case 2, 3:
				d = g.varDecl()
			case 4, 5, 6:
				d = g.typeDecl()
			default:
				d = g.funcDecl()
			}
			b.WriteString(d)
			if g.pct(10) {
				b.WriteString(";")
			}
			b.WriteString(g.of("\n", "\n\n"))
		}
		return b.String()
	})
}

// Expr generates one Go value expression (no statement context needed).
func Expr(opt Options, depth int) *rapid.Generator[string] {
	return rapid.Custom(func(t *rapid.T) string {
		g := &gen{t: t, opt: opt}
		return g.expr(depth)
	})
}

// Type generates one Go type expression.
func Type(opt Options, depth int) *rapid.Generator[string] {
	return rapid.Custom(func(t *rapid.T) string {
		g := &gen{t: t, opt: opt}
		return g.typ(depth)
	})
}

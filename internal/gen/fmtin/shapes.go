package fmtin

import (
	goast "go/ast"
	gotoken "go/token"

	"github.com/goplus/xgo/ast"
	"github.com/goplus/xgo/token"

	"verif/internal/astx"
)

// Shapes returns, in a fixed priority order, the names of the listed-finding shapes a source
// shows. Every predicate over-approximates the trigger of one root cause of a formatter defect
// found on the unchanged tree (known_findings: C19/C20/C21); checks append the first name to
// the verdict class, so a listed finding never hides a failure of a source without its shape.
func Shapes(f *ast.File, fset *gotoken.FileSet, src []byte) []string {
	var out []string
	add := func(ok bool, name string) {
		if ok {
			out = append(out, name)
		}
	}
	toks := Tokens(src)
	sharp, bareSharp, commentCstr := false, false, false
	for i, t := range toks {
		if t.Tok == token.COMMENT && len(t.Lit) > 0 && t.Lit[0] == '#' {
			sharp = true
			if len(t.Lit) == 1 {
				bareSharp = true
			}
		}
		if t.Tok == token.CSTRING || t.Tok == token.PYSTRING {
			for j := i - 1; j >= 0; j-- {
				if toks[j].Auto {
					continue
				}
				if toks[j].Tok == token.COMMENT {
					commentCstr = true
				}
				break
			}
		}
	}
	var braceInHeader, ellipsisInHeader, emptyCmd, branchIdent, guardInParen, classTag, cmdNextLine, onelineLambda bool
	line := func(p gotoken.Pos) int { return fset.Position(p).Line }
	header := func(n goast.Node) {
		if n == nil {
			return
		}
		astx.Walk(n, astx.Options{}, func(x, _ goast.Node, _ string) bool {
			switch v := x.(type) {
			case *ast.LambdaExpr2:
				braceInHeader = true
			case *ast.ComprehensionExpr:
				if v.Tok == token.LBRACE {
					braceInHeader = true
				}
			case *ast.CompositeLit:
				if v.Type == nil {
					braceInHeader = true
				}
			case *ast.ElemEllipsis:
				ellipsisInHeader = true
			case *ast.BlockStmt:
				return false // a block inside the header (function literal body) is not header text
			}
			return true
		})
	}
	hdrExpr := func(e ast.Expr) {
		if e != nil {
			header(e)
		}
	}
	hdrStmt := func(s ast.Stmt) {
		if s != nil {
			header(s)
		}
	}
	astx.Walk(f, astx.Options{}, func(n, _ goast.Node, _ string) bool {
		switch v := n.(type) {
		case *ast.IfStmt:
			hdrStmt(v.Init)
			hdrExpr(v.Cond)
		case *ast.ForStmt:
			hdrStmt(v.Init)
			hdrExpr(v.Cond)
			hdrStmt(v.Post)
		case *ast.SwitchStmt:
			hdrStmt(v.Init)
			hdrExpr(v.Tag)
			if p, ok := v.Tag.(*ast.ParenExpr); ok {
				astx.Walk(p, astx.Options{}, func(x, _ goast.Node, _ string) bool {
					if ta, ok := x.(*ast.TypeAssertExpr); ok && ta.Type == nil {
						guardInParen = true
					}
					return true
				})
			}
		case *ast.TypeSwitchStmt:
			hdrStmt(v.Init)
			hdrStmt(v.Assign)
		case *ast.RangeStmt:
			hdrExpr(v.X)
		case *ast.ForPhraseStmt:
			if v.ForPhrase != nil {
				hdrExpr(v.X)
				hdrStmt(v.Init)
				hdrExpr(v.Cond)
			}
		case *ast.CaseClause:
			for _, e := range v.List {
				hdrExpr(e)
			}
		case *ast.CommClause:
			hdrStmt(v.Comm)
		case *ast.CallExpr:
			if v.IsCommand() && len(v.Args) == 0 {
				emptyCmd = true
			}
			if v.IsCommand() && len(v.Args) > 0 && line(v.Args[0].Pos()) > line(v.Fun.End()) {
				cmdNextLine = true
			}
		case *ast.LambdaExpr2:
			if v.Body != nil && len(v.Body.List) > 0 && line(v.Body.Lbrace) == line(v.Body.Rbrace) {
				onelineLambda = true
			}
		case *ast.ExprStmt:
			if id, ok := v.X.(*ast.Ident); ok {
				switch id.Name {
				case "break", "continue", "goto", "fallthrough":
					branchIdent = true
				}
			}
		case *ast.ValueSpec:
			if v.Tag != nil {
				classTag = true
			}
		}
		return true
	})
	add(bareSharp, "bare-sharp-comment")
	add(sharp, "sharp-comment")
	add(commentCstr, "comment-before-cstring")
	add(ellipsisInHeader, "elem-ellipsis-in-header")
	add(braceInHeader, "brace-in-header")
	add(guardInParen, "type-guard-in-paren")
	add(emptyCmd, "empty-command-call")
	add(branchIdent, "branch-keyword-before-rbrace")
	add(classTag, "class-field-tag")
	add(cmdNextLine, "command-arg-on-next-line")
	add(onelineLambda, "oneline-lambda-block")
	return out
}

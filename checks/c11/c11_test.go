//go:build verif

// C11 — a normal .gox class file behaves like its explicit struct form.
package c11

import (
	"fmt"
	"go/ast"
	"go/parser"
	"go/printer"
	"go/token"
	"sort"
	"strings"
	"testing"

	"pgregory.net/rapid"

	"verif/internal/diffrun"
	"verif/internal/gen/xsugar"
	"verif/internal/vk"
)

func TestMain(m *testing.M) {
	vk.Main(m, "C11", "exploration",
		"generated classes Name.gox: a var block with int/string/[]string/[]int/map/struct/pointer/float fields, optionally an embedded struct and a struct tag, and 2-8 methods with parameters, variadics, one or two results, field reads and writes written bare or through `this` (drawn per occurrence), calls of other methods, `<-` append; plus main.xgo constructing, mutating and printing a pointer and a zero value. Reference: the same program with an explicit struct and pointer-receiver methods (receiver this). Oracle: equal stdout/exit/panic, and the generated Go declares type Name as a struct with exactly those fields (name, type, tag, order) and exactly those methods on *Name with receiver `this`. Non-trivial = >= 2 field kinds and a mutating method; distinct = class text")
}

type Case struct {
	Name    string              `json:"name"`
	XFiles  map[string]string   `json:"xfiles"`
	Go      string              `json:"go"`
	Fields  []xsugar.ClassField `json:"fields"`
	Methods []string            `json:"methods"`
}

func nodeText(fset *token.FileSet, n ast.Node) string {
	var b strings.Builder
	printer.Fprint(&b, fset, n)
	return b.String()
}

// shape checks the generated Go text structurally.
func shape(c Case, gotext string) *vk.Verdict {
	fset := token.NewFileSet()
	f, err := parser.ParseFile(fset, "out.go", gotext, 0)
	if err != nil {
		return vk.Bad("output-does-not-parse", "%v", err)
	}
	var st *ast.StructType
	methods := map[string]string{}
	for _, d := range f.Decls {
		switch d := d.(type) {
		case *ast.GenDecl:
			for _, s := range d.Specs {
				if ts, ok := s.(*ast.TypeSpec); ok && ts.Name.Name == c.Name {
					st, _ = ts.Type.(*ast.StructType)
				}
			}
		case *ast.FuncDecl:
			if d.Recv != nil && len(d.Recv.List) == 1 {
				rt := nodeText(fset, d.Recv.List[0].Type)
				if rt == "*"+c.Name || rt == c.Name {
					rn := ""
					if len(d.Recv.List[0].Names) == 1 {
						rn = d.Recv.List[0].Names[0].Name
					}
					methods[d.Name.Name] = rn + " " + rt
				}
			}
		}
	}
	if st == nil {
		return vk.Bad("class-type-missing", "generated Go has no struct type %s", c.Name)
	}
	var got []string
	for _, fl := range st.Fields.List {
		typ := nodeText(fset, fl.Type)
		tag := ""
		if fl.Tag != nil {
			tag = fl.Tag.Value
		}
		if len(fl.Names) == 0 {
			got = append(got, "embedded "+typ+" "+tag)
		}
		for _, n := range fl.Names {
			got = append(got, n.Name+" "+typ+" "+tag)
		}
	}
	var want []string
	for _, fl := range c.Fields {
		if fl.Embedded {
			want = append(want, "embedded "+fl.Type+" "+fl.Tag)
		} else {
			want = append(want, fl.Name+" "+fl.Type+" "+fl.Tag)
		}
	}
	if strings.Join(got, "|") != strings.Join(want, "|") {
		return vk.Bad("class-fields", "struct %s has fields %v, class declares %v", c.Name, got, want)
	}
	var gm []string
	for m, r := range methods {
		if r != "this *"+c.Name {
			return vk.Bad("class-receiver", "method %s has receiver %q, want \"this *%s\"", m, r, c.Name)
		}
		gm = append(gm, m)
	}
	sort.Strings(gm)
	wm := append([]string(nil), c.Methods...)
	sort.Strings(wm)
	if strings.Join(gm, ",") != strings.Join(wm, ",") {
		return vk.Bad("class-methods", "type %s has methods %v, class declares %v", c.Name, gm, wm)
	}
	return nil
}

func evalAll(cs []Case) ([]*vk.Verdict, []diffrun.Out, error) {
	var pairs []diffrun.Pair
	for _, c := range cs {
		pairs = append(pairs, diffrun.Pair{Ref: c.Go, XFiles: c.XFiles})
	}
	outs, err := diffrun.Eval(pairs)
	if err != nil {
		return nil, nil, err
	}
	vs := make([]*vk.Verdict, len(cs))
	for i, o := range outs {
		vs[i] = o.V
		if o.V == nil {
			vs[i] = shape(cs[i], o.GoText)
		}
	}
	return vs, outs, nil
}

var oracle = vk.Register("class", func(c Case) *vk.Verdict {
	vs, _, err := evalAll([]Case{c})
	if err != nil {
		return vk.Bad("infra", "%v", err)
	}
	return vs[0]
})

func TestClasses(t *testing.T) {
	r := vk.R
	n := r.N(30, 800)
	gen := rapid.Custom(func(t *rapid.T) *xsugar.ClassCase {
		return xsugar.ClassProgram(&xsugar.G{T: t, Flags: map[string]bool{}})
	})
	const batch = 40
	failed := false
	for start := 0; start < n && !failed; start += batch {
		var cs []Case
		var ccs []*xsugar.ClassCase
		for i := start; i < start+batch && i < n; i++ {
			cc := vk.Example(r, gen, 1, i)
			ccs = append(ccs, cc)
			cs = append(cs, Case{Name: cc.Name, XFiles: cc.XFiles, Go: cc.Go, Fields: cc.Fields, Methods: cc.Methods})
		}
		vs, _, err := evalAll(cs)
		if err != nil {
			r.Infra("%v", err)
			t.Fatalf("infra: %v", err)
		}
		for i, v := range vs {
			cc := ccs[i]
			kinds := map[string]bool{}
			for _, l := range cc.Labels {
				r.Class(l)
				if strings.HasPrefix(l, "field=") {
					kinds[l] = true
				}
			}
			r.Case(len(kinds) >= 2 && cc.Mutates, cc.XFiles[cc.Name+".gox"]+cc.XFiles["main.xgo"])
			if i == 0 {
				r.Sample(cc.XFiles)
			}
			if v != nil && v.Class == "generator-bug" {
				r.Infra("generator bug: %s\n%s", v.Detail, cc.Go)
				t.Errorf("generator bug: %s", v.Detail)
				continue
			}
			if v = r.Judge(v); v != nil {
				failed = true
				r.Fail("class", cs[i], v)
				t.Errorf("%s", v)
			}
		}
	}
	_ = fmt.Sprint
}

//go:build verif

// C31 — TPL grammar text parses with the documented operator precedence
// (unary * + ? > ++ > % > sequence > |, parentheses override), and a missing factor is an error.
package c31

import (
	"fmt"
	"strings"
	"testing"

	"github.com/goplus/xgo/tpl/ast"
	"github.com/goplus/xgo/tpl/parser"
	"github.com/goplus/xgo/tpl/token"
	"pgregory.net/rapid"

	"verif/internal/gen/tplgen"
	"verif/internal/vk"
)

func TestMain(m *testing.M) {
	vk.Main(m, "C31", "exploration",
		"random tpl/ast trees (Ident, CHAR/STRING/raw literals whose bodies look like TPL syntax, Sequence and Choice of 2..4, unary * + ?, binary % and ++, depth <= 4) printed with the minimal parentheses the documented order unary > ++ > % > sequence > | requires (left-associative % and ++), optionally with redundant parentheses, in canonical / tight / noisy layout (blanks, tabs, block comments, and newlines or line comments only where the scanner inserts no semicolon), 1..3 rules per text, optional `=> {…}` block; oracle: tpl/parser.ParseFile returns no error and, per rule, the same name and the same tree (position-free S-expression). Missing-factor texts: one factor removed from a well-formed expression such that a reference recogniser of the documented syntax rejects the rest (removals that leave a valid expression are counted under rejected), plus the fixed forms of the design; oracle: error non-nil (a nil error with an empty Sequence or nil operand in the tree is class empty-rule-no-error). Non-trivial = a tree mixing >= 3 precedence levels; distinct = hash of the expected trees (precedence cases) or of the token list (missing-factor cases)")
}

type Case struct {
	Src       vk.Bytes `json:"src"`
	Want      []string `json:"want,omitempty"` // per rule "name = <S-expression>" (well-formed cases)
	Malformed bool     `json:"malformed,omitempty"`
}

// hollow reports an empty Sequence/Choice or a nil operand: the shapes the parser leaves behind
// where a factor is missing.
func hollow(e ast.Expr) (found string) {
	if e == nil {
		return "nil expression"
	}
	tplgen.Walk(e, func(x ast.Expr) {
		switch x := x.(type) {
		case *ast.Sequence:
			if len(x.Items) == 0 {
				found = "empty Sequence"
			}
			for _, it := range x.Items {
				if it == nil {
					found = "nil Sequence item"
				}
			}
		case *ast.Choice:
			if len(x.Options) == 0 {
				found = "empty Choice"
			}
			for _, it := range x.Options {
				if it == nil {
					found = "nil Choice option"
				}
			}
		case *ast.UnaryExpr:
			if x.X == nil {
				found = "unary operator without operand"
			}
		case *ast.BinaryExpr:
			if x.X == nil || x.Y == nil {
				found = "binary operator without operand"
			}
		}
	})
	return
}

func render(f *ast.File) []string {
	var out []string
	if f == nil {
		return nil
	}
	for _, d := range f.Decls {
		r, ok := d.(*ast.Rule)
		if !ok || r == nil || r.Name == nil {
			out = append(out, fmt.Sprintf("<%T>", d))
			continue
		}
		out = append(out, r.Name.Name+" = "+tplgen.Sexpr(r.Expr))
	}
	return out
}

func check(c Case) *vk.Verdict {
	fset := token.NewFileSet()
	f, err := parser.ParseFile(fset, "g.tpl", []byte(c.Src), nil)
	if c.Malformed {
		if err != nil {
			return nil
		}
		if f != nil {
			for _, d := range f.Decls {
				if r, ok := d.(*ast.Rule); ok {
					if h := hollow(r.Expr); h != "" {
						return vk.Bad("empty-rule-no-error", "no error reported, rule %s returned with %s: %v", r.Name.Name, h, render(f))
					}
				}
			}
		}
		return vk.Bad("missing-factor-accepted", "no error reported for a text with a missing factor; parsed as %v", render(f))
	}
	if err != nil {
		return vk.Bad("parse-error", "well-formed grammar text rejected: %v", err)
	}
	got := render(f)
	if len(got) != len(c.Want) {
		return vk.Bad("rule-count", "want %d rules, got %d: %v", len(c.Want), len(got), got)
	}
	for i := range got {
		if got[i] != c.Want[i] {
			return vk.Bad("tree-mismatch", "rule %d:\n want %s\n got  %s", i, c.Want[i], got[i])
		}
	}
	return nil
}

var oracle = vk.Register("parse", check)

type failer interface {
	Fatalf(string, ...any)
	Helper()
}

var exprCfg = tplgen.ExprConfig{Idents: tplgen.DefaultIdents, Lits: rapid.SampledFrom(tplgen.SyntaxLits), MaxDepth: 4}

var bodies = []string{"{ return self }", "{\n\treturn self[0]\n}", "{}", "{ s := \"}\"; return s }", "{ /* } */ return 1 }"}
var styleName = []string{"canonical", "tight", "noisy"}

func bucket(n int) string {
	switch {
	case n == 0:
		return "0"
	case n <= 2:
		return "1-2"
	case n <= 5:
		return "3-5"
	}
	return "6+"
}

// drawRule draws one well-formed rule: tokens `name = expr [=> body]` (no terminator) and the tree.
func drawRule(t *rapid.T, i int, extraP int) (toks []string, e ast.Expr, name string) {
	name = rapid.SampledFrom([]string{"a", "expr", "r2", "é", "_", "INT"}).Draw(t, "rule")
	depth := rapid.SampledFrom([]int{0, 1, 2, 3, 3, 4, 4, 4}).Draw(t, "depth")
	if rapid.IntRange(0, 5).Draw(t, "anyroot") == 0 {
		e = tplgen.DrawExpr(t, exprCfg, depth)
	} else {
		e = tplgen.DrawOp(t, exprCfg, depth)
	}
	var extra func() bool
	if extraP > 0 {
		extra = func() bool { return rapid.IntRange(0, extraP).Draw(t, "extra") == 0 }
	}
	toks = append([]string{name, "="}, tplgen.Tokens(e, extra)...)
	return
}

func opClasses(e ast.Expr) {
	seen := map[string]bool{}
	tplgen.Walk(e, func(x ast.Expr) {
		switch x := x.(type) {
		case *ast.Sequence:
			seen["node=seq"] = true
			for _, it := range x.Items {
				if _, ok := it.(*ast.Sequence); ok {
					seen["node=seq-in-seq"] = true
				}
			}
		case *ast.Choice:
			seen["node=alt"] = true
			for _, it := range x.Options {
				if _, ok := it.(*ast.Choice); ok {
					seen["node=alt-in-alt"] = true
				}
			}
		case *ast.UnaryExpr:
			seen["node=unary"+x.Op.String()] = true
			if _, ok := x.X.(*ast.UnaryExpr); ok {
				seen["node=unary-of-unary"] = true
			}
		case *ast.BinaryExpr:
			seen["node="+x.Op.String()] = true
			if y, ok := x.Y.(*ast.BinaryExpr); ok && y.Op == x.Op {
				seen["node=right-nested"+x.Op.String()] = true
			}
			if y, ok := x.X.(*ast.BinaryExpr); ok && y.Op == x.Op {
				seen["node=left-nested"+x.Op.String()] = true
			}
		}
	})
	for k := range seen {
		vk.R.Class(k)
	}
}

func TestPrecedence(t *testing.T) {
	vk.R.Rapid(t, 1, 30000, 1000000, func(t *rapid.T) {
		nrules := rapid.SampledFrom([]int{1, 1, 1, 2, 3}).Draw(t, "nrules")
		extraP := rapid.SampledFrom([]int{0, 0, 6, 3}).Draw(t, "extraP")
		style := rapid.IntRange(0, 2).Draw(t, "style")
		var toks, want []string
		levels, needed, redundant := 0, 0, 0
		for i := 0; i < nrules; i++ {
			rt, e, name := drawRule(t, i, extraP)
			if !tplgen.Recognize(rt[2:]) {
				t.Fatalf("harness: printed expression is not in the documented syntax: %q", rt)
			}
			toks = append(toks, rt...)
			if rapid.IntRange(0, 7).Draw(t, "ret") == 0 {
				toks = append(toks, "=>", rapid.SampledFrom(bodies).Draw(t, "body"))
			}
			last := i == nrules-1
			if !(last && rapid.Bool().Draw(t, "noeol")) {
				toks = append(toks, rapid.SampledFrom([]string{"\n", "\n\n", ";", ";\n", " ; ", "\r\n"}).Draw(t, "term"))
			}
			want = append(want, name+" = "+tplgen.Sexpr(e))
			if l := tplgen.Levels(e); l > levels {
				levels = l
			}
			np := tplgen.NeededParens(e)
			needed += np
			for _, x := range rt {
				if x == "(" {
					redundant++
				}
			}
			redundant -= np
			opClasses(e)
		}
		c := Case{Src: vk.Bytes(tplgen.Layout(t, toks, style)), Want: want}
		v := oracle(c)
		nt := levels >= 3
		vk.R.Case(nt, strings.Join(want, "\n"))
		vk.R.Class("kind=well-formed")
		vk.R.Class(fmt.Sprintf("levels=%d", levels))
		vk.R.Class("layout=" + styleName[style])
		vk.R.Class("parens-needed=" + bucket(needed))
		vk.R.Class("parens-redundant=" + bucket(redundant))
		vk.R.Class(fmt.Sprintf("rules=%d", nrules))
		if nt {
			vk.R.Sample(string(c.Src))
		}
		vk.R.Check(t, "parse", c, v)
	})
}

func tokClass(s string) string {
	switch {
	case s == "":
		return "end"
	case tplgen.IsAtom(s):
		return "atom"
	case strings.Trim(s, " \t\r\n;") == "":
		return "end"
	}
	return s
}

func TestMissingFactor(t *testing.T) {
	vk.R.Rapid(t, 2, 12000, 400000, func(t *rapid.T) {
		extraP := rapid.SampledFrom([]int{0, 0, 6}).Draw(t, "extraP")
		style := rapid.IntRange(0, 2).Draw(t, "style")
		var toks []string
		if rapid.IntRange(0, 3).Draw(t, "before") == 0 {
			rt, _, _ := drawRule(t, 0, 0)
			toks = append(append(toks, rt...), rapid.SampledFrom([]string{"\n", ";", ";\n"}).Draw(t, "term0"))
		}
		rt, e, _ := drawRule(t, 1, extraP)
		holed, ok := tplgen.DropFactor(t, rt[2:])
		if !ok {
			vk.R.Rejected("every-factor-removal-leaves-a-valid-expression")
			vk.R.Case(false, "")
			return
		}
		// context of the hole, for the evidence
		full := rt[2:]
		at := 0
		for at < len(holed) && holed[at] == full[at] {
			at++
		}
		prev, next := "=", ""
		if at > 0 {
			prev = full[at-1]
		}
		if at+1 < len(full) {
			next = full[at+1]
		}
		toks = append(append(toks, rt[:2]...), holed...)
		if rapid.IntRange(0, 2).Draw(t, "after") == 0 {
			// a following rule, separated by an explicit ';' (a newline after an operator is not a terminator)
			toks = append(toks, rapid.SampledFrom([]string{";", ";\n", " ; "}).Draw(t, "term1"))
			r2, _, _ := drawRule(t, 2, 0)
			toks = append(append(toks, r2...), "\n")
		} else if rapid.Bool().Draw(t, "eol") {
			toks = append(toks, rapid.SampledFrom([]string{"\n", ";", ";\n"}).Draw(t, "term1"))
		}
		c := Case{Src: vk.Bytes(tplgen.Layout(t, toks, style)), Malformed: true}
		v := oracle(c)
		nt := tplgen.Levels(e) >= 3
		vk.R.Case(nt, "M|"+strings.Join(toks, " "))
		vk.R.Class("kind=missing-factor")
		vk.R.Class("hole=" + tokClass(prev) + "_" + tokClass(next))
		vk.R.Class("layout=" + styleName[style])
		if nt {
			vk.R.Sample(string(c.Src))
		}
		vk.R.Check(t, "parse", c, v)
	})
}

var fixedMissing = []string{"a = ", "a = x |", "a = x %", "a = ( )", "a = *", "a = x ++", "a = | x", "a = x | | y", "a = x % % y", "a = ?", "a = +",
	"a = (x |) y", "a = x ++ ++ y", "a = * % x", "a = ()", "a = x (| y)", "a = x % (", "a = x ++ ?", "a = (x % ) | y", "a = x | * | y", "a = % x", "a = ++ x",
	"a = x | (y %) z", "a = ? ( )", "a =", "a = * * ( )", "a = x %\ty ++"}

func TestFixedForms(t *testing.T) {
	if vk.R.Shard != 0 {
		return
	}
	for _, src := range fixedMissing {
		for _, tail := range []string{"", "\n", ";", ";\n", "; b = y\n", " ;\nb = y | z", " => { return self }\n"} {
			c := Case{Src: vk.Bytes(src + tail), Malformed: true}
			v := oracle(c)
			vk.R.Case(false, "")
			vk.R.Class("kind=fixed-missing-factor")
			vk.R.Check(t, "parse", c, v)
		}
	}
	// the documented examples, well-formed: README operators in one line each
	for _, w := range []Case{
		{Src: vk.Bytes("a = *x ++ y % z w | v"), Want: []string{"a = (alt (seq (% (++ (* x) y) z) w) v)"}},
		{Src: vk.Bytes("a = x | y z % ?s ++ +t"), Want: []string{"a = (alt x (seq y (% z (++ (? s) (+ t)))))"}},
		{Src: vk.Bytes("a = (x | y) (z w) % (p % q) ++ (r ++ s)"), Want: []string{"a = (seq (alt x y) (% (seq z w) (++ (% p q) (++ r s))))"}},
		{Src: vk.Bytes("expr = operand % (\"*\" | \"/\") % (\"+\" | \"-\")"), Want: []string{"expr = (% (% operand (alt s:\"*\" s:\"/\")) (alt s:\"+\" s:\"-\"))"}},
		{Src: vk.Bytes("doc = IDENT ++ RAWSTRING | IDENT SPACE \"{\" \"}\""), Want: []string{"doc = (alt (++ IDENT RAWSTRING) (seq IDENT SPACE s:\"{\" s:\"}\"))"}},
	} {
		v := oracle(w)
		vk.R.Case(false, "")
		vk.R.Class("kind=fixed-well-formed")
		vk.R.Check(t, "parse", w, v)
	}
}

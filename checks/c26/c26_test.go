//go:build verif

// C26 — `xgo fmt` never loses a file at any crash point and keeps its permission bits.
// Fault enumeration: the command is run under ptrace (internal/crashfs) and killed at the entry
// of every file-system-mutating system call in turn.
package c26

import (
	"bytes"
	"fmt"
	"os"
	"os/exec"
	"path/filepath"
	"strings"
	"sync"
	"sync/atomic"
	"syscall"
	"testing"

	"pgregory.net/rapid"

	"verif/internal/crashfs"
	"verif/internal/gen/fmtin"
	"verif/internal/gen/gosub"
	"verif/internal/vk"
)

func TestMain(m *testing.M) {
	vk.Main(m, "C26", "fault_enumeration",
		"cases: one unformatted source file (valid XGo from fmtin/gosub with perturbed white space; kind .xgo, .gox class file or .go) with mode in {0644, 0600, 0755, 0664, 0444}, addressed as a.xgo, ./a.xgo, sub/a.xgo or by absolute path, formatted with `xgo fmt` or `xgo fmt --smart`, TMPDIR inside the working tree, outside it, or on another file system (/dev/shm, when present); the xgo binary is built from the working tree once per run. For every case the complete run is traced (every thread and child process) and its N file-system-mutating system calls below the tree and TMPDIR are listed; then for k = 1..N the run is repeated on a fresh copy and the whole process tree is killed with SIGKILL at the entry of call k (state after call k-1). Oracle: after every kill the path holds the complete original or the complete formatted content (the content the complete run produced); after the complete run the content is the formatted one and mode&0777 is the original mode. Complete over system-call boundaries for each generated case; no page-cache/fsync effects modelled. One evaluation = one (case, k) pair incl. the complete run; non-trivial = a run with >= 4 mutating calls that changes the content; distinct = (kind, spelling, mode, flag, TMPDIR placement, k, calls)")
}

type Case struct {
	Kind      string   `json:"kind"`     // .xgo | .gox | .go
	Content   vk.Bytes `json:"content"`  // unformatted source
	Mode      uint32   `json:"mode"`     // permission bits of the file
	Spelling  string   `json:"spelling"` // plain | dot | sub | abs
	Smart     bool     `json:"smart,omitempty"`
	TmpInside bool     `json:"tmp_inside,omitempty"`   // TMPDIR inside the working tree
	TmpOther  bool     `json:"tmp_other_fs,omitempty"` // TMPDIR on another file system (/dev/shm), as /tmp often is
}

// otherFS returns a directory on a file system different from the scratch directory, or "".
func otherFS() string {
	var a, b syscall.Stat_t
	if syscall.Stat("/dev/shm", &a) != nil || syscall.Stat(scratch(), &b) != nil || a.Dev == b.Dev {
		return ""
	}
	return "/dev/shm"
}

var (
	buildOnce sync.Once
	xgoBin    string
	buildErr  error
	caseSeq   atomic.Int64
)

func scratch() string {
	if d := os.Getenv("VK_SCRATCH"); d != "" {
		return d
	}
	d, _ := os.MkdirTemp("", "c26-")
	return d
}

// xgo builds cmd/xgo from the working tree once (cwd = /verif, the driver's GOFLAGS apply).
func xgo() (string, error) {
	buildOnce.Do(func() {
		xgoBin = filepath.Join(scratch(), "xgo-c26")
		cmd := exec.Command("go", "build", "-o", xgoBin, "github.com/goplus/xgo/cmd/xgo")
		cmd.Dir = vk.R.Root
		if out, err := cmd.CombinedOutput(); err != nil {
			buildErr = fmt.Errorf("go build cmd/xgo: %v\n%s", err, out)
		}
	})
	return xgoBin, buildErr
}

type world struct {
	base, tree, tmp string
	path            string // absolute path of the file
	arg             string // how the command names it
}

func setup(c Case) (*world, error) {
	w := &world{base: filepath.Join(scratch(), fmt.Sprintf("c26-w%d", caseSeq.Add(1)))}
	os.RemoveAll(w.base)
	w.tree = filepath.Join(w.base, "tree")
	w.tmp = filepath.Join(w.base, "tmp-outside")
	if c.TmpInside {
		w.tmp = filepath.Join(w.tree, "tmp")
	}
	if c.TmpOther {
		o := otherFS()
		if o == "" {
			return nil, errNoOtherFS
		}
		w.tmp = filepath.Join(o, fmt.Sprintf("c26-%d-%s", os.Getpid(), filepath.Base(w.base)))
	}
	name := "a" + c.Kind
	rel := name
	if c.Spelling == "sub" {
		rel = filepath.Join("sub", name)
	}
	w.path = filepath.Join(w.tree, rel)
	switch c.Spelling {
	case "plain", "sub":
		w.arg = rel
	case "dot":
		w.arg = "./" + rel
	case "abs":
		w.arg = w.path
	default:
		return nil, fmt.Errorf("unknown spelling %q", c.Spelling)
	}
	for _, d := range []string{filepath.Dir(w.path), w.tmp, filepath.Join(w.base, "home")} {
		if err := os.MkdirAll(d, 0o755); err != nil {
			return nil, err
		}
	}
	if err := os.WriteFile(w.path, c.Content, 0o644); err != nil {
		return nil, err
	}
	if err := os.Chmod(w.path, os.FileMode(c.Mode)); err != nil {
		return nil, err
	}
	return w, nil
}

func (w *world) cmd(c Case, bin string) crashfs.Cmd {
	argv := []string{bin, "fmt"}
	if c.Smart {
		argv = append(argv, "--smart")
	}
	argv = append(argv, w.arg)
	env := []string{"TMPDIR=" + w.tmp, "HOME=" + filepath.Join(w.base, "home")}
	for _, kv := range os.Environ() {
		if !strings.HasPrefix(kv, "TMPDIR=") && !strings.HasPrefix(kv, "HOME=") && !strings.HasPrefix(kv, "GOTMPDIR=") {
			env = append(env, kv)
		}
	}
	return crashfs.Cmd{Argv: argv, Dir: w.tree, Env: env, Roots: []string{w.tree, w.tmp}}
}

func (w *world) cleanup() {
	os.RemoveAll(w.base)
	if !strings.HasPrefix(w.tmp, w.base) {
		os.RemoveAll(w.tmp)
	}
}

var errNoOtherFS = fmt.Errorf("no second file system available")

type info struct {
	rejected string
	calls    []crashfs.Call
	points   int
	changed  bool
	states   map[string]int
	leftover int
}

func callNames(cs []crashfs.Call, w *world) string {
	var out []string
	for _, c := range cs {
		p := strings.Replace(strings.Replace(c.Path, w.tree, "$TREE", 1), w.tmp, "$TMPDIR", 1)
		s := c.Name + "(" + p
		if c.Path2 != "" {
			s += " -> " + strings.Replace(c.Path2, w.tree, "$TREE", 1)
		}
		out = append(out, s+")")
	}
	return strings.Join(out, " ; ")
}

// evaluate runs the complete enumeration for one case. The first failure whose class is not a
// listed known finding wins, so that known findings do not hide others.
func evaluate(c Case) (*vk.Verdict, info) {
	var in info
	in.states = map[string]int{}
	bin, err := xgo()
	if err != nil {
		vk.R.Infra("C26: %v", err)
		in.rejected = "xgo-does-not-build"
		return nil, in
	}
	var verdicts []*vk.Verdict
	bad := func(class, format string, args ...any) { verdicts = append(verdicts, vk.Bad(class, format, args...)) }

	w, err := setup(c)
	if err == errNoOtherFS {
		in.rejected = "no-second-file-system"
		return nil, in
	}
	if err != nil {
		return vk.Bad("harness", "setup: %v", err), in
	}
	full, err := crashfs.Run(w.cmd(c, bin), 0)
	if err != nil {
		w.cleanup()
		vk.R.Infra("C26: ptrace run failed: %v", err)
		in.rejected = "ptrace-failed"
		return nil, in
	}
	in.calls = full.Calls
	trace := callNames(full.Calls, w)
	formatted, rerr := os.ReadFile(w.path)
	st, serr := os.Stat(w.path)
	if full.ExitCode != 0 && rerr == nil && bytes.Equal(formatted, c.Content) {
		w.cleanup()
		in.rejected = "xgo-fmt-reports-an-error" // formatting failures are not this property's business
		return nil, in
	}
	switch {
	case rerr != nil:
		bad("lost-after-complete-run", "after the complete run (exit %d) the file cannot be read: %v; calls: %s", full.ExitCode, rerr, trace)
	case serr == nil && uint32(st.Mode().Perm()) != c.Mode:
		bad("mode-changed", "after the complete run the mode is %04o, it was %04o; calls: %s", st.Mode().Perm(), c.Mode, trace)
	}
	in.changed = rerr == nil && !bytes.Equal(formatted, c.Content)
	w.cleanup()

	// the kill runs are independent of each other: four at a time
	type outcome struct {
		w      *world
		tr     crashfs.Trace
		err    error
		got    []byte
		rerr   error
		hasTmp bool
	}
	outs := make([]outcome, len(full.Calls)+1)
	sem := make(chan struct{}, 4)
	var wg sync.WaitGroup
	for k := 1; k <= len(full.Calls); k++ {
		wg.Add(1)
		sem <- struct{}{}
		go func(k int) {
			defer wg.Done()
			defer func() { <-sem }()
			o := &outs[k]
			if o.w, o.err = setup(c); o.err != nil {
				return
			}
			o.tr, o.err = crashfs.Run(o.w.cmd(c, bin), k)
			o.got, o.rerr = os.ReadFile(o.w.path)
			ents, _ := os.ReadDir(o.w.tmp)
			o.hasTmp = len(ents) > 0
		}(k)
	}
	wg.Wait()
	for k := 1; k <= len(full.Calls); k++ {
		o := outs[k]
		if o.w == nil {
			return vk.Bad("harness", "setup: %v", o.err), in
		}
		w, tr, got, rerr := o.w, o.tr, o.got, o.rerr
		if o.err != nil || !tr.Killed {
			if o.err == nil {
				bad("harness-nondeterministic", "run %d performed only %d mutating calls, the complete run %d", k, len(tr.Calls), len(full.Calls))
			}
			w.cleanup()
			continue
		}
		in.points++
		at := tr.Calls[len(tr.Calls)-1]
		state := ""
		switch {
		case rerr != nil:
			state = "missing"
			bad("path-missing-after-kill", "killed at the entry of call %d %s: %s does not exist (%v); calls so far: %s", k, at, w.arg, rerr, callNames(tr.Calls, w))
		case bytes.Equal(got, c.Content):
			state = "original"
		case bytes.Equal(got, formatted):
			state = "formatted"
		default:
			state = "torn"
			bad("torn-content", "killed at the entry of call %d %s: the file holds %d bytes that are neither the original (%d) nor the formatted content (%d)", k, at, len(got), len(c.Content), len(formatted))
		}
		in.states[state]++
		if o.hasTmp {
			in.leftover++
		}
		w.cleanup()
	}
	var first *vk.Verdict
	for _, v := range verdicts {
		if !vk.R.HasKnown(v.Class) {
			return v, in
		}
		if first == nil {
			first = v
		}
	}
	return first, in
}

var oracle = vk.Register("crashpoints", func(c Case) *vk.Verdict { v, _ := evaluate(c); return v })

type failer interface {
	Fatalf(string, ...any)
	Helper()
}

func run(t failer, c Case) {
	v, in := evaluate(c)
	if in.rejected != "" {
		vk.R.Rejected(in.rejected)
		vk.R.Case(false, "")
		return
	}
	nt := in.changed && len(in.calls) >= 4
	var names []string
	for _, cl := range in.calls {
		names = append(names, cl.Name)
	}
	seq := strings.Join(names, ">")
	key := fmt.Sprintf("%s|%s|%o|%v|%v|%v|%s", c.Kind, c.Spelling, c.Mode, c.Smart, c.TmpInside, c.TmpOther, seq)
	vk.R.Case(nt, key+"|complete")
	for k := 1; k <= in.points; k++ {
		vk.R.Case(nt, fmt.Sprintf("%s|%d", key, k))
	}
	vk.R.Class("kind=" + c.Kind)
	vk.R.Class("spelling=" + c.Spelling)
	vk.R.Class(fmt.Sprintf("mode=%04o", c.Mode))
	vk.R.Class(fmt.Sprintf("smart=%v", c.Smart))
	vk.R.Class(fmt.Sprintf("tmpdir-inside-tree=%v", c.TmpInside))
	vk.R.Class(fmt.Sprintf("tmpdir-on-other-fs=%v", c.TmpOther))
	vk.R.Class("calls=" + seq)
	for s, n := range in.states {
		vk.R.ClassN("state-after-kill="+s, int64(n))
	}
	vk.R.ClassN("kills-with-leftover-temp-file", int64(in.leftover))
	vk.R.Add("crash_points", int64(in.points))
	vk.R.Sample(fmt.Sprintf("xgo fmt %s (mode %04o): %s", map[bool]string{true: "--smart ", false: ""}[c.Smart]+c.Spelling+c.Kind, c.Mode, seq))
	vk.R.Check(t, "crashpoints", c, v)
}

var modes = []uint32{0o644, 0o600, 0o755, 0o664, 0o444}

func TestCrashPoints(t *testing.T) {
	if _, err := xgo(); err != nil {
		vk.R.Infra("C26: %v", err)
		return
	}
	base := fmtin.Base()
	vk.R.Rapid(t, 1, 8, 300, func(t *rapid.T) {
		kind := rapid.SampledFrom([]string{".xgo", ".xgo", ".gox", ".go"}).Draw(t, "kind")
		var src []byte
		switch kind {
		case ".go":
			in := fmtin.Input{Src: []byte(gosub.Gen().Draw(t, "gosub").Source())}
			src = fmtin.Perturb(t, in, 4, true)
		default:
			in := base.Filter(func(in fmtin.Input) bool { return in.Class == (kind == ".gox") && len(in.Src) < 6000 }).Draw(t, "source")
			src = fmtin.Perturb(t, in, 4, true)
		}
		c := Case{Kind: kind, Content: src,
			Mode:      rapid.SampledFrom(modes).Draw(t, "mode"),
			Spelling:  rapid.SampledFrom([]string{"plain", "dot", "sub", "abs"}).Draw(t, "spelling"),
			Smart:     rapid.IntRange(0, 3).Draw(t, "smart") == 0,
			TmpInside: rapid.Bool().Draw(t, "tmpinside")}
		if !c.TmpInside && otherFS() != "" && rapid.IntRange(0, 3).Draw(t, "otherfs") == 0 {
			c.TmpOther = true
		}
		run(t, c)
	})
}

// TestFixed covers every spelling once with a tiny file (modes and TMPDIR placement alternate).
func TestFixed(t *testing.T) {
	if vk.R.Shard != 0 {
		return
	}
	if _, err := xgo(); err != nil {
		vk.R.Infra("C26: %v", err)
		return
	}
	for i, sp := range []string{"plain", "dot", "sub", "abs"} {
		run(t, Case{Kind: ".xgo", Content: vk.Bytes("x   :=  1\nprintln   x\n"), Mode: modes[i], Spelling: sp, TmpInside: i%2 == 1})
	}
	if otherFS() != "" {
		run(t, Case{Kind: ".xgo", Content: vk.Bytes("x   :=  1\nprintln   x\n"), Mode: 0o644, Spelling: "plain", TmpOther: true})
		run(t, Case{Kind: ".xgo", Content: vk.Bytes("x   :=  1\nprintln   x\n"), Mode: 0o600, Spelling: "dot", TmpOther: true})
	}
	if vk.R.Thorough() {
		for i, sp := range []string{"plain", "dot", "sub", "abs"} {
			run(t, Case{Kind: ".gox", Content: vk.Bytes("var (\n  x   int\n)\n\nfunc  f() {\n}\n"), Mode: modes[4-i], Spelling: sp, TmpInside: i%2 == 0})
		}
	}
}

//go:build verif

// C30 — the TPL result helpers (List, ListOp, RangeOp, BinaryOp*, BinaryExpr*) walk the result of
// `R % sep` in source order and fold it to the left; a calculator built from them agrees with a
// precedence-climbing evaluator.
package c30

import (
	"fmt"
	"math/big"
	"strconv"
	"strings"
	"sync"
	"testing"

	"github.com/goplus/xgo/tpl"
	"github.com/goplus/xgo/tpl/ast"
	"github.com/goplus/xgo/tpl/token"
	"pgregory.net/rapid"

	"verif/internal/vk"
)

func TestMain(m *testing.M) {
	vk.Main(m, "C30", "exploration",
		"(a) model trees of `R % sep` results, depth 1..3: a list has 1..6 elements, each an int leaf or (below the depth limit) a nested list, separators drawn from {+ - * / , : IDENT\"and\" <<}; the raw result `[first, [[sep, elem]…]]` is either synthesised in the documented shape (README 'List Operator') with unique token positions, or (uniform-depth trees) obtained by matching printed text with the grammar l1 = INT % (\"*\"|\"/\"), l2 = l1 % (\"+\"|\"-\"), l3 = l2 % (\",\"|\":\"). Oracle: List/ListOp/RangeOp give the top-level elements in order; BinaryOpNR/BinaryOp(false) = left fold over the top level with nested lists passed through untouched; BinaryOpR/BinaryOp(true) = left fold that first folds nested lists; BinaryExprR/BinaryExpr(true) (and NR on flat lists) = left-nested tpl/ast.BinaryExpr with Op/OpPos of the separators in order. (b) arithmetic text over + - * / ( ) and unary minus, integer-valued literals spelled N, N.0 or Ne1, division only by non-zero divisors of the running numerator, |values| < 2^40; oracle: three calculators built on the README grammar (BinaryOp(true), per-level BinaryOp(false), BinaryExpr(true)+tree evaluation) equal a precedence-climbing big.Rat evaluator. Non-trivial = some list (a) / operator chain (b) with >= 3 elements and >= 2 distinct separators; distinct = hash of the tree / of the text")
}

// ---- (a) list results --------------------------------------------------------------------------

// Node is the model of one `R % sep` result: a leaf (Elems empty) carries Val; a list has
// len(Elems) >= 1 elements and len(Elems)-1 separators (indices into sepPool).
type Node struct {
	Val   int    `json:"v,omitempty"`
	Elems []Node `json:"e,omitempty"`
	Seps  []int  `json:"s,omitempty"`
}

type Case struct {
	Tree Node `json:"tree"`
	Real bool `json:"real,omitempty"` // obtain the raw result by matching text instead of synthesising it
}

type sepKind struct {
	Tok token.Token
	Lit string
	Src string
}

var sepPool = []sepKind{{token.ADD, "", "+"}, {token.SUB, "", "-"}, {token.MUL, "", "*"}, {token.QUO, "", "/"},
	{token.COMMA, "", ","}, {token.COLON, "", ":"}, {token.IDENT, "and", "and"}, {token.SHL, "", "<<"}}

func (n Node) isList() bool { return len(n.Elems) > 0 }

func (n Node) valid() bool {
	if !n.isList() {
		return len(n.Seps) == 0
	}
	if len(n.Seps) != len(n.Elems)-1 {
		return false
	}
	for _, s := range n.Seps {
		if s < 0 || s >= len(sepPool) {
			return false
		}
	}
	for _, e := range n.Elems {
		if !e.valid() {
			return false
		}
	}
	return true
}

// builder synthesises the raw match result in the shape README documents for `R1 % R2`:
// [first, [[sep, elem], …]] with a non-nil (possibly empty) second list, as gRepeat0 returns it.
type builder struct {
	pos  int
	leaf func(v int, pos token.Pos) any
}

func (b *builder) build(n Node) any {
	if !n.isList() {
		b.pos++
		return b.leaf(n.Val, token.Pos(b.pos))
	}
	first := b.build(n.Elems[0])
	rest := make([]any, 0, len(n.Elems))
	for i := 1; i < len(n.Elems); i++ {
		k := sepPool[n.Seps[i-1]]
		b.pos++
		sep := &tpl.Token{Tok: k.Tok, Pos: token.Pos(b.pos), Lit: k.Lit}
		rest = append(rest, []any{sep, b.build(n.Elems[i])})
	}
	return []any{first, rest}
}

// model renders what the helpers must produce; it walks the model tree only. withPos=false drops
// positions (used for matched results, whose positions are text offsets).
type model struct {
	pos     int
	withPos bool
}

func (m *model) sep(i int) string {
	m.pos++
	k := sepPool[i]
	s := k.Tok.String() + ":" + k.Lit
	if m.withPos {
		s += "@" + strconv.Itoa(m.pos)
	}
	return s
}

func (m *model) leaf(v int) string {
	m.pos++
	return strconv.Itoa(v)
}

// opaque renders a subtree the way render shows the raw value (nested lists untouched).
func (m *model) opaque(n Node) string {
	if !n.isList() {
		return m.leaf(n.Val)
	}
	var b strings.Builder
	b.WriteString("[" + m.opaque(n.Elems[0]))
	for i := 1; i < len(n.Elems); i++ {
		b.WriteString(" " + m.sep(n.Seps[i-1]))
		b.WriteString(" " + m.opaque(n.Elems[i]))
	}
	b.WriteString("]")
	return b.String()
}

// fold is the left fold; deep says whether nested lists are folded first (recursive helpers).
func (m *model) fold(n Node, deep bool) string {
	if !n.isList() {
		return m.leaf(n.Val)
	}
	sub := func(e Node) string {
		if deep {
			return m.fold(e, true)
		}
		return m.opaque(e)
	}
	acc := sub(n.Elems[0])
	for i := 1; i < len(n.Elems); i++ {
		op := m.sep(n.Seps[i-1])
		acc = "(" + acc + " " + op + " " + sub(n.Elems[i]) + ")"
	}
	return acc
}

// exprFold is the left-nested BinaryExpr shape: (op@pos x y).
func (m *model) exprFold(n Node) string {
	if !n.isList() {
		return m.leaf(n.Val)
	}
	acc := m.exprFold(n.Elems[0])
	for i := 1; i < len(n.Elems); i++ {
		m.pos++
		op := sepPool[n.Seps[i-1]].Tok.String() + "@" + strconv.Itoa(m.pos)
		acc = "(" + op + " " + acc + " " + m.exprFold(n.Elems[i]) + ")"
	}
	return acc
}

// render shows a raw value: ints, folded strings, tokens, and `R % sep` results in opaque form.
func render(v any, withPos bool) string {
	switch v := v.(type) {
	case int:
		return strconv.Itoa(v)
	case string:
		return v
	case *tpl.Token:
		if v.Tok == token.INT {
			return v.Lit
		}
		return sepStr(v, withPos)
	case []any:
		if len(v) != 2 {
			return fmt.Sprintf("<list of %d>", len(v))
		}
		rest, ok := v[1].([]any)
		if !ok {
			return fmt.Sprintf("<second element %T>", v[1])
		}
		var b strings.Builder
		b.WriteString("[" + render(v[0], withPos))
		for _, p := range rest {
			pair, ok := p.([]any)
			if !ok || len(pair) != 2 {
				return fmt.Sprintf("<pair %T>", p)
			}
			b.WriteString(" " + render(pair[0], withPos) + " " + render(pair[1], withPos))
		}
		b.WriteString("]")
		return b.String()
	}
	return fmt.Sprintf("<%T>", v)
}

func sepStr(t *tpl.Token, withPos bool) string {
	s := t.Tok.String() + ":" + t.Lit
	if withPos {
		s += "@" + strconv.Itoa(int(t.Pos))
	}
	return s
}

func dumpExpr(e ast.Expr) string {
	switch e := e.(type) {
	case *ast.Ident:
		return e.Name
	case *ast.BinaryExpr:
		return "(" + e.Op.String() + "@" + strconv.Itoa(int(e.OpPos)) + " " + dumpExpr(e.X) + " " + dumpExpr(e.Y) + ")"
	}
	return fmt.Sprintf("<%T>", e)
}

func eqList(what string, got, want []string) *vk.Verdict {
	if len(got) != len(want) {
		return vk.Bad(what+"-length", "%s: %d elements, want %d: got %q want %q", what, len(got), len(want), got, want)
	}
	for i := range got {
		if got[i] != want[i] {
			return vk.Bad(what+"-order", "%s: element %d is %s, want %s (got %q want %q)", what, i, got[i], want[i], got, want)
		}
	}
	return nil
}

// ---- matched results ---------------------------------------------------------------------------

const listGrammar = `
l3 = l2 % ("," | ":")
l2 = l1 % ("+" | "-")
l1 = INT % ("*" | "/")
`

var (
	listOnce sync.Once
	listCl   [4]tpl.Compiler
	listErr  error
)

func listCompiler(depth int) (tpl.Compiler, error) {
	listOnce.Do(func() {
		tpl.ShowConflict(false)
		srcs := map[int]string{3: listGrammar, 2: strings.Replace(listGrammar, "l3 = l2 % (\",\" | \":\")\n", "", 1), 1: "l1 = INT % (\"*\" | \"/\")\n"}
		for d, src := range srcs {
			listCl[d], listErr = tpl.New(src)
			if listErr != nil {
				return
			}
		}
	})
	return listCl[depth], listErr
}

// uniformDepth returns d if every path from n to a leaf crosses exactly d lists, and the
// separators of a list d levels above the leaves belong to that level; else 0.
func uniformDepth(n Node) int {
	if !n.isList() {
		return 0
	}
	d := -1
	for _, e := range n.Elems {
		de := uniformDepth(e)
		if e.isList() && de == 0 {
			return 0
		}
		if d >= 0 && de != d {
			return 0
		}
		d = de
	}
	d++
	if d > 3 {
		return 0
	}
	lo := map[int]int{1: 2, 2: 0, 3: 4}[d]
	for _, s := range n.Seps {
		if s != lo && s != lo+1 {
			return 0
		}
	}
	return d
}

func printNode(n Node, b *strings.Builder) {
	if !n.isList() {
		b.WriteString(strconv.Itoa(n.Val))
		return
	}
	printNode(n.Elems[0], b)
	for i := 1; i < len(n.Elems); i++ {
		b.WriteString(" " + sepPool[n.Seps[i-1]].Src + " ")
		printNode(n.Elems[i], b)
	}
}

// ---- oracle (a) --------------------------------------------------------------------------------

func checkLists(c Case) *vk.Verdict {
	n := c.Tree
	if !n.isList() || !n.valid() {
		return vk.Bad("harness", "case is not a list model: %+v", n)
	}
	withPos := !c.Real
	var in []any
	if c.Real {
		d := uniformDepth(n)
		if d == 0 {
			return vk.Bad("harness", "real case needs a uniform tree of depth 1..3 with per-level separators")
		}
		cl, err := listCompiler(d)
		if err != nil {
			return vk.Bad("harness", "list grammar does not compile: %v", err)
		}
		var b strings.Builder
		printNode(n, &b)
		res, err := cl.ParseExpr(b.String(), nil)
		if err != nil {
			return vk.Bad("match-failed", "matching %q with the list grammar failed: %v", b.String(), err)
		}
		var ok bool
		if in, ok = res.([]any); !ok {
			return vk.Bad("match-shape", "matching %q returned %T, not []any", b.String(), res)
		}
	} else {
		bd := &builder{leaf: func(v int, _ token.Pos) any { return v }}
		in = bd.build(n).([]any)
	}
	if got, want := render(in, withPos), (&model{withPos: withPos}).opaque(n); got != want {
		// only reachable for matched results: the documented three-level shape
		return vk.Bad("match-shape", "raw result %s, README shape %s", got, want)
	}

	// top-level elements in order, nested lists untouched
	m := &model{withPos: withPos}
	var want []string
	want = append(want, m.opaque(n.Elems[0]))
	for i := 1; i < len(n.Elems); i++ {
		m.sep(n.Seps[i-1])
		want = append(want, m.opaque(n.Elems[i]))
	}
	var got []string
	for _, v := range tpl.List(in) {
		got = append(got, render(v, withPos))
	}
	if v := eqList("List", got, want); v != nil {
		return v
	}
	if v := eqList("ListOp", tpl.ListOp(in, func(v any) string { return render(v, withPos) }), want); v != nil {
		return v
	}
	got = nil
	tpl.RangeOp(in, func(v any) { got = append(got, render(v, withPos)) })
	if v := eqList("RangeOp", got, want); v != nil {
		return v
	}

	fn := func(op *tpl.Token, x, y any) any {
		return "(" + render(x, withPos) + " " + sepStr(op, withPos) + " " + render(y, withPos) + ")"
	}
	type fold struct {
		name string
		got  any
		deep bool
	}
	for _, f := range []fold{
		{"BinaryOpNR", tpl.BinaryOpNR(in, fn), false},
		{"BinaryOp-false", tpl.BinaryOp(false, in, fn), false},
		{"BinaryOpR", tpl.BinaryOpR(in, fn), true},
		{"BinaryOp-true", tpl.BinaryOp(true, in, fn), true},
	} {
		want := (&model{withPos: withPos}).fold(n, f.deep)
		if got := render(f.got, withPos); got != want {
			return vk.Bad(f.name+"-fold", "%s: got %s, want %s", f.name, got, want)
		}
	}
	if c.Real {
		return nil
	}

	// BinaryExpr*: operands must be tpl/ast expressions
	flat := true
	for _, e := range n.Elems {
		if e.isList() {
			flat = false
		}
	}
	mk := func() []any {
		bd := &builder{leaf: func(v int, pos token.Pos) any { return &ast.Ident{NamePos: pos, Name: strconv.Itoa(v)} }}
		return bd.build(n).([]any)
	}
	wantE := (&model{}).exprFold(n)
	type efold struct {
		name string
		f    func([]any) ast.Expr
		ok   bool
	}
	for _, f := range []efold{
		{"BinaryExprR", tpl.BinaryExprR, true},
		{"BinaryExpr-true", func(in []any) ast.Expr { return tpl.BinaryExpr(true, in) }, true},
		{"BinaryExprNR", tpl.BinaryExprNR, flat},
		{"BinaryExpr-false", func(in []any) ast.Expr { return tpl.BinaryExpr(false, in) }, flat},
	} {
		if !f.ok {
			continue
		}
		if got := dumpExpr(f.f(mk())); got != wantE {
			return vk.Bad(f.name+"-shape", "%s: got %s, want %s", f.name, got, wantE)
		}
	}
	return nil
}

var listOracle = vk.Register("lists", checkLists)

func drawList(t *rapid.T, depth int, seps []int) Node {
	n := rapid.SampledFrom([]int{1, 2, 3, 3, 4, 4, 5, 6}).Draw(t, "n")
	node := Node{Elems: make([]Node, n)}
	for i := range node.Elems {
		if depth > 1 && rapid.IntRange(0, 2).Draw(t, "nest") == 0 {
			node.Elems[i] = drawList(t, depth-1, seps)
		} else {
			node.Elems[i] = Node{Val: rapid.IntRange(0, 99).Draw(t, "v")}
		}
		if i > 0 {
			node.Seps = append(node.Seps, rapid.SampledFrom(seps).Draw(t, "sep"))
		}
	}
	return node
}

func drawUniform(t *rapid.T, depth int) Node {
	if depth == 0 {
		return Node{Val: rapid.IntRange(0, 99).Draw(t, "v")}
	}
	n := rapid.SampledFrom([]int{1, 1, 2, 3, 3, 4}).Draw(t, "n")
	lo := map[int]int{1: 2, 2: 0, 3: 4}[depth]
	node := Node{Elems: make([]Node, n)}
	for i := range node.Elems {
		node.Elems[i] = drawUniform(t, depth-1)
		if i > 0 {
			node.Seps = append(node.Seps, lo+rapid.IntRange(0, 1).Draw(t, "sep"))
		}
	}
	return node
}

// shape returns (max list length, whether some list of >= 3 elements has >= 2 distinct separators, depth).
func shape(n Node) (maxLen int, rich bool, depth int) {
	if !n.isList() {
		return 0, false, 0
	}
	maxLen = len(n.Elems)
	seen := map[int]bool{}
	for _, s := range n.Seps {
		seen[s] = true
	}
	rich = len(n.Elems) >= 3 && len(seen) >= 2
	for _, e := range n.Elems {
		l, r, d := shape(e)
		if l > maxLen {
			maxLen = l
		}
		rich = rich || r
		if d > depth {
			depth = d
		}
	}
	return maxLen, rich, depth + 1
}

type failer interface {
	Fatalf(string, ...any)
	Helper()
}

func runLists(t failer, c Case, src string) {
	v := listOracle(c)
	_, rich, depth := shape(c.Tree)
	key := fmt.Sprintf("%v|%+v", c.Real, c.Tree)
	vk.R.Case(rich, key)
	vk.R.Class(src)
	vk.R.Class(fmt.Sprintf("depth=%d", depth))
	vk.R.Class(fmt.Sprintf("top-len=%d", len(c.Tree.Elems)))
	if rich {
		var b strings.Builder
		printNode(c.Tree, &b)
		vk.R.Sample(src + ": " + (&model{}).opaque(c.Tree))
	}
	vk.R.Check(t, "lists", c, v)
}

func TestSyntheticLists(t *testing.T) {
	all := []int{0, 1, 2, 3, 4, 5, 6, 7}
	vk.R.Rapid(t, 1, 12000, 300000, func(t *rapid.T) {
		depth := rapid.IntRange(1, 3).Draw(t, "depth")
		seps := all
		if rapid.IntRange(0, 3).Draw(t, "fewseps") == 0 {
			seps = []int{1, 3} // only - and /: every fold order is observable
		}
		runLists(t, Case{Tree: drawList(t, depth, seps)}, "src=synthetic")
	})
}

func TestMatchedLists(t *testing.T) {
	vk.R.Rapid(t, 3, 4000, 100000, func(t *rapid.T) {
		depth := rapid.IntRange(1, 3).Draw(t, "depth")
		runLists(t, Case{Tree: drawUniform(t, depth), Real: true}, "src=matched")
	})
}

// ---- (b) calculators ----------------------------------------------------------------------------

type CalcCase struct {
	Expr string `json:"expr"`
}

const calcR = `
expr = operand % ("*" | "/") % ("+" | "-")
operand = basicLit | parenExpr | unaryExpr
unaryExpr = "-" operand
parenExpr = "(" expr ")"
basicLit = INT | FLOAT
`

const calcNR = `
expr = term % ("+" | "-")
term = operand % ("*" | "/")
operand = basicLit | parenExpr | unaryExpr
unaryExpr = "-" operand
parenExpr = "(" expr ")"
basicLit = INT | FLOAT
`

func arith(op *tpl.Token, x, y any) any {
	a, b := x.(float64), y.(float64)
	switch op.Tok {
	case '+':
		return a + b
	case '-':
		return a - b
	case '*':
		return a * b
	case '/':
		return a / b
	}
	panic("unexpected operator " + op.Tok.String())
}

func litValue(self any) any {
	f, err := strconv.ParseFloat(self.(*tpl.Token).Lit, 64)
	if err != nil {
		panic(err.Error())
	}
	return f
}

var (
	calcOnce sync.Once
	calcs    [3]tpl.Compiler
	calcErr  error
)

func calculators() ([3]tpl.Compiler, error) {
	calcOnce.Do(func() {
		tpl.ShowConflict(false)
		neg := func(self []any) any { return -(self[1].(float64)) }
		paren := func(self []any) any { return self[1] }
		calcs[0], calcErr = tpl.New(calcR,
			"expr", func(self []any) any { return tpl.BinaryOp(true, self, arith) },
			"unaryExpr", neg, "parenExpr", paren, "basicLit", litValue)
		if calcErr != nil {
			return
		}
		calcs[1], calcErr = tpl.New(calcNR,
			"expr", func(self []any) any { return tpl.BinaryOp(false, self, arith) },
			"term", func(self []any) any { return tpl.BinaryOp(false, self, arith) },
			"unaryExpr", neg, "parenExpr", paren, "basicLit", litValue)
		if calcErr != nil {
			return
		}
		// the AST flavour: the helpers build tpl/ast nodes, the harness evaluates the tree
		calcs[2], calcErr = tpl.New(calcR,
			"expr", func(self []any) any { return tpl.BinaryExpr(true, self) },
			"unaryExpr", func(self []any) any { return tpl.UnaryExpr(self) },
			"parenExpr", paren,
			"basicLit", func(self any) any { return tpl.BasicLit(self) })
	})
	return calcs, calcErr
}

func evalTree(e ast.Expr) (*big.Rat, error) {
	switch e := e.(type) {
	case *ast.BasicLit:
		r, ok := new(big.Rat).SetString(e.Value)
		if !ok {
			return nil, fmt.Errorf("bad literal %q", e.Value)
		}
		return r, nil
	case *ast.UnaryExpr:
		x, err := evalTree(e.X)
		if err != nil {
			return nil, err
		}
		if e.Op != token.SUB {
			return nil, fmt.Errorf("unary %v", e.Op)
		}
		return x.Neg(x), nil
	case *ast.BinaryExpr:
		x, err := evalTree(e.X)
		if err != nil {
			return nil, err
		}
		y, err := evalTree(e.Y)
		if err != nil {
			return nil, err
		}
		return apply(byte(e.Op), x, y)
	}
	return nil, fmt.Errorf("unexpected node %T", e)
}

func apply(op byte, x, y *big.Rat) (*big.Rat, error) {
	switch op {
	case '+':
		return new(big.Rat).Add(x, y), nil
	case '-':
		return new(big.Rat).Sub(x, y), nil
	case '*':
		return new(big.Rat).Mul(x, y), nil
	case '/':
		if y.Sign() == 0 {
			return nil, fmt.Errorf("division by zero")
		}
		return new(big.Rat).Quo(x, y), nil
	}
	return nil, fmt.Errorf("operator %q", op)
}

// reference evaluator: precedence climbing over its own tokenisation of the text.
type refEval struct {
	toks []string
	i    int
}

func refTokens(s string) ([]string, error) {
	var out []string
	for i := 0; i < len(s); {
		c := s[i]
		switch {
		case c == ' ' || c == '\t':
			i++
		case strings.ContainsRune("+-*/()", rune(c)):
			out = append(out, string(c))
			i++
		case c >= '0' && c <= '9':
			j := i
			for j < len(s) && (s[j] >= '0' && s[j] <= '9' || s[j] == '.' || s[j] == 'e' || (s[j] == '-' || s[j] == '+') && s[j-1] == 'e') {
				j++
			}
			out = append(out, s[i:j])
			i = j
		default:
			return nil, fmt.Errorf("unexpected %q", c)
		}
	}
	return out, nil
}

func (p *refEval) peek() string {
	if p.i < len(p.toks) {
		return p.toks[p.i]
	}
	return ""
}

var binPrec = map[string]int{"+": 1, "-": 1, "*": 2, "/": 2}

func (p *refEval) expr(min int) (*big.Rat, error) {
	lhs, err := p.unary()
	if err != nil {
		return nil, err
	}
	for {
		op := p.peek()
		pr, ok := binPrec[op]
		if !ok || pr < min {
			return lhs, nil
		}
		p.i++
		rhs, err := p.expr(pr + 1) // left associative
		if err != nil {
			return nil, err
		}
		if lhs, err = apply(op[0], lhs, rhs); err != nil {
			return nil, err
		}
	}
}

func (p *refEval) unary() (*big.Rat, error) {
	switch t := p.peek(); {
	case t == "-":
		p.i++
		x, err := p.unary()
		if err != nil {
			return nil, err
		}
		return x.Neg(x), nil
	case t == "(":
		p.i++
		x, err := p.expr(1)
		if err != nil {
			return nil, err
		}
		if p.peek() != ")" {
			return nil, fmt.Errorf("missing )")
		}
		p.i++
		return x, nil
	case t != "" && t[0] >= '0' && t[0] <= '9':
		p.i++
		r, ok := new(big.Rat).SetString(t)
		if !ok {
			return nil, fmt.Errorf("bad literal %q", t)
		}
		return r, nil
	default:
		return nil, fmt.Errorf("unexpected %q", t)
	}
}

func refValue(s string) (*big.Rat, error) {
	toks, err := refTokens(s)
	if err != nil {
		return nil, err
	}
	p := &refEval{toks: toks}
	v, err := p.expr(1)
	if err == nil && p.i != len(toks) {
		err = fmt.Errorf("trailing %q", p.peek())
	}
	return v, err
}

func checkCalc(c CalcCase) *vk.Verdict {
	want, err := refValue(c.Expr)
	if err != nil {
		return vk.Bad("harness", "reference evaluator rejects %q: %v", c.Expr, err)
	}
	cs, err := calculators()
	if err != nil {
		return vk.Bad("calc-compile", "calculator grammar does not compile: %v", err)
	}
	wantF, exact := want.Float64()
	if !exact {
		return vk.Bad("harness", "reference value %v of %q is not exact in float64", want, c.Expr)
	}
	for i, name := range []string{"BinaryOp-true", "BinaryOp-false", "BinaryExpr-true"} {
		res, err := cs[i].ParseExpr(c.Expr, nil)
		if err != nil {
			return vk.Bad("calc-error", "calculator %s fails on %q: %v", name, c.Expr, err)
		}
		switch i {
		case 0, 1:
			got, ok := res.(float64)
			if !ok {
				return vk.Bad("calc-result-type", "calculator %s returned %T for %q", name, res, c.Expr)
			}
			if got != wantF {
				return vk.Bad("calc-mismatch", "%s: %q = %v, reference %v", name, c.Expr, got, wantF)
			}
		case 2:
			e, ok := res.(ast.Expr)
			if !ok {
				return vk.Bad("calc-result-type", "calculator %s returned %T for %q", name, res, c.Expr)
			}
			got, err := evalTree(e)
			if err != nil {
				return vk.Bad("calc-tree", "%s: tree of %q cannot be evaluated: %v", name, c.Expr, err)
			}
			if got.Cmp(want) != 0 {
				return vk.Bad("calc-tree-mismatch", "%s: tree of %q evaluates to %v, reference %v", name, c.Expr, got, want)
			}
		}
	}
	return nil
}

var calcOracle = vk.Register("calc", checkCalc)

const limit = int64(1) << 40

type arithGen struct {
	t        *rapid.T
	operands int
	ops      map[string]bool
	chain    bool // some level has >= 3 operands with >= 2 distinct operators
}

func spellInt(t *rapid.T, v int64) string {
	s := strconv.FormatInt(v, 10)
	switch rapid.IntRange(0, 5).Draw(t, "spell") {
	case 0:
		return s + ".0"
	case 1:
		if v != 0 && v%10 == 0 {
			return strconv.FormatInt(v/10, 10) + "e1"
		}
	}
	return s
}

func (g *arithGen) factor(depth int) ([]string, int64) {
	k := rapid.IntRange(0, 5).Draw(g.t, "factor")
	switch {
	case k == 0 && depth > 0:
		toks, v := g.expr(depth - 1)
		return append(append([]string{"("}, toks...), ")"), v
	case k == 1:
		toks, v := g.factor(depth)
		return append([]string{"-"}, toks...), -v
	}
	v := int64(rapid.IntRange(0, 99).Draw(g.t, "lit"))
	g.operands++
	return []string{spellInt(g.t, v)}, v
}

var smallDivisors = []int64{1, 2, 3, 4, 5, 6, 7, 8, 9, 10, 11, 12, 16, 25, 50, 64, 99}

func (g *arithGen) divisor(acc int64) ([]string, int64) {
	var cand []int64
	for _, d := range smallDivisors {
		if acc%d == 0 {
			cand = append(cand, d)
		}
	}
	if acc != 0 && acc > -limit && acc < limit {
		a := acc
		if a < 0 {
			a = -a
		}
		cand = append(cand, a)
	}
	d := rapid.SampledFrom(cand).Draw(g.t, "div")
	g.operands++
	lit := spellInt(g.t, d)
	switch rapid.IntRange(0, 4).Draw(g.t, "divform") {
	case 0:
		return []string{"-", lit}, -d
	case 1:
		return []string{"(", lit, ")"}, d
	case 2:
		return []string{"(", "-", lit, ")"}, -d
	}
	return []string{lit}, d
}

func abs(x int64) int64 {
	if x < 0 {
		return -x
	}
	return x
}

func (g *arithGen) term(depth int) ([]string, int64) {
	toks, acc := g.factor(depth)
	n := rapid.SampledFrom([]int{0, 0, 1, 1, 2, 3}).Draw(g.t, "nmul")
	used := map[string]bool{}
	for i := 0; i < n; i++ {
		op := rapid.SampledFrom([]string{"*", "/"}).Draw(g.t, "mulop")
		var ft []string
		var fv int64
		if op == "/" {
			ft, fv = g.divisor(acc)
			acc /= fv
		} else {
			ft, fv = g.factor(depth)
			if fv != 0 && abs(acc) > limit/abs(fv) {
				g.operands++
				ft, fv = []string{"1"}, 1
			}
			acc *= fv
		}
		used[op], g.ops[op] = true, true
		toks = append(append(toks, op), ft...)
	}
	if n >= 2 && len(used) >= 2 {
		g.chain = true
	}
	return toks, acc
}

func (g *arithGen) expr(depth int) ([]string, int64) {
	toks, acc := g.term(depth)
	n := rapid.SampledFrom([]int{0, 1, 1, 2, 2, 3, 4}).Draw(g.t, "nadd")
	used := map[string]bool{}
	for i := 0; i < n; i++ {
		op := rapid.SampledFrom([]string{"+", "-"}).Draw(g.t, "addop")
		tt, tv := g.term(depth)
		if op == "+" {
			acc += tv
		} else {
			acc -= tv
		}
		used[op], g.ops[op] = true, true
		toks = append(append(toks, op), tt...)
	}
	if n >= 2 && len(used) >= 2 {
		g.chain = true
	}
	return toks, acc
}

func joinArith(t *rapid.T, toks []string) string {
	var b strings.Builder
	style := rapid.IntRange(0, 2).Draw(t, "layout")
	for i, tok := range toks {
		if i > 0 {
			prev := toks[i-1]
			switch {
			case style == 0, prev == "-" && tok == "-":
				b.WriteByte(' ')
			case style == 2:
				b.WriteString(rapid.SampledFrom([]string{"", " ", "  ", "\t"}).Draw(t, "gap"))
			}
		}
		b.WriteString(tok)
	}
	return b.String()
}

func TestCalculator(t *testing.T) {
	vk.R.Rapid(t, 2, 8000, 200000, func(t *rapid.T) {
		g := &arithGen{t: t, ops: map[string]bool{}}
		toks, _ := g.expr(rapid.IntRange(0, 2).Draw(t, "depth"))
		c := CalcCase{Expr: joinArith(t, toks)}
		v := calcOracle(c)
		nt := g.chain && g.operands >= 3
		vk.R.Case(nt, "calc|"+c.Expr)
		vk.R.Class("src=calculator")
		vk.R.Class(fmt.Sprintf("calc-ops=%d", len(g.ops)))
		switch {
		case g.operands >= 8:
			vk.R.Class("calc-operands=8+")
		case g.operands >= 3:
			vk.R.Class("calc-operands=3-7")
		default:
			vk.R.Class("calc-operands=1-2")
		}
		if nt {
			vk.R.Sample("calc: " + c.Expr)
		}
		vk.R.Check(t, "calc", c, v)
	})
}

func TestFixed(t *testing.T) {
	if vk.R.Shard != 0 {
		return
	}
	for _, c := range []CalcCase{{"1 + 2 * -3"}, {"8 - 3 - 2"}, {"64 / 4 / 2"}, {"2 * 3 - 4 * 5 + 6 / 3"}, {"- - 7"}, {"(8 - 3) - (2 - 1)"},
		{"8-(3-2)"}, {"100 / (10 / 5)"}, {"7"}, {"-(1+2)*3"}, {"2.0 * 3e1 / 4"}} {
		v := calcOracle(c)
		vk.R.Case(false, "")
		vk.R.Class("src=fixed-calc")
		vk.R.Check(t, "calc", c, v)
	}
	for _, c := range []Case{
		{Tree: Node{Elems: []Node{{Val: 1}}}},
		{Tree: Node{Elems: []Node{{Val: 1}}}, Real: true},
		{Tree: Node{Elems: []Node{{Val: 8}, {Val: 3}, {Val: 2}}, Seps: []int{1, 1}}},
		{Tree: Node{Elems: []Node{{Elems: []Node{{Val: 8}}}, {Elems: []Node{{Val: 6}, {Val: 3}}, Seps: []int{3}}, {Val: 2}}, Seps: []int{1, 1}}},
	} {
		runLists(t, c, "src=fixed-list")
	}
}

// Package pkggen draws XGo packages (file name → source): pristine generated packages of several
// kinds, near-miss mutants of them, and syntactically broken variants.
package pkggen

import (
	"sort"
	"strings"

	"pgregory.net/rapid"

	"verif/internal/gen/gosub"
	"verif/internal/gen/lex"
	"verif/internal/gen/nearmiss"
	"verif/internal/gen/xsugar"
)

// Pkg is a drawn package.
type Pkg struct {
	Files  map[string]string
	Kind   string   // gosub | collections | errwrap | overload | interp | class | declsoup | corpus
	Ops    []string // near-miss operators applied
	Broken bool     // token-level damage applied (may not parse)
}

// Key canonicalises the package for distinctness.
func (p Pkg) Key() string {
	var b strings.Builder
	names := make([]string, 0, len(p.Files))
	for n := range p.Files {
		names = append(names, n)
	}
	sort.Strings(names)
	for _, n := range names {
		b.WriteString(n + "\x00" + p.Files[n] + "\x00")
	}
	return b.String()
}

// Base draws an unmutated package.
func Base(t *rapid.T) Pkg {
	g := &xsugar.G{T: t, Flags: map[string]bool{}}
	switch rapid.IntRange(0, 8).Draw(t, "basekind") {
	case 7, 8:
		return DeclSoup(t)
	case 0, 1:
		return Pkg{Files: map[string]string{"bar.xgo": gosub.Gen().Draw(t, "gosub").Source()}, Kind: "gosub"}
	case 2:
		return Pkg{Files: map[string]string{"bar.xgo": xsugar.CollectionProgram(g, 6).XGo()}, Kind: "collections"}
	case 3:
		return Pkg{Files: map[string]string{"bar.xgo": xsugar.ErrWrapProgram(g, 5).XGo()}, Kind: "errwrap"}
	case 4:
		return Pkg{Files: map[string]string{"bar.xgo": xsugar.OverloadProgram(g, 4).XGo()}, Kind: "overload"}
	case 5:
		return Pkg{Files: map[string]string{"bar.xgo": xsugar.InterpProgram(g, 6).XGo()}, Kind: "interp"}
	}
	return Pkg{Files: xsugar.ClassProgram(g).XFiles, Kind: "class"}
}

// Corpus draws a repository XGo file (window of at most 3000 bytes is NOT taken: whole file, if
// it is smaller than 20 KB) as a single-file package named after its extension.
func Corpus(t *rapid.T) Pkg {
	files := lex.Corpus(".xgo", ".gox", ".gop")
	f := files[rapid.IntRange(0, len(files)-1).Draw(t, "file")]
	name := "bar.xgo"
	if strings.HasSuffix(f.Path, ".gox") {
		name = "Bar.gox"
	}
	src := f.Src
	if len(src) > 20000 {
		src = src[:20000]
	}
	return Pkg{Files: map[string]string{name: string(src)}, Kind: "corpus"}
}

func (p *Pkg) names() []string {
	names := make([]string, 0, len(p.Files))
	for n := range p.Files {
		names = append(names, n)
	}
	sort.Strings(names)
	return names
}

// NearMiss applies up to n near-miss mutations.
func (p *Pkg) NearMiss(t *rapid.T, n int) {
	names := p.names()
	for i := 0; i < n; i++ {
		fn := names[rapid.IntRange(0, len(names)-1).Draw(t, "file")]
		out, op := nearmiss.Mutate(t, p.Files[fn])
		if op != "" {
			p.Files[fn] = out
			p.Ops = append(p.Ops, op)
		}
	}
}

// Break applies token-level damage (splice/delete/duplicate/truncate/bracket flips).
func (p *Pkg) Break(t *rapid.T) {
	names := p.names()
	fn := names[rapid.IntRange(0, len(names)-1).Draw(t, "file")]
	src := []byte(p.Files[fn])
	p.Files[fn] = string(lex.Mutate(t, src, lex.Spans(src), lex.XGoLexeme()))
	p.Broken = true
}

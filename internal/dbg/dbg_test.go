package dbg

import (
	"fmt"
	"strings"
	"testing"

	"pgregory.net/rapid"
	"verif/internal/diffrun"
	"verif/internal/gen/xsugar"
	"verif/internal/xcl"
)

func TestDbg(t *testing.T) {
	gen := rapid.Custom(func(t *rapid.T) *xsugar.Program { return xsugar.ErrWrapProgram(&xsugar.G{T: t}, 3) })
	seen := map[string]bool{}
	for i := 0; i < 600; i++ {
		p := gen.Example(i)
		src := p.XGo()
		_, v, err := diffrun.CompileX(map[string]string{"bar.xgo": src}, xcl.Options{})
		if v != nil {
			msg := err.Error()
			if !strings.Contains(msg, "cannot use") {
				continue
			}
			k := msg
			if len(k) > 50 {
				k = k[len(k)-50:]
			}
			if seen[k] {
				continue
			}
			seen[k] = true
			fmt.Println("=====", msg)
			fmt.Println(src[strings.Index(src, "// @item"):])
		}
	}
}

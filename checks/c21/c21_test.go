//go:build verif

// C21 — formatting keeps every comment, in order.
package c21

import (
	"encoding/json"
	"fmt"
	goast "go/ast"
	gotoken "go/token"
	"os"
	"runtime/debug"
	"sort"
	"strconv"
	"strings"
	"sync"
	"testing"

	"github.com/goplus/xgo/ast"
	"github.com/goplus/xgo/format"
	"pgregory.net/rapid"

	"verif/internal/astx"
	"verif/internal/gen/fmtin"
	"verif/internal/vk"
)

func TestMain(m *testing.M) {
	vk.Main(m, "C21", "exploration",
		"C19 inputs (corpus file, gosub / xsugar / xgotext text, optional AST mutation, conventional comments) with 1-8 uniquely numbered comments (/*kN*/, //kN, # kN, now and then a bare #) injected at drawn token boundaries, before the first and after the last token; kept only if the commented source parses. Oracle: the ordered list of comment texts of the output (XGo scanner, ScanComments) equals that of the input; texts are compared line by line after trimming white space (the printer re-indents block comments and trims trailing blanks). The output is not required to parse. Listed findings are matched by shape as in C19. Non-trivial = at least 5 comments and at least one inside an XGo-specific construct; distinct = source bytes")
}

type Case struct {
	Src   vk.Bytes `json:"src"`
	Class bool     `json:"class"`
	How   []string `json:"how,omitempty"` // informational: origin, steps, catalogue classes
}

type info struct {
	rejected         string
	shapes           []string
	ncomments, inXGo int
	outputParses     bool
	xgo              []string
	edges            map[string]bool
	hash             uint64
}

// cls builds the verdict class: a source that shows the shape of a listed finding (fmtin.Shapes)
// fails as "shape/<shape>" whatever the kind of failure (the first shape that is still listed as
// a known finding of this property: a repaired shape stops covering for anything), any other
// source as "<kind>" or "<kind>:<signature>".
func (in info) cls(kind, sig string) string {
	for _, sh := range in.shapes {
		if vk.R.KnownClass("shape/"+sh) != nil && os.Getenv("FMT_NOKNOWN") == "" {
			return "shape/" + sh
		}
	}
	if sig != "" {
		return kind + ":" + sig
	}
	return kind
}

func check(c Case) (v *vk.Verdict, in info) {
	defer func() {
		if p := recover(); p != nil {
			v = vk.Bad(in.cls("panic", ""), "%v\n%s", p, debug.Stack())
		}
	}()
	f1, fset1, err := fmtin.Parse(c.Src, c.Class)
	if err != nil {
		in.rejected = "input-does-not-parse"
		return nil, in
	}
	xgo, edges := fmtin.Features(f1)
	in.xgo, in.edges = fmtin.Keys(xgo), edges
	in.shapes = fmtin.Shapes(f1, fset1, c.Src)
	in.ncomments, in.inXGo = commentStats(f1, c.Src)
	if importCommentsMove(f1) {
		// comments travel with their import spec when the block is sorted (C23): not a reordering
		in.rejected = "comment-in-unsorted-import-block"
		return nil, in
	}
	out, err := format.Source(c.Src, c.Class)
	if err != nil {
		return vk.Bad(in.cls("format-error", ""), "format.Source fails on a source that parses: %v", err), in
	}
	in.outputParses = fmtin.Valid(out, c.Class) // observation only: re-parsing is C19's clause over C19's domain
	want, got := normAll(fmtin.CommentTexts(c.Src)), normAll(fmtin.CommentTexts(out))
	if d := compareLists(want, got); d != nil {
		d.Class = in.cls(d.Class, "")
		d.Detail += "\n--- output:\n" + fmtin.Short(string(out), 1200)
		return d, in
	}
	return nil, in
}

// norm makes a comment text comparable: no carriage returns, every line trimmed.
func norm(s string) string {
	lines := strings.Split(strings.ReplaceAll(s, "\r", ""), "\n")
	for i, l := range lines {
		lines[i] = strings.TrimSpace(l)
	}
	return strings.Join(lines, "\n")
}

func normAll(xs []string) []string {
	out := make([]string, len(xs))
	for i, x := range xs {
		out[i] = norm(x)
	}
	return out
}

// compareLists classifies the first difference between the comment lists.
func compareLists(want, got []string) *vk.Verdict {
	cw, cg := map[string]int{}, map[string]int{}
	for _, x := range want {
		cw[x]++
	}
	for _, x := range got {
		cg[x]++
	}
	for _, x := range want {
		if cg[x] < cw[x] {
			return vk.Bad("comment-lost", "comment %q: %d in the input, %d in the output", x, cw[x], cg[x])
		}
	}
	for _, x := range got {
		if cg[x] > cw[x] {
			if cw[x] == 0 {
				return vk.Bad("comment-invented", "comment %q is in the output only", x)
			}
			return vk.Bad("comment-duplicated", "comment %q: %d in the input, %d in the output", x, cw[x], cg[x])
		}
	}
	for i := range want {
		if want[i] != got[i] {
			return vk.Bad("comment-reordered", "comment %d is %q in the input and %q in the output", i, want[i], got[i])
		}
	}
	return nil
}

// importCommentsMove reports whether a parenthesised import declaration holds a comment and specs
// that sorting or deduplication would move.
func importCommentsMove(f *ast.File) bool {
	for _, d := range f.Decls {
		g, ok := d.(*ast.GenDecl)
		if !ok || g.Tok.String() != "import" || !g.Lparen.IsValid() {
			continue
		}
		has := false
		for _, cg := range f.Comments {
			if cg.Pos() > g.Lparen && cg.Pos() < g.Rparen {
				has = true
			}
		}
		if !has {
			continue
		}
		prev := ""
		for i, s := range g.Specs {
			is, ok := s.(*ast.ImportSpec)
			if !ok || is.Path == nil {
				return true
			}
			k := is.Path.Value
			if p, err := strconv.Unquote(k); err == nil {
				k = p
			}
			if i > 0 && k <= prev {
				return true
			}
			prev = k
		}
	}
	return false
}

// commentStats counts the comments of the input and those inside an XGo-specific construct.
func commentStats(f *ast.File, src []byte) (n, inXGo int) {
	type span struct{ lo, hi gotoken.Pos }
	var spans []span
	astx.Walk(f, astx.Options{}, func(x, _ goast.Node, _ string) bool {
		name := astx.TypeName(x)
		cmd := false
		if c, ok := x.(*ast.CallExpr); ok && c.IsCommand() {
			cmd = true
		}
		if cmd || fmtin.IsXGoKind(name) {
			spans = append(spans, span{x.Pos(), x.End()})
		}
		return true
	})
	for _, g := range f.Comments {
		for _, c := range g.List {
			n++
			for _, s := range spans {
				if c.Pos() > s.lo && c.Pos() < s.hi {
					inXGo++
					break
				}
			}
		}
	}
	return
}

var oracle = vk.Register("fmt-comments", func(c Case) *vk.Verdict { v, _ := check(c); return v })

type failer interface {
	Fatalf(string, ...any)
	Helper()
}

var (
	survey   = os.Getenv("FMT_SURVEY") != ""
	surveyMu sync.Mutex
	surveyN  = map[string]int{}
)

func run(t failer, c Case, labels ...string) {
	v, in := check(c)
	if in.rejected != "" {
		vk.R.Rejected(in.rejected)
		vk.R.Case(false, "")
		return
	}
	vk.R.Case(in.ncomments >= 5 && in.inXGo >= 1, string(c.Src))
	// how much of the input space the listed shapes blind: every source that shows one is counted
	if len(in.shapes) > 0 {
		vk.R.Class("shows-listed-shape=yes")
		for _, sh := range in.shapes {
			if vk.R.KnownClass("shape/"+sh) != nil {
				vk.R.Class("covered-by-known-shape=" + sh)
			}
		}
	}
	if in.ncomments >= 5 && in.inXGo >= 1 && len(c.Src) < 1500 {
		vk.R.Sample(string(c.Src))
	}
	for _, l := range labels {
		vk.R.Class(l)
	}
	for _, x := range in.xgo {
		vk.R.Class("xgo=" + x)
	}
	if v == nil && !in.outputParses {
		vk.R.Class("observation: comments kept but output does not re-parse")
	}
	if survey {
		if v != nil {
			surveyMu.Lock()
			surveyN[v.Class]++
			n := surveyN[v.Class]
			surveyN[v.Class+"|"+strings.Join(c.How[:1], "")+"|"+fmt.Sprint(len(c.How) > 1 && strings.Contains(strings.Join(c.How, " "), " perturb"))]++
			surveyMu.Unlock()
			vk.R.Class("FAIL " + v.Class)
			if n == 1 {
				m := minimise(c, v.Class)
				if dir := os.Getenv("FMT_DUMP"); dir != "" {
					js, _ := json.MarshalIndent(map[string]any{"property": "C21", "test": "fmt-comments", "case": m, "note": v.Class}, "", " ")
					os.WriteFile(dir+"/"+strings.NewReplacer("/", "_", ":", "_").Replace(v.Class)+".json", js, 0o644)
				}
			}
			if n <= 3 {
				m := minimise(c, v.Class)
				mv, _ := check(m)
				fmt.Printf("SURVEY %s\n  how=%v\n  detail=%s\n  min=%q\n", v.Class, c.How, fmtin.Short(strings.ReplaceAll(mv.Detail, "\n", "\\n"), 400), fmtin.Short(string(m.Src), 1200))
			}
		}
		return
	}
	vk.R.Check(t, "fmt-comments", c, v)
}

// minimise removes lines (then single bytes) greedily while the verdict class stays the same.
func minimise(c Case, class string) Case {
	same := func(src []byte) bool {
		v, in := check(Case{Src: src, Class: c.Class})
		return in.rejected == "" && v != nil && v.Class == class
	}
	lines := strings.SplitAfter(string(c.Src), "\n")
	for chunk := len(lines) / 2; chunk >= 1; chunk /= 2 {
		for i := 0; i+chunk <= len(lines); {
			cand := append(append([]string{}, lines[:i]...), lines[i+chunk:]...)
			if same([]byte(strings.Join(cand, ""))) {
				lines = cand
			} else {
				i += chunk
			}
		}
	}
	src := []byte(strings.Join(lines, ""))
	// single bytes are only removed from comment-free text: a byte-level cut would move comments to
	// places that are outside the domain
	if len(src) < 400 && len(fmtin.CommentTexts(src)) == 0 {
		for i := 0; i < len(src); {
			cand := append(append([]byte{}, src[:i]...), src[i+1:]...)
			if same(cand) {
				src = cand
			} else {
				i++
			}
		}
	}
	return Case{Src: src, Class: c.Class}
}

func TestCorpus(t *testing.T) {
	if vk.R.Shard != 0 {
		return
	}
	for _, in := range fmtin.CorpusValid() {
		run(t, Case{Src: in.Src, Class: in.Class, How: []string{"corpus:" + in.Name}}, "src=corpus-verbatim")
	}
}

func TestVariants(t *testing.T) {
	vk.R.Rapid(t, 1, 3000, 80000, func(t *rapid.T) {
		pol := fmtin.Policy{}
		if os.Getenv("FMT_NOSHARP") != "" {
			pol.Conv = func(c fmtin.ConvClass) bool { return c.Style != "#" }
		}
		v := fmtin.DrawVariant(t, pol)
		for try := 0; try < 3; try++ { // a line comment in the middle of an expression often breaks the parse
			if out, cls := fmtin.Inject(t, v.Input, 10, nil); out != nil {
				v.Src, v.Steps = out, append(v.Steps, "inject")
				for _, c := range cls {
					v.Classes = append(v.Classes, "inj:"+c.String())
					vk.R.Class("inject=" + c.Style)
				}
				break
			}
		}
		how := append(append([]string{v.Origin + ":" + v.Name}, v.Steps...), v.Classes...)
		labels := []string{"origin=" + v.Origin}
		for _, s := range v.Steps[1:] {
			labels = append(labels, "step="+s)
		}
		run(t, Case{Src: v.Src, Class: v.Class, How: how}, labels...)
	})
	if survey {
		var ks []string
		for k, n := range surveyN {
			ks = append(ks, fmt.Sprintf("%6d %s", n, k))
		}
		sort.Strings(ks)
		fmt.Println("SURVEY SUMMARY\n" + strings.Join(ks, "\n"))
	}
}

package dbg

import (
	"fmt"
	"testing"

	"verif/internal/xcl"
)

func TestDbg(t *testing.T) {
	src := "import \"fmt\"\n\nfunc main() {\n\t/* b */\n\tvar a = fmt.Sprint(1)\n\t// c\n\tvar b = fmt.Sprint(2)\n\t// d1\n\t// d2\n\tvar c = 3\n\t_, _, _ = a, b, c\n}\n"
	r := xcl.Compile(map[string]string{"bar.xgo": src}, xcl.Options{})
	fmt.Println(r.Err, string(r.Go))
}

#!/bin/bash
# usage: tools/seed_suite.sh [id...] : runs every recorded seeded change (or the given ones) against the
# check of the property it breaks; prints one line per change. Expects rc=1 everywhere.
cd "$(dirname "$0")/.." || exit 2
ids="$@"; [ -n "$ids" ] || ids=$(ls seeded | grep -v INDEX)
for id in $ids; do
  prop=$(python3 -c "import json;print(json.load(open('seeded/$id/meta.json'))['breaks_property'])")
  mkdir -p /tmp/seeded/$id && cp -r seeded/$id/* /tmp/seeded/$id/
  tools/try_seed.sh $id $prop | cut -c1-160
done

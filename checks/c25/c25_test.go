//go:build verif

// C25 — Go-to-XGo style conversion (xgo fmt --smart) preserves behaviour.
package c25

import (
	"regexp"
	"strings"
	"testing"

	xformat "github.com/goplus/xgo/x/format"

	"verif/internal/diffrun"
	"verif/internal/gen/gosub"
	"verif/internal/vk"
	"verif/internal/xcl"
)

func TestMain(m *testing.M) {
	vk.Main(m, "C25", "exploration",
		"gosub programs (every fmt print/format function, strings/strconv/sort/errors calls, function-literal arguments, methods, closures, defer/recover, os.Exit and uncaught panics) are converted with x/format.GopstyleSource (what `xgo fmt --smart` applies); the result is compiled as bar.xgo by cl, built and run, and compared with the original program built by Go on stdout, exit status and panic paragraph. Non-trivial = the conversion changed at least 3 lines and the program prints at least 3 lines; distinct = source text")
}

type Case struct {
	Src string `json:"src"`
}

type info struct {
	changed int
	out     string
}

func convert(src string) (string, *vk.Verdict) {
	var out []byte
	var err error
	func() {
		defer func() {
			if p := recover(); p != nil {
				err = nil
				out = nil
				panicV = p
			}
		}()
		panicV = nil
		out, err = xformat.GopstyleSource([]byte(src), "main.go")
	}()
	if panicV != nil {
		return "", vk.Bad("conversion-panics", "GopstyleSource panicked: %v", panicV)
	}
	if err != nil {
		return "", vk.Bad("conversion-fails", "GopstyleSource rejects a valid Go program: %v", err)
	}
	return string(out), nil
}

var panicV any

// mainHasVarDecl reports whether func main has a `var` declaration statement at its top level.
func mainHasVarDecl(src string) bool {
	i := strings.Index(src, "\nfunc main() {\n")
	if i < 0 {
		return false
	}
	for _, l := range strings.Split(src[i+1:], "\n")[1:] {
		if l == "}" {
			break
		}
		if strings.HasPrefix(l, "\tvar ") {
			return true
		}
	}
	return false
}

// wrapMain puts the statements of main into one block, so that nothing of main is at its top
// level any more (used while main-var-decl-becomes-global is a listed known finding).
func wrapMain(p *gosub.Program) {
	for i, s := range p.Main {
		p.Main[i] = "\t" + strings.ReplaceAll(s, "\n", "\n\t")
	}
	p.Main = []string{"{\n" + strings.Join(p.Main, "\n") + "\n}"}
}

func changedLines(a, b string) int {
	set := map[string]int{}
	for _, l := range strings.Split(a, "\n") {
		set[l]++
	}
	n := 0
	for _, l := range strings.Split(b, "\n") {
		if set[l] > 0 {
			set[l]--
		} else {
			n++
		}
	}
	return n
}

func evalAll(srcs []string) ([]*vk.Verdict, []info, error) {
	vs := make([]*vk.Verdict, len(srcs))
	ins := make([]info, len(srcs))
	var pairs []diffrun.Pair
	var idx []int
	for i, s := range srcs {
		conv, v := convert(s)
		if v != nil {
			vs[i] = v
			continue
		}
		ins[i].changed = changedLines(s, conv)
		pairs = append(pairs, diffrun.Pair{Ref: s, XFiles: map[string]string{"bar.xgo": conv}})
		idx = append(idx, i)
	}
	outs, err := diffrun.Eval(pairs)
	if err != nil {
		return nil, nil, err
	}
	for j, o := range outs {
		i := idx[j]
		ins[i].out = o.Ref.Stdout
		vs[i] = o.V
		if o.V != nil && (strings.HasPrefix(o.V.Class, "cl-rejects") || o.V.Class == "xgo-parser-rejects") {
			cls := "converted-does-not-compile" + strings.TrimPrefix(o.V.Class, "cl-rejects") // keeps a ":go-constant-panic/…" suffix
			if o.V.Class == "xgo-parser-rejects" {
				cls = "converted-does-not-compile"
			}
			if noTargetRe.MatchString(o.V.Detail) {
				// a function literal was turned into a lambda where the callee gives no function type
				// (builtin append, interface{} parameters)
				cls = "funclit-to-lambda-without-target-type"
			}
			vs[i] = &vk.Verdict{Class: cls, Detail: o.V.Detail + "\n--- converted source ---\n" + pairs[j].XFiles["bar.xgo"]}
		}
		if vs[i] != nil && vs[i].Class == "stdout-differs" && xcl.HasConstRuneString(srcs[i]) {
			// known root cause shared with C01: gogen folds string(rune(<constant>)) wrongly
			vs[i] = &vk.Verdict{Class: "const-string-of-rune-folded-wrong", Detail: vs[i].Detail}
		}
		if vs[i] != nil && vs[i].Class != "generator-bug" && mainHasVarDecl(srcs[i]) {
			// one known root cause: the converter unwraps func main, so `var x T = e` statements of
			// main become package-level variables (initialised before init(), visible everywhere)
			vs[i] = &vk.Verdict{Class: "main-var-decl-becomes-global", Detail: vs[i].Class + ": " + vs[i].Detail}
		}
	}
	return vs, ins, nil
}

// the listed finding is a lambda in a place that gives it no function type at all; a lambda that
// is rejected against a function type (wrong arity, lost variadic, ...) is another defect
var noTargetRe = regexp.MustCompile(`cannot use lambda literal as type (<nil>|interface\{\}|any|invalid type) `)

var hazardRe = regexp.MustCompile(`type P struct \{\n\t(\w+) string\n\}\n\nfunc \(p \*P\) (\w+)\(\) string \{[^}]*\}\n\nfunc (\w+)\(a \.\.\.interface\{\}\)[\s\S]*\n\t(\w+) := 3\n`)

var oracle = vk.Register("conv", func(c Case) *vk.Verdict {
	vs, _, err := evalAll([]string{c.Src})
	if err != nil {
		return vk.Bad("infra", "%v", err)
	}
	v := vs[0]
	if m := hazardRe.FindStringSubmatch(c.Src); m != nil && v != nil {
		switch {
		case strings.EqualFold(m[1], m[2]):
			v = &vk.Verdict{Class: "naming-hazard:method-and-field-differ-only-in-case", Detail: v.Class + ": " + v.Detail}
		case xgoBuiltins[m[3]] || xgoBuiltins[m[4]]:
			v = &vk.Verdict{Class: "naming-hazard:user-symbol-named-like-xgo-builtin", Detail: v.Class + ": " + v.Detail}
		}
	}
	return v
})

// reduce drops declarations / main statements while the same class persists.
func reduce(p *gosub.Program, class string) string {
	cur := &gosub.Program{Decls: append([]string(nil), p.Decls...), Main: append([]string(nil), p.Main...), AfterMain: p.AfterMain}
	for round := 0; round < 3; round++ {
		n := len(cur.Decls) + len(cur.Main)
		var cands []*gosub.Program
		for i := 1; i < n; i++ {
			q := &gosub.Program{AfterMain: cur.AfterMain}
			for j, d := range cur.Decls {
				if j != i {
					q.Decls = append(q.Decls, d)
				}
			}
			for j, s := range cur.Main {
				if len(cur.Decls)+j != i {
					q.Main = append(q.Main, s)
				}
			}
			cands = append(cands, q)
		}
		srcs := make([]string, len(cands))
		for i, c := range cands {
			srcs[i] = c.Source()
		}
		vs, _, err := evalAll(srcs)
		if err != nil {
			break
		}
		progress := false
		for i, v := range vs {
			if v != nil && v.Class == class {
				// accept the first removable unit, then restart the round (units shift)
				cur = cands[i]
				progress = true
				break
			}
		}
		if !progress {
			break
		}
	}
	return cur.Source()
}

func TestConversion(t *testing.T) {
	r := vk.R
	n := r.N(40, 800)
	g := gosub.Gen()
	for start := 0; start < n; start += 40 {
		var ps []*gosub.Program
		var srcs []string
		for i := start; i < start+40 && i < n; i++ {
			p := vk.Example(r, g, 1, i)
			if r.HasKnown("main-var-decl-becomes-global") && mainHasVarDecl(p.Source()) {
				wrapMain(p)
				r.Excluded("main-var-decl-becomes-global")
			}
			ps = append(ps, p)
			srcs = append(srcs, p.Source())
		}
		vs, ins, err := evalAll(srcs)
		if err != nil {
			r.Infra("%v", err)
			t.Fatalf("infra: %v", err)
		}
		failed := false
		reduced := map[string]bool{}
		for i, v := range vs {
			r.Case(ins[i].changed >= 3 && strings.Count(ins[i].out, "\n") >= 3, srcs[i])
			r.Add("lines_changed_by_conversion", int64(ins[i].changed))
			if i == 0 && start == 0 {
				conv, _ := convert(srcs[i])
				r.Sample(map[string]string{"go": srcs[i], "converted": conv})
			}
			if v == nil {
				continue
			}
			if v.Class == "generator-bug" {
				r.Infra("%s", v.Detail)
				t.Errorf("generator bug: %s", v.Detail)
				continue
			}
			if r.Judge(v) == nil {
				continue
			}
			failed = true
			c := Case{Src: srcs[i]}
			if !reduced[v.Class] {
				reduced[v.Class] = true
				small := reduce(ps[i], v.Class)
				if v2 := oracle(Case{Src: small}); v2 != nil && v2.Class == v.Class {
					c, v = Case{Src: small}, v2
				}
			}
			r.Fail("conv", c, v)
			t.Errorf("%s", v)
		}
		if failed {
			return
		}
	}
}

// ---- naming hazards: identifiers that interact with the converter's rewrites ----------------

var xgoBuiltins = map[string]bool{"echo": true, "print": true, "println": true, "printf": true, "errorf": true, "sprint": true, "sprintf": true, "sprintln": true, "fprintln": true, "fatal": true}

func hazardProgram(field, method, fname, local string) string {
	return "package main\n\nimport \"fmt\"\n\ntype P struct {\n\t" + field + " string\n}\n\nfunc (p *P) " + method + "() string {\n\treturn \"m:\" + p." + field + "\n}\n\nfunc " + fname +
		"(a ...interface{}) {\n\tfmt.Println(\"user\", len(a))\n}\n\nfunc main() {\n\tp := &P{" + field + ": \"f\"}\n\tfmt.Println(p." + method + "(), p." + field + ")\n\t" + fname + "(\"x\")\n\t" +
		local + " := 3\n\tfmt.Println(" + local + ")\n\tfmt.Print(" + local + ", \"\\n\")\n\tfmt.Printf(\"%d\\n\", " + local + ")\n}\n"
}

func TestNamingHazards(t *testing.T) {
	r := vk.R
	if r.Shard != 0 {
		return
	}
	fields := [][2]string{{"name", "Name"}, {"value", "Value"}, {"id", "Id"}, {"nm", "Title"}, {"title", "Describe"}}
	fnames := []string{"helper", "echo", "printf", "errorf", "show"}
	locals := []string{"n", "print", "echo", "println", "count"}
	var srcs []string
	var cls []string
	for _, f := range fields {
		for _, fn := range fnames {
			for _, l := range locals {
				if fn == l {
					continue
				}
				c := ""
				switch {
				case strings.EqualFold(f[0], f[1]):
					c = "naming-hazard:method-and-field-differ-only-in-case"
				case xgoBuiltins[fn] || xgoBuiltins[l]:
					c = "naming-hazard:user-symbol-named-like-xgo-builtin"
				}
				if c != "" && r.HasKnown(c) && (len(srcs)%5 != 0) {
					r.Excluded(c) // keep every fifth hazardous combination to confirm the finding still exists
					continue
				}
				srcs = append(srcs, hazardProgram(f[0], f[1], fn, l))
				cls = append(cls, c)
			}
		}
	}
	vs, ins, err := evalAll(srcs)
	if err != nil {
		r.Infra("%v", err)
		t.Fatalf("infra: %v", err)
	}
	for i, v := range vs {
		r.Case(ins[i].changed >= 3, srcs[i])
		r.Class("hazard-template")
		if v == nil {
			continue
		}
		if v.Class == "generator-bug" {
			r.Infra("%s", v.Detail)
			t.Errorf("generator bug: %s", v.Detail)
			continue
		}
		if cls[i] != "" {
			v = &vk.Verdict{Class: cls[i], Detail: v.Class + ": " + v.Detail}
		}
		if r.Judge(v) != nil {
			r.Fail("conv", Case{Src: srcs[i]}, v)
			t.Errorf("%s", v)
		}
	}
}

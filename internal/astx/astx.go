// Package astx holds reflection-based tree tools over xgo/ast (and go/ast): they never use
// ast.Walk, so a traversal bug in the code under test cannot hide or fake a result.
package astx

import (
	goast "go/ast"
	gotoken "go/token"
	"reflect"
	"strings"

	"github.com/goplus/xgo/ast"
)

var (
	nodeType  = reflect.TypeOf((*goast.Node)(nil)).Elem()
	posType   = reflect.TypeOf(gotoken.Pos(0))
	objType   = reflect.TypeOf((*ast.Object)(nil))
	scopeType = reflect.TypeOf((*ast.Scope)(nil))
	goObjType = reflect.TypeOf((*goast.Object)(nil))
	goScpType = reflect.TypeOf((*goast.Scope)(nil))
)

// Child is one child node with the struct field (and index) that holds it.
type Child struct {
	Node  goast.Node
	Field string
	Index int // -1 if not in a slice
}

// skipField lists fields that are not part of the tree proper.
func skipField(structName, field string) bool {
	switch structName + "." + field {
	case "File.Comments", "File.Imports", "File.Unresolved", "File.Scope", "File.ShadowEntry", "Ident.Obj",
		"File.Code", "Package.Imports", "Package.Scope", "Package.GoFiles":
		return true
	}
	return false
}

// IncludeComments, when set on Options, also yields Doc/Comment comment groups as children.
type Options struct {
	Comments bool
}

// Children lists the non-nil child nodes of n in field declaration order, looking inside
// []any / any holders (StringLitEx.Parts, DomainTextLit.Extra, ...).
func Children(n goast.Node, opt Options) []Child {
	var out []Child
	v := reflect.ValueOf(n)
	if !v.IsValid() || v.Kind() != reflect.Ptr || v.IsNil() {
		return nil
	}
	v = v.Elem()
	if v.Kind() != reflect.Struct {
		return nil
	}
	t := v.Type()
	for i := 0; i < v.NumField(); i++ {
		f := t.Field(i)
		if !f.IsExported() || skipField(t.Name(), f.Name) {
			continue
		}
		collect(v.Field(i), f.Name, -1, opt, &out, 0)
	}
	return out
}

func isNilable(k reflect.Kind) bool {
	switch k {
	case reflect.Ptr, reflect.Interface, reflect.Slice, reflect.Map, reflect.Func, reflect.Chan:
		return true
	}
	return false
}

func collect(v reflect.Value, field string, idx int, opt Options, out *[]Child, depth int) {
	if depth > 6 {
		return
	}
	if isNilable(v.Kind()) && v.IsNil() {
		return
	}
	t := v.Type()
	if t == objType || t == scopeType || t == goObjType || t == goScpType {
		return
	}
	switch v.Kind() {
	case reflect.Interface:
		collect(v.Elem(), field, idx, opt, out, depth+1)
	case reflect.Ptr:
		if t.Implements(nodeType) {
			if _, isCG := v.Interface().(*goast.CommentGroup); isCG && !opt.Comments {
				return
			}
			if _, isC := v.Interface().(*goast.Comment); isC && !opt.Comments {
				return
			}
			*out = append(*out, Child{Node: v.Interface().(goast.Node), Field: field, Index: idx})
			return
		}
		// pointer to a non-node struct that may hold nodes (e.g. *DomainTextLitEx held in any)
		if v.Elem().Kind() == reflect.Struct {
			collectStruct(v.Elem(), field, opt, out, depth+1)
		}
	case reflect.Slice:
		if t.Elem().Kind() == reflect.Uint8 {
			return
		}
		for i := 0; i < v.Len(); i++ {
			collect(v.Index(i), field, i, opt, out, depth+1)
		}
	case reflect.Struct:
		// a struct value that is not itself a node (rare) – look inside
		if reflect.PointerTo(t).Implements(nodeType) && v.CanAddr() {
			*out = append(*out, Child{Node: v.Addr().Interface().(goast.Node), Field: field, Index: idx})
			return
		}
		collectStruct(v, field, opt, out, depth+1)
	}
}

func collectStruct(v reflect.Value, field string, opt Options, out *[]Child, depth int) {
	t := v.Type()
	for i := 0; i < v.NumField(); i++ {
		f := t.Field(i)
		if !f.IsExported() || skipField(t.Name(), f.Name) {
			continue
		}
		collect(v.Field(i), field+"."+f.Name, -1, opt, out, depth)
	}
}

// Walk visits n and all descendants in pre-order. visit returns false to skip the children.
func Walk(n goast.Node, opt Options, visit func(n, parent goast.Node, field string) bool) {
	var rec func(n, parent goast.Node, field string, depth int)
	rec = func(n, parent goast.Node, field string, depth int) {
		if !visit(n, parent, field) || depth > 100000 {
			return
		}
		for _, c := range Children(n, opt) {
			rec(c.Node, n, c.Field, depth+1)
		}
	}
	rec(n, nil, "", 0)
}

// TypeName returns the short type name of a node ("BinaryExpr").
func TypeName(n any) string {
	t := reflect.TypeOf(n)
	if t == nil {
		return "<nil>"
	}
	for t.Kind() == reflect.Ptr {
		t = t.Elem()
	}
	return t.Name()
}

// HasBad reports the first Bad* node found in the tree (by reflection).
func HasBad(root goast.Node) string {
	found := ""
	Walk(root, Options{}, func(n, _ goast.Node, _ string) bool {
		if found != "" {
			return false
		}
		if name := TypeName(n); strings.HasPrefix(name, "Bad") {
			found = name
			return false
		}
		return true
	})
	return found
}

// Count returns the number of nodes and a histogram of node type names.
func Count(root goast.Node) (int, map[string]int) {
	h := map[string]int{}
	n := 0
	Walk(root, Options{}, func(x, _ goast.Node, _ string) bool {
		n++
		h[TypeName(x)]++
		return true
	})
	return n, h
}

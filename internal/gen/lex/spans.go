package lex

import (
	gotoken "go/token"

	"github.com/goplus/xgo/scanner"
	"github.com/goplus/xgo/token"
	"pgregory.net/rapid"
)

// Tok is one token as returned by the XGo scanner.
type Tok struct {
	Off int
	Tok token.Token
	Lit string
}

// Scan tokenises src with the XGo scanner (comments included). It stops after 2*len+4 calls
// and recovers from panics: it is a helper for cut points, not an oracle.
func Scan(src []byte) (toks []Tok) {
	defer func() { recover() }()
	fset := gotoken.NewFileSet()
	f := fset.AddFile("x.xgo", -1, len(src))
	var s scanner.Scanner
	s.Init(f, src, func(gotoken.Position, string) {}, scanner.ScanComments)
	for i := 0; i < 2*len(src)+4; i++ {
		pos, tok, lit := s.Scan()
		if tok == token.EOF {
			break
		}
		toks = append(toks, Tok{f.Offset(pos), tok, lit})
	}
	return
}

// Spans returns approximate token spans (offset .. offset of next token, trimmed of trailing
// whitespace) usable as cut points for Mutate.
func Spans(src []byte) []Span {
	toks := Scan(src)
	var out []Span
	for i, t := range toks {
		if t.Tok == token.SEMICOLON && t.Lit == "\n" {
			continue
		}
		end := len(src)
		if i+1 < len(toks) {
			end = toks[i+1].Off
		}
		if end < t.Off {
			continue
		}
		for end > t.Off && (src[end-1] == ' ' || src[end-1] == '\n' || src[end-1] == '\t' || src[end-1] == '\r') {
			end--
		}
		if end > t.Off {
			out = append(out, Span{t.Off, end})
		}
	}
	return out
}

// CorpusMutant draws a corpus file (one of exts) and mutates it at token level.
func CorpusMutant(exts ...string) *rapid.Generator[[]byte] {
	return rapid.Custom(func(t *rapid.T) []byte {
		files := Corpus(exts...)
		f := files[rapid.IntRange(0, len(files)-1).Draw(t, "file")]
		src := f.Src
		if len(src) > 6000 { // keep cases small: take a window starting at a line start
			start := rapid.IntRange(0, len(src)-3000).Draw(t, "win")
			for start > 0 && src[start-1] != '\n' {
				start--
			}
			end := start + 3000
			if end > len(src) {
				end = len(src)
			}
			src = src[start:end]
		}
		return Mutate(t, src, Spans(src), XGoLexeme())
	})
}

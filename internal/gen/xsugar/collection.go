package xsugar

import (
	"fmt"
	"strings"
)

// CollectionDecls are helper declarations used by the collection items (same text both sides).
const CollectionDecls = `
var rlo0, rhi6, rst2 = 0, 6, 2

func show(a int, b int) {
	fmt.Println("  show", a, b)
}

func show1(a int) {
	fmt.Println("  show1", a)
}

func shows(a string, b ...int) {
	fmt.Println("  shows", a, b)
}

func add3(a, b, c int) int {
	return a + b*10 + c*100
}

func apply(n int, f func(int) int) int {
	return f(n) + 1
}

func each(xs []int, f func(int)) {
	for _, x := range xs {
		f(x)
	}
}

func (b *box) put(v int) {
	b.items = append(b.items, v)
}

func (b *box) put2(v int, tag string) {
	b.items = append(b.items, v)
	b.tags = append(b.tags, tag)
}
`

type phrase struct {
	key, val      string // loop variables ("" = absent)
	kind          string // list | map | range | strlist
	cx, cg        string // container spellings
	lo, hi        int    // for range
	rlo, rhi, rst string // range with expression operands (non-empty: used instead of lo/hi)
	filter        string // "" = none (same text both sides)
	blankVal      bool   // written `key, _ <- c`: the value variable does not exist
	blankKey      bool   // written `_, val <- c` (key == "")
}

func (p phrase) intVars() []string {
	var v []string
	switch p.kind {
	case "list", "range":
		if p.key != "" {
			v = append(v, p.key)
		}
		if !p.blankVal {
			v = append(v, p.val)
		}
	case "map":
		if !p.blankVal {
			v = append(v, p.val)
		}
	case "strlist":
		if p.key != "" {
			v = append(v, p.key)
		}
	}
	return v
}

// xHead renders `k, v <- container [if filter]`.
func (p phrase) xHead(arrow string) string {
	vars := p.val
	switch {
	case p.blankVal:
		vars = p.key + ", _"
	case p.blankKey:
		vars = "_, " + p.val
	case p.key != "":
		vars = p.key + ", " + p.val
	}
	s := vars + " " + arrow + " " + p.cx
	if p.filter != "" {
		s += " if " + p.filter
	}
	return s
}

// gOpen renders the Go loop header (and the filter's if) and returns the number of closing braces.
func (p phrase) gOpen() (string, int) {
	var s string
	switch p.kind {
	case "range":
		if p.rlo != "" { // operands are expressions: evaluated once, in order, before the loop
			s = fmt.Sprintf("for %s, %s_hi, %s_st := %s, %s, %s; %s < %s_hi; %s += %s_st {\n", p.val, p.val, p.val, p.rlo, p.rhi, p.rst, p.val, p.val, p.val, p.val)
		} else {
			s = fmt.Sprintf("for %s := %d; %s < %d; %s++ {\n", p.val, p.lo, p.val, p.hi, p.val)
		}
	default:
		k := "_"
		if p.key != "" {
			k = p.key
		}
		if p.blankVal {
			s = fmt.Sprintf("for %s := range %s {\n", k, p.cg)
		} else {
			s = fmt.Sprintf("for %s, %s := range %s {\n", k, p.val, p.cg)
		}
		if p.key != "" {
			s += "_ = " + p.key + "\n"
		}
	}
	if !p.blankVal {
		s += "_ = " + p.val + "\n"
	}
	n := 1
	if p.filter != "" {
		s += "if " + p.filter + " {\n"
		n++
	}
	return s, n
}

// phrases draws 1..3 for-phrases; index 0 is written first (innermost), the last is outermost.
func (g *G) phrases(outer []string, max int, allowMap bool) []phrase {
	n := 1
	if max > 1 {
		n = 1 + g.Intn(max, "nphrase")
		if n > 1 && g.Chance(50, "single") {
			n = 1
		}
	}
	ps := make([]phrase, n)
	visible := append([]string(nil), outer...) // variables visible to the phrase being drawn
	for i := n - 1; i >= 0; i-- {              // draw from the outermost inwards
		var p phrase
		p.val = g.Var("v")
		kinds := []string{"list", "list", "list", "range", "strlist"}
		if allowMap && n == 1 {
			kinds = append(kinds, "map")
		}
		p.kind = kinds[g.Intn(len(kinds), "ckind")]
		withKey := g.Chance(35, "withkey")
		switch p.kind {
		case "list":
			src := outer
			if g.Chance(25, "dep") {
				src = visible // container may depend on outer loop variables
			}
			p.cx, p.cg = g.IntList(src, true)
			if withKey {
				p.key = g.Var("i")
			}
		case "strlist":
			n := g.Intn(4, "sn")
			var el []string
			for j := 0; j < n; j++ {
				el = append(el, fmt.Sprintf("%q", strings.Repeat(string(rune('a'+j)), 1+g.Intn(3, "sl"))))
			}
			p.cx, p.cg = "["+strings.Join(el, ", ")+"]", "[]string{"+strings.Join(el, ", ")+"}"
			if n == 0 {
				p.cx = "[]string{}"
			}
			if withKey || true { // the int index is what int expressions can use
				p.key = g.Var("i")
			}
		case "map":
			p.cx, p.cg = g.StrMap(outer)
			if withKey {
				p.key = g.Var("k")
			}
		case "range":
			p.lo, p.hi = g.Intn(4, "lo"), g.Intn(7, "hi")
			p.cx = fmt.Sprintf("%d:%d", p.lo, p.hi)
			if p.lo == 0 && g.Chance(50, "omitlo") {
				p.cx = fmt.Sprintf(":%d", p.hi)
			}
			if g.Chance(50, "exprrange") {
				// each operand independently a literal, a variable or a traced call; positive step
				operand := func(lit int, v string) string {
					switch g.Intn(3, "opform") {
					case 0:
						return fmt.Sprint(lit)
					case 1:
						return v
					}
					return fmt.Sprintf("t(%q, %d)", g.Tag(), lit)
				}
				p.rlo, p.rhi, p.rst = operand(g.Intn(3, "rlo"), "rlo0"), operand(3+g.Intn(5, "rhi"), "rhi6"), operand(1+g.Intn(3, "rst"), "rst2")
				p.cx = p.rlo + ":" + p.rhi + ":" + p.rst
			}
		}
		// blank forms: `k, _ <- c` (key only) and `_, v <- c`
		if p.kind != "range" {
			switch {
			case p.key != "" && g.Chance(25, "blankval"):
				p.blankVal = true
			case p.key == "" && g.Chance(25, "blankkey"):
				p.blankKey = true
			}
		}
		ps[i] = p
		visible = append(visible, p.intVars()...)
		if g.Chance(55, "filter") {
			// the filter of phrase i may use the variables of phrases i..n-1 (already in visible)
			ps[i].filter = g.BoolExpr(visible, 2)
		}
	}
	return ps
}

// useAll makes the innermost phrase's filter mention every int loop variable, so that neither
// side has an unused variable (XGo does not diagnose those; Go does).
func useAll(ps []phrase) {
	for i := range ps { // string loop variables: mention them in their own phrase's filter
		if (ps[i].kind == "strlist" && !ps[i].blankVal) || (ps[i].kind == "map" && ps[i].key != "") {
			name := ps[i].val
			if ps[i].kind == "map" {
				name = ps[i].key
			}
			m := "(len(" + name + ") >= 0)"
			if ps[i].filter == "" {
				ps[i].filter = m
			} else {
				ps[i].filter += " && " + m
			}
		}
	}
	vars := allIntVars(ps, nil)
	if len(vars) == 0 {
		return
	}
	m := "(" + strings.Join(vars, "+") + " > -99999)"
	if ps[0].filter == "" {
		ps[0].filter = m
	} else {
		ps[0].filter = ps[0].filter + " && " + m
	}
}

func allIntVars(ps []phrase, outer []string) []string {
	v := append([]string(nil), outer...)
	for _, p := range ps {
		v = append(v, p.intVars()...)
	}
	return v
}

func xPhrases(ps []phrase) string {
	var parts []string
	for _, p := range ps {
		parts = append(parts, "for "+p.xHead("<-"))
	}
	return strings.Join(parts, " ")
}

// gLoops renders nested Go loops (last phrase outermost) around body.
func gLoops(ps []phrase, body string) string {
	var b strings.Builder
	closes := 0
	for i := len(ps) - 1; i >= 0; i-- {
		s, n := ps[i].gOpen()
		b.WriteString(s)
		closes += n
	}
	b.WriteString(body + "\n")
	b.WriteString(strings.Repeat("}\n", closes))
	return b.String()
}

func hasMap(ps []phrase) bool {
	for _, p := range ps {
		if p.kind == "map" {
			return true
		}
	}
	return false
}

func phraseKey(ps []phrase) string {
	var parts []string
	for _, p := range ps {
		f := ""
		if p.filter != "" {
			f = "+if"
		}
		k := ""
		if p.key != "" {
			k = "+key"
		}
		if p.blankVal {
			k += "+blankval"
		}
		if p.blankKey {
			k += "+blankkey"
		}
		parts = append(parts, p.kind+k+f)
	}
	return strings.Join(parts, "/")
}

func nontrivialPhrases(ps []phrase, extra string) bool {
	if len(ps) >= 2 {
		return true
	}
	for _, p := range ps {
		if p.filter != "" || strings.Contains(p.cx, "t(") || strings.Contains(p.cx, "tl(") {
			return true
		}
	}
	return strings.Contains(extra, "t(")
}

// CollectionItem draws one item of the C02 family.
func (g *G) CollectionItem() Item {
	kinds := []string{"listlit", "maplit", "append", "forin", "forin", "listcompr", "listcompr", "mapcompr", "select", "exists", "command", "command"}
	switch k := kinds[g.Intn(len(kinds), "kind")]; k {
	case "listlit":
		return g.listLit()
	case "maplit":
		return g.mapLit()
	case "append":
		return g.appendItem()
	case "forin":
		return g.forIn()
	case "listcompr":
		return g.listCompr()
	case "mapcompr":
		return g.mapCompr()
	case "select":
		return g.selectCompr()
	case "exists":
		return g.existsCompr()
	default:
		return g.command()
	}
}

func (g *G) listLit() Item {
	type form struct{ x, g, name string }
	a, b, c := g.IntExpr(nil, 2), g.IntExpr(nil, 2), g.IntExpr(nil, 1)
	forms := []form{
		{fmt.Sprintf("[%s, %s, %s]", a, b, c), fmt.Sprintf("[]int{%s, %s, %s}", a, b, c), "int"},
		{fmt.Sprintf("[%s, 2.5, %s]", a, b), fmt.Sprintf("[]float64{float64(%s), 2.5, float64(%s)}", a, b), "float"},
		{`["a", ts("s", "b")]`, `[]string{"a", ts("s", "b")}`, "string"},
		{fmt.Sprintf(`["a", %s]`, a), fmt.Sprintf(`[]interface{}{"a", %s}`, a), "mixed"},
		{"[]", "[]interface{}{}", "empty"},
		{fmt.Sprintf("[[%s, %s], [%s]]", a, b, c), fmt.Sprintf("[][]int{{%s, %s}, {%s}}", a, b, c), "nested"},
		{fmt.Sprintf("[%s > 1, true]", a), fmt.Sprintf("[]bool{%s > 1, true}", a), "bool"},
		{fmt.Sprintf("[rec{\"x\", %s}, rec{nm: \"y\"}]", a), fmt.Sprintf("[]rec{{\"x\", %s}, {nm: \"y\"}}", a), "struct"},
		{fmt.Sprintf("[]float64([%s, %s])", a, b), fmt.Sprintf("[]float64{float64(%s), float64(%s)}", a, b), "cast"},
	}
	f := forms[g.Intn(len(forms), "form")]
	if g.Chance(30, "typed-target") {
		// the literal meets a target type: typed variable, function result, struct field, call argument
		l1, l2 := g.Intn(9, "l1"), g.Intn(9, "l2")
		typed := []form{
			{fmt.Sprintf("var x []float64 = [%d, %d]", l1, l2), fmt.Sprintf("var x []float64 = []float64{%d, %d}", l1, l2), "target-float-var"},
			{fmt.Sprintf("var x []interface{} = [%d, \"a\"]", l1), fmt.Sprintf("var x []interface{} = []interface{}{%d, \"a\"}", l1), "target-any-var"},
			{fmt.Sprintf("x := func() []int {\n\treturn [%s, %s]\n}()", a, b), fmt.Sprintf("x := func() []int {\n\treturn []int{%s, %s}\n}()", a, b), "target-result"},
			{fmt.Sprintf("x := struct{ v []int64 }{v: [%d, %d]}.v", l1, l2), fmt.Sprintf("x := struct{ v []int64 }{v: []int64{%d, %d}}.v", l1, l2), "target-field"},
		}
		f = typed[g.Intn(len(typed), "tform")]
		body := "fmt.Printf(\"  %T %v %d\\n\", x, x, len(x))\nflush(false)"
		return Item{Kind: "listlit", X: f.x + "\n" + body, G: f.g + "\n" + body,
			Key: "listlit/" + f.name + "/" + f.x, NonTrivial: true, Labels: []string{"elem=" + f.name}}
	}
	if f.name == "float" || f.name == "cast" {
		// float64(t(...)) on the Go side must see the same int expression: only constant ints are
		// converted implicitly by XGo, so use literals here.
		l1, l2 := g.Intn(9, "l1"), g.Intn(9, "l2")
		if f.name == "float" {
			f.x, f.g = fmt.Sprintf("[%d, 2.5, %d]", l1, l2), fmt.Sprintf("[]float64{%d, 2.5, %d}", l1, l2)
		} else {
			f.x, f.g = fmt.Sprintf("[]float64([%d, %d])", l1, l2), fmt.Sprintf("[]float64{%d, %d}", l1, l2)
		}
	}
	body := "fmt.Printf(\"  %%T %%v %%d\\n\", x, x, len(x))\nflush(false)"
	return Item{Kind: "listlit", X: "x := " + f.x + "\n" + body, G: "x := " + f.g + "\n" + body,
		Key: "listlit/" + f.name + "/" + f.x, NonTrivial: strings.Contains(f.x, "t("), Labels: []string{"elem=" + f.name}}
}

func (g *G) mapLit() Item {
	type form struct{ x, g, name string }
	a, b := g.IntExpr(nil, 2), g.IntExpr(nil, 2)
	forms := []form{
		{fmt.Sprintf(`{"a": %s, "b": %s}`, a, b), fmt.Sprintf(`map[string]int{"a": %s, "b": %s}`, a, b), "int"},
		{`{"a": 1, "b": 2.5}`, `map[string]float64{"a": 1, "b": 2.5}`, "float"},
		{fmt.Sprintf(`{"a": %s, "b": "x"}`, a), fmt.Sprintf(`map[string]interface{}{"a": %s, "b": "x"}`, a), "mixed"},
		{"{}", "map[string]interface{}{}", "empty"},
		{fmt.Sprintf(`{1: "a", %s: "b"}`, "7"), `map[int]string{1: "a", 7: "b"}`, "intkey"},
		{fmt.Sprintf(`{"a": [%s], "b": [%s, 3]}`, a, b), fmt.Sprintf(`map[string][]int{"a": {%s}, "b": {%s, 3}}`, a, b), "listval"},
		{fmt.Sprintf(`{ts("k", "a"): %s}`, a), fmt.Sprintf(`map[string]int{ts("k", "a"): %s}`, a), "tracedkey"},
	}
	f := forms[g.Intn(len(forms), "form")]
	if g.Chance(30, "typed-target") {
		typed := []form{
			{`var x map[string]float64 = {"a": 1, "b": 2}`, `var x map[string]float64 = map[string]float64{"a": 1, "b": 2}`, "target-float-var"},
			{fmt.Sprintf(`var x map[string]interface{} = {"a": %s}`, a), fmt.Sprintf(`var x map[string]interface{} = map[string]interface{}{"a": %s}`, a), "target-any-var"},
			{fmt.Sprintf("x := func() map[string]int {\n\treturn {\"k\": %s}\n}()", a), fmt.Sprintf("x := func() map[string]int {\n\treturn map[string]int{\"k\": %s}\n}()", a), "target-result"},
			{`var x map[string]int = {}`, `var x map[string]int = map[string]int{}`, "target-empty"},
			{fmt.Sprintf(`var x map[int][]float64 = {1: [%s > 1 ? 1 : 2]}`, "0"), "", "skip"},
		}
		t := typed[g.Intn(len(typed)-1, "tform")]
		body := "fmt.Printf(\"  %T %v %d\\n\", x, x, len(x))\nflush(false)"
		return Item{Kind: "maplit", X: t.x + "\n" + body, G: t.g + "\n" + body,
			Key: "maplit/" + t.name + "/" + t.x, NonTrivial: true, Labels: []string{"elem=" + t.name}}
	}
	body := "fmt.Printf(\"  %%T %%v %%d\\n\", x, x, len(x))\nflush(false)"
	return Item{Kind: "maplit", X: "x := " + f.x + "\n" + body, G: "x := " + f.g + "\n" + body,
		Key: "maplit/" + f.name + "/" + f.x, NonTrivial: strings.Contains(f.x, "t("), Labels: []string{"elem=" + f.name}}
}

func (g *G) appendItem() Item {
	lx, lg := g.IntList(nil, false)
	x := "a := " + lx + "\nbx := &box{}\n"
	gg := "a := " + lg + "\nbx := &box{}\n"
	n := 1 + g.Intn(4, "nappend")
	var key []string
	for i := 0; i < n; i++ {
		switch g.Intn(5, "aform") {
		case 0:
			e := g.IntExpr([]string{"len(a)"}, 2)
			x += "a <- " + e + "\n"
			gg += "a = append(a, " + e + ")\n"
			key = append(key, "one")
		case 1:
			e1, e2 := g.IntExpr(nil, 2), g.IntExpr(nil, 2)
			x += "a <- " + e1 + ", " + e2 + "\n"
			gg += "a = append(a, " + e1 + ", " + e2 + ")\n"
			key = append(key, "many")
		case 2:
			sx, sg := g.IntList(nil, true)
			x += "a <- " + sx + "...\n"
			gg += "a = append(a, " + sg + "...)\n"
			key = append(key, "spread")
		case 3:
			e := g.IntExpr(nil, 2)
			x += "bx.items <- " + e + "\n"
			gg += "bx.items = append(bx.items, " + e + ")\n"
			key = append(key, "selector")
		case 4:
			x += "bx.tags <- \"p\", ts(\"q\", \"q\")\n"
			gg += "bx.tags = append(bx.tags, \"p\", ts(\"q\", \"q\"))\n"
			key = append(key, "selector-str")
		}
	}
	tail := "fmt.Println(\" \", a, len(a), bx.items, bx.tags)\nflush(false)"
	return Item{Kind: "append", X: x + tail, G: gg + tail, Key: "append/" + strings.Join(key, ",") + x,
		NonTrivial: n >= 2 || strings.Contains(x, "t("), Labels: []string{fmt.Sprintf("appends=%d", n)}}
}

func (g *G) forIn() Item {
	ps := g.phrases(nil, 1, true)
	p := ps[0]
	vars := p.intVars()
	arrow := []string{"<-", "<-", "in"}[g.Intn(3, "arrow")]
	if p.filter != "" {
		arrow = "<-" // the docs give the `if` form for for/<- loops
	}
	elt := g.IntExpr(vars, 2)
	isMap := p.kind == "map"
	var body string
	if p.kind == "strlist" && p.blankVal {
		body = "acc += " + elt + "\nout = append(out, fmt.Sprint(" + p.key + "))"
	} else if p.kind == "strlist" {
		body = "acc += " + elt + " + len(" + p.val + ")\nout = append(out, " + p.val + ")"
	} else if isMap {
		body = "acc += " + elt
		if p.key != "" {
			body += "\nout = append(out, " + p.key + ")"
		}
	} else {
		body = "acc += " + elt + "\nout = append(out, fmt.Sprint(" + strings.Join(vars, ", \":\", ") + "))"
	}
	if !p.blankVal {
		body = "_ = " + p.val + "\n" + body
	}
	if p.key != "" {
		body = "_ = " + p.key + "\n" + body
	}
	head := "acc := 0\nvar out []string\n"
	x := head + "for " + p.xHead(arrow) + " {\n" + indent(body) + "\n}\n"
	gg := head + gLoops(ps, body)
	tail := "fmt.Println(\" \", acc, out)\nflush(false)"
	if isMap {
		tail = "fmt.Println(\" \", acc, sortedS(out))\nflush(true)"
	}
	return Item{Kind: "forin", X: x + tail, G: gg + tail, Key: "forin/" + arrow + "/" + phraseKey(ps) + x,
		NonTrivial: nontrivialPhrases(ps, elt), Labels: []string{"container=" + p.kind, "arrow=" + arrow}}
}

func (g *G) listCompr() Item {
	ps := g.phrases(nil, 3, true)
	useAll(ps)
	vars := allIntVars(ps, nil)
	elt := g.IntExpr(vars, 2)
	etype := "int"
	switch g.Intn(4, "eltform") {
	case 0:
		if len(vars) >= 2 {
			elt, etype = "["+vars[0]+", "+vars[len(vars)-1]+"]", "[]int"
		}
	case 1:
		for _, p := range ps {
			if p.kind == "strlist" && !p.blankVal {
				elt, etype = p.val+" + \"!\"", "string"
			}
		}
	}
	gelt := elt
	if etype == "[]int" {
		gelt = "[]int{" + vars[0] + ", " + vars[len(vars)-1] + "}"
	}
	x := "r := [" + elt + " " + xPhrases(ps) + "]\n"
	gg := "r := func() []" + etype + " {\nvar r []" + etype + "\n" + gLoops(ps, "r = append(r, "+gelt+")") + "return r\n}()\n"
	tail := "fmt.Println(\" \", r, len(r))\nflush(false)"
	if hasMap(ps) {
		if etype == "int" {
			tail = "fmt.Println(\" \", sorted(r), len(r))\nflush(true)"
		} else {
			tail = "fmt.Println(\" \", len(r))\nflush(true)"
		}
	}
	return Item{Kind: "listcompr", X: x + tail, G: gg + tail, Key: "listcompr/" + etype + "/" + phraseKey(ps) + x,
		NonTrivial: nontrivialPhrases(ps, elt), Labels: []string{fmt.Sprintf("phrases=%d", len(ps)), "elem=" + etype}}
}

func (g *G) mapCompr() Item {
	ps := g.phrases(nil, 2, true)
	for i := range ps {
		// a map is ranged over in random order: the comprehension's key has to be the map's own key,
		// otherwise two iterations may write the same key and the survivor depends on that order
		if ps[i].kind == "map" && ps[i].key == "" {
			ps[i].key, ps[i].blankKey = g.Var("k"), false
		}
	}
	useAll(ps)
	vars := allIntVars(ps, nil)
	k, v := g.IntExpr(vars, 1), g.IntExpr(vars, 2)
	ktype := "int"
	for _, p := range ps {
		if p.kind == "strlist" && !p.blankVal && g.Chance(60, "strkey") {
			k, ktype = p.val, "string"
		}
		if p.kind == "map" && p.key != "" {
			k, ktype = p.key, "string"
		}
	}
	x := "r := {" + k + ": " + v + " " + xPhrases(ps) + "}\n"
	gg := "r := func() map[" + ktype + "]int {\nr := map[" + ktype + "]int{}\n" + gLoops(ps, "r["+k+"] = "+v) + "return r\n}()\n"
	tail := "fmt.Println(\" \", r, len(r))\nflush(" + fmt.Sprint(hasMap(ps)) + ")"
	return Item{Kind: "mapcompr", X: x + tail, G: gg + tail, Key: "mapcompr/" + ktype + "/" + phraseKey(ps) + x,
		NonTrivial: nontrivialPhrases(ps, k+v), Labels: []string{fmt.Sprintf("phrases=%d", len(ps)), "key=" + ktype}}
}

func (g *G) selectCompr() Item {
	ps := g.phrases(nil, 2, false)
	useAll(ps)
	vars := allIntVars(ps, nil)
	elt := g.IntExpr(vars, 2)
	two := g.Chance(55, "twovalue")
	var x, gg, tail string
	fn := "func() (int, bool) {\n" + gLoops(ps, "return "+elt+", true") + "return 0, false\n}()\n"
	if two {
		x = "r, ok := {" + elt + " " + xPhrases(ps) + "}\n"
		gg = "r, ok := " + fn
		tail = "fmt.Println(\" \", r, ok)\nflush(false)"
	} else {
		x = "r := {" + elt + " " + xPhrases(ps) + "}\n"
		gg = "r, _ := " + fn
		tail = "fmt.Println(\" \", r)\nflush(false)"
	}
	return Item{Kind: "select", X: x + tail, G: gg + tail, Key: "select/" + fmt.Sprint(two) + "/" + phraseKey(ps) + x,
		NonTrivial: nontrivialPhrases(ps, elt), Labels: []string{fmt.Sprintf("phrases=%d", len(ps)), fmt.Sprintf("twovalue=%v", two)}}
}

func (g *G) existsCompr() Item {
	ps := g.phrases(nil, 2, false)
	useAll(ps)
	x := "r := {" + xPhrases(ps) + "}\n"
	gg := "r := func() bool {\n" + gLoops(ps, "return true") + "return false\n}()\n"
	tail := "fmt.Println(\" \", r)\nflush(false)"
	return Item{Kind: "exists", X: x + tail, G: gg + tail, Key: "exists/" + phraseKey(ps) + x,
		NonTrivial: nontrivialPhrases(ps, ""), Labels: []string{fmt.Sprintf("phrases=%d", len(ps))}}
}

func (g *G) command() Item {
	a, b, c := g.IntExpr(nil, 2), g.IntExpr(nil, 2), g.IntExpr(nil, 1)
	type form struct{ x, g, name string }
	forms := []form{
		{"show " + a + ", " + b, "show(" + a + ", " + b + ")", "func2"},
		{"show1 " + a, "show1(" + a + ")", "func1"},
		{"show add3(" + a + ", " + b + ", " + c + "), " + c, "show(add3(" + a + ", " + b + ", " + c + "), " + c + ")", "nested-call"},
		{"bx.put " + a + "\nbx.put2 " + b + ", \"z\"", "bx.put(" + a + ")\nbx.put2(" + b + ", \"z\")", "method"},
		{"fmt.Println \"  pl\", " + a + ", " + b, "fmt.Println(\"  pl\", " + a + ", " + b + ")", "pkgfunc"},
		{"echo \"  e\", " + a, "fmt.Println(\"  e\", " + a + ")", "echo"},
		{"println \"  p\", " + a + ", [" + b + "]", "fmt.Println(\"  p\", " + a + ", []int{" + b + "})", "println"},
		{"show -1, " + a, "show(-1, " + a + ")", "negative-literal"},
		{"shows \"v\", " + a + ", " + b, "shows(\"v\", " + a + ", " + b + ")", "variadic"},
		{"shows \"n\"", "shows(\"n\")", "variadic-none"},
		{"show1 apply(" + a + ", x => x*2 + " + c + ")", "show1(apply(" + a + ", func(x int) int { return x*2 + " + c + " }))", "lambda-in-call"},
		{"each [" + a + ", " + b + "], x => {\n\tshow1 x + 1\n}", "each([]int{" + a + ", " + b + "}, func(x int) {\n\tshow1(x + 1)\n})", "lambda-block-last"},
		{"show1 (" + a + ") * 2", "show1((" + a + ") * 2)", "paren-first-arg"},
		{"show {\"a\": " + a + "}[\"a\"], [" + b + ", 4][1]", "show(map[string]int{\"a\": " + a + "}[\"a\"], []int{" + b + ", 4}[1])", "composite-args"},
		{"printf \"  %d-%d\\n\", " + a + ", " + b, "fmt.Printf(\"  %d-%d\\n\", " + a + ", " + b + ")", "printf"},
	}
	f := forms[g.Intn(len(forms), "form")]
	head := "bx := &box{}\n_ = bx\n"
	tail := "\nfmt.Println(\" \", bx.items, bx.tags)\nflush(false)"
	return Item{Kind: "command", X: head + f.x + tail, G: head + f.g + tail, Key: "command/" + f.name + "/" + f.x,
		NonTrivial: strings.Contains(f.x, "t(") || strings.Contains(f.name, "lambda") || strings.Contains(f.name, "nested"), Labels: []string{"command=" + f.name}}
}

// CollectionProgram draws a program of n items of the C02 family.
func CollectionProgram(g *G, n int) *Program {
	p := &Program{DeclsX: []string{CollectionDecls}, DeclsG: []string{CollectionDecls}}
	for i := 0; i < n; i++ {
		p.Items = append(p.Items, g.CollectionItem())
	}
	return p
}

//go:build verif

package c19

import (
	"fmt"
	"os"
	"testing"

	"github.com/goplus/xgo/format"
)

func TestSp(t *testing.T) {
	if os.Getenv("SP") == "" {
		return
	}
	show := func(src string, class bool) {
		defer func() {
			if p := recover(); p != nil {
				fmt.Printf("=== IN\n%s\n=== PANIC %v\n", src, p)
			}
		}()
		out, err := format.Source([]byte(src), class)
		fmt.Printf("=== IN\n%s\n=== OUT (%v)\n%s\n", src, err, out)
		v, _ := check(Case{Src: []byte(src), Class: class})
		fmt.Printf("=== VERDICT %v\n", v)
	}
	b, _ := os.ReadFile(os.Getenv("SP"))
	for _, s := range splitCases(string(b)) {
		show(s, false)
	}
}

func splitCases(s string) []string {
	var out []string
	cur := ""
	for _, l := range append(splitLines(s), "----") {
		if l == "----" {
			if cur != "" {
				out = append(out, cur)
			}
			cur = ""
			continue
		}
		cur += l + "\n"
	}
	return out
}

func splitLines(s string) []string {
	var out []string
	cur := ""
	for _, c := range s {
		if c == '\n' {
			out = append(out, cur)
			cur = ""
		} else {
			cur += string(c)
		}
	}
	if cur != "" {
		out = append(out, cur)
	}
	return out
}

#!/bin/bash
# usage: tools/try_seed.sh <seed-id> <CNN> [<CNN>...] : run checks against /repo + the seeded patch
id=$1; shift
S=/tmp/scratch-seed-$id
P=/tmp/seeded/$id/patch.diff; [ -f /tmp/seeded/$id/patch-current.diff ] && P=/tmp/seeded/$id/patch-current.diff  # re-based on later fix commits
rm -rf $S && cp -a /repo $S && (cd $S && git apply $P) || { echo "patch does not apply"; exit 2; }
for c in "$@"; do
  VK_REPO=$S /verif/check $c ${TIER:-quick} > /tmp/try.$id.$c.out 2>&1; rc=$?
  echo "seed $id check $c rc=$rc $(grep -a -m2 'class=' /tmp/try.$id.$c.out | cut -c1-220 | tr '\n' ' ')"
done
rm -rf $S

package gosub

import (
	"fmt"
	"go/ast"
	"go/importer"
	"go/parser"
	"go/token"
	"go/types"
	"os"
	"testing"

	"pgregory.net/rapid"
)

// TestValid: every generated program must be accepted by go/parser and go/types
// (a rejected program is a generator bug, never a finding).
func TestValid(t *testing.T)      { valid(t, Gen(), 2500) }
func TestValidMarks(t *testing.T) { valid(t, GenOpt(Options{Marks: true, Layout: true}), 800) }

func valid(t *testing.T, g *rapid.Generator[*Program], n int) {
	imp := importer.ForCompiler(token.NewFileSet(), "source", nil)
	feat := map[string]int{}
	lines := 0
	for i := 0; i < n; i++ {
		p := g.Example(i + 1)
		src := p.Source()
		fset := token.NewFileSet()
		f, err := parser.ParseFile(fset, "p.go", src, 0)
		if err != nil {
			os.WriteFile("/tmp/gosub-bad.go", []byte(src), 0o644)
			t.Fatalf("program %d does not parse: %v (saved /tmp/gosub-bad.go)", i, err)
		}
		conf := types.Config{Importer: imp}
		if _, err := conf.Check("main", fset, []*ast.File{f}, nil); err != nil {
			os.WriteFile("/tmp/gosub-bad.go", []byte(src), 0o644)
			t.Fatalf("program %d does not type-check: %v (saved /tmp/gosub-bad.go)", i, err)
		}
		for k, v := range p.Feat {
			feat[k] += v
		}
		for _, c := range src {
			if c == '\n' {
				lines++
			}
		}
	}
	fmt.Println("avg lines", lines/n, feat)
}
